(** C18 proofs, part 1: big-endian octet strings, minimal representations, the canonical DER content
    and the specification-level decoders of Model/Der.v. *)
From CB Require Import Model.Limbs Model.Conv Model.Der Proofs.WordP Proofs.LimbsP Proofs.ConvDigitsP Proofs.ConvBytesP.
From Coq Require Import ZArith Lia List Bool.
Import ListNotations.
Open Scope Z_scope.
Open Scope list_scope.

(** value of a big-endian octet string *)
Definition bev (bs : list Z) : Z := evalb 256 (rev bs).

Lemma horner_bev bs : horner 256 bs = bev bs.
Proof. apply horner_evalb. Qed.
Lemma bev_nil : bev [] = 0. Proof. reflexivity. Qed.
Lemma bev_app x y : bev (x ++ y) = bev x * 256 ^ Z.of_nat (length y) + bev y.
Proof. unfold bev. rewrite rev_app_distr, evalb_app, rev_length. ring. Qed.
Lemma bev_cons b r : bev (b :: r) = b * 256 ^ Z.of_nat (length r) + bev r.
Proof. change (b :: r) with ([b] ++ r). rewrite bev_app. unfold bev at 1. cbn [rev app evalb]. ring. Qed.
Lemma bev_single b : bev [b] = b.
Proof. rewrite bev_cons. cbn [length]. change (Z.of_nat 0) with 0. rewrite Z.pow_0_r, bev_nil. ring. Qed.
Lemma bev_bounds bs : wfd 256 bs -> 0 <= bev bs < 256 ^ Z.of_nat (length bs).
Proof. intros H. unfold bev. rewrite <- (rev_length bs). apply evalb_bounds; [reflexivity | apply wfd_rev; assumption]. Qed.
Lemma bev_zeros k : bev (zeros k) = 0.
Proof.
  unfold bev, zeros. assert (E : rev (repeat 0 k) = repeat 0 k).
  { induction k; [reflexivity|]. cbn [repeat rev]. rewrite IHk. clear. induction k; [reflexivity|]. cbn [repeat app]. rewrite IHk. reflexivity. }
  rewrite E. apply evalb_repeat0.
Qed.
Lemma bev_zeros_app k u : bev (zeros k ++ u) = bev u.
Proof. rewrite bev_app, bev_zeros. ring. Qed.
Lemma wfd_zeros k : wfd 256 (zeros k).
Proof. unfold zeros. induction k; cbn [repeat]; [apply wfd_nil | apply wfd_cons; split; [lia | assumption]]. Qed.
Lemma lenZ_nonneg (bs : list Z) : 0 <= lenZ bs. Proof. unfold lenZ. lia. Qed.
Lemma lenZ_cons b (r : list Z) : lenZ (b :: r) = 1 + lenZ r. Proof. unfold lenZ. cbn [length]. lia. Qed.
Lemma lenZ_app (x y : list Z) : lenZ (x ++ y) = lenZ x + lenZ y. Proof. unfold lenZ. rewrite app_length. lia. Qed.

Lemma pow256_pos (k : nat) : 0 < 256 ^ Z.of_nat k. Proof. apply pow_pos_nat. reflexivity. Qed.
Lemma pow256_2 k : 0 <= k -> 256 ^ k = 2 ^ (8 * k).
Proof. intros. change 256 with (2 ^ 8). rewrite <- Z.pow_mul_r by lia. reflexivity. Qed.

(** a string with a non-zero first octet has a value in [256^(len-1), 256^len) *)
Lemma bev_head_bounds b r : wfd 256 (b :: r) ->
  b * 256 ^ Z.of_nat (length r) <= bev (b :: r) < (b + 1) * 256 ^ Z.of_nat (length r).
Proof.
  intros H. apply wfd_cons in H. destruct H as [Hb Hr]. rewrite bev_cons.
  pose proof (bev_bounds r Hr). lia.
Qed.

(* ---------------------------------------------------------------- sp_be *)
Lemma length_sp_be k x : length (sp_be k x) = Z.to_nat k.
Proof. unfold sp_be. rewrite rev_length. apply length_digits. Qed.
Lemma lenZ_sp_be k x : 0 <= k -> lenZ (sp_be k x) = k.
Proof. intros. unfold lenZ. rewrite length_sp_be. lia. Qed.
Lemma wfd_sp_be k x : wfd 256 (sp_be k x).
Proof. unfold sp_be. apply wfd_rev, wfd_digits. reflexivity. Qed.
Lemma bev_sp_be k x : 0 <= k -> bev (sp_be k x) = x mod 256 ^ k.
Proof. intros. unfold bev, sp_be. rewrite rev_involutive, evalb_digits by reflexivity. rewrite Z2Nat.id by assumption. reflexivity. Qed.
Lemma bev_sp_be_small k x : 0 <= k -> 0 <= x < 256 ^ k -> bev (sp_be k x) = x.
Proof. intros. rewrite bev_sp_be by assumption. apply Z.mod_small. assumption. Qed.
Lemma sp_be_bev bs : wfd 256 bs -> sp_be (lenZ bs) (bev bs) = bs.
Proof.
  intros H. unfold sp_be, bev, lenZ. rewrite Nat2Z.id, <- (rev_length bs).
  rewrite digits_evalb by (reflexivity || apply wfd_rev; assumption). apply rev_involutive.
Qed.
(** a big-endian string is determined by its length and value *)
Lemma be_unique a b : wfd 256 a -> wfd 256 b -> length a = length b -> bev a = bev b -> a = b.
Proof. intros Ha Hb Hl He. rewrite <- (sp_be_bev a Ha), <- (sp_be_bev b Hb). unfold lenZ. rewrite Hl, He. reflexivity. Qed.
(** octet i of the k-octet representation is floor(x / 256^(k-1-i)) mod 256 *)
Lemma sp_be_positional k x i : (i < Z.to_nat k)%nat ->
  nth i (sp_be k x) 0 = (x / 256 ^ (k - 1 - Z.of_nat i)) mod 256.
Proof.
  intros Hi. unfold sp_be. rewrite nth_rev_lt by (rewrite length_digits; assumption).
  rewrite length_digits, nth_digits by (reflexivity || lia). do 3 f_equal. lia.
Qed.
Lemma sp_be_S k x : 0 <= k -> sp_be (k + 1) x = ((x / 256 ^ k) mod 256) :: sp_be k x.
Proof.
  intros Hk. unfold sp_be. replace (Z.to_nat (k + 1)) with (Z.to_nat k + 1)%nat by lia.
  rewrite digits_app by reflexivity. rewrite rev_app_distr. cbn [digits rev app].
  rewrite Z2Nat.id by assumption. reflexivity.
Qed.
Lemma sp_be_0 x : sp_be 0 x = []. Proof. reflexivity. Qed.

(* ---------------------------------------------------------------- number of significant octets *)
Lemma sp_bits_0 : sp_bits 0 = 0. Proof. reflexivity. Qed.
Lemma sp_bits_pos x : 0 < x -> sp_bits x = Z.log2 x + 1.
Proof. intros. unfold sp_bits. destruct (Z.leb_spec x 0); [lia | reflexivity]. Qed.
Lemma sp_bits_range x : 0 < x -> 2 ^ (sp_bits x - 1) <= x < 2 ^ sp_bits x.
Proof.
  intros H. rewrite sp_bits_pos by assumption. replace (Z.log2 x + 1 - 1) with (Z.log2 x) by lia.
  pose proof (Z.log2_spec x H). rewrite <- Z.add_1_r in H0. exact H0.
Qed.
Lemma sp_bits_unique x k : 0 < x -> 2 ^ (k - 1) <= x < 2 ^ k -> sp_bits x = k.
Proof.
  intros Hx [Hl Hu]. rewrite sp_bits_pos by assumption.
  assert (0 < k). { destruct (Z.ltb_spec 0 k); [assumption|]. rewrite Z.pow_neg_r in Hl by lia. 
    assert (k = 0 \/ k < 0) as [->|] by lia; [simpl in Hu; lia | rewrite Z.pow_neg_r in Hu by lia; lia]. }
  assert (Z.log2 x = k - 1); [|lia]. apply Z.log2_unique; [lia|]. replace (Z.succ (k - 1)) with k by lia. split; assumption.
Qed.
Lemma sp_bits_nonneg x : 0 <= sp_bits x.
Proof. unfold sp_bits. destruct (Z.leb_spec x 0); [lia|]. pose proof (Z.log2_nonneg x). lia. Qed.
Lemma sp_octets_0 : sp_octets 0 = 0. Proof. reflexivity. Qed.
Lemma sp_octets_nonneg x : 0 <= sp_octets x.
Proof. unfold sp_octets. pose proof (sp_bits_nonneg x). apply Z.div_pos; lia. Qed.
(** 256^(k-1) <= x < 256^k  determines k *)
Lemma sp_octets_unique x k : 0 < x -> 1 <= k -> 256 ^ (k - 1) <= x < 256 ^ k -> sp_octets x = k.
Proof.
  intros Hx Hk [Hl Hu]. rewrite pow256_2 in Hl, Hu by lia.
  pose proof (sp_bits_range x Hx) as [Bl Bu]. pose proof (sp_bits_nonneg x).
  assert (8 * (k - 1) < sp_bits x).
  { destruct (Z.ltb_spec (8 * (k - 1)) (sp_bits x)); [assumption|].
    assert (2 ^ sp_bits x <= 2 ^ (8 * (k - 1))) by (apply Z.pow_le_mono_r; lia). lia. }
  assert (sp_bits x <= 8 * k).
  { destruct (Z.leb_spec (sp_bits x) (8 * k)); [assumption|].
    assert (2 ^ (8 * k) <= 2 ^ (sp_bits x - 1)) by (apply Z.pow_le_mono_r; lia). lia. }
  unfold sp_octets. symmetry. apply Z.div_unique with (r := sp_bits x + 7 - 8 * k); lia.
Qed.
Lemma sp_octets_range x : 0 < x -> 1 <= sp_octets x /\ 256 ^ (sp_octets x - 1) <= x < 256 ^ sp_octets x.
Proof.
  intros Hx. pose proof (sp_bits_range x Hx) as [Bl Bu]. pose proof (sp_bits_nonneg x).
  assert (1 <= sp_bits x). { rewrite sp_bits_pos by assumption. pose proof (Z.log2_nonneg x). lia. }
  unfold sp_octets. pose proof (Z.div_mod (sp_bits x + 7) 8 ltac:(lia)). pose proof (Z.mod_pos_bound (sp_bits x + 7) 8 ltac:(lia)).
  set (q := (sp_bits x + 7) / 8) in *. split; [lia|]. rewrite !pow256_2 by lia. split.
  - apply Z.le_trans with (2 ^ (sp_bits x - 1)); [apply Z.pow_le_mono_r; lia | assumption].
  - apply Z.lt_le_trans with (2 ^ sp_bits x); [assumption | apply Z.pow_le_mono_r; lia].
Qed.
Lemma sp_octets_bound x : 0 <= x -> x < 256 ^ sp_octets x.
Proof.
  intros H. destruct (Z.eq_dec x 0) as [->|]; [reflexivity|]. apply sp_octets_range. lia.
Qed.
Lemma sp_octets_le x k : 0 <= x -> 0 <= k -> x < 256 ^ k -> sp_octets x <= k.
Proof.
  intros Hx Hk Hu. destruct (Z.eq_dec x 0) as [->|]; [rewrite sp_octets_0; assumption|].
  destruct (sp_octets_range x ltac:(lia)) as (H1 & Hl & _).
  destruct (Z.leb_spec (sp_octets x) k); [assumption|].
  assert (256 ^ k <= 256 ^ (sp_octets x - 1)) by (apply Z.pow_le_mono_r; lia). lia.
Qed.

(** first octet non-zero: the length is the number of significant octets *)
Lemma octets_of_string b r : wfd 256 (b :: r) -> b <> 0 -> sp_octets (bev (b :: r)) = lenZ (b :: r).
Proof.
  intros H Hb. pose proof (bev_head_bounds b r H) as [Hl Hu]. apply wfd_cons in H. destruct H as [Hr _].
  pose proof (pow256_pos (length r)) as HP. rewrite lenZ_cons. unfold lenZ.
  set (P := 256 ^ Z.of_nat (length r)) in *.
  assert (1 <= b) by lia.
  assert (1 * P <= b * P) by (apply Z.mul_le_mono_nonneg_r; lia).
  assert ((b + 1) * P <= 256 * P) by (apply Z.mul_le_mono_nonneg_r; lia).
  apply sp_octets_unique; try lia.
  replace (1 + Z.of_nat (length r) - 1) with (Z.of_nat (length r)) by lia. fold P. split; [lia|].
  replace (1 + Z.of_nat (length r)) with (Z.succ (Z.of_nat (length r))) by lia. rewrite Z.pow_succ_r by lia. fold P. lia.
Qed.
Definition no_lead0 (s : list Z) : Prop := match s with [] => True | b :: _ => b <> 0 end.
(** THE minimal representation *)
Lemma minimal_unique s : wfd 256 s -> no_lead0 s -> s = sp_be (sp_octets (bev s)) (bev s).
Proof.
  intros Hw Hn. destruct s as [|b r]; [reflexivity|].
  rewrite octets_of_string by assumption. symmetry. apply sp_be_bev. assumption.
Qed.
Lemma minimal_no_lead0 x : 0 <= x -> no_lead0 (sp_be (sp_octets x) x).
Proof.
  intros Hx. destruct (Z.eq_dec x 0) as [->|]; [exact I|].
  destruct (sp_octets_range x ltac:(lia)) as (H1 & Hl & Hu).
  replace (sp_octets x) with ((sp_octets x - 1) + 1) by lia. rewrite sp_be_S by lia. cbn [no_lead0].
  replace (sp_octets x - 1 + 1) with (sp_octets x) in * by lia.
  assert (0 < 256 ^ (sp_octets x - 1)) by (apply Z.pow_pos_nonneg; lia).
  assert (1 <= x / 256 ^ (sp_octets x - 1)) by (apply Z.div_le_lower_bound; lia).
  assert (x / 256 ^ (sp_octets x - 1) < 256).
  { apply Z.div_lt_upper_bound; [lia|]. rewrite Z.mul_comm, <- Z.pow_succ_r by lia. replace (Z.succ (sp_octets x - 1)) with (sp_octets x) by lia. assumption. }
  rewrite Z.mod_small by lia. lia.
Qed.
Lemma bev_minimal x : 0 <= x -> bev (sp_be (sp_octets x) x) = x.
Proof. intros. apply bev_sp_be_small; [apply sp_octets_nonneg | split; [assumption | apply sp_octets_bound; assumption]]. Qed.

(* ---------------------------------------------------------------- stripping *)
Lemma strip_all_spec bs : wfd 256 bs ->
  let s := strip_all_zeros bs in
  wfd 256 s /\ no_lead0 s /\ bev s = bev bs /\ (length s <= length bs)%nat /\ exists k, bs = zeros k ++ s.
Proof.
  intros H. induction bs as [|b r IH]; cbn [strip_all_zeros].
  - repeat split; try apply wfd_nil; try exact I; try lia. exists 0%nat. reflexivity.
  - pose proof H as H'. apply wfd_cons in H'. destruct H' as [Hb Hr].
    destruct (Z.eqb_spec b 0) as [->|Hne].
    + destruct (IH Hr) as (A & B' & C & D & k & E). repeat split; try assumption.
      * rewrite C, bev_cons. lia.
      * cbn [length]. lia.
      * exists (S k). cbn [zeros repeat app]. f_equal. exact E.
    + repeat split; try assumption; try lia. exists 0%nat. reflexivity.
Qed.
Lemma strip_all_minimal bs : wfd 256 bs -> strip_all_zeros bs = sp_be (sp_octets (bev bs)) (bev bs).
Proof. intros H. destruct (strip_all_spec bs H) as (A & B' & C & _). rewrite <- C. apply minimal_unique; assumption. Qed.
Lemma strip_all_sp_be k x : 0 <= k -> 0 <= x < 256 ^ k -> strip_all_zeros (sp_be k x) = sp_be (sp_octets x) x.
Proof. intros Hk Hx. rewrite strip_all_minimal by apply wfd_sp_be. rewrite bev_sp_be_small by assumption. reflexivity. Qed.
(** der's strip_leading_zeroes keeps the last octet *)
Lemma strip_leading_zeroes_spec bs :
  strip_leading_zeroes bs = match strip_all_zeros bs with [] => (match bs with [] => [] | _ => [0] end) | s => s end.
Proof.
  induction bs as [|b r IH]; [reflexivity|]. cbn [strip_leading_zeroes strip_all_zeros].
  destruct (Z.eqb_spec b 0) as [->|Hne]; cbn [andb].
  - destruct r as [|c r']; [reflexivity|]. cbn [is_nil negb]. rewrite IH.
    destruct (strip_all_zeros (c :: r')); reflexivity.
  - reflexivity.
Qed.

(* ---------------------------------------------------------------- list_eqb *)
Lemma list_eqb_eq a b : list_eqb a b = true <-> a = b.
Proof.
  revert b. induction a as [|x a IH]; intros [|y b]; cbn [list_eqb]; split; intros H; try reflexivity; try discriminate.
  - apply andb_prop in H. destruct H as [H1 H2]. apply Z.eqb_eq in H1. apply IH in H2. congruence.
  - injection H as -> ->. rewrite Z.eqb_refl. cbn [andb]. apply IH. reflexivity.
Qed.
Lemma list_eqb_refl a : list_eqb a a = true. Proof. apply list_eqb_eq. reflexivity. Qed.

(* ---------------------------------------------------------------- canonical DER content *)
(** X.690 8.3.2 for a non-negative value: at least one octet, sign bit clear, and the first nine bits not all zero *)
Definition der_canonb (c : list Z) : bool :=
  match c with
  | [] => false
  | b :: rest => (b <? 128) && match rest with [] => true | d :: _ => negb (b =? 0) || (128 <=? d) end
  end.
(* the magnitude octets the encoder starts from, and the sign pad *)
Definition mag0 (x : Z) : list Z := if x =? 0 then [0] else sp_be (sp_octets x) x.
Definition der_pad (m : list Z) : list Z := if needs_leading_zero m then 0 :: m else m.

Lemma bits_window x L lo hi : 0 < x -> 0 <= L -> 0 <= lo -> lo <= hi ->
  2 ^ (8 * L + lo) <= x < 2 ^ (8 * L + hi + 1) -> 8 * L + lo < sp_bits x <= 8 * L + hi + 1.
Proof.
  intros Hx HL Hlo Hh [Hl Hu]. pose proof (sp_bits_range x Hx) as [Bl Bu]. pose proof (sp_bits_nonneg x).
  split.
  - destruct (Z.ltb_spec (8 * L + lo) (sp_bits x)); [assumption|].
    assert (2 ^ sp_bits x <= 2 ^ (8 * L + lo)) by (apply Z.pow_le_mono_r; lia). lia.
  - destruct (Z.leb_spec (sp_bits x) (8 * L + hi + 1)); [assumption|].
    assert (2 ^ (8 * L + hi + 1) <= 2 ^ (sp_bits x - 1)) by (apply Z.pow_le_mono_r; lia). lia.
Qed.

Lemma content_len_canon c : wfd 256 c -> der_canonb c = true -> sp_der_content_len (bev c) = lenZ c.
Proof.
  intros Hw Hc. destruct c as [|b rest]; [discriminate|]. cbn [der_canonb] in Hc.
  apply andb_prop in Hc. destruct Hc as [Hb Hc]. apply Z.ltb_lt in Hb.
  pose proof (bev_head_bounds b rest Hw) as [Hl Hu]. pose proof Hw as Hw'. apply wfd_cons in Hw'. destruct Hw' as [Hb0 Hwr].
  rewrite lenZ_cons. unfold lenZ. set (L := Z.of_nat (length rest)) in *. assert (0 <= L) by (unfold L; lia).
  unfold sp_der_content_len.
  destruct (Z.eq_dec b 0) as [->|Hnz].
  - (* leading 0x00 *)
    destruct rest as [|d r'].
    + rewrite bev_single. reflexivity.
    + rewrite Z.eqb_refl in Hc. cbn [negb orb] in Hc. apply Z.leb_le in Hc.
      rewrite bev_cons. rewrite Z.mul_0_l, Z.add_0_l.
      pose proof (bev_head_bounds d r' Hwr) as [Dl Du]. apply wfd_cons in Hwr. destruct Hwr as [Hd Hwr'].
      unfold L. cbn [length]. rewrite Nat2Z.inj_succ. set (M := Z.of_nat (length r')) in *. assert (0 <= M) by (unfold M; lia).
      assert (HP : 0 < 256 ^ M) by (apply Z.pow_pos_nonneg; lia).
      assert (128 * 256 ^ M <= d * 256 ^ M) by (apply Z.mul_le_mono_nonneg_r; lia).
      assert ((d + 1) * 256 ^ M <= 256 * 256 ^ M) by (apply Z.mul_le_mono_nonneg_r; lia).
      assert (E1 : 128 * 256 ^ M = 2 ^ (8 * M + 7)).
      { rewrite pow256_2 by lia. change 128 with (2 ^ 7). rewrite <- Z.pow_add_r by lia. f_equal. lia. }
      assert (E2 : 256 * 256 ^ M = 2 ^ (8 * M + 7 + 1)).
      { rewrite pow256_2 by lia. change 256 with (2 ^ 8) at 1. rewrite <- Z.pow_add_r by lia. f_equal. lia. }
      assert (Hx : 0 < bev (d :: r')) by lia.
      pose proof (bits_window (bev (d :: r')) M 7 7 Hx ltac:(lia) ltac:(lia) ltac:(lia) ltac:(lia)) as Hb'.
      assert (sp_bits (bev (d :: r')) = 8 * (Z.succ M)) by lia.
      rewrite H3. rewrite Z.mul_comm, Z.div_mul by lia. lia.
  - (* first octet 1..127 *)
    assert (HP : 0 < 256 ^ L) by (apply Z.pow_pos_nonneg; lia).
    assert (1 * 256 ^ L <= b * 256 ^ L) by (apply Z.mul_le_mono_nonneg_r; lia).
    assert ((b + 1) * 256 ^ L <= 128 * 256 ^ L) by (apply Z.mul_le_mono_nonneg_r; lia).
    assert (E1 : 256 ^ L = 2 ^ (8 * L + 0)) by (rewrite pow256_2 by lia; f_equal; lia).
    assert (E2 : 128 * 256 ^ L = 2 ^ (8 * L + 6 + 1)).
    { rewrite pow256_2 by lia. change 128 with (2 ^ 7). rewrite <- Z.pow_add_r by lia. f_equal. lia. }
    assert (Hx : 0 < bev (b :: rest)) by lia.
    pose proof (bits_window (bev (b :: rest)) L 0 6 Hx ltac:(lia) ltac:(lia) ltac:(lia) ltac:(lia)) as Hb'.
    assert (sp_bits (bev (b :: rest)) / 8 = L); [|lia].
    symmetry. apply Z.div_unique with (r := sp_bits (bev (b :: rest)) - 8 * L); lia.
Qed.

Lemma canon_unique c : wfd 256 c -> der_canonb c = true -> sp_der_content (bev c) = c.
Proof. intros Hw Hc. unfold sp_der_content. rewrite content_len_canon by assumption. apply sp_be_bev. assumption. Qed.

Lemma wfd_mag0 x : wfd 256 (mag0 x).
Proof. unfold mag0. destruct (x =? 0); [apply wfd_cons; split; [lia | apply wfd_nil] | apply wfd_sp_be]. Qed.
Lemma bev_mag0 x : 0 <= x -> bev (mag0 x) = x.
Proof. intros. unfold mag0. destruct (Z.eqb_spec x 0) as [->|]; [reflexivity | apply bev_minimal; assumption]. Qed.
Lemma wfd_der_pad m : wfd 256 m -> wfd 256 (der_pad m).
Proof. intros. unfold der_pad. destruct (needs_leading_zero m); [apply wfd_cons; split; [lia | assumption] | assumption]. Qed.
Lemma bev_der_pad m : bev (der_pad m) = bev m.
Proof. unfold der_pad. destruct (needs_leading_zero m); [rewrite bev_cons; lia | reflexivity]. Qed.
Lemma canon_der_pad_mag0 x : 0 <= x -> der_canonb (der_pad (mag0 x)) = true.
Proof.
  intros Hx. unfold mag0. destruct (Z.eqb_spec x 0) as [->|Hn]; [reflexivity|].
  pose proof (minimal_no_lead0 x Hx) as Hn0. pose proof (wfd_sp_be (sp_octets x) x) as Hw.
  destruct (sp_be (sp_octets x) x) as [|b r] eqn:E.
  - (* impossible: x > 0 has at least one octet *)
    exfalso. pose proof (bev_minimal x Hx) as Hb. rewrite E in Hb. rewrite bev_nil in Hb. lia.
  - cbn [no_lead0] in Hn0. apply wfd_cons in Hw. destruct Hw as [Hb Hr].
    unfold der_pad. cbn [needs_leading_zero]. destruct (Z.leb_spec 128 b).
    + cbn [der_canonb]. rewrite Z.eqb_refl. cbn [negb orb andb]. apply Z.leb_le. assumption.
    + cbn [der_canonb]. replace (b <? 128) with true by (symmetry; apply Z.ltb_lt; assumption).
      replace (b =? 0) with false by (symmetry; apply Z.eqb_neq; assumption). cbn [andb negb orb].
      destruct r; reflexivity.
Qed.
(** the canonical content is the minimal magnitude with a 0x00 pad iff its top bit is set *)
Lemma content_struct x : 0 <= x -> sp_der_content x = der_pad (mag0 x).
Proof.
  intros Hx. rewrite <- (canon_unique (der_pad (mag0 x))).
  - rewrite bev_der_pad, bev_mag0 by assumption. reflexivity.
  - apply wfd_der_pad, wfd_mag0.
  - apply canon_der_pad_mag0. assumption.
Qed.
Lemma content_canon x : 0 <= x ->
  wfd 256 (sp_der_content x) /\ der_canonb (sp_der_content x) = true /\ bev (sp_der_content x) = x /\
  lenZ (sp_der_content x) = sp_der_content_len x.
Proof.
  intros Hx. repeat split.
  - apply wfd_sp_be.
  - rewrite content_struct by assumption. apply canon_der_pad_mag0. assumption.
  - rewrite content_struct by assumption. rewrite bev_der_pad, bev_mag0 by assumption. reflexivity.
  - unfold sp_der_content. apply lenZ_sp_be. unfold sp_der_content_len. pose proof (sp_bits_nonneg x).
    assert (0 <= sp_bits x / 8) by (apply Z.div_pos; lia). lia.
Qed.
Lemma content_len_pos x : 1 <= sp_der_content_len x.
Proof. unfold sp_der_content_len. pose proof (sp_bits_nonneg x). assert (0 <= sp_bits x / 8) by (apply Z.div_pos; lia). lia. Qed.
(** a canonical content is injective in the value *)
Lemma content_inj x y : 0 <= x -> 0 <= y -> sp_der_content x = sp_der_content y -> x = y.
Proof. intros Hx Hy E. destruct (content_canon x Hx) as (_ & _ & <- & _). destruct (content_canon y Hy) as (_ & _ & <- & _). rewrite E. reflexivity. Qed.

(* ---------------------------------------------------------------- DER length field and header *)
Lemma octets_ge128 k : 128 <= k -> 1 <= sp_octets k.
Proof. intros. apply sp_octets_range. lia. Qed.
Lemma octets_lenmax k : 0 <= k <= LEN_MAX -> sp_octets k <= 4.
Proof. intros. apply sp_octets_le; [lia | lia |]. unfold LEN_MAX in *. change (256 ^ 4) with 4294967296. lia. Qed.
Lemma length_sp_der_length k : 0 <= k ->
  length (sp_der_length k) = if k <? 128 then 1%nat else S (Z.to_nat (sp_octets k)).
Proof. intros. unfold sp_der_length. destruct (k <? 128); [reflexivity|]. cbn [length]. rewrite length_sp_be. reflexivity. Qed.
Lemma wfd_sp_der_length k : 0 <= k <= LEN_MAX -> wfd 256 (sp_der_length k).
Proof.
  intros H. unfold sp_der_length. destruct (Z.ltb_spec k 128).
  - apply wfd_cons. split; [lia | apply wfd_nil].
  - apply wfd_cons. split; [|apply wfd_sp_be]. pose proof (octets_ge128 k ltac:(lia)). pose proof (octets_lenmax k H). lia.
Qed.
Lemma header_size_ok k c : 0 <= k ->
  sp_der_header_size (sp_der_header k ++ c) = length (sp_der_header k).
Proof.
  intros Hk. unfold sp_der_header_size, sp_der_header, sp_der_length.
  destruct (Z.ltb_spec k 128) as [Hs|Hs].
  - cbn [app nthz nth]. replace (k <? 128) with true by (symmetry; apply Z.ltb_lt; assumption). reflexivity.
  - cbn [app nthz nth length]. pose proof (octets_ge128 k Hs).
    replace (128 + sp_octets k <? 128) with false by (symmetry; apply Z.ltb_ge; lia).
    rewrite length_sp_be. lia.
Qed.
Lemma lenZ_sp_der_encode x : 0 <= x ->
  lenZ (sp_der_encode x) = 1 + (if sp_der_content_len x <? 128 then 1 else 1 + sp_octets (sp_der_content_len x)) + sp_der_content_len x.
Proof.
  intros Hx. unfold sp_der_encode, sp_der_header. rewrite lenZ_app, lenZ_cons.
  destruct (content_canon x Hx) as (_ & _ & _ & ->). pose proof (content_len_pos x).
  unfold lenZ. rewrite length_sp_der_length by lia.
  destruct (sp_der_content_len x <? 128); [lia|]. pose proof (sp_octets_nonneg (sp_der_content_len x)). lia.
Qed.

(** * the executable decoding spec is "the value whose canonical encoding is the input" *)
Lemma firstn_skipn_eq {A} (j : nat) (bs h c : list A) : firstn j bs = h -> skipn j bs = c -> bs = h ++ c.
Proof. intros <- <-. symmetry. apply firstn_skipn. Qed.
Lemma sp_decode_at_some hdr body j n bs v : wfd 256 bs ->
  sp_decode_at hdr body j n bs = Some v -> 0 <= v < Bn n /\ bs = hdr v ++ body v.
Proof.
  intros Hw. unfold sp_decode_at. set (w := horner 256 (skipn j bs)).
  destruct (list_eqb (hdr w) (firstn j bs)) eqn:E1; [|discriminate].
  destruct (list_eqb (body w) (skipn j bs)) eqn:E2; [|discriminate].
  destruct (Z.ltb_spec w (Bn n)); [|discriminate]. cbn [andb]. intros E. injection E as <-.
  apply list_eqb_eq in E1, E2. split.
  - split; [|assumption]. unfold w. rewrite horner_bev. apply bev_bounds. apply wfd_skipn. assumption.
  - apply (firstn_skipn_eq j); symmetry; assumption.
Qed.
Lemma sp_decode_at_complete hdr body n v :
  0 <= v < Bn n -> bev (body v) = v ->
  sp_decode_at hdr body (length (hdr v)) n (hdr v ++ body v) = Some v.
Proof.
  intros Hv Hb. unfold sp_decode_at.
  rewrite (skipn_app_len (hdr v) (body v)) by reflexivity. rewrite (firstn_app_len (hdr v) (body v)) by reflexivity.
  rewrite horner_bev, Hb, !list_eqb_refl. replace (v <? Bn n) with true by (symmetry; apply Z.ltb_lt; lia). reflexivity.
Qed.

Theorem sp_der_decode_iff n bs v : wfd 256 bs ->
  sp_der_decode n bs = Some v <-> (0 <= v < Bn n /\ bs = sp_der_encode v).
Proof.
  intros Hw. split.
  - intros H. apply (sp_decode_at_some _ _ _ _ _ _ Hw) in H. exact H.
  - intros [Hv ->]. unfold sp_der_decode, sp_der_encode.
    pose proof (content_len_pos v). rewrite header_size_ok by lia.
    apply (sp_decode_at_complete (fun w => sp_der_header (sp_der_content_len w)) sp_der_content n v Hv).
    apply content_canon. lia.
Qed.
(** the canonical encoding is injective *)
Theorem sp_der_encode_inj x y : 0 <= x -> 0 <= y -> sp_der_encode x = sp_der_encode y -> x = y.
Proof.
  intros Hx Hy E. destruct (Z.eq_dec (sp_der_content_len x) (sp_der_content_len y)) as [El|Nl].
  - apply content_inj; try assumption. unfold sp_der_encode in E. rewrite El in E.
    apply app_inv_head in E. assumption.
  - exfalso. (* different content lengths: the encodings decode to both values *)
    pose proof (content_len_pos x). pose proof (content_len_pos y).
    pose proof (f_equal sp_der_header_size E) as Hs. unfold sp_der_encode in Hs. rewrite !header_size_ok in Hs by lia.
    unfold sp_der_encode in E.
    assert (Ec : skipn (length (sp_der_header (sp_der_content_len x))) (sp_der_header (sp_der_content_len x) ++ sp_der_content x)
               = skipn (length (sp_der_header (sp_der_content_len x))) (sp_der_header (sp_der_content_len y) ++ sp_der_content y)) by (rewrite E; reflexivity).
    rewrite skipn_app_len in Ec by reflexivity. rewrite Hs, skipn_app_len in Ec by reflexivity.
    apply Nl. destruct (content_canon x Hx) as (_ & _ & _ & <-). destruct (content_canon y Hy) as (_ & _ & _ & <-). rewrite Ec. reflexivity.
Qed.
