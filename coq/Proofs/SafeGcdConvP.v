(** C10 proofs, part 9: the convergence flag the model reports ([sg_converged], the ops `*.safegcd_converged` /
    `*.gcd_converged` of the correspondence) implies the convergence hypothesis [sg_conv] of every entry point that
    runs on the same (f, g): the evolution of (delta, f, g) does not depend on d, e, the modulus or its inverse, and the
    run-until-zero loop stops within the fixed count whenever the fixed-count loop ends with g = 0. *)
From CB Require Import Model.Limbs Model.AddSub Model.SafeGcd Proofs.WordP Proofs.LimbsP Proofs.BitsP
  Proofs.SafeGcdArithP Proofs.SafeGcdJumpP Proofs.SafeGcdUnsatP Proofs.SafeGcdStepP Proofs.SafeGcdDivstepsP
  Proofs.SafeGcdCoreP.
From Coq Require Import ZArith Lia List Bool.
Open Scope Z_scope.

Definition fg3 (s : dstate) : Z * list Z * list Z := let '(delta, d, e, f, g) := s in (delta, f, g).
Definition g_of (s : dstate) : list Z := let '(delta, d, e, f, g) := s in g.

Lemma divstep1_fg3 m inv m' inv' s s' : fg3 s = fg3 s' -> fg3 (divstep1 m inv s) = fg3 (divstep1 m' inv' s').
Proof.
  destruct s as [[[[delta d] e] f] g]. destruct s' as [[[[delta2 d2] e2] f2] g2]. cbn [fg3]. intros H.
  injection H as -> -> ->.
  destruct (divstep1_eq m inv delta2 d e f2 g2) as (dl1 & a00 & a01 & a10 & a11 & EJ1 & ES1).
  destruct (divstep1_eq m' inv' delta2 d2 e2 f2 g2) as (dl2 & b00 & b01 & b10 & b11 & EJ2 & ES2).
  rewrite ES1, ES2. rewrite EJ1 in EJ2. injection EJ2 as -> -> -> -> ->. reflexivity.
Qed.
Lemma divsteps_loop_fg3 m inv m' inv' n : forall s s', fg3 s = fg3 s' ->
  fg3 (divsteps_loop n m inv s) = fg3 (divsteps_loop n m' inv' s').
Proof.
  induction n as [|n IH]; intros s s' H; [exact H|].
  rewrite !divsteps_loop_S. apply IH. apply divstep1_fg3. assumption.
Qed.
Lemma g_of_fg3 s s' : fg3 s = fg3 s' -> g_of s = g_of s'.
Proof.
  destruct s as [[[[delta d] e] f] g]. destruct s' as [[[[delta2 d2] e2] f2] g2]. cbn [fg3 g_of]. intros H.
  injection H as _ _ ->. reflexivity.
Qed.

(** the run-until-zero loop stops within n jumps if the n-jump loop ends with g = 0 *)
Lemma divsteps_vt_of_ct m inv n : forall s, u_is_zero (g_of (divsteps_loop n m inv s)) = true ->
  exists s', divsteps_vt_loop n m inv s = Some s'.
Proof.
  induction n as [|n IH]; intros s H; destruct s as [[[[delta d] e] f] g].
  - cbn [divsteps_loop g_of] in H. rewrite divsteps_vt_0, H. eexists. reflexivity.
  - rewrite divsteps_vt_S. destruct (u_is_zero g); [eexists; reflexivity|].
    rewrite divsteps_loop_S in H. apply IH. assumption.
Qed.

Lemma sg_core_ct_flag boxed e f0 g inverse :
  exists d f, sg_core false boxed e f0 g inverse =
    Some (d, f, u_is_zero (g_of (divsteps_loop (iterations ((if boxed then bu_bits else u_bits) f0) ((if boxed then bu_bits else u_bits) g))
                                   f0 inverse (1, u_zero (length f0), e, f0, g)))).
Proof.
  unfold sg_core.
  destruct (divsteps_loop _ f0 inverse (1, u_zero (length f0), e, f0, g)) as [[[[delta' d'] e'] f'] g'].
  exists d', f'. reflexivity.
Qed.

(** the reported flag does not depend on e and the inverse, and covers both drivers *)
Theorem sg_conv_of_flag boxed e0 inv0 vartime e f0 g inverse :
  (exists d f, sg_core false boxed e0 f0 g inv0 = Some (d, f, true)) ->
  sg_conv vartime boxed e f0 g inverse.
Proof.
  intros (d0 & fr0 & E0).
  destruct (sg_core_ct_flag boxed e0 f0 g inv0) as (d1 & f1 & E1). rewrite E1 in E0.
  assert (Z0 : u_is_zero (g_of (divsteps_loop (iterations ((if boxed then bu_bits else u_bits) f0) ((if boxed then bu_bits else u_bits) g))
                                   f0 inv0 (1, u_zero (length f0), e0, f0, g))) = true) by congruence.
  clear E0 E1.
  set (n := iterations ((if boxed then bu_bits else u_bits) f0) ((if boxed then bu_bits else u_bits) g)) in *.
  assert (Z1 : u_is_zero (g_of (divsteps_loop n f0 inverse (1, u_zero (length f0), e, f0, g))) = true).
  { rewrite <- Z0. f_equal. apply g_of_fg3. apply divsteps_loop_fg3. reflexivity. }
  unfold sg_conv. destruct vartime.
  - destruct (divsteps_vt_of_ct f0 inverse n _ Z1) as (s' & ES). unfold sg_core. fold n. rewrite ES.
    destruct s' as [[[[delta' d'] e'] f'] g']. exists d', f'. reflexivity.
  - destruct (sg_core_ct_flag boxed e f0 g inverse) as (d2 & f2 & E2). fold n in E2. rewrite Z1 in E2. exists d2, f2. assumption.
Qed.

Corollary sg_converged_conv boxed fl gl L vartime e inverse :
  sg_converged boxed fl gl L = true -> sg_conv vartime boxed e (from_uint L fl) (from_uint L gl) inverse.
Proof.
  unfold sg_converged. intros H.
  destruct (sg_core false boxed (u_one L) (from_uint L fl) (from_uint L gl) (inv_mod2_62 (hd 0 fl))) as [[[d f] c]|] eqn:E; [|discriminate].
  subst c. apply (sg_conv_of_flag boxed (u_one L) (inv_mod2_62 (hd 0 fl))). exists d, f. assumption.
Qed.
