(** Translator tie, group DivCt: the constant-time long division `Uint::div_rem` of src/uint/div.rs (Knuth D with fixed trip
    counts and `done` / `limb_div` masks; calls Reciprocal::new, Uint::bits / shl / shr / shl_limb, div3by2, div2by1,
    Limb::mac / sbb / adc / select, Limb::to_nz, ConstCtOption::expect) as regenerated from /repo's CURRENT source
    (Src/GenDivCt.v) equals the limb-level model [uint_div_rem_l0] of Model/DivL0.v (the twin of [uint_div_rem] of Model/Div.v
    with limb-level bits / shl / shr) for every limb count n with 64 n < 2^32 and all limb values: whenever the model returns
    Some (q, r) -- i.e. no `expect` / `assert!` of the source fires -- the generated function returns (q, r).
    Loops: the outer `while xi > 0 { ..; xi -= 1 }` is a Nat.iter over (xi, carry, i, x, x_hi, x_lo); inside it the
    multiply-subtract loop `while i <= xi` over (i, tmp, carry, x, borrow) = [mulsub_go] and the masked add-back loop over
    (i, x, carry) = [addback_go]; the copy-out loop over (i, y). *)
From CB Require Import Model.SrcPrelude Model.Word Model.Limbs Model.AddSub Model.Cmp Model.Bits Model.Div Model.DivL0.
From CB Require Import Src.GenPrim Src.GenDiv Src.GenUint Src.GenShift Src.GenMul Src.GenDivLimb Src.GenBits Src.GenDivCt.
From CB Require Import Src.GenWidthP Src.GenPrimP Src.GenDivP Src.GenLoopP Src.GenIterP Src.GenUintP Src.GenShiftP Src.GenMulP
  Src.GenDivLimbP Src.GenBitsP.
From CB Require Import Proofs.WordP Proofs.LimbsP Proofs.BitsWordP Proofs.BitQueryP Proofs.DivP Proofs.DivShiftP Proofs.RecipP
  Proofs.DivCtP Proofs.DivFinalP Proofs.DivL0P.
From Coq Require Import Lia List.
Import ListNotations.
Open Scope Z_scope.
Transparent B.

Lemma upd_upd_ (l : list Z) i v : upd_ l i v = upd l i v. Proof. reflexivity. Qed.

Lemma sbb_borrow_word a b c : is_word a -> is_word b -> is_word c -> is_word (snd (sbb a b c)).
Proof.
  intros Ha Hb Hc. destruct (sbb a b c) as [r bo] eqn:E. destruct (sbb_exact a b c r bo Ha Hb Hc E) as [_ [[-> _]|[-> _]]]; cbn [snd].
  - apply is_word_0'.
  - apply is_word_MAXW.
Qed.

(* ---------------- the multiply-subtract loop: x[i] -= quo * y[yoff + i] with a mac carry and an sbb borrow *)
Lemma mulsub_iter y quo (yidx : Z -> Z) (yoff : nat) (F1 : Z * Z * Z * list Z * Z -> Z * Z * Z * list Z * Z) :
  (forall i tmp c x b, F1 (i, tmp, c, x, b) =
     (add_ 64 i 1, fst (g_limb_mac 0 (nth (Z.to_nat (yidx i)) y 0) quo c), snd (g_limb_mac 0 (nth (Z.to_nat (yidx i)) y 0) quo c),
      upd_ x (Z.to_nat i) (fst (g_limb_sbb (nth (Z.to_nat i) x 0) (fst (g_limb_mac 0 (nth (Z.to_nat (yidx i)) y 0) quo c)) b)),
      snd (g_limb_sbb (nth (Z.to_nat i) x 0) (fst (g_limb_mac 0 (nth (Z.to_nat (yidx i)) y 0) quo c)) b))) ->
  wf y -> is_word quo ->
  forall cnt i tmp c x b, wf x -> is_word c -> is_word b -> (i + cnt <= length x)%nat -> Z.of_nat (i + cnt) < 2 ^ 64 ->
  (forall j, (i <= j < i + cnt)%nat -> Z.to_nat (yidx (Z.of_nat j)) = (yoff + j)%nat) ->
  exists tmp', Nat.iter cnt F1 (Z.of_nat i, tmp, c, x, b) =
    (Z.of_nat (i + cnt), tmp', snd (fst (mulsub_go cnt i x y 0 yoff quo c b)), fst (fst (mulsub_go cnt i x y 0 yoff quo c b)),
     snd (mulsub_go cnt i x y 0 yoff quo c b)).
Proof.
  intros HF Wy Wq. induction cnt as [|cnt IH]; intros i tmp c x b Wx Wc Wb Hl Hk Hidx.
  - exists tmp. cbn [Nat.iter mulsub_go fst snd]. rewrite Nat.add_0_r. reflexivity.
  - rewrite iter_shift, HF. rewrite Nat2Z.id. rewrite (Hidx i ltac:(lia)).
    assert (Wyv : is_word (nth (yoff + i) y 0)) by (apply (wf_nthz y (yoff + i) Wy)).
    assert (Wxv : is_word (nth i x 0)) by (apply (wf_nthz x i Wx)).
    rewrite (g_limb_mac_eq 0 _ quo c is_word_0' Wyv Wq Wc).
    cbn [mulsub_go]. unfold nthz. cbn [Nat.add].
    destruct (mac 0 (nth (yoff + i) y 0) quo c) as [t c1] eqn:Em.
    destruct (mac_exact 0 _ quo c t c1 is_word_0' Wyv Wq Wc Em) as (_ & Wt & Wc1). cbn [fst snd].
    rewrite (g_limb_sbb_eq _ t b Wxv Wt Wb).
    pose proof (sbb_borrow_word _ t b Wxv Wt Wb) as Wb1.
    pose proof (l0_sbb_word (nth i x 0) t b) as Wxv1.
    destruct (sbb (nth i x 0) t b) as [xv b1] eqn:Es. cbn [fst snd] in *.
    rewrite upd_upd_.
    assert (Ea : add_ 64 (Z.of_nat i) 1 = Z.of_nat (S i)) by (unfold add_; rewrite Z.mod_small by lia; lia).
    rewrite Ea.
    destruct (IH (S i) t c1 (upd x i xv) b1) as [tmp' E]; try assumption; try lia.
    + apply l0_wf_upd; assumption.
    + rewrite l0_length_upd by lia. lia.
    + intros j Hj. apply Hidx. lia.
    + exists tmp'. rewrite E. replace (S i + cnt)%nat with (i + S cnt)%nat by lia. reflexivity.
Qed.

(* ---------------- the masked add-back loop: x[i] += mask & y[yoff + i] *)
Lemma addback_iter y (mask : bool) (yidx : Z -> Z) (yoff : nat) (F2 : Z * list Z * Z -> Z * list Z * Z) :
  (forall i x c, F2 (i, x, c) =
     (add_ 64 i 1,
      upd_ x (Z.to_nat i) (fst (g_limb_adc (nth (Z.to_nat i) x 0) (g_limb_select 0 (nth (Z.to_nat (yidx i)) y 0) (choice_of_bool mask)) c)),
      snd (g_limb_adc (nth (Z.to_nat i) x 0) (g_limb_select 0 (nth (Z.to_nat (yidx i)) y 0) (choice_of_bool mask)) c))) ->
  wf y ->
  forall cnt i x c, wf x -> is_word c -> (i + cnt <= length x)%nat -> Z.of_nat (i + cnt) < 2 ^ 64 ->
  (forall j, (i <= j < i + cnt)%nat -> Z.to_nat (yidx (Z.of_nat j)) = (yoff + j)%nat) ->
  exists c', Nat.iter cnt F2 (Z.of_nat i, x, c) = (Z.of_nat (i + cnt), addback_go cnt i x y 0 yoff mask c, c').
Proof.
  intros HF Wy. induction cnt as [|cnt IH]; intros i x c Wx Wc Hl Hk Hidx.
  - exists c. cbn [Nat.iter addback_go]. rewrite Nat.add_0_r. reflexivity.
  - rewrite iter_shift, HF. rewrite Nat2Z.id. rewrite (Hidx i ltac:(lia)).
    assert (Wyv : is_word (nth (yoff + i) y 0)) by (apply (wf_nthz y (yoff + i) Wy)).
    assert (Wxv : is_word (nth i x 0)) by (apply (wf_nthz x i Wx)).
    rewrite g_limb_select_eq, (select_word_choice mask 0 _ is_word_0' Wyv).
    assert (Wsel : is_word (if mask then nth (yoff + i) y 0 else 0)) by (destruct mask; [assumption | apply is_word_0']).
    rewrite (g_limb_adc_eq _ _ c Wxv Wsel Wc).
    cbn [addback_go]. unfold nthz, sel. cbn [Nat.add].
    destruct (adc (nth i x 0) (if mask then nth (yoff + i) y 0 else 0) c) as [xv c1] eqn:Ea.
    destruct (adc_exact _ _ c xv c1 Wxv Wsel Wc Ea) as (_ & Wxv1 & Hc1). cbn [fst snd].
    rewrite upd_upd_.
    assert (Eadd : add_ 64 (Z.of_nat i) 1 = Z.of_nat (S i)) by (unfold add_; rewrite Z.mod_small by lia; lia).
    rewrite Eadd.
    destruct (IH (S i) (upd x i xv) c1) as [c' E]; try lia.
    + apply l0_wf_upd; assumption.
    + unfold is_word. change B with (2 ^ 64). lia.
    + rewrite l0_length_upd by lia. lia.
    + intros j Hj. apply Hidx. lia.
    + exists c'. rewrite E. replace (S i + cnt)%nat with (i + S cnt)%nat by lia. reflexivity.
Qed.

(* ---------------- the outer loop against [div_ct_loop] *)
Definition ct_inv (n : nat) (st : ctst) : Prop := ct_wf n st /\ is_word (c_xlo st).

Lemma ct_body_inv xi' n dwords y rc st : (S xi' < n)%nat -> ct_inv n st -> ct_inv n (ct_body xi' n dwords y rc st).
Proof.
  intros Hxi [Hw Hlo]. pose proof (l0_ct_body_wf xi' n dwords y rc st Hxi Hw) as Hw'. split; [exact Hw'|].
  destruct Hw' as (W & _ & _).
  assert (E : c_xlo (ct_body xi' n dwords y rc st)
              = sel (Z.of_nat (S xi') <? dwords - 1) (nthz (c_x (ct_body xi' n dwords y rc st)) xi') (c_xlo st)).
  { unfold ct_body. cbv zeta. destruct (knuth_step _ _ _ _ _ _ _) as [x2 mask]. reflexivity. }
  rewrite E. apply l0_word_sel; [apply wf_nthz; exact W | exact Hlo].
Qed.

Lemma ct_loop_iter n dwords y rc (F : Z * Z * Z * list Z * Z * Z -> Z * Z * Z * list Z * Z * Z) :
  (forall xi' c i st, (S xi' < n)%nat -> ct_inv n st ->
     exists c' i', F (Z.of_nat (S xi'), c, i, c_x st, c_xhi st, c_xlo st) =
       (Z.of_nat xi', c', i', c_x (ct_body xi' n dwords y rc st), c_xhi (ct_body xi' n dwords y rc st), c_xlo (ct_body xi' n dwords y rc st))) ->
  forall xi c i st, (xi < n)%nat -> ct_inv n st ->
  exists c' i', Nat.iter xi F (Z.of_nat xi, c, i, c_x st, c_xhi st, c_xlo st) =
     (0, c', i', c_x (div_ct_loop xi n dwords y rc st), c_xhi (div_ct_loop xi n dwords y rc st), c_xlo (div_ct_loop xi n dwords y rc st)).
Proof.
  intros HB. induction xi as [|xi IH]; intros c i st Hxi Hst.
  - exists c, i. reflexivity.
  - rewrite iter_shift. destruct (HB xi c i st Hxi Hst) as (c1 & i1 & E1). rewrite E1.
    rewrite div_ct_loop_S. apply IH; [lia|]. apply ct_body_inv; assumption.
Qed.

Lemma ct_inv_loop n dwords y rc : forall xi st, (xi < n)%nat -> ct_inv n st -> ct_inv n (div_ct_loop xi n dwords y rc st).
Proof.
  induction xi as [|xi IH]; intros st Hxi Hst; [exact Hst|].
  rewrite div_ct_loop_S. apply IH; [lia|]. apply ct_body_inv; assumption.
Qed.

(* the outputs of the multiply-subtract chain are words *)
Lemma mulsub_go_words y quo : wf y -> is_word quo -> forall cnt i x base yoff c b, wf x -> is_word c -> is_word b ->
  is_word (snd (fst (mulsub_go cnt i x y base yoff quo c b))) /\ is_word (snd (mulsub_go cnt i x y base yoff quo c b)).
Proof.
  intros Wy Wq. induction cnt as [|cnt IH]; intros i x base yoff c b Wx Wc Wb; [cbn [mulsub_go fst snd]; auto|].
  cbn [mulsub_go].
  assert (Wyv : is_word (nthz y (yoff + i))) by (apply wf_nthz; assumption).
  assert (Wxv : is_word (nthz x (base + i))) by (apply wf_nthz; assumption).
  destruct (mac 0 (nthz y (yoff + i)) quo c) as [t c1] eqn:Em.
  destruct (mac_exact 0 _ quo c t c1 is_word_0' Wyv Wq Wc Em) as (_ & Wt & Wc1).
  pose proof (sbb_borrow_word _ t b Wxv Wt Wb) as Wb1. pose proof (l0_sbb_word (nthz x (base + i)) t b) as Wxv1.
  destruct (sbb (nthz x (base + i)) t b) as [xv b1]. cbn [fst snd] in *.
  apply IH; try assumption. apply l0_wf_upd; assumption.
Qed.

(* ---------------- the body of the outer loop, verbatim from Src/GenDivCt.v (the main proof checks by [change] that this IS
   the generated text) *)
Definition ct_F (LIMBS : nat) (v_y : list Z) (v_reciprocal : g_Reciprocal) (v_dwords : Z)
    (st : Z * Z * Z * list Z * Z * Z) : Z * Z * Z * list Z * Z * Z :=
  let '(v_xi, v_carry, v_i, v_x, v_x_hi, v_x_lo) := st in
  let v_quo := (g_div3by2 v_x_hi v_x_lo (nth (Z.to_nat (sub_ 64 v_xi 1)) v_x 0) v_reciprocal (nth (Z.to_nat (sub_ 64 (Z.of_nat LIMBS) 2)) v_y 0)) in
  let v_done := (g_cc_from_u32_lt (trunc_ 32 v_xi) (sub_ 32 v_dwords 1)) in
  let v_quo := (g_cc_select_word v_done v_quo 0) in
  let v_carry := 0 in
  let v_borrow := 0 in
  let v_tmp := 0 in
  let v_i := 0 in
  let '(v_i, v_tmp, v_carry, v_x, v_borrow) := Nat.iter (Z.to_nat (v_xi + 1 - v_i)) (fun st => let '(v_i, v_tmp, v_carry, v_x, v_borrow) := st in
  let '(tmp_0, tmp_1) := (g_limb_mac 0 (nth (Z.to_nat (sub_ 64 (add_ 64 (sub_ 64 (Z.of_nat LIMBS) v_xi) v_i) 1)) v_y 0) v_quo v_carry) in
  let v_tmp := tmp_0 in
  let v_carry := tmp_1 in
  let '(tmp_0, tmp_1) := (g_limb_sbb (nth (Z.to_nat v_i) v_x 0) v_tmp v_borrow) in
  let v_x := (upd_ v_x (Z.to_nat v_i) tmp_0) in
  let v_borrow := tmp_1 in
  let v_i := (add_ 64 v_i 1) in
  (v_i, v_tmp, v_carry, v_x, v_borrow)) (v_i, v_tmp, v_carry, v_x, v_borrow) in
  let '(tmp_0, tmp_1) := (g_limb_sbb v_x_hi v_carry v_borrow) in
  let v_borrow := tmp_1 in
  let v_ct_borrow := (g_cc_from_word_mask v_borrow) in
  let v_carry := 0 in
  let v_i := 0 in
  let '(v_i, v_x, v_carry) := Nat.iter (Z.to_nat (v_xi + 1 - v_i)) (fun st => let '(v_i, v_x, v_carry) := st in
  let '(tmp_0, tmp_1) := (g_limb_adc (nth (Z.to_nat v_i) v_x 0) (g_limb_select 0 (nth (Z.to_nat (sub_ 64 (add_ 64 (sub_ 64 (Z.of_nat LIMBS) v_xi) v_i) 1)) v_y 0) v_ct_borrow) v_carry) in
  let v_x := (upd_ v_x (Z.to_nat v_i) tmp_0) in
  let v_carry := tmp_1 in
  let v_i := (add_ 64 v_i 1) in
  (v_i, v_x, v_carry)) (v_i, v_x, v_carry) in
  let v_quo := (g_cc_select_word v_ct_borrow v_quo (satsub_ v_quo 1)) in
  let v_x_hi := (g_limb_select (nth (Z.to_nat v_xi) v_x 0) v_x_hi v_done) in
  let v_x := (upd_ v_x (Z.to_nat v_xi) (g_limb_select v_quo (nth (Z.to_nat v_xi) v_x 0) v_done)) in
  let v_x_lo := (g_limb_select (nth (Z.to_nat (sub_ 64 v_xi 1)) v_x 0) v_x_lo v_done) in
  let v_xi := (sub_ 64 v_xi 1) in
  (v_xi, v_carry, v_i, v_x, v_x_hi, v_x_lo).

Lemma ct_F_body n dwords y rc xi' c i st :
  (S xi' < n)%nat -> ct_inv n st -> wf y -> length y = n -> 64 * Z.of_nat n < 2 ^ 32 -> 1 <= dwords < 2 ^ 32 ->
  is_word (r_d rc) -> is_word (r_v rc) ->
  exists c' i', ct_F n y (g_of_recip rc) dwords (Z.of_nat (S xi'), c, i, c_x st, c_xhi st, c_xlo st) =
    (Z.of_nat xi', c', i', c_x (ct_body xi' n dwords y rc st), c_xhi (ct_body xi' n dwords y rc st), c_xlo (ct_body xi' n dwords y rc st)).
Proof.
  intros Hxi [(Wx & Lx & Whi) Wlo] Wy Ly Hn Hdw Wd Wv.
  destruct st as [x xhi xlo]. cbn [c_x c_xhi c_xlo] in *.
  unfold ct_F. cbv beta iota zeta.
  assert (E1 : sub_ 64 (Z.of_nat (S xi')) 1 = Z.of_nat xi') by (unfold sub_; rewrite Z.mod_small by lia; lia).
  assert (E2 : Z.to_nat (sub_ 64 (Z.of_nat n) 2) = (n - 2)%nat) by (unfold sub_; rewrite Z.mod_small by lia; lia).
  rewrite !E1, !E2, !Nat2Z.id.
  assert (Wxv : forall k, is_word (nth k x 0)) by (intros k; apply (wf_nthz x k Wx)).
  assert (Wyv : forall k, is_word (nth k y 0)) by (intros k; apply (wf_nthz y k Wy)).
  rewrite (g_div3by2_eq xhi xlo (nth xi' x 0) rc (nth (n - 2) y 0) Whi Wlo (Wxv _) (Wyv _) Wd Wv).
  set (quo0 := div3by2 xhi xlo (nth xi' x 0) rc (nth (n - 2) y 0)).
  assert (Wq0 : is_word quo0) by apply l0_div3by2_word.
  assert (Ed : g_cc_from_u32_lt (trunc_ 32 (Z.of_nat (S xi'))) (sub_ 32 dwords 1) = choice_of_bool (Z.of_nat (S xi') <? dwords - 1)).
  { rewrite g_cc_from_u32_lt_eq. unfold trunc_, sub_. rewrite !Z.mod_small by lia. apply from_u32_lt_bool; unfold U32; lia. }
  rewrite Ed. set (done := Z.of_nat (S xi') <? dwords - 1).
  rewrite (g_select_spec done quo0 0 Wq0 is_word_0').
  set (quo := if done then 0 else quo0).
  assert (Wq : is_word quo) by (unfold quo; destruct done; [apply is_word_0' | assumption]).
  assert (Ecnt : Z.to_nat (Z.of_nat (S xi') + 1 - 0) = S (S xi')) by lia.
  rewrite !Ecnt.
  set (yidx := fun i : Z => sub_ 64 (add_ 64 (sub_ 64 (Z.of_nat n) (Z.of_nat (S xi'))) i) 1).
  assert (Hidx : forall j, (0 <= j < 0 + S (S xi'))%nat -> Z.to_nat (yidx (Z.of_nat j)) = (n - S xi' - 1 + j)%nat).
  { intros j Hj. unfold yidx, sub_, add_. rewrite (Z.mod_small (Z.of_nat n - _)) by lia.
    rewrite (Z.mod_small (Z.of_nat n - _ + _)) by lia. rewrite Z.mod_small by lia. lia. }
  (* multiply-subtract *)
  match goal with |- context [Nat.iter (S (S xi')) ?F1 (0, 0, 0, x, 0)] =>
    destruct (mulsub_iter y quo yidx (n - S xi' - 1) F1
                ltac:(intros i0 t0 c0 x0 b0; cbv beta iota; fold (yidx i0);
                      destruct (g_limb_mac 0 (nth (Z.to_nat (yidx i0)) y 0) quo c0) as [m0 m1]; cbn [fst snd];
                      destruct (g_limb_sbb (nth (Z.to_nat i0) x0 0) m0 b0); reflexivity)
                Wy Wq (S (S xi')) 0%nat 0 0 x 0 Wx is_word_0' is_word_0' ltac:(lia) ltac:(lia) Hidx) as [tmp' EM] end.
  change (Z.of_nat 0) with 0 in EM. rewrite EM. clear EM.
  destruct (mulsub_go_words y quo Wy Wq (S (S xi')) 0%nat x 0%nat (n - S xi' - 1)%nat 0 0 Wx is_word_0' is_word_0') as [Wc1 Wb1].
  destruct (l0_mulsub_go_wf (S (S xi')) 0 x y 0 (n - S xi' - 1) quo 0 0 Wx ltac:(lia)) as [Wx1 Lx1].
  unfold ct_body. cbv zeta. cbn [c_x c_xhi c_xlo]. unfold knuth_step.
  change (nthz x xi') with (nth xi' x 0). change (nthz y (n - 2)) with (nth (n - 2) y 0). fold quo0. fold done.
  change (sel done quo0 0) with quo.
  destruct (mulsub_go (S (S xi')) 0 x y 0 (n - S xi' - 1) quo 0 0) as [[x1 carry1] borrow1]. cbn [fst snd] in *.
  rewrite (g_limb_sbb_eq xhi carry1 borrow1 Whi Wc1 Wb1).
  destruct (sbb xhi carry1 borrow1) as [t borrow2] eqn:Es.
  assert (Eb2 : g_cc_from_word_mask borrow2 = choice_of_bool (negb (borrow2 =? 0))).
  { unfold g_cc_from_word_mask. destruct (sbb_exact xhi carry1 borrow1 t borrow2 Whi Wc1 Wb1 Es) as [_ [[-> _]|[-> _]]]; reflexivity. }
  rewrite Eb2. set (mask := negb (borrow2 =? 0)).
  (* add-back *)
  match goal with |- context [Nat.iter (S (S xi')) ?F2 (0, x1, 0)] =>
    destruct (addback_iter y mask yidx (n - S xi' - 1) F2
                ltac:(intros i0 x0 c0; cbv beta iota; fold (yidx i0);
                      destruct (g_limb_adc (nth (Z.to_nat i0) x0 0) (g_limb_select 0 (nth (Z.to_nat (yidx i0)) y 0) (choice_of_bool mask)) c0);
                      reflexivity)
                Wy (S (S xi')) 0%nat x1 0 Wx1 is_word_0' ltac:(lia) ltac:(lia) Hidx) as [c2 EA] end.
  change (Z.of_nat 0) with 0 in EA. rewrite EA. clear EA.
  destruct (l0_addback_go_wf (S (S xi')) 0 x1 y 0 (n - S xi' - 1) mask 0 Wx1 ltac:(lia)) as [Wx2 Lx2].
  set (x2 := addback_go (S (S xi')) 0 x1 y 0 (n - S xi' - 1) mask 0) in *.
  assert (Wx2v : forall k, is_word (nth k x2 0)) by (intros k; apply (wf_nthz x2 k Wx2)).
  (* the quotient digit and the three masked stores *)
  assert (Wsat : is_word (satsub_ quo 1)).
  { unfold satsub_. destruct (Z.ltb_spec quo 1); [apply is_word_0'|]. unfold is_word in *. change B with (2 ^ 64) in *. lia. }
  rewrite (g_select_spec mask quo (satsub_ quo 1) Wq Wsat).
  assert (Esat : satsub_ quo 1 = (if quo =? 0 then 0 else quo - 1)).
  { unfold satsub_. assert (0 <= quo) by (unfold is_word in Wq; lia). destruct (Z.ltb_spec quo 1); destruct (Z.eqb_spec quo 0); lia. }
  rewrite Esat.
  set (quo' := if mask then (if quo =? 0 then 0 else quo - 1) else quo).
  assert (Wq' : is_word quo') by (unfold quo'; destruct mask; [rewrite <- Esat|]; assumption).
  rewrite !g_limb_select_eq.
  rewrite (select_word_choice done (nth (S xi') x2 0) xhi (Wx2v _) Whi).
  rewrite (select_word_choice done quo' (nth (S xi') x2 0) Wq' (Wx2v _)).
  rewrite upd_upd_.
  set (x3 := upd x2 (S xi') (if done then nth (S xi') x2 0 else quo')).
  assert (Wx3 : wf x3) by (apply l0_wf_upd; [assumption | destruct done; [apply Wx2v | assumption]]).
  rewrite (select_word_choice done (nth xi' x3 0) xlo (wf_nthz x3 xi' Wx3) Wlo).
  exists c2, (Z.of_nat (0 + S (S xi'))). reflexivity.
Qed.

(* ---------------- small facts for the prologue / epilogue *)
Lemma g_nz_expect d : g_ctopt_nzlimb_expect (g_limb_to_nz d) tt = d. Proof. reflexivity. Qed.

Lemma nth_upd_same (l : list Z) j v : (j < length l)%nat -> nth j (upd_ l j v) 0 = v.
Proof.
  intros H. unfold upd_. rewrite app_nth2 by (rewrite firstn_length; lia).
  rewrite firstn_length. replace (j - Nat.min j (length l))%nat with 0%nat by lia. reflexivity.
Qed.
Lemma upd_upd_same (l : list Z) j a b : (j < length l)%nat -> upd_ (upd_ l j a) j b = upd_ l j b.
Proof.
  intros H. unfold upd_.
  assert (Lf : length (firstn j l) = j) by (rewrite firstn_length; lia).
  rewrite firstn_app, Lf, Nat.sub_diag. cbn [firstn]. rewrite app_nil_r. rewrite firstn_all2 by lia.
  f_equal. f_equal.
  replace (S j) with (length (firstn j l ++ [a])) at 1 by (rewrite app_length; cbn; lia).
  replace (firstn j l ++ a :: skipn (S j) l) with ((firstn j l ++ [a]) ++ skipn (S j) l) by (rewrite <- app_assoc; reflexivity).
  rewrite skipn_app, skipn_all, Nat.sub_diag. reflexivity.
Qed.

Lemma fold_ext_inv {S} (P : S -> Prop) (f g : S -> nat -> S) : forall l,
  (forall s j, In j l -> P s -> f s j = g s j /\ P (g s j)) -> forall s, P s -> fold_left f l s = fold_left g l s.
Proof.
  induction l as [|j l IH]; intros H s Hs; [reflexivity|]. cbn [fold_left].
  destruct (H s j (or_introl eq_refl) Hs) as [E Hp]. rewrite E. apply IH; [|exact Hp].
  intros s' j' Hin. apply H. right. exact Hin.
Qed.

(* the copy-out loop: y[i] = select(select(0, x[i], i < dwords), x_hi, i == dwords - 1) for i = 1 .. n-1 *)
Definition copy_g (x : list Z) (xhi dwords : Z) (j : nat) : Z :=
  sel (Z.of_nat j =? dwords - 1) (sel (Z.of_nat j <? dwords) 0 (nthz x j)) xhi.

Lemma copy_iter n x xhi dwords yv (F3 : Z * list Z -> Z * list Z) :
  (forall i yy, F3 (i, yy) =
     (add_ 64 i 1,
      upd_ (upd_ yy (Z.to_nat i) (g_limb_select 0 (nth (Z.to_nat i) x 0) (g_cc_from_u32_lt (trunc_ 32 i) dwords))) (Z.to_nat i)
        (g_limb_select (nth (Z.to_nat i) (upd_ yy (Z.to_nat i) (g_limb_select 0 (nth (Z.to_nat i) x 0) (g_cc_from_u32_lt (trunc_ 32 i) dwords))) 0)
           xhi (g_cc_from_u32_eq (trunc_ 32 i) (sub_ 32 dwords 1))))) ->
  (1 <= n)%nat -> 64 * Z.of_nat n < 2 ^ 32 -> 1 <= dwords < 2 ^ 32 -> wf x -> is_word xhi -> length yv = n ->
  Nat.iter (n - 1) F3 (1, yv) = (Z.of_nat n, hd 0 yv :: map (copy_g x xhi dwords) (seq 1 (n - 1))).
Proof.
  intros HF H1 Hn Hdw Wx Whi Ly.
  change (Nat.iter (n - 1) F3 (1, yv)) with (Nat.iter (n - 1) F3 (enc2 (Z.of_nat 1) yv)).
  rewrite (iter_enc_from F3 enc2 (fun j yy =>
     upd_ (upd_ yy j (g_limb_select 0 (nth j x 0) (g_cc_from_u32_lt (trunc_ 32 (Z.of_nat j)) dwords))) j
        (g_limb_select (nth j (upd_ yy j (g_limb_select 0 (nth j x 0) (g_cc_from_u32_lt (trunc_ 32 (Z.of_nat j)) dwords))) 0)
           xhi (g_cc_from_u32_eq (trunc_ 32 (Z.of_nat j)) (sub_ 32 dwords 1))))).
  2:{ intros i s Hi. unfold enc2. rewrite HF. rewrite Z2Nat.id by lia. reflexivity. }
  2:{ lia. }
  replace (1 + (n - 1))%nat with n by lia. unfold enc2. f_equal.
  rewrite (fold_ext_inv (fun s : list Z => length s = n) _ (fun o j => upd_ o j (copy_g x xhi dwords j))).
  - destruct yv as [|y0 yt]; [cbn in Ly; lia|]. cbn [hd].
    pose proof (fold_fill (copy_g x xhi dwords) (map (copy_g x xhi dwords) (seq 1 (n - 1))) [y0] yt) as FF.
    rewrite map_length, seq_length in FF. cbn [length app] in FF. rewrite FF.
    + rewrite skipn_all2 by (cbn [length] in Ly; lia). rewrite app_nil_r. reflexivity.
    + cbn [length] in Ly. lia.
    + intros k Hk. rewrite (nth_indep _ 0 (copy_g x xhi dwords 0)) by (rewrite map_length, seq_length; lia).
      rewrite map_nth, seq_nth by lia. reflexivity.
  - intros s j Hin Ls. apply in_seq in Hin. split.
    + rewrite nth_upd_same by lia. rewrite upd_upd_same by lia. f_equal.
      assert (Et : trunc_ 32 (Z.of_nat j) = Z.of_nat j) by (unfold trunc_; apply Z.mod_small; lia).
      assert (Es : sub_ 32 dwords 1 = dwords - 1) by (unfold sub_; apply Z.mod_small; lia).
      rewrite Et, Es, g_cc_from_u32_lt_eq, g_cc_from_u32_eq_eq.
      rewrite from_u32_lt_bool, from_u32_eq_bool by (unfold U32; lia).
      rewrite !g_limb_select_eq.
      assert (Wxj : is_word (nth j x 0)) by (apply (wf_nthz x j Wx)).
      rewrite (select_word_choice (Z.of_nat j <? dwords) 0 (nth j x 0) is_word_0' Wxj).
      rewrite select_word_choice; [reflexivity | destruct (Z.of_nat j <? dwords); [assumption | apply is_word_0'] | assumption].
    + rewrite upd_length by lia. exact Ls.
  - exact Ly.
Qed.

(* ---------------- Uint::div_rem *)
Lemma recip_new_words d : is_word (r_d (recip_new d)) /\ is_word (r_v (recip_new d)).
Proof.
  unfold recip_new. cbn [r_d r_v]. split; [apply is_word_mod|].
  rewrite <- g_reciprocal_eq by apply is_word_mod. unfold g_reciprocal. cbv zeta.
  destruct (g_mulhilo _ _) as [hi lo]. destruct (g_mulhilo _ _) as [hi2 lo2]. unfold sub_. apply (is_word_mod).
Qed.

Theorem g_uint_div_rem_eq n x y q r : length x = n -> length y = n -> (1 <= n)%nat -> 64 * Z.of_nat n < 2 ^ 32 -> wf x -> wf y ->
  uint_div_rem_l0 x y = Some (q, r) -> g_uint_div_rem n x y = (q, r).
Proof.
  intros Lx Ly H1 Hn Wx Wy E. unfold uint_div_rem_l0 in E. unfold g_uint_div_rem. rewrite Lx in E.
  destruct (Nat.eqb_spec n 1) as [En|En].
  - (* Uint<1>: division by the single limb *)
    rewrite En in *. clear En. change (Z.of_nat 1 =? 1) with true. cbv iota.
    change (Z.to_nat 0) with 0%nat. rewrite g_nz_expect. change (nth 0 y 0) with (nthz y 0).
    set (d := nthz y 0) in *.
    destruct (d =? 0) eqn:Ed; [discriminate|]. apply Z.eqb_neq in Ed.
    assert (Wd : is_word d) by (apply wf_nthz; assumption).
    assert (Hd : 0 < d < B) by (unfold is_word in Wd; lia).
    unfold g_uint_div_rem_limb. rewrite g_Reciprocal_new_eq.
    rewrite (g_div_rem_limb_with_reciprocal_eq 1 x (recip_new d) Lx ltac:(lia) ltac:(lia) Wx
               (recip_for_words d _ (recip_new_correct d Hd))).
    destruct (div_rem_limb_with_reciprocal x (recip_new d)) as [q0 r0]. inversion E. reflexivity.
  - assert (Ez : (Z.of_nat n =? 1) = false) by (apply Z.eqb_neq; lia). rewrite Ez. cbv iota.
    (* dbits, dwords, lshift *)
    rewrite !(g_uint_bits_eq n y Ly Wy Hn). rewrite !(g_uint_BITS_eq n Hn).
    pose proof (l0_bits_val y Wy) as Hbv. pose proof (l0_bits_of_range y Wy) as Hbr. rewrite <- Hbv, Ly in Hbr.
    set (dbits := l0_bits y) in *.
    destruct (dbits =? 0) eqn:Ed0; [discriminate|]. apply Z.eqb_neq in Ed0.
    assert (Edw : div_ceil_ dbits 64 = (dbits + 63) / 64) by (unfold div_ceil_; f_equal; lia).
    rewrite !Edw. set (dwords := (dbits + 63) / 64) in *.
    assert (Hdw : 1 <= dwords <= Z.of_nat n).
    { unfold dwords. split; [apply Z.div_le_lower_bound; lia|]. apply Z.lt_succ_r. apply Z.div_lt_upper_bound; lia. }
    assert (Els : rem_ (sub_ 32 64 (rem_ dbits 64)) 64 = (64 - dbits mod 64) mod 64).
    { unfold rem_, sub_. pose proof (Z.mod_pos_bound dbits 64 ltac:(lia)). rewrite (Z.mod_small (64 - _) (2 ^ 32)) by lia. reflexivity. }
    rewrite !Els. set (lshift := (64 - dbits mod 64) mod 64) in *.
    assert (Hls : 0 <= lshift < 64) by (apply Z.mod_pos_bound; lia).
    assert (Esh : sub_ 32 (64 * Z.of_nat n) dbits = 64 * Z.of_nat n - dbits) by (unfold sub_; apply Z.mod_small; lia).
    rewrite !Esh.
    unfold div_rem_ct_core_l0, div_rem_ct_core_gen in E. cbv zeta in E. rewrite Lx in E. fold dwords lshift in E.
    (* the normalised divisor *)
    assert (Hsr : 0 <= 64 * Z.of_nat n - dbits < 2 ^ 32) by lia.
    destruct (l0_uint_shl y (64 * Z.of_nat n - dbits)) as [ys|] eqn:Eshl; [|discriminate].
    rewrite !(g_uint_shl_eq n y _ ys Ly H1 Hn Hsr Eshl). rewrite !g_uint_to_limbs_eq.
    assert (Hys : wf ys /\ length ys = n).
    { rewrite (l0_uint_shl_val y (64 * Z.of_nat n - dbits) Wy (list_ne_of_len y n Ly H1)) in Eshl by (unfold U32; rewrite ?Ly; lia).
      inversion Eshl. unfold shl_val. rewrite Ly. split; [apply wf_to_limbs | apply length_to_limbs]. }
    destruct Hys as [Wys Lys].
    (* the shifted dividend *)
    rewrite (g_uint_shl_limb_eq n x lshift Lx H1 ltac:(lia) Wx Hls).
    destruct (shl_limb_parts x lshift Wx Hls) as (Wxs & Lxs & Wxh).
    destruct (shl_limb x lshift) as [xs xh0]. cbn [fst snd] in Wxs, Lxs, Wxh. cbv iota beta. unfold g_uint_to_limbs.
    (* the reciprocal *)
    assert (En1 : sub_ 64 (Z.of_nat n) 1 = Z.of_nat (n - 1)) by (unfold sub_; rewrite Z.mod_small by lia; lia).
    rewrite !En1, !Nat2Z.id. rewrite !g_nz_expect. rewrite !g_Reciprocal_new_eq.
    change (nth (n - 1) ys 0) with (nthz ys (n - 1)). set (rc := recip_new (nthz ys (n - 1))) in *.
    destruct (recip_new_words (nthz ys (n - 1))) as [Wrd Wrv]. fold rc in Wrd, Wrv.
    (* the main loop *)
    set (st0 := {| c_x := xs; c_xhi := xh0; c_xlo := nthz xs (n - 1) |}) in *.
    assert (Hst0 : ct_inv n st0).
    { unfold ct_inv, ct_wf, st0. cbn [c_x c_xhi c_xlo].
      split; [split; [exact Wxs | split; [lia | exact Wxh]] | apply wf_nthz; exact Wxs]. }
    match goal with |- context [Nat.iter (n - 1) ?F (Z.of_nat (n - 1), 0, 0, xs, xh0, nth (n - 1) xs 0)] =>
      change F with (ct_F n ys (g_of_recip rc) dwords);
      change (Z.of_nat (n - 1), 0, 0, xs, xh0, nth (n - 1) xs 0) with (Z.of_nat (n - 1), 0, 0, c_x st0, c_xhi st0, c_xlo st0)
    end.
    destruct (ct_loop_iter n dwords ys rc (ct_F n ys (g_of_recip rc) dwords)
                ltac:(intros xi' c0 i0 st Hxi Hst; apply ct_F_body; try assumption; lia)
                (n - 1)%nat 0 0 st0 ltac:(lia) Hst0) as (c' & i' & EL).
    rewrite EL. clear EL.
    pose proof (l0_div_ct_loop_wf (n - 1) n dwords ys rc st0 ltac:(lia) (proj1 Hst0)) as (Wxf & Lxf & Whf).
    set (stf := div_ct_loop (n - 1) n dwords ys rc st0) in *.
    (* the single-limb tail, the copy-out loop and the two final shifts *)
    pose proof (ct_inv_loop n dwords ys rc (n - 1) st0 ltac:(lia) Hst0) as [_ Wlf]. fold stf in Wlf.
    assert (Eld : g_cc_from_u32_eq 1 dwords = choice_of_bool (dwords =? 1)).
    { rewrite g_cc_from_u32_eq_eq, from_u32_eq_bool by (unfold U32; lia). rewrite Z.eqb_sym. reflexivity. }
    rewrite !Eld. set (ld := dwords =? 1) in *.
    rewrite !g_limb_select_eq. rewrite (select_word_choice ld 0 (c_xhi stf) is_word_0' Whf).
    assert (Wadj : is_word (if ld then c_xhi stf else 0)) by (destruct ld; [assumption | apply is_word_0']).
    rewrite (g_div2by1_eq _ (c_xlo stf) rc Wadj Wlf Wrd Wrv).
    change (sel ld 0 (c_xhi stf)) with (if ld then c_xhi stf else 0) in E.
    destruct (div2by1_words (if ld then c_xhi stf else 0) (c_xlo stf) rc) as [Wq2 Wr2].
    destruct (div2by1 (if ld then c_xhi stf else 0) (c_xlo stf) rc) as [quo2 rem2]. cbn [fst snd] in Wq2, Wr2.
    change (Z.to_nat 0) with 0%nat. rewrite !upd_upd_.
    assert (Wx0 : is_word (nth 0 (c_x stf) 0)) by (apply (wf_nthz (c_x stf) 0 Wxf)).
    rewrite !(g_limb_select_eq (nth 0 (c_x stf) 0) quo2).
    rewrite (select_word_choice ld (nth 0 (c_x stf) 0) quo2 Wx0 Wq2).
    change (sel ld (nthz (c_x stf) 0) quo2) with (if ld then quo2 else nth 0 (c_x stf) 0) in E.
    set (xq := upd (c_x stf) 0 (if ld then quo2 else nth 0 (c_x stf) 0)) in *.
    assert (Wxq : wf xq) by (apply l0_wf_upd; [assumption | destruct ld; assumption]).
    assert (Lxq : length xq = n) by (unfold xq; rewrite l0_length_upd by lia; lia).
    assert (Wxq0 : is_word (nth 0 xq 0)) by (apply (wf_nthz xq 0 Wxq)).
    rewrite !(g_limb_select_eq (nth 0 xq 0) rem2).
    rewrite (select_word_choice ld (nth 0 xq 0) rem2 Wxq0 Wr2).
    change (sel ld (nthz xq 0) rem2) with (if ld then rem2 else nth 0 xq 0) in E.
    replace (Z.to_nat (Z.of_nat n - 1)) with (n - 1)%nat by lia.
    match goal with |- context [Nat.iter (n - 1) ?F3 (1, ?yv)] =>
      rewrite (copy_iter n xq (c_xhi stf) dwords yv F3 ltac:(intros; reflexivity) H1 Hn ltac:(lia) Wxq Whf
                 ltac:(rewrite l0_length_upd by lia; lia)) end.
    cbv iota beta.
    assert (Ehd : hd 0 (upd_ ys 0 (if ld then rem2 else nth 0 xq 0)) = (if ld then rem2 else nth 0 xq 0)).
    { destruct ys as [|y0 yt]; [cbn in Lys; lia | reflexivity]. }
    rewrite Ehd.
    assert (Emul : mul_ 32 (sub_ 32 dwords 1) 64 = (dwords - 1) * 64).
    { unfold mul_, sub_. rewrite (Z.mod_small (dwords - 1)) by lia. apply Z.mod_small. lia. }
    rewrite Emul.
    unfold copy_g. 
    destruct (l0_uint_shr xq ((dwords - 1) * 64)) as [q'|] eqn:Eq; [|discriminate].
    match type of E with match l0_uint_shr ?yy lshift with _ => _ end = _ =>
      destruct (l0_uint_shr yy lshift) as [r'|] eqn:Er; [|discriminate] end.
    inversion E. subst q' r'.
    rewrite (g_uint_shr_eq n xq ((dwords - 1) * 64) q Lxq H1 Hn ltac:(lia) Eq).
    match goal with |- (_, g_uint_shr n ?yy lshift) = _ =>
      rewrite (g_uint_shr_eq n yy lshift r ltac:(cbn [length]; rewrite map_length, seq_length; lia) H1 Hn ltac:(lia) Er) end.
    reflexivity.
Qed.
(* ---------------- composition with the total-correctness theorem of the limb-level model *)
Lemma g_uint_div_rem_exact n x y : length x = n -> length y = n -> (1 <= n)%nat -> 64 * Z.of_nat n < 2 ^ 32 ->
  wf x -> wf y -> eval y <> 0 ->
  let '(q, r) := g_uint_div_rem n x y in
  eval q = eval x / eval y /\ eval r = eval x mod eval y /\ wf q /\ wf r /\ length q = n /\ length r = n.
Proof.
  intros Lx Ly H1 Hn Wx Wy Hnz.
  destruct (uint_div_rem_l0_total x y Wx Wy ltac:(lia) ltac:(rewrite Lx; exact Hn) Hnz) as (q & r & E & Hv & Hr & Lq & Lr & Wq & Wr).
  rewrite (g_uint_div_rem_eq n x y q r Lx Ly H1 Hn Wx Wy E).
  pose proof (eval_nonneg y Wy).
  destruct (divmod_unique (eval x) (eval y) (eval q) (eval r) ltac:(lia) Hv Hr) as [Eq Er].
  repeat split; try assumption; lia.
Qed.
