(** Translator tie, group Uint: the limb loops of src/uint/add.rs, sub.rs, neg.rs, cmp.rs (and the Limb methods they
    call) as regenerated from /repo's CURRENT source (Src/GenUint.v) equal the structural recursions of Model/AddSub.v
    and Model/Cmp.v for every limb count LIMBS < 2^64 (a usize) and all limb values. *)
From CB Require Import Model.SrcPrelude Model.Word Model.Limbs Model.AddSub Model.Cmp.
From CB Require Import Src.GenPrim Src.GenUint Src.GenWidthP Src.GenPrimP Src.GenLoopP.
From CB Require Import Proofs.WordP Proofs.WordPredP Proofs.LimbsP.
From Coq Require Import Lia List.
Import ListNotations.
Open Scope Z_scope.
Transparent B.

Definition usz (n : nat) : Prop := Z.of_nat n < 2 ^ 64.

(* ---------------- Limb methods *)
Lemma g_limb_adc_eq a b c : is_word a -> is_word b -> is_word c -> g_limb_adc a b c = adc a b c.
Proof. intros. unfold g_limb_adc. rewrite g_adc_eq by assumption. destruct (adc a b c); reflexivity. Qed.
Lemma g_limb_sbb_eq a b c : is_word a -> is_word b -> is_word c -> g_limb_sbb a b c = sbb a b c.
Proof. intros. unfold g_limb_sbb. rewrite g_sbb_eq by assumption. destruct (sbb a b c); reflexivity. Qed.
Lemma g_limb_select_eq a b c : g_limb_select a b c = select_word c a b. Proof. reflexivity. Qed.
Lemma g_limb_is_nonzero_eq a : g_limb_is_nonzero a = from_word_nonzero a. Proof. reflexivity. Qed.

(* ---------------- adc / sbb : the loop is the carry chain *)
Lemma g_uint_adc_loop n a b c : length a = n -> length b = n -> usz n -> g_uint_adc n a b c = zipacc g_limb_adc a b c.
Proof.
  intros Ha Hb Hn. unfold g_uint_adc.
  rewrite (iter_idx3 _ (fun j (s : list Z * Z) =>
     let '(w, c') := g_limb_adc (nth j a 0) (nth j b 0) (snd s) in (upd_ (fst s) j w, c'))) by
    (first [exact Hn | intros i x y Hi; cbn [fst snd]; destruct (g_limb_adc _ _ _); reflexivity]).
  subst n. rewrite (loop_zipacc g_limb_adc a b c (eq_sym Hb)). destruct (zipacc g_limb_adc a b c); reflexivity.
Qed.
Lemma zipacc_adc a : forall b c, wf a -> wf b -> is_word c -> zipacc g_limb_adc a b c = adc_limbs a b c.
Proof.
  induction a as [|x a IH]; intros [|y b] c Wa Wb Wc; try reflexivity.
  cbn [zipacc adc_limbs]. inversion Wa; subst. inversion Wb; subst.
  rewrite g_limb_adc_eq by assumption. destruct (adc x y c) as [w c1] eqn:E.
  destruct (adc_exact x y c w c1) as [_ [_ Hc1]]; try assumption.
  rewrite IH; try assumption. reflexivity. unfold is_word. change B with (2 ^ 64). lia.
Qed.
Lemma g_uint_adc_eq n a b c : length a = n -> length b = n -> usz n -> wf a -> wf b -> is_word c ->
  g_uint_adc n a b c = adc_limbs a b c.
Proof. intros. rewrite g_uint_adc_loop by assumption. apply zipacc_adc; assumption. Qed.

Lemma g_uint_sbb_loop n a b c : length a = n -> length b = n -> usz n -> g_uint_sbb n a b c = zipacc g_limb_sbb a b c.
Proof.
  intros Ha Hb Hn. unfold g_uint_sbb.
  rewrite (iter_idx3 _ (fun j (s : list Z * Z) =>
     let '(w, c') := g_limb_sbb (nth j a 0) (nth j b 0) (snd s) in (upd_ (fst s) j w, c'))) by
    (first [exact Hn | intros i x y Hi; cbn [fst snd]; destruct (g_limb_sbb _ _ _); reflexivity]).
  subst n. rewrite (loop_zipacc g_limb_sbb a b c (eq_sym Hb)). destruct (zipacc g_limb_sbb a b c); reflexivity.
Qed.
Lemma zipacc_sbb a : forall b c, wf a -> wf b -> is_word c -> zipacc g_limb_sbb a b c = sbb_limbs a b c.
Proof.
  induction a as [|x a IH]; intros [|y b] c Wa Wb Wc; try reflexivity.
  cbn [zipacc sbb_limbs]. inversion Wa; subst. inversion Wb; subst.
  rewrite g_limb_sbb_eq by assumption. destruct (sbb x y c) as [w c1] eqn:E.
  destruct (sbb_exact x y c w c1) as [_ Hc1]; try assumption.
  rewrite IH; try assumption. reflexivity.
  destruct Hc1 as [[-> _]|[-> _]]; [apply is_word_0'|apply is_word_MAXW].
Qed.
Lemma g_uint_sbb_eq n a b c : length a = n -> length b = n -> usz n -> wf a -> wf b -> is_word c ->
  g_uint_sbb n a b c = sbb_limbs a b c.
Proof. intros. rewrite g_uint_sbb_loop by assumption. apply zipacc_sbb; assumption. Qed.

(* ---------------- carrying_neg *)
Definition neg_step (x c : Z) : Z * Z := (trunc_ 64 (add_ 128 (not_ 64 x) c), shr_ (add_ 128 (not_ 64 x) c) 64).
Lemma g_uint_carrying_neg_eq n a : length a = n -> usz n -> wf a -> g_uint_carrying_neg n a = uint_carrying_neg a.
Proof.
  intros Ha Hn Wa. unfold g_uint_carrying_neg, uint_carrying_neg.
  rewrite (iter_idx3 _ (fun j (s : list Z * Z) =>
     let '(w, c') := neg_step (nth j a 0) (snd s) in
     (upd_ (fst s) j w, c'))) by (first [exact Hn | intros i x y Hi; reflexivity]).
  subst n. rewrite (loop_mapacc neg_step a 1).
  assert (E : forall l c, wf l -> 0 <= c <= 1 ->
    mapacc neg_step l c = neg_limbs l c /\
    0 <= snd (neg_limbs l c) <= 1).
  { induction l as [|x l IH]; intros c Wl Hc; [split; [reflexivity|exact Hc]|].
    inversion Wl; subst. cbn [mapacc neg_limbs]. unfold neg_step at 1.
    assert (Hx : 0 <= wnot x < B) by (unfold wnot, MAXW, is_word in *; lia).
    assert (E1 : add_ 128 (not_ 64 x) c = wnot x + c).
    { unfold add_. change (not_ 64 x) with (wnot x). apply Z.mod_small. change B with (2 ^ 64) in Hx. lia. }
    rewrite E1. unfold trunc_, shr_. change (2 ^ 64) with B.
    assert (Hq : 0 <= (wnot x + c) / B <= 1).
    { split; [apply Z.div_pos; lia|]. apply Z.lt_succ_r. apply Z.div_lt_upper_bound; lia. }
    destruct (IH ((wnot x + c) / B) H2 Hq) as [-> Hs].
    destruct (neg_limbs l ((wnot x + c) / B)) as [rs c2]. cbn [snd] in *. split; [reflexivity|exact Hs]. }
  destruct (E a 1 Wa ltac:(lia)) as [-> Hs].
  destruct (neg_limbs a 1) as [r c]. cbn [snd] in Hs.
  cbn [fst snd]. f_equal. unfold trunc_. rewrite Z.mod_small by (split; [lia | apply Z.le_lt_trans with 1; [lia | reflexivity]]). reflexivity.
Qed.

(* ---------------- select / is_nonzero / is_odd / eq *)
Lemma g_uint_select_eq n a b c : length a = n -> length b = n -> usz n -> g_uint_select n a b c = uint_select a b c.
Proof.
  intros Ha Hb Hn. unfold g_uint_select, uint_select, select_limbs.
  rewrite (iter_idx _ (fun j (out : list Z) => upd_ out j (g_limb_select (nth j a 0) (nth j b 0) c)))
    by (first [exact Hn | intros i s Hi; reflexivity]).
  subst n. rewrite (loop_map2 (fun x y => g_limb_select x y c) a b (eq_sym Hb)). reflexivity.
Qed.

Lemma g_uint_is_nonzero_eq n a : length a = n -> usz n -> g_uint_is_nonzero n a = uint_is_nonzero a.
Proof.
  intros Ha Hn. unfold g_uint_is_nonzero, uint_is_nonzero.
  rewrite (iter_idx _ (fun j (acc : Z) => Z.lor acc (nth j a 0))) by (first [exact Hn | intros i s Hi; reflexivity]).
  subst n. rewrite (loop_acc1 Z.lor a 0). reflexivity.
Qed.

Lemma g_uint_is_odd_eq n a : g_uint_is_odd n a = uint_is_odd a.
Proof. reflexivity. Qed.

Lemma g_uint_eq_eq n a b : length a = n -> length b = n -> usz n -> g_uint_eq n a b = uint_eq a b.
Proof.
  intros Ha Hb Hn. unfold g_uint_eq, uint_eq.
  rewrite (iter_idx _ (fun j (acc : Z) => (fun acc p => Z.lor acc (Z.lxor (fst p) (snd p))) acc (nth j a 0, nth j b 0)))
    by (first [exact Hn | intros i s Hi; reflexivity]).
  subst n. rewrite (loop_acc2 (fun acc p => Z.lor acc (Z.lxor (fst p) (snd p))) a b 0 (eq_sym Hb)). reflexivity.
Qed.

(* ---------------- lt / gt / lte and the wrapping / saturating fronts *)
Lemma g_uint_lt_eq n a b : length a = n -> length b = n -> usz n -> wf a -> wf b -> g_uint_lt n a b = uint_lt a b.
Proof.
  intros. unfold g_uint_lt, uint_lt. rewrite g_uint_sbb_eq by (try assumption; apply is_word_0').
  destruct (sbb_limbs a b 0); reflexivity.
Qed.
Lemma g_uint_gt_eq n a b : length a = n -> length b = n -> usz n -> wf a -> wf b -> g_uint_gt n a b = uint_gt a b.
Proof.
  intros. unfold g_uint_gt, uint_gt. rewrite g_uint_sbb_eq by (try assumption; apply is_word_0').
  destruct (sbb_limbs b a 0); reflexivity.
Qed.
Lemma g_uint_lte_eq n a b : length a = n -> length b = n -> usz n -> wf a -> wf b -> g_uint_lte n a b = uint_lte a b.
Proof. intros. unfold g_uint_lte, uint_lte. rewrite g_uint_gt_eq by assumption. reflexivity. Qed.

Lemma g_uint_wrapping_add_eq n a b : length a = n -> length b = n -> usz n -> wf a -> wf b ->
  g_uint_wrapping_add n a b = uint_wrapping_add a b.
Proof. intros. unfold g_uint_wrapping_add, uint_wrapping_add. rewrite g_uint_adc_eq by (try assumption; apply is_word_0'). reflexivity. Qed.
Lemma g_uint_wrapping_sub_eq n a b : length a = n -> length b = n -> usz n -> wf a -> wf b ->
  g_uint_wrapping_sub n a b = uint_wrapping_sub a b.
Proof. intros. unfold g_uint_wrapping_sub, uint_wrapping_sub. rewrite g_uint_sbb_eq by (try assumption; apply is_word_0'). reflexivity. Qed.

Lemma adc_limbs_len a : forall b c, length a = length b -> length (fst (adc_limbs a b c)) = length a.
Proof.
  induction a as [|x a IH]; intros [|y b] c Hl; try discriminate; [reflexivity|]. cbn [adc_limbs].
  destruct (adc x y c) as [w c1]. specialize (IH b c1 ltac:(cbn in Hl; lia)). destruct (adc_limbs a b c1). cbn in *. lia.
Qed.
Lemma sbb_limbs_len a : forall b c, length a = length b -> length (fst (sbb_limbs a b c)) = length a.
Proof.
  induction a as [|x a IH]; intros [|y b] c Hl; try discriminate; [reflexivity|]. cbn [sbb_limbs].
  destruct (sbb x y c) as [w c1]. specialize (IH b c1 ltac:(cbn in Hl; lia)). destruct (sbb_limbs a b c1). cbn in *. lia.
Qed.

Lemma g_uint_saturating_add_eq n a b : length a = n -> length b = n -> usz n -> wf a -> wf b ->
  g_uint_saturating_add n a b = uint_saturating_add a b.
Proof.
  intros Ha Hb Hn Wa Wb. unfold g_uint_saturating_add, uint_saturating_add.
  rewrite g_uint_adc_eq by (try assumption; apply is_word_0').
  pose proof (adc_limbs_len a b 0 ltac:(lia)) as Hl. destruct (adc_limbs a b 0) as [r c]. cbn [fst] in Hl.
  rewrite g_uint_select_eq by (first [assumption | rewrite ?repeat_length; lia]). rewrite Ha. reflexivity.
Qed.
Lemma g_uint_saturating_sub_eq n a b : length a = n -> length b = n -> usz n -> wf a -> wf b ->
  g_uint_saturating_sub n a b = uint_saturating_sub a b.
Proof.
  intros Ha Hb Hn Wa Wb. unfold g_uint_saturating_sub, uint_saturating_sub.
  rewrite g_uint_sbb_eq by (try assumption; apply is_word_0').
  pose proof (sbb_limbs_len a b 0 ltac:(lia)) as Hl. destruct (sbb_limbs a b 0) as [r c]. cbn [fst] in Hl.
  rewrite g_uint_select_eq by (first [assumption | rewrite ?repeat_length; lia]). rewrite Ha. reflexivity.
Qed.

(* ---------------- composition with the correctness theorems of the models: statements about the SOURCE loops *)
From CB Require Import Proofs.AddSubP Proofs.CmpWordP Proofs.CmpP Proofs.CmpAllP.

Lemma g_uint_adc_exact n a b c r co : length a = n -> length b = n -> usz n -> wf a -> wf b -> is_word c ->
  g_uint_adc n a b c = (r, co) ->
  eval r + Bn n * co = eval a + eval b + c /\ wf r /\ length r = n /\ is_word co /\ (c <= 1 -> co <= 1).
Proof.
  intros Ha Hb Hn Wa Wb Wc E. rewrite g_uint_adc_eq in E by assumption.
  pose proof (adc_limbs_correct a b c r co Wa Wb ltac:(lia) Wc E) as H. rewrite Ha in H. exact H.
Qed.

Lemma g_uint_order_spec n a b : length a = n -> length b = n -> usz n -> wf a -> wf b ->
  g_uint_lt n a b = choice_of_bool (eval a <? eval b) /\
  g_uint_gt n a b = choice_of_bool (eval b <? eval a) /\
  g_uint_lte n a b = choice_of_bool (eval a <=? eval b).
Proof.
  intros Ha Hb Hn Wa Wb. rewrite g_uint_lt_eq, g_uint_gt_eq, g_uint_lte_eq by assumption.
  apply uint_order_spec; try assumption. lia.
Qed.

Lemma g_uint_eq_spec n a b : length a = n -> length b = n -> usz n -> wf a -> wf b ->
  g_uint_eq n a b = choice_of_bool (eval a =? eval b).
Proof. intros Ha Hb Hn Wa Wb. rewrite g_uint_eq_eq by assumption. apply uint_eq_spec; try assumption. lia. Qed.

Lemma g_uint_select_spec n a b (c : bool) : length a = n -> length b = n -> usz n -> wf a -> wf b ->
  g_uint_select n a b (choice_of_bool c) = spec_select c a b.
Proof. intros Ha Hb Hn Wa Wb. rewrite g_uint_select_eq by assumption. apply uint_select_spec; try assumption. lia. Qed.
