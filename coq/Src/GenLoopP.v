(** Generic facts about the shape tools/rs2v.py gives to `let mut i = 0; while i < LIMBS { ..; i += 1 }` loops over limb
    arrays: a [Nat.iter LIMBS] over a tuple state whose first component is the counter, reading `nth i a 0` and writing
    `upd_ out i w`. Such a loop is the structural recursion over the limb lists. Hand-written; depends on SrcPrelude only. *)
From CB Require Import Model.SrcPrelude.
From Coq Require Import Lia List.
Import ListNotations.
Open Scope Z_scope.

(* ---- the counter: k iterations from 0 visit the indices 0 .. k-1 in order (k < 2^64: `i` is a usize) *)
Lemma iter_idx {St} (F : Z * St -> Z * St) (step : nat -> St -> St) :
  (forall i s, 0 <= i -> F (i, s) = (add_ 64 i 1, step (Z.to_nat i) s)) ->
  forall k s0, Z.of_nat k < 2 ^ 64 ->
  Nat.iter k F (0, s0) = (Z.of_nat k, fold_left (fun s j => step j s) (seq 0 k) s0).
Proof.
  intros HF k s0. induction k as [|k IH]; intros Hk; [reflexivity|].
  change (Nat.iter (S k) F (0, s0)) with (F (Nat.iter k F (0, s0))).
  rewrite IH by lia. rewrite HF by lia. rewrite Nat2Z.id.
  rewrite seq_S, fold_left_app. cbn [fold_left Nat.add]. f_equal.
  unfold add_. rewrite Z.mod_small by lia. lia.
Qed.

(* ---- structural recursions the loops denote *)
Fixpoint zipacc (f : Z -> Z -> Z -> Z * Z) (a b : list Z) (c : Z) : list Z * Z :=
  match a, b with
  | x :: a', y :: b' => let '(w, c1) := f x y c in let '(r, c2) := zipacc f a' b' c1 in (w :: r, c2)
  | _, _ => ([], c)
  end.
Fixpoint mapacc (f : Z -> Z -> Z * Z) (a : list Z) (c : Z) : list Z * Z :=
  match a with
  | x :: a' => let '(w, c1) := f x c in let '(r, c2) := mapacc f a' c1 in (w :: r, c2)
  | [] => ([], c)
  end.

Lemma upd_mid pre x post v : upd_ (pre ++ x :: post) (length pre) v = pre ++ v :: post.
Proof.
  unfold upd_. rewrite firstn_app, firstn_all, Nat.sub_diag. cbn [firstn]. rewrite app_nil_r.
  replace (S (length pre)) with (length (pre ++ [x])) by (rewrite app_length; cbn; lia).
  replace (pre ++ x :: post) with ((pre ++ [x]) ++ post) by (rewrite <- app_assoc; reflexivity).
  rewrite skipn_app, skipn_all, Nat.sub_diag. reflexivity.
Qed.

Lemma nth_mid_eq (pa : list Z) x a k : length pa = k -> nth k (pa ++ x :: a) 0 = x.
Proof. intros <-. apply nth_middle. Qed.

(* out + accumulator, two inputs (adc, sbb) *)
Lemma fold_zipacc f : forall a b pa pb pre c, length a = length b -> length pa = length pre -> length pb = length pre ->
  fold_left (fun (s : list Z * Z) j => let '(w, c') := f (nth j (pa ++ a) 0) (nth j (pb ++ b) 0) (snd s) in (upd_ (fst s) j w, c'))
    (seq (length pre) (length a)) (pre ++ repeat 0 (length a), c)
  = (pre ++ fst (zipacc f a b c), snd (zipacc f a b c)).
Proof.
  induction a as [|x a IH]; intros b pa pb pre c Hl Hpa Hpb.
  - cbn. rewrite app_nil_r. reflexivity.
  - destruct b as [|y b]; [discriminate|]. cbn [length seq fold_left repeat zipacc fst snd].
    rewrite (nth_mid_eq pa x a _ Hpa), (nth_mid_eq pb y b _ Hpb).
    destruct (f x y c) as [w c1] eqn:E. rewrite upd_mid.
    replace (pre ++ w :: repeat 0 (length a)) with ((pre ++ [w]) ++ repeat 0 (length a)) by (rewrite <- app_assoc; reflexivity).
    replace (S (length pre)) with (length (pre ++ [w])) by (rewrite app_length; cbn; lia).
    replace (pa ++ x :: a) with ((pa ++ [x]) ++ a) by (rewrite <- app_assoc; reflexivity).
    replace (pb ++ y :: b) with ((pb ++ [y]) ++ b) by (rewrite <- app_assoc; reflexivity).
    rewrite (IH b (pa ++ [x]) (pb ++ [y]) (pre ++ [w]) c1) by (rewrite ?app_length; cbn in *; lia).
    destruct (zipacc f a b c1) as [r c2]. cbn [fst snd]. rewrite <- app_assoc. reflexivity.
Qed.

Lemma loop_zipacc f a b c : length a = length b ->
  fold_left (fun (s : list Z * Z) j => let '(w, c') := f (nth j a 0) (nth j b 0) (snd s) in (upd_ (fst s) j w, c'))
    (seq 0 (length a)) (repeat 0 (length a), c) = zipacc f a b c.
Proof.
  intros Hl. pose proof (fold_zipacc f a b [] [] [] c Hl eq_refl eq_refl) as H. cbn [app length] in H.
  rewrite H. destruct (zipacc f a b c); reflexivity.
Qed.

(* out + accumulator, one input (carrying_neg) *)
Lemma loop_mapacc f a c :
  fold_left (fun (s : list Z * Z) j => let '(w, c') := f (nth j a 0) (snd s) in (upd_ (fst s) j w, c'))
    (seq 0 (length a)) (repeat 0 (length a), c) = mapacc f a c.
Proof.
  pose proof (loop_zipacc (fun x _ c => f x c) a a c eq_refl) as H. rewrite H. clear H.
  revert c. induction a as [|x a IH]; intros c; [reflexivity|]. cbn [zipacc mapacc].
  destruct (f x c) as [w c1]. rewrite IH. reflexivity.
Qed.

(* out only, two inputs (select) *)
Lemma loop_map2 (g : Z -> Z -> Z) a b : length a = length b ->
  fold_left (fun (out : list Z) j => upd_ out j (g (nth j a 0) (nth j b 0))) (seq 0 (length a)) (repeat 0 (length a))
  = map (fun p => g (fst p) (snd p)) (combine a b).
Proof.
  intros Hl. pose proof (loop_zipacc (fun x y c => (g x y, c)) a b 0 Hl) as H.
  assert (E : forall l (s : list Z * Z),
    fold_left (fun (s : list Z * Z) j => let '(w, c') := (g (nth j a 0) (nth j b 0), snd s) in (upd_ (fst s) j w, c')) l s
    = (fold_left (fun (out : list Z) j => upd_ out j (g (nth j a 0) (nth j b 0))) l (fst s), snd s)).
  { induction l as [|j l IHl]; intros [o c]; [reflexivity|]. cbn [fold_left fst snd]. rewrite IHl. reflexivity. }
  rewrite E in H. cbn [fst snd] in H.
  assert (Z2 : forall a b c, zipacc (fun x y c => (g x y, c)) a b c = (map (fun p => g (fst p) (snd p)) (combine a b), c)).
  { clear. induction a as [|x a IH]; intros [|y b] c; try reflexivity. cbn [zipacc combine map fst snd]. rewrite IH. reflexivity. }
  rewrite Z2 in H. inversion H. reflexivity.
Qed.

(* accumulator only (is_nonzero, eq): a left fold over the limbs *)
Lemma loop_acc1 (g : Z -> Z -> Z) a c :
  fold_left (fun acc j => g acc (nth j a 0)) (seq 0 (length a)) c = fold_left g a c.
Proof.
  assert (G : forall a pa c, fold_left (fun acc j => g acc (nth j (pa ++ a) 0)) (seq (length pa) (length a)) c = fold_left g a c).
  { clear. induction a as [|x a IH]; intros pa c; [reflexivity|]. cbn [length seq fold_left]. rewrite nth_middle.
    replace (pa ++ x :: a) with ((pa ++ [x]) ++ a) by (rewrite <- app_assoc; reflexivity).
    replace (S (length pa)) with (length (pa ++ [x])) by (rewrite app_length; cbn; lia). apply IH. }
  exact (G a [] c).
Qed.
Lemma loop_acc2 (g : Z -> Z * Z -> Z) a b c : length a = length b ->
  fold_left (fun acc j => g acc (nth j a 0, nth j b 0)) (seq 0 (length a)) c = fold_left g (combine a b) c.
Proof.
  assert (G : forall a b pa pb c, length a = length b -> length pa = length pb ->
    fold_left (fun acc j => g acc (nth j (pa ++ a) 0, nth j (pb ++ b) 0)) (seq (length pa) (length a)) c = fold_left g (combine a b) c).
  { clear. induction a as [|x a IH]; intros [|y b] pa pb c Hl Hp; try discriminate; [reflexivity|].
    cbn [length seq fold_left combine]. rewrite nth_middle, (nth_mid_eq pb y b _ (eq_sym Hp)).
    replace (pa ++ x :: a) with ((pa ++ [x]) ++ a) by (rewrite <- app_assoc; reflexivity).
    replace (pb ++ y :: b) with ((pb ++ [y]) ++ b) by (rewrite <- app_assoc; reflexivity).
    replace (S (length pa)) with (length (pa ++ [x])) by (rewrite app_length; cbn; lia).
    apply IH; [cbn in Hl; lia | rewrite !app_length; cbn; lia]. }
  intros Hl. exact (G a b [] [] c Hl eq_refl).
Qed.

(* the same for a three-component state (counter, x, y) *)
Lemma iter_idx3 {X Y} (F : Z * X * Y -> Z * X * Y) (step : nat -> X * Y -> X * Y) :
  (forall i x y, 0 <= i -> F (i, x, y) = (add_ 64 i 1, fst (step (Z.to_nat i) (x, y)), snd (step (Z.to_nat i) (x, y)))) ->
  forall k x0 y0, Z.of_nat k < 2 ^ 64 ->
  Nat.iter k F (0, x0, y0) =
  (Z.of_nat k, fst (fold_left (fun s j => step j s) (seq 0 k) (x0, y0)), snd (fold_left (fun s j => step j s) (seq 0 k) (x0, y0))).
Proof.
  intros HF k x0 y0. induction k as [|k IH]; intros Hk; [reflexivity|].
  change (Nat.iter (S k) F (0, x0, y0)) with (F (Nat.iter k F (0, x0, y0))).
  rewrite IH by lia. rewrite HF by lia. rewrite Nat2Z.id.
  rewrite seq_S, fold_left_app. cbn [fold_left Nat.add].
  rewrite <- surjective_pairing.
  assert (E : add_ 64 (Z.of_nat k) 1 = Z.of_nat (S k)) by (unfold add_; rewrite Z.mod_small by lia; lia).
  rewrite E. reflexivity.
Qed.

(* out only, one input (bitand_limb) *)
Lemma loop_map1 (g : Z -> Z) a :
  fold_left (fun (out : list Z) j => upd_ out j (g (nth j a 0))) (seq 0 (length a)) (repeat 0 (length a)) = map g a.
Proof.
  rewrite (loop_map2 (fun x _ => g x) a a eq_refl).
  induction a as [|x a IH]; [reflexivity|]. cbn [combine map fst]. rewrite IH. reflexivity.
Qed.

(* in place: ret[i] = g(ret[i]) (neg_mod) *)
Lemma loop_inplace (g : Z -> Z) : forall l pre,
  fold_left (fun (out : list Z) j => upd_ out j (g (nth j out 0))) (seq (length pre) (length l)) (pre ++ l) = pre ++ map g l.
Proof.
  induction l as [|x l IH]; intros pre; [reflexivity|]. cbn [length seq fold_left map].
  rewrite nth_middle, upd_mid.
  replace (pre ++ g x :: l) with ((pre ++ [g x]) ++ l) by (rewrite <- app_assoc; reflexivity).
  replace (S (length pre)) with (length (pre ++ [g x])) by (rewrite app_length; cbn; lia).
  rewrite IH. rewrite <- app_assoc. reflexivity.
Qed.
