(** Translator tie, group SafeGcd, part 2: the 62-divstep kernel `jump` of /repo's CURRENT src/modular/safegcd.rs
    (Src/GenSafeGcd.v: g_jump, a `loop { .. break .. }` translated with fuel).  For every fuel >= 63 the SOURCE loop reaches its
    `break` and returns exactly (delta', t) of Model/SafeGcd.v jump -- under the hypotheses of jump_matrix (62-bit low limbs, f
    odd or (delta > 0 and g odd), |delta| + 62 <= 2^62).  Hand-written.
    The body of the loop is restated verbatim as [jstep]; [g_jump_unfold] checks by reflexivity that it IS the generated text. *)
From CB Require Import Model.SrcPrelude Model.Word Model.Limbs Model.AddSub Model.SafeGcd.
From CB Require Import Src.GenPrim Src.GenSafeGcd Src.GenSafeGcdP.
From CB Require Import Proofs.WordP Proofs.SafeGcdArithP Proofs.SafeGcdJumpP.
From Coq Require Import Lia List.
Import ListNotations.
Open Scope Z_scope.
Transparent B.

Definition jstate : Type := (Z * Z * Z * list (list Z) * Z)%type.     (* steps, delta, g, t, f *)
Definition jstep (st : jstate) : jstate * bool :=
  let v_min := (fun (v_a : Z) (v_b : Z) => (if (Z.gtb v_a v_b) then v_b else v_a)) in
  let '(v_steps, v_delta, v_g, v_t, v_f) := st in
  let v_zeros := (v_min v_steps (ctz_ 128 v_g)) in
  let '(tmp_0, tmp_1, tmp_2) := ((ssub_ 64 v_steps v_zeros), (sadd_ 64 v_delta v_zeros), (shr_ v_g v_zeros)) in
  let v_steps := tmp_0 in
  let v_delta := tmp_1 in
  let v_g := tmp_2 in
  let v_t := (updl_ v_t (Z.to_nat 0) ((sshl_ 64 (nth (Z.to_nat 0) (nth (Z.to_nat 0) v_t nil) 0) v_zeros) :: (sshl_ 64 (nth (Z.to_nat 1) (nth (Z.to_nat 0) v_t nil) 0) v_zeros) :: nil)) in
  if (Z.eqb v_steps 0) then ((v_steps, v_delta, v_g, v_t, v_f), true) else
  let '(v_delta, v_f, v_g, v_t) := if (Z.gtb v_delta 0) then (let '(tmp_0, tmp_1, tmp_2) := ((sneg_ 64 v_delta), (swrap_ 64 v_g), (sneg_ 64 v_f)) in
  let v_delta := tmp_0 in
  let v_f := tmp_1 in
  let v_g := tmp_2 in
  let '(tmp_0, tmp_1) := ((nth (Z.to_nat 1) v_t nil), ((sneg_ 64 (nth (Z.to_nat 0) (nth (Z.to_nat 0) v_t nil) 0)) :: (sneg_ 64 (nth (Z.to_nat 1) (nth (Z.to_nat 0) v_t nil) 0)) :: nil)) in
  let v_t := (updl_ v_t (Z.to_nat 0) tmp_0) in
  let v_t := (updl_ v_t (Z.to_nat 1) tmp_1) in
  (v_delta, v_f, v_g, v_t)) else ((v_delta, v_f, v_g, v_t)) in
  let v_mask := (ssub_ 64 (sshl_ 64 1 (v_min (v_min v_steps (ssub_ 64 1 v_delta)) 5)) 1) in
  let v_w := (Z.land (smul_ 64 (swrap_ 64 v_g) (Z.lxor (smul_ 64 v_f 3) 28)) v_mask) in
  let v_t := (updl_ v_t (Z.to_nat 1) ((sadd_ 64 (smul_ 64 (nth (Z.to_nat 0) (nth (Z.to_nat 0) v_t nil) 0) v_w) (nth (Z.to_nat 0) (nth (Z.to_nat 1) v_t nil) 0)) :: (sadd_ 64 (smul_ 64 (nth (Z.to_nat 1) (nth (Z.to_nat 0) v_t nil) 0) v_w) (nth (Z.to_nat 1) (nth (Z.to_nat 1) v_t nil) 0)) :: nil)) in
  let v_g := (sadd_ 128 v_g (smul_ 128 v_w v_f)) in
  ((v_steps, v_delta, v_g, v_t, v_f), false).

Lemma g_jump_unfold fuel f g delta :
  g_jump fuel f g delta =
  match loop_ fuel jstep (62, delta, nth 0 g 0, [[1; 0]; [0; 1]], swrap_ 64 (nth 0 f 0)) with
  | None => None
  | Some st => let '(_, d, _, t, _) := st in Some (d, t)
  end.
Proof. reflexivity. Qed.

(* ---------------- one iteration of the model's jump_loop as a function *)
Definition mstate : Type := (Z * Z * Z * Z * matrix)%type.              (* steps, delta, f, g, t *)
Definition mstep (steps delta f g : Z) (t : matrix) : mstate * bool :=
  let '(t00, t01, t10, t11) := t in
  let zeros := ctz_upto (Z.to_nat steps) g in
  let steps := steps - zeros in
  let delta := s64 (delta + zeros) in
  let g := g / 2 ^ zeros in
  let t00 := s64 (t00 * 2 ^ zeros) in
  let t01 := s64 (t01 * 2 ^ zeros) in
  if steps =? 0 then ((steps, delta, f, g, (t00, t01, t10, t11)), true) else
  let '(delta, f, g, t00, t01, t10, t11) :=
    if 0 <? delta then (s64 (- delta), s64 g, s64 (- f), t10, t11, s64 (- t00), s64 (- t01))
    else (delta, f, g, t00, t01, t10, t11) in
  let mask := 2 ^ (Z.min (Z.min steps (s64 (1 - delta))) 5) - 1 in
  let w := Z.land (wmul (u64 g) (wxor (wmul (u64 f) 3) 28)) mask in
  ((steps, delta, f, s128 (g + w * f), (t00, t01, s64 (t00 * w + t10), s64 (t01 * w + t11))), false).

Lemma jump_loop_S k steps delta f g t :
  jump_loop (S k) steps delta f g t =
  let '((s', d', f', g', t'), brk) := mstep steps delta f g t in
  if brk then (d', t') else jump_loop k s' d' f' g' t'.
Proof.
  destruct t as [[[t00 t01] t10] t11]. cbn [jump_loop]. unfold mstep.
  destruct (steps - ctz_upto (Z.to_nat steps) g =? 0); [reflexivity|].
  destruct (0 <? s64 (delta + ctz_upto (Z.to_nat steps) g)); reflexivity.
Qed.

Lemma min_if a b : (if a >? b then b else a) = Z.min a b.
Proof. rewrite Z.gtb_ltb. destruct (Z.ltb_spec b a); lia. Qed.
Lemma ctz_go_upto n g : ctz_go_ n g = ctz_upto n g.
Proof. revert g. induction n as [|n IH]; intros g; [reflexivity|]. cbn [ctz_go_ ctz_upto]. rewrite IH. reflexivity. Qed.
Lemma ctz_upto_min n : forall m g, (n <= m)%nat -> Z.min (Z.of_nat n) (ctz_upto m g) = ctz_upto n g.
Proof.
  induction n as [|n IH]; intros m g Hm.
  - cbn [ctz_upto]. pose proof (ctz_upto_range m g). lia.
  - destruct m as [|m]; [lia|]. cbn [ctz_upto]. destruct (Z.odd g).
    + lia.
    + specialize (IH m (g / 2) ltac:(lia)). lia.
Qed.
Lemma min_ctz steps g : 0 <= steps <= 128 -> Z.min steps (ctz_ 128 g) = ctz_upto (Z.to_nat steps) g.
Proof.
  intros H. unfold ctz_. rewrite ctz_go_upto. rewrite <- (Z2Nat.id steps) at 1 by lia.
  apply ctz_upto_min. lia.
Qed.

(* ---- the signed machine arithmetic of the source against the model's explicit wraps *)
Lemma swrap128 x : swrap_ 128 x = s128 x. Proof. reflexivity. Qed.
Ltac to_s64 := repeat match goal with |- context [swrap_ 64 ?x] => change (swrap_ 64 x) with (s64 x) end.
Ltac to_s128 := repeat match goal with |- context [swrap_ 128 ?x] => change (swrap_ 128 x) with (s128 x) end.
Lemma s128_mod x : (s128 x) mod P128 = x mod P128.
Proof.
  unfold s128. rewrite Zminus_mod, Z.mod_mod by (unfold P128; lia). rewrite <- Zminus_mod. f_equal. lia.
Qed.
Lemma s128_cong x y : x mod P128 = y mod P128 -> s128 x = s128 y.
Proof. intros H. unfold s128. f_equal. rewrite <- (Zplus_mod_idemp_l x), <- (Zplus_mod_idemp_l y), H. reflexivity. Qed.
Lemma pow2_small k : k <= 5 -> 0 <= 2 ^ k <= 32.
Proof.
  intros Hk. destruct (Z_lt_ge_dec k 0) as [Hn|Hp].
  - rewrite Z.pow_neg_r by assumption. lia.
  - split; [apply Z.pow_nonneg; lia|]. change 32 with (2 ^ 5). apply Z.pow_le_mono_r; lia.
Qed.
Lemma mask_eq st d : ssub_ 64 (sshl_ 64 1 (Z.min (Z.min st (ssub_ 64 1 d)) 5)) 1 = 2 ^ (Z.min (Z.min st (s64 (1 - d))) 5) - 1.
Proof.
  change (ssub_ 64 1 d) with (s64 (1 - d)). set (k := Z.min (Z.min st (s64 (1 - d))) 5).
  pose proof (pow2_small k ltac:(unfold k; lia)) as Hp.
  unfold ssub_, sshl_. to_s64. rewrite Z.mul_1_l. rewrite (s64_id (2 ^ k)) by (unfold P63; lia).
  apply s64_id. unfold P63. lia.
Qed.
Lemma land_low x m : 0 <= m < 2 ^ 64 -> Z.land x m = Z.land (x mod 2 ^ 64) m.
Proof.
  intros Hm. rewrite <- (Z.land_ones x 64) by lia. rewrite <- Z.land_assoc.
  rewrite (Z.land_comm (Z.ones 64) m), Z.land_ones by lia. rewrite (Z.mod_small m) by lia. reflexivity.
Qed.
Lemma w_eq g f m : 0 <= m < 2 ^ 64 ->
  Z.land (smul_ 64 (swrap_ 64 g) (Z.lxor (smul_ 64 f 3) 28)) m = Z.land (wmul (u64 g) (wxor (wmul (u64 f) 3) 28)) m.
Proof.
  intros Hm. rewrite (land_low _ m Hm), (land_low (wmul _ _) m Hm). f_equal.
  unfold smul_, wmul, wxor, wrap, u64. to_s64. change B with P64. change (2 ^ 64) with P64.
  rewrite Z.mod_mod by (unfold P64; lia). rewrite s64_mod.
  rewrite Zmult_mod, s64_mod. rewrite (Zmult_mod (g mod P64)). rewrite Z.mod_mod by (unfold P64; lia).
  f_equal. f_equal.
  change P64 with (2 ^ 64). rewrite !lxor_mod_pow2 by lia. f_equal.
  change (2 ^ 64) with P64. rewrite s64_mod, Z.mod_mod by (unfold P64; lia). rewrite Zmult_mod_idemp_l. reflexivity.
Qed.
Lemma g_eq g w f : sadd_ 128 g (smul_ 128 w f) = s128 (g + w * f).
Proof.
  unfold sadd_, smul_. to_s128. apply s128_cong. rewrite Zplus_mod, s128_mod, <- Zplus_mod. reflexivity.
Qed.
Lemma t_eq t w u : sadd_ 64 (smul_ 64 t w) u = s64 (t * w + u).
Proof.
  unfold sadd_, smul_. to_s64. apply s64_cong. rewrite Zplus_mod, s64_mod, <- Zplus_mod. reflexivity.
Qed.

Lemma jstep_mstep steps delta f g t : 0 <= steps <= 62 -> Z.abs delta + steps <= P62 ->
  jstep (steps, delta, g, mat t, f) =
  let '((s', d', f', g', t'), brk) := mstep steps delta f g t in ((s', d', g', mat t', f'), brk).
Proof.
  destruct t as [[[t00 t01] t10] t11]. intros Hs Hd.
  unfold jstep, mstep, mat. cbv beta iota zeta.
  rewrite min_if. rewrite (min_ctz steps g) by lia.
  pose proof (ctz_upto_range (Z.to_nat steps) g) as Hz. rewrite Z2Nat.id in Hz by lia.
  set (z := ctz_upto (Z.to_nat steps) g) in *.
  change (ssub_ 64 steps z) with (s64 (steps - z)). rewrite (s64_id (steps - z)) by (unfold P63; lia).
  change (sadd_ 64 delta z) with (s64 (delta + z)).
  assert (Ed : s64 (delta + z) = delta + z) by (apply s64_id; pfacts; lia).
  change (Z.to_nat 0) with 0%nat. change (Z.to_nat 1) with 1%nat. unfold updl_. cbn [nth firstn skipn app].
  destruct (Z.eqb_spec (steps - z) 0) as [E0|E0]; [reflexivity|].
  rewrite Z.gtb_ltb.
  destruct (Z.ltb_spec 0 (s64 (delta + z))) as [Hp|Hn]; cbv beta iota zeta; cbn [nth firstn skipn app]; rewrite !min_if, mask_eq.
  - set (d2 := sneg_ 64 (s64 (delta + z))).
    assert (Ed2 : d2 = - (delta + z)) by (unfold d2; change (sneg_ 64 (s64 (delta + z))) with (s64 (- s64 (delta + z))); rewrite Ed; apply s64_id; pfacts; lia).
    change (s64 (- s64 (delta + z))) with d2.
    assert (E1 : s64 (1 - d2) = 1 - d2) by (apply s64_id; rewrite Ed2; rewrite Ed in Hp; pfacts; lia).
    set (k := Z.min (Z.min (steps - z) (s64 (1 - d2))) 5).
    assert (Hk : 1 <= k <= 5) by (unfold k; rewrite E1, Ed2; rewrite Ed in Hp; lia).
    assert (Hm : 0 <= 2 ^ k - 1 < 2 ^ 64).
    { pose proof (pow2_small k ltac:(lia)). assert (0 < 2 ^ k) by (apply pow2_pos; lia). lia. }
    rewrite (w_eq _ _ _ Hm). rewrite g_eq, !t_eq. reflexivity.
  - set (d2 := s64 (delta + z)) in *.
    assert (E1 : s64 (1 - d2) = 1 - d2) by (apply s64_id; unfold d2 in *; rewrite Ed in *; pfacts; lia).
    set (k := Z.min (Z.min (steps - z) (s64 (1 - d2))) 5).
    assert (Hk : 1 <= k <= 5) by (unfold k; rewrite E1; lia).
    assert (Hm : 0 <= 2 ^ k - 1 < 2 ^ 64).
    { pose proof (pow2_small k ltac:(lia)). assert (0 < 2 ^ k) by (apply pow2_pos; lia). lia. }
    rewrite (w_eq _ _ _ Hm). rewrite g_eq, !t_eq. reflexivity.
Qed.

(* ---------------- the loop: it reaches its `break`, with the model's result *)
Lemma s64_odd x : Z.odd (s64 x) = Z.odd x.
Proof.
  unfold s64. rewrite Z.mod_eq by (unfold P64; lia).
  replace (x + P63 - P64 * ((x + P63) / P64) - P63) with (x + 2 * (- (P63 * ((x + P63) / P64)))) by (unfold P63, P64; lia).
  apply Z.odd_add_mul_2.
Qed.
Lemma s128_divide k x : 0 <= k <= 128 -> (2 ^ k | x) -> (2 ^ k | s128 x).
Proof.
  intros Hk D. unfold s128. rewrite Z.mod_eq by (unfold P128; lia).
  replace (x + P127 - P128 * ((x + P127) / P128) - P127) with (x - P128 * ((x + P127) / P128)) by lia.
  apply Z.divide_sub_r; [assumption|]. apply Z.divide_mul_l. rewrite P128_pow. apply pow2_divide. lia.
Qed.

Lemma mstep_inv steps delta f g t s' d' f' g' t' :
  1 <= steps <= 62 -> Z.abs delta + steps <= P62 -> (Z.odd f = true \/ (0 < delta /\ Z.odd g = true)) ->
  mstep steps delta f g t = ((s', d', f', g', t'), false) ->
  s' = steps - ctz_upto (Z.to_nat steps) g /\ 1 <= s' <= 62 /\ Z.abs d' + s' <= P62 /\ Z.odd f' = true /\
  1 <= ctz_upto (Z.to_nat s') g'.
Proof.
  destruct t as [[[t00 t01] t10] t11]. intros Hs Hd Hodd EM. unfold mstep in EM.
  pose proof (ctz_upto_range (Z.to_nat steps) g) as Hz. rewrite Z2Nat.id in Hz by lia.
  pose proof (ctz_upto_odd (Z.to_nat steps) g) as Og1. rewrite Z2Nat.id in Og1 by lia.
  set (z := ctz_upto (Z.to_nat steps) g) in *.
  destruct (Z.eqb_spec (steps - z) 0) as [E0|E0]; [discriminate|].
  assert (Hzlt : z < steps) by lia. specialize (Og1 Hzlt).
  assert (Ed : s64 (delta + z) = delta + z) by (apply s64_id; pfacts; lia).
  rewrite Ed in EM.
  assert (Fin : forall d2 f2 g2, d2 <= 0 -> Z.abs d2 + (steps - z) <= P62 -> Z.odd f2 = true ->
     let k := Z.min (Z.min (steps - z) (s64 (1 - d2))) 5 in
     let w := Z.land (wmul (u64 g2) (wxor (wmul (u64 f2) 3) 28)) (2 ^ k - 1) in
     1 <= ctz_upto (Z.to_nat (steps - z)) (s128 (g2 + w * f2))).
  { intros d2 f2 g2 Hd2 Hb Of2 k w.
    assert (E1 : s64 (1 - d2) = 1 - d2) by (apply s64_id; pfacts; lia).
    assert (Hk : 1 <= k <= 5 /\ k <= steps - z) by (unfold k; rewrite E1; lia).
    destruct (w_clears f2 g2 k Of2 ltac:(lia)) as (_ & Dw). cbv zeta in Dw. fold w in Dw.
    pose proof (s128_divide k _ ltac:(lia) Dw) as D2.
    pose proof (ctz_upto_ge (Z.to_nat (steps - z)) (s128 (g2 + w * f2)) k) as G. rewrite Z2Nat.id in G by lia.
    specialize (G ltac:(lia) D2). lia. }
  destruct (Z.ltb_spec 0 (delta + z)) as [Hp|Hn].
  - injection EM as <- <- <- <- <-.
    assert (Ed2 : s64 (- (delta + z)) = - (delta + z)) by (apply s64_id; pfacts; lia).
    split; [reflexivity|]. split; [lia|]. split; [rewrite Ed2; lia|]. split; [rewrite s64_odd; exact Og1|].
    apply Fin; [rewrite Ed2; lia | rewrite Ed2; lia | rewrite s64_odd; exact Og1].
  - injection EM as <- <- <- <- <-.
    assert (Of : Z.odd f = true).
    { destruct Hodd as [Ho|[Hp Ho]]; [assumption|]. exfalso.
      assert (z = 0); [|lia]. unfold z. destruct (Z.to_nat steps) eqn:En; [lia|]. cbn [ctz_upto]. rewrite Ho. reflexivity. }
    split; [reflexivity|]. split; [lia|]. split; [lia|]. split; [exact Of|].
    apply Fin; [lia | lia | exact Of].
Qed.

Lemma jump_src_loop : forall fuel steps delta f g t,
  1 <= steps <= 62 -> Z.abs delta + steps <= P62 -> (Z.odd f = true \/ (0 < delta /\ Z.odd g = true)) ->
  steps + (if ctz_upto (Z.to_nat steps) g =? 0 then 1 else 0) <= Z.of_nat fuel ->
  exists s' g' f', loop_ fuel jstep (steps, delta, g, mat t, f) =
    Some (s', fst (jump_loop fuel steps delta f g t), g', mat (snd (jump_loop fuel steps delta f g t)), f').
Proof.
  induction fuel as [|fuel IH]; intros steps delta f g t Hs Hd Hodd Hfuel.
  - destruct (ctz_upto (Z.to_nat steps) g =? 0); change (Z.of_nat 0) with 0 in Hfuel; lia.
  - cbn [loop_]. rewrite jstep_mstep by lia. rewrite jump_loop_S.
    destruct (mstep steps delta f g t) as [[[[[s1 d1] f1] g1] t1] brk] eqn:EM.
    destruct brk.
    + exists s1, g1, f1. reflexivity.
    + destruct (mstep_inv _ _ _ _ _ _ _ _ _ _ Hs Hd Hodd EM) as (Es & Hs1 & Hd1 & Of1 & Hc).
      apply IH; try assumption.
      * left. assumption.
      * destruct (Z.eqb_spec (ctz_upto (Z.to_nat s1) g1) 0) as [E|E]; [lia|].
        rewrite Nat2Z.inj_succ in Hfuel. rewrite Es.
        pose proof (ctz_upto_range (Z.to_nat steps) g).
        destruct (Z.eqb_spec (ctz_upto (Z.to_nat steps) g) 0); lia.
Qed.

Lemma loop_more {S} (step : S -> S * bool) : forall n m s r, loop_ n step s = Some r -> loop_ (n + m) step s = Some r.
Proof.
  induction n as [|n IH]; intros m s r H; [discriminate|]. cbn [loop_ Nat.add] in *.
  destruct (step s) as [s1 b]. destruct b; [assumption|]. apply IH. assumption.
Qed.

Transparent jump.
Lemma jump_unfold f0 g0 delta : jump f0 g0 delta = jump_loop 63 62 delta f0 g0 (1, 0, 0, 1).
Proof. reflexivity. Qed.
Global Opaque jump.

Theorem g_jump_eq fuel f g delta : (63 <= fuel)%nat ->
  0 <= nth 0 f 0 < P62 -> 0 <= nth 0 g 0 < P62 ->
  (Z.odd (nth 0 f 0) = true \/ (0 < delta /\ Z.odd (nth 0 g 0) = true)) -> Z.abs delta + 62 <= P62 ->
  g_jump fuel f g delta = Some (fst (jump (nth 0 f 0) (nth 0 g 0) delta), mat (snd (jump (nth 0 f 0) (nth 0 g 0) delta))).
Proof.
  intros Hfu Hf Hg Hodd Hd. rewrite g_jump_unfold.
  assert (Ef : swrap_ 64 (nth 0 f 0) = nth 0 f 0) by (rewrite swrap64; apply s64_id; pfacts; lia).
  rewrite Ef.
  destruct (jump_src_loop 63 62 delta (nth 0 f 0) (nth 0 g 0) (1, 0, 0, 1) ltac:(lia) ltac:(lia) Hodd) as (s' & g' & f' & E).
  { destruct (ctz_upto (Z.to_nat 62) (nth 0 g 0) =? 0); lia. }
  change (mat (1, 0, 0, 1)) with [[1; 0]; [0; 1]] in E.
  rewrite jump_unfold.
  set (r := jump_loop 63 62 delta (nth 0 f 0) (nth 0 g 0) (1, 0, 0, 1)) in *. clearbody r.
  replace fuel with (63 + (fuel - 63))%nat by lia. rewrite (loop_more _ _ _ _ _ E). reflexivity.
Qed.
