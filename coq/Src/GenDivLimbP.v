(** Translator tie, group DivLimb: the limb-division loops of src/uint/div_limb.rs (Reciprocal::new,
    div_rem_limb_with_reciprocal, rem_limb_with_reciprocal, rem_limb_with_reciprocal_wide) as regenerated from /repo's CURRENT
    source (Src/GenDivLimb.v) equal the hand-written models of Model/Div.v ([recip_new], [div_rem_limb_with_reciprocal] over
    the structural recursion [divlimb_go], ...) for every limb count 1 <= L < 2^64 and all limb values.  The loops run DOWNWARD
    (`let mut j = L; while j > 0 { j -= 1; .. }`): a [Nat.iter L] whose state is (j, q, r) resp. (j, r). *)
From CB Require Import Model.SrcPrelude Model.Word Model.Limbs Model.Div.
From CB Require Import Src.GenPrim Src.GenDiv Src.GenShift Src.GenDivLimb Src.GenWidthP Src.GenPrimP Src.GenDivP Src.GenLoopP Src.GenIterP Src.GenShiftP.
From CB Require Import Proofs.WordP Proofs.LimbsP Proofs.DivP Proofs.DivShiftP Proofs.RecipP Proofs.RemWideP Proofs.DivFinalP.
From Coq Require Import Lia List.
Import ListNotations.
Open Scope Z_scope.
Transparent B.

(* ---------------- Reciprocal::new *)
Lemma g_Reciprocal_new_eq d : g_Reciprocal_new d = g_of_recip (recip_new d).
Proof.
  unfold g_Reciprocal_new, recip_new, g_of_recip. cbn [r_d r_shift r_v].
  assert (E : clz_ 64 d = leading_zeros_word d).
  { unfold clz_, leading_zeros_word, bits_of. destruct (d <=? 0); reflexivity. }
  rewrite E. change (shl_ 64 d (leading_zeros_word d)) with (wshl d (leading_zeros_word d)).
  rewrite g_reciprocal_eq by apply is_word_mod. reflexivity.
Qed.

(* ---------------- the downward loop: one 2-by-1 division per limb, from the top *)
Definition dl_step (us : list Z) (rc : g_Reciprocal) (j : nat) (s : list Z * Z) : list Z * Z :=
  let '(qj, rj) := g_div2by1 (snd s) (nth j us 0) rc in (upd_ (fst s) j qj, rj).
Definition rl_step (us : list Z) (rc : g_Reciprocal) (j : nat) (r : Z) : Z :=
  let '(_, rj) := g_div2by1 r (nth j us 0) rc in rj.

Lemma divlimb_go_word rc : forall l r, is_word r -> is_word (snd (divlimb_go l r rc)).
Proof.
  induction l as [|x l IH]; intros r Hr; [exact Hr|]. cbn [divlimb_go].
  destruct (div2by1_words r x rc) as [_ W]. destruct (div2by1 r x rc) as [q r']. cbn [snd] in W.
  specialize (IH r' W). destruct (divlimb_go l r' rc) as [qs rf]. exact IH.
Qed.

Lemma dl_fold rc : is_word (r_d rc) -> is_word (r_v rc) ->
  forall us post qinit qpost r0, length qinit = length us -> is_word r0 -> wf us ->
  fold_left (fun s j => dl_step (us ++ post) (g_of_recip rc) j s) (rev (seq 0 (length us))) (qinit ++ qpost, r0)
  = (rev (fst (divlimb_go (rev us) r0 rc)) ++ qpost, snd (divlimb_go (rev us) r0 rc)).
Proof.
  intros Hd Hv. induction us as [|x us IH] using rev_ind; intros post qinit qpost r0 Hl Hr Wu.
  - destruct qinit; [reflexivity | discriminate].
  - rewrite app_length in Hl. cbn [length] in Hl.
    destruct (exists_last (l := qinit)) as (qi & z & ->); [destruct qinit; [cbn in Hl; lia | discriminate]|].
    rewrite app_length in Hl. cbn [length] in Hl.
    apply Forall_app in Wu. destruct Wu as [Wu Wx]. apply Forall_inv in Wx.
    rewrite app_length. cbn [length]. rewrite Nat.add_1_r, seq_S, rev_app_distr. cbn [rev app fold_left Nat.add].
    unfold dl_step at 2. cbn [fst snd].
    assert (N : nth (length us) ((us ++ [x]) ++ post) 0 = x) by (rewrite <- app_assoc; apply nth_middle).
    rewrite N. rewrite (g_div2by1_eq r0 x rc Hr Wx Hd Hv).
    rewrite rev_app_distr. cbn [rev app divlimb_go].
    destruct (div2by1_words r0 x rc) as [_ Wr]. destruct (div2by1 r0 x rc) as [q r'] eqn:E. cbn [snd] in Wr.
    replace ((qi ++ [z]) ++ qpost) with (qi ++ z :: qpost) by (rewrite <- app_assoc; reflexivity).
    replace (upd_ (qi ++ z :: qpost) (length us) q) with (qi ++ q :: qpost)
      by (replace (length us) with (length qi) by lia; symmetry; apply GenLoopP.upd_mid).
    replace ((us ++ [x]) ++ post) with (us ++ (x :: post)) by (rewrite <- app_assoc; reflexivity).
    rewrite (IH (x :: post) qi (q :: qpost) r' ltac:(lia) Wr Wu).
    destruct (divlimb_go (rev us) r' rc) as [qs rf]. cbn [fst snd rev]. rewrite <- app_assoc. reflexivity.
Qed.

Lemma rl_fold rc : is_word (r_d rc) -> is_word (r_v rc) ->
  forall us post r0, is_word r0 -> wf us ->
  fold_left (fun r j => rl_step (us ++ post) (g_of_recip rc) j r) (rev (seq 0 (length us))) r0
  = snd (divlimb_go (rev us) r0 rc).
Proof.
  intros Hd Hv. induction us as [|x us IH] using rev_ind; intros post r0 Hr Wu; [reflexivity|].
  apply Forall_app in Wu. destruct Wu as [Wu Wx]. apply Forall_inv in Wx.
  rewrite app_length. cbn [length]. rewrite Nat.add_1_r, seq_S, rev_app_distr. cbn [rev app fold_left Nat.add].
  unfold rl_step at 2.
  assert (N : nth (length us) ((us ++ [x]) ++ post) 0 = x) by (rewrite <- app_assoc; apply nth_middle).
  rewrite N. rewrite (g_div2by1_eq r0 x rc Hr Wx Hd Hv).
  rewrite rev_app_distr. cbn [rev app divlimb_go].
  destruct (div2by1_words r0 x rc) as [_ Wr]. destruct (div2by1 r0 x rc) as [q r'] eqn:E. cbn [snd] in Wr.
  replace ((us ++ [x]) ++ post) with (us ++ (x :: post)) by (rewrite <- app_assoc; reflexivity).
  rewrite (IH (x :: post) r' Wr Wu). destruct (divlimb_go (rev us) r' rc) as [qs rf]. reflexivity.
Qed.

(* the generated loops: [F] is the loop body of the generated text *)
Lemma g_dl_loop n us rc r0 (F : Z * list Z * Z -> Z * list Z * Z) :
  (forall i q r, F (i, q, r) = enc3 (sub_ 64 i 1) (dl_step us (g_of_recip rc) (Z.to_nat (sub_ 64 i 1)) (q, r))) ->
  length us = n -> Z.of_nat n < 2 ^ 64 -> wf us -> is_word r0 -> is_word (r_d rc) -> is_word (r_v rc) ->
  Nat.iter n F (Z.of_nat n, repeat 0 n, r0)
  = (0, rev (fst (divlimb_go (rev us) r0 rc)), snd (divlimb_go (rev us) r0 rc)).
Proof.
  intros HF Hl Hn Wu Hr Hd Hv.
  change (Nat.iter n F (Z.of_nat n, repeat 0 n, r0)) with (Nat.iter n F (enc3 (Z.of_nat n) (repeat 0 n, r0))).
  rewrite (iter_enc_down F enc3 (dl_step us (g_of_recip rc))).
  - subst n. pose proof (dl_fold rc Hd Hv us [] (repeat 0 (length us)) [] r0 (repeat_length _ _) Hr Wu) as H.
    rewrite !app_nil_r in H. rewrite H. unfold enc3. cbn [fst snd]. reflexivity.
  - intros i [q r] Hi. unfold enc3 at 1. cbn [fst snd]. apply HF.
  - exact Hn.
Qed.

Lemma g_rl_loop n us rc r0 (F : Z * Z -> Z * Z) :
  (forall i r, F (i, r) = (sub_ 64 i 1, rl_step us (g_of_recip rc) (Z.to_nat (sub_ 64 i 1)) r)) ->
  length us = n -> Z.of_nat n < 2 ^ 64 -> wf us -> is_word r0 -> is_word (r_d rc) -> is_word (r_v rc) ->
  Nat.iter n F (Z.of_nat n, r0) = (0, snd (divlimb_go (rev us) r0 rc)).
Proof.
  intros HF Hl Hn Wu Hr Hd Hv.
  change (Nat.iter n F (Z.of_nat n, r0)) with (Nat.iter n F (enc2 (Z.of_nat n) r0)).
  rewrite (iter_enc_down F enc2 (rl_step us (g_of_recip rc))).
  - subst n. pose proof (rl_fold rc Hd Hv us [] r0 Hr Wu) as H. rewrite !app_nil_r in H. rewrite H. reflexivity.
  - intros i r Hi. unfold enc2. apply HF.
  - exact Hn.
Qed.

Ltac dl_body := intros; unfold enc3, dl_step, rl_step, g_uint_as_limbs; cbn [fst snd];
  match goal with |- context [g_div2by1 ?a ?b ?c] => destruct (g_div2by1 a b c) end; reflexivity.

(* ---------------- the three routines *)
Definition recip_words (rc : recip) : Prop := 0 <= r_shift rc < 64 /\ is_word (r_d rc) /\ is_word (r_v rc).

Lemma shl_limb_parts u s : wf u -> 0 <= s < 64 -> wf (fst (shl_limb u s)) /\ length (fst (shl_limb u s)) = length u /\ is_word (snd (shl_limb u s)).
Proof.
  intros Wu Hs. pose proof (shl_limb_correct u s Wu Hs) as H. destruct (shl_limb u s) as [us c]. cbn [fst snd].
  destruct H as (_ & W & L & C). repeat split; try assumption; try lia.
  unfold is_word. change B with (2 ^ 64). assert (2 ^ s < 2 ^ 64) by (apply Z.pow_lt_mono_r; lia). lia.
Qed.

Lemma g_div_rem_limb_with_reciprocal_eq n u rc : length u = n -> (1 <= n)%nat -> Z.of_nat n < 2 ^ 64 -> wf u -> recip_words rc ->
  g_div_rem_limb_with_reciprocal n u (g_of_recip rc) = div_rem_limb_with_reciprocal u rc.
Proof.
  intros Hl H1 Hn Wu (Hs & Hd & Hv). unfold g_div_rem_limb_with_reciprocal, div_rem_limb_with_reciprocal.
  change (g_Reciprocal_shift (g_of_recip rc)) with (r_shift rc).
  rewrite (g_uint_shl_limb_eq n u (r_shift rc) Hl H1 Hn Wu Hs).
  destruct (shl_limb_parts u (r_shift rc) Wu Hs) as (Wus & Lus & Wc).
  destruct (shl_limb u (r_shift rc)) as [us uhi]. cbn [fst snd] in Wus, Lus, Wc. cbv zeta. rewrite Nat2Z.id.
  match goal with |- context [Nat.iter n ?F (Z.of_nat n, repeat 0 n, uhi)] =>
    rewrite (g_dl_loop n us rc uhi F ltac:(dl_body) ltac:(lia) Hn Wus Wc Hd Hv) end.
  destruct (divlimb_go (rev us) uhi rc) as [qs r]. reflexivity.
Qed.

Lemma g_rem_limb_with_reciprocal_eq n u rc : length u = n -> (1 <= n)%nat -> Z.of_nat n < 2 ^ 64 -> wf u -> recip_words rc ->
  g_rem_limb_with_reciprocal n u (g_of_recip rc) = rem_limb_with_reciprocal u rc.
Proof.
  intros Hl H1 Hn Wu (Hs & Hd & Hv). unfold g_rem_limb_with_reciprocal, rem_limb_with_reciprocal, div_rem_limb_with_reciprocal.
  change (g_Reciprocal_shift (g_of_recip rc)) with (r_shift rc).
  rewrite (g_uint_shl_limb_eq n u (r_shift rc) Hl H1 Hn Wu Hs).
  destruct (shl_limb_parts u (r_shift rc) Wu Hs) as (Wus & Lus & Wc).
  destruct (shl_limb u (r_shift rc)) as [us uhi]. cbn [fst snd] in Wus, Lus, Wc. cbv zeta. rewrite Nat2Z.id.
  match goal with |- context [Nat.iter n ?F (Z.of_nat n, uhi)] =>
    rewrite (g_rl_loop n us rc uhi F ltac:(dl_body) ltac:(lia) Hn Wus Wc Hd Hv) end.
  destruct (divlimb_go (rev us) uhi rc) as [qs r]. reflexivity.
Qed.

Lemma lor_word a b : is_word a -> is_word b -> is_word (Z.lor a b).
Proof.
  unfold is_word. change B with (2 ^ 64). intros Ha Hb. split; [apply Z.lor_nonneg; lia|].
  destruct (Z.eq_dec (Z.lor a b) 0) as [->|Hnz]; [lia|].
  apply Z.log2_lt_pow2; [assert (0 <= Z.lor a b) by (apply Z.lor_nonneg; lia); lia|].
  rewrite Z.log2_lor by lia.
  destruct (Z.eq_dec a 0) as [->|Ha0]; destruct (Z.eq_dec b 0) as [->|Hb0]; cbn [Z.log2]; try lia.
  - rewrite Z.max_r by (apply Z.log2_nonneg). apply Z.log2_lt_pow2; lia.
  - rewrite Z.max_l by (apply Z.log2_nonneg). apply Z.log2_lt_pow2; lia.
  - apply Z.max_lub_lt; apply Z.log2_lt_pow2; lia.
Qed.

Lemma g_rem_limb_with_reciprocal_wide_eq n lo hi rc : length lo = n -> length hi = n -> (1 <= n)%nat -> Z.of_nat n < 2 ^ 64 ->
  wf lo -> wf hi -> recip_words rc ->
  g_rem_limb_with_reciprocal_wide n (lo, hi) (g_of_recip rc) = rem_limb_with_reciprocal_wide lo hi rc.
Proof.
  intros Hll Hlh H1 Hn Wlo Whi (Hs & Hd & Hv). unfold g_rem_limb_with_reciprocal_wide, rem_limb_with_reciprocal_wide.
  change (g_Reciprocal_shift (g_of_recip rc)) with (r_shift rc). cbn [fst snd].
  rewrite (g_uint_shl_limb_eq n lo (r_shift rc) Hll H1 Hn Wlo Hs), (g_uint_shl_limb_eq n hi (r_shift rc) Hlh H1 Hn Whi Hs).
  destruct (shl_limb_parts lo (r_shift rc) Wlo Hs) as (Wls & Lls & Wc).
  destruct (shl_limb_parts hi (r_shift rc) Whi Hs) as (Whs & Lhs & Wx).
  destruct (shl_limb lo (r_shift rc)) as [los carry]. destruct (shl_limb hi (r_shift rc)) as [his xhi].
  cbn [fst snd] in *. cbv zeta. rewrite !Nat2Z.id.
  destruct his as [|h0 t]; [cbn in Lhs; lia|].
  change (upd_ (h0 :: t) (Z.to_nat 0) (Z.lor (nth (Z.to_nat 0) (h0 :: t) 0) carry)) with (Z.lor h0 carry :: t).
  assert (Wh' : wf (Z.lor h0 carry :: t)).
  { apply wf_cons in Whs. destruct Whs as [Wh0 Wt]. apply wf_cons. split; [apply lor_word; assumption | exact Wt]. }
  match goal with |- context [Nat.iter n ?F (Z.of_nat n, xhi)] =>
    rewrite (g_rl_loop n (Z.lor h0 carry :: t) rc xhi F ltac:(dl_body) ltac:(cbn [length] in *; lia) Hn Wh' Wx Hd Hv) end.
  pose proof (divlimb_go_word rc (rev (Z.lor h0 carry :: t)) xhi Wx) as Wr1.
  destruct (divlimb_go (rev (Z.lor h0 carry :: t)) xhi rc) as [q1 r1]. cbn [snd] in Wr1 |- *.
  match goal with |- context [Nat.iter n ?F (Z.of_nat n, r1)] =>
    rewrite (g_rl_loop n los rc r1 F ltac:(dl_body) ltac:(lia) Hn Wls Wr1 Hd Hv) end.
  destruct (divlimb_go (rev los) r1 rc) as [q2 r2]. reflexivity.
Qed.

(* ---------------- composition with the correctness theorems of the models *)
Lemma recip_for_words d rc : recip_for d rc -> recip_words rc.
Proof.
  intros (Hs & _ & Hn & Hr). pose proof (recip_range _ _ Hn Hr) as Hv.
  unfold recip_words, is_word, normalized in *. repeat split; lia.
Qed.

Lemma g_Reciprocal_new_exact d : 0 < d < B ->
  exists rc, g_Reciprocal_new d = g_of_recip rc /\ recip_for d rc.
Proof. intros Hd. exists (recip_new d). split; [apply g_Reciprocal_new_eq | apply recip_new_correct; exact Hd]. Qed.

Lemma divmod_unique a d q r : 0 < d -> a = q * d + r -> 0 <= r < d -> q = a / d /\ r = a mod d.
Proof.
  intros Hd E Hr. split.
  - apply (Z.div_unique a d q r); [lia | lia].
  - apply (Z.mod_unique a d q r); [lia | lia].
Qed.

Lemma g_div_rem_limb_exact n u d : length u = n -> (1 <= n)%nat -> Z.of_nat n < 2 ^ 64 -> wf u -> 0 < d < B ->
  let '(q, r) := g_div_rem_limb_with_reciprocal n u (g_Reciprocal_new d) in
  eval q = eval u / d /\ r = eval u mod d /\ wf q /\ length q = n.
Proof.
  intros Hl H1 Hn Wu Hd. rewrite g_Reciprocal_new_eq.
  pose proof (recip_new_correct d Hd) as Hrc.
  rewrite (g_div_rem_limb_with_reciprocal_eq n u _ Hl H1 Hn Wu (recip_for_words _ _ Hrc)).
  pose proof (div_rem_limb_correct u d (recip_new d) Wu ltac:(lia) Hrc) as H.
  destruct (div_rem_limb_with_reciprocal u (recip_new d)) as [q r]. destruct H as (E & Hr & Wq & Lq).
  destruct (divmod_unique (eval u) d (eval q) r ltac:(lia) E Hr) as [Eq Er].
  repeat split; try assumption; lia.
Qed.

Lemma g_rem_limb_exact n u d : length u = n -> (1 <= n)%nat -> Z.of_nat n < 2 ^ 64 -> wf u -> 0 < d < B ->
  g_rem_limb_with_reciprocal n u (g_Reciprocal_new d) = eval u mod d.
Proof.
  intros Hl H1 Hn Wu Hd. rewrite g_Reciprocal_new_eq.
  pose proof (recip_new_correct d Hd) as Hrc.
  rewrite (g_rem_limb_with_reciprocal_eq n u _ Hl H1 Hn Wu (recip_for_words _ _ Hrc)).
  unfold rem_limb_with_reciprocal.
  pose proof (div_rem_limb_correct u d (recip_new d) Wu ltac:(lia) Hrc) as H.
  destruct (div_rem_limb_with_reciprocal u (recip_new d)) as [q r]. destruct H as (E & Hr & Wq & Lq). cbn [snd].
  apply (divmod_unique (eval u) d (eval q) r ltac:(lia) E Hr).
Qed.

Lemma g_rem_limb_wide_exact n lo hi d : length lo = n -> length hi = n -> (1 <= n)%nat -> Z.of_nat n < 2 ^ 64 ->
  wf lo -> wf hi -> 0 < d < B ->
  g_rem_limb_with_reciprocal_wide n (lo, hi) (g_Reciprocal_new d) = (eval lo + Bn n * eval hi) mod d.
Proof.
  intros Hll Hlh H1 Hn Wlo Whi Hd. rewrite g_Reciprocal_new_eq.
  pose proof (recip_new_correct d Hd) as Hrc.
  rewrite (g_rem_limb_with_reciprocal_wide_eq n lo hi _ Hll Hlh H1 Hn Wlo Whi (recip_for_words _ _ Hrc)).
  rewrite <- Hll. apply rem_limb_wide_correct; try assumption; lia.
Qed.
