(** Translator tie, group Sqrt: the constant-time integer square root `Uint::sqrt` (and `wrapping_sqrt`, the constant
    `Uint::LOG2_BITS`) of src/uint/sqrt.rs / src/uint.rs as regenerated from /repo's CURRENT source (Src/GenSqrt.v) equals the
    model [uint_sqrt] of Model/Sqrt.v for every limb count n >= 1 with 64 n < 2^32 (`Uint::BITS` is a u32) and all limb values.
    The generated text calls the GENERATED `Uint::bits`, `overflowing_shl`, `expect`, `is_nonzero`, `select`, `div_rem`,
    `wrapping_add`, `shr1`, `gt`; the model's value-level division [div_val] is replaced by the source's constant-time long
    division through its exactness theorem (Src/GenDivCtP.v) and the uniqueness of the canonical limb form.
    Loop: `while i < Self::LOG2_BITS + 2 { x_prev = x; ..; i += 1 }` is a Nat.iter over (i, x_prev, x) with a u32 counter. *)
From CB Require Import Model.SrcPrelude Model.Word Model.Limbs Model.AddSub Model.Cmp Model.Sqrt.
From CB Require Import Src.GenPrim Src.GenDiv Src.GenUint Src.GenShift Src.GenMul Src.GenInt Src.GenDivLimb Src.GenBits Src.GenDivCt
  Src.GenSqrt.
From CB Require Import Src.GenIterP Src.GenUintP Src.GenShiftP Src.GenIntP Src.GenBitsP Src.GenDivCtP.
From CB Require Import Proofs.WordP Proofs.LimbsP Proofs.AddSubP Proofs.SqrtMathP Proofs.SqrtLimbsP Proofs.SqrtP.
From Coq Require Import Lia List.
Import ListNotations.
Open Scope Z_scope.

Lemma usz_of_bits n : 64 * Z.of_nat n < 2 ^ 32 -> usz n.
Proof. unfold usz. lia. Qed.

(* ---------------- Uint::LOG2_BITS = u32::BITS - Self::BITS.leading_zeros() - 1 *)
Lemma g_uint_LOG2_BITS_eq n : (1 <= n)%nat -> 64 * Z.of_nat n < 2 ^ 32 -> g_uint_LOG2_BITS n = log2_bits n.
Proof.
  intros H1 Hn. unfold g_uint_LOG2_BITS, log2_bits. rewrite g_uint_BITS_eq by assumption.
  unfold clz_. destruct (Z.leb_spec (64 * Z.of_nat n) 0) as [H|H]; [lia|].
  assert (HL : 0 <= Z.log2 (64 * Z.of_nat n) < 32).
  { split; [apply Z.log2_nonneg|]. apply Z.log2_lt_pow2; lia. }
  set (L := Z.log2 (64 * Z.of_nat n)) in *. clearbody L.
  unfold sub_. rewrite (Z.mod_small (32 - (32 - (L + 1)))) by lia. rewrite Z.mod_small by lia. lia.
Qed.

(* ---------------- the initial estimate ONE.overflowing_shl((bits + 1) >> 1).expect(..) *)
Lemma g_sqrt_init_eq n a x0 : length a = n -> (1 <= n)%nat -> 64 * Z.of_nat n < 2 ^ 32 -> wf a -> sqrt_init a = Some x0 ->
  g_ctopt_uint_expect n (g_uint_overflowing_shl n (g_uint_ONE n) (shr_ (add_ 32 (g_uint_bits n a) 1) 1)) tt = x0.
Proof.
  intros Hl H1 Hn Hw E.
  destruct (sqrt_init_spec a Hw ltac:(lia)) as (x0' & E' & _ & [Hw0 Hl0] & He0 & Hle0).
  rewrite E in E'. inversion E'. subst x0'. clear E'.
  rewrite g_uint_bits_exact by assumption.
  assert (Hbits : (if eval a <=? 0 then 0 else Z.log2 (eval a) + 1) = bitlen (eval a)).
  { unfold bitlen. pose proof (eval_nonneg a Hw).
    destruct (Z.leb_spec (eval a) 0), (Z.eqb_spec (eval a) 0); try reflexivity; lia. }
  rewrite Hbits. clear Hbits.
  pose proof (eval_bounds a Hw) as Hb. rewrite Bn_pow in Hb.
  pose proof (bitlen_le (eval a) (64 * Z.of_nat (length a)) ltac:(lia) Hb) as Hbl.
  pose proof (bitlen_nonneg (eval a)) as Hb0.
  set (bl := bitlen (eval a)) in *. clearbody bl. rewrite Hl in *.
  unfold add_. rewrite Z.mod_small by lia. unfold shr_. change (2 ^ 1) with 2.
  set (s := (bl + 1) / 2) in *.
  assert (Hs : 0 <= s <= 32 * Z.of_nat n).
  { subst s. split; [apply Z.div_pos; lia|].
    assert ((bl + 1) / 2 < 32 * Z.of_nat n + 1); [|lia]. apply Z.div_lt_upper_bound; lia. }
  clearbody s.
  rewrite g_uint_ONE_eq by assumption. change (CB.Model.IntArith.one_limbs n) with (one_limbs n).
  destruct (one_limbs_spec n ltac:(lia)) as (Hw1 & Hl1 & He1).
  pose proof (g_uint_overflowing_shl_exact n (one_limbs n) s Hl1 H1 Hn ltac:(lia) Hw1) as Hx. cbv zeta in Hx.
  destruct Hx as (_ & Hwr & Hlr & Her).
  unfold g_ctopt_uint_expect.
  apply eval_inj; try assumption; [lia|].
  rewrite Her, He0, He1.
  destruct (Z.ltb_spec s (64 * Z.of_nat n)) as [_|?]; [|lia].
  rewrite Z.mul_1_l. apply Z.mod_small.
  assert (0 < 2 ^ s) by (apply Z.pow_pos_nonneg; lia).
  assert (2 ^ s <= 2 ^ (32 * Z.of_nat n)) by (apply Z.pow_le_mono_r; lia).
  assert (2 ^ (32 * Z.of_nat n) < Bn n) by (rewrite Bn_pow; apply Z.pow_lt_mono_r; lia).
  lia.
Qed.

(* ---------------- one Newton round *)
Lemma ct_step_good nl x : wf nl -> length nl <> 0%nat -> good (length nl) x -> good (length nl) (sqrt_ct_step nl x).
Proof.
  intros Hn Hlen [Hwx Hlx]. unfold sqrt_ct_step.
  destruct (one_limbs_spec (length nl) Hlen) as (Hw1 & Hl1 & He1).
  rewrite is_nonzero_limbs_spec by assumption.
  rewrite (select_limbs_choice _ (one_limbs (length nl)) x) by (auto; lia).
  set (d := if negb (eval x =? 0) then x else one_limbs (length nl)).
  assert (Hd : 0 <= eval d).
  { subst d. destruct (negb (eval x =? 0)); [apply eval_nonneg; assumption | lia]. }
  destruct (div_val_spec nl d Hn Hd) as [[Hwq Hlq] _].
  destruct (wrapping_add_spec x _ Hwx Hwq ltac:(lia)) as (_ & Hwa & Hla).
  destruct (shr1_limbs_spec _ Hwa) as (_ & Hws & Hls).
  rewrite select_limbs_choice by (auto using wf_zeros; rewrite length_zeros; lia).
  destruct (negb (eval x =? 0)); [split; [assumption|lia] | apply good_zeros].
Qed.

Lemma g_sqrt_step_eq n a x : length a = n -> (1 <= n)%nat -> 64 * Z.of_nat n < 2 ^ 32 -> wf a -> good n x ->
  (let v_x_nonzero := g_uint_is_nonzero n x in
   let '(v_q, _) := g_uint_div_rem n a (g_uint_select n (g_uint_ONE n) x v_x_nonzero) in
   g_uint_select n (repeat 0 n) (g_uint_shr1 n (g_uint_wrapping_add n x v_q)) v_x_nonzero) = sqrt_ct_step a x.
Proof.
  intros Hl H1 Hn Hw [Hwx Hlx]. pose proof (usz_of_bits n Hn) as Hu. cbv zeta. unfold sqrt_ct_step.
  rewrite g_uint_is_nonzero_eq by assumption.
  change (uint_is_nonzero x) with (is_nonzero_limbs x).
  rewrite is_nonzero_limbs_spec by assumption.
  rewrite g_uint_ONE_eq by assumption. change (CB.Model.IntArith.one_limbs n) with (one_limbs n). rewrite Hl.
  destruct (one_limbs_spec n ltac:(lia)) as (Hw1 & Hl1 & He1).
  rewrite (g_uint_select_spec n (one_limbs n) x) by assumption.
  rewrite (select_limbs_choice _ (one_limbs n) x) by (auto; lia).
  unfold spec_select.
  set (c := negb (eval x =? 0)).
  set (d := if c then x else one_limbs n).
  assert (Hd : wf d /\ length d = n /\ eval d <> 0).
  { subst d c. destruct (Z.eqb_spec (eval x) 0); cbn [negb]; repeat split; try assumption; lia. }
  destruct Hd as (Hwd & Hld & Hd0).
  pose proof (g_uint_div_rem_exact n a d Hl Hld H1 Hn Hw Hwd Hd0) as Hq.
  destruct (g_uint_div_rem n a d) as [q r]. destruct Hq as (Heq & _ & Hwq & _ & Hlq & _).
  destruct (div_val_spec a d Hw ltac:(pose proof (eval_nonneg d Hwd); lia)) as [[Hwv Hlv] Hev].
  assert (Eq : q = div_val a d) by (apply eval_inj; try assumption; lia).
  subst q. clear Heq Hev.
  rewrite g_uint_wrapping_add_eq by assumption.
  destruct (wrapping_add_spec x (div_val a d) Hwx Hwq ltac:(lia)) as (_ & Hwa & Hla).
  rewrite g_uint_shr1_eq by (try assumption; lia).
  destruct (shr1_limbs_spec _ Hwa) as (_ & Hws & Hls).
  rewrite g_uint_select_eq by (first [assumption | apply repeat_length | lia]).
  reflexivity.
Qed.

(* ---------------- the loop: Nat.iter over (i : u32, x_prev, x) *)
Lemma g_sqrt_loop n a (F : Z * list Z * list Z -> Z * list Z * list Z) : length a = n -> (1 <= n)%nat -> wf a ->
  (forall i xp x, good n x -> F (i, xp, x) = (add_ 32 i 1, x, sqrt_ct_step a x)) ->
  forall k i xp x, good n xp -> good n x ->
  exists i', Nat.iter k F (i, xp, x) = (i', fst (sqrt_ct_loop k a x xp), snd (sqrt_ct_loop k a x xp)) /\
             good n (fst (sqrt_ct_loop k a x xp)) /\ good n (snd (sqrt_ct_loop k a x xp)).
Proof.
  intros Hl H1 Hw HF. induction k as [|k IH]; intros i xp x Gp Gx.
  - exists i. cbn. auto.
  - rewrite iter_shift, HF by assumption. cbn [sqrt_ct_loop].
    apply IH; [assumption|]. rewrite <- Hl. apply ct_step_good; try assumption; [lia | rewrite Hl; assumption].
Qed.

(* ---------------- Uint::sqrt *)
Theorem g_uint_sqrt_eq n a : length a = n -> (1 <= n)%nat -> 64 * Z.of_nat n < 2 ^ 32 -> wf a ->
  uint_sqrt a = SOk (g_uint_sqrt n a).
Proof.
  intros Hl H1 Hn Hw. pose proof (usz_of_bits n Hn) as Hu.
  destruct (sqrt_init_spec a Hw ltac:(lia)) as (x0 & E0 & _ & G0 & _ & _). rewrite Hl in G0.
  unfold uint_sqrt, uint_sqrt_rounds. rewrite E0.
  unfold g_uint_sqrt. cbv zeta.
  rewrite (g_sqrt_init_eq n a x0 Hl H1 Hn Hw E0).
  rewrite g_uint_LOG2_BITS_eq by assumption. rewrite Hl.
  assert (HL : 0 <= log2_bits n < 32).
  { unfold log2_bits. split; [apply Z.log2_nonneg|]. apply Z.log2_lt_pow2; lia. }
  replace (add_ 32 (log2_bits n) 2 - 0) with (log2_bits n + 2)
    by (unfold add_; rewrite Z.mod_small by lia; lia).
  match goal with |- context [Nat.iter ?kk ?F (0, x0, x0)] =>
    assert (HF : forall i xp x, good n x -> F (i, xp, x) = (add_ 32 i 1, x, sqrt_ct_step a x));
      [ | destruct (g_sqrt_loop n a F Hl H1 Hw HF kk 0 x0 x0 G0 G0) as (i' & EI & Gp & Gq) ] end.
  - intros i xp x Gx.
    pose proof (g_sqrt_step_eq n a x Hl H1 Hn Hw Gx) as Hs. cbv zeta in Hs.
    destruct (g_uint_div_rem n a (g_uint_select n (g_uint_ONE n) x (g_uint_is_nonzero n x))) as [q r].
    rewrite Hs. reflexivity.
  - rewrite EI. destruct (sqrt_ct_loop (Z.to_nat (log2_bits n + 2)) a x0 x0) as [p q]. cbn [fst snd] in *.
    destruct Gp as [Wp Lp]. destruct Gq as [Wq Lq].
    rewrite g_uint_gt_eq by assumption. rewrite g_uint_select_eq by assumption. reflexivity.
Qed.

Lemma g_uint_wrapping_sqrt_eq n a : g_uint_wrapping_sqrt n a = g_uint_sqrt n a.
Proof. reflexivity. Qed.

(* ---------------- composition with Proofs/SqrtP.v: the SOURCE text returns floor(sqrt) *)
Theorem g_uint_sqrt_exact n a : length a = n -> (1 <= n)%nat -> 64 * Z.of_nat n < 2 ^ 32 -> wf a ->
  let r := g_uint_sqrt n a in
  wf r /\ length r = n /\ eval r = Z.sqrt (eval a) /\
  (0 <= eval r /\ eval r * eval r <= eval a < (eval r + 1) * (eval r + 1)).
Proof.
  intros Hl H1 Hn Hw. cbv zeta.
  destruct (uint_sqrt_correct a Hw ltac:(lia)) as (r & E & Wr & Lr & Er).
  rewrite (g_uint_sqrt_eq n a Hl H1 Hn Hw) in E. inversion E as [E']. rewrite E'.
  split; [assumption|]. split; [lia|]. split; [assumption|].
  rewrite Er. pose proof (eval_nonneg a Hw) as H0.
  pose proof (sqrt_bounds (eval a) H0). pose proof (Z.sqrt_nonneg (eval a)). lia.
Qed.
