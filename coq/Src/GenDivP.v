(** Translator tie, group Div: the division kernels of src/uint/div_limb.rs (lt, select, short_div, the 64-bit
    reciprocal, div2by1, div3by2) as regenerated from /repo's CURRENT source (Src/GenDiv.v) equal the hand-written
    models of Model/Div.v, about which Proofs/RecipP.v, Div2by1G.v, Div3by2P.v prove exactness. The generated text carries
    the literal mask/select formulas; the models use booleans. *)
From CB Require Import Model.SrcPrelude Model.Word Model.Limbs Model.Div Src.GenPrim Src.GenDiv Src.GenWidthP Src.GenPrimP.
From CB Require Import Proofs.WordP Proofs.WordPredP.
From Coq Require Import Lia.
Open Scope Z_scope.
Transparent B.

Definition u32 (x : Z) : Prop := 0 <= x < 2 ^ 32.

Lemma iter_succ_r {A} n (f : A -> A) x : Nat.iter (S n) f x = Nat.iter n f (f x).
Proof. induction n as [|n IH]; [reflexivity|]. change (Nat.iter (S (S n)) f x) with (f (Nat.iter (S n) f x)). rewrite IH. reflexivity. Qed.

Lemma g_dl_lt_spec a b : u32 a -> u32 b -> g_dl_lt a b = if a <? b then 2 ^ 32 - 1 else 0.
Proof.
  intros Ha Hb. unfold g_dl_lt. change (sub_ 32 32 1) with (32 - 1).
  rewrite (lt_bit 32 ltac:(lia) a b Ha Hb). destruct (a <? b); reflexivity.
Qed.
Lemma g_dl_select_spec a b (c : bool) : u32 a -> u32 b ->
  g_dl_select a b (if c then 2 ^ 32 - 1 else 0) = if c then b else a.
Proof.
  intros Ha Hb. unfold g_dl_select. destruct c; [apply (select_ones 32 ltac:(lia) a b Ha Hb) | apply select_0].
Qed.

Definition sd_body (st : Z * Z * Z * Z) : Z * Z * Z * Z :=
  let '(v_i, v_dividend, v_divisor, v_quotient) := st in
  let v_i := (sub_ 32 v_i 1) in
  let v_bit := (g_dl_lt v_dividend v_divisor) in
  let v_dividend := (g_dl_select (sub_ 32 v_dividend v_divisor) v_dividend v_bit) in
  let v_divisor := (shr_ v_divisor 1) in
  let v_inv_bit := (not_ 32 v_bit) in
  let v_quotient := (Z.lor v_quotient (shl_ 32 (shr_ v_inv_bit (sub_ 32 32 1)) v_i)) in
  (v_i, v_dividend, v_divisor, v_quotient).

Lemma sd_loop_eq : forall n dvd dvs q, (n <= 32)%nat -> u32 dvd -> u32 dvs ->
  snd (Nat.iter n sd_body (Z.of_nat n, dvd, dvs, q)) = short_div_loop n dvd dvs q.
Proof.
  induction n as [|n IH]; intros dvd dvs q Hn Hd Hs; [reflexivity|].
  rewrite iter_succ_r. cbn [short_div_loop].
  unfold sd_body at 2.
  assert (Hi : sub_ 32 (Z.of_nat (S n)) 1 = Z.of_nat n).
  { unfold sub_. replace (Z.of_nat (S n) - 1) with (Z.of_nat n) by lia. apply Z.mod_small. lia. }
  rewrite Hi. rewrite (g_dl_lt_spec dvd dvs Hd Hs).
  assert (Hsub : u32 (sub_ 32 dvd dvs)) by (apply (inw_mod 32); lia).
  rewrite (g_dl_select_spec _ dvd (dvd <? dvs) Hsub Hd).
  assert (Hs' : u32 (shr_ dvs 1)).
  { unfold u32, shr_ in *. change (2 ^ 1) with 2. split; [apply Z.div_pos; lia | apply Z.div_lt_upper_bound; lia]. }
  assert (Hbit : shl_ 32 (shr_ (not_ 32 (if dvd <? dvs then 2 ^ 32 - 1 else 0)) (sub_ 32 32 1)) (Z.of_nat n)
                 = (if dvd <? dvs then 0 else 1) * 2 ^ Z.of_nat n).
  { assert (0 < 2 ^ Z.of_nat n) by (apply Z.pow_pos_nonneg; lia).
    assert (2 ^ Z.of_nat n < 2 ^ 32) by (apply Z.pow_lt_mono_r; lia).
    destruct (dvd <? dvs).
    - change (shr_ (not_ 32 (2 ^ 32 - 1)) (sub_ 32 32 1)) with 0. unfold shl_. rewrite !Z.mul_0_l. reflexivity.
    - change (shr_ (not_ 32 0) (sub_ 32 32 1)) with 1. unfold shl_. rewrite Z.mul_1_l. apply Z.mod_small. lia. }
  rewrite Hbit.
  replace (if dvd <? dvs then dvd else (dvd - dvs) mod M32) with (if dvd <? dvs then dvd else sub_ 32 dvd dvs)
    by (destruct (dvd <? dvs); reflexivity).
  unfold shr_ at 1. change (2 ^ 1) with 2.
  apply IH; [lia| destruct (dvd <? dvs); assumption | exact Hs'].
Qed.

Lemma g_short_div_eq dvd dbits dvs vbits : u32 dvd -> u32 dvs -> 0 <= vbits <= dbits -> dbits - vbits + 1 <= 32 ->
  g_short_div dvd dbits dvs vbits = short_div dvd dbits dvs vbits.
Proof.
  intros Hd Hs Hb Hn. unfold g_short_div, short_div.
  assert (E1 : sub_ 32 dbits vbits = dbits - vbits) by (unfold sub_; apply Z.mod_small; lia).
  assert (E2 : add_ 32 (dbits - vbits) 1 = dbits - vbits + 1) by (unfold add_; apply Z.mod_small; lia).
  rewrite E1, E2.
  fold sd_body.
  set (n := Z.to_nat (dbits - vbits + 1)).
  assert (En : dbits - vbits + 1 = Z.of_nat n) by (unfold n; lia).
  rewrite En.
  pose proof (sd_loop_eq n dvd (shl_ 32 dvs (dbits - vbits)) 0 ltac:(lia) Hd ltac:(apply (inw_mod 32); lia)) as L.
  destruct (Nat.iter n sd_body (Z.of_nat n, dvd, shl_ 32 dvs (dbits - vbits), 0)) as [[[i a] b] c] eqn:E.
  cbn [snd] in L. rewrite L. reflexivity.
Qed.

Ltac pull_mod :=
  repeat first [ rewrite Z.mul_mod_idemp_l by discriminate | rewrite Z.mul_mod_idemp_r by discriminate
               | rewrite Zminus_mod_idemp_l | rewrite Zminus_mod_idemp_r
               | rewrite Zplus_mod_idemp_l | rewrite Zplus_mod_idemp_r ].

Lemma div_word d k : is_word d -> 0 <= k -> 0 <= d / 2 ^ k <= d.
Proof.
  unfold is_word. intros Hd Hk. assert (0 < 2 ^ k) by (apply Z.pow_pos_nonneg; lia).
  split; [apply Z.div_pos; lia|]. apply Z.div_le_upper_bound; [lia|]. nia.
Qed.

Lemma g_reciprocal_eq d : is_word d -> g_reciprocal d = reciprocal d.
Proof.
  intros Hd. unfold g_reciprocal, reciprocal.
  assert (HB : B = 2 ^ 64) by reflexivity.
  assert (Hd0 : 0 <= Z.land d 1 <= 1).
  { change 1 with (Z.ones 1) at 1 2. rewrite Z.land_ones by lia. change (2 ^ 1) with 2. pose proof (Z.mod_pos_bound d 2). lia. }
  set (d0 := Z.land d 1) in *.
  assert (Hd9 : trunc_ 32 (shr_ d 55) = d / 2 ^ 55).
  { unfold trunc_, shr_. apply Z.mod_small. unfold is_word in Hd. rewrite HB in Hd.
    split; [apply Z.div_pos; lia|]. apply Z.div_lt_upper_bound; lia. }
  assert (Hd9r : 0 <= d / 2 ^ 55 < 2 ^ 9).
  { unfold is_word in Hd. rewrite HB in Hd. split; [apply Z.div_pos; lia|]. apply Z.div_lt_upper_bound; lia. }
  assert (Hd40 : add_ 64 (shr_ d 24) 1 = d / 2 ^ 24 + 1).
  { unfold add_, shr_. apply Z.mod_small. unfold is_word in Hd. rewrite HB in Hd.
    assert (0 <= d / 2 ^ 24 < 2 ^ 40) by (split; [apply Z.div_pos; lia|apply Z.div_lt_upper_bound; lia]). lia. }
  assert (Hd63 : add_ 64 (shr_ d 1) d0 = d / 2 + d0).
  { unfold add_, shr_. change (2 ^ 1) with 2. apply Z.mod_small. unfold is_word in Hd. rewrite HB in Hd.
    assert (0 <= d / 2 < 2 ^ 63) by (split; [apply Z.div_pos; lia|apply Z.div_lt_upper_bound; lia]). lia. }
  rewrite Hd9, Hd40, Hd63.
  change (sub_ 32 (shl_ 32 1 19) (mul_ 32 3 (shl_ 32 1 8))) with (2 ^ 19 - 3 * 2 ^ 8).
  rewrite g_short_div_eq by (unfold u32; lia).
  set (v0 := short_div (2 ^ 19 - 3 * 2 ^ 8) 19 (d / 2 ^ 55) 9).
  set (d40 := d / 2 ^ 24 + 1). set (d63 := d / 2 + d0).
  assert (Ev1 : sub_ 64 (sub_ 64 (shl_ 64 v0 11) (shr_ (mul_ 64 (mul_ 64 v0 v0) d40) 40)) 1
                = wrap (wrap (v0 * 2 ^ 11) - wrap (v0 * v0 * d40) / 2 ^ 40 - 1)).
  { unfold sub_, shl_, shr_, mul_, wrap. rewrite <- HB. pull_mod. reflexivity. }
  rewrite Ev1. set (v1 := wrap (wrap (v0 * 2 ^ 11) - wrap (v0 * v0 * d40) / 2 ^ 40 - 1)).
  assert (Ev2 : add_ 64 (shl_ 64 v1 13) (shr_ (mul_ 64 v1 (sub_ 64 (shl_ 64 1 60) (mul_ 64 v1 d40))) 47)
                = wrap (wrap (v1 * 2 ^ 13) + wrap (v1 * wrap (2 ^ 60 - wrap (v1 * d40))) / 2 ^ 47)).
  { unfold add_, sub_, shl_, shr_, mul_, wrap. rewrite <- HB. change (1 * 2 ^ 60) with (2 ^ 60). pull_mod. reflexivity. }
  rewrite Ev2. set (v2 := wrap (wrap (v1 * 2 ^ 13) + wrap (v1 * wrap (2 ^ 60 - wrap (v1 * d40))) / 2 ^ 47)).
  assert (Ee : add_ 64 (add_ 64 (sub_ 64 (2 ^ 64 - 1) (mul_ 64 v2 d63)) 1) (mul_ 64 (shr_ v2 1) d0)
               = wrap (MAXW - wmul v2 d63 + 1 + wrap (v2 / 2 * d0))).
  { unfold add_, sub_, shr_, mul_, wmul, wrap, MAXW. rewrite <- HB. change (2 ^ 1) with 2.
    rewrite Zplus_mod_idemp_l. rewrite <- !Z.add_assoc. rewrite Zplus_mod_idemp_l. reflexivity. }
  rewrite Ee. set (e := wrap (MAXW - wmul v2 d63 + 1 + wrap (v2 / 2 * d0))).
  assert (Wv2 : is_word v2) by apply is_word_mod. assert (We : is_word e) by apply is_word_mod.
  clearbody e. clearbody v2. clear Ev1 Ev2 Ee. clearbody v1. clearbody v0.
  rewrite (g_mulhilo_eq v2 e Wv2 We). destruct (mulhilo v2 e) as [hi lo] eqn:Em.
  assert (Ev3 : add_ 64 (shl_ 64 v2 31) (shr_ hi 1) = wadd (wshl v2 31) (hi / 2)).
  { unfold add_, shl_, shr_, wadd, wshl, wrap. rewrite <- HB. reflexivity. }
  rewrite Ev3. set (v3 := wadd (wshl v2 31) (hi / 2)). clearbody v3.
  assert (Ex : add_ 64 v3 1 = wadd v3 1) by (unfold add_, wadd, wrap; rewrite <- HB; reflexivity).
  rewrite Ex. set (x := wadd v3 1).
  assert (Wx : is_word x) by apply is_word_mod. clearbody x.
  rewrite (g_mulhilo_eq x d Wx Hd). destruct (mulhilo x d) as [hi2 lo2] eqn:Em2.
  assert (Whi2 : is_word hi2).
  { unfold mulhilo in Em2. inv_pair Em2. unfold is_word in *. pose proof B_pos.
    split; [apply Z.div_pos; nia| apply Z.div_lt_upper_bound; nia]. }
  rewrite g_cc_from_word_nonzero_eq, g_cc_select_word_eq.
  rewrite (from_word_nonzero_spec x Wx), (select_word_choice _ d hi2 Hd Whi2).
  unfold sub_, wsub, wrap. rewrite <- HB. destruct (x =? 0); reflexivity.
Qed.

(* ---------------- div2by1 *)
Definition g_of_recip (rc : recip) : g_Reciprocal :=
  {| g_Reciprocal_divisor_normalized := r_d rc; g_Reciprocal_shift := r_shift rc; g_Reciprocal_reciprocal := r_v rc |}.

Lemma mulhilo_words x y hi lo : is_word x -> is_word y -> mulhilo x y = (hi, lo) -> is_word hi /\ is_word lo.
Proof.
  intros Hx Hy E. unfold mulhilo in E. inv_pair E. split; [|apply is_word_mod].
  unfold is_word in *. pose proof B_pos. split; [apply Z.div_pos; nia | apply Z.div_lt_upper_bound; nia].
Qed.
Lemma addhilo_words a b c d hi lo : addhilo a b c d = (hi, lo) -> is_word hi /\ is_word lo.
Proof.
  intros E. unfold addhilo in E. inv_pair E. split; [|apply is_word_mod].
  unfold is_word, wrap2, BB. pose proof B_pos.
  assert (0 <= (a * B + b + (c * B + d)) mod (B * B) < B * B) by (apply Z.mod_pos_bound; nia).
  split; [apply Z.div_pos; lia | apply Z.div_lt_upper_bound; lia].
Qed.

Lemma w64 a : a mod 2 ^ 64 = wrap a. Proof. reflexivity. Qed.

Lemma g_div2by1_eq u1 u0 rc : is_word u1 -> is_word u0 -> is_word (r_d rc) -> is_word (r_v rc) ->
  g_div2by1 u1 u0 (g_of_recip rc) = div2by1 u1 u0 rc.
Proof.
  intros H1 H0 Hd Hv. unfold g_div2by1, div2by1, g_of_recip.
  cbn [g_Reciprocal_divisor_normalized g_Reciprocal_reciprocal].
  rewrite (g_mulhilo_eq _ _ Hv H1). destruct (mulhilo (r_v rc) u1) as [q1 q0] eqn:E1.
  destruct (mulhilo_words _ _ _ _ Hv H1 E1) as [Wq1 Wq0].
  rewrite (g_addhilo_eq _ _ _ _ Wq1 Wq0 H1 H0). destruct (addhilo q1 q0 u1 u0) as [q1' q0'] eqn:E2.
  destruct (addhilo_words _ _ _ _ _ _ E2) as [Wq1' Wq0'].
  unfold add_, sub_, mul_. rewrite !w64. fold (wadd q1' 1). set (q := wadd q1' 1).
  fold (wmul q (r_d rc)). fold (wsub u0 (wmul q (r_d rc))). set (r := wsub u0 (wmul q (r_d rc))).
  assert (Wq : is_word q) by apply is_word_mod. assert (Wr : is_word r) by apply is_word_mod.
  rewrite !g_cc_from_word_lt_eq, !g_cc_select_word_eq, (from_word_lt_spec q0' r Wq0' Wr).
  fold (wsub q 1). fold (wadd r (r_d rc)).
  rewrite !select_word_choice by (try apply is_word_mod; assumption).
  unfold ltw, sel. set (c1 := q0' <? r).
  set (q2 := if c1 then wsub q 1 else q). set (r2 := if c1 then wadd r (r_d rc) else r).
  assert (Wq2 : is_word q2) by (unfold q2; destruct c1; [apply is_word_mod|assumption]).
  assert (Wr2 : is_word r2) by (unfold r2; destruct c1; [apply is_word_mod|assumption]).
  rewrite !g_cc_from_word_le_eq, (from_word_le_spec (r_d rc) r2 Hd Wr2).
  fold (wadd q2 1). fold (wsub r2 (r_d rc)).
  rewrite !select_word_choice by (try apply is_word_mod; assumption).
  reflexivity.
Qed.

Lemma lor_hi_lo_gen hi lo : 0 <= lo < 2 ^ 64 -> Z.lor (hi * 2 ^ 64) lo = hi * 2 ^ 64 + lo.
Proof.
  intros Hl. rewrite <- Z.shiftl_mul_pow2 by lia.
  rewrite <- Z.lxor_lor, <- Z.add_nocarry_lxor; try reflexivity.
  all: apply Z.bits_inj'; intros n Hn; rewrite Z.land_spec, Z.bits_0;
    destruct (Z_lt_ge_dec n 64) as [Hlt|Hge];
    [rewrite Z.shiftl_spec_low by lia; reflexivity|
     rewrite (Z.bits_above_log2 lo n), Bool.andb_false_r; [reflexivity|lia|];
     destruct (Z.eq_dec lo 0) as [->|Hnz]; [simpl; lia|];
     apply Z.log2_lt_pow2; [lia|]; apply Z.lt_le_trans with (2 ^ 64); [lia|apply Z.pow_le_mono_r; lia]].
Qed.

(* ---------------- div3by2: the generated text unrolls the two correction rounds *)
Definition g_round (d v0 u0 : Z) (st : Z * Z) : Z * Z :=
  let '(v_quo, v_rem) := st in
  let v_qy := (mul_ 128 v_quo v0) in
  let v_rx := (Z.lor (shl_ 128 v_rem 64) u0) in
  let v_done := (g_cc_or (g_cc_from_word_nonzero (trunc_ 64 (shr_ v_rem 64))) (g_cc_from_wide_word_le v_qy v_rx)) in
  (g_cc_select_word v_done (sub_ 64 v_quo 1) v_quo, g_cc_select_wide_word v_done (add_ 128 v_rem d) v_rem).

Lemma wor_choice a b : wor (choice_of_bool a) (choice_of_bool b) = choice_of_bool (a || b).
Proof. destruct a, b; reflexivity. Qed.

Lemma g_round_eq d v0 u0 quo rem : is_word d -> is_word v0 -> is_word u0 -> is_word quo -> 0 <= rem < 2 ^ 127 ->
  g_round d v0 u0 (quo, rem) = div3by2_round v0 d u0 (quo, rem) /\
  is_word (fst (div3by2_round v0 d u0 (quo, rem))) /\
  0 <= snd (div3by2_round v0 d u0 (quo, rem)) < (if Z.ltb rem B then rem + B + 1 else rem + 1).
Proof.
  intros Hd Hv0 Hu0 Hq Hrem. unfold g_round, div3by2_round.
  assert (HB : B = 2 ^ 64) by reflexivity. pose proof B_pos as HBp.
  assert (HBB : B * B = 2 ^ 128) by reflexivity.
  assert (Eqy : mul_ 128 quo v0 = quo * v0).
  { unfold mul_. rewrite <- HBB. unfold is_word in *. apply Z.mod_small. nia. }
  assert (Erx : Z.lor (shl_ 128 rem 64) u0 = wrap2 (rem * B) + u0).
  { unfold shl_, wrap2, BB. rewrite <- HB, <- HBB.
    replace ((rem * B) mod (B * B)) with ((rem mod B) * 2 ^ 64).
    2:{ rewrite <- HB. rewrite Zmult_mod_distr_r. reflexivity. }
    apply lor_hi_lo_gen. unfold is_word in Hu0. rewrite <- HB. lia. }
  assert (Eh : trunc_ 64 (shr_ rem 64) = rem / B).
  { unfold trunc_, shr_. rewrite <- HB. apply Z.mod_small.
    split; [apply Z.div_pos; lia|]. apply Z.div_lt_upper_bound; [lia|]. rewrite HBB. lia. }
  assert (Wh : is_word (rem / B)).
  { unfold is_word. split; [apply Z.div_pos; lia|]. apply Z.div_lt_upper_bound; [lia|]. rewrite HBB. lia. }
  assert (Rrx : 0 <= wrap2 (rem * B) + u0 < 2 ^ 128).
  { unfold wrap2, BB. rewrite <- HBB. replace ((rem * B) mod (B * B)) with ((rem mod B) * B) by (rewrite Zmult_mod_distr_r; reflexivity).
    pose proof (Z.mod_pos_bound rem B HBp). unfold is_word in Hu0. nia. }
  assert (Rqy : 0 <= quo * v0 < 2 ^ 128) by (rewrite <- HBB; unfold is_word in *; nia).
  rewrite Eqy, Erx, Eh.
  rewrite g_cc_or_eq, g_cc_from_word_nonzero_eq, (from_word_nonzero_spec _ Wh).
  rewrite (g_cc_from_wide_word_le_spec _ _ Rqy Rrx), wor_choice.
  set (done := negb (rem / B =? 0) || (quo * v0 <=? wrap2 (rem * B) + u0)).
  assert (Esub : sub_ 64 quo 1 = wsub quo 1) by reflexivity.
  assert (Eadd : add_ 128 rem d = rem + d).
  { unfold add_. apply Z.mod_small. unfold is_word in Hd. rewrite HB in Hd. lia. }
  rewrite Esub, Eadd, g_cc_select_word_eq.
  rewrite (select_word_choice done (wsub quo 1) quo (is_word_wsub _ _) Hq).
  rewrite (g_cc_select_wide_word_spec done (rem + d) rem)
    by (unfold is_word in Hd; rewrite HB in Hd; lia).
  unfold sel. split; [reflexivity|]. cbn [fst snd]. split.
  - destruct done; [assumption|apply is_word_mod].
  - unfold is_word in Hd. destruct (Z.ltb_spec rem B); destruct done eqn:Ed; try lia.
    (* rem >= B and not done is impossible: rem / B <> 0 makes done true *)
    exfalso. unfold done in Ed. apply Bool.orb_false_elim in Ed. destruct Ed as [Ed _].
    apply Bool.negb_false_iff in Ed. apply Z.eqb_eq in Ed.
    assert (1 <= rem / B) by (apply Z.div_le_lower_bound; lia). lia.
Qed.

Lemma div2by1_words u1 u0 rc : is_word (fst (div2by1 u1 u0 rc)) /\ is_word (snd (div2by1 u1 u0 rc)).
Proof.
  unfold div2by1. destruct (mulhilo (r_v rc) u1) as [q1 q0]. destruct (addhilo q1 q0 u1 u0) as [q1' q0'].
  cbn [fst snd]. unfold sel. split.
  - destruct (r_d rc <=? _); [apply is_word_mod|]. destruct (ltw _ _); apply is_word_mod.
  - destruct (r_d rc <=? _); [apply is_word_mod|]. destruct (ltw _ _); apply is_word_mod.
Qed.

Lemma g_div3by2_eq u2 u1 u0 rc v0 : is_word u2 -> is_word u1 -> is_word u0 -> is_word v0 ->
  is_word (r_d rc) -> is_word (r_v rc) ->
  g_div3by2 u2 u1 u0 (g_of_recip rc) v0 = div3by2 u2 u1 u0 rc v0.
Proof.
  intros H2 H1 H0 Hv0 Hd Hv. unfold g_div3by2, div3by2.
  change (g_Reciprocal_divisor_normalized (g_of_recip rc)) with (r_d rc).
  assert (HB : B = 2 ^ 64) by reflexivity.
  rewrite g_cc_from_word_eq_eq, (from_word_eq_spec u2 (r_d rc) H2 Hd).
  set (qm := u2 =? r_d rc).
  rewrite g_cc_select_word_eq, (select_word_choice qm u2 0 H2 is_word_0').
  assert (Wsel : is_word (if qm then 0 else u2)) by (destruct qm; [apply is_word_0'|assumption]).
  rewrite (g_div2by1_eq _ u1 rc Wsel H1 Hd Hv).
  unfold sel at 1. destruct (div2by1_words (if qm then 0 else u2) u1 rc) as [Wq Wr].
  destruct (div2by1 (if qm then 0 else u2) u1 rc) as [quo rem] eqn:E. cbn [fst snd] in Wq, Wr.
  change (fst (g_round (r_d rc) v0 u0 (g_round (r_d rc) v0 u0
             (g_cc_select_word (choice_of_bool qm) quo (2 ^ 64 - 1),
              g_cc_select_wide_word (choice_of_bool qm) rem (add_ 128 u2 u1))))
          = fst (div3by2_round v0 (r_d rc) u0 (div3by2_round v0 (r_d rc) u0 (sel qm quo MAXW, if qm then u2 + u1 else rem)))).
  rewrite g_cc_select_word_eq, (select_word_choice qm quo (2 ^ 64 - 1) Wq is_word_MAXW).
  assert (Eadd : add_ 128 u2 u1 = u2 + u1).
  { unfold add_. apply Z.mod_small. unfold is_word in *. rewrite HB in *. lia. }
  rewrite Eadd.
  rewrite (g_cc_select_wide_word_spec qm rem (u2 + u1))
    by (unfold is_word in *; rewrite HB in *; lia).
  set (quo1 := if qm then 2 ^ 64 - 1 else quo). set (rem1 := if qm then u2 + u1 else rem).
  assert (Wq1 : is_word quo1) by (unfold quo1; destruct qm; [apply is_word_MAXW|assumption]).
  assert (Rr1 : 0 <= rem1 < 2 * B) by (unfold rem1, is_word in *; destruct qm; lia).
  change (sel qm quo MAXW) with quo1.
  destruct (g_round_eq (r_d rc) v0 u0 quo1 rem1 Hd Hv0 H0 Wq1 ltac:(rewrite HB in Rr1; lia)) as [E1 [W1 R1]].
  rewrite E1. destruct (div3by2_round v0 (r_d rc) u0 (quo1, rem1)) as [quo2 rem2]. cbn [fst snd] in W1, R1.
  assert (R2 : 0 <= rem2 < 2 ^ 127).
  { rewrite HB in Rr1. destruct (rem1 <? B); rewrite ?HB in R1; lia. }
  destruct (g_round_eq (r_d rc) v0 u0 quo2 rem2 Hd Hv0 H0 W1 R2) as [E2 _].
  rewrite E2. reflexivity.
Qed.

(* ---------------- composition with the correctness theorems of the models *)
From CB Require Import Proofs.DivP Proofs.RecipP.

Lemma g_reciprocal_exact d : 2 ^ 63 <= d < 2 ^ 64 -> recip_ok d (g_reciprocal d).
Proof.
  intros Hd. rewrite g_reciprocal_eq; [apply reciprocal_correct; assumption|].
  unfold is_word. change B with (2 ^ 64). lia.
Qed.

Lemma g_div2by1_exact u1 u0 rc :
  is_word u0 -> 0 <= u1 < r_d rc -> normalized (r_d rc) -> recip_ok (r_d rc) (r_v rc) ->
  let '(q, r) := g_div2by1 u1 u0 (g_of_recip rc) in
  u1 * B + u0 = q * r_d rc + r /\ 0 <= r < r_d rc /\ 0 <= q < B.
Proof.
  intros H0 H1 Hn Hr. pose proof (recip_range _ _ Hn Hr) as Hv.
  assert (Hd : is_word (r_d rc)) by (unfold normalized, is_word in *; change B with (2 ^ 64) in *; lia).
  rewrite g_div2by1_eq; [apply div2by1_correct; assumption| | assumption | assumption | exact Hv].
  unfold is_word in *. lia.
Qed.
