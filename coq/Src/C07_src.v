(** C07, translator tie: the modular add / sub / neg routines of /repo's CURRENT src/uint/add_mod.rs, sub_mod.rs,
    neg_mod.rs (Src/GenMod.v, regenerated on every run by tools/rs2v.py) are the model routines, hence canonical and exact.
    Statements only; proofs in Src/GenModP.v. *)
From CB Require Import Model.SrcPrelude Model.Word Model.Limbs Model.AddSub Model.ModArith.
From CB Require Import Src.GenPrim Src.GenUint Src.GenMod Src.GenUintP Src.GenModP Proofs.WordP Proofs.LimbsP.
From Coq Require Import ZArith List.
Import ListNotations.
Open Scope Z_scope.

Theorem C07_src_add_mod : forall n a b p, length a = n -> length b = n -> length p = n -> usz n -> wf a -> wf b -> wf p ->
  g_uint_add_mod n a b p = add_mod a b p.
Proof. exact g_uint_add_mod_eq. Qed.
Print Assumptions C07_src_add_mod.
Theorem C07_src_sub_mod : forall n a b p, length a = n -> length b = n -> length p = n -> usz n -> wf a -> wf b -> wf p ->
  g_uint_sub_mod n a b p = sub_mod a b p.
Proof. exact g_uint_sub_mod_eq. Qed.
Print Assumptions C07_src_sub_mod.
Theorem C07_src_neg_mod : forall n a p, length a = n -> length p = n -> usz n -> wf a -> wf p ->
  g_uint_neg_mod n a p = neg_mod a p.
Proof. exact g_uint_neg_mod_eq. Qed.
Print Assumptions C07_src_neg_mod.
Theorem C07_src_add_mod_special : forall n a b c, length a = n -> length b = n -> (1 <= n)%nat -> usz n -> wf a -> wf b -> is_word c ->
  g_uint_add_mod_special n a b c = add_mod_special a b c.
Proof. exact g_uint_add_mod_special_eq. Qed.
Print Assumptions C07_src_add_mod_special.
Theorem C07_src_sub_mod_special : forall n a b c, length a = n -> length b = n -> (1 <= n)%nat -> usz n -> wf a -> wf b -> is_word c ->
  g_uint_sub_mod_special n a b c = sub_mod_special a b c.
Proof. exact g_uint_sub_mod_special_eq. Qed.
Print Assumptions C07_src_sub_mod_special.
Theorem C07_src_neg_mod_special : forall n a c, length a = n -> (1 <= n)%nat -> usz n -> wf a -> is_word c ->
  g_uint_neg_mod_special n a c = neg_mod_special a c.
Proof. exact g_uint_neg_mod_special_eq. Qed.
Print Assumptions C07_src_neg_mod_special.

(** hence the SOURCE routines return the canonical residue for every width and every modulus *)
Theorem C07_src_add_mod_correct : forall n a b p, length a = n -> length b = n -> length p = n -> usz n -> wf a -> wf b -> wf p ->
  eval a < eval p -> eval b < eval p ->
  eval (g_uint_add_mod n a b p) = (eval a + eval b) mod eval p /\ wf (g_uint_add_mod n a b p) /\ length (g_uint_add_mod n a b p) = n.
Proof. exact g_uint_add_mod_correct. Qed.
Print Assumptions C07_src_add_mod_correct.
Theorem C07_src_sub_mod_correct : forall n a b p, length a = n -> length b = n -> length p = n -> usz n -> wf a -> wf b -> wf p ->
  eval a < eval p -> eval b < eval p ->
  eval (g_uint_sub_mod n a b p) = (eval a - eval b) mod eval p /\ wf (g_uint_sub_mod n a b p) /\ length (g_uint_sub_mod n a b p) = n.
Proof. exact g_uint_sub_mod_correct. Qed.
Print Assumptions C07_src_sub_mod_correct.
Theorem C07_src_neg_mod_correct : forall n a p, length a = n -> length p = n -> usz n -> wf a -> wf p -> eval a < eval p ->
  eval (g_uint_neg_mod n a p) = (- eval a) mod eval p /\ wf (g_uint_neg_mod n a p) /\ length (g_uint_neg_mod n a p) = n.
Proof. exact g_uint_neg_mod_correct. Qed.
Print Assumptions C07_src_neg_mod_correct.

Example C07_src_runs : g_uint_add_mod 2 [2 ^ 64 - 2; 2 ^ 64 - 1] [2 ^ 64 - 3; 2 ^ 64 - 1] [2 ^ 64 - 1; 2 ^ 64 - 1] = [2 ^ 64 - 4; 2 ^ 64 - 1] /\
  g_uint_neg_mod 2 [0; 0] [7; 0] = [0; 0] /\ g_uint_sub_mod 1 [3] [5] [7] = [5].
Proof. vm_compute. repeat split. Qed.
