(** C07, translator tie: the modular add / sub / neg routines of /repo's CURRENT src/uint/add_mod.rs, sub_mod.rs,
    neg_mod.rs (Src/GenMod.v, regenerated on every run by tools/rs2v.py) are the model routines, hence canonical and exact.
    Statements only; proofs in Src/GenModP.v. *)
From CB Require Import Model.SrcPrelude Model.Word Model.Limbs Model.AddSub Model.ModArith.
From CB Require Import Src.GenPrim Src.GenUint Src.GenMod Src.GenUintP Src.GenModP Proofs.WordP Proofs.LimbsP.
From Coq Require Import ZArith List.
Import ListNotations.
Open Scope Z_scope.

Theorem C07_src_add_mod : forall n a b p, length a = n -> length b = n -> length p = n -> usz n -> wf a -> wf b -> wf p ->
  g_uint_add_mod n a b p = add_mod a b p.
Proof. exact g_uint_add_mod_eq. Qed.
Print Assumptions C07_src_add_mod.
Theorem C07_src_sub_mod : forall n a b p, length a = n -> length b = n -> length p = n -> usz n -> wf a -> wf b -> wf p ->
  g_uint_sub_mod n a b p = sub_mod a b p.
Proof. exact g_uint_sub_mod_eq. Qed.
Print Assumptions C07_src_sub_mod.
Theorem C07_src_neg_mod : forall n a p, length a = n -> length p = n -> usz n -> wf a -> wf p ->
  g_uint_neg_mod n a p = neg_mod a p.
Proof. exact g_uint_neg_mod_eq. Qed.
Print Assumptions C07_src_neg_mod.
Theorem C07_src_add_mod_special : forall n a b c, length a = n -> length b = n -> (1 <= n)%nat -> usz n -> wf a -> wf b -> is_word c ->
  g_uint_add_mod_special n a b c = add_mod_special a b c.
Proof. exact g_uint_add_mod_special_eq. Qed.
Print Assumptions C07_src_add_mod_special.
Theorem C07_src_sub_mod_special : forall n a b c, length a = n -> length b = n -> (1 <= n)%nat -> usz n -> wf a -> wf b -> is_word c ->
  g_uint_sub_mod_special n a b c = sub_mod_special a b c.
Proof. exact g_uint_sub_mod_special_eq. Qed.
Print Assumptions C07_src_sub_mod_special.
Theorem C07_src_neg_mod_special : forall n a c, length a = n -> (1 <= n)%nat -> usz n -> wf a -> is_word c ->
  g_uint_neg_mod_special n a c = neg_mod_special a c.
Proof. exact g_uint_neg_mod_special_eq. Qed.
Print Assumptions C07_src_neg_mod_special.

(** hence the SOURCE routines return the canonical residue for every width and every modulus *)
Theorem C07_src_add_mod_correct : forall n a b p, length a = n -> length b = n -> length p = n -> usz n -> wf a -> wf b -> wf p ->
  eval a < eval p -> eval b < eval p ->
  eval (g_uint_add_mod n a b p) = (eval a + eval b) mod eval p /\ wf (g_uint_add_mod n a b p) /\ length (g_uint_add_mod n a b p) = n.
Proof. exact g_uint_add_mod_correct. Qed.
Print Assumptions C07_src_add_mod_correct.
Theorem C07_src_sub_mod_correct : forall n a b p, length a = n -> length b = n -> length p = n -> usz n -> wf a -> wf b -> wf p ->
  eval a < eval p -> eval b < eval p ->
  eval (g_uint_sub_mod n a b p) = (eval a - eval b) mod eval p /\ wf (g_uint_sub_mod n a b p) /\ length (g_uint_sub_mod n a b p) = n.
Proof. exact g_uint_sub_mod_correct. Qed.
Print Assumptions C07_src_sub_mod_correct.
Theorem C07_src_neg_mod_correct : forall n a p, length a = n -> length p = n -> usz n -> wf a -> wf p -> eval a < eval p ->
  eval (g_uint_neg_mod n a p) = (- eval a) mod eval p /\ wf (g_uint_neg_mod n a p) /\ length (g_uint_neg_mod n a p) = n.
Proof. exact g_uint_neg_mod_correct. Qed.
Print Assumptions C07_src_neg_mod_correct.

Example C07_src_runs : g_uint_add_mod 2 [2 ^ 64 - 2; 2 ^ 64 - 1] [2 ^ 64 - 3; 2 ^ 64 - 1] [2 ^ 64 - 1; 2 ^ 64 - 1] = [2 ^ 64 - 4; 2 ^ 64 - 1] /\
  g_uint_neg_mod 2 [0; 0] [7; 0] = [0; 0] /\ g_uint_sub_mod 1 [3] [5] [7] = [5].
Proof. vm_compute. repeat split. Qed.


(** ---- double_mod, mac_by_limb, mul_rem and the special-modulus multiplication (Src/GenMulMod.v, proofs in Src/GenMulModP.v) ---- *)
From CB Require Import Model.Mul Model.Div Src.GenDiv Src.GenShift Src.GenMul Src.GenInt Src.GenDivLimb Src.GenMulMod Src.GenMulModP.
From CB Require Import Proofs.DivP Proofs.ModArithP.

(** Uint::double_mod (overflowing_shl1, trial subtraction, masked re-addition) is the model, hence canonical and exact *)
Theorem C07_src_double_mod : forall n a p, length a = n -> length p = n -> usz n -> wf a -> wf p ->
  g_uint_double_mod n a p = double_mod a p.
Proof. exact g_uint_double_mod_eq. Qed.
Print Assumptions C07_src_double_mod.
Theorem C07_src_double_mod_correct : forall n a p, length a = n -> length p = n -> usz n -> wf a -> wf p -> eval a < eval p ->
  eval (g_uint_double_mod n a p) = (2 * eval a) mod eval p /\ wf (g_uint_double_mod n a p) /\ length (g_uint_double_mod n a p) = n.
Proof. exact g_uint_double_mod_correct. Qed.
Print Assumptions C07_src_double_mod_correct.

(** mac_by_limb (in-place loop over a copy of `a`, carry threaded) is the model recursion *)
Theorem C07_src_mac_by_limb : forall n a b c carry, length a = n -> length b = n -> usz n -> wf a -> wf b -> is_word c -> is_word carry ->
  g_mac_by_limb n a b c carry = mac_by_limb a b c carry.
Proof. exact g_mac_by_limb_eq. Qed.
Print Assumptions C07_src_mac_by_limb.

(** mul_rem: Reciprocal::new(d), mulhilo, Uint::<2>::from_words([lo, hi]) (the limb count of the callees is the literal
    length of the array), rem_limb_with_reciprocal *)
Theorem C07_src_mul_rem : forall a b d, is_word a -> is_word b -> 0 < d < B ->
  g_mul_rem a b d = (let '(hi, lo) := mulhilo a b in rem_limb_with_reciprocal [lo; hi] (recip_new d)).
Proof. exact g_mul_rem_eq. Qed.
Print Assumptions C07_src_mul_rem.

Theorem C07_src_from_wide_word : forall n x, (2 <= n)%nat -> 0 <= x < 2 ^ 128 -> g_uint_from_wide_word n x = from_wide_word_n n x.
Proof. exact g_uint_from_wide_word_eq. Qed.
Print Assumptions C07_src_from_wide_word.

(** Uint::mul_mod_special: `Uint::split_mul` is outside the translated subset (Karatsuba dispatch, macro-generated) and is a
    PARAMETER [xmul] of the generated function, as [mulf] is a parameter of the model.  For every xmul whose result has the
    shape of a (lo, hi) pair of n limbs the source text denotes the model (the model returns None where `new_unwrap`
    panics: c = 0 at one limb) *)
Theorem C07_src_mul_mod_special : forall (xmul : nat -> list Z -> list Z -> list Z * list Z) dbg n a b c v,
  length a = n -> length b = n -> (1 <= n)%nat -> usz n -> wf a -> wf b -> is_word c ->
  ((2 <= n)%nat -> xmul_shape xmul n a b) ->
  mul_mod_special dbg (xmul n) a b c = Some v -> g_uint_mul_mod_special xmul n a b c = v.
Proof. exact g_uint_mul_mod_special_eq. Qed.
Print Assumptions C07_src_mul_mod_special.

(** hence, for EVERY multiplication routine that returns the double-width product, the SOURCE reduction (HAC 14.47 at n >= 2
    limbs, mul_rem through the source's own Reciprocal::new at one limb) returns a * b mod (2^(64 n) - c): every width, every
    1 <= c < 2^64, no hypothesis on the reciprocal *)
Theorem C07_src_mul_mod_special_exact : forall (xmul : nat -> list Z -> list Z -> list Z * list Z) n a b c,
  length a = n -> length b = n -> (1 <= n)%nat -> usz n -> wf a -> wf b -> 1 <= c < B -> 0 < psp n c ->
  split_mul_ok (xmul n) a b ->
  let r := g_uint_mul_mod_special xmul n a b c in
  eval r = (eval a * eval b) mod psp n c /\ wf r /\ length r = n.
Proof. exact g_uint_mul_mod_special_exact. Qed.
Print Assumptions C07_src_mul_mod_special_exact.

(** one such routine: the GENERATED schoolbook multiplication on zeroed buffers (what split_mul runs through uint_mul_limbs at
    every width without a Karatsuba instance) *)
Theorem C07_src_schoolbook_is_split_mul : forall n a b, length a = n -> length b = n -> 2 * Z.of_nat n < 2 ^ 64 -> wf a -> wf b ->
  split_mul_ok (xmul_schoolbook n) a b.
Proof. exact xmul_schoolbook_ok. Qed.
Print Assumptions C07_src_schoolbook_is_split_mul.

(** non-vacuity: the generated functions run on multi-limb inputs (3 limbs with c = MAX, the witness of the wrapping variant:
    the `(carry + 1) * c` product needs the wide word; one limb through mul_rem; the doubling with the carry out of the top limb) *)
Example C07_src_mulmod_runs :
  g_uint_mul_mod_special xmul_schoolbook 3 [0; 2 ^ 64 - 2; 2 ^ 64 - 1] [0; 2 ^ 64 - 2; 2 ^ 64 - 1] (2 ^ 64 - 1)
    = to_limbs 3 (((2 ^ 192 - 2 ^ 65) * (2 ^ 192 - 2 ^ 65)) mod (2 ^ 192 - (2 ^ 64 - 1))) /\
  g_uint_mul_mod_special xmul_schoolbook 1 [2 ^ 64 - 60] [2 ^ 64 - 61] 59 = [((2 ^ 64 - 60) * (2 ^ 64 - 61)) mod (2 ^ 64 - 59)] /\
  g_uint_double_mod 2 [2 ^ 64 - 3; 2 ^ 64 - 1] [2 ^ 64 - 1; 2 ^ 64 - 1] = [2 ^ 64 - 5; 2 ^ 64 - 1] /\
  g_mac_by_limb 3 [1; 2; 3] [2 ^ 64 - 1; 2 ^ 64 - 1; 2 ^ 64 - 1] (2 ^ 64 - 1) 7 = ([9; 1; 3], 2 ^ 64 - 1) /\
  g_mul_rem (2 ^ 64 - 1) (2 ^ 64 - 1) 7 = ((2 ^ 64 - 1) * (2 ^ 64 - 1)) mod 7.
Proof. vm_compute. repeat split. Qed.
