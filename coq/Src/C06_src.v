(** C06, translator tie: the constant-time word predicates and selects of /repo's CURRENT src/const_choice.rs
    (Src/GenPrim.v, regenerated on every run) decide exactly the order on words / select exactly one operand.
    Statements only; proofs in Src/GenPrimP.v. *)
From CB Require Import Model.SrcPrelude Model.Word Model.Limbs Model.AddSub Model.Cmp Src.GenPrim Src.GenPrimP Src.GenUint Src.GenUintP Proofs.WordP Proofs.WordPredP Proofs.LimbsP.
From Coq Require Import ZArith.
Open Scope Z_scope.

Theorem C06_src_from_word_lt : forall x y, is_word x -> is_word y -> g_cc_from_word_lt x y = choice_of_bool (x <? y).
Proof. exact g_lt_spec. Qed.
Print Assumptions C06_src_from_word_lt.
Theorem C06_src_from_word_gt : forall x y, is_word x -> is_word y -> g_cc_from_word_gt x y = choice_of_bool (y <? x).
Proof. exact g_gt_spec. Qed.
Print Assumptions C06_src_from_word_gt.
Theorem C06_src_from_word_le : forall x y, is_word x -> is_word y -> g_cc_from_word_le x y = choice_of_bool (x <=? y).
Proof. exact g_le_spec. Qed.
Print Assumptions C06_src_from_word_le.
Theorem C06_src_from_word_eq : forall x y, is_word x -> is_word y -> g_cc_from_word_eq x y = choice_of_bool (x =? y).
Proof. exact g_eq_spec. Qed.
Print Assumptions C06_src_from_word_eq.
Theorem C06_src_from_word_nonzero : forall x, is_word x -> g_cc_from_word_nonzero x = choice_of_bool (negb (x =? 0)).
Proof. exact g_nonzero_spec. Qed.
Print Assumptions C06_src_from_word_nonzero.
Theorem C06_src_from_wide_word_le : forall x y, 0 <= x < 2 ^ 128 -> 0 <= y < 2 ^ 128 ->
  g_cc_from_wide_word_le x y = choice_of_bool (x <=? y).
Proof. exact g_cc_from_wide_word_le_spec. Qed.
Print Assumptions C06_src_from_wide_word_le.
Theorem C06_src_from_u32_le : forall x y, 0 <= x < 2 ^ 32 -> 0 <= y < 2 ^ 32 -> g_cc_from_u32_le x y = choice_of_bool (x <=? y).
Proof. exact g_cc_from_u32_le_spec. Qed.
Print Assumptions C06_src_from_u32_le.
(** a select returns exactly one of its operands, never a mixture *)
Theorem C06_src_select_word : forall (c : bool) a b, is_word a -> is_word b ->
  g_cc_select_word (choice_of_bool c) a b = if c then b else a.
Proof. exact g_select_spec. Qed.
Print Assumptions C06_src_select_word.
Theorem C06_src_select_wide_word : forall (c : bool) a b, 0 <= a < 2 ^ 128 -> 0 <= b < 2 ^ 128 ->
  g_cc_select_wide_word (choice_of_bool c) a b = if c then b else a.
Proof. exact g_cc_select_wide_word_spec. Qed.
Print Assumptions C06_src_select_wide_word.
Theorem C06_src_select_u32 : forall (c : bool) a b, 0 <= a < 2 ^ 32 -> 0 <= b < 2 ^ 32 ->
  g_cc_select_u32 (choice_of_bool c) a b = if c then b else a.
Proof. exact g_cc_select_u32_spec. Qed.
Print Assumptions C06_src_select_u32.

(** ---- the limb LOOPS of src/uint/cmp.rs (any limb count that is a usize) *)
Theorem C06_src_uint_order : forall n a b, length a = n -> length b = n -> usz n -> wf a -> wf b ->
  g_uint_lt n a b = choice_of_bool (eval a <? eval b) /\
  g_uint_gt n a b = choice_of_bool (eval b <? eval a) /\
  g_uint_lte n a b = choice_of_bool (eval a <=? eval b).
Proof. exact g_uint_order_spec. Qed.
Print Assumptions C06_src_uint_order.
Theorem C06_src_uint_eq : forall n a b, length a = n -> length b = n -> usz n -> wf a -> wf b ->
  g_uint_eq n a b = choice_of_bool (eval a =? eval b).
Proof. exact g_uint_eq_spec. Qed.
Print Assumptions C06_src_uint_eq.
Theorem C06_src_uint_select : forall n a b (c : bool), length a = n -> length b = n -> usz n -> wf a -> wf b ->
  g_uint_select n a b (choice_of_bool c) = spec_select c a b.
Proof. exact g_uint_select_spec. Qed.
Print Assumptions C06_src_uint_select.
Theorem C06_src_uint_is_nonzero : forall n a, length a = n -> usz n -> g_uint_is_nonzero n a = uint_is_nonzero a.
Proof. exact g_uint_is_nonzero_eq. Qed.
Print Assumptions C06_src_uint_is_nonzero.
Theorem C06_src_uint_is_odd : forall n a, g_uint_is_odd n a = uint_is_odd a.
Proof. exact g_uint_is_odd_eq. Qed.
Print Assumptions C06_src_uint_is_odd.

Example C06_src_loop_runs : g_uint_lt 2 [5; 1] [4; 2] = 2 ^ 64 - 1 /\ g_uint_eq 2 [5; 1] [5; 1] = 2 ^ 64 - 1 /\
  g_uint_select 2 [1; 2] [3; 4] (2 ^ 64 - 1) = [3; 4].
Proof. vm_compute. repeat split. Qed.

Example C06_src_runs : g_cc_from_word_lt 3 (2 ^ 63) = 2 ^ 64 - 1 /\ g_cc_from_word_lt (2 ^ 63) 3 = 0 /\
  g_cc_select_word (2 ^ 64 - 1) 5 9 = 9.
Proof. vm_compute. repeat split. Qed.

(** ---- the three-way comparison Uint::cmp (i8 arithmetic on the final borrow and the accumulated difference) *)
From CB Require Import Src.GenShift Src.GenCmp Src.GenCmpP.
Theorem C06_src_uint_cmp_model : forall n a b, length a = n -> length b = n -> usz n -> wf a -> wf b ->
  g_uint_cmp n a b = uint_cmp a b.
Proof. exact g_uint_cmp_eq. Qed.
Print Assumptions C06_src_uint_cmp_model.
Theorem C06_src_uint_cmp : forall n a b, length a = n -> length b = n -> usz n -> wf a -> wf b ->
  g_uint_cmp n a b = ordz (eval a) (eval b).
Proof. exact g_uint_cmp_spec. Qed.
Print Assumptions C06_src_uint_cmp.

Example C06_src_cmp_runs : g_uint_cmp 3 [5; 1; 7] [4; 2; 7] = -1 /\ g_uint_cmp 3 [5; 2; 7] [4; 2; 7] = 1 /\
  g_uint_cmp 3 [5; 2; 7] [5; 2; 7] = 0 /\ g_uint_cmp 2 [0; 2 ^ 63] [2 ^ 64 - 1; 2 ^ 63 - 1] = 1.
Proof. vm_compute. repeat split. Qed.

(** ---- the signed order of src/int/cmp.rs: Int::eq / lt / gt / cmp through invert_msb (xor with Int::SIGN_MASK = Int::MIN, which
    the source computes with its own shr / bitxor); n >= 1 limbs, 64 n < 2^32 (Uint::BITS is a u32) *)
From CB Require Import Src.GenDiv Src.GenMul Src.GenInt Src.GenDivLimb Src.GenBits Src.GenDivCt Src.GenIntDiv Src.GenIntCmp Src.GenIntCmpP.
Theorem C06_src_int_invert_msb : forall n a, length a = n -> isz n -> g_int_invert_msb n a = int_invert_msb a.
Proof. exact g_int_invert_msb_eq. Qed.
Print Assumptions C06_src_int_invert_msb.
Theorem C06_src_int_cmp_model : forall n a b, length a = n -> length b = n -> isz n -> wf a -> wf b ->
  g_int_lt n a b = int_lt a b /\ g_int_gt n a b = int_gt a b /\ g_int_cmp n a b = int_cmp a b /\ g_int_eq n a b = uint_eq a b.
Proof.
  intros. repeat split; [apply g_int_lt_eq | apply g_int_gt_eq | apply g_int_cmp_eq | apply g_int_eq_eq]; assumption.
Qed.
Print Assumptions C06_src_int_cmp_model.
Theorem C06_src_int_order : forall n a b, length a = n -> length b = n -> isz n -> wf a -> wf b ->
  g_int_eq n a b = choice_of_bool (seval a =? seval b) /\
  g_int_lt n a b = choice_of_bool (seval a <? seval b) /\
  g_int_gt n a b = choice_of_bool (seval b <? seval a) /\
  g_int_cmp n a b = ordz (seval a) (seval b).
Proof. exact g_int_order_spec. Qed.
Print Assumptions C06_src_int_order.

Example C06_src_int_cmp_runs :
  g_int_cmp 2 [5; 2 ^ 64 - 1] [4; 0] = -1 /\ g_int_cmp 2 [5; 0] [4; 2 ^ 63] = 1 /\ g_int_cmp 2 [7; 2 ^ 63] [7; 2 ^ 63] = 0 /\
  g_int_lt 2 [0; 2 ^ 63] [2 ^ 64 - 1; 2 ^ 63 - 1] = 2 ^ 64 - 1 /\ g_int_gt 2 [1; 0] [2 ^ 64 - 1; 2 ^ 64 - 1] = 2 ^ 64 - 1 /\
  g_int_eq 2 [1; 2] [1; 2] = 2 ^ 64 - 1.
Proof. vm_compute. repeat split. Qed.
