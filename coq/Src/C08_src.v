(** C08, translator tie: theorems about the Gallina text that tools/rs2v.py regenerates from /repo's CURRENT
    src/modular/reduction.rs (and src/limb/mul.rs, src/uint/sub_mod.rs) on every run (Src/GenMonty.v, Src/GenMod.v).
    Statements only; proofs in Src/GenMontyP.v.  Every statement is for ALL limb counts n (1 <= n, 2n a usize) and all limbs. *)
From CB Require Import Model.SrcPrelude Model.Word Model.Limbs Model.AddSub Model.Mul Model.ModArith Model.Monty.
From CB Require Import Src.GenPrim Src.GenUint Src.GenMod Src.GenShift Src.GenMul Src.GenMonty Src.GenMontyP.
From CB Require Import Proofs.WordP Proofs.LimbsP Proofs.MontyRedP.
From Coq Require Import ZArith List.
Import ListNotations.
Open Scope Z_scope.

(** Limb::wrapping_mul *)
Theorem C08_src_limb_wrapping_mul : forall a b, g_limb_wrapping_mul a b = wmul a b.
Proof. exact g_limb_wrapping_mul_eq. Qed.
Print Assumptions C08_src_limb_wrapping_mul.

(** Uint::sub_mod_with_carry: the source text denotes the model function *)
Theorem C08_src_sub_mod_with_carry : forall n a carry b p, length a = n -> length b = n -> length p = n -> Z.of_nat n < 2 ^ 64 ->
  wf a -> wf b -> wf p -> is_word carry ->
  g_uint_sub_mod_with_carry n a carry b p = sub_mod_with_carry a carry b p.
Proof. exact g_uint_sub_mod_with_carry_eq. Qed.
Print Assumptions C08_src_sub_mod_with_carry.

(** montgomery_reduction_inner (nested loops over the two `&mut [Limb]` buffers, meta-carry): the generated function returns
    (meta_carry, final upper, final lower); its first two components are the model's result *)
Theorem C08_src_reduction_inner : forall lower upper m k,
  length lower = length m -> length upper = length m -> 2 * Z.of_nat (length m) < 2 ^ 64 ->
  wf lower -> wf upper -> wf m -> is_word k ->
  let r := g_montgomery_reduction_inner upper lower m k in
  (snd (fst r), fst (fst r)) = montgomery_reduction_inner lower upper m k.
Proof. exact g_montgomery_reduction_inner_eq. Qed.
Print Assumptions C08_src_reduction_inner.

(** montgomery_reduction (the fixed-width wrapper with the final sub_mod_with_carry) *)
Theorem C08_src_montgomery_reduction : forall n lower upper m k,
  length lower = n -> length upper = n -> length m = n -> 2 * Z.of_nat n < 2 ^ 64 -> (1 <= n)%nat ->
  wf lower -> wf upper -> wf m -> is_word k ->
  g_montgomery_reduction n (lower, upper) m k = montgomery_reduction lower upper m k.
Proof. exact g_montgomery_reduction_eq. Qed.
Print Assumptions C08_src_montgomery_reduction.

(** hence for T = lower + R * upper < m * R (R = 2^(64 n), k = -m^-1 mod 2^64) the SOURCE routine returns the canonical
    representative of T * R^-1 mod m *)
Theorem C08_src_montgomery_reduction_correct : forall n lower upper m k,
  length lower = n -> length upper = n -> length m = n -> 2 * Z.of_nat n < 2 ^ 64 -> (1 <= n)%nat ->
  wf lower -> wf upper -> wf m -> is_word k -> (hd 0 m * k + 1) mod B = 0 ->
  eval lower + Bn n * eval upper < eval m * Bn n ->
  let r := g_montgomery_reduction n (lower, upper) m k in
  wf r /\ length r = n /\ 0 <= eval r < eval m /\
  (eval r * Bn n) mod eval m = (eval lower + Bn n * eval upper) mod eval m.
Proof. exact g_montgomery_reduction_correct. Qed.
Print Assumptions C08_src_montgomery_reduction_correct.

(** non-vacuity: the generated text runs on 3-limb inputs (m = 2^192 - 237 is odd, k = -m^-1 mod 2^64 from the model's
    constructor); the last input has the meta-carry set (upper = m - 1, lower = MAX) *)
Example C08_src_runs :
  let m := [2 ^ 64 - 237; 2 ^ 64 - 1; 2 ^ 64 - 1] in
  let k := mod_neg_inv_of m in
  (hd 0 m * k + 1) mod B = 0 /\
  g_montgomery_reduction 3 ([5; 7; 11], [1; 2; 3]) m k = montgomery_reduction [5; 7; 11] [1; 2; 3] m k /\
  (eval (g_montgomery_reduction 3 ([5; 7; 11], [1; 2; 3]) m k) * Bn 3) mod eval m = (eval [5; 7; 11] + Bn 3 * eval [1; 2; 3]) mod eval m /\
  g_montgomery_reduction 3 ([2 ^ 64 - 1; 2 ^ 64 - 1; 2 ^ 64 - 1], [2 ^ 64 - 238; 2 ^ 64 - 1; 2 ^ 64 - 1]) m k
    = montgomery_reduction [2 ^ 64 - 1; 2 ^ 64 - 1; 2 ^ 64 - 1] [2 ^ 64 - 238; 2 ^ 64 - 1; 2 ^ 64 - 1] m k /\
  fst (fst (g_montgomery_reduction_inner [2 ^ 64 - 238; 2 ^ 64 - 1; 2 ^ 64 - 1] [2 ^ 64 - 1; 2 ^ 64 - 1; 2 ^ 64 - 1] m k)) = 1.
Proof. vm_compute. repeat split. Qed.


(** ---- the almost-Montgomery multiplication of src/modular/boxed_monty_form/mul.rs (Src/GenAmm.v, proofs in Src/GenAmmP.v):
    every limb count n >= 1 (n a usize), all limb values.  The functions write through `z: &mut [Limb]`; a generated function
    returns the final contents of z (after its value, if it has one) ---- *)
From CB Require Import Src.GenUintP Src.GenAmm Src.GenAmmP Proofs.MontyAmmP.

(** add_mul_carry (z += x * y in place, carry returned) is one multiply-accumulate row of the model *)
Theorem C08_src_add_mul_carry : forall z x y, length x = length z -> usz (length z) -> wf z -> wf x -> is_word y ->
  g_add_mul_carry z x y = (snd (add_mul_carry z x y), fst (add_mul_carry z x y)).
Proof. exact g_add_mul_carry_eq. Qed.
Print Assumptions C08_src_add_mul_carry.

(** add_mul_carry_and_shift (`while i < n && i1 < n`: reads z[i], writes z[i - 1]) is the tail of the row; the last limb is
    left as it was (the caller overwrites it) *)
Theorem C08_src_add_mul_carry_and_shift : forall z x y, length x = length z -> (1 <= length z)%nat -> usz (length z) ->
  wf z -> wf x -> is_word y ->
  g_add_mul_carry_and_shift z x y = (snd (add_mul_carry_and_shift z x y), fst (add_mul_carry_and_shift z x y) ++ [last z 0]).
Proof. exact g_add_mul_carry_and_shift_eq. Qed.
Print Assumptions C08_src_add_mul_carry_and_shift.

Theorem C08_src_conditional_sub : forall z x c, length x = length z -> usz (length z) -> wf z -> wf x -> is_word c ->
  g_conditional_sub z x c = conditional_sub z x c.
Proof. exact g_conditional_sub_eq. Qed.
Print Assumptions C08_src_conditional_sub.

(** almost_montgomery_mul: the outer CIOS loop with the two-level carry (ts, ts1) started on ANY buffer z is the model loop
    over the limbs of y, followed by the conditional subtraction on overflow *)
Theorem C08_src_almost_montgomery_mul : forall z x y m k, length z = length m -> length x = length m -> length y = length m ->
  (1 <= length m)%nat -> usz (length m) -> wf z -> wf x -> wf y -> wf m -> is_word k ->
  g_almost_montgomery_mul z x y m k =
    conditional_sub (fst (amm_loop y z 0 x m k)) m (from_word_lsb (snd (amm_loop y z 0 x m k))).
Proof. exact g_almost_montgomery_mul_eq. Qed.
Print Assumptions C08_src_almost_montgomery_mul.

Theorem C08_src_almost_montgomery_mul_by_one : forall z x m k, length z = length m -> length x = length m ->
  (1 <= length m)%nat -> usz (length m) -> wf z -> wf x -> wf m -> is_word k ->
  g_almost_montgomery_mul_by_one z x m k =
    conditional_sub (fst (amm1_loop (length m) true z 0 x m k)) m (from_word_lsb (snd (amm1_loop (length m) true z 0 x m k))).
Proof. exact g_almost_montgomery_mul_by_one_eq. Qed.
Print Assumptions C08_src_almost_montgomery_mul_by_one.

(** hence on a zeroed buffer (as BoxedMontyMultiplier calls it) the SOURCE text satisfies the value equation
    R * (AMM + e m) = x y + U m with e in {0, 1}, stays below R = 2^(64 n), and the source's claim 1
    floor(AMM / m) <= min(floor(x / m), floor(y / m)) + 1 -- for every width, every odd m with k = -m^-1 mod 2^64, and
    operands that need NOT be reduced *)
Theorem C08_src_amm_correct : forall n x y m k, length x = n -> length y = n -> length m = n -> (1 <= n)%nat -> usz n ->
  wf x -> wf y -> wf m -> is_word k -> (hd 0 m * k + 1) mod B = 0 -> 0 < eval m ->
  let a := g_almost_montgomery_mul (zeros n) x y m k in
  wf a /\ length a = n /\ 0 <= eval a < Bn n /\
  (exists U e, 0 <= U < Bn n /\ 0 <= e <= 1 /\ Bn n * (eval a + e * eval m) = eval x * eval y + U * eval m) /\
  eval a / eval m <= Z.min (eval x / eval m) (eval y / eval m) + 1.
Proof. exact g_amm_correct. Qed.
Print Assumptions C08_src_amm_correct.

(** retrieve: AMM(x, 1) of a canonical x is canonical and is x * R^-1 mod m *)
Theorem C08_src_amm_by_one_reduced : forall n x m k, length x = n -> length m = n -> (1 <= n)%nat -> usz n ->
  wf x -> wf m -> is_word k -> (hd 0 m * k + 1) mod B = 0 -> eval x < eval m ->
  let a := g_almost_montgomery_mul_by_one (zeros n) x m k in
  wf a /\ length a = n /\ 0 <= eval a < eval m /\ (eval a * Bn n) mod eval m = eval x mod eval m.
Proof. exact g_amm_by_one_reduced. Qed.
Print Assumptions C08_src_amm_by_one_reduced.

(** non-vacuity: the generated loops run on 3-limb inputs (m = 2^192 - 159, k = -m^-1 mod 2^64): the products agree with
    x * y * R^-1 mod m and x * R^-1 mod m computed independently; the rows with every carry set *)
Example C08_src_amm_runs :
  let m := [2 ^ 64 - 159; 2 ^ 64 - 1; 2 ^ 64 - 1] in
  let k := 13109950190749555551 in
  (hd 0 m * k + 1) mod B = 0 /\
  g_almost_montgomery_mul [0; 0; 0] [5; 7; 11] [2 ^ 64 - 1; 2 ^ 64 - 2; 3] m k = [8237225341090428726; 232034516650434655; 0] /\
  (eval (g_almost_montgomery_mul [0; 0; 0] [5; 7; 11] [2 ^ 64 - 1; 2 ^ 64 - 2; 3] m k) * Bn 3) mod eval m
    = (eval [5; 7; 11] * eval [2 ^ 64 - 1; 2 ^ 64 - 2; 3]) mod eval m /\
  g_almost_montgomery_mul_by_one [0; 0; 0] [5; 7; 11] m k = [10209518732619122783; 8005190824439994097; 14386140032326945914] /\
  g_add_mul_carry [1; 2; 3] [2 ^ 64 - 1; 2 ^ 64 - 1; 2 ^ 64 - 1] (2 ^ 64 - 1) = (2 ^ 64 - 1, [2; 1; 3]) /\
  g_add_mul_carry_and_shift [1; 2; 3] [2 ^ 64 - 1; 2 ^ 64 - 1; 2 ^ 64 - 1] (2 ^ 64 - 1) = (2 ^ 64 - 1, [1; 3; 3]) /\
  g_conditional_sub [1; 2; 3] [2; 2; 2] (2 ^ 64 - 1) = [2 ^ 64 - 1; 2 ^ 64 - 1; 0].
Proof. vm_compute. repeat split. Qed.
