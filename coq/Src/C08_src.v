(** C08, translator tie: theorems about the Gallina text that tools/rs2v.py regenerates from /repo's CURRENT
    src/modular/reduction.rs (and src/limb/mul.rs, src/uint/sub_mod.rs) on every run (Src/GenMonty.v, Src/GenMod.v).
    Statements only; proofs in Src/GenMontyP.v.  Every statement is for ALL limb counts n (1 <= n, 2n a usize) and all limbs. *)
From CB Require Import Model.SrcPrelude Model.Word Model.Limbs Model.AddSub Model.Mul Model.ModArith Model.Monty.
From CB Require Import Src.GenPrim Src.GenUint Src.GenMod Src.GenShift Src.GenMul Src.GenMonty Src.GenMontyP.
From CB Require Import Proofs.WordP Proofs.LimbsP Proofs.MontyRedP.
From Coq Require Import ZArith List.
Import ListNotations.
Open Scope Z_scope.

(** Limb::wrapping_mul *)
Theorem C08_src_limb_wrapping_mul : forall a b, g_limb_wrapping_mul a b = wmul a b.
Proof. exact g_limb_wrapping_mul_eq. Qed.
Print Assumptions C08_src_limb_wrapping_mul.

(** Uint::sub_mod_with_carry: the source text denotes the model function *)
Theorem C08_src_sub_mod_with_carry : forall n a carry b p, length a = n -> length b = n -> length p = n -> Z.of_nat n < 2 ^ 64 ->
  wf a -> wf b -> wf p -> is_word carry ->
  g_uint_sub_mod_with_carry n a carry b p = sub_mod_with_carry a carry b p.
Proof. exact g_uint_sub_mod_with_carry_eq. Qed.
Print Assumptions C08_src_sub_mod_with_carry.

(** montgomery_reduction_inner (nested loops over the two `&mut [Limb]` buffers, meta-carry): the generated function returns
    (meta_carry, final upper, final lower); its first two components are the model's result *)
Theorem C08_src_reduction_inner : forall lower upper m k,
  length lower = length m -> length upper = length m -> 2 * Z.of_nat (length m) < 2 ^ 64 ->
  wf lower -> wf upper -> wf m -> is_word k ->
  let r := g_montgomery_reduction_inner upper lower m k in
  (snd (fst r), fst (fst r)) = montgomery_reduction_inner lower upper m k.
Proof. exact g_montgomery_reduction_inner_eq. Qed.
Print Assumptions C08_src_reduction_inner.

(** montgomery_reduction (the fixed-width wrapper with the final sub_mod_with_carry) *)
Theorem C08_src_montgomery_reduction : forall n lower upper m k,
  length lower = n -> length upper = n -> length m = n -> 2 * Z.of_nat n < 2 ^ 64 -> (1 <= n)%nat ->
  wf lower -> wf upper -> wf m -> is_word k ->
  g_montgomery_reduction n (lower, upper) m k = montgomery_reduction lower upper m k.
Proof. exact g_montgomery_reduction_eq. Qed.
Print Assumptions C08_src_montgomery_reduction.

(** hence for T = lower + R * upper < m * R (R = 2^(64 n), k = -m^-1 mod 2^64) the SOURCE routine returns the canonical
    representative of T * R^-1 mod m *)
Theorem C08_src_montgomery_reduction_correct : forall n lower upper m k,
  length lower = n -> length upper = n -> length m = n -> 2 * Z.of_nat n < 2 ^ 64 -> (1 <= n)%nat ->
  wf lower -> wf upper -> wf m -> is_word k -> (hd 0 m * k + 1) mod B = 0 ->
  eval lower + Bn n * eval upper < eval m * Bn n ->
  let r := g_montgomery_reduction n (lower, upper) m k in
  wf r /\ length r = n /\ 0 <= eval r < eval m /\
  (eval r * Bn n) mod eval m = (eval lower + Bn n * eval upper) mod eval m.
Proof. exact g_montgomery_reduction_correct. Qed.
Print Assumptions C08_src_montgomery_reduction_correct.

(** non-vacuity: the generated text runs on 3-limb inputs (m = 2^192 - 237 is odd, k = -m^-1 mod 2^64 from the model's
    constructor); the last input has the meta-carry set (upper = m - 1, lower = MAX) *)
Example C08_src_runs :
  let m := [2 ^ 64 - 237; 2 ^ 64 - 1; 2 ^ 64 - 1] in
  let k := mod_neg_inv_of m in
  (hd 0 m * k + 1) mod B = 0 /\
  g_montgomery_reduction 3 ([5; 7; 11], [1; 2; 3]) m k = montgomery_reduction [5; 7; 11] [1; 2; 3] m k /\
  (eval (g_montgomery_reduction 3 ([5; 7; 11], [1; 2; 3]) m k) * Bn 3) mod eval m = (eval [5; 7; 11] + Bn 3 * eval [1; 2; 3]) mod eval m /\
  g_montgomery_reduction 3 ([2 ^ 64 - 1; 2 ^ 64 - 1; 2 ^ 64 - 1], [2 ^ 64 - 238; 2 ^ 64 - 1; 2 ^ 64 - 1]) m k
    = montgomery_reduction [2 ^ 64 - 1; 2 ^ 64 - 1; 2 ^ 64 - 1] [2 ^ 64 - 238; 2 ^ 64 - 1; 2 ^ 64 - 1] m k /\
  fst (fst (g_montgomery_reduction_inner [2 ^ 64 - 238; 2 ^ 64 - 1; 2 ^ 64 - 1] [2 ^ 64 - 1; 2 ^ 64 - 1; 2 ^ 64 - 1] m k)) = 1.
Proof. vm_compute. repeat split. Qed.
