(** Translator tie, group Cmp: the three-way comparison Uint::cmp of /repo's CURRENT src/uint/cmp.rs (Src/GenCmp.v; i8
    arithmetic on the final borrow / the accumulated difference) equals uint_cmp of Model/Cmp.v for every limb count that is a
    usize and all limb values.  Hand-written. *)
From CB Require Import Model.SrcPrelude Model.Word Model.Limbs Model.AddSub Model.Cmp.
From CB Require Import Src.GenPrim Src.GenWidthP Src.GenPrimP Src.GenLoopP Src.GenUint Src.GenUintP Src.GenShift Src.GenCmp.
From CB Require Import Proofs.WordP Proofs.WordPredP Proofs.LimbsP Proofs.CmpP.
From Coq Require Import Lia List.
Import ListNotations.
Open Scope Z_scope.
Transparent B.

(* an accumulator of any type over two inputs *)
Lemma loop_acc2g {A} (g : A -> Z * Z -> A) a b c : length a = length b ->
  fold_left (fun acc j => g acc (nth j a 0, nth j b 0)) (seq 0 (length a)) c = fold_left g (combine a b) c.
Proof.
  assert (G : forall a b pa pb c, length a = length b -> length pa = length pb ->
    fold_left (fun acc j => g acc (nth j (pa ++ a) 0, nth j (pb ++ b) 0)) (seq (length pa) (length a)) c = fold_left g (combine a b) c).
  { clear. induction a as [|x a IH]; intros [|y b] pa pb c Hl Hp; try discriminate; [reflexivity|].
    cbn [length seq fold_left combine]. rewrite nth_middle, (nth_mid_eq pb y b _ (eq_sym Hp)).
    replace (pa ++ x :: a) with ((pa ++ [x]) ++ a) by (rewrite <- app_assoc; reflexivity).
    replace (pb ++ y :: b) with ((pb ++ [y]) ++ b) by (rewrite <- app_assoc; reflexivity).
    replace (S (length pa)) with (length (pa ++ [x])) by (rewrite app_length; cbn; lia).
    apply IH; [cbn in Hl; lia | rewrite !app_length; cbn; lia]. }
  intros Hl. exact (G a b [] [] c Hl eq_refl).
Qed.

Definition cmpstep (s : Z * Z) (p : Z * Z) : Z * Z :=
  let '(w, b) := g_limb_sbb (snd p) (fst p) (snd s) in (g_limb_bitor (fst s) w, b).

Lemma fold_cmp a : forall b d bo, wf a -> wf b -> length a = length b -> (bo = 0 \/ bo = MAXW) ->
  fold_left cmpstep (combine a b) (d, bo) = cmp_loop a b bo d /\
  (snd (cmp_loop a b bo d) = 0 \/ snd (cmp_loop a b bo d) = MAXW).
Proof.
  induction a as [|x a IH]; intros [|y b] d bo Wa Wb Hl Hbo; try discriminate.
  - cbn. auto.
  - inversion Wa; subst. inversion Wb; subst.
    assert (Wbo : is_word bo) by (destruct Hbo as [-> | ->]; [apply is_word_0' | apply is_word_MAXW]).
    cbn [combine fold_left cmp_loop]. unfold cmpstep at 2. cbn [fst snd].
    rewrite g_limb_sbb_eq by assumption. destruct (sbb y x bo) as [w b1] eqn:E.
    destruct (sbb_exact y x bo w b1) as [_ Hb1]; try assumption.
    assert (Hb1' : b1 = 0 \/ b1 = MAXW) by (destruct Hb1 as [[-> _]|[-> _]]; auto).
    apply IH; try assumption. cbn in Hl. lia.
Qed.

Lemma cmp_final diff bo : is_word diff -> (bo = 0 \/ bo = MAXW) ->
  smul_ 8 (swrap_ 8 (g_cc_to_u8 (g_limb_is_nonzero diff))) (ssub_ 8 (swrap_ 8 (Z.land bo 2)) 1)
  = to_choice (from_word_nonzero diff) * (wand bo 2 - 1).
Proof.
  intros Wd Hbo. rewrite g_limb_is_nonzero_eq.
  pose proof (g_nonzero_spec diff Wd) as E. change (g_cc_from_word_nonzero diff) with (from_word_nonzero diff) in E.
  rewrite E. destruct (negb (diff =? 0)); destruct Hbo as [-> | ->]; reflexivity.
Qed.

Lemma cmp_loop_diff_word a : forall b bo d, wf a -> wf b -> is_word bo -> is_word d -> is_word (fst (cmp_loop a b bo d)).
Proof.
  induction a as [|x a IH]; intros [|y b] bo d Wa Wb Wbo Wd; try exact Wd.
  inversion Wa; subst. inversion Wb; subst. cbn [cmp_loop].
  destruct (sbb y x bo) as [w b1] eqn:E. destruct (sbb_exact y x bo w b1) as [Ww Hb1]; try assumption.
  apply IH; try assumption.
  - destruct Hb1 as [[-> _]|[-> _]]; [apply is_word_0' | apply is_word_MAXW].
  - unfold wor, is_word in *. change B with (2 ^ 64) in *. split.
    + apply Z.lor_nonneg. lia.
    + destruct (Z.eq_dec (Z.lor d w) 0) as [->|Hnz]; [lia|].
      apply Z.log2_lt_pow2; [pose proof (Z.lor_nonneg d w); lia|]. rewrite Z.log2_lor by lia.
      apply Z.max_lub_lt.
      * destruct (Z.eq_dec d 0) as [->|]; [cbn; lia|]. apply Z.log2_lt_pow2; lia.
      * destruct (Z.eq_dec w 0) as [->|]; [cbn; lia|]. apply Z.log2_lt_pow2; lia.
Qed.

Lemma g_uint_cmp_eq n a b : length a = n -> length b = n -> usz n -> wf a -> wf b -> g_uint_cmp n a b = uint_cmp a b.
Proof.
  intros Ha Hb Hn Wa Wb. unfold g_uint_cmp, uint_cmp.
  rewrite (iter_idx3 _ (fun j (s : Z * Z) => cmpstep s (nth j a 0, nth j b 0))) by
    (first [exact Hn | intros i x y Hi; unfold cmpstep; cbn [fst snd]; destruct (g_limb_sbb _ _ _); reflexivity]).
  subst n. rewrite (loop_acc2g cmpstep a b (0, 0) (eq_sym Hb)).
  destruct (fold_cmp a b 0 0 Wa Wb (eq_sym Hb) (or_introl eq_refl)) as [E Hbo]. rewrite E.
  pose proof (cmp_loop_diff_word a b 0 0 Wa Wb is_word_0' is_word_0') as Wd.
  destruct (cmp_loop a b 0 0) as [diff bo]. cbn [fst snd] in *.
  apply cmp_final; assumption.
Qed.

Lemma g_uint_cmp_spec n a b : length a = n -> length b = n -> usz n -> wf a -> wf b ->
  g_uint_cmp n a b = ordz (eval a) (eval b).
Proof. intros Ha Hb Hn Wa Wb. rewrite g_uint_cmp_eq by assumption. apply uint_cmp_spec; try assumption. congruence. Qed.
