(** Translator tie, group MulMod: `Uint::double_mod` (src/uint/add_mod.rs), `mac_by_limb` and `Uint::mul_mod_special`
    (src/uint/mul_mod.rs), `mul_rem` (src/uint/div_limb.rs), `Uint::from_words` (src/uint.rs), `Uint::from_wide_word`
    (src/uint/from.rs), `NonZero<Limb>::new_unwrap` (src/non_zero.rs) as regenerated from /repo's CURRENT source
    (Src/GenMulMod.v) equal the models of Model/ModArith.v for every limb count and all limb values.
    `Uint::split_mul` (Karatsuba dispatch, macro-generated: outside the translated subset) is an EXTERN: the generated
    `g_uint_mul_mod_special` takes it as its first argument [xmul], exactly as the model [mul_mod_special] takes [mulf]; the
    equality holds for EVERY [xmul] whose result has the right shape, and the exactness theorem for every [xmul] that returns
    the double-width product ([split_mul_ok]).  The model returns None where `NonZero::new_unwrap` panics (c = 0 at one limb). *)
From CB Require Import Model.SrcPrelude Model.Word Model.Limbs Model.AddSub Model.Mul Model.Div Model.ModArith.
From CB Require Import Src.GenPrim Src.GenDiv Src.GenUint Src.GenMod Src.GenShift Src.GenMul Src.GenInt Src.GenDivLimb Src.GenMulMod.
From CB Require Import Src.GenWidthP Src.GenPrimP Src.GenDivP Src.GenLoopP Src.GenIterP Src.GenUintP Src.GenModP Src.GenShiftP Src.GenMulP
  Src.GenDivLimbP.
From CB Require Import Proofs.WordP Proofs.WordPredP Proofs.LimbsP Proofs.AddSubP Proofs.DivP Proofs.DivFinalP Proofs.ModArithP Proofs.SqrtLimbsP.
From Coq Require Import Lia List.
Import ListNotations.
Open Scope Z_scope.
Transparent B.

Local Lemma Bpos : 0 < B. Proof. reflexivity. Qed.
Local Lemma mul_words a b : is_word a -> is_word b -> 0 <= a * b <= (B - 1) * (B - 1).
Proof.
  unfold is_word. intros Ha Hb. split; [apply Z.mul_nonneg_nonneg; lia|]. apply Z.mul_le_mono_nonneg; lia.
Qed.

(* ---------------- Uint::double_mod *)
Lemma g_uint_double_mod_eq n a p : length a = n -> length p = n -> usz n -> wf a -> wf p ->
  g_uint_double_mod n a p = double_mod a p.
Proof.
  intros Ha Hp Hn Wa Wp. unfold g_uint_double_mod, double_mod, add_mod_tail.
  rewrite g_uint_overflowing_shl1_val by assumption.
  destruct (shl1_val a) as [w carry] eqn:E1.
  assert (Hw : wf w /\ length w = n /\ is_word carry).
  { unfold shl1_val in E1. apply pair_equal_spec in E1. destruct E1 as [<- <-]. rewrite Ha.
    split; [apply wf_to_limbs|]. split; [apply length_to_limbs|].
    pose proof (eval_bounds a Wa) as Hb. rewrite Ha in Hb. pose proof B_gt1. pose proof (Bn_pos n). unfold is_word. split.
    - apply Z.div_pos; lia.
    - apply Z.div_lt_upper_bound; [lia|]. assert (Bn n * 2 <= Bn n * B) by (apply Z.mul_le_mono_nonneg_l; lia). lia. }
  destruct Hw as (Ww & Lw & Wc).
  rewrite g_uint_sbb_eq by (try assumption; try lia; apply is_word_0').
  destruct (sbb_limbs w p 0) as [w1 borrow] eqn:E2.
  destruct (sbb_limbs_correct w p 0 w1 borrow Ww Wp ltac:(lia) is_word_0' E2) as [Ww1 [Lw1 Hb2]].
  assert (Wbo : is_word borrow).
  { destruct Hb2 as [[_ [-> _]]|[_ [Hbo _]]]; [apply is_word_0'|]. destruct Hbo as [->| ->]; [apply is_word_0'|apply is_word_MAXW]. }
  rewrite g_limb_sbb_eq by (try assumption; apply is_word_0').
  destruct (sbb carry 0 borrow) as [x mask] eqn:E3.
  assert (Wm : is_word mask).
  { destruct (sbb_exact carry 0 borrow x mask Wc is_word_0' Wbo E3) as [_ [[-> _]|[-> _]]]; [apply is_word_0'|apply is_word_MAXW]. }
  rewrite g_uint_bitand_limb_eq by assumption.
  rewrite g_uint_wrapping_add_eq; try assumption; try lia; [reflexivity| rewrite len_bitand; lia | apply wf_bitand; assumption].
Qed.

Lemma g_uint_double_mod_correct n a p : length a = n -> length p = n -> usz n -> wf a -> wf p -> eval a < eval p ->
  eval (g_uint_double_mod n a p) = (2 * eval a) mod eval p /\ wf (g_uint_double_mod n a p) /\ length (g_uint_double_mod n a p) = n.
Proof.
  intros Ha Hp Hn Wa Wp Hlt. rewrite g_uint_double_mod_eq by assumption. rewrite <- Ha.
  apply double_mod_correct; try assumption. lia.
Qed.

(* ---------------- Uint::from_words, from_wide_word, NonZero<Limb>::new_unwrap *)
Lemma g_uint_from_words_eq n a : length a = n -> usz n -> g_uint_from_words n a = a.
Proof.
  intros Ha Hn. unfold g_uint_from_words.
  rewrite (iter_idx _ (fun j (out : list Z) => upd_ out j ((fun x => x) (nth j a 0))))
    by (first [exact Hn | intros i s Hi; reflexivity]).
  subst n. rewrite (loop_map1 (fun x => x) a). apply map_id.
Qed.

Lemma g_uint_from_wide_word_eq n x : (2 <= n)%nat -> 0 <= x < 2 ^ 128 -> g_uint_from_wide_word n x = from_wide_word_n n x.
Proof.
  intros Hn Hx. unfold g_uint_from_wide_word, from_wide_word_n, resize, trunc_, shr_.
  destruct n as [|[|k]]; [lia|lia|]. change (2 ^ 64) with B.
  cbn [repeat Z.to_nat upd_ firstn skipn app]. unfold zeros. cbn [repeat firstn app].
  change (Pos.to_nat 1) with 1%nat. cbn [firstn skipn app].
  f_equal. f_equal; [apply Z.mod_small; change B with (2 ^ 64); split; [apply Z.div_pos; lia | apply Z.div_lt_upper_bound; lia]|].
  clear. induction k as [|k IH]; [reflexivity|]. cbn [repeat firstn]. f_equal. exact IH.
Qed.

Lemma g_nz_limb_new_unwrap_eq d : is_word d -> d <> 0 -> g_nz_limb_new_unwrap d = d.
Proof.
  intros Wd Hd. unfold g_nz_limb_new_unwrap. rewrite g_limb_is_nonzero_eq, from_word_nonzero_spec by assumption.
  rewrite g_cc_is_true_vartime_spec. destruct (Z.eqb_spec d 0); [contradiction|reflexivity].
Qed.

(* ---------------- mul_rem: Reciprocal::new, mulhilo, from_words([lo, hi]), rem_limb_with_reciprocal at two limbs *)
Lemma g_mul_rem_eq a b d : is_word a -> is_word b -> 0 < d < B ->
  g_mul_rem a b d = (let '(hi, lo) := mulhilo a b in rem_limb_with_reciprocal [lo; hi] (recip_new d)).
Proof.
  intros Wa Wb Hd. unfold g_mul_rem. rewrite g_Reciprocal_new_eq, g_mulhilo_eq by assumption.
  destruct (mulhilo a b) as [hi lo] eqn:E.
  assert (W : is_word hi /\ is_word lo).
  { unfold mulhilo in E. inversion E. pose proof (mul_words a b Wa Wb). pose proof Bpos. unfold is_word in *. split.
    - split; [apply Z.div_pos; lia | apply Z.div_lt_upper_bound; lia].
    - apply Z.mod_pos_bound. lia. }
  destruct W as [Whi Wlo].
  rewrite g_uint_from_words_eq by (first [reflexivity | unfold usz; cbn; lia]).
  apply g_rem_limb_with_reciprocal_eq; [reflexivity | lia | cbn; lia | | apply recip_for_words with (d := d); apply recip_new_correct; exact Hd].
  apply wf_cons. split; [assumption|]. apply wf_cons. split; [assumption|apply wf_nil].
Qed.

(* ---------------- mac_by_limb: the in-place loop over (i, a, carry) *)
Lemma fold_mac_inplace c : is_word c -> forall a b pa pb carry, wf a -> wf b -> is_word carry ->
  length a = length b -> length pa = length pb ->
  fold_left (fun (s : list Z * Z) j =>
      let '(t0, t1) := g_limb_mac (nth j (fst s) 0) (nth j (pb ++ b) 0) c (snd s) in (upd_ (fst s) j t0, t1))
    (seq (length pa) (length a)) (pa ++ a, carry)
  = (pa ++ fst (mac_by_limb a b c carry), snd (mac_by_limb a b c carry)).
Proof.
  intros Wc. induction a as [|x a IH]; intros b pa pb carry Wa Wb Wk Hl Hp.
  - destruct b; [|discriminate]. reflexivity.
  - destruct b as [|y b]; [discriminate|]. cbn [length seq fold_left fst snd mac_by_limb].
    apply wf_cons in Wa. destruct Wa as [Wx Wa]. apply wf_cons in Wb. destruct Wb as [Wy Wb].
    rewrite nth_middle. replace (nth (length pa) (pb ++ y :: b) 0) with y by (rewrite Hp; symmetry; apply nth_middle).
    rewrite g_limb_mac_eq by assumption.
    destruct (mac x y c carry) as [v cy] eqn:E.
    destruct (mac_exact x y c carry v cy Wx Wy Wc Wk E) as (_ & Wv & Wcy).
    rewrite upd_mid.
    replace (pa ++ v :: a) with ((pa ++ [v]) ++ a) by (rewrite <- app_assoc; reflexivity).
    replace (pb ++ y :: b) with ((pb ++ [y]) ++ b) by (rewrite <- app_assoc; reflexivity).
    replace (S (length pa)) with (length (pa ++ [v])) by (rewrite app_length; cbn; lia).
    rewrite (IH b (pa ++ [v]) (pb ++ [y]) cy Wa Wb Wcy ltac:(cbn in Hl; lia) ltac:(rewrite !app_length; cbn; lia)).
    destruct (mac_by_limb a b c cy) as [r cf]. cbn [fst snd]. rewrite <- app_assoc. reflexivity.
Qed.

Lemma g_mac_by_limb_eq n a b c carry : length a = n -> length b = n -> usz n -> wf a -> wf b -> is_word c -> is_word carry ->
  g_mac_by_limb n a b c carry = mac_by_limb a b c carry.
Proof.
  intros Ha Hb Hn Wa Wb Wc Wk. unfold g_mac_by_limb. cbv zeta.
  change (0, a, carry) with (enc3 0 (a, carry)).
  rewrite (iter_enc _ enc3 (fun j (s : list Z * Z) =>
             let '(t0, t1) := g_limb_mac (nth j (fst s) 0) (nth j b 0) c (snd s) in (upd_ (fst s) j t0, t1)))
    by (first [exact Hn | intros i [a0 k0] Hi; unfold enc3; cbn [fst snd];
               destruct (g_limb_mac (nth (Z.to_nat i) a0 0) (nth (Z.to_nat i) b 0) c k0); reflexivity]).
  subst n. pose proof (fold_mac_inplace c Wc a b [] [] carry Wa Wb Wk ltac:(lia) eq_refl) as H.
  cbn [app length] in H. rewrite H. unfold enc3. cbn [fst snd]. destruct (mac_by_limb a b c carry); reflexivity.
Qed.

(* ---------------- Uint::mul_mod_special, for EVERY implementation xmul of the extern Uint::split_mul *)
Definition xmul_shape (xmul : nat -> list Z -> list Z -> list Z * list Z) (n : nat) (a b : list Z) : Prop :=
  wf (fst (xmul n a b)) /\ wf (snd (xmul n a b)) /\ length (fst (xmul n a b)) = n /\ length (snd (xmul n a b)) = n.

Theorem g_uint_mul_mod_special_eq (xmul : nat -> list Z -> list Z -> list Z * list Z) dbg n a b c v :
  length a = n -> length b = n -> (1 <= n)%nat -> usz n -> wf a -> wf b -> is_word c ->
  ((2 <= n)%nat -> xmul_shape xmul n a b) ->
  mul_mod_special dbg (xmul n) a b c = Some v -> g_uint_mul_mod_special xmul n a b c = v.
Proof.
  intros Ha Hb H1 Hn Wa Wb Wc Hx E. unfold g_uint_mul_mod_special. unfold mul_mod_special in E. rewrite Ha in E.
  destruct (Nat.eqb_spec n 1) as [N1|N1].
  - (* one limb: mul_rem by 2^64 - c *)
    rewrite N1 in *. clear N1. replace (Z.of_nat 1 =? 1) with true by reflexivity.
    destruct a as [|x [|? ?]]; try discriminate Ha. destruct b as [|y [|? ?]]; try discriminate Hb.
    apply wf_cons in Wa. destruct Wa as [Wx _]. apply wf_cons in Wb. destruct Wb as [Wy _].
    unfold nthz in E. cbn [nth Z.to_nat] in *. change (sub_ 64 0 c) with (wsub 0 c).
    assert (Wd : is_word (wsub 0 c)) by (unfold wsub, wrap, is_word; apply Z.mod_pos_bound; pose proof Bpos; lia).
    destruct (Z.eqb_spec (wsub 0 c) 0) as [D0|D0]; [discriminate|].
    rewrite g_nz_limb_new_unwrap_eq by assumption.
    rewrite g_mul_rem_eq by (try assumption; unfold is_word in Wd; lia).
    destruct (mulhilo x y) as [hi lo]. inversion E. subst v.
    rewrite g_uint_from_word_eq by lia. reflexivity.
  - (* n >= 2: HAC 14.47 on the double-width product *)
    replace (Z.of_nat n =? 1) with false by (symmetry; apply Z.eqb_neq; lia).
    destruct (Hx ltac:(lia)) as (Wlo & Whi & Llo & Lhi).
    destruct (xmul n a b) as [lo hi]. cbn [fst snd] in *.
    rewrite g_mac_by_limb_eq by (try assumption; apply is_word_0').
    destruct (mac_by_limb lo hi c 0) as [lo1 k1] eqn:E1.
    destruct (mac_by_limb_correct lo hi c 0 lo1 k1 Wlo Whi ltac:(lia) Wc is_word_0' E1) as (_ & Wlo1 & Llo1 & Wk1).
    assert (Hw : add_ 128 k1 1 = k1 + 1).
    { unfold add_. apply Z.mod_small. unfold is_word in Wk1. change B with (2 ^ 64) in Wk1. lia. }
    assert (Hm : mul_ 128 (add_ 128 k1 1) c = (k1 + 1) * c).
    { rewrite Hw. unfold mul_. apply Z.mod_small. unfold is_word in *. change B with (2 ^ 64) in *.
      split; [apply Z.mul_nonneg_nonneg; lia|].
      assert ((k1 + 1) * c <= 2 ^ 64 * (2 ^ 64 - 1)) by (apply Z.mul_le_mono_nonneg; lia). lia. }
    rewrite Hm.
    assert (Hr : 0 <= (k1 + 1) * c < 2 ^ 128).
    { unfold is_word in *. change B with (2 ^ 64) in *. split; [apply Z.mul_nonneg_nonneg; lia|].
      assert ((k1 + 1) * c <= 2 ^ 64 * (2 ^ 64 - 1)) by (apply Z.mul_le_mono_nonneg; lia). lia. }
    rewrite g_uint_from_wide_word_eq by (try assumption; lia).
    assert (Wfw : wf (from_wide_word_n n ((k1 + 1) * c)) /\ length (from_wide_word_n n ((k1 + 1) * c)) = n).
    { destruct (eval_from_wide_word_n n ((k1 + 1) * c) ltac:(lia) ltac:(change (B * B) with (2 ^ 128); exact Hr)) as (_ & W & L). split; assumption. }
    destruct Wfw as [Wfw Lfw].
    assert (Llo1' : length lo1 = n) by lia.
    rewrite g_uint_adc_eq by (try assumption; try lia; apply is_word_0').
    destruct (adc_limbs lo1 (from_wide_word_n n ((k1 + 1) * c)) 0) as [lo2 k2] eqn:E2.
    destruct (adc_limbs_correct lo1 _ 0 lo2 k2 Wlo1 Wfw ltac:(lia) is_word_0' E2) as (_ & Wlo2 & Llo2 & Wk2 & _).
    change (sub_ 64 k2 1) with (wsub k2 1). change (Z.land (wsub k2 1) c) with (wand (wsub k2 1) c).
    rewrite g_uint_from_word_eq by lia.
    rewrite g_uint_sbb_eq; try assumption; try apply is_word_0'; [| lia | apply len_from_word | apply wf_from_word].
    + inversion E. destruct (sbb_limbs lo2 (from_word_n n (wand (wsub k2 1) c)) 0); reflexivity.
    + unfold wand. rewrite Z.land_comm. apply is_word_land. exact Wc.
Qed.

(* ---------------- composition with Proofs/ModArithP.v and the reciprocal theorem of C02: the SOURCE reduction is exact *)
Lemma recip_new_v d : r_v (recip_new d) = reciprocal (r_d (recip_new d)).
Proof. reflexivity. Qed.
Lemma recip_new_ok d : 0 < d < B -> recip_ok (r_d (recip_new d)) (reciprocal (r_d (recip_new d))).
Proof. intros Hd. destruct (recip_new_correct d Hd) as (_ & _ & _ & H). rewrite recip_new_v in H. exact H. Qed.

Theorem g_uint_mul_mod_special_exact (xmul : nat -> list Z -> list Z -> list Z * list Z) n a b c :
  length a = n -> length b = n -> (1 <= n)%nat -> usz n -> wf a -> wf b -> 1 <= c < B -> 0 < psp n c ->
  split_mul_ok (xmul n) a b ->
  let r := g_uint_mul_mod_special xmul n a b c in
  eval r = (eval a * eval b) mod psp n c /\ wf r /\ length r = n.
Proof.
  intros Ha Hb H1 Hn Wa Wb Hc Hp Hok. cbv zeta.
  destruct (mul_mod_special_all_widths_given_mul_recip false (xmul n) a b c Wa Wb ltac:(lia) Hc ltac:(rewrite Ha; exact Hp) Hok
              (recip_new_ok (B - c) ltac:(lia))) as (r & E & Er & Wr & Lr).
  rewrite (g_uint_mul_mod_special_eq xmul false n a b c r Ha Hb H1 Hn Wa Wb ltac:(unfold is_word; lia)); [| |exact E].
  - rewrite Ha in *. auto.
  - intros _. unfold xmul_shape. destruct (xmul n a b) as [lo hi] eqn:Ex. cbn [fst snd].
    destruct (Hok lo hi Ex) as (Wlo & Whi & Llo & Lhi & _). repeat split; try assumption; lia.
Qed.

(* an instance of the extern: the GENERATED schoolbook multiplication on zeroed buffers (what `uint_mul_limbs`, the target of
   `split_mul` at every width without a Karatsuba instance, runs) *)
Definition xmul_schoolbook (n : nat) (a b : list Z) : list Z * list Z := g_schoolbook_multiplication a b (zeros n) (zeros n).
Lemma xmul_schoolbook_ok n a b : length a = n -> length b = n -> 2 * Z.of_nat n < 2 ^ 64 -> wf a -> wf b ->
  split_mul_ok (xmul_schoolbook n) a b.
Proof.
  intros Ha Hb Hn Wa Wb lo hi E. unfold xmul_schoolbook in E.
  rewrite <- Ha in E at 1. rewrite <- Hb in E.
  destruct (g_schoolbook_exact a b lo hi ltac:(rewrite Ha, Hb; lia) Wa Wb E) as (Ev & Wlo & Whi & Llo & Lhi).
  repeat split; try assumption; lia.
Qed.
