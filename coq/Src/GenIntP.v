(** Translator tie, group Int: the signed-integer kernels of src/int/sign.rs, add.rs, sub.rs, neg.rs and the Uint / Limb
    helpers they call (src/uint.rs to_words, ONE; src/uint/from.rs from_u8; src/uint/bit_xor.rs; src/uint/neg.rs
    wrapping_neg, wrapping_neg_if; src/int.rs ONE) as regenerated from /repo's CURRENT source (Src/GenInt.v) equal the
    limb-level models of Model/IntArith.v for every limb count LIMBS < 2^64 and all limb values.
    `Int<LIMBS>` is a newtype over `Uint<LIMBS>`: both are the little-endian limb list. *)
From CB Require Import Model.SrcPrelude Model.Word Model.Limbs Model.AddSub Model.Cmp Model.IntArith.
From CB Require Import Src.GenPrim Src.GenUint Src.GenInt Src.GenWidthP Src.GenPrimP Src.GenLoopP Src.GenUintP.
From CB Require Import Proofs.WordP Proofs.LimbsP Proofs.AddSubP Proofs.IntArithP.
From Coq Require Import Lia List.
Import ListNotations.
Open Scope Z_scope.
Transparent B.

(* ---------------- Limb / Uint helpers *)
Lemma g_limb_bitxor_eq a b : g_limb_bitxor a b = wxor a b. Proof. reflexivity. Qed.

Lemma g_uint_bitxor_eq n a b : length a = n -> length b = n -> usz n ->
  g_uint_bitxor n a b = map (fun p => wxor (fst p) (snd p)) (combine a b).
Proof.
  intros Ha Hb Hn. unfold g_uint_bitxor.
  rewrite (iter_idx _ (fun j (out : list Z) => upd_ out j (g_limb_bitxor (nth j a 0) (nth j b 0))))
    by (first [exact Hn | intros i s Hi; reflexivity]).
  subst n. rewrite (loop_map2 g_limb_bitxor a b (eq_sym Hb)). reflexivity.
Qed.
Lemma xor_repeat_max a : map (fun p => wxor (fst p) (snd p)) (combine a (repeat (2 ^ 64 - 1) (length a))) = ux_xor_max a.
Proof. induction a as [|x a IH]; [reflexivity|]. cbn [length repeat combine map fst snd ux_xor_max]. rewrite IH. reflexivity. Qed.

Lemma g_uint_to_words_eq n a : length a = n -> usz n -> g_uint_to_words n a = a.
Proof.
  intros Ha Hn. unfold g_uint_to_words.
  rewrite (iter_idx _ (fun j (out : list Z) => upd_ out j ((fun x => x) (nth j a 0))))
    by (first [exact Hn | intros i s Hi; reflexivity]).
  subst n. rewrite (loop_map1 (fun x => x) a). apply map_id.
Qed.

Lemma g_uint_ONE_eq n : (1 <= n)%nat -> g_uint_ONE n = one_limbs n.
Proof. intros H. destruct n as [|k]; [lia|]. reflexivity. Qed.
Lemma g_int_ONE_eq n : (1 <= n)%nat -> g_int_ONE n = one_limbs n.
Proof. intros H. unfold g_int_ONE. apply g_uint_ONE_eq. exact H. Qed.

Lemma neg_limbs_len a : forall c, length (fst (neg_limbs a c)) = length a.
Proof.
  induction a as [|x a IH]; intros c; [reflexivity|]. cbn [neg_limbs].
  specialize (IH ((wnot x + c) / B)). destruct (neg_limbs a ((wnot x + c) / B)). cbn [fst length] in *. lia.
Qed.
Lemma g_uint_wrapping_neg_eq n a : length a = n -> usz n -> wf a -> g_uint_wrapping_neg n a = uint_wrapping_neg a.
Proof.
  intros Ha Hn Wa. unfold g_uint_wrapping_neg. rewrite g_uint_carrying_neg_eq by assumption.
  unfold uint_carrying_neg, uint_wrapping_neg. destruct (neg_limbs a 1); reflexivity.
Qed.
Lemma g_uint_wrapping_neg_if_eq n a c : length a = n -> usz n -> wf a -> g_uint_wrapping_neg_if n a c = uint_wrapping_neg_if a c.
Proof.
  intros Ha Hn Wa. unfold g_uint_wrapping_neg_if. rewrite g_uint_wrapping_neg_eq by assumption.
  rewrite g_uint_select_eq by (first [assumption | unfold uint_wrapping_neg; rewrite neg_limbs_len; assumption]).
  reflexivity.
Qed.

(* ---------------- src/int/sign.rs *)
Lemma nth_pred_last (a : list Z) : nth (length a - 1) a 0 = last a 0.
Proof.
  induction a as [|x a IH]; [reflexivity|]. destruct a as [|y a]; [reflexivity|].
  replace (length (x :: y :: a) - 1)%nat with (S (length (y :: a) - 1)) by (cbn [length]; lia).
  change (nth (S (length (y :: a) - 1)) (x :: y :: a) 0) with (nth (length (y :: a) - 1) (y :: a) 0).
  change (last (x :: y :: a) 0) with (last (y :: a) 0). exact IH.
Qed.
(** `if Self::LIMBS == 0 { Word::ZERO } else { self.0.to_words()[LIMBS - 1] }` *)
Lemma g_int_msw_eq n a : length a = n -> usz n -> g_int_most_significant_word n a = int_msw a.
Proof.
  intros Ha Hn. unfold g_int_most_significant_word, int_msw. rewrite g_uint_to_words_eq by assumption.
  destruct n as [|k].
  - destruct a; [reflexivity | discriminate].
  - replace (Z.of_nat (S k) =? 0) with false by (symmetry; apply Z.eqb_neq; lia).
    unfold usz in Hn. unfold sub_. rewrite Z.mod_small by lia.
    replace (Z.to_nat (Z.of_nat (S k) - 1)) with (length a - 1)%nat by lia. apply nth_pred_last.
Qed.
Lemma g_int_is_negative_eq n a : length a = n -> usz n -> g_int_is_negative n a = int_is_negative a.
Proof. intros. unfold g_int_is_negative, int_is_negative. rewrite g_int_msw_eq by assumption. reflexivity. Qed.

(* ---------------- src/int/add.rs, sub.rs *)
Lemma g_int_overflowing_add_eq n a b : length a = n -> length b = n -> usz n -> wf a -> wf b ->
  g_int_overflowing_add n a b = int_overflowing_add a b.
Proof.
  intros Ha Hb Hn Wa Wb. unfold g_int_overflowing_add, int_overflowing_add.
  rewrite g_uint_wrapping_add_eq by assumption.
  rewrite !g_int_is_negative_eq by (first [assumption | unfold uint_wrapping_add; rewrite adc_limbs_len; lia]).
  reflexivity.
Qed.
Lemma g_int_wrapping_add_eq n a b : length a = n -> length b = n -> usz n -> wf a -> wf b ->
  g_int_wrapping_add n a b = int_wrapping_add a b.
Proof. intros. unfold g_int_wrapping_add, int_wrapping_add. apply g_uint_wrapping_add_eq; assumption. Qed.
Lemma g_int_wrapping_sub_eq n a b : length a = n -> length b = n -> usz n -> wf a -> wf b ->
  g_int_wrapping_sub n a b = int_wrapping_sub a b.
Proof. intros. unfold g_int_wrapping_sub, int_wrapping_sub. apply g_uint_wrapping_sub_eq; assumption. Qed.

(* ---------------- src/int/neg.rs (Int::ONE needs LIMBS >= 1: `from_u8` asserts it) *)
Lemma wf_xor_max a : wf a -> wf (ux_xor_max a) /\ length (ux_xor_max a) = length a.
Proof.
  intros Wa. split; [|apply map_length]. rewrite ux_xor_max_spec by assumption. apply eval_map_wnot. assumption.
Qed.
Lemma g_int_overflowing_neg_eq n a : length a = n -> (1 <= n)%nat -> usz n -> wf a ->
  g_int_overflowing_neg n a = int_overflowing_neg a.
Proof.
  intros Ha H1 Hn Wa. subst n. unfold g_int_overflowing_neg, int_overflowing_neg.
  rewrite g_uint_bitxor_eq by (first [reflexivity | assumption | apply repeat_length]).
  rewrite xor_repeat_max. rewrite g_int_ONE_eq by assumption.
  destruct (wf_xor_max a Wa) as [Wx Lx]. destruct (one_limbs_spec (length a) ltac:(lia)) as (_ & W1 & L1).
  apply g_int_overflowing_add_eq; assumption.
Qed.
Lemma g_int_wrapping_neg_eq n a : length a = n -> (1 <= n)%nat -> usz n -> wf a -> g_int_wrapping_neg n a = int_wrapping_neg a.
Proof. intros. unfold g_int_wrapping_neg, int_wrapping_neg. rewrite g_int_overflowing_neg_eq by assumption. reflexivity. Qed.
Lemma g_int_wrapping_neg_if_eq n a c : length a = n -> usz n -> wf a -> g_int_wrapping_neg_if n a c = int_wrapping_neg_if a c.
Proof. intros. unfold g_int_wrapping_neg_if, int_wrapping_neg_if. apply g_uint_wrapping_neg_if_eq; assumption. Qed.

(* ---------------- abs_sign / abs *)
Lemma g_int_abs_sign_eq n a : length a = n -> usz n -> wf a -> g_int_abs_sign n a = int_abs_sign a.
Proof.
  intros. unfold g_int_abs_sign, int_abs_sign. rewrite g_int_is_negative_eq by assumption.
  rewrite g_int_wrapping_neg_if_eq by assumption. reflexivity.
Qed.
Lemma g_int_abs_eq n a : length a = n -> usz n -> wf a -> g_int_abs n a = int_abs a.
Proof. intros. unfold g_int_abs, int_abs. rewrite g_int_abs_sign_eq by assumption. reflexivity. Qed.

(* ---------------- composition with the specifications of Proofs/IntArithP.v: statements about the SOURCE text *)
Lemma g_int_is_negative_spec n a : length a = n -> usz n -> wf a -> g_int_is_negative n a = choice_of_bool (seval a <? 0).
Proof. intros. rewrite g_int_is_negative_eq by assumption. apply int_is_negative_spec. assumption. Qed.
Lemma g_int_overflowing_add_spec n a b : length a = n -> length b = n -> usz n -> wf a -> wf b ->
  g_int_overflowing_add n a b = (to_limbs_s n (seval a + seval b), choice_of_bool (negb (isp_fits n (seval a + seval b)))).
Proof.
  intros Ha Hb Hn Wa Wb. rewrite g_int_overflowing_add_eq by assumption. rewrite <- Ha.
  apply int_overflowing_add_spec; try assumption. lia.
Qed.
Lemma g_int_wrapping_sub_spec n a b : length a = n -> length b = n -> usz n -> wf a -> wf b ->
  g_int_wrapping_sub n a b = to_limbs_s n (seval a - seval b).
Proof.
  intros Ha Hb Hn Wa Wb. rewrite g_int_wrapping_sub_eq by assumption. rewrite <- Ha.
  apply int_wrapping_sub_spec; try assumption. lia.
Qed.
Lemma g_int_overflowing_neg_spec n a : length a = n -> (1 <= n)%nat -> usz n -> wf a ->
  g_int_overflowing_neg n a = (to_limbs_s n (- seval a), choice_of_bool (negb (isp_fits n (- seval a)))).
Proof.
  intros Ha H1 Hn Wa. rewrite g_int_overflowing_neg_eq by assumption. rewrite <- Ha. apply int_overflowing_neg_spec. assumption.
Qed.
Lemma g_int_wrapping_neg_if_spec n a (b : bool) : length a = n -> usz n -> wf a ->
  g_int_wrapping_neg_if n a (choice_of_bool b) = to_limbs_s n (if b then - seval a else seval a).
Proof.
  intros Ha Hn Wa. rewrite g_int_wrapping_neg_if_eq by assumption. rewrite <- Ha. apply int_wrapping_neg_if_spec. assumption.
Qed.
Lemma g_int_abs_sign_spec n a : length a = n -> usz n -> wf a ->
  g_int_abs_sign n a = (to_limbs n (Z.abs (seval a)), choice_of_bool (seval a <? 0)).
Proof.
  intros Ha Hn Wa. rewrite g_int_abs_sign_eq by assumption. rewrite <- Ha. apply int_abs_sign_spec. assumption.
Qed.
