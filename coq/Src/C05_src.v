(** C05, translator tie: the single-bit and sub-limb shifts of /repo's CURRENT src/limb/shl.rs, shr.rs, bit_or.rs,
    src/uint/shl.rs (overflowing_shl1, shl_limb, overflowing_shl_vartime) and src/uint/shr.rs (shr1_with_carry, shr1,
    overflowing_shr_vartime) with ConstCtOption::some / none and Uint::BITS (Src/GenShift.v, regenerated on every run by
    tools/rs2v.py) are the model recursions, hence exact for every limb count. Statements only; proofs in Src/GenShiftP.v. *)
From CB Require Import Model.SrcPrelude Model.Word Model.Limbs Model.Mul Model.ModArith Model.Sqrt Model.Div Model.Bits.
From CB Require Import Src.GenPrim Src.GenShift Src.GenShiftP Proofs.WordP Proofs.LimbsP.
From CB Require Import Model.DivL0 Src.GenUint Src.GenBits Src.GenBitsP.
From CB Require Import Src.GenUintP Src.GenMod Src.GenLogic Src.GenLogicP.
From Coq Require Import ZArith List.
Import ListNotations.
Open Scope Z_scope.

(* ---------------- Limb *)
Theorem C05_src_limb_shl1 : forall x, g_limb_shl1 x = (wshl x 1, x / 2 ^ 63).
Proof. exact g_limb_shl1_eq. Qed.
Print Assumptions C05_src_limb_shl1.
Theorem C05_src_limb_shr1 : forall x, g_limb_shr1 x = (wshr x 1, wshl x 63).
Proof. exact g_limb_shr1_eq. Qed.
Print Assumptions C05_src_limb_shr1.
Theorem C05_src_limb_shl : forall x s, g_limb_shl x s = wshl x s.
Proof. exact g_limb_shl_eq. Qed.
Print Assumptions C05_src_limb_shl.
Theorem C05_src_limb_shr : forall x s, g_limb_shr x s = wshr x s.
Proof. exact g_limb_shr_eq. Qed.
Print Assumptions C05_src_limb_shr.

(* ---------------- Uint::overflowing_shl1 *)
(** the upward loop is the limb-level doubling recursion of Model/Mul.v ... *)
Theorem C05_src_overflowing_shl1 : forall n a, length a = n -> Z.of_nat n < 2 ^ 64 -> g_uint_overflowing_shl1 n a = shl1_go a 0.
Proof. exact g_uint_overflowing_shl1_eq. Qed.
Print Assumptions C05_src_overflowing_shl1.
(** ... which is the value-level model used by double_mod (C07) *)
Theorem C05_src_overflowing_shl1_val : forall n a, length a = n -> Z.of_nat n < 2 ^ 64 -> wf a -> g_uint_overflowing_shl1 n a = shl1_val a.
Proof. exact g_uint_overflowing_shl1_val. Qed.
Print Assumptions C05_src_overflowing_shl1_val.
Theorem C05_src_overflowing_shl1_exact : forall n a w c, length a = n -> Z.of_nat n < 2 ^ 64 -> wf a ->
  g_uint_overflowing_shl1 n a = (w, c) -> eval w + Bn n * c = 2 * eval a /\ wf w /\ length w = n /\ 0 <= c <= 1.
Proof. exact g_uint_overflowing_shl1_exact. Qed.
Print Assumptions C05_src_overflowing_shl1_exact.

(* ---------------- Uint::shr1_with_carry / shr1 *)
(** the downward loop (`let mut i = LIMBS; while i > 0 { i -= 1; .. }`) is shr1_limbs; the returned choice is the bit shifted out *)
Theorem C05_src_shr1_with_carry : forall n a, length a = n -> Z.of_nat n < 2 ^ 64 -> wf a ->
  g_uint_shr1_with_carry n a = (shr1_limbs a, choice_of_bool (Z.odd (eval a))).
Proof. exact g_uint_shr1_with_carry_eq. Qed.
Print Assumptions C05_src_shr1_with_carry.
Theorem C05_src_shr1 : forall n a, length a = n -> Z.of_nat n < 2 ^ 64 -> g_uint_shr1 n a = shr1_limbs a.
Proof. exact g_uint_shr1_eq. Qed.
Print Assumptions C05_src_shr1.
Theorem C05_src_shr1_exact : forall n a, length a = n -> Z.of_nat n < 2 ^ 64 -> wf a ->
  eval (g_uint_shr1 n a) = eval a / 2 /\ wf (g_uint_shr1 n a) /\ length (g_uint_shr1 n a) = n.
Proof. exact g_uint_shr1_exact. Qed.
Print Assumptions C05_src_shr1_exact.

(* ---------------- Uint::shl_limb (0 <= shift < Limb::BITS; `self.limbs[LIMBS - 1]` needs LIMBS >= 1) *)
Theorem C05_src_shl_limb : forall n a s, length a = n -> (1 <= n)%nat -> Z.of_nat n < 2 ^ 64 -> wf a -> 0 <= s < 64 ->
  g_uint_shl_limb n a s = shl_limb a s.
Proof. exact g_uint_shl_limb_eq. Qed.
Print Assumptions C05_src_shl_limb.
Theorem C05_src_shl_limb_exact : forall n a s r c, length a = n -> (1 <= n)%nat -> Z.of_nat n < 2 ^ 64 -> wf a -> 0 <= s < 64 ->
  g_uint_shl_limb n a s = (r, c) -> eval r + Bn n * c = eval a * 2 ^ s /\ wf r /\ length r = n /\ 0 <= c < 2 ^ s.
Proof. exact g_uint_shl_limb_exact. Qed.
Print Assumptions C05_src_shl_limb_exact.

(* ---------------- Uint::overflowing_shl_vartime / overflowing_shr_vartime (the kernels under every Uint shift of C05) *)
(** BITS = 64 * LIMBS fits the u32 `Self::BITS` (as in every instantiation of the crate); shift is a u32.
    `if shift >= Self::BITS { return none }`, the offset limb copy, `if rem == 0 { return some }` and the in-place
    carry loop (upward for shl, `while i > 0 { i -= 1; .. }` for shr) are the model's firstn / skipn / shl_carry / shr_carry *)
Theorem C05_src_BITS : forall n, 64 * Z.of_nat n < 2 ^ 32 -> g_uint_BITS n = 64 * Z.of_nat n.
Proof. exact g_uint_BITS_eq. Qed.
Print Assumptions C05_src_BITS.
Theorem C05_src_shl_vartime : forall n a s, length a = n -> 64 * Z.of_nat n < 2 ^ 32 -> 0 <= s < 2 ^ 32 ->
  g_uint_overflowing_shl_vartime n a s = uint_overflowing_shl_vartime a s.
Proof. exact g_uint_overflowing_shl_vartime_eq. Qed.
Print Assumptions C05_src_shl_vartime.
Theorem C05_src_shr_vartime : forall n a s, length a = n -> 64 * Z.of_nat n < 2 ^ 32 -> 0 <= s < 2 ^ 32 ->
  g_uint_overflowing_shr_vartime n a s = uint_overflowing_shr_vartime a s.
Proof. exact g_uint_overflowing_shr_vartime_eq. Qed.
Print Assumptions C05_src_shr_vartime.
(** hence the SOURCE text shifts exactly: (value, is_some) with is_some = (shift < BITS) *)
Theorem C05_src_shl_vartime_exact : forall n a s, length a = n -> 64 * Z.of_nat n < 2 ^ 32 -> 0 <= s < 2 ^ 32 -> wf a ->
  let r := g_uint_overflowing_shl_vartime n a s in
  snd r = choice_of_bool (s <? 64 * Z.of_nat n) /\ wf (fst r) /\ length (fst r) = n /\
  eval (fst r) = if s <? 64 * Z.of_nat n then (eval a * 2 ^ s) mod Bn n else 0.
Proof. exact g_uint_overflowing_shl_vartime_exact. Qed.
Print Assumptions C05_src_shl_vartime_exact.
Theorem C05_src_shr_vartime_exact : forall n a s, length a = n -> 64 * Z.of_nat n < 2 ^ 32 -> 0 <= s < 2 ^ 32 -> wf a ->
  let r := g_uint_overflowing_shr_vartime n a s in
  snd r = choice_of_bool (s <? 64 * Z.of_nat n) /\ wf (fst r) /\ length (fst r) = n /\
  eval (fst r) = if s <? 64 * Z.of_nat n then eval a / 2 ^ s else 0.
Proof. exact g_uint_overflowing_shr_vartime_exact. Qed.
Print Assumptions C05_src_shr_vartime_exact.

Example C05_src_vartime_runs :
  g_uint_overflowing_shl_vartime 3 [2 ^ 63 + 1; 7; 2 ^ 64 - 1] 65 = ([0; 2; 15], 2 ^ 64 - 1) /\
  g_uint_overflowing_shl_vartime 3 [1; 2; 3] 128 = ([0; 0; 1], 2 ^ 64 - 1) /\
  g_uint_overflowing_shl_vartime 3 [1; 2; 3] 192 = ([0; 0; 0], 0) /\
  g_uint_overflowing_shr_vartime 3 [2 ^ 64 - 1; 7; 2 ^ 63 + 1] 65 = ([2 ^ 63 + 3; 2 ^ 62; 0], 2 ^ 64 - 1) /\
  g_uint_overflowing_shr_vartime 3 [1; 2; 3] 64 = ([2; 3; 0], 2 ^ 64 - 1) /\
  g_uint_overflowing_shr_vartime 2 [1; 2] 4000000000 = ([0; 0], 0).
Proof. vm_compute. repeat split. Qed.

(** non-vacuity: the generated functions run on multi-limb inputs *)
Example C05_src_runs :
  g_uint_overflowing_shl1 3 [2 ^ 63; 1; 2 ^ 64 - 1] = ([0; 3; 2 ^ 64 - 2], 1) /\
  g_uint_shr1_with_carry 3 [3; 1; 2 ^ 63] = ([2 ^ 63 + 1; 0; 2 ^ 62], 2 ^ 64 - 1) /\
  g_uint_shr1 2 [4; 6] = [2; 3] /\
  g_uint_shl_limb 3 [2 ^ 63 + 1; 0; 2 ^ 62] 2 = ([4; 2; 0], 1) /\
  g_uint_shl_limb 2 [5; 7] 0 = ([5; 7], 0).
Proof. vm_compute. repeat split. Qed.


(** ---- the constant-time shifts and the bit length (Src/GenBits.v, proofs in Src/GenBitsP.v): every limb count n >= 1 with
    64 n < 2^32 (Uint::BITS is a u32) ---- *)

(** leading_zeros (downward scan, u32 counter, ConstChoice flag) and Uint::bits are the limb-level models *)
Theorem C05_src_leading_zeros : forall ls, wf ls -> 64 * Z.of_nat (length ls) < 2 ^ 32 ->
  g_slice_leading_zeros ls = limbs_leading_zeros ls.
Proof. exact g_slice_leading_zeros_eq. Qed.
Print Assumptions C05_src_leading_zeros.

Theorem C05_src_bits_exact : forall n y, length y = n -> wf y -> 64 * Z.of_nat n < 2 ^ 32 ->
  g_uint_bits n y = (if eval y <=? 0 then 0 else Z.log2 (eval y) + 1).
Proof. exact g_uint_bits_exact. Qed.
Print Assumptions C05_src_bits_exact.

(** Uint::overflowing_shl / overflowing_shr: the ladder of log2(BITS) fixed shifts selected bit by bit. The model returns
    None where an inner `expect` of the source would panic; whenever it returns Some c the source text returns c *)
Theorem C05_src_overflowing_shl : forall n a s c, length a = n -> (1 <= n)%nat -> 64 * Z.of_nat n < 2 ^ 32 -> 0 <= s < 2 ^ 32 ->
  uint_overflowing_shl a s = Some c -> g_uint_overflowing_shl n a s = c.
Proof. exact g_uint_overflowing_shl_eq. Qed.
Print Assumptions C05_src_overflowing_shl.

Theorem C05_src_overflowing_shr : forall n a s c, length a = n -> (1 <= n)%nat -> 64 * Z.of_nat n < 2 ^ 32 -> 0 <= s < 2 ^ 32 ->
  uint_overflowing_shr a s = Some c -> g_uint_overflowing_shr n a s = c.
Proof. exact g_uint_overflowing_shr_eq. Qed.
Print Assumptions C05_src_overflowing_shr.

(** hence the SOURCE constant-time shifts are exact for EVERY u32 shift: is_some iff s < BITS, value (a * 2^s) mod 2^BITS
    resp. floor(a / 2^s) *)
Theorem C05_src_overflowing_shl_exact : forall n a s, length a = n -> (1 <= n)%nat -> 64 * Z.of_nat n < 2 ^ 32 -> 0 <= s < 2 ^ 32 -> wf a ->
  let r := g_uint_overflowing_shl n a s in
  snd r = choice_of_bool (s <? 64 * Z.of_nat n) /\ wf (fst r) /\ length (fst r) = n /\
  eval (fst r) = if s <? 64 * Z.of_nat n then (eval a * 2 ^ s) mod Bn n else 0.
Proof. exact g_uint_overflowing_shl_exact. Qed.
Print Assumptions C05_src_overflowing_shl_exact.

Theorem C05_src_overflowing_shr_exact : forall n a s, length a = n -> (1 <= n)%nat -> 64 * Z.of_nat n < 2 ^ 32 -> 0 <= s < 2 ^ 32 -> wf a ->
  let r := g_uint_overflowing_shr n a s in
  snd r = choice_of_bool (s <? 64 * Z.of_nat n) /\ wf (fst r) /\ length (fst r) = n /\
  eval (fst r) = if s <? 64 * Z.of_nat n then eval a / 2 ^ s else 0.
Proof. exact g_uint_overflowing_shr_exact. Qed.
Print Assumptions C05_src_overflowing_shr_exact.

(** Uint::shl / Uint::shr (the `expect` wrappers) *)
Theorem C05_src_shl : forall n a s v, length a = n -> (1 <= n)%nat -> 64 * Z.of_nat n < 2 ^ 32 -> 0 <= s < 2 ^ 32 ->
  l0_uint_shl a s = Some v -> g_uint_shl n a s = v.
Proof. exact g_uint_shl_eq. Qed.
Print Assumptions C05_src_shl.
Theorem C05_src_shr : forall n a s v, length a = n -> (1 <= n)%nat -> 64 * Z.of_nat n < 2 ^ 32 -> 0 <= s < 2 ^ 32 ->
  l0_uint_shr a s = Some v -> g_uint_shr n a s = v.
Proof. exact g_uint_shr_eq. Qed.
Print Assumptions C05_src_shr.

(* ---------------- limb-wise bitwise operators (Src/GenLogic.v: src/uint/bit_and.rs, bit_or.rs, bit_xor.rs, bit_not.rs) *)
(** Uint::bitand / bitor / not as regenerated (bitxor: Src/GenIntP.v) from the source are the model maps, and the represented integer
    is Z.land / Z.lor / the complement within the width, for every limb count *)
Theorem C05_src_bitand_exact : forall n a b, wf a -> wf b -> length a = n -> length b = n -> usz n ->
  wf (g_uint_bitand n a b) /\ length (g_uint_bitand n a b) = n /\ eval (g_uint_bitand n a b) = Z.land (eval a) (eval b).
Proof. exact g_uint_bitand_exact. Qed.
Print Assumptions C05_src_bitand_exact.
Theorem C05_src_bitor_exact : forall n a b, wf a -> wf b -> length a = n -> length b = n -> usz n ->
  wf (g_uint_bitor n a b) /\ length (g_uint_bitor n a b) = n /\ eval (g_uint_bitor n a b) = Z.lor (eval a) (eval b).
Proof. exact g_uint_bitor_exact. Qed.
Print Assumptions C05_src_bitor_exact.
Theorem C05_src_not_exact : forall n a, wf a -> length a = n -> usz n ->
  wf (g_uint_not n a) /\ length (g_uint_not n a) = n /\ eval (g_uint_not n a) = Bn n - 1 - eval a.
Proof. exact g_uint_not_exact. Qed.
Print Assumptions C05_src_not_exact.
Theorem C05_src_bitwise_model : forall n a b, length a = n -> length b = n -> usz n ->
  g_uint_bitand n a b = limbs_and a b /\ g_uint_bitor n a b = limbs_or a b /\
  g_uint_not n a = limbs_not a.
Proof. intros n a b Ha Hb Hn. repeat split; [apply g_uint_bitand_eq | apply g_uint_bitor_eq | apply g_uint_not_eq]; assumption. Qed.
Print Assumptions C05_src_bitwise_model.
Example C05_src_bitwise_runs :
  g_uint_bitand 2 [12; 2 ^ 64 - 1] [10; 2 ^ 63] = [8; 2 ^ 63] /\ g_uint_bitor 2 [12; 0] [10; 2 ^ 63] = [14; 2 ^ 63] /\
  g_uint_not 2 [0; 2 ^ 64 - 2] = [2 ^ 64 - 1; 1].
Proof. vm_compute. repeat split. Qed.

(** non-vacuity: the generated ladders and the bit length run on 3-limb inputs (shift 65 crosses a limb; 192 = BITS overflows) *)
Example C05_src_ct_runs :
  g_uint_overflowing_shl 3 [2 ^ 64 - 1; 1; 0] 65 = ([0; 2 ^ 64 - 2; 3], 2 ^ 64 - 1) /\
  g_uint_overflowing_shl 3 [1; 0; 0] 192 = ([0; 0; 0], 0) /\
  g_uint_overflowing_shr 3 [0; 2 ^ 64 - 2; 3] 65 = ([2 ^ 64 - 1; 1; 0], 2 ^ 64 - 1) /\
  g_uint_shl 3 [5; 0; 0] 130 = [0; 0; 20] /\
  g_uint_bits 3 [5; 0; 0] = 3 /\ g_uint_bits 3 [0; 8; 0] = 68 /\ g_uint_bits 3 [0; 0; 0] = 0 /\
  g_slice_leading_zeros [5; 0; 0] = 189.
Proof. vm_compute. repeat split. Qed.
