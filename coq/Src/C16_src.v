(** C16, translator tie: theorems about the Gallina text that tools/rs2v.py regenerates from /repo's CURRENT
    src/uint/encoding.rs (decode_nibble, decode_hex_byte) on every run (Src/GenHex.v). Statements only; proofs in Src/GenHexP.v. *)
From CB Require Import Model.SrcPrelude Model.Limbs Model.Conv Src.GenHex Src.GenHexP.
From CB Require Import Proofs.ConvHexP.
From Coq Require Import ZArith List.
Import ListNotations.
Open Scope Z_scope.

(** the source text of the i16 nibble decoder (two's complement wrap at every operation) denotes the model on every byte *)
Theorem C16_src_decode_nibble : forall c, 0 <= c < 256 -> g_decode_nibble c = decode_nibble c.
Proof. exact g_decode_nibble_eq. Qed.
Print Assumptions C16_src_decode_nibble.

Theorem C16_src_decode_hex_byte : forall c0 c1, 0 <= c0 < 256 -> 0 <= c1 < 256 ->
  g_decode_hex_byte [c0; c1] = decode_hex_byte c0 c1.
Proof. exact g_decode_hex_byte_eq. Qed.
Print Assumptions C16_src_decode_hex_byte.

(** hence the SOURCE decoder returns the digit for [0-9A-Fa-f] and 0xFFFF for every other byte *)
Theorem C16_src_decode_nibble_all_bytes : forall c, 0 <= c < 256 ->
  g_decode_nibble c = match hexval c with Some d => d | None => 65535 end.
Proof. exact g_decode_nibble_spec. Qed.
Print Assumptions C16_src_decode_nibble_all_bytes.

(** and the SOURCE byte decoder: error word 0 and byte 16 h + l exactly for two hex digits, error word > 0 otherwise *)
Theorem C16_src_decode_hex_byte_all_pairs : forall c0 c1 r e, 0 <= c0 < 256 -> 0 <= c1 < 256 ->
  g_decode_hex_byte [c0; c1] = (r, e) ->
  0 <= r < 256 /\
  match hexval c0, hexval c1 with
  | Some h, Some l => r = 16 * h + l /\ e = 0
  | _, _ => 0 < e
  end.
Proof. exact g_decode_hex_byte_spec. Qed.
Print Assumptions C16_src_decode_hex_byte_all_pairs.

(** non-vacuity: the generated text runs ('7' 'f' -> 0x7f, no error; 'g' is rejected; bytes next to the digit ranges) *)
Example C16_src_runs :
  g_decode_hex_byte [55; 102] = (127, 0) /\ g_decode_hex_byte [65; 48] = (160, 0) /\
  snd (g_decode_hex_byte [103; 48]) = 255 /\
  map g_decode_nibble [47; 48; 57; 58; 64; 65; 70; 71; 96; 97; 102; 103; 255] = [65535; 0; 9; 65535; 65535; 10; 15; 65535; 65535; 10; 15; 65535; 65535].
Proof. vm_compute. repeat split. Qed.

(* ================= byte / hex decoders and primitive constructors (Src/GenConv.v, proofs in Src/GenConvP.v) ================= *)
From CB Require Import Src.GenConv Src.GenConvP.
From CB Require Import Proofs.ConvDigitsP Proofs.ConvBytesP Proofs.ConvCopyP Proofs.LimbsP.

(** the source text of `Uint::from_be_slice` / `from_le_slice` (nested byte-copy loops, `Word::from_be_bytes` / `from_le_bytes`) is
    the model, for every limb count and every byte string of the length the source asserts (which fits a usize) *)
Theorem C16_src_from_be_slice_model : forall n bs, length bs = (8 * n)%nat -> Z.of_nat (8 * n) < 2 ^ 64 ->
  uint_from_be_slice n bs = Some (g_uint_from_be_slice n bs).
Proof. intros n bs L HB. unfold uint_from_be_slice. rewrite L, Nat.eqb_refl, g_uint_from_be_slice_eq by assumption. reflexivity. Qed.
Print Assumptions C16_src_from_be_slice_model.

Theorem C16_src_from_le_slice_model : forall n bs, length bs = (8 * n)%nat -> Z.of_nat (8 * n) < 2 ^ 64 ->
  uint_from_le_slice n bs = Some (g_uint_from_le_slice n bs).
Proof. intros n bs L HB. unfold uint_from_le_slice. rewrite L, Nat.eqb_refl, g_uint_from_le_slice_eq by assumption. reflexivity. Qed.
Print Assumptions C16_src_from_le_slice_model.

(** hence the SOURCE decoders return canonical limbs whose value is the positional big- / little-endian value of the bytes *)
Theorem C16_src_from_be_slice : forall n bs, wfd 256 bs -> length bs = (8 * n)%nat -> Z.of_nat (8 * n) < 2 ^ 64 ->
  wf (g_uint_from_be_slice n bs) /\ length (g_uint_from_be_slice n bs) = n /\
  eval (g_uint_from_be_slice n bs) = evalb 256 (rev bs).
Proof.
  intros n bs W L HB.
  destruct (from_be_slice_spec n bs _ W (C16_src_from_be_slice_model n bs L HB)) as (_ & H1 & H2 & H3). auto.
Qed.
Print Assumptions C16_src_from_be_slice.

Theorem C16_src_from_le_slice : forall n bs, wfd 256 bs -> length bs = (8 * n)%nat -> Z.of_nat (8 * n) < 2 ^ 64 ->
  wf (g_uint_from_le_slice n bs) /\ length (g_uint_from_le_slice n bs) = n /\
  eval (g_uint_from_le_slice n bs) = evalb 256 bs.
Proof.
  intros n bs W L HB.
  destruct (from_le_slice_spec n bs _ W (C16_src_from_le_slice_model n bs L HB)) as (_ & H1 & H2 & H3). auto.
Qed.
Print Assumptions C16_src_from_le_slice.

(** `Uint::from_be_hex` / `from_le_hex`: the translator drops `assert!(err == 0, "invalid hex byte")`; `g_be_hex_err` / `g_le_hex_err` is the
    accumulated error word of the SAME loop (Src/GenConvP.v restates the loop and the two theorems below check by reflexivity that
    its result component is the generated function) *)
Theorem C16_src_from_be_hex_loop : forall n cs,
  g_uint_from_be_hex n cs = (let '(_, _, _, res) := be_hex_loop n cs in res) /\
  g_be_hex_err n cs = (let '(_, err, _, _) := be_hex_loop n cs in err).
Proof. intros n cs. split; reflexivity. Qed.
Print Assumptions C16_src_from_be_hex_loop.

Theorem C16_src_from_le_hex_loop : forall n cs,
  g_uint_from_le_hex n cs = (let '(_, _, _, res) := le_hex_loop n cs in res) /\
  g_le_hex_err n cs = (let '(_, err, _, _) := le_hex_loop n cs in err).
Proof. intros n cs. split; reflexivity. Qed.
Print Assumptions C16_src_from_le_hex_loop.

(** source = model: limbs and error word *)
Theorem C16_src_from_be_hex_model : forall n cs, wfd 256 cs -> length cs = (16 * n)%nat -> Z.of_nat (16 * n) < 2 ^ 64 ->
  uint_from_be_hex n cs = if g_be_hex_err n cs =? 0 then HexOk (g_uint_from_be_hex n cs) else HexInvalid.
Proof. intros n cs W L HB. apply g_uint_from_be_hex_eq; assumption. Qed.
Print Assumptions C16_src_from_be_hex_model.

Theorem C16_src_from_le_hex_model : forall n cs, wfd 256 cs -> length cs = (16 * n)%nat -> Z.of_nat (16 * n) < 2 ^ 64 ->
  uint_from_le_hex n cs = if g_le_hex_err n cs =? 0 then HexOk (g_uint_from_le_hex n cs) else HexInvalid.
Proof. intros n cs W L HB. apply g_uint_from_le_hex_eq; assumption. Qed.
Print Assumptions C16_src_from_le_hex_model.

(** strictness: on a string of the asserted length 16 n, the asserted error word of the SOURCE is zero exactly when every character is a
    hex digit, and then the returned limbs are canonical and their value is the positional value of the digits *)
Theorem C16_src_from_be_hex_strict : forall n cs, wfd 256 cs -> length cs = (16 * n)%nat -> Z.of_nat (16 * n) < 2 ^ 64 ->
  (g_be_hex_err n cs = 0 <-> exists ds, hexvals cs = Some ds) /\
  (forall ds, hexvals cs = Some ds ->
     wf (g_uint_from_be_hex n cs) /\ length (g_uint_from_be_hex n cs) = n /\ eval (g_uint_from_be_hex n cs) = evalb 16 (rev ds)).
Proof.
  intros n cs W L HB. pose proof (from_be_hex_spec n cs W) as S. rewrite (g_uint_from_be_hex_eq n cs L HB W) in S.
  destruct (Z.eqb_spec (g_be_hex_err n cs) 0) as [E|E].
  - destruct S as (_ & ds & Hd & H1 & H2 & H3). split.
    + split; [intros _; exists ds; exact Hd | intros _; exact E].
    + intros ds' Hd'. rewrite Hd in Hd'. injection Hd' as <-. auto.
  - destruct S as (_ & Hn). split.
    + split; [intros E'; contradiction | intros [ds Hd]; rewrite Hd in Hn; discriminate].
    + intros ds Hd. rewrite Hd in Hn. discriminate.
Qed.
Print Assumptions C16_src_from_be_hex_strict.

Theorem C16_src_from_le_hex_strict : forall n cs, wfd 256 cs -> length cs = (16 * n)%nat -> Z.of_nat (16 * n) < 2 ^ 64 ->
  (g_le_hex_err n cs = 0 <-> exists ds, hexvals cs = Some ds) /\
  (forall ds, hexvals cs = Some ds ->
     wf (g_uint_from_le_hex n cs) /\ length (g_uint_from_le_hex n cs) = n /\ eval (g_uint_from_le_hex n cs) = evalb 256 (nib_pairs ds)).
Proof.
  intros n cs W L HB. pose proof (from_le_hex_spec n cs W) as S. rewrite (g_uint_from_le_hex_eq n cs L HB W) in S.
  destruct (Z.eqb_spec (g_le_hex_err n cs) 0) as [E|E].
  - destruct S as (_ & ds & Hd & H1 & H2 & H3). split.
    + split; [intros _; exists ds; exact Hd | intros _; exact E].
    + intros ds' Hd'. rewrite Hd in Hd'. injection Hd' as <-. auto.
  - destruct S as (_ & Hn). split.
    + split; [intros E'; contradiction | intros [ds Hd]; rewrite Hd in Hn; discriminate].
    + intros ds Hd. rewrite Hd in Hn. discriminate.
Qed.
Print Assumptions C16_src_from_le_hex_strict.

(** primitive constructors `from_u16 / from_u32 / from_u64` (the source asserts LIMBS >= 1): canonical limbs of value n *)
Theorem C16_src_from_u16 : forall n v, (1 <= n)%nat -> is_word v ->
  uint_from_small n v = Some (g_uint_from_u16 n v) /\
  wf (g_uint_from_u16 n v) /\ length (g_uint_from_u16 n v) = n /\ eval (g_uint_from_u16 n v) = v.
Proof.
  intros n v Hn Hv. destruct n as [|n]; [lia|]. split; [apply g_uint_from_u16_eq|].
  destruct (uint_from_small_spec (S n) v _ Hv (g_uint_from_u16_eq n v)) as (_ & H1 & H2 & H3). auto.
Qed.
Print Assumptions C16_src_from_u16.

Theorem C16_src_from_u32 : forall n v, (1 <= n)%nat -> is_word v ->
  uint_from_small n v = Some (g_uint_from_u32 n v) /\
  wf (g_uint_from_u32 n v) /\ length (g_uint_from_u32 n v) = n /\ eval (g_uint_from_u32 n v) = v.
Proof.
  intros n v Hn Hv. destruct n as [|n]; [lia|]. split; [apply g_uint_from_u32_eq|].
  destruct (uint_from_small_spec (S n) v _ Hv (g_uint_from_u32_eq n v)) as (_ & H1 & H2 & H3). auto.
Qed.
Print Assumptions C16_src_from_u32.

Theorem C16_src_from_u64 : forall n v, (1 <= n)%nat -> is_word v ->
  uint_from_small n v = Some (g_uint_from_u64 n v) /\
  wf (g_uint_from_u64 n v) /\ length (g_uint_from_u64 n v) = n /\ eval (g_uint_from_u64 n v) = v.
Proof.
  intros n v Hn Hv. destruct n as [|n]; [lia|]. split; [apply g_uint_from_u64_eq|].
  destruct (uint_from_small_spec (S n) v _ Hv (g_uint_from_u64_eq n v)) as (_ & H1 & H2 & H3). auto.
Qed.
Print Assumptions C16_src_from_u64.

(** non-vacuity: the generated decoders run (two limbs; "0123456789abcDEF00000000000000ff"; a 'g' makes the error word non-zero) *)
Example C16_src_conv_runs :
  g_uint_from_be_slice 2 [1; 2; 3; 4; 5; 6; 7; 8; 9; 10; 11; 12; 13; 14; 15; 16] = [651345242494996240; 72623859790382856] /\
  g_uint_from_le_slice 2 [1; 2; 3; 4; 5; 6; 7; 8; 9; 10; 11; 12; 13; 14; 15; 16] = [578437695752307201; 1157159078456920585] /\
  g_uint_from_be_hex 2 [48; 49; 50; 51; 52; 53; 54; 55; 56; 57; 97; 98; 99; 68; 69; 70; 48; 48; 48; 48; 48; 48; 48; 48; 48; 48; 48; 48; 48; 48; 102; 102] = [255; 81985529216486895] /\
  g_be_hex_err 2 [48; 49; 50; 51; 52; 53; 54; 55; 56; 57; 97; 98; 99; 68; 69; 70; 48; 48; 48; 48; 48; 48; 48; 48; 48; 48; 48; 48; 48; 48; 102; 102] = 0 /\
  g_uint_from_le_hex 2 [48; 49; 50; 51; 52; 53; 54; 55; 56; 57; 97; 98; 99; 68; 69; 70; 48; 48; 48; 48; 48; 48; 48; 48; 48; 48; 48; 48; 48; 48; 102; 102] = [17279655951921914625; 18374686479671623680] /\
  g_le_hex_err 2 [48; 49; 50; 51; 52; 53; 54; 55; 56; 57; 97; 98; 99; 68; 69; 70; 48; 48; 48; 48; 48; 48; 48; 48; 48; 48; 48; 48; 48; 48; 102; 102] = 0 /\
  g_be_hex_err 2 [48; 49; 50; 51; 52; 53; 54; 55; 56; 57; 97; 98; 99; 68; 69; 70; 48; 48; 48; 48; 48; 48; 48; 48; 48; 48; 48; 48; 48; 48; 102; 103] <> 0 /\ g_le_hex_err 2 [47; 49; 50; 51; 52; 53; 54; 55; 56; 57; 97; 98; 99; 68; 69; 70; 48; 48; 48; 48; 48; 48; 48; 48; 48; 48; 48; 48; 48; 48; 102; 102] <> 0 /\
  g_uint_from_u16 3 65535 = [65535; 0; 0] /\ g_uint_from_u32 1 7 = [7] /\ g_uint_from_u64 2 (2 ^ 64 - 1) = [18446744073709551615; 0].
Proof. vm_compute. repeat split; discriminate. Qed.

(** `Uint::from_u128` (lo / hi through `U64::from_u64`, two one-iteration copy loops; the source asserts LIMBS >= 2): canonical limbs of
    value n, for every limb count >= 2 *)
Theorem C16_src_from_u128 : forall n v, (2 <= n)%nat -> 0 <= v < 2 ^ 128 ->
  uint_from_u128 n v = Some (g_uint_from_u128 n v) /\
  wf (g_uint_from_u128 n v) /\ length (g_uint_from_u128 n v) = n /\ eval (g_uint_from_u128 n v) = v.
Proof.
  intros n v Hn Hv. destruct n as [|[|n]]; try lia. pose proof (g_uint_from_u128_eq n v Hv) as E. split; [exact E|].
  assert (Hv' : 0 <= v < Word.B * Word.B) by (change (Word.B * Word.B) with (2 ^ 128); exact Hv).
  destruct (uint_from_u128_spec (S (S n)) v _ Hv' E) as (_ & H1 & H2 & H3). auto.
Qed.
Print Assumptions C16_src_from_u128.

(** `Int::from_be_hex` is `Self(Uint::from_be_hex(hex))`: the same limbs (read as two's complement by Int), the same asserted error word *)
Theorem C16_src_int_from_be_hex : forall n cs ds, wfd 256 cs -> length cs = (16 * n)%nat -> Z.of_nat (16 * n) < 2 ^ 64 ->
  hexvals cs = Some ds ->
  g_int_from_be_hex n cs = g_uint_from_be_hex n cs /\ g_be_hex_err n cs = 0 /\
  wf (g_int_from_be_hex n cs) /\ length (g_int_from_be_hex n cs) = n /\ eval (g_int_from_be_hex n cs) = evalb 16 (rev ds).
Proof.
  intros n cs ds W L HB Hd. rewrite g_int_from_be_hex_eq. split; [reflexivity|].
  destruct (C16_src_from_be_hex_strict n cs W L HB) as [Hi Hv]. split; [apply Hi; exists ds; exact Hd|]. apply Hv. exact Hd.
Qed.
Print Assumptions C16_src_int_from_be_hex.

Example C16_src_conv_runs2 :
  g_uint_from_u128 3 (2 ^ 127 + 5) = [5; 2 ^ 63; 0] /\ g_uint_from_u128 2 (2 ^ 128 - 1) = [2 ^ 64 - 1; 2 ^ 64 - 1] /\
  g_int_from_be_hex 1 [102; 102; 102; 102; 102; 102; 102; 102; 102; 102; 102; 102; 102; 102; 102; 101] = [2 ^ 64 - 2].
Proof. vm_compute. repeat split. Qed.
