(** C16, translator tie: theorems about the Gallina text that tools/rs2v.py regenerates from /repo's CURRENT
    src/uint/encoding.rs (decode_nibble, decode_hex_byte) on every run (Src/GenHex.v). Statements only; proofs in Src/GenHexP.v. *)
From CB Require Import Model.SrcPrelude Model.Limbs Model.Conv Src.GenHex Src.GenHexP.
From CB Require Import Proofs.ConvHexP.
From Coq Require Import ZArith List.
Import ListNotations.
Open Scope Z_scope.

(** the source text of the i16 nibble decoder (two's complement wrap at every operation) denotes the model on every byte *)
Theorem C16_src_decode_nibble : forall c, 0 <= c < 256 -> g_decode_nibble c = decode_nibble c.
Proof. exact g_decode_nibble_eq. Qed.
Print Assumptions C16_src_decode_nibble.

Theorem C16_src_decode_hex_byte : forall c0 c1, 0 <= c0 < 256 -> 0 <= c1 < 256 ->
  g_decode_hex_byte [c0; c1] = decode_hex_byte c0 c1.
Proof. exact g_decode_hex_byte_eq. Qed.
Print Assumptions C16_src_decode_hex_byte.

(** hence the SOURCE decoder returns the digit for [0-9A-Fa-f] and 0xFFFF for every other byte *)
Theorem C16_src_decode_nibble_all_bytes : forall c, 0 <= c < 256 ->
  g_decode_nibble c = match hexval c with Some d => d | None => 65535 end.
Proof. exact g_decode_nibble_spec. Qed.
Print Assumptions C16_src_decode_nibble_all_bytes.

(** and the SOURCE byte decoder: error word 0 and byte 16 h + l exactly for two hex digits, error word > 0 otherwise *)
Theorem C16_src_decode_hex_byte_all_pairs : forall c0 c1 r e, 0 <= c0 < 256 -> 0 <= c1 < 256 ->
  g_decode_hex_byte [c0; c1] = (r, e) ->
  0 <= r < 256 /\
  match hexval c0, hexval c1 with
  | Some h, Some l => r = 16 * h + l /\ e = 0
  | _, _ => 0 < e
  end.
Proof. exact g_decode_hex_byte_spec. Qed.
Print Assumptions C16_src_decode_hex_byte_all_pairs.

(** non-vacuity: the generated text runs ('7' 'f' -> 0x7f, no error; 'g' is rejected; bytes next to the digit ranges) *)
Example C16_src_runs :
  g_decode_hex_byte [55; 102] = (127, 0) /\ g_decode_hex_byte [65; 48] = (160, 0) /\
  snd (g_decode_hex_byte [103; 48]) = 255 /\
  map g_decode_nibble [47; 48; 57; 58; 64; 65; 70; 71; 96; 97; 102; 103; 255] = [65535; 0; 9; 65535; 65535; 10; 15; 65535; 65535; 10; 15; 65535; 65535].
Proof. vm_compute. repeat split. Qed.
