(** C20, translator tie: theorems about the Gallina text that tools/rs2v.py regenerates from /repo's CURRENT
    src/uint/sqrt.rs (`Uint::sqrt`, `wrapping_sqrt`) and src/uint.rs (`Uint::LOG2_BITS`) on every run (Src/GenSqrt.v).
    The generated `sqrt` calls the generated `Uint::bits`, `overflowing_shl`, `ConstCtOption::expect`, `is_nonzero`, `select`,
    the constant-time long division `Uint::div_rem`, `wrapping_add`, `shr1` and `gt`.  Statements only; proofs in
    Src/GenSqrtP.v.  Every statement is for ALL limb counts n >= 1 with 64 n < 2^32 (`Uint::BITS` is a u32) and all limbs. *)
From CB Require Import Model.SrcPrelude Model.Word Model.Limbs Model.AddSub Model.Sqrt.
From CB Require Import Src.GenPrim Src.GenUint Src.GenShift Src.GenInt Src.GenBits Src.GenDivCt Src.GenSqrt Src.GenSqrtP.
From CB Require Import Proofs.WordP Proofs.LimbsP.
From Coq Require Import ZArith List.
Import ListNotations.
Open Scope Z_scope.

(** Uint::LOG2_BITS = u32::BITS - Self::BITS.leading_zeros() - 1 is floor(log2(64 n)) *)
Theorem C20_src_LOG2_BITS : forall n, (1 <= n)%nat -> 64 * Z.of_nat n < 2 ^ 32 -> g_uint_LOG2_BITS n = Z.log2 (64 * Z.of_nat n).
Proof. exact g_uint_LOG2_BITS_eq. Qed.
Print Assumptions C20_src_LOG2_BITS.

(** the source text of Uint::sqrt (initial estimate through bits / overflowing_shl / expect, LOG2_BITS + 2 Newton rounds with
    the zero-divisor select around the SOURCE's own div_rem, final select by gt) denotes the model: the model never panics
    and returns what the generated function returns *)
Theorem C20_src_sqrt : forall n a, length a = n -> (1 <= n)%nat -> 64 * Z.of_nat n < 2 ^ 32 -> wf a ->
  uint_sqrt a = SOk (g_uint_sqrt n a).
Proof. exact g_uint_sqrt_eq. Qed.
Print Assumptions C20_src_sqrt.

Theorem C20_src_wrapping_sqrt : forall n a, g_uint_wrapping_sqrt n a = g_uint_sqrt n a.
Proof. exact g_uint_wrapping_sqrt_eq. Qed.
Print Assumptions C20_src_wrapping_sqrt.

(** hence the SOURCE text returns floor(sqrt(a)) for every width and every input *)
Theorem C20_src_sqrt_exact : forall n a, length a = n -> (1 <= n)%nat -> 64 * Z.of_nat n < 2 ^ 32 -> wf a ->
  let r := g_uint_sqrt n a in
  wf r /\ length r = n /\ eval r = Z.sqrt (eval a) /\
  (0 <= eval r /\ eval r * eval r <= eval a < (eval r + 1) * (eval r + 1)).
Proof. exact g_uint_sqrt_exact. Qed.
Print Assumptions C20_src_sqrt_exact.

(** non-vacuity: the generated function runs on multi-limb inputs (the worst-case 192-bit input of the crate's own test
    (r+1)^2 - 583; a radicand one below a square at full width; the oscillating case t^2 + 2t; zero) *)
Example C20_src_sqrt_runs :
  g_uint_sqrt 3 [15850601984282720829; 1685072410847819194; 387207949610491688] = [3049934400608706081; 622260355; 0] /\
  g_uint_sqrt 2 [2 ^ 64 - 1; 2 ^ 64 - 1] = [2 ^ 64 - 1; 0] /\
  g_uint_sqrt 3 [24; 0; 0] = [4; 0; 0] /\
  g_uint_sqrt 2 [0; 0] = [0; 0] /\
  g_uint_wrapping_sqrt 1 [15] = [3] /\
  g_uint_LOG2_BITS 3 = 7.
Proof. vm_compute. repeat split. Qed.
