(** Translator tie, group SafeGcd: the word-level kernels of src/modular/safegcd.rs as regenerated from /repo's CURRENT
    source (Src/GenSafeGcd.v) -- inv_mod2_62, the 62-bit unsaturated integer UnsatInt (constants, is_negative, lowest, add,
    mul, neg, shr, eq, select), fg, de and the 62-divstep kernel jump -- equal the functions of Model/SafeGcd.v for every
    limb count LIMBS < 2^64 (a usize) and all 62-bit limb values.  Hand-written. *)
From CB Require Import Model.SrcPrelude Model.Word Model.Limbs Model.AddSub Model.Cmp Model.SafeGcd.
From CB Require Import Src.GenPrim Src.GenWidthP Src.GenPrimP Src.GenLoopP Src.GenIterP Src.GenUint Src.GenUintP Src.GenSafeGcd.
From CB Require Import Proofs.WordP Proofs.WordPredP Proofs.LimbsP Proofs.SafeGcdArithP Proofs.SafeGcdUnsatP Proofs.SafeGcdJumpP Proofs.SafeGcdDivstepsP.
From Coq Require Import Lia List.
Import ListNotations.
Open Scope Z_scope.
Transparent B.

(* ---------------- the u64 forms of the ConstChoice predicates: on a 64-bit target their text is that of the Word forms *)
Lemma g_cc_from_u64_lt_eq x y : g_cc_from_u64_lt x y = g_cc_from_word_lt x y. Proof. reflexivity. Qed.
Lemma g_cc_from_u64_gt_eq x y : g_cc_from_u64_gt x y = g_cc_from_word_gt x y. Proof. reflexivity. Qed.
Lemma g_cc_from_u64_eq_eq x y : g_cc_from_u64_eq x y = g_cc_from_word_eq x y. Proof. reflexivity. Qed.
Lemma g_cc_select_u64_eq c a b : g_cc_select_u64 c a b = g_cc_select_word c a b. Proof. reflexivity. Qed.

(* ---------------- constants *)
Lemma g_unsat_LIMB_BITS_eq n : g_unsat_LIMB_BITS n = 62. Proof. reflexivity. Qed.
Lemma g_unsat_MASK_eq n : g_unsat_MASK n = MASK62. Proof. reflexivity. Qed.
Lemma g_unsat_ZERO_eq n : g_unsat_ZERO n = u_zero n. Proof. reflexivity. Qed.
Lemma g_unsat_MINUS_ONE_eq n : g_unsat_MINUS_ONE n = u_minus_one n. Proof. reflexivity. Qed.
Lemma g_unsat_ONE_eq n : (1 <= n)%nat -> g_unsat_ONE n = u_one n.
Proof. destruct n as [|k]; [lia|]. intros _. reflexivity. Qed.

Lemma P62_lt_B : P62 < 2 ^ 64. Proof. reflexivity. Qed.
Lemma wf62_word x : 0 <= x < P62 -> is_word x.
Proof. intros H. unfold is_word. change B with (2 ^ 64). pose proof P62_lt_B. lia. Qed.
Lemma wf62_nth a k : wf62 a -> 0 <= nth k a 0 < P62.
Proof.
  intros W. destruct (Nat.lt_ge_cases k (length a)) as [Hk|Hk].
  - unfold wf62 in W. rewrite Forall_forall in W. apply W, nth_In, Hk.
  - rewrite nth_overflow by assumption. split; [lia | reflexivity].
Qed.
Lemma last_nth (a : list Z) : last a 0 = nth (length a - 1) a 0.
Proof.
  induction a as [|x [|y a] IH]; try reflexivity.
  change (last (x :: y :: a) 0) with (last (y :: a) 0). rewrite IH. cbn [length].
  replace (S (S (length a)) - 1)%nat with (S (length a)) by lia. replace (S (length a) - 1)%nat with (length a) by lia.
  reflexivity.
Qed.
Lemma idx_last n : (1 <= n)%nat -> usz n -> Z.to_nat (sub_ 64 (Z.of_nat n) 1) = (n - 1)%nat.
Proof. intros H U. unfold usz in U. unfold sub_. rewrite Z.mod_small by lia. lia. Qed.

(* ---------------- is_negative, lowest *)
Lemma g_unsat_is_negative_eq n a : length a = n -> (1 <= n)%nat -> usz n -> wf62 a ->
  g_unsat_is_negative n a = choice_of_bool (u_is_negative a).
Proof.
  intros Ha Hn U W. unfold g_unsat_is_negative, u_is_negative.
  rewrite idx_last by assumption. rewrite g_cc_from_u64_gt_eq, g_unsat_MASK_eq.
  rewrite g_gt_spec.
  - rewrite last_nth, Ha. reflexivity.
  - apply wf62_word, wf62_nth, W.
  - unfold is_word. change B with (2 ^ 64). vm_compute. split; [discriminate | reflexivity].
Qed.
Lemma g_unsat_lowest_eq n a : g_unsat_lowest n a = hd 0 a.
Proof. destruct a; reflexivity. Qed.

(* ---------------- add: the carry chain *)
Definition addstep (n : nat) (x y c : Z) : Z * Z :=
  (Z.land (add_ 64 (add_ 64 x y) c) (g_unsat_MASK n), shr_ (add_ 64 (add_ 64 x y) c) (g_unsat_LIMB_BITS n)).
Lemma zipacc_add n a : forall b c, wf62 a -> wf62 b -> 0 <= c <= 1 ->
  fst (zipacc (addstep n) a b c) = u_add_c a b c.
Proof.
  induction a as [|x a IH]; intros [|y b] c Wa Wb Hc; try reflexivity.
  apply wf62_cons in Wa. destruct Wa as [Hx Wa]. apply wf62_cons in Wb. destruct Wb as [Hy Wb].
  cbn [zipacc u_add_c]. unfold addstep at 1. rewrite g_unsat_MASK_eq, g_unsat_LIMB_BITS_eq.
  assert (E : add_ 64 (add_ 64 x y) c = x + y + c).
  { unfold add_. pose proof P62_lt_B. change (2 ^ 64) with (4 * P62) in *. rewrite (Z.mod_small (x + y)) by lia. apply Z.mod_small. lia. }
  rewrite E. unfold shr_. change (2 ^ 62) with P62.
  assert (Hc' : 0 <= (x + y + c) / P62 <= 1).
  { split; [apply Z.div_pos; pfacts; lia|]. apply Z.lt_succ_r. apply Z.div_lt_upper_bound; pfacts; lia. }
  specialize (IH b ((x + y + c) / P62) Wa Wb Hc').
  destruct (zipacc (addstep n) a b ((x + y + c) / P62)) as [r c2]. cbn [fst] in *. rewrite IH. reflexivity.
Qed.
Lemma g_unsat_add_eq n a b : length a = n -> length b = n -> usz n -> wf62 a -> wf62 b ->
  g_unsat_add n a b = u_add a b.
Proof.
  intros Ha Hb Hn Wa Wb. unfold g_unsat_add, u_add.
  rewrite (iter_idx3 _ (fun j (s : list Z * Z) =>
     let '(w, c') := addstep n (nth j a 0) (nth j b 0) (snd s) in (upd_ (fst s) j w, c'))) by
    (first [exact Hn | intros i x y Hi; reflexivity]).
  unfold g_unsat_ZERO. subst n. rewrite (loop_zipacc (addstep (length a)) a b 0 (eq_sym Hb)).
  apply zipacc_add; try assumption. lia.
Qed.

(* ---------------- mul by an i64 factor *)
Definition mulstep (n : nat) (mask other x c : Z) : Z * Z :=
  (Z.land (trunc_ 64 (add_ 128 c (mul_ 128 (Z.lxor x mask) (trunc_ 128 other)))) (g_unsat_MASK n),
   trunc_ 64 (shr_ (add_ 128 c (mul_ 128 (Z.lxor x mask) (trunc_ 128 other))) (g_unsat_LIMB_BITS n))).
Lemma mapacc_mul n mask other a : forall c, 0 <= other < P63 -> 0 <= c < P64 ->
  Forall (fun x => 0 <= Z.lxor x mask < P62) a ->
  fst (mapacc (mulstep n mask other) a c) = u_mul_c a other mask c.
Proof.
  intros c Ho. revert c. induction a as [|x a IH]; intros c Hc W; [reflexivity|].
  inversion W as [|? ? Hx Wa]; subst.
  cbn [mapacc u_mul_c]. unfold mulstep at 1. rewrite g_unsat_MASK_eq, g_unsat_LIMB_BITS_eq.
  set (xm := Z.lxor x mask) in *.
  assert (Hp : 0 <= xm * other <= P62 * P63).
  { split; [apply Z.mul_nonneg_nonneg; lia|]. apply Z.mul_le_mono_nonneg; lia. }
  assert (E : add_ 128 c (mul_ 128 xm (trunc_ 128 other)) = c + xm * other).
  { unfold add_, mul_, trunc_. rewrite (Z.mod_small other) by (unfold P63 in Ho; lia).
    unfold P62, P63, P64 in *. rewrite (Z.mod_small (xm * other)) by lia. apply Z.mod_small. lia. }
  rewrite E. unfold shr_, trunc_, u64. change (2 ^ 62) with P62. change (2 ^ 64) with P64.
  assert (Hc' : 0 <= ((c + xm * other) / P62) mod P64 < P64) by (apply Z.mod_pos_bound; reflexivity).
  specialize (IH _ Hc' Wa).
  destruct (mapacc (mulstep n mask other) a (((c + xm * other) / P62) mod P64)) as [r c2]. cbn [fst] in *.
  rewrite IH. reflexivity.
Qed.
Lemma s64_mod x : (s64 x) mod P64 = x mod P64.
Proof.
  unfold s64. rewrite Zminus_mod, Z.mod_mod by (unfold P64; lia). rewrite <- Zminus_mod.
  f_equal. lia.
Qed.
Lemma sneg_s64 c : sneg_ 64 c = s64 (- c). Proof. reflexivity. Qed.
Lemma g_unsat_mul_eq n a c : length a = n -> usz n -> wf62 a -> - P63 < c < P63 ->
  g_unsat_mul n a c = u_mul a c.
Proof.
  intros Ha Hn Wa Hc. unfold g_unsat_mul, u_mul.
  destruct (Z.ltb_spec c 0) as [Hneg|Hpos].
  - rewrite (iter_idx3 _ (fun j (s : list Z * Z) =>
       let '(w, c') := mulstep n (g_unsat_MASK n) (sneg_ 64 c) (nth j a 0) (snd s) in (upd_ (fst s) j w, c'))) by
      (first [exact Hn | intros i x y Hi; reflexivity]).
    unfold g_unsat_ZERO. subst n. rewrite (loop_mapacc (mulstep (length a) (g_unsat_MASK (length a)) (sneg_ 64 c)) a _).
    rewrite g_unsat_MASK_eq, sneg_s64.
    assert (Es : s64 (- c) = - c) by (apply s64_id; lia).
    assert (Eu : trunc_ 64 (s64 (- c)) = u64 (- c)) by (unfold trunc_, u64; change (2 ^ 64) with P64; apply s64_mod).
    rewrite Eu. apply mapacc_mul.
    + rewrite Es. lia.
    + unfold u64. apply Z.mod_pos_bound. reflexivity.
    + unfold wf62 in Wa. eapply Forall_impl; [|exact Wa]. cbn beta. intros x Hx.
      rewrite lxor_mask62 by assumption. unfold MASK62, P62 in *. lia.
  - rewrite (iter_idx3 _ (fun j (s : list Z * Z) =>
       let '(w, c') := mulstep n 0 c (nth j a 0) (snd s) in (upd_ (fst s) j w, c'))) by
      (first [exact Hn | intros i x y Hi; reflexivity]).
    unfold g_unsat_ZERO. subst n. rewrite (loop_mapacc (mulstep (length a) 0 c) a 0).
    apply mapacc_mul.
    + lia.
    + unfold P64. lia.
    + unfold wf62 in Wa. eapply Forall_impl; [|exact Wa]. cbn beta. intros x Hx. rewrite Z.lxor_0_r. exact Hx.
Qed.

(* ---------------- neg *)
Definition negstep (n : nat) (x c : Z) : Z * Z :=
  (Z.land (add_ 64 (Z.lxor x (g_unsat_MASK n)) c) (g_unsat_MASK n), shr_ (add_ 64 (Z.lxor x (g_unsat_MASK n)) c) (g_unsat_LIMB_BITS n)).
Lemma mapacc_neg n a : forall c, wf62 a -> 0 <= c <= 1 -> fst (mapacc (negstep n) a c) = u_neg_c a c.
Proof.
  induction a as [|x a IH]; intros c Wa Hc; [reflexivity|].
  apply wf62_cons in Wa. destruct Wa as [Hx Wa].
  cbn [mapacc u_neg_c]. unfold negstep at 1. rewrite g_unsat_MASK_eq, g_unsat_LIMB_BITS_eq.
  rewrite (lxor_mask62 x Hx).
  assert (E : add_ 64 (MASK62 - x) c = MASK62 - x + c).
  { unfold add_. apply Z.mod_small. unfold MASK62, P62 in *. lia. }
  rewrite E. unfold shr_. change (2 ^ 62) with P62.
  assert (Hc' : 0 <= (MASK62 - x + c) / P62 <= 1).
  { split; [apply Z.div_pos; unfold MASK62, P62 in *; lia|]. apply Z.lt_succ_r. apply Z.div_lt_upper_bound; unfold MASK62, P62 in *; lia. }
  specialize (IH _ Wa Hc').
  destruct (mapacc (negstep n) a ((MASK62 - x + c) / P62)) as [r c2]. cbn [fst] in *. rewrite IH. reflexivity.
Qed.
Lemma g_unsat_neg_eq n a : length a = n -> usz n -> wf62 a -> g_unsat_neg n a = u_neg a.
Proof.
  intros Ha Hn Wa. unfold g_unsat_neg, u_neg.
  rewrite (iter_idx3 _ (fun j (s : list Z * Z) =>
     let '(w, c') := negstep n (nth j a 0) (snd s) in (upd_ (fst s) j w, c'))) by
    (first [exact Hn | intros i x y Hi; reflexivity]).
  unfold g_unsat_ZERO. subst n. rewrite (loop_mapacc (negstep (length a)) a 1).
  apply mapacc_neg; [assumption | lia].
Qed.

(* ---------------- shr: the arithmetic shift by one limb *)
Lemma g_unsat_shr_eq n a : length a = n -> (1 <= n)%nat -> usz n -> wf62 a -> g_unsat_shr n a = u_shr a.
Proof.
  intros Ha Hn U W. unfold g_unsat_shr, u_shr.
  rewrite g_unsat_is_negative_eq by assumption. rewrite g_cc_select_u64_eq, g_unsat_MASK_eq.
  rewrite idx_last by assumption.
  unfold g_unsat_ZERO.
  destruct a as [|x r]; [cbn in Ha; lia|]. cbn [tl]. cbn [length] in Ha.
  assert (Hr : (n - 1)%nat = length r) by lia. rewrite Hr.
  assert (En : n = (length r + 1)%nat) by lia.
  set (v := if u_is_negative (x :: r) then MASK62 else 0).
  assert (Ev : g_cc_select_word (choice_of_bool (u_is_negative (x :: r))) (nth (length r) (repeat 0 n) 0) MASK62 = v).
  { rewrite g_select_spec.
    - unfold v. destruct (u_is_negative (x :: r)); [reflexivity|]. rewrite nth_repeat. reflexivity.
    - rewrite nth_repeat. unfold is_word. change B with (2 ^ 64). lia.
    - unfold is_word. change B with (2 ^ 64). vm_compute. split; [discriminate | reflexivity]. }
  rewrite Ev. clearbody v.
  assert (E0 : upd_ (repeat 0 n) (length r) v = repeat 0 (length r) ++ [v]).
  { rewrite En, repeat_app. cbn [repeat].
    pose proof (upd_mid (repeat 0 (length r)) 0 [] v) as M. rewrite repeat_length in M. exact M. }
  rewrite E0.
  assert (Ek : Z.to_nat (sub_ 64 (Z.of_nat n) 1 - 0) = length r).
  { unfold usz in U. unfold sub_. rewrite Z.mod_small by lia. lia. }
  rewrite Ek.
  rewrite (iter_idx _ (fun j (s : list Z) => upd_ s j (nth (Z.to_nat (add_ 64 (Z.of_nat j) 1)) (x :: r) 0))).
  - pose proof (fold_fill (fun j => nth (Z.to_nat (add_ 64 (Z.of_nat j) 1)) (x :: r) 0) r [] (repeat 0 (length r) ++ [v])) as F.
    cbn [length app] in F. rewrite F.
    + rewrite skipn_app, skipn_all2 by (rewrite repeat_length; lia). rewrite repeat_length, Nat.sub_diag. reflexivity.
    + rewrite app_length, repeat_length. lia.
    + intros k Hk. cbn [Nat.add]. unfold usz in U. unfold add_. rewrite Z.mod_small by lia.
      replace (Z.to_nat (Z.of_nat k + 1)) with (S k) by lia. reflexivity.
  - intros i s Hi. rewrite Z2Nat.id by assumption. reflexivity.
  - unfold usz in U. lia.
Qed.

(* ---------------- eq, select *)
Lemma choice_and_bool (c d : bool) : g_cc_and (choice_of_bool c) (choice_of_bool d) = choice_of_bool (c && d).
Proof. destruct c, d; reflexivity. Qed.
Lemma fold_eq a : forall b (c : bool), length a = length b -> wf62 a -> wf62 b ->
  fold_left (fun acc (p : Z * Z) => g_cc_and acc (g_cc_from_u64_eq (fst p) (snd p))) (combine a b) (choice_of_bool c)
  = choice_of_bool (c && list_eqb a b).
Proof.
  induction a as [|x a IH]; intros [|y b] c Hl Wa Wb; try discriminate.
  - cbn. rewrite andb_true_r. reflexivity.
  - apply wf62_cons in Wa. destruct Wa as [Hx Wa]. apply wf62_cons in Wb. destruct Wb as [Hy Wb].
    cbn [combine fold_left fst snd list_eqb]. rewrite g_cc_from_u64_eq_eq, g_eq_spec by (apply wf62_word; assumption).
    rewrite choice_and_bool, IH by (first [assumption | cbn in Hl; lia]). rewrite andb_assoc. reflexivity.
Qed.
Lemma g_unsat_eq_eq n a b : length a = n -> length b = n -> usz n -> wf62 a -> wf62 b ->
  g_unsat_eq n a b = choice_of_bool (u_eq a b).
Proof.
  intros Ha Hb Hn Wa Wb. unfold g_unsat_eq, u_eq.
  rewrite (iter_idx _ (fun j (acc : Z) => g_cc_and acc (g_cc_from_u64_eq (nth j a 0) (nth j b 0)))) by
    (first [exact Hn | intros i s Hi; reflexivity]).
  subst n.
  rewrite (loop_acc2 (fun acc (p : Z * Z) => g_cc_and acc (g_cc_from_u64_eq (fst p) (snd p))) a b _ (eq_sym Hb)).
  change (2 ^ 64 - 1) with (choice_of_bool true). rewrite fold_eq by (first [assumption | lia]). reflexivity.
Qed.
Lemma g_unsat_select_eq n a b (c : bool) : length a = n -> length b = n -> usz n -> wf62 a -> wf62 b ->
  g_unsat_select n a b (choice_of_bool c) = if c then b else a.
Proof.
  intros Ha Hb Hn Wa Wb. unfold g_unsat_select.
  rewrite (iter_idx _ (fun j (out : list Z) => upd_ out j (g_cc_select_u64 (choice_of_bool c) (nth j a 0) (nth j b 0)))) by
    (first [exact Hn | intros i s Hi; reflexivity]).
  unfold g_unsat_ZERO. subst n. rewrite (loop_map2 (fun x y => g_cc_select_u64 (choice_of_bool c) x y) a b (eq_sym Hb)).
  clear Hn. revert b Hb Wb. induction a as [|x a IH]; intros [|y b] Hb Wb; try discriminate.
  - destruct c; reflexivity.
  - apply wf62_cons in Wa. destruct Wa as [Hx Wa]. apply wf62_cons in Wb. destruct Wb as [Hy Wb].
    cbn [combine map fst snd]. rewrite g_cc_select_u64_eq, g_select_spec by (apply wf62_word; assumption).
    rewrite (IH Wa b) by (first [assumption | cbn in Hb; lia]). destruct c; reflexivity.
Qed.

(* ---------------- inv_mod2_62: the text of the model *)
Lemma g_inv_mod2_62_eq v : is_word (hd 0 v) -> g_inv_mod2_62 v = inv_mod2_62 (hd 0 v).
Proof.
  intros Hv. unfold g_inv_mod2_62, inv_mod2_62.
  replace (nth (Z.to_nat 0) v 0) with (hd 0 v) by (destruct v; reflexivity).
  set (x := hd 0 v) in *.
  change (shr_ (2 ^ 64 - 1) 2) with MASK62.
  unfold wmul, wadd, wsub, wxor, wrap, mul_, add_, sub_. change B with (2 ^ 64).
  cbv zeta.
  match goal with |- swrap_ 64 (Z.land ?a MASK62) = _ => set (y := a) end.
  assert (H : 0 <= Z.land y MASK62 < P62).
  { rewrite land_mask62. apply Z.mod_pos_bound. reflexivity. }
  unfold swrap_. change (2 ^ (64 - 1)) with P63. change (2 ^ 64) with P64.
  rewrite Z.mod_small by (unfold P62, P63, P64 in *; lia). lia.
Qed.

(* ---------------- a Matrix ([[i64; 2]; 2]) is the list of its two rows *)
Definition mat (t : matrix) : list (list Z) := let '(t00, t01, t10, t11) := t in [[t00; t01]; [t10; t11]].

Lemma mulW n a c : length a = n -> wf62 a -> - P63 < c < P63 -> wf62 (u_mul a c) /\ length (u_mul a c) = n.
Proof. intros L W H. destruct (u_mul_spec a c W H) as (W' & L' & _). split; [assumption | congruence]. Qed.
Lemma addW n a b : length a = n -> length b = n -> wf62 a -> wf62 b -> wf62 (u_add a b) /\ length (u_add a b) = n.
Proof. intros La Lb Wa Wb. destruct (u_add_spec a b Wa Wb ltac:(congruence)) as (W' & L' & _). split; [assumption | congruence]. Qed.

Lemma g_row2 n f g ta tb : length f = n -> length g = n -> (1 <= n)%nat -> usz n -> wf62 f -> wf62 g ->
  - P63 < ta < P63 -> - P63 < tb < P63 ->
  g_unsat_shr n (g_unsat_add n (g_unsat_mul n f ta) (g_unsat_mul n g tb)) = u_shr (u_add (u_mul f ta) (u_mul g tb)).
Proof.
  intros Hf Hg Hn U Wf Wg Ha Hb.
  destruct (mulW n f ta Hf Wf Ha) as (W1 & L1). destruct (mulW n g tb Hg Wg Hb) as (W2 & L2).
  destruct (addW n _ _ L1 L2 W1 W2) as (W3 & L3).
  rewrite !g_unsat_mul_eq by assumption. rewrite g_unsat_add_eq by assumption. apply g_unsat_shr_eq; assumption.
Qed.
Lemma g_row3 n m d e ta tb mm : length m = n -> length d = n -> length e = n -> (1 <= n)%nat -> usz n -> wf62 m -> wf62 d -> wf62 e ->
  - P63 < ta < P63 -> - P63 < tb < P63 -> - P63 < mm < P63 ->
  g_unsat_shr n (g_unsat_add n (g_unsat_add n (g_unsat_mul n d ta) (g_unsat_mul n e tb)) (g_unsat_mul n m mm))
  = u_shr (u_add (u_add (u_mul d ta) (u_mul e tb)) (u_mul m mm)).
Proof.
  intros Hm Hd He Hn U Wm Wd We Ha Hb Hc.
  destruct (mulW n d ta Hd Wd Ha) as (W1 & L1). destruct (mulW n e tb He We Hb) as (W2 & L2).
  destruct (mulW n m mm Hm Wm Hc) as (W4 & L4).
  destruct (addW n _ _ L1 L2 W1 W2) as (W3 & L3). destruct (addW n _ _ L3 L4 W3 W4) as (W5 & L5).
  rewrite !g_unsat_mul_eq by assumption. rewrite (g_unsat_add_eq n (u_mul d ta)) by assumption.
  rewrite g_unsat_add_eq by assumption. apply g_unsat_shr_eq; assumption.
Qed.

Definition tbound (t : matrix) : Prop :=
  let '(t00, t01, t10, t11) := t in Z.abs t00 + Z.abs t01 <= P62 /\ Z.abs t10 + Z.abs t11 <= P62.
Lemma P62_P63 : P62 < P63. Proof. reflexivity. Qed.

Lemma g_fg_eq n f g t : length f = n -> length g = n -> (1 <= n)%nat -> usz n -> wf62 f -> wf62 g -> tbound t ->
  g_fg n f g (mat t) = fg f g t.
Proof.
  destruct t as [[[t00 t01] t10] t11]. intros Hf Hg Hn U Wf Wg (R0 & R1). pose proof P62_P63.
  unfold g_fg, fg, mat. change (Z.to_nat 0) with 0%nat. change (Z.to_nat 1) with 1%nat. cbn [nth].
  rewrite !g_row2 by (first [assumption | lia]). reflexivity.
Qed.

(* the multiplier of the modulus: all of its arithmetic is modulo 2^64 / 2^62 *)
Definition g_de_m (inverse ta tb nd ne d0 e0 : Z) : Z :=
  let mask := swrap_ 64 MASK62 in
  let m0 := sadd_ 64 (smul_ 64 ta nd) (smul_ 64 tb ne) in
  let c := Z.land (sadd_ 64 (smul_ 64 ta (swrap_ 64 d0)) (smul_ 64 tb (swrap_ 64 e0))) mask in
  ssub_ 64 m0 (Z.land (sadd_ 64 (smul_ 64 inverse c) m0) mask).
Lemma swrap64 x : swrap_ 64 x = s64 x. Proof. reflexivity. Qed.
Lemma s64_cong x y : x mod P64 = y mod P64 -> s64 x = s64 y.
Proof.
  intros H. unfold s64. f_equal. rewrite <- (Zplus_mod_idemp_l x), <- (Zplus_mod_idemp_l y), H. reflexivity.
Qed.
Lemma s64_mod62 x : (s64 x) mod P62 = x mod P62.
Proof. rewrite <- (mod64_mod62 (s64 x)), s64_mod, mod64_mod62. reflexivity. Qed.
Lemma lin_mod64 a b c d : (s64 (a * b) + s64 (c * d)) mod P64 = (a * b + c * d) mod P64.
Proof. rewrite Zplus_mod, !s64_mod, <- Zplus_mod. reflexivity. Qed.
Lemma g_de_m_eq inverse ta tb nd ne d0 e0 : g_de_m inverse ta tb nd ne d0 e0 = de_m inverse ta tb nd ne d0 e0.
Proof.
  unfold g_de_m, de_m, sadd_, smul_, ssub_. cbv zeta.
  repeat match goal with |- context [swrap_ 64 ?x] => change (swrap_ 64 x) with (s64 x) end.
  rewrite (s64_id MASK62) by (unfold MASK62, P63; lia).
  assert (E0 : s64 (s64 (ta * nd) + s64 (tb * ne)) = s64 (ta * nd + tb * ne)) by (apply s64_cong, lin_mod64).
  rewrite E0. set (m0 := s64 (ta * nd + tb * ne)).
  rewrite !land_mask62. unfold u64. rewrite !mod64_mod62.
  assert (Ec : (s64 (s64 (ta * s64 d0) + s64 (tb * s64 e0))) mod P62 = (ta * d0 + tb * e0) mod P62).
  { rewrite s64_mod62. rewrite <- mod64_mod62, lin_mod64, mod64_mod62.
    rewrite Zplus_mod, (Zmult_mod ta), (Zmult_mod tb), !s64_mod62, <- !Zmult_mod, <- Zplus_mod. reflexivity. }
  rewrite Ec. set (c := (ta * d0 + tb * e0) mod P62).
  assert (Er : (s64 (s64 (inverse * c) + m0)) mod P62 = (inverse * c + m0) mod P62).
  { rewrite s64_mod62. rewrite Zplus_mod, s64_mod62, <- Zplus_mod. reflexivity. }
  rewrite Er. reflexivity.
Qed.
Lemma to_u8_bool (b : bool) : g_cc_to_u8 (choice_of_bool b) = if b then 1 else 0.
Proof. destruct b; reflexivity. Qed.

Lemma g_de_eq n m inverse t d e : length m = n -> length d = n -> length e = n -> (1 <= n)%nat -> usz n ->
  wf62 m -> wf62 d -> wf62 e -> tbound t ->
  g_de n m inverse (mat t) d e = de m inverse t d e.
Proof.
  destruct t as [[[t00 t01] t10] t11]. intros Hm Hd He Hn U Wm Wd We (R0 & R1). pose proof P62_P63.
  unfold g_de, de, mat. change (Z.to_nat 0) with 0%nat. change (Z.to_nat 1) with 1%nat. cbn [nth]. cbv zeta.
  rewrite !g_unsat_is_negative_eq by assumption. rewrite !to_u8_bool, !g_unsat_lowest_eq, g_unsat_MASK_eq.
  unfold CB.Model.Limbs.b2z.
  set (nd := if u_is_negative d then 1 else 0). set (ne := if u_is_negative e then 1 else 0).
  assert (Hnd : 0 <= nd <= 1) by (unfold nd; destruct (u_is_negative d); lia).
  assert (Hne : 0 <= ne <= 1) by (unfold ne; destruct (u_is_negative e); lia).
  change (ssub_ 64 (sadd_ 64 (smul_ 64 t00 nd) (smul_ 64 t01 ne))
            (Z.land (sadd_ 64 (smul_ 64 inverse (Z.land (sadd_ 64 (smul_ 64 t00 (swrap_ 64 (hd 0 d))) (smul_ 64 t01 (swrap_ 64 (hd 0 e)))) (swrap_ 64 MASK62)))
               (sadd_ 64 (smul_ 64 t00 nd) (smul_ 64 t01 ne))) (swrap_ 64 MASK62)))
    with (g_de_m inverse t00 t01 nd ne (hd 0 d) (hd 0 e)).
  change (ssub_ 64 (sadd_ 64 (smul_ 64 t10 nd) (smul_ 64 t11 ne))
            (Z.land (sadd_ 64 (smul_ 64 inverse (Z.land (sadd_ 64 (smul_ 64 t10 (swrap_ 64 (hd 0 d))) (smul_ 64 t11 (swrap_ 64 (hd 0 e)))) (swrap_ 64 MASK62)))
               (sadd_ 64 (smul_ 64 t10 nd) (smul_ 64 t11 ne))) (swrap_ 64 MASK62)))
    with (g_de_m inverse t10 t11 nd ne (hd 0 d) (hd 0 e)).
  rewrite !g_de_m_eq.
  destruct (de_m_spec inverse t00 t01 nd ne (hd 0 d) (hd 0 e) R0 Hnd Hne) as (E0 & B0 & A0).
  destruct (de_m_spec inverse t10 t11 nd ne (hd 0 d) (hd 0 e) R1 Hnd Hne) as (E1 & B1 & A1).
  cbv zeta in *.
  assert (M0 : - P63 < de_m inverse t00 t01 nd ne (hd 0 d) (hd 0 e) < P63) by (rewrite E0; unfold P62, P63 in *; lia).
  assert (M1 : - P63 < de_m inverse t10 t11 nd ne (hd 0 d) (hd 0 e) < P63) by (rewrite E1; unfold P62, P63 in *; lia).
  clear E0 E1 B0 B1 A0 A1.
  rewrite !g_row3 by (first [assumption | lia]). reflexivity.
Qed.
