(** Translator tie, group Amm: the almost-Montgomery multiplication of src/modular/boxed_monty_form/mul.rs
    (`add_mul_carry`, `add_mul_carry_and_shift`, `conditional_sub`, `almost_montgomery_mul`, `almost_montgomery_mul_by_one`, with
    `Limb::wrapping_add` of src/limb/add.rs) as regenerated from /repo's CURRENT source (Src/GenAmm.v) equals the models
    [add_mul_carry] / [add_mul_carry_and_shift] / [conditional_sub] / [amm_loop] / [amm1_loop] of Model/Monty.v, for every limb
    count n >= 1 (n a usize) and all limb values.
    The functions write through `z: &mut [Limb]`: a generated function returns the final contents of z (after its value, if it
    has one).  Loops: the in-place multiply-accumulate row over (i, z, c) = [mac_by_limb]; the SHIFTING row
    `while i < n && i1 < n { (z[i1], c) = z[i].mac(..); i += 1; i1 += 1 }` over (i, i1, z, c), which reads one limb ahead of
    where it writes = the tail of a [mac_by_limb] row, the last limb left untouched; the masked subtraction over
    (i, z, borrow) = [sbb_limbs] against [bitand_limb]; the outer CIOS loop over (i, z, ts) = [amm_loop] on the limbs of y
    (resp. [amm1_loop] with its `if i == 0` first round). *)
From CB Require Import Model.SrcPrelude Model.Word Model.Limbs Model.AddSub Model.Mul Model.Div Model.ModArith Model.Monty.
From CB Require Import Src.GenPrim Src.GenUint Src.GenShift Src.GenMul Src.GenMonty Src.GenAmm.
From CB Require Import Src.GenWidthP Src.GenPrimP Src.GenLoopP Src.GenIterP Src.GenUintP Src.GenModP Src.GenMulP Src.GenMontyP.
From CB Require Import Proofs.WordP Proofs.WordPredP Proofs.LimbsP Proofs.AddSubP Proofs.ModArithP Proofs.MontyRedP Proofs.MontyAmmP.
From Coq Require Import Lia List.
Import ListNotations.
Open Scope Z_scope.
Transparent B.

(* ---------------- generic: in-place loops over a buffer, reading a second list, threading a carry *)
Lemma fold_zipacc_inplace (f : Z -> Z -> Z -> Z * Z) : forall a b pa pb c, length a = length b -> length pa = length pb ->
  fold_left (fun (s : list Z * Z) j => let '(w, c') := f (nth j (fst s) 0) (nth j (pb ++ b) 0) (snd s) in (upd_ (fst s) j w, c'))
    (seq (length pa) (length a)) (pa ++ a, c)
  = (pa ++ fst (zipacc f a b c), snd (zipacc f a b c)).
Proof.
  induction a as [|x a IH]; intros b pa pb c Hl Hp.
  - destruct b; [|discriminate]. cbn [length seq fold_left zipacc fst snd]. reflexivity.
  - destruct b as [|y b]; [discriminate|]. cbn [length seq fold_left fst snd zipacc].
    rewrite nth_middle. replace (nth (length pa) (pb ++ y :: b) 0) with y by (rewrite Hp; symmetry; apply nth_middle).
    destruct (f x y c) as [w c1] eqn:E. rewrite upd_mid.
    replace (pa ++ w :: a) with ((pa ++ [w]) ++ a) by (rewrite <- app_assoc; reflexivity).
    replace (pb ++ y :: b) with ((pb ++ [y]) ++ b) by (rewrite <- app_assoc; reflexivity).
    replace (S (length pa)) with (length (pa ++ [w])) by (rewrite app_length; cbn; lia).
    rewrite (IH b (pa ++ [w]) (pb ++ [y]) c1 ltac:(cbn in Hl; lia) ltac:(rewrite !app_length; cbn; lia)).
    destruct (zipacc f a b c1) as [r c2]. cbn [fst snd]. rewrite <- app_assoc. reflexivity.
Qed.

(* the shifting variant: reads index j + 1, writes index j; u is the slot that has been read already *)
Lemma fold_shift_inplace (f : Z -> Z -> Z -> Z * Z) : forall a b pre px u c, length a = length b -> length px = S (length pre) ->
  fold_left (fun (s : list Z * Z) j =>
      let '(w, c') := f (nth (S j) (fst s) 0) (nth (S j) (px ++ b) 0) (snd s) in (upd_ (fst s) j w, c'))
    (seq (length pre) (length a)) (pre ++ u :: a, c)
  = (pre ++ fst (zipacc f a b c) ++ [last (u :: a) 0], snd (zipacc f a b c)).
Proof.
  induction a as [|x a IH]; intros b pre px u c Hl Hp.
  - destruct b; [|discriminate]. reflexivity.
  - destruct b as [|y b]; [discriminate|]. cbn [length seq fold_left fst snd zipacc].
    replace (nth (S (length pre)) (pre ++ u :: x :: a) 0) with x.
    2:{ replace (pre ++ u :: x :: a) with ((pre ++ [u]) ++ x :: a) by (rewrite <- app_assoc; reflexivity).
        replace (S (length pre)) with (length (pre ++ [u])) by (rewrite app_length; cbn; lia). symmetry. apply nth_middle. }
    replace (nth (S (length pre)) (px ++ y :: b) 0) with y by (rewrite <- Hp; symmetry; apply nth_middle).
    destruct (f x y c) as [w c1] eqn:E. rewrite upd_mid.
    replace (pre ++ w :: x :: a) with ((pre ++ [w]) ++ x :: a) by (rewrite <- app_assoc; reflexivity).
    replace (px ++ y :: b) with ((px ++ [y]) ++ b) by (rewrite <- app_assoc; reflexivity).
    replace (S (length pre)) with (length (pre ++ [w])) by (rewrite app_length; cbn; lia).
    rewrite (IH b (pre ++ [w]) (px ++ [y]) x c1 ltac:(cbn in Hl; lia) ltac:(rewrite !app_length; cbn; lia)).
    destruct (zipacc f a b c1) as [r c2]. cbn [fst snd]. rewrite <- !app_assoc.
    replace (last (u :: x :: a) 0) with (last (x :: a) 0) by reflexivity. reflexivity.
Qed.

Lemma zipacc_mac y : is_word y -> forall a b c, wf a -> wf b -> is_word c ->
  zipacc (fun p q k => g_limb_mac p q y k) a b c = mac_by_limb a b y c.
Proof.
  intros Wy. induction a as [|x a IH]; intros [|q b] c Wa Wb Wc; try reflexivity.
  cbn [zipacc mac_by_limb]. apply wf_cons in Wa. destruct Wa as [Wx Wa]. apply wf_cons in Wb. destruct Wb as [Wq Wb].
  rewrite g_limb_mac_eq by assumption. destruct (mac x q y c) as [v cy] eqn:E.
  destruct (mac_exact x q y c v cy Wx Wq Wy Wc E) as (_ & _ & Wcy).
  rewrite IH by assumption. reflexivity.
Qed.

Lemma zipacc_map2 (g : Z -> Z -> Z -> Z * Z) (h : Z -> Z) : forall a b c,
  zipacc (fun p q k => g p (h q) k) a b c = zipacc g a (map h b) c.
Proof.
  induction a as [|x a IH]; intros [|q b] c; try reflexivity.
  cbn [zipacc map]. destruct (g x (h q) c) as [w c1]. rewrite IH. reflexivity.
Qed.

(* ---------------- Limb::wrapping_add *)
Lemma g_limb_wrapping_add_eq a b : g_limb_wrapping_add a b = wadd a b. Proof. reflexivity. Qed.

(* ---------------- add_mul_carry : (carry, final z) *)
Lemma g_add_mul_carry_eq z x y : length x = length z -> usz (length z) -> wf z -> wf x -> is_word y ->
  g_add_mul_carry z x y = (snd (add_mul_carry z x y), fst (add_mul_carry z x y)).
Proof.
  intros Hl Hn Wz Wx Wy. unfold g_add_mul_carry, add_mul_carry. cbv zeta.
  rewrite Hl, Z.eqb_refl. cbn [negb]. rewrite Z.sub_0_r, Nat2Z.id.
  change (0, z, 0) with (enc3 0 (z, 0)).
  rewrite (iter_enc _ enc3 (fun j (s : list Z * Z) =>
             let '(w, c') := (fun p q k => g_limb_mac p q y k) (nth j (fst s) 0) (nth j x 0) (snd s) in (upd_ (fst s) j w, c')))
    by (first [exact Hn | intros i [a0 k0] Hi; unfold enc3; cbn [fst snd];
               destruct (g_limb_mac (nth (Z.to_nat i) a0 0) (nth (Z.to_nat i) x 0) y k0); reflexivity]).
  pose proof (fold_zipacc_inplace (fun p q k => g_limb_mac p q y k) z x [] [] 0 ltac:(lia) eq_refl) as H.
  cbn [app length] in H. rewrite H. rewrite zipacc_mac by (try assumption; apply is_word_0').
  unfold enc3. cbn [fst snd]. reflexivity.
Qed.

(* ---------------- add_mul_carry_and_shift : (carry, tail of the row ++ [the untouched last limb]) *)
Definition enc_sh (j : Z) (s : list Z * Z) : Z * Z * list Z * Z := (j + 1, j, fst s, snd s).

Lemma g_add_mul_carry_and_shift_eq z x y : length x = length z -> (1 <= length z)%nat -> usz (length z) -> wf z -> wf x -> is_word y ->
  g_add_mul_carry_and_shift z x y =
    (snd (add_mul_carry_and_shift z x y), fst (add_mul_carry_and_shift z x y) ++ [last z 0]).
Proof.
  intros Hl H1 Hn Wz Wx Wy. unfold g_add_mul_carry_and_shift, add_mul_carry_and_shift. cbv zeta.
  rewrite Hl, Z.eqb_refl. cbn [negb].
  destruct z as [|z0 zt]; [cbn in H1; lia|]. destruct x as [|x0 xt]; [discriminate|].
  apply wf_cons in Wz. destruct Wz as [Wz0 Wzt]. apply wf_cons in Wx. destruct Wx as [Wx0 Wxt].
  cbn [Z.to_nat nth]. rewrite g_limb_mac_eq by (try assumption; apply is_word_0').
  cbn [mac_by_limb]. destruct (mac z0 x0 y 0) as [v0 c0] eqn:E0.
  destruct (mac_exact z0 x0 y 0 v0 c0 Wz0 Wx0 Wy is_word_0' E0) as (_ & _ & Wc0).
  cbn [length] in *. unfold usz in Hn.
  replace (Z.to_nat (Z.min (Z.of_nat (S (length zt)) - 1) (Z.of_nat (S (length zt)) - 0))) with (length zt) by lia.
  change (1, 0, z0 :: zt, c0) with (enc_sh 0 (z0 :: zt, c0)).
  rewrite (iter_enc_lt _ enc_sh (fun j (s : list Z * Z) =>
             let '(w, c') := (fun p q k => g_limb_mac p q y k) (nth (S j) (fst s) 0) (nth (S j) (x0 :: xt) 0) (snd s) in
             (upd_ (fst s) j w, c')) (length zt)).
  - pose proof (fold_shift_inplace (fun p q k => g_limb_mac p q y k) zt xt [] [x0] z0 c0 ltac:(lia) eq_refl) as H.
    cbn [app length] in H. rewrite H. rewrite zipacc_mac by assumption.
    destruct (mac_by_limb zt xt y c0) as [r cf]. unfold enc_sh. cbn [fst snd tl app]. reflexivity.
  - intros i [a0 k0] Hi. unfold enc_sh. cbn [fst snd].
    replace (Z.to_nat (i + 1)) with (S (Z.to_nat i)) by lia.
    cbn [nth].
    match goal with |- context [g_limb_mac ?a ?b ?c ?d] => destruct (g_limb_mac a b c d) end.
    unfold add_. rewrite !Z.mod_small by lia. reflexivity.
  - lia.
Qed.

(* ---------------- conditional_sub *)
Lemma g_conditional_sub_eq z x c : length x = length z -> usz (length z) -> wf z -> wf x -> is_word c ->
  g_conditional_sub z x c = conditional_sub z x c.
Proof.
  intros Hl Hn Wz Wx Wc. unfold g_conditional_sub, conditional_sub. cbv zeta.
  rewrite Hl, Z.eqb_refl. cbn [negb]. rewrite Z.sub_0_r, Nat2Z.id.
  change (0, z, 0) with (enc3 0 (z, 0)).
  rewrite (iter_enc _ enc3 (fun j (s : list Z * Z) =>
             let '(w, c') := (fun p q k => g_limb_sbb p (g_cc_if_true_word c q) k) (nth j (fst s) 0) (nth j x 0) (snd s) in
             (upd_ (fst s) j w, c')))
    by (first [exact Hn | intros i [a0 k0] Hi; unfold enc3; cbn [fst snd];
               destruct (g_limb_sbb (nth (Z.to_nat i) a0 0) (g_cc_if_true_word c (nth (Z.to_nat i) x 0)) k0); reflexivity]).
  pose proof (fold_zipacc_inplace (fun p q k => g_limb_sbb p (g_cc_if_true_word c q) k) z x [] [] 0 ltac:(lia) eq_refl) as H.
  cbn [app length] in H. rewrite H.
  rewrite (zipacc_map2 g_limb_sbb (g_cc_if_true_word c)).
  change (map (g_cc_if_true_word c) x) with (bitand_limb x c).
  rewrite zipacc_sbb by (first [assumption | apply wf_bitand; assumption | apply is_word_0']).
  unfold enc3. cbn [fst snd]. reflexivity.
Qed.

(* ---------------- the shape facts of one CIOS round (no hypothesis on k) *)
Lemma amm_tail_shape z1 c ts m k : wf z1 -> wf m -> length m = length z1 -> (1 <= length z1)%nat -> is_word c -> is_word ts ->
  wf (fst (amm_tail z1 c ts m k)) /\ length (fst (amm_tail z1 c ts m k)) = length z1 /\ is_word (snd (amm_tail z1 c ts m k)).
Proof.
  intros Wz Wm Hl H1 Wc Wts. unfold amm_tail, add_mul_carry_and_shift.
  destruct (overflowing_add_words ts c Wts Wc) as [W1 W2].
  destruct (overflowing_add ts c) as [ts0 ts1]. cbn [fst snd] in *.
  pose proof (is_word_wmul (hd 0 z1) k) as Wt. set (t := wmul (hd 0 z1) k) in *.
  destruct (mac_by_limb_parts z1 m t 0 Wz Wm ltac:(lia) Wt is_word_0') as (Wr & Lr & Wc2).
  destruct (mac_by_limb z1 m t 0) as [row c2]. cbn [fst snd] in *.
  destruct (overflowing_add_words ts0 c2 W1 Wc2) as [W3 W4].
  destruct (overflowing_add ts0 c2) as [top c3]. cbn [fst snd] in *.
  split; [|split].
  - apply Forall_app. split; [|apply wf_cons; split; [assumption|apply wf_nil]].
    destruct row; [apply wf_nil|]. apply wf_cons in Wr. tauto.
  - rewrite app_length. cbn [length]. destruct row; cbn [tl length] in *; lia.
  - unfold wadd, wrap. apply is_word_mod.
Qed.

Lemma amm_step_shape z ts x yi m k : wf z -> wf x -> wf m -> length x = length z -> length m = length z -> (1 <= length z)%nat ->
  is_word yi -> is_word ts ->
  wf (fst (amm_step z ts x yi m k)) /\ length (fst (amm_step z ts x yi m k)) = length z /\ is_word (snd (amm_step z ts x yi m k)).
Proof.
  intros Wz Wx Wm Lx Lm H1 Wy Wts. unfold amm_step, add_mul_carry.
  destruct (mac_by_limb_parts z x yi 0 Wz Wx ltac:(lia) Wy is_word_0') as (Wr & Lr & Wc).
  destruct (mac_by_limb z x yi 0) as [z1 c]. cbn [fst snd] in *.
  destruct (amm_tail_shape z1 c ts m k Wr Wm ltac:(lia) ltac:(lia) Wc Wts) as (A & B' & C).
  split; [assumption|]. split; [lia|assumption].
Qed.

(* ---------------- the part of a round after `c = add_mul_carry(..)`, as the generated text spells it *)
Lemma g_amm_tail_eq z1 c ts m k : wf z1 -> wf m -> length m = length z1 -> (1 <= length z1)%nat -> usz (length z1) ->
  is_word c -> is_word ts ->
  (let '(tmp_0, tmp_1) := g_limb_overflowing_add ts c in
   let v_ts := tmp_0 in
   let v_c := tmp_1 in
   let v_ts1 := v_c in
   let v_t := g_limb_wrapping_mul (nth (Z.to_nat 0) z1 0) k in
   let '(v_c, v_z) := g_add_mul_carry_and_shift z1 m v_t in
   let '(tmp_0, tmp_1) := g_limb_overflowing_add v_ts v_c in
   let v_z := upd_ v_z (Z.to_nat (sub_ 64 (Z.of_nat (length z1)) 1)) tmp_0 in
   let v_c := tmp_1 in
   let v_ts := g_limb_wrapping_add v_ts1 v_c in
   (v_z, v_ts)) = amm_tail z1 c ts m k.
Proof.
  intros Wz Wm Hl H1 Hn Wc Wts. unfold amm_tail.
  rewrite g_limb_overflowing_add_eq by assumption.
  destruct (overflowing_add_words ts c Wts Wc) as [W1 W2].
  destruct (overflowing_add ts c) as [ts0 ts1]. cbn [fst snd] in *. cbv zeta.
  rewrite g_limb_wrapping_mul_eq.
  replace (nth (Z.to_nat 0) z1 0) with (hd 0 z1) by (destruct z1; reflexivity).
  pose proof (is_word_wmul (hd 0 z1) k) as Wt. set (t := wmul (hd 0 z1) k) in *.
  rewrite g_add_mul_carry_and_shift_eq by assumption.
  unfold add_mul_carry_and_shift.
  destruct (mac_by_limb_parts z1 m t 0 Wz Wm ltac:(lia) Wt is_word_0') as (Wr & Lr & Wc2).
  destruct (mac_by_limb z1 m t 0) as [row c2]. cbn [fst snd] in *.
  rewrite g_limb_overflowing_add_eq by assumption.
  destruct (overflowing_add ts0 c2) as [top c3]. rewrite g_limb_wrapping_add_eq.
  f_equal.
  assert (Lt : length (tl row) = (length z1 - 1)%nat) by (destruct row; cbn [tl length] in *; lia).
  unfold usz in Hn.
  replace (Z.to_nat (sub_ 64 (Z.of_nat (length z1)) 1)) with (length (tl row))
    by (unfold sub_; rewrite Z.mod_small by lia; lia).
  pose proof (upd_mid (tl row) (last z1 0) [] top) as H. exact H.
Qed.

(* ---------------- the outer loop of almost_montgomery_mul *)
Lemma g_amm_loop n x m k (F : Z * list Z * Z -> Z * list Z * Z) : wf x -> wf m -> length x = n -> length m = n -> (1 <= n)%nat ->
  forall ys py, wf ys -> Z.of_nat (length py + length ys) < 2 ^ 64 ->
  (forall i z ts, (length py <= i < length py + length ys)%nat -> wf z -> length z = n -> is_word ts ->
     F (Z.of_nat i, z, ts) = (Z.of_nat (S i), fst (amm_step z ts x (nth i (py ++ ys) 0) m k),
                              snd (amm_step z ts x (nth i (py ++ ys) 0) m k))) ->
  forall z ts, wf z -> length z = n -> is_word ts ->
  Nat.iter (length ys) F (Z.of_nat (length py), z, ts) =
    (Z.of_nat (length py + length ys), fst (amm_loop ys z ts x m k), snd (amm_loop ys z ts x m k)).
Proof.
  intros Wx Wm Lx Lm H1. induction ys as [|yi r IH]; intros py Wy Hb HF z ts Wz Lz Wts.
  - cbn [length Nat.iter amm_loop fst snd]. rewrite Nat.add_0_r. reflexivity.
  - apply wf_cons in Wy. destruct Wy as [Wyi Wr]. cbn [length] in *.
    rewrite iter_shift. rewrite HF by (try assumption; lia). rewrite nth_middle.
    destruct (amm_step_shape z ts x yi m k Wz Wx Wm ltac:(lia) ltac:(lia) ltac:(lia) Wyi Wts) as (A & B' & C).
    cbn [amm_loop]. destruct (amm_step z ts x yi m k) as [z1 ts1]. cbn [fst snd] in *.
    replace (S (length py)) with (length (py ++ [yi])) by (rewrite app_length; cbn; lia).
    rewrite (IH (py ++ [yi]) Wr ltac:(rewrite app_length; cbn [length]; lia)); try assumption; try lia.
    + rewrite app_length. cbn [length]. f_equal. f_equal. f_equal. lia.
    + intros i z' ts' Hi Wz' Lz' Wts'. rewrite <- app_assoc. cbn [app].
      apply HF; try assumption. rewrite app_length in Hi. cbn [length] in Hi. lia.
Qed.

Lemma amm_loop_shape_aux n x m k ys : forall z ts, wf x -> wf m -> length x = n -> length m = n -> (1 <= n)%nat ->
  wf ys -> wf z -> length z = n -> is_word ts ->
  wf (fst (amm_loop ys z ts x m k)) /\ length (fst (amm_loop ys z ts x m k)) = n /\ is_word (snd (amm_loop ys z ts x m k)).
Proof.
  induction ys as [|yi r IH]; intros z ts Wx Wm Lx Lm H1 Wy Wz Lz Wts; [cbn [amm_loop fst snd]; auto|].
  apply wf_cons in Wy. destruct Wy as [Wyi Wr]. cbn [amm_loop].
  destruct (amm_step_shape z ts x yi m k Wz Wx Wm ltac:(lia) ltac:(lia) ltac:(lia) Wyi Wts) as (A & B' & C).
  destruct (amm_step z ts x yi m k) as [z1 ts1]. cbn [fst snd] in *. apply IH; try assumption. lia.
Qed.

Theorem g_almost_montgomery_mul_eq z x y m k : length z = length m -> length x = length m -> length y = length m ->
  (1 <= length m)%nat -> usz (length m) -> wf z -> wf x -> wf y -> wf m -> is_word k ->
  g_almost_montgomery_mul z x y m k =
    conditional_sub (fst (amm_loop y z 0 x m k)) m (from_word_lsb (snd (amm_loop y z 0 x m k))).
Proof.
  intros Lz Lx Ly H1 Hn Wz Wx Wy Wm Wk. unfold g_almost_montgomery_mul. cbv zeta.
  rewrite Lx, Ly, Lz, !Z.eqb_refl. cbn [andb negb]. rewrite Z.sub_0_r, Nat2Z.id.
  set (n := length m) in *. rewrite <- Ly.
  match goal with |- context [Nat.iter (length y) ?F (0, z, 0)] =>
    pose proof (g_amm_loop n x m k F Wx Wm Lx eq_refl H1 y [] Wy ltac:(cbn [length]; unfold usz in Hn; lia)) as HL end.
  cbn [length app Nat.add] in HL. change (Z.of_nat 0) with 0 in HL.
  rewrite HL; try assumption; try apply is_word_0'.
  - destruct (amm_loop_shape_aux n x m k y z 0 Wx Wm Lx eq_refl H1 Wy Wz Lz is_word_0') as (A & B' & C).
    destruct (amm_loop y z 0 x m k) as [zf tsf]. cbn [fst snd] in *.
    rewrite g_cc_from_word_lsb_eq.
    apply g_conditional_sub_eq; try assumption; try lia; [rewrite B'; exact Hn|].
    unfold from_word_lsb, wneg, wrap. apply is_word_mod.
  - intros i z' ts' Hi Wz' Lz' Wts'.
    assert (Wyi : is_word (nth i y 0)).
    { apply Forall_nth; [exact Wy | lia]. }
    rewrite Nat2Z.id.
    rewrite g_add_mul_carry_eq by (first [assumption | lia | rewrite Lz'; exact Hn]).
    unfold amm_step, add_mul_carry.
    destruct (mac_by_limb_parts z' x (nth i y 0) 0 Wz' Wx ltac:(lia) Wyi is_word_0') as (Wr & Lr & Wc).
    destruct (mac_by_limb z' x (nth i y 0) 0) as [z1 c]. cbn [fst snd] in *.
    replace (Z.of_nat (length y)) with (Z.of_nat (length z1)) by (f_equal; lia).
    pose proof (g_amm_tail_eq z1 c ts' m k Wr Wm ltac:(lia) ltac:(lia) ltac:(rewrite Lr, Lz'; exact Hn) Wc Wts') as HT.
    cbv zeta in HT.
    destruct (g_limb_overflowing_add ts' c) as [t0 t1].
    destruct (g_add_mul_carry_and_shift z1 m (g_limb_wrapping_mul (nth (Z.to_nat 0) z1 0) k)) as [c2 z2].
    destruct (g_limb_overflowing_add t0 c2) as [t2 t3].
    rewrite <- HT. cbn [fst snd]. f_equal. f_equal.
    unfold add_. unfold usz in Hn. rewrite Z.mod_small by lia. lia.
Qed.

(* ---------------- almost_montgomery_mul_by_one: only round 0 adds x * 1 *)
Definition amm1_step (first : bool) (z : list Z) (ts : Z) (x m : list Z) (k : Z) : list Z * Z :=
  let '(z1, cy) := if first then add_mul_carry z x 1 else (z, 0) in amm_tail z1 cy ts m k.

Lemma amm1_loop_S cnt first z ts x m k :
  amm1_loop (S cnt) first z ts x m k =
    amm1_loop cnt false (fst (amm1_step first z ts x m k)) (snd (amm1_step first z ts x m k)) x m k.
Proof.
  cbn [amm1_loop]. unfold amm1_step. destruct (if first then add_mul_carry z x 1 else (z, 0)) as [z1 cy].
  destruct (amm_tail z1 cy ts m k); reflexivity.
Qed.

Lemma is_word_1 : is_word 1. Proof. unfold is_word. change B with (2 ^ 64). lia. Qed.

Lemma amm1_step_shape first z ts x m k : wf z -> wf x -> wf m -> length x = length z -> length m = length z -> (1 <= length z)%nat ->
  is_word ts ->
  wf (fst (amm1_step first z ts x m k)) /\ length (fst (amm1_step first z ts x m k)) = length z /\
  is_word (snd (amm1_step first z ts x m k)).
Proof.
  intros Wz Wx Wm Lx Lm H1 Wts. unfold amm1_step, add_mul_carry.
  assert (H : forall z1 cy, wf z1 -> length z1 = length z -> is_word cy ->
            wf (fst (amm_tail z1 cy ts m k)) /\ length (fst (amm_tail z1 cy ts m k)) = length z /\ is_word (snd (amm_tail z1 cy ts m k))).
  { intros z1 cy W1 L1 Wc. destruct (amm_tail_shape z1 cy ts m k W1 Wm ltac:(lia) ltac:(lia) Wc Wts) as (A & B' & C).
    split; [assumption|]. split; [lia|assumption]. }
  destruct first.
  - destruct (mac_by_limb_parts z x 1 0 Wz Wx ltac:(lia) is_word_1 is_word_0') as (Wr & Lr & Wc).
    destruct (mac_by_limb z x 1 0) as [z1 cy]. cbn [fst snd] in *. apply H; assumption.
  - apply H; [assumption | reflexivity | apply is_word_0'].
Qed.

Lemma amm1_loop_shape n x m k : wf x -> wf m -> length x = n -> length m = n -> (1 <= n)%nat ->
  forall cnt first z ts, wf z -> length z = n -> is_word ts ->
  wf (fst (amm1_loop cnt first z ts x m k)) /\ length (fst (amm1_loop cnt first z ts x m k)) = n /\
  is_word (snd (amm1_loop cnt first z ts x m k)).
Proof.
  intros Wx Wm Lx Lm H1. induction cnt as [|cnt IH]; intros first z ts Wz Lz Wts; [cbn [amm1_loop fst snd]; auto|].
  rewrite amm1_loop_S.
  destruct (amm1_step_shape first z ts x m k Wz Wx Wm ltac:(lia) ltac:(lia) ltac:(lia) Wts) as (A & B' & C).
  apply IH; try assumption. lia.
Qed.

Lemma g_amm1_loop n x m k (F : Z * list Z * Z -> Z * list Z * Z) : wf x -> wf m -> length x = n -> length m = n -> (1 <= n)%nat ->
  forall cnt i0, Z.of_nat (i0 + cnt) < 2 ^ 64 ->
  (forall i z ts, (i0 <= i < i0 + cnt)%nat -> wf z -> length z = n -> is_word ts ->
     F (Z.of_nat i, z, ts) = (Z.of_nat (S i), fst (amm1_step (Nat.eqb i 0) z ts x m k), snd (amm1_step (Nat.eqb i 0) z ts x m k))) ->
  forall z ts, wf z -> length z = n -> is_word ts ->
  Nat.iter cnt F (Z.of_nat i0, z, ts) =
    (Z.of_nat (i0 + cnt), fst (amm1_loop cnt (Nat.eqb i0 0) z ts x m k), snd (amm1_loop cnt (Nat.eqb i0 0) z ts x m k)).
Proof.
  intros Wx Wm Lx Lm H1. induction cnt as [|cnt IH]; intros i0 Hb HF z ts Wz Lz Wts.
  - cbn [Nat.iter amm1_loop fst snd]. rewrite Nat.add_0_r. reflexivity.
  - rewrite iter_shift. rewrite HF by (try assumption; lia). rewrite amm1_loop_S.
    destruct (amm1_step_shape (Nat.eqb i0 0) z ts x m k Wz Wx Wm ltac:(lia) ltac:(lia) ltac:(lia) Wts) as (A & B' & C).
    rewrite (IH (S i0) ltac:(lia)); try assumption; try lia.
    + replace (S i0 + cnt)%nat with (i0 + S cnt)%nat by lia. reflexivity.
    + intros i z' ts' Hi Wz' Lz' Wts'. apply HF; try assumption. lia.
Qed.

Theorem g_almost_montgomery_mul_by_one_eq z x m k : length z = length m -> length x = length m ->
  (1 <= length m)%nat -> usz (length m) -> wf z -> wf x -> wf m -> is_word k ->
  g_almost_montgomery_mul_by_one z x m k =
    conditional_sub (fst (amm1_loop (length m) true z 0 x m k)) m (from_word_lsb (snd (amm1_loop (length m) true z 0 x m k))).
Proof.
  intros Lz Lx H1 Hn Wz Wx Wm Wk. unfold g_almost_montgomery_mul_by_one. cbv zeta.
  rewrite Lx, Lz, !Z.eqb_refl. cbn [andb negb]. rewrite Z.sub_0_r, Nat2Z.id.
  set (n := length m) in *.
  match goal with |- context [Nat.iter n ?F (0, z, 0)] =>
    pose proof (g_amm1_loop n x m k F Wx Wm Lx eq_refl H1 n 0%nat ltac:(unfold usz in Hn; lia)) as HL end.
  cbn [Nat.add Nat.eqb] in HL. change (Z.of_nat 0) with 0 in HL.
  rewrite HL; try assumption; try apply is_word_0'.
  - destruct (amm1_loop_shape n x m k Wx Wm Lx eq_refl H1 n true z 0 Wz Lz is_word_0') as (A & B' & C).
    destruct (amm1_loop n true z 0 x m k) as [zf tsf]. cbn [fst snd] in *.
    rewrite g_cc_from_word_lsb_eq.
    apply g_conditional_sub_eq; try assumption; try lia; [rewrite B'; exact Hn|].
    unfold from_word_lsb, wneg, wrap. apply is_word_mod.
  - intros i z' ts' Hi Wz' Lz' Wts'.
    unfold amm1_step.
    assert (E1 : (if Z.of_nat i =? 0
                  then let '(v_c, v_z) := g_add_mul_carry z' x 1 in (v_z, v_c)
                  else (z', 0)) = (if Nat.eqb i 0 then add_mul_carry z' x 1 else (z', 0))).
    { destruct i as [|i]; [|reflexivity]. cbn [Z.of_nat Z.eqb Nat.eqb].
      rewrite g_add_mul_carry_eq by (first [assumption | lia | rewrite Lz'; exact Hn | apply is_word_1]).
      destruct (add_mul_carry z' x 1); reflexivity. }
    rewrite E1. clear E1.
    assert (S1 : wf (fst (if Nat.eqb i 0 then add_mul_carry z' x 1 else (z', 0))) /\
                 length (fst (if Nat.eqb i 0 then add_mul_carry z' x 1 else (z', 0))) = n /\
                 is_word (snd (if Nat.eqb i 0 then add_mul_carry z' x 1 else (z', 0)))).
    { destruct (Nat.eqb i 0); [|cbn [fst snd]; split; [assumption|split; [assumption|apply is_word_0']]].
      unfold add_mul_carry. destruct (mac_by_limb_parts z' x 1 0 Wz' Wx ltac:(lia) is_word_1 is_word_0') as (Wr & Lr & Wc).
      split; [assumption|]. split; [lia|assumption]. }
    destruct (if Nat.eqb i 0 then add_mul_carry z' x 1 else (z', 0)) as [z1 c]. cbn [fst snd] in S1.
    destruct S1 as (Wr & Lr & Wc).
    replace (Z.of_nat n) with (Z.of_nat (length z1)) by (f_equal; lia).
    pose proof (g_amm_tail_eq z1 c ts' m k Wr Wm ltac:(lia) ltac:(lia) ltac:(rewrite Lr; exact Hn) Wc Wts') as HT.
    cbv zeta in HT.
    destruct (g_limb_overflowing_add ts' c) as [t0 t1].
    destruct (g_add_mul_carry_and_shift z1 m (g_limb_wrapping_mul (nth (Z.to_nat 0) z1 0) k)) as [c2 z2].
    destruct (g_limb_overflowing_add t0 c2) as [t2 t3].
    rewrite <- HT. cbn [fst snd]. f_equal. f_equal.
    unfold add_. unfold usz in Hn. rewrite Z.mod_small by lia. lia.
Qed.

(* ---------------- composition with Proofs/MontyAmmP.v: the SOURCE text on a zeroed buffer *)
Theorem g_amm_correct n x y m k : length x = n -> length y = n -> length m = n -> (1 <= n)%nat -> usz n ->
  wf x -> wf y -> wf m -> is_word k -> (hd 0 m * k + 1) mod B = 0 -> 0 < eval m ->
  let a := g_almost_montgomery_mul (zeros n) x y m k in
  wf a /\ length a = n /\ 0 <= eval a < Bn n /\
  (exists U e, 0 <= U < Bn n /\ 0 <= e <= 1 /\ Bn n * (eval a + e * eval m) = eval x * eval y + U * eval m) /\
  eval a / eval m <= Z.min (eval x / eval m) (eval y / eval m) + 1.
Proof.
  intros Lx Ly Lm. rewrite <- Lm in *. clear Lm. intros H1 Hn Wx Wy Wm Wk Hk HM. cbv zeta.
  rewrite g_almost_montgomery_mul_eq by (first [assumption | apply length_zeros | apply wf_zeros | lia]).
  replace (conditional_sub (fst (amm_loop y (zeros (length m)) 0 x m k)) m
            (from_word_lsb (snd (amm_loop y (zeros (length m)) 0 x m k)))) with (almost_montgomery_mul x y m k)
    by (unfold almost_montgomery_mul; destruct (amm_loop y (zeros (length m)) 0 x m k); reflexivity).
  pose proof (amm_correct m k Wm ltac:(lia) Hk x y Wx Wy Lx Ly HM) as H. cbv zeta in H.
  destruct H as (A & B' & C & D).
  pose proof (amm_bound m k Wm ltac:(lia) Hk x y Wx Wy Lx Ly HM) as HB.
  repeat split; try assumption; try lia.
Qed.

Theorem g_amm_by_one_reduced n x m k : length x = n -> length m = n -> (1 <= n)%nat -> usz n ->
  wf x -> wf m -> is_word k -> (hd 0 m * k + 1) mod B = 0 -> eval x < eval m ->
  let a := g_almost_montgomery_mul_by_one (zeros n) x m k in
  wf a /\ length a = n /\ 0 <= eval a < eval m /\ (eval a * Bn n) mod eval m = eval x mod eval m.
Proof.
  intros Lx Lm. rewrite <- Lm in *. clear Lm. intros H1 Hn Wx Wm Wk Hk HxM. cbv zeta.
  rewrite g_almost_montgomery_mul_by_one_eq by (first [assumption | apply length_zeros | apply wf_zeros | lia]).
  replace (conditional_sub (fst (amm1_loop (length m) true (zeros (length m)) 0 x m k)) m
            (from_word_lsb (snd (amm1_loop (length m) true (zeros (length m)) 0 x m k)))) with (almost_montgomery_mul_by_one x m k)
    by (unfold almost_montgomery_mul_by_one; destruct (amm1_loop (length m) true (zeros (length m)) 0 x m k); reflexivity).
  pose proof (amm_by_one_reduced m k Wm ltac:(lia) Hk x Wx Lx HxM) as H. cbv zeta in H. exact H.
Qed.
