(** C01, source-derived leakage model: NONINTERFERENCE of the instrumented kernels.

    tools/rs2v_leak.py re-reads /repo's CURRENT source text on every run and writes, for each of the 222 kernels that
    tools/rs2v.py ties to the models, an instrumented definition [l_f args : result * list Z] (Src/Leak*.v): the value and the list
    of leakage events of a source-level execution (Model/LeakPrelude.v: [ev_br] conditions, [ev_ix] indices, [ev_div] /
    [ev_divc] division operands, [ev_trip] trip counts; mask / select / arithmetic primitives emit nothing).
    Statements only, each closed by [exact] of a lemma of Src/Leak*P.v:
      C01_src_<f>_ni   for all values of the SECRET operands (limb values, words, carries, ConstChoice masks, the reciprocal) the
                       trace is the same; the operands that occur once in a statement are the PUBLIC ones: limb counts, slice
                       lengths (hypotheses [length x1 = length x2]), and the operands a function is documented variable-time in
                       (the shift of overflowing_shl_vartime / overflowing_shr_vartime, the bit counts of short_div);
      for Uint::div_rem and the constant-time shifts (shl, shr, overflowing_shl, overflowing_shr) the statement is up to
      [pubview], which erases the dividend of a division by a COMPILE-TIME CONSTANT (`dbits % Limb::BITS`,
      `shift % Self::BITS`: no division instruction in an optimized build), and C01_src_<f>_strict_refuted shows that without
      that erasure the trace does depend on the secret (through these events only).
    That the instrumented text computes the tied text ([fst (l_f args) = g_f args]) is l_f_fst in Src/Leak*P.v.
    What is NOT proved here: that the optimized binary leaks no more than the source-level trace (tools/vlib/c01.py, c01mc.py). *)
From CB Require Import Model.SrcPrelude Model.LeakPrelude Src.LeakIterP.
From CB Require Import Src.LeakPrim Src.LeakPrimP Src.LeakDiv Src.LeakDivP Src.LeakUint Src.LeakUintP Src.LeakMod Src.LeakModP Src.LeakShift Src.LeakShiftP Src.LeakMul Src.LeakMulP Src.LeakInt Src.LeakIntP Src.LeakDivLimb Src.LeakDivLimbP Src.LeakMonty Src.LeakMontyP Src.LeakHex Src.LeakHexP Src.LeakBits Src.LeakBitsP Src.LeakDivCt Src.LeakDivCtP.
From CB Require Import Src.GenLogic Src.LeakLogic Src.LeakLogicP.
From Coq Require Import ZArith List.
Import ListNotations.
Open Scope Z_scope.

(** ** Src/LeakPrim.v *)
Theorem C01_src_mulhilo_ni : forall (x1 : Z) (y1 : Z) (x2 : Z) (y2 : Z), snd (l_mulhilo x1 y1) = snd (l_mulhilo x2 y2).
Proof. exact (@l_mulhilo_ni). Qed.
Print Assumptions C01_src_mulhilo_ni.
Theorem C01_src_addhilo_ni : forall (x_hi1 : Z) (x_lo1 : Z) (y_hi1 : Z) (y_lo1 : Z) (x_hi2 : Z) (x_lo2 : Z) (y_hi2 : Z) (y_lo2 : Z), snd (l_addhilo x_hi1 x_lo1 y_hi1 y_lo1) = snd (l_addhilo x_hi2 x_lo2 y_hi2 y_lo2).
Proof. exact (@l_addhilo_ni). Qed.
Print Assumptions C01_src_addhilo_ni.
Theorem C01_src_adc_ni : forall (lhs1 : Z) (rhs1 : Z) (carry1 : Z) (lhs2 : Z) (rhs2 : Z) (carry2 : Z), snd (l_adc lhs1 rhs1 carry1) = snd (l_adc lhs2 rhs2 carry2).
Proof. exact (@l_adc_ni). Qed.
Print Assumptions C01_src_adc_ni.
Theorem C01_src_overflowing_add_ni : forall (lhs1 : Z) (rhs1 : Z) (lhs2 : Z) (rhs2 : Z), snd (l_overflowing_add lhs1 rhs1) = snd (l_overflowing_add lhs2 rhs2).
Proof. exact (@l_overflowing_add_ni). Qed.
Print Assumptions C01_src_overflowing_add_ni.
Theorem C01_src_sbb_ni : forall (lhs1 : Z) (rhs1 : Z) (borrow1 : Z) (lhs2 : Z) (rhs2 : Z) (borrow2 : Z), snd (l_sbb lhs1 rhs1 borrow1) = snd (l_sbb lhs2 rhs2 borrow2).
Proof. exact (@l_sbb_ni). Qed.
Print Assumptions C01_src_sbb_ni.
Theorem C01_src_mul_wide_ni : forall (lhs1 : Z) (rhs1 : Z) (lhs2 : Z) (rhs2 : Z), snd (l_mul_wide lhs1 rhs1) = snd (l_mul_wide lhs2 rhs2).
Proof. exact (@l_mul_wide_ni). Qed.
Print Assumptions C01_src_mul_wide_ni.
Theorem C01_src_mac_ni : forall (a1 : Z) (b1 : Z) (c1 : Z) (carry1 : Z) (a2 : Z) (b2 : Z) (c2 : Z) (carry2 : Z), snd (l_mac a1 b1 c1 carry1) = snd (l_mac a2 b2 c2 carry2).
Proof. exact (@l_mac_ni). Qed.
Print Assumptions C01_src_mac_ni.
Theorem C01_src_cc_as_u32_mask_ni : forall (self1 : Z) (self2 : Z), snd (l_cc_as_u32_mask self1) = snd (l_cc_as_u32_mask self2).
Proof. exact (@l_cc_as_u32_mask_ni). Qed.
Print Assumptions C01_src_cc_as_u32_mask_ni.
Theorem C01_src_cc_from_word_mask_ni : forall (value1 : Z) (value2 : Z), snd (l_cc_from_word_mask value1) = snd (l_cc_from_word_mask value2).
Proof. exact (@l_cc_from_word_mask_ni). Qed.
Print Assumptions C01_src_cc_from_word_mask_ni.
Theorem C01_src_cc_from_word_lsb_ni : forall (value1 : Z) (value2 : Z), snd (l_cc_from_word_lsb value1) = snd (l_cc_from_word_lsb value2).
Proof. exact (@l_cc_from_word_lsb_ni). Qed.
Print Assumptions C01_src_cc_from_word_lsb_ni.
Theorem C01_src_cc_from_word_msb_ni : forall (value1 : Z) (value2 : Z), snd (l_cc_from_word_msb value1) = snd (l_cc_from_word_msb value2).
Proof. exact (@l_cc_from_word_msb_ni). Qed.
Print Assumptions C01_src_cc_from_word_msb_ni.
Theorem C01_src_cc_from_wide_word_lsb_ni : forall (value1 : Z) (value2 : Z), snd (l_cc_from_wide_word_lsb value1) = snd (l_cc_from_wide_word_lsb value2).
Proof. exact (@l_cc_from_wide_word_lsb_ni). Qed.
Print Assumptions C01_src_cc_from_wide_word_lsb_ni.
Theorem C01_src_cc_from_u32_lsb_ni : forall (value1 : Z) (value2 : Z), snd (l_cc_from_u32_lsb value1) = snd (l_cc_from_u32_lsb value2).
Proof. exact (@l_cc_from_u32_lsb_ni). Qed.
Print Assumptions C01_src_cc_from_u32_lsb_ni.
Theorem C01_src_cc_not_ni : forall (self1 : Z) (self2 : Z), snd (l_cc_not self1) = snd (l_cc_not self2).
Proof. exact (@l_cc_not_ni). Qed.
Print Assumptions C01_src_cc_not_ni.
Theorem C01_src_cc_or_ni : forall (self1 : Z) (other1 : Z) (self2 : Z) (other2 : Z), snd (l_cc_or self1 other1) = snd (l_cc_or self2 other2).
Proof. exact (@l_cc_or_ni). Qed.
Print Assumptions C01_src_cc_or_ni.
Theorem C01_src_cc_and_ni : forall (self1 : Z) (other1 : Z) (self2 : Z) (other2 : Z), snd (l_cc_and self1 other1) = snd (l_cc_and self2 other2).
Proof. exact (@l_cc_and_ni). Qed.
Print Assumptions C01_src_cc_and_ni.
Theorem C01_src_cc_xor_ni : forall (self1 : Z) (other1 : Z) (self2 : Z) (other2 : Z), snd (l_cc_xor self1 other1) = snd (l_cc_xor self2 other2).
Proof. exact (@l_cc_xor_ni). Qed.
Print Assumptions C01_src_cc_xor_ni.
Theorem C01_src_cc_ne_ni : forall (self1 : Z) (other1 : Z) (self2 : Z) (other2 : Z), snd (l_cc_ne self1 other1) = snd (l_cc_ne self2 other2).
Proof. exact (@l_cc_ne_ni). Qed.
Print Assumptions C01_src_cc_ne_ni.
Theorem C01_src_cc_eq_ni : forall (self1 : Z) (other1 : Z) (self2 : Z) (other2 : Z), snd (l_cc_eq self1 other1) = snd (l_cc_eq self2 other2).
Proof. exact (@l_cc_eq_ni). Qed.
Print Assumptions C01_src_cc_eq_ni.
Theorem C01_src_cc_from_u32_nonzero_ni : forall (value1 : Z) (value2 : Z), snd (l_cc_from_u32_nonzero value1) = snd (l_cc_from_u32_nonzero value2).
Proof. exact (@l_cc_from_u32_nonzero_ni). Qed.
Print Assumptions C01_src_cc_from_u32_nonzero_ni.
Theorem C01_src_cc_from_word_nonzero_ni : forall (value1 : Z) (value2 : Z), snd (l_cc_from_word_nonzero value1) = snd (l_cc_from_word_nonzero value2).
Proof. exact (@l_cc_from_word_nonzero_ni). Qed.
Print Assumptions C01_src_cc_from_word_nonzero_ni.
Theorem C01_src_cc_from_u32_eq_ni : forall (x1 : Z) (y1 : Z) (x2 : Z) (y2 : Z), snd (l_cc_from_u32_eq x1 y1) = snd (l_cc_from_u32_eq x2 y2).
Proof. exact (@l_cc_from_u32_eq_ni). Qed.
Print Assumptions C01_src_cc_from_u32_eq_ni.
Theorem C01_src_cc_from_word_eq_ni : forall (x1 : Z) (y1 : Z) (x2 : Z) (y2 : Z), snd (l_cc_from_word_eq x1 y1) = snd (l_cc_from_word_eq x2 y2).
Proof. exact (@l_cc_from_word_eq_ni). Qed.
Print Assumptions C01_src_cc_from_word_eq_ni.
Theorem C01_src_cc_from_word_lt_ni : forall (x1 : Z) (y1 : Z) (x2 : Z) (y2 : Z), snd (l_cc_from_word_lt x1 y1) = snd (l_cc_from_word_lt x2 y2).
Proof. exact (@l_cc_from_word_lt_ni). Qed.
Print Assumptions C01_src_cc_from_word_lt_ni.
Theorem C01_src_cc_from_word_gt_ni : forall (x1 : Z) (y1 : Z) (x2 : Z) (y2 : Z), snd (l_cc_from_word_gt x1 y1) = snd (l_cc_from_word_gt x2 y2).
Proof. exact (@l_cc_from_word_gt_ni). Qed.
Print Assumptions C01_src_cc_from_word_gt_ni.
Theorem C01_src_cc_from_u32_lt_ni : forall (x1 : Z) (y1 : Z) (x2 : Z) (y2 : Z), snd (l_cc_from_u32_lt x1 y1) = snd (l_cc_from_u32_lt x2 y2).
Proof. exact (@l_cc_from_u32_lt_ni). Qed.
Print Assumptions C01_src_cc_from_u32_lt_ni.
Theorem C01_src_cc_from_word_le_ni : forall (x1 : Z) (y1 : Z) (x2 : Z) (y2 : Z), snd (l_cc_from_word_le x1 y1) = snd (l_cc_from_word_le x2 y2).
Proof. exact (@l_cc_from_word_le_ni). Qed.
Print Assumptions C01_src_cc_from_word_le_ni.
Theorem C01_src_cc_from_wide_word_le_ni : forall (x1 : Z) (y1 : Z) (x2 : Z) (y2 : Z), snd (l_cc_from_wide_word_le x1 y1) = snd (l_cc_from_wide_word_le x2 y2).
Proof. exact (@l_cc_from_wide_word_le_ni). Qed.
Print Assumptions C01_src_cc_from_wide_word_le_ni.
Theorem C01_src_cc_from_u32_le_ni : forall (x1 : Z) (y1 : Z) (x2 : Z) (y2 : Z), snd (l_cc_from_u32_le x1 y1) = snd (l_cc_from_u32_le x2 y2).
Proof. exact (@l_cc_from_u32_le_ni). Qed.
Print Assumptions C01_src_cc_from_u32_le_ni.
Theorem C01_src_cc_select_word_ni : forall (self1 : Z) (a1 : Z) (b1 : Z) (self2 : Z) (a2 : Z) (b2 : Z), snd (l_cc_select_word self1 a1 b1) = snd (l_cc_select_word self2 a2 b2).
Proof. exact (@l_cc_select_word_ni). Qed.
Print Assumptions C01_src_cc_select_word_ni.
Theorem C01_src_cc_select_wide_word_ni : forall (self1 : Z) (a1 : Z) (b1 : Z) (self2 : Z) (a2 : Z) (b2 : Z), snd (l_cc_select_wide_word self1 a1 b1) = snd (l_cc_select_wide_word self2 a2 b2).
Proof. exact (@l_cc_select_wide_word_ni). Qed.
Print Assumptions C01_src_cc_select_wide_word_ni.
Theorem C01_src_cc_select_u32_ni : forall (self1 : Z) (a1 : Z) (b1 : Z) (self2 : Z) (a2 : Z) (b2 : Z), snd (l_cc_select_u32 self1 a1 b1) = snd (l_cc_select_u32 self2 a2 b2).
Proof. exact (@l_cc_select_u32_ni). Qed.
Print Assumptions C01_src_cc_select_u32_ni.
Theorem C01_src_cc_if_true_word_ni : forall (self1 : Z) (x1 : Z) (self2 : Z) (x2 : Z), snd (l_cc_if_true_word self1 x1) = snd (l_cc_if_true_word self2 x2).
Proof. exact (@l_cc_if_true_word_ni). Qed.
Print Assumptions C01_src_cc_if_true_word_ni.
Theorem C01_src_cc_if_true_u32_ni : forall (self1 : Z) (x1 : Z) (self2 : Z) (x2 : Z), snd (l_cc_if_true_u32 self1 x1) = snd (l_cc_if_true_u32 self2 x2).
Proof. exact (@l_cc_if_true_u32_ni). Qed.
Print Assumptions C01_src_cc_if_true_u32_ni.
Theorem C01_src_cc_is_true_vartime_ni : forall (self1 : Z) (self2 : Z), snd (l_cc_is_true_vartime self1) = snd (l_cc_is_true_vartime self2).
Proof. exact (@l_cc_is_true_vartime_ni). Qed.
Print Assumptions C01_src_cc_is_true_vartime_ni.
Theorem C01_src_cc_to_u8_ni : forall (self1 : Z) (self2 : Z), snd (l_cc_to_u8 self1) = snd (l_cc_to_u8 self2).
Proof. exact (@l_cc_to_u8_ni). Qed.
Print Assumptions C01_src_cc_to_u8_ni.
Theorem C01_src_cc_to_bool_vartime_ni : forall (self1 : Z) (self2 : Z), snd (l_cc_to_bool_vartime self1) = snd (l_cc_to_bool_vartime self2).
Proof. exact (@l_cc_to_bool_vartime_ni). Qed.
Print Assumptions C01_src_cc_to_bool_vartime_ni.
(** ** Src/LeakDiv.v *)
Theorem C01_src_dl_lt_ni : forall (a1 : Z) (b1 : Z) (a2 : Z) (b2 : Z), snd (l_dl_lt a1 b1) = snd (l_dl_lt a2 b2).
Proof. exact (@l_dl_lt_ni). Qed.
Print Assumptions C01_src_dl_lt_ni.
Theorem C01_src_dl_select_ni : forall (a1 : Z) (b1 : Z) (c1 : Z) (a2 : Z) (b2 : Z) (c2 : Z), snd (l_dl_select a1 b1 c1) = snd (l_dl_select a2 b2 c2).
Proof. exact (@l_dl_select_ni). Qed.
Print Assumptions C01_src_dl_select_ni.
Theorem C01_src_short_div_ni : forall dividend_bits divisor_bits dividend1 divisor1 dividend2 divisor2, snd (l_short_div dividend1 dividend_bits divisor1 divisor_bits) = snd (l_short_div dividend2 dividend_bits divisor2 divisor_bits).
Proof. exact (@l_short_div_ni). Qed.
Print Assumptions C01_src_short_div_ni.
Theorem C01_src_reciprocal_ni : forall d1 d2, snd (l_reciprocal d1) = snd (l_reciprocal d2).
Proof. exact (@l_reciprocal_ni). Qed.
Print Assumptions C01_src_reciprocal_ni.
Theorem C01_src_div2by1_ni : forall (u11 : Z) (u01 : Z) (reciprocal1 : g_Reciprocal) (u12 : Z) (u02 : Z) (reciprocal2 : g_Reciprocal), snd (l_div2by1 u11 u01 reciprocal1) = snd (l_div2by1 u12 u02 reciprocal2).
Proof. exact (@l_div2by1_ni). Qed.
Print Assumptions C01_src_div2by1_ni.
Theorem C01_src_div3by2_ni : forall u21 u11 u01 v1_reciprocal1 v01 u22 u12 u02 v1_reciprocal2 v02, snd (l_div3by2 u21 u11 u01 v1_reciprocal1 v01) = snd (l_div3by2 u22 u12 u02 v1_reciprocal2 v02).
Proof. exact (@l_div3by2_ni). Qed.
Print Assumptions C01_src_div3by2_ni.
(** ** Src/LeakUint.v *)
Theorem C01_src_limb_adc_ni : forall (self1 : Z) (rhs1 : Z) (carry1 : Z) (self2 : Z) (rhs2 : Z) (carry2 : Z), snd (l_limb_adc self1 rhs1 carry1) = snd (l_limb_adc self2 rhs2 carry2).
Proof. exact (@l_limb_adc_ni). Qed.
Print Assumptions C01_src_limb_adc_ni.
Theorem C01_src_limb_sbb_ni : forall (self1 : Z) (rhs1 : Z) (borrow1 : Z) (self2 : Z) (rhs2 : Z) (borrow2 : Z), snd (l_limb_sbb self1 rhs1 borrow1) = snd (l_limb_sbb self2 rhs2 borrow2).
Proof. exact (@l_limb_sbb_ni). Qed.
Print Assumptions C01_src_limb_sbb_ni.
Theorem C01_src_limb_select_ni : forall (a1 : Z) (b1 : Z) (c1 : Z) (a2 : Z) (b2 : Z) (c2 : Z), snd (l_limb_select a1 b1 c1) = snd (l_limb_select a2 b2 c2).
Proof. exact (@l_limb_select_ni). Qed.
Print Assumptions C01_src_limb_select_ni.
Theorem C01_src_limb_is_nonzero_ni : forall (self1 : Z) (self2 : Z), snd (l_limb_is_nonzero self1) = snd (l_limb_is_nonzero self2).
Proof. exact (@l_limb_is_nonzero_ni). Qed.
Print Assumptions C01_src_limb_is_nonzero_ni.
Theorem C01_src_uint_adc_ni : forall N self1 rhs1 carry1 self2 rhs2 carry2, snd (l_uint_adc N self1 rhs1 carry1) = snd (l_uint_adc N self2 rhs2 carry2).
Proof. exact (@l_uint_adc_ni). Qed.
Print Assumptions C01_src_uint_adc_ni.
Theorem C01_src_uint_sbb_ni : forall N self1 rhs1 borrow1 self2 rhs2 borrow2, snd (l_uint_sbb N self1 rhs1 borrow1) = snd (l_uint_sbb N self2 rhs2 borrow2).
Proof. exact (@l_uint_sbb_ni). Qed.
Print Assumptions C01_src_uint_sbb_ni.
Theorem C01_src_uint_carrying_neg_ni : forall N self1 self2, snd (l_uint_carrying_neg N self1) = snd (l_uint_carrying_neg N self2).
Proof. exact (@l_uint_carrying_neg_ni). Qed.
Print Assumptions C01_src_uint_carrying_neg_ni.
Theorem C01_src_uint_select_ni : forall N a1 b1 c1 a2 b2 c2, snd (l_uint_select N a1 b1 c1) = snd (l_uint_select N a2 b2 c2).
Proof. exact (@l_uint_select_ni). Qed.
Print Assumptions C01_src_uint_select_ni.
Theorem C01_src_uint_is_nonzero_ni : forall N self1 self2, snd (l_uint_is_nonzero N self1) = snd (l_uint_is_nonzero N self2).
Proof. exact (@l_uint_is_nonzero_ni). Qed.
Print Assumptions C01_src_uint_is_nonzero_ni.
Theorem C01_src_uint_is_odd_ni : forall N self1 self2, snd (l_uint_is_odd N self1) = snd (l_uint_is_odd N self2).
Proof. exact (@l_uint_is_odd_ni). Qed.
Print Assumptions C01_src_uint_is_odd_ni.
Theorem C01_src_uint_eq_ni : forall N lhs1 rhs1 lhs2 rhs2, snd (l_uint_eq N lhs1 rhs1) = snd (l_uint_eq N lhs2 rhs2).
Proof. exact (@l_uint_eq_ni). Qed.
Print Assumptions C01_src_uint_eq_ni.
Theorem C01_src_uint_lt_ni : forall N lhs1 rhs1 lhs2 rhs2, snd (l_uint_lt N lhs1 rhs1) = snd (l_uint_lt N lhs2 rhs2).
Proof. exact (@l_uint_lt_ni). Qed.
Print Assumptions C01_src_uint_lt_ni.
Theorem C01_src_uint_gt_ni : forall N lhs1 rhs1 lhs2 rhs2, snd (l_uint_gt N lhs1 rhs1) = snd (l_uint_gt N lhs2 rhs2).
Proof. exact (@l_uint_gt_ni). Qed.
Print Assumptions C01_src_uint_gt_ni.
Theorem C01_src_uint_lte_ni : forall N lhs1 rhs1 lhs2 rhs2, snd (l_uint_lte N lhs1 rhs1) = snd (l_uint_lte N lhs2 rhs2).
Proof. exact (@l_uint_lte_ni). Qed.
Print Assumptions C01_src_uint_lte_ni.
Theorem C01_src_uint_wrapping_add_ni : forall N self1 rhs1 self2 rhs2, snd (l_uint_wrapping_add N self1 rhs1) = snd (l_uint_wrapping_add N self2 rhs2).
Proof. exact (@l_uint_wrapping_add_ni). Qed.
Print Assumptions C01_src_uint_wrapping_add_ni.
Theorem C01_src_uint_saturating_add_ni : forall N self1 rhs1 self2 rhs2, snd (l_uint_saturating_add N self1 rhs1) = snd (l_uint_saturating_add N self2 rhs2).
Proof. exact (@l_uint_saturating_add_ni). Qed.
Print Assumptions C01_src_uint_saturating_add_ni.
Theorem C01_src_uint_wrapping_sub_ni : forall N self1 rhs1 self2 rhs2, snd (l_uint_wrapping_sub N self1 rhs1) = snd (l_uint_wrapping_sub N self2 rhs2).
Proof. exact (@l_uint_wrapping_sub_ni). Qed.
Print Assumptions C01_src_uint_wrapping_sub_ni.
Theorem C01_src_uint_saturating_sub_ni : forall N self1 rhs1 self2 rhs2, snd (l_uint_saturating_sub N self1 rhs1) = snd (l_uint_saturating_sub N self2 rhs2).
Proof. exact (@l_uint_saturating_sub_ni). Qed.
Print Assumptions C01_src_uint_saturating_sub_ni.
(** ** Src/LeakMod.v *)
Theorem C01_src_limb_wrapping_neg_ni : forall (self1 : Z) (self2 : Z), snd (l_limb_wrapping_neg self1) = snd (l_limb_wrapping_neg self2).
Proof. exact (@l_limb_wrapping_neg_ni). Qed.
Print Assumptions C01_src_limb_wrapping_neg_ni.
Theorem C01_src_limb_not_ni : forall (self1 : Z) (self2 : Z), snd (l_limb_not self1) = snd (l_limb_not self2).
Proof. exact (@l_limb_not_ni). Qed.
Print Assumptions C01_src_limb_not_ni.
Theorem C01_src_limb_bitand_ni : forall (self1 : Z) (rhs1 : Z) (self2 : Z) (rhs2 : Z), snd (l_limb_bitand self1 rhs1) = snd (l_limb_bitand self2 rhs2).
Proof. exact (@l_limb_bitand_ni). Qed.
Print Assumptions C01_src_limb_bitand_ni.
Theorem C01_src_uint_bitand_limb_ni : forall N self1 rhs1 self2 rhs2, snd (l_uint_bitand_limb N self1 rhs1) = snd (l_uint_bitand_limb N self2 rhs2).
Proof. exact (@l_uint_bitand_limb_ni). Qed.
Print Assumptions C01_src_uint_bitand_limb_ni.
Theorem C01_src_uint_from_word_ni : forall N n1 n2, snd (l_uint_from_word N n1) = snd (l_uint_from_word N n2).
Proof. exact (@l_uint_from_word_ni). Qed.
Print Assumptions C01_src_uint_from_word_ni.
Theorem C01_src_uint_add_mod_ni : forall N self1 rhs1 p1 self2 rhs2 p2, snd (l_uint_add_mod N self1 rhs1 p1) = snd (l_uint_add_mod N self2 rhs2 p2).
Proof. exact (@l_uint_add_mod_ni). Qed.
Print Assumptions C01_src_uint_add_mod_ni.
Theorem C01_src_uint_add_mod_special_ni : forall N self1 rhs1 c1 self2 rhs2 c2, snd (l_uint_add_mod_special N self1 rhs1 c1) = snd (l_uint_add_mod_special N self2 rhs2 c2).
Proof. exact (@l_uint_add_mod_special_ni). Qed.
Print Assumptions C01_src_uint_add_mod_special_ni.
Theorem C01_src_uint_sub_mod_ni : forall N self1 rhs1 p1 self2 rhs2 p2, snd (l_uint_sub_mod N self1 rhs1 p1) = snd (l_uint_sub_mod N self2 rhs2 p2).
Proof. exact (@l_uint_sub_mod_ni). Qed.
Print Assumptions C01_src_uint_sub_mod_ni.
Theorem C01_src_uint_sub_mod_with_carry_ni : forall N self1 carry1 rhs1 p1 self2 carry2 rhs2 p2, snd (l_uint_sub_mod_with_carry N self1 carry1 rhs1 p1) = snd (l_uint_sub_mod_with_carry N self2 carry2 rhs2 p2).
Proof. exact (@l_uint_sub_mod_with_carry_ni). Qed.
Print Assumptions C01_src_uint_sub_mod_with_carry_ni.
Theorem C01_src_uint_sub_mod_special_ni : forall N self1 rhs1 c1 self2 rhs2 c2, snd (l_uint_sub_mod_special N self1 rhs1 c1) = snd (l_uint_sub_mod_special N self2 rhs2 c2).
Proof. exact (@l_uint_sub_mod_special_ni). Qed.
Print Assumptions C01_src_uint_sub_mod_special_ni.
Theorem C01_src_uint_neg_mod_ni : forall N self1 p1 self2 p2, snd (l_uint_neg_mod N self1 p1) = snd (l_uint_neg_mod N self2 p2).
Proof. exact (@l_uint_neg_mod_ni). Qed.
Print Assumptions C01_src_uint_neg_mod_ni.
Theorem C01_src_uint_neg_mod_special_ni : forall N self1 c1 self2 c2, snd (l_uint_neg_mod_special N self1 c1) = snd (l_uint_neg_mod_special N self2 c2).
Proof. exact (@l_uint_neg_mod_special_ni). Qed.
Print Assumptions C01_src_uint_neg_mod_special_ni.
(** ** Src/LeakShift.v *)
Theorem C01_src_limb_HI_BIT_ni : snd (l_limb_HI_BIT ) = snd (l_limb_HI_BIT ).
Proof. exact (@l_limb_HI_BIT_ni). Qed.
Print Assumptions C01_src_limb_HI_BIT_ni.
Theorem C01_src_limb_shl1_ni : forall (self1 : Z) (self2 : Z), snd (l_limb_shl1 self1) = snd (l_limb_shl1 self2).
Proof. exact (@l_limb_shl1_ni). Qed.
Print Assumptions C01_src_limb_shl1_ni.
Theorem C01_src_limb_shr1_ni : forall (self1 : Z) (self2 : Z), snd (l_limb_shr1 self1) = snd (l_limb_shr1 self2).
Proof. exact (@l_limb_shr1_ni). Qed.
Print Assumptions C01_src_limb_shr1_ni.
Theorem C01_src_limb_bitor_ni : forall (self1 : Z) (rhs1 : Z) (self2 : Z) (rhs2 : Z), snd (l_limb_bitor self1 rhs1) = snd (l_limb_bitor self2 rhs2).
Proof. exact (@l_limb_bitor_ni). Qed.
Print Assumptions C01_src_limb_bitor_ni.
Theorem C01_src_limb_shl_ni : forall (self1 : Z) (shift1 : Z) (self2 : Z) (shift2 : Z), snd (l_limb_shl self1 shift1) = snd (l_limb_shl self2 shift2).
Proof. exact (@l_limb_shl_ni). Qed.
Print Assumptions C01_src_limb_shl_ni.
Theorem C01_src_limb_shr_ni : forall (self1 : Z) (shift1 : Z) (self2 : Z) (shift2 : Z), snd (l_limb_shr self1 shift1) = snd (l_limb_shr self2 shift2).
Proof. exact (@l_limb_shr_ni). Qed.
Print Assumptions C01_src_limb_shr_ni.
Theorem C01_src_uint_overflowing_shl1_ni : forall N self1 self2, snd (l_uint_overflowing_shl1 N self1) = snd (l_uint_overflowing_shl1 N self2).
Proof. exact (@l_uint_overflowing_shl1_ni). Qed.
Print Assumptions C01_src_uint_overflowing_shl1_ni.
Theorem C01_src_uint_shr1_with_carry_ni : forall N self1 self2, snd (l_uint_shr1_with_carry N self1) = snd (l_uint_shr1_with_carry N self2).
Proof. exact (@l_uint_shr1_with_carry_ni). Qed.
Print Assumptions C01_src_uint_shr1_with_carry_ni.
Theorem C01_src_uint_shr1_ni : forall N self1 self2, snd (l_uint_shr1 N self1) = snd (l_uint_shr1 N self2).
Proof. exact (@l_uint_shr1_ni). Qed.
Print Assumptions C01_src_uint_shr1_ni.
Theorem C01_src_uint_shl_limb_ni : forall N self1 shift1 self2 shift2, snd (l_uint_shl_limb N self1 shift1) = snd (l_uint_shl_limb N self2 shift2).
Proof. exact (@l_uint_shl_limb_ni). Qed.
Print Assumptions C01_src_uint_shl_limb_ni.
Theorem C01_src_ctopt_new_ni : forall (T : Type) (value1 : T) (is_some1 : Z) (value2 : T) (is_some2 : Z), snd (l_ctopt_new value1 is_some1) = snd (l_ctopt_new value2 is_some2).
Proof. exact (@l_ctopt_new_ni). Qed.
Print Assumptions C01_src_ctopt_new_ni.
Theorem C01_src_ctopt_some_ni : forall (T : Type) (value1 : T) (value2 : T), snd (l_ctopt_some value1) = snd (l_ctopt_some value2).
Proof. exact (@l_ctopt_some_ni). Qed.
Print Assumptions C01_src_ctopt_some_ni.
Theorem C01_src_ctopt_none_ni : forall (T : Type) (dummy_value1 : T) (dummy_value2 : T), snd (l_ctopt_none dummy_value1) = snd (l_ctopt_none dummy_value2).
Proof. exact (@l_ctopt_none_ni). Qed.
Print Assumptions C01_src_ctopt_none_ni.
Theorem C01_src_uint_BITS_ni : forall (N : nat), snd (l_uint_BITS N) = snd (l_uint_BITS N).
Proof. exact (@l_uint_BITS_ni). Qed.
Print Assumptions C01_src_uint_BITS_ni.
Theorem C01_src_uint_overflowing_shl_vartime_ni : forall N shift self1 self2, snd (l_uint_overflowing_shl_vartime N self1 shift) = snd (l_uint_overflowing_shl_vartime N self2 shift).
Proof. exact (@l_uint_overflowing_shl_vartime_ni). Qed.
Print Assumptions C01_src_uint_overflowing_shl_vartime_ni.
Theorem C01_src_uint_overflowing_shr_vartime_ni : forall N shift self1 self2, snd (l_uint_overflowing_shr_vartime N self1 shift) = snd (l_uint_overflowing_shr_vartime N self2 shift).
Proof. exact (@l_uint_overflowing_shr_vartime_ni). Qed.
Print Assumptions C01_src_uint_overflowing_shr_vartime_ni.
(** ** Src/LeakMul.v *)
Theorem C01_src_limb_mac_ni : forall (self1 : Z) (b1 : Z) (c1 : Z) (carry1 : Z) (self2 : Z) (b2 : Z) (c2 : Z) (carry2 : Z), snd (l_limb_mac self1 b1 c1 carry1) = snd (l_limb_mac self2 b2 c2 carry2).
Proof. exact (@l_limb_mac_ni). Qed.
Print Assumptions C01_src_limb_mac_ni.
Theorem C01_src_limb_overflowing_add_ni : forall (self1 : Z) (rhs1 : Z) (self2 : Z) (rhs2 : Z), snd (l_limb_overflowing_add self1 rhs1) = snd (l_limb_overflowing_add self2 rhs2).
Proof. exact (@l_limb_overflowing_add_ni). Qed.
Print Assumptions C01_src_limb_overflowing_add_ni.
Theorem C01_src_schoolbook_multiplication_ni : forall lhs1 rhs1 lo1 hi1 lhs2 rhs2 lo2 hi2, length lhs1 = length lhs2 -> length rhs1 = length rhs2 -> length lo1 = length lo2 -> length hi1 = length hi2 -> snd (l_schoolbook_multiplication lhs1 rhs1 lo1 hi1) = snd (l_schoolbook_multiplication lhs2 rhs2 lo2 hi2).
Proof. exact (@l_schoolbook_multiplication_ni). Qed.
Print Assumptions C01_src_schoolbook_multiplication_ni.
Theorem C01_src_schoolbook_squaring_ni : forall limbs1 lo1 hi1 limbs2 lo2 hi2, length limbs1 = length limbs2 -> length lo1 = length lo2 -> length hi1 = length hi2 -> snd (l_schoolbook_squaring limbs1 lo1 hi1) = snd (l_schoolbook_squaring limbs2 lo2 hi2).
Proof. exact (@l_schoolbook_squaring_ni). Qed.
Print Assumptions C01_src_schoolbook_squaring_ni.
(** ** Src/LeakInt.v *)
Theorem C01_src_limb_bitxor_ni : forall (self1 : Z) (rhs1 : Z) (self2 : Z) (rhs2 : Z), snd (l_limb_bitxor self1 rhs1) = snd (l_limb_bitxor self2 rhs2).
Proof. exact (@l_limb_bitxor_ni). Qed.
Print Assumptions C01_src_limb_bitxor_ni.
Theorem C01_src_uint_bitxor_ni : forall N self1 rhs1 self2 rhs2, snd (l_uint_bitxor N self1 rhs1) = snd (l_uint_bitxor N self2 rhs2).
Proof. exact (@l_uint_bitxor_ni). Qed.
Print Assumptions C01_src_uint_bitxor_ni.
Theorem C01_src_uint_to_words_ni : forall N self1 self2, snd (l_uint_to_words N self1) = snd (l_uint_to_words N self2).
Proof. exact (@l_uint_to_words_ni). Qed.
Print Assumptions C01_src_uint_to_words_ni.
Theorem C01_src_uint_from_u8_ni : forall N n1 n2, snd (l_uint_from_u8 N n1) = snd (l_uint_from_u8 N n2).
Proof. exact (@l_uint_from_u8_ni). Qed.
Print Assumptions C01_src_uint_from_u8_ni.
Theorem C01_src_uint_ONE_ni : forall N, snd (l_uint_ONE N) = snd (l_uint_ONE N).
Proof. exact (@l_uint_ONE_ni). Qed.
Print Assumptions C01_src_uint_ONE_ni.
Theorem C01_src_uint_wrapping_neg_ni : forall N self1 self2, snd (l_uint_wrapping_neg N self1) = snd (l_uint_wrapping_neg N self2).
Proof. exact (@l_uint_wrapping_neg_ni). Qed.
Print Assumptions C01_src_uint_wrapping_neg_ni.
Theorem C01_src_uint_wrapping_neg_if_ni : forall N self1 negate1 self2 negate2, snd (l_uint_wrapping_neg_if N self1 negate1) = snd (l_uint_wrapping_neg_if N self2 negate2).
Proof. exact (@l_uint_wrapping_neg_if_ni). Qed.
Print Assumptions C01_src_uint_wrapping_neg_if_ni.
Theorem C01_src_int_ONE_ni : forall N, snd (l_int_ONE N) = snd (l_int_ONE N).
Proof. exact (@l_int_ONE_ni). Qed.
Print Assumptions C01_src_int_ONE_ni.
Theorem C01_src_int_most_significant_word_ni : forall N self1 self2, snd (l_int_most_significant_word N self1) = snd (l_int_most_significant_word N self2).
Proof. exact (@l_int_most_significant_word_ni). Qed.
Print Assumptions C01_src_int_most_significant_word_ni.
Theorem C01_src_int_is_negative_ni : forall N self1 self2, snd (l_int_is_negative N self1) = snd (l_int_is_negative N self2).
Proof. exact (@l_int_is_negative_ni). Qed.
Print Assumptions C01_src_int_is_negative_ni.
Theorem C01_src_int_overflowing_add_ni : forall N self1 rhs1 self2 rhs2, snd (l_int_overflowing_add N self1 rhs1) = snd (l_int_overflowing_add N self2 rhs2).
Proof. exact (@l_int_overflowing_add_ni). Qed.
Print Assumptions C01_src_int_overflowing_add_ni.
Theorem C01_src_int_wrapping_add_ni : forall N self1 rhs1 self2 rhs2, snd (l_int_wrapping_add N self1 rhs1) = snd (l_int_wrapping_add N self2 rhs2).
Proof. exact (@l_int_wrapping_add_ni). Qed.
Print Assumptions C01_src_int_wrapping_add_ni.
Theorem C01_src_int_wrapping_sub_ni : forall N self1 v1 self2 v2, snd (l_int_wrapping_sub N self1 v1) = snd (l_int_wrapping_sub N self2 v2).
Proof. exact (@l_int_wrapping_sub_ni). Qed.
Print Assumptions C01_src_int_wrapping_sub_ni.
Theorem C01_src_int_overflowing_neg_ni : forall N self1 self2, snd (l_int_overflowing_neg N self1) = snd (l_int_overflowing_neg N self2).
Proof. exact (@l_int_overflowing_neg_ni). Qed.
Print Assumptions C01_src_int_overflowing_neg_ni.
Theorem C01_src_int_wrapping_neg_ni : forall N self1 self2, snd (l_int_wrapping_neg N self1) = snd (l_int_wrapping_neg N self2).
Proof. exact (@l_int_wrapping_neg_ni). Qed.
Print Assumptions C01_src_int_wrapping_neg_ni.
Theorem C01_src_int_wrapping_neg_if_ni : forall N self1 negate1 self2 negate2, snd (l_int_wrapping_neg_if N self1 negate1) = snd (l_int_wrapping_neg_if N self2 negate2).
Proof. exact (@l_int_wrapping_neg_if_ni). Qed.
Print Assumptions C01_src_int_wrapping_neg_if_ni.
Theorem C01_src_int_abs_sign_ni : forall N self1 self2, snd (l_int_abs_sign N self1) = snd (l_int_abs_sign N self2).
Proof. exact (@l_int_abs_sign_ni). Qed.
Print Assumptions C01_src_int_abs_sign_ni.
Theorem C01_src_int_abs_ni : forall N self1 self2, snd (l_int_abs N self1) = snd (l_int_abs N self2).
Proof. exact (@l_int_abs_ni). Qed.
Print Assumptions C01_src_int_abs_ni.
(** ** Src/LeakDivLimb.v *)
Theorem C01_src_uint_as_limbs_ni : forall (N : nat) (self1 : list Z) (self2 : list Z), snd (l_uint_as_limbs N self1) = snd (l_uint_as_limbs N self2).
Proof. exact (@l_uint_as_limbs_ni). Qed.
Print Assumptions C01_src_uint_as_limbs_ni.
Theorem C01_src_Reciprocal_new_ni : forall divisor1 divisor2, snd (l_Reciprocal_new divisor1) = snd (l_Reciprocal_new divisor2).
Proof. exact (@l_Reciprocal_new_ni). Qed.
Print Assumptions C01_src_Reciprocal_new_ni.
Theorem C01_src_div_rem_limb_with_reciprocal_ni : forall L u1 reciprocal1 u2 reciprocal2, snd (l_div_rem_limb_with_reciprocal L u1 reciprocal1) = snd (l_div_rem_limb_with_reciprocal L u2 reciprocal2).
Proof. exact (@l_div_rem_limb_with_reciprocal_ni). Qed.
Print Assumptions C01_src_div_rem_limb_with_reciprocal_ni.
Theorem C01_src_rem_limb_with_reciprocal_ni : forall L u1 reciprocal1 u2 reciprocal2, snd (l_rem_limb_with_reciprocal L u1 reciprocal1) = snd (l_rem_limb_with_reciprocal L u2 reciprocal2).
Proof. exact (@l_rem_limb_with_reciprocal_ni). Qed.
Print Assumptions C01_src_rem_limb_with_reciprocal_ni.
Theorem C01_src_rem_limb_with_reciprocal_wide_ni : forall L lo_hi1 reciprocal1 lo_hi2 reciprocal2, snd (l_rem_limb_with_reciprocal_wide L lo_hi1 reciprocal1) = snd (l_rem_limb_with_reciprocal_wide L lo_hi2 reciprocal2).
Proof. exact (@l_rem_limb_with_reciprocal_wide_ni). Qed.
Print Assumptions C01_src_rem_limb_with_reciprocal_wide_ni.
(** ** Src/LeakMonty.v *)
Theorem C01_src_limb_wrapping_mul_ni : forall (self1 : Z) (rhs1 : Z) (self2 : Z) (rhs2 : Z), snd (l_limb_wrapping_mul self1 rhs1) = snd (l_limb_wrapping_mul self2 rhs2).
Proof. exact (@l_limb_wrapping_mul_ni). Qed.
Print Assumptions C01_src_limb_wrapping_mul_ni.
Theorem C01_src_montgomery_reduction_inner_ni : forall upper1 lower1 modulus1 mod_neg_inv1 upper2 lower2 modulus2 mod_neg_inv2, length modulus1 = length modulus2 -> snd (l_montgomery_reduction_inner upper1 lower1 modulus1 mod_neg_inv1) = snd (l_montgomery_reduction_inner upper2 lower2 modulus2 mod_neg_inv2).
Proof. exact (@l_montgomery_reduction_inner_ni). Qed.
Print Assumptions C01_src_montgomery_reduction_inner_ni.
Theorem C01_src_montgomery_reduction_ni : forall N lower_upper1 modulus1 mod_neg_inv1 lower_upper2 modulus2 mod_neg_inv2, length modulus1 = length modulus2 -> snd (l_montgomery_reduction N lower_upper1 modulus1 mod_neg_inv1) = snd (l_montgomery_reduction N lower_upper2 modulus2 mod_neg_inv2).
Proof. exact (@l_montgomery_reduction_ni). Qed.
Print Assumptions C01_src_montgomery_reduction_ni.
(** ** Src/LeakHex.v *)
Theorem C01_src_decode_nibble_ni : forall (src1 : Z) (src2 : Z), snd (l_decode_nibble src1) = snd (l_decode_nibble src2).
Proof. exact (@l_decode_nibble_ni). Qed.
Print Assumptions C01_src_decode_nibble_ni.
Theorem C01_src_decode_hex_byte_ni : forall bytes1 bytes2, snd (l_decode_hex_byte bytes1) = snd (l_decode_hex_byte bytes2).
Proof. exact (@l_decode_hex_byte_ni). Qed.
Print Assumptions C01_src_decode_hex_byte_ni.
(** ** Src/LeakBits.v *)
Theorem C01_src_limb_leading_zeros_ni : forall (self1 : Z) (self2 : Z), snd (l_limb_leading_zeros self1) = snd (l_limb_leading_zeros self2).
Proof. exact (@l_limb_leading_zeros_ni). Qed.
Print Assumptions C01_src_limb_leading_zeros_ni.
Theorem C01_src_slice_leading_zeros_ni : forall limbs1 limbs2, length limbs1 = length limbs2 -> snd (l_slice_leading_zeros limbs1) = snd (l_slice_leading_zeros limbs2).
Proof. exact (@l_slice_leading_zeros_ni). Qed.
Print Assumptions C01_src_slice_leading_zeros_ni.
Theorem C01_src_uint_leading_zeros_ni : forall N self1 self2, length self1 = length self2 -> snd (l_uint_leading_zeros N self1) = snd (l_uint_leading_zeros N self2).
Proof. exact (@l_uint_leading_zeros_ni). Qed.
Print Assumptions C01_src_uint_leading_zeros_ni.
Theorem C01_src_uint_bits_ni : forall N self1 self2, length self1 = length self2 -> snd (l_uint_bits N self1) = snd (l_uint_bits N self2).
Proof. exact (@l_uint_bits_ni). Qed.
Print Assumptions C01_src_uint_bits_ni.
Theorem C01_src_ctopt_uint_expect_ni : forall (N : nat) (self1 : (list Z * Z)) (msg1 : unit) (self2 : (list Z * Z)) (msg2 : unit), snd (l_ctopt_uint_expect N self1 msg1) = snd (l_ctopt_uint_expect N self2 msg2).
Proof. exact (@l_ctopt_uint_expect_ni). Qed.
Print Assumptions C01_src_ctopt_uint_expect_ni.
Theorem C01_src_uint_overflowing_shl_ni : forall N self1 shift1 self2 shift2,
  pubview (snd (l_uint_overflowing_shl N self1 shift1)) = pubview (snd (l_uint_overflowing_shl N self2 shift2)).
Proof. exact l_uint_overflowing_shl_pv. Qed.
Print Assumptions C01_src_uint_overflowing_shl_ni.
Theorem C01_src_uint_overflowing_shl_strict_refuted : exists N self s1 s2, snd (l_uint_overflowing_shl N self s1) <> snd (l_uint_overflowing_shl N self s2).
Proof. exact l_uint_overflowing_shl_strict_refuted. Qed.
Print Assumptions C01_src_uint_overflowing_shl_strict_refuted.
Theorem C01_src_uint_shl_ni : forall N self1 shift1 self2 shift2,
  pubview (snd (l_uint_shl N self1 shift1)) = pubview (snd (l_uint_shl N self2 shift2)).
Proof. exact l_uint_shl_pv. Qed.
Print Assumptions C01_src_uint_shl_ni.
Theorem C01_src_uint_shl_strict_refuted : exists N self s1 s2, snd (l_uint_shl N self s1) <> snd (l_uint_shl N self s2).
Proof. exact l_uint_shl_strict_refuted. Qed.
Print Assumptions C01_src_uint_shl_strict_refuted.
Theorem C01_src_uint_overflowing_shr_ni : forall N self1 shift1 self2 shift2,
  pubview (snd (l_uint_overflowing_shr N self1 shift1)) = pubview (snd (l_uint_overflowing_shr N self2 shift2)).
Proof. exact l_uint_overflowing_shr_pv. Qed.
Print Assumptions C01_src_uint_overflowing_shr_ni.
Theorem C01_src_uint_overflowing_shr_strict_refuted : exists N self s1 s2, snd (l_uint_overflowing_shr N self s1) <> snd (l_uint_overflowing_shr N self s2).
Proof. exact l_uint_overflowing_shr_strict_refuted. Qed.
Print Assumptions C01_src_uint_overflowing_shr_strict_refuted.
Theorem C01_src_uint_shr_ni : forall N self1 shift1 self2 shift2,
  pubview (snd (l_uint_shr N self1 shift1)) = pubview (snd (l_uint_shr N self2 shift2)).
Proof. exact l_uint_shr_pv. Qed.
Print Assumptions C01_src_uint_shr_ni.
Theorem C01_src_uint_shr_strict_refuted : exists N self s1 s2, snd (l_uint_shr N self s1) <> snd (l_uint_shr N self s2).
Proof. exact l_uint_shr_strict_refuted. Qed.
Print Assumptions C01_src_uint_shr_strict_refuted.
Theorem C01_src_uint_to_limbs_ni : forall (N : nat) (self1 : list Z) (self2 : list Z), snd (l_uint_to_limbs N self1) = snd (l_uint_to_limbs N self2).
Proof. exact (@l_uint_to_limbs_ni). Qed.
Print Assumptions C01_src_uint_to_limbs_ni.
(** ** Src/LeakDivCt.v *)
Theorem C01_src_limb_to_nz_ni : forall (self1 : Z) (self2 : Z), snd (l_limb_to_nz self1) = snd (l_limb_to_nz self2).
Proof. exact (@l_limb_to_nz_ni). Qed.
Print Assumptions C01_src_limb_to_nz_ni.
Theorem C01_src_ctopt_nzlimb_expect_ni : forall (self1 : (Z * Z)) (msg1 : unit) (self2 : (Z * Z)) (msg2 : unit), snd (l_ctopt_nzlimb_expect self1 msg1) = snd (l_ctopt_nzlimb_expect self2 msg2).
Proof. exact (@l_ctopt_nzlimb_expect_ni). Qed.
Print Assumptions C01_src_ctopt_nzlimb_expect_ni.
Theorem C01_src_uint_div_rem_limb_ni : forall N self1 rhs1 self2 rhs2, snd (l_uint_div_rem_limb N self1 rhs1) = snd (l_uint_div_rem_limb N self2 rhs2).
Proof. exact (@l_uint_div_rem_limb_ni). Qed.
Print Assumptions C01_src_uint_div_rem_limb_ni.
Theorem C01_src_uint_div_rem_ni : forall N self1 rhs1 self2 rhs2, length rhs1 = length rhs2 ->
  pubview (snd (l_uint_div_rem N self1 rhs1)) = pubview (snd (l_uint_div_rem N self2 rhs2)).
Proof. exact l_uint_div_rem_pv. Qed.
Print Assumptions C01_src_uint_div_rem_ni.
Theorem C01_src_uint_div_rem_strict_refuted :
  exists N self rhs1 rhs2, length rhs1 = length rhs2 /\ snd (l_uint_div_rem N self rhs1) <> snd (l_uint_div_rem N self rhs2).
Proof. exact l_uint_div_rem_strict_refuted. Qed.
Print Assumptions C01_src_uint_div_rem_strict_refuted.

(** ** the traces are not trivial *)
(** Uint::adc on 3 limbs: the trip count, then per limb two reads and one write at the loop counter *)
Example C01_src_uint_adc_trace :
  snd (l_uint_adc 3 [1; 2; 3] [4; 5; 6] 0) =
  [ev_trip 3; ev_ix 0; ev_ix 0; ev_ix 0; ev_ix 1; ev_ix 1; ev_ix 1; ev_ix 2; ev_ix 2; ev_ix 2].
Proof. vm_compute. reflexivity. Qed.
(** the trace of a `_vartime` function DOES vary with its public operand: a shift by 1 bit and by one whole limb *)
Example C01_src_shl_vartime_varies :
  snd (l_uint_overflowing_shl_vartime 4 [1; 2; 3; 4] 1) <> snd (l_uint_overflowing_shl_vartime 4 [1; 2; 3; 4] 64).
Proof. vm_compute. discriminate. Qed.
(** and the long division at 3 limbs emits several hundred events, the same for two unrelated operand pairs (up to pubview) *)
Example C01_src_div_rem_nonvacuous :
  Nat.ltb 300 (length (snd (l_uint_div_rem 3 [1; 2; 3] [5; 6; 0]))) = true /\
  pubview (snd (l_uint_div_rem 3 [1; 2; 3] [5; 6; 0])) = pubview (snd (l_uint_div_rem 3 [2 ^ 64 - 1; 0; 2 ^ 63] [0; 0; 1])).
Proof. vm_compute. split; reflexivity. Qed.

(** ** Groups added to the translator after the first 219 kernels: square root, almost-Montgomery multiplication, special-modulus
    multiplication, signed division fronts (Src/LeakSqrtP.v, LeakAmmP.v, LeakMulModP.v, LeakIntDivP.v).
    Uint::sqrt / wrapping_sqrt and every division front rest on Uint::div_rem and the constant-time shifts, so their statement is
    up to [pubview] like that of Uint::div_rem, with the machine-checked witness that the strict trace varies.
    Uint::mul_mod_special calls the EXTERN `Uint::split_mul` (not translated): it is the parameter [lx] returning (value, trace), and
    the theorem ASSUMES [lx_public lx] -- the trace of lx depends on the limb count and the lengths of its arguments only.
    NonZero::new_unwrap branches on `n != 0`: the divisor of a division front is a NonZero by type, stated as the hypotheses
    [nz_limb] / [nz_uint] / [nz_int] (the test of the source text returns true), under which the branch is the same in both runs. *)
From CB Require Import Src.LeakSqrt Src.LeakSqrtP Src.LeakAmm Src.LeakAmmP Src.LeakMulMod Src.LeakMulModP.

(** ** Src/LeakSqrt.v *)
Theorem C01_src_uint_LOG2_BITS_ni : forall N, snd (l_uint_LOG2_BITS N) = snd (l_uint_LOG2_BITS N).
Proof. exact (@l_uint_LOG2_BITS_ni). Qed.
Print Assumptions C01_src_uint_LOG2_BITS_ni.
Theorem C01_src_uint_sqrt_ni : forall N self1 self2, length self1 = length self2 ->
  pubview (snd (l_uint_sqrt N self1)) = pubview (snd (l_uint_sqrt N self2)).
Proof. exact (@l_uint_sqrt_pv). Qed.
Print Assumptions C01_src_uint_sqrt_ni.
Theorem C01_src_uint_sqrt_strict_refuted : exists N self1 self2, length self1 = length self2 /\ snd (l_uint_sqrt N self1) <> snd (l_uint_sqrt N self2).
Proof. exact l_uint_sqrt_strict_refuted. Qed.
Print Assumptions C01_src_uint_sqrt_strict_refuted.
Theorem C01_src_uint_wrapping_sqrt_ni : forall N self1 self2, length self1 = length self2 ->
  pubview (snd (l_uint_wrapping_sqrt N self1)) = pubview (snd (l_uint_wrapping_sqrt N self2)).
Proof. exact (@l_uint_wrapping_sqrt_pv). Qed.
Print Assumptions C01_src_uint_wrapping_sqrt_ni.
Theorem C01_src_uint_wrapping_sqrt_strict_refuted : exists N self1 self2, length self1 = length self2 /\ snd (l_uint_wrapping_sqrt N self1) <> snd (l_uint_wrapping_sqrt N self2).
Proof. exact l_uint_wrapping_sqrt_strict_refuted. Qed.
Print Assumptions C01_src_uint_wrapping_sqrt_strict_refuted.

(** ** Src/LeakAmm.v *)
Theorem C01_src_limb_wrapping_add_ni : forall (self1 : Z) (rhs1 : Z) (self2 : Z) (rhs2 : Z), snd (l_limb_wrapping_add self1 rhs1) = snd (l_limb_wrapping_add self2 rhs2).
Proof. exact (@l_limb_wrapping_add_ni). Qed.
Print Assumptions C01_src_limb_wrapping_add_ni.
Theorem C01_src_add_mul_carry_ni : forall z1 x1 y1 z2 x2 y2, length z1 = length z2 -> length x1 = length x2 ->
  snd (l_add_mul_carry z1 x1 y1) = snd (l_add_mul_carry z2 x2 y2).
Proof. exact (@l_add_mul_carry_ni). Qed.
Print Assumptions C01_src_add_mul_carry_ni.
Theorem C01_src_add_mul_carry_and_shift_ni : forall z1 x1 y1 z2 x2 y2, length z1 = length z2 -> length x1 = length x2 ->
  snd (l_add_mul_carry_and_shift z1 x1 y1) = snd (l_add_mul_carry_and_shift z2 x2 y2).
Proof. exact (@l_add_mul_carry_and_shift_ni). Qed.
Print Assumptions C01_src_add_mul_carry_and_shift_ni.
Theorem C01_src_conditional_sub_ni : forall z1 x1 c1 z2 x2 c2, length z1 = length z2 -> length x1 = length x2 ->
  snd (l_conditional_sub z1 x1 c1) = snd (l_conditional_sub z2 x2 c2).
Proof. exact (@l_conditional_sub_ni). Qed.
Print Assumptions C01_src_conditional_sub_ni.
Theorem C01_src_almost_montgomery_mul_ni : forall z1 x1 y1 m1 k1 z2 x2 y2 m2 k2, length z1 = length z2 -> length x1 = length x2 -> length y1 = length y2 -> length m1 = length m2 ->
  snd (l_almost_montgomery_mul z1 x1 y1 m1 k1) = snd (l_almost_montgomery_mul z2 x2 y2 m2 k2).
Proof. exact (@l_almost_montgomery_mul_ni). Qed.
Print Assumptions C01_src_almost_montgomery_mul_ni.
Theorem C01_src_almost_montgomery_mul_by_one_ni : forall z1 x1 m1 k1 z2 x2 m2 k2, length z1 = length z2 -> length x1 = length x2 -> length m1 = length m2 ->
  snd (l_almost_montgomery_mul_by_one z1 x1 m1 k1) = snd (l_almost_montgomery_mul_by_one z2 x2 m2 k2).
Proof. exact (@l_almost_montgomery_mul_by_one_ni). Qed.
Print Assumptions C01_src_almost_montgomery_mul_by_one_ni.

(** ** Src/LeakMulMod.v *)
Theorem C01_src_uint_double_mod_ni : forall N self1 p1 self2 p2, snd (l_uint_double_mod N self1 p1) = snd (l_uint_double_mod N self2 p2).
Proof. exact (@l_uint_double_mod_ni). Qed.
Print Assumptions C01_src_uint_double_mod_ni.
Theorem C01_src_uint_from_words_ni : forall N arr1 arr2, snd (l_uint_from_words N arr1) = snd (l_uint_from_words N arr2).
Proof. exact (@l_uint_from_words_ni). Qed.
Print Assumptions C01_src_uint_from_words_ni.
Theorem C01_src_uint_from_wide_word_ni : forall N n1 n2, snd (l_uint_from_wide_word N n1) = snd (l_uint_from_wide_word N n2).
Proof. exact (@l_uint_from_wide_word_ni). Qed.
Print Assumptions C01_src_uint_from_wide_word_ni.
Theorem C01_src_nz_limb_new_unwrap_ni : forall n1 n2, nz_limb n1 -> nz_limb n2 -> snd (l_nz_limb_new_unwrap n1) = snd (l_nz_limb_new_unwrap n2).
Proof. exact (@l_nz_limb_new_unwrap_ni). Qed.
Print Assumptions C01_src_nz_limb_new_unwrap_ni.
Theorem C01_src_mul_rem_ni : forall a1 b1 d1 a2 b2 d2, snd (l_mul_rem a1 b1 d1) = snd (l_mul_rem a2 b2 d2).
Proof. exact (@l_mul_rem_ni). Qed.
Print Assumptions C01_src_mul_rem_ni.
Theorem C01_src_mac_by_limb_ni : forall N a1 b1 c1 carry1 a2 b2 c2 carry2, snd (l_mac_by_limb N a1 b1 c1 carry1) = snd (l_mac_by_limb N a2 b2 c2 carry2).
Proof. exact (@l_mac_by_limb_ni). Qed.
Print Assumptions C01_src_mac_by_limb_ni.
Theorem C01_src_uint_mul_mod_special_ni : forall lx N c self1 rhs1 self2 rhs2, lx_public lx -> length self1 = length self2 -> length rhs1 = length rhs2 ->
  snd (l_uint_mul_mod_special lx N self1 rhs1 c) = snd (l_uint_mul_mod_special lx N self2 rhs2 c).
Proof. exact (@l_uint_mul_mod_special_ni). Qed.
Print Assumptions C01_src_uint_mul_mod_special_ni.
Theorem C01_src_split_mul_assumption_satisfiable : lx_public (fun N a b => l_schoolbook_multiplication a b (repeat 0 N) (repeat 0 N)).
Proof. exact (@lx_public_schoolbook). Qed.
Print Assumptions C01_src_split_mul_assumption_satisfiable.

From CB Require Import Src.LeakIntDiv Src.LeakIntDivP.
(** ** Src/LeakIntDiv.v *)
Theorem C01_src_int_MAX_ni : forall N, snd (l_int_MAX N) = snd (l_int_MAX N).
Proof. exact (@l_int_MAX_ni). Qed.
Print Assumptions C01_src_int_MAX_ni.
Theorem C01_src_int_MIN_ni : forall N, snd (l_int_MIN N) = snd (l_int_MIN N).
Proof. exact (@l_int_MIN_ni). Qed.
Print Assumptions C01_src_int_MIN_ni.
Theorem C01_src_int_from_bits_ni : forall N1 value1 N2 value2, snd (l_int_from_bits N1 value1) = snd (l_int_from_bits N2 value2).
Proof. exact (@l_int_from_bits_ni). Qed.
Print Assumptions C01_src_int_from_bits_ni.
Theorem C01_src_uint_as_int_ni : forall N1 self1 N2 self2, snd (l_uint_as_int N1 self1) = snd (l_uint_as_int N2 self2).
Proof. exact (@l_uint_as_int_ni). Qed.
Print Assumptions C01_src_uint_as_int_ni.
Theorem C01_src_int_new_from_abs_sign_ni : forall N abs1 is_negative1 abs2 is_negative2, snd (l_int_new_from_abs_sign N abs1 is_negative1) = snd (l_int_new_from_abs_sign N abs2 is_negative2).
Proof. exact (@l_int_new_from_abs_sign_ni). Qed.
Print Assumptions C01_src_int_new_from_abs_sign_ni.
Theorem C01_src_nz_uint_new_unwrap_ni : forall N n1 n2, nz_uint N n1 -> nz_uint N n2 -> snd (l_nz_uint_new_unwrap N n1) = snd (l_nz_uint_new_unwrap N n2).
Proof. exact (@l_nz_uint_new_unwrap_ni). Qed.
Print Assumptions C01_src_nz_uint_new_unwrap_ni.
Theorem C01_src_nz_int_abs_sign_ni : forall N self1 self2, nz_int N self1 -> nz_int N self2 -> snd (l_nz_int_abs_sign N self1) = snd (l_nz_int_abs_sign N self2).
Proof. exact (@l_nz_int_abs_sign_ni). Qed.
Print Assumptions C01_src_nz_int_abs_sign_ni.
Theorem C01_src_int_div_rem_base_ni : forall N self1 rhs1 self2 rhs2, nz_int N rhs1 -> nz_int N rhs2 ->
  pubview (snd (l_int_div_rem_base N self1 rhs1)) = pubview (snd (l_int_div_rem_base N self2 rhs2)).
Proof. exact (@l_int_div_rem_base_pv). Qed.
Print Assumptions C01_src_int_div_rem_base_ni.
Theorem C01_src_int_checked_div_rem_ni : forall N self1 rhs1 self2 rhs2, nz_int N rhs1 -> nz_int N rhs2 ->
  pubview (snd (l_int_checked_div_rem N self1 rhs1)) = pubview (snd (l_int_checked_div_rem N self2 rhs2)).
Proof. exact (@l_int_checked_div_rem_pv). Qed.
Print Assumptions C01_src_int_checked_div_rem_ni.
Theorem C01_src_int_rem_ni : forall N self1 rhs1 self2 rhs2, nz_int N rhs1 -> nz_int N rhs2 ->
  pubview (snd (l_int_rem N self1 rhs1)) = pubview (snd (l_int_rem N self2 rhs2)).
Proof. exact (@l_int_rem_pv). Qed.
Print Assumptions C01_src_int_rem_ni.
Theorem C01_src_int_checked_div_rem_floor_ni : forall N self1 rhs1 self2 rhs2, nz_int N rhs1 -> nz_int N rhs2 ->
  pubview (snd (l_int_checked_div_rem_floor N self1 rhs1)) = pubview (snd (l_int_checked_div_rem_floor N self2 rhs2)).
Proof. exact (@l_int_checked_div_rem_floor_pv). Qed.
Print Assumptions C01_src_int_checked_div_rem_floor_ni.
Theorem C01_src_int_div_rem_base_uint_ni : forall N self1 rhs1 self2 rhs2, length rhs1 = length rhs2 ->
  pubview (snd (l_int_div_rem_base_uint N self1 rhs1)) = pubview (snd (l_int_div_rem_base_uint N self2 rhs2)).
Proof. exact (@l_int_div_rem_base_uint_pv). Qed.
Print Assumptions C01_src_int_div_rem_base_uint_ni.
Theorem C01_src_int_div_rem_uint_ni : forall N self1 rhs1 self2 rhs2, length rhs1 = length rhs2 ->
  pubview (snd (l_int_div_rem_uint N self1 rhs1)) = pubview (snd (l_int_div_rem_uint N self2 rhs2)).
Proof. exact (@l_int_div_rem_uint_pv). Qed.
Print Assumptions C01_src_int_div_rem_uint_ni.
Theorem C01_src_int_div_uint_ni : forall N self1 rhs1 self2 rhs2, length rhs1 = length rhs2 ->
  pubview (snd (l_int_div_uint N self1 rhs1)) = pubview (snd (l_int_div_uint N self2 rhs2)).
Proof. exact (@l_int_div_uint_pv). Qed.
Print Assumptions C01_src_int_div_uint_ni.
Theorem C01_src_int_rem_uint_ni : forall N self1 rhs1 self2 rhs2, length rhs1 = length rhs2 ->
  pubview (snd (l_int_rem_uint N self1 rhs1)) = pubview (snd (l_int_rem_uint N self2 rhs2)).
Proof. exact (@l_int_rem_uint_pv). Qed.
Print Assumptions C01_src_int_rem_uint_ni.
Theorem C01_src_int_div_rem_floor_uint_ni : forall N self1 rhs1 self2 rhs2, length rhs1 = length rhs2 ->
  pubview (snd (l_int_div_rem_floor_uint N self1 rhs1)) = pubview (snd (l_int_div_rem_floor_uint N self2 rhs2)).
Proof. exact (@l_int_div_rem_floor_uint_pv). Qed.
Print Assumptions C01_src_int_div_rem_floor_uint_ni.
Theorem C01_src_int_div_floor_uint_ni : forall N self1 rhs1 self2 rhs2, length rhs1 = length rhs2 ->
  pubview (snd (l_int_div_floor_uint N self1 rhs1)) = pubview (snd (l_int_div_floor_uint N self2 rhs2)).
Proof. exact (@l_int_div_floor_uint_pv). Qed.
Print Assumptions C01_src_int_div_floor_uint_ni.
Theorem C01_src_int_normalized_rem_ni : forall N self1 rhs1 self2 rhs2, length rhs1 = length rhs2 ->
  pubview (snd (l_int_normalized_rem N self1 rhs1)) = pubview (snd (l_int_normalized_rem N self2 rhs2)).
Proof. exact (@l_int_normalized_rem_pv). Qed.
Print Assumptions C01_src_int_normalized_rem_ni.
Theorem C01_src_nz_int_satisfiable : nz_int 2 [3; 0] /\ nz_int 2 [2 ^ 64 - 1; 2 ^ 64 - 1] /\ nz_int 2 [0; 1].
Proof. exact nz_int_examples. Qed.
Print Assumptions C01_src_nz_int_satisfiable.
Theorem C01_src_int_checked_div_rem_strict_refuted : exists N self rhs1 rhs2, nz_int N rhs1 /\ nz_int N rhs2 /\
  snd (l_int_checked_div_rem N self rhs1) <> snd (l_int_checked_div_rem N self rhs2).
Proof. exact l_int_checked_div_rem_strict_refuted. Qed.
Print Assumptions C01_src_int_checked_div_rem_strict_refuted.
Theorem C01_src_int_checked_div_rem_floor_strict_refuted : exists N self rhs1 rhs2, nz_int N rhs1 /\ nz_int N rhs2 /\
  snd (l_int_checked_div_rem_floor N self rhs1) <> snd (l_int_checked_div_rem_floor N self rhs2).
Proof. exact l_int_checked_div_rem_floor_strict_refuted. Qed.
Print Assumptions C01_src_int_checked_div_rem_floor_strict_refuted.
Theorem C01_src_int_div_rem_uint_strict_refuted : exists N self rhs1 rhs2, length rhs1 = length rhs2 /\
  snd (l_int_div_rem_uint N self rhs1) <> snd (l_int_div_rem_uint N self rhs2).
Proof. exact l_int_div_rem_uint_strict_refuted. Qed.
Print Assumptions C01_src_int_div_rem_uint_strict_refuted.

(** ** the new traces are not trivial: one row of add_mul_carry on 2 limbs; the CIOS loop of almost_montgomery_mul on 2 limbs emits
    the same 48 events for two unrelated operand sets *)
Example C01_src_add_mul_carry_trace :
  snd (l_add_mul_carry [1; 2] [3; 4] 5) = [ev_br false; ev_trip 2; ev_ix 0; ev_ix 0; ev_ix 0; ev_ix 1; ev_ix 1; ev_ix 1].
Proof. vm_compute. reflexivity. Qed.
Example C01_src_amm_nonvacuous :
  Nat.ltb 40 (length (snd (l_almost_montgomery_mul [0; 0] [1; 2] [3; 4] [5; 6] 7))) = true /\
  snd (l_almost_montgomery_mul [0; 0] [1; 2] [3; 4] [5; 6] 7) = snd (l_almost_montgomery_mul [9; 9] [2 ^ 64 - 1; 0] [0; 2 ^ 63] [1; 1] 0).
Proof. vm_compute. split; reflexivity. Qed.

(** ** Groups added to the translator after the 170 kernels above: Uint::cmp, the Int comparisons, the byte / hex / primitive conversions, the
    NonZero / Odd constructors, the word-level kernels of safegcd (49 more kernels, 219 in all). tools/rs2v_leak.py mirrors the constructs these
    needed (i8 / i64 / i128 arithmetic, nested arrays, byte slices and &str, calls through a type alias, nested function items, deferred
    untyped lets, `loop { .. break .. }` with fuel). PUBLIC in every statement: the limb count, and the LENGTH of a byte slice / hex string
    (hypotheses [length x1 = length x2]); the bytes and hex characters themselves, every limb and every word are secret.
    NOT noninterferent at source level (each with a machine-checked witness; see Src/LeakSafeGcdP.v):
      UnsatInt::mul  branches on the SIGN of its i64 multiplicand (C01_src_unsat_mul_ni assumes the signs agree; C01_src_unsat_mul_sign_visible);
      fg             noninterferent in f, g for a PUBLIC matrix only (C01_src_fg_ni, C01_src_fg_matrix_sign_visible);
      de             C01_src_de_refuted (the sign of md / me, computed from d, e, reaches that branch); C01_src_de_ni_given_signs: nothing else;
      jump           C01_src_jump_refuted: it branches on `delta > 0` and (nested `min`) on the trailing zeros of g -- finding F10. l_jump takes
                     fuel and returns option (value * trace) ([tr_of]: the trace of a run that reached the `break`);
                     C01_src_jump_consistent: its value is g_jump's;
      iterations     `/ 17`: up to pubview only (C01_src_iterations_ni, C01_src_iterations_strict_refuted). *)
From CB Require Import Src.LeakCmp Src.LeakCmpP Src.LeakIntCmp Src.LeakIntCmpP Src.LeakConv Src.LeakConvP Src.LeakWrap Src.LeakWrapP Src.GenSafeGcd Src.LeakSafeGcd Src.LeakSafeGcdP.
(** ** Src/LeakCmp.v *)
Theorem C01_src_uint_cmp_ni : forall N lhs1 rhs1 lhs2 rhs2, snd (l_uint_cmp N lhs1 rhs1) = snd (l_uint_cmp N lhs2 rhs2).
Proof. exact (@l_uint_cmp_ni). Qed.
Print Assumptions C01_src_uint_cmp_ni.
(** ** Src/LeakIntCmp.v *)
Theorem C01_src_int_SIGN_MASK_ni : forall N, snd (l_int_SIGN_MASK N) = snd (l_int_SIGN_MASK N).
Proof. exact (@l_int_SIGN_MASK_ni). Qed.
Print Assumptions C01_src_int_SIGN_MASK_ni.
Theorem C01_src_int_invert_msb_ni : forall N self1 self2, snd (l_int_invert_msb N self1) = snd (l_int_invert_msb N self2).
Proof. exact (@l_int_invert_msb_ni). Qed.
Print Assumptions C01_src_int_invert_msb_ni.
Theorem C01_src_int_eq_ni : forall N lhs1 rhs1 lhs2 rhs2, snd (l_int_eq N lhs1 rhs1) = snd (l_int_eq N lhs2 rhs2).
Proof. exact (@l_int_eq_ni). Qed.
Print Assumptions C01_src_int_eq_ni.
Theorem C01_src_int_lt_ni : forall N lhs1 rhs1 lhs2 rhs2, snd (l_int_lt N lhs1 rhs1) = snd (l_int_lt N lhs2 rhs2).
Proof. exact (@l_int_lt_ni). Qed.
Print Assumptions C01_src_int_lt_ni.
Theorem C01_src_int_gt_ni : forall N lhs1 rhs1 lhs2 rhs2, snd (l_int_gt N lhs1 rhs1) = snd (l_int_gt N lhs2 rhs2).
Proof. exact (@l_int_gt_ni). Qed.
Print Assumptions C01_src_int_gt_ni.
Theorem C01_src_int_cmp_ni : forall N lhs1 rhs1 lhs2 rhs2, snd (l_int_cmp N lhs1 rhs1) = snd (l_int_cmp N lhs2 rhs2).
Proof. exact (@l_int_cmp_ni). Qed.
Print Assumptions C01_src_int_cmp_ni.
(** ** Src/LeakConv.v *)
Theorem C01_src_uint_from_be_slice_ni : forall N bytes1 bytes2, length bytes1 = length bytes2 -> snd (l_uint_from_be_slice N bytes1) = snd (l_uint_from_be_slice N bytes2).
Proof. exact (@l_uint_from_be_slice_ni). Qed.
Print Assumptions C01_src_uint_from_be_slice_ni.
Theorem C01_src_uint_from_le_slice_ni : forall N bytes1 bytes2, length bytes1 = length bytes2 -> snd (l_uint_from_le_slice N bytes1) = snd (l_uint_from_le_slice N bytes2).
Proof. exact (@l_uint_from_le_slice_ni). Qed.
Print Assumptions C01_src_uint_from_le_slice_ni.
Theorem C01_src_uint_from_be_hex_ni : forall N hex1 hex2, length hex1 = length hex2 -> snd (l_uint_from_be_hex N hex1) = snd (l_uint_from_be_hex N hex2).
Proof. exact (@l_uint_from_be_hex_ni). Qed.
Print Assumptions C01_src_uint_from_be_hex_ni.
Theorem C01_src_uint_from_le_hex_ni : forall N hex1 hex2, length hex1 = length hex2 -> snd (l_uint_from_le_hex N hex1) = snd (l_uint_from_le_hex N hex2).
Proof. exact (@l_uint_from_le_hex_ni). Qed.
Print Assumptions C01_src_uint_from_le_hex_ni.
Theorem C01_src_uint_from_u16_ni : forall N n1 n2, snd (l_uint_from_u16 N n1) = snd (l_uint_from_u16 N n2).
Proof. exact (@l_uint_from_u16_ni). Qed.
Print Assumptions C01_src_uint_from_u16_ni.
Theorem C01_src_uint_from_u32_ni : forall N n1 n2, snd (l_uint_from_u32 N n1) = snd (l_uint_from_u32 N n2).
Proof. exact (@l_uint_from_u32_ni). Qed.
Print Assumptions C01_src_uint_from_u32_ni.
Theorem C01_src_uint_from_u64_ni : forall N n1 n2, snd (l_uint_from_u64 N n1) = snd (l_uint_from_u64 N n2).
Proof. exact (@l_uint_from_u64_ni). Qed.
Print Assumptions C01_src_uint_from_u64_ni.
Theorem C01_src_uint_from_u128_ni : forall N n1 n2, snd (l_uint_from_u128 N n1) = snd (l_uint_from_u128 N n2).
Proof. exact (@l_uint_from_u128_ni). Qed.
Print Assumptions C01_src_uint_from_u128_ni.
Theorem C01_src_int_from_be_hex_ni : forall N hex1 hex2, length hex1 = length hex2 -> snd (l_int_from_be_hex N hex1) = snd (l_int_from_be_hex N hex2).
Proof. exact (@l_int_from_be_hex_ni). Qed.
Print Assumptions C01_src_int_from_be_hex_ni.
(** ** Src/LeakWrap.v *)
Theorem C01_src_uint_to_nz_ni : forall N self1 self2, snd (l_uint_to_nz N self1) = snd (l_uint_to_nz N self2).
Proof. exact (@l_uint_to_nz_ni). Qed.
Print Assumptions C01_src_uint_to_nz_ni.
Theorem C01_src_uint_to_odd_ni : forall N self1 self2, snd (l_uint_to_odd N self1) = snd (l_uint_to_odd N self2).
Proof. exact (@l_uint_to_odd_ni). Qed.
Print Assumptions C01_src_uint_to_odd_ni.
Theorem C01_src_int_to_nz_ni : forall N self1 self2, snd (l_int_to_nz N self1) = snd (l_int_to_nz N self2).
Proof. exact (@l_int_to_nz_ni). Qed.
Print Assumptions C01_src_int_to_nz_ni.
Theorem C01_src_int_to_odd_ni : forall N self1 self2, snd (l_int_to_odd N self1) = snd (l_int_to_odd N self2).
Proof. exact (@l_int_to_odd_ni). Qed.
Print Assumptions C01_src_int_to_odd_ni.
Theorem C01_src_odd_uint_from_be_hex_ni : forall N hex1 hex2, length hex1 = length hex2 -> snd (l_odd_uint_from_be_hex N hex1) = snd (l_odd_uint_from_be_hex N hex2).
Proof. exact (@l_odd_uint_from_be_hex_ni). Qed.
Print Assumptions C01_src_odd_uint_from_be_hex_ni.
Theorem C01_src_odd_uint_from_le_hex_ni : forall N hex1 hex2, length hex1 = length hex2 -> snd (l_odd_uint_from_le_hex N hex1) = snd (l_odd_uint_from_le_hex N hex2).
Proof. exact (@l_odd_uint_from_le_hex_ni). Qed.
Print Assumptions C01_src_odd_uint_from_le_hex_ni.
(** ** Src/LeakSafeGcd.v *)
Theorem C01_src_cc_as_u64_mask_ni : forall self1 self2, snd (l_cc_as_u64_mask self1) = snd (l_cc_as_u64_mask self2).
Proof. exact (@l_cc_as_u64_mask_ni). Qed.
Print Assumptions C01_src_cc_as_u64_mask_ni.
Theorem C01_src_cc_from_u64_lsb_ni : forall value1 value2, snd (l_cc_from_u64_lsb value1) = snd (l_cc_from_u64_lsb value2).
Proof. exact (@l_cc_from_u64_lsb_ni). Qed.
Print Assumptions C01_src_cc_from_u64_lsb_ni.
Theorem C01_src_cc_from_u64_nonzero_ni : forall value1 value2, snd (l_cc_from_u64_nonzero value1) = snd (l_cc_from_u64_nonzero value2).
Proof. exact (@l_cc_from_u64_nonzero_ni). Qed.
Print Assumptions C01_src_cc_from_u64_nonzero_ni.
Theorem C01_src_cc_from_u64_eq_ni : forall x1 y1 x2 y2, snd (l_cc_from_u64_eq x1 y1) = snd (l_cc_from_u64_eq x2 y2).
Proof. exact (@l_cc_from_u64_eq_ni). Qed.
Print Assumptions C01_src_cc_from_u64_eq_ni.
Theorem C01_src_cc_from_u64_lt_ni : forall x1 y1 x2 y2, snd (l_cc_from_u64_lt x1 y1) = snd (l_cc_from_u64_lt x2 y2).
Proof. exact (@l_cc_from_u64_lt_ni). Qed.
Print Assumptions C01_src_cc_from_u64_lt_ni.
Theorem C01_src_cc_from_u64_gt_ni : forall x1 y1 x2 y2, snd (l_cc_from_u64_gt x1 y1) = snd (l_cc_from_u64_gt x2 y2).
Proof. exact (@l_cc_from_u64_gt_ni). Qed.
Print Assumptions C01_src_cc_from_u64_gt_ni.
Theorem C01_src_cc_select_u64_ni : forall self1 a1 b1 self2 a2 b2, snd (l_cc_select_u64 self1 a1 b1) = snd (l_cc_select_u64 self2 a2 b2).
Proof. exact (@l_cc_select_u64_ni). Qed.
Print Assumptions C01_src_cc_select_u64_ni.
Theorem C01_src_inv_mod2_62_ni : forall value1 value2, snd (l_inv_mod2_62 value1) = snd (l_inv_mod2_62 value2).
Proof. exact (@l_inv_mod2_62_ni). Qed.
Print Assumptions C01_src_inv_mod2_62_ni.
Theorem C01_src_unsat_LIMB_BITS_ni : forall N, snd (l_unsat_LIMB_BITS N) = snd (l_unsat_LIMB_BITS N).
Proof. exact (@l_unsat_LIMB_BITS_ni). Qed.
Print Assumptions C01_src_unsat_LIMB_BITS_ni.
Theorem C01_src_unsat_MASK_ni : forall N, snd (l_unsat_MASK N) = snd (l_unsat_MASK N).
Proof. exact (@l_unsat_MASK_ni). Qed.
Print Assumptions C01_src_unsat_MASK_ni.
Theorem C01_src_unsat_MINUS_ONE_ni : forall N, snd (l_unsat_MINUS_ONE N) = snd (l_unsat_MINUS_ONE N).
Proof. exact (@l_unsat_MINUS_ONE_ni). Qed.
Print Assumptions C01_src_unsat_MINUS_ONE_ni.
Theorem C01_src_unsat_ZERO_ni : forall N, snd (l_unsat_ZERO N) = snd (l_unsat_ZERO N).
Proof. exact (@l_unsat_ZERO_ni). Qed.
Print Assumptions C01_src_unsat_ZERO_ni.
Theorem C01_src_unsat_ONE_ni : forall N, snd (l_unsat_ONE N) = snd (l_unsat_ONE N).
Proof. exact (@l_unsat_ONE_ni). Qed.
Print Assumptions C01_src_unsat_ONE_ni.
Theorem C01_src_unsat_is_negative_ni : forall N self1 self2, snd (l_unsat_is_negative N self1) = snd (l_unsat_is_negative N self2).
Proof. exact (@l_unsat_is_negative_ni). Qed.
Print Assumptions C01_src_unsat_is_negative_ni.
Theorem C01_src_unsat_lowest_ni : forall N self1 self2, snd (l_unsat_lowest N self1) = snd (l_unsat_lowest N self2).
Proof. exact (@l_unsat_lowest_ni). Qed.
Print Assumptions C01_src_unsat_lowest_ni.
Theorem C01_src_unsat_add_ni : forall N self1 other1 self2 other2, snd (l_unsat_add N self1 other1) = snd (l_unsat_add N self2 other2).
Proof. exact (@l_unsat_add_ni). Qed.
Print Assumptions C01_src_unsat_add_ni.
Theorem C01_src_unsat_mul_ni : forall N self1 other1 self2 other2, Z.ltb other1 0 = Z.ltb other2 0 -> snd (l_unsat_mul N self1 other1) = snd (l_unsat_mul N self2 other2).
Proof. exact (@l_unsat_mul_ni). Qed.
Print Assumptions C01_src_unsat_mul_ni.
Theorem C01_src_unsat_mul_sign_visible : exists N self other1 other2, snd (l_unsat_mul N self other1) <> snd (l_unsat_mul N self other2).
Proof. exact (@l_unsat_mul_sign_visible). Qed.
Print Assumptions C01_src_unsat_mul_sign_visible.
Theorem C01_src_unsat_neg_ni : forall N self1 self2, snd (l_unsat_neg N self1) = snd (l_unsat_neg N self2).
Proof. exact (@l_unsat_neg_ni). Qed.
Print Assumptions C01_src_unsat_neg_ni.
Theorem C01_src_unsat_shr_ni : forall N self1 self2, snd (l_unsat_shr N self1) = snd (l_unsat_shr N self2).
Proof. exact (@l_unsat_shr_ni). Qed.
Print Assumptions C01_src_unsat_shr_ni.
Theorem C01_src_unsat_eq_ni : forall N self1 other1 self2 other2, snd (l_unsat_eq N self1 other1) = snd (l_unsat_eq N self2 other2).
Proof. exact (@l_unsat_eq_ni). Qed.
Print Assumptions C01_src_unsat_eq_ni.
Theorem C01_src_unsat_select_ni : forall N a1 b1 choice1 a2 b2 choice2, snd (l_unsat_select N a1 b1 choice1) = snd (l_unsat_select N a2 b2 choice2).
Proof. exact (@l_unsat_select_ni). Qed.
Print Assumptions C01_src_unsat_select_ni.
Theorem C01_src_fg_ni : forall N t f1 g1 f2 g2, snd (l_fg N f1 g1 t) = snd (l_fg N f2 g2 t).
Proof. exact (@l_fg_ni). Qed.
Print Assumptions C01_src_fg_ni.
Theorem C01_src_fg_matrix_sign_visible : exists N f g t1 t2, snd (l_fg N f g t1) <> snd (l_fg N f g t2).
Proof. exact (@l_fg_matrix_sign_visible). Qed.
Print Assumptions C01_src_fg_matrix_sign_visible.
Theorem C01_src_de_ni_given_signs : forall N modulus inverse t d1 e1 d2 e2, Z.ltb (fst (de_md_me N inverse t d1 e1)) 0 = Z.ltb (fst (de_md_me N inverse t d2 e2)) 0 ->
  Z.ltb (snd (de_md_me N inverse t d1 e1)) 0 = Z.ltb (snd (de_md_me N inverse t d2 e2)) 0 ->
  snd (l_de N modulus inverse t d1 e1) = snd (l_de N modulus inverse t d2 e2).
Proof. exact (@l_de_ni_given_signs). Qed.
Print Assumptions C01_src_de_ni_given_signs.
Theorem C01_src_de_refuted : exists N modulus inverse t d1 e1 d2 e2, snd (l_de N modulus inverse t d1 e1) <> snd (l_de N modulus inverse t d2 e2).
Proof. exact (@l_de_refuted). Qed.
Print Assumptions C01_src_de_refuted.
Theorem C01_src_jump_refuted : exists fuel f g1 g2 delta,
  l_jump fuel f g1 delta <> None /\ l_jump fuel f g2 delta <> None /\ tr_of (l_jump fuel f g1 delta) <> tr_of (l_jump fuel f g2 delta).
Proof. exact (@l_jump_refuted). Qed.
Print Assumptions C01_src_jump_refuted.
Theorem C01_src_jump_delta_visible : exists fuel f g delta1 delta2,
  l_jump fuel f g delta1 <> None /\ l_jump fuel f g delta2 <> None /\ tr_of (l_jump fuel f g delta1) <> tr_of (l_jump fuel f g delta2).
Proof. exact (@l_jump_delta_visible). Qed.
Print Assumptions C01_src_jump_delta_visible.
Theorem C01_src_unsat_leading_zeros_ni : forall N self1 self2, snd (l_unsat_leading_zeros N self1) = snd (l_unsat_leading_zeros N self2).
Proof. exact (@l_unsat_leading_zeros_ni). Qed.
Print Assumptions C01_src_unsat_leading_zeros_ni.
Theorem C01_src_unsat_bits_ni : forall N self1 self2, snd (l_unsat_bits N self1) = snd (l_unsat_bits N self2).
Proof. exact (@l_unsat_bits_ni). Qed.
Print Assumptions C01_src_unsat_bits_ni.
Theorem C01_src_iterations_ni : forall f_bits1 g_bits1 f_bits2 g_bits2, pubview (snd (l_iterations f_bits1 g_bits1)) = pubview (snd (l_iterations f_bits2 g_bits2)).
Proof. exact (@l_iterations_pv). Qed.
Print Assumptions C01_src_iterations_ni.
Theorem C01_src_iterations_strict_refuted : exists f1 g1 f2 g2, snd (l_iterations f1 g1) <> snd (l_iterations f2 g2).
Proof. exact (@l_iterations_strict_refuted). Qed.
Print Assumptions C01_src_iterations_strict_refuted.
Theorem C01_src_jump_consistent : forall fuel f g delta, option_map fst (l_jump fuel f g delta) = g_jump fuel f g delta.
Proof. exact l_jump_fst. Qed.
Print Assumptions C01_src_jump_consistent.

(** ** Src/LeakLogic.v: Uint::bitand / bitor / not (both operands secret, the limb count public) *)
Theorem C01_src_uint_bitand_ni : forall N self1 rhs1 self2 rhs2, snd (l_uint_bitand N self1 rhs1) = snd (l_uint_bitand N self2 rhs2).
Proof. exact (@l_uint_bitand_ni). Qed.
Print Assumptions C01_src_uint_bitand_ni.
Theorem C01_src_uint_bitor_ni : forall N self1 rhs1 self2 rhs2, snd (l_uint_bitor N self1 rhs1) = snd (l_uint_bitor N self2 rhs2).
Proof. exact (@l_uint_bitor_ni). Qed.
Print Assumptions C01_src_uint_bitor_ni.
Theorem C01_src_uint_not_ni : forall N self1 self2, snd (l_uint_not N self1) = snd (l_uint_not N self2).
Proof. exact (@l_uint_not_ni). Qed.
Print Assumptions C01_src_uint_not_ni.
Theorem C01_src_uint_bitwise_consistent : forall N a b,
  fst (l_uint_bitand N a b) = g_uint_bitand N a b /\ fst (l_uint_bitor N a b) = g_uint_bitor N a b /\
  fst (l_uint_not N a) = g_uint_not N a.
Proof. intros N a b. repeat split; [apply l_uint_bitand_fst | apply l_uint_bitor_fst | apply l_uint_not_fst]. Qed.
Print Assumptions C01_src_uint_bitwise_consistent.

(** ** the new traces are not trivial *)
Example C01_src_uint_cmp_trace : snd (l_uint_cmp 2 [1; 2] [3; 4]) = [ev_trip 2; ev_ix 0; ev_ix 0; ev_ix 1; ev_ix 1].
Proof. vm_compute. reflexivity. Qed.
Example C01_src_from_be_hex_nonvacuous :
  Nat.ltb 40 (length (snd (l_uint_from_be_hex 1 [48; 49; 50; 51; 52; 53; 54; 55; 56; 57; 97; 98; 99; 100; 101; 102]))) = true /\
  snd (l_uint_from_be_hex 1 [48; 49; 50; 51; 52; 53; 54; 55; 56; 57; 97; 98; 99; 100; 101; 102]) = snd (l_uint_from_be_hex 1 (repeat 70 16)).
Proof. vm_compute. split; reflexivity. Qed.
