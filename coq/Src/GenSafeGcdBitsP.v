(** Translator tie, group SafeGcd, part 3: UnsatInt::leading_zeros / bits and the iteration count `iterations` of /repo's CURRENT
    src/modular/safegcd.rs (Src/GenSafeGcd.v) equal lz_scan62 / u_bits / iterations of Model/SafeGcd.v for every limb count n
    with 62 n < 2^32 and all 62-bit limb values.  Hand-written. *)
From CB Require Import Model.SrcPrelude Model.Word Model.Limbs Model.AddSub Model.Cmp Model.Bits Model.SafeGcd.
From CB Require Import Src.GenPrim Src.GenWidthP Src.GenPrimP Src.GenLoopP Src.GenIterP Src.GenUint Src.GenUintP Src.GenSafeGcd Src.GenSafeGcdP.
From CB Require Import Proofs.WordP Proofs.WordPredP Proofs.BitsWordP Proofs.SafeGcdArithP Proofs.SafeGcdUnsatP.
From Coq Require Import Lia List.
Import ListNotations.
Open Scope Z_scope.
Transparent B.

Lemma g_cc_from_u32_lt_spec x y : 0 <= x < 2 ^ 32 -> 0 <= y < 2 ^ 32 -> g_cc_from_u32_lt x y = choice_of_bool (x <? y).
Proof.
  intros Hx Hy. unfold g_cc_from_u32_lt. change (sub_ 32 32 1) with (32 - 1).
  rewrite (lt_bit 32 ltac:(lia) x y Hx Hy). destruct (x <? y); reflexivity.
Qed.

(* ---------------- iterations *)
Lemma g_iterations_eq f g : 0 <= f -> 0 <= g -> 49 * Z.max f g + 80 < 2 ^ 32 ->
  g_iterations f g = Z.of_nat (iterations f g).
Proof.
  intros Hf Hg Hb. unfold g_iterations, iterations.
  rewrite g_cc_from_u32_lt_spec by lia. rewrite g_cc_select_u32_spec by lia.
  set (d := if f <? g then g else f).
  assert (Hd : 0 <= d /\ d <= Z.max f g) by (unfold d; destruct (Z.ltb_spec f g); lia).
  rewrite g_cc_from_u32_lt_spec by lia. rewrite g_cc_select_u32_spec by lia.
  set (ad := if d <? 46 then 80 else 57).
  assert (Ha : 57 <= ad <= 80) by (unfold ad; destruct (d <? 46); lia).
  unfold div_, add_, mul_. rewrite (Z.mod_small (49 * d)) by lia. rewrite Z.mod_small by lia.
  rewrite Z2Nat.id; [reflexivity|]. apply Z.div_pos; lia.
Qed.

(* ---------------- leading_zeros: the downward scan *)
Definition lzs (a : list Z) (j : nat) (s : Z * Z) : Z * Z :=
  (add_ 32 (fst s) (g_cc_if_true_u32 (snd s) (sub_ 32 (clz_ 64 (nth j a 0)) 2)),
   g_cc_and (snd s) (g_cc_not (g_cc_from_u64_nonzero (nth j a 0)))).

Lemma lz62_clz x : 0 <= x < P62 -> sub_ 32 (clz_ 64 x) 2 = lz62 x /\ 0 <= lz62 x <= 62.
Proof.
  intros Hx. unfold clz_, lz62, bitlen, sub_. destruct (Z.leb_spec x 0) as [H0|H0].
  - split; [reflexivity | lia].
  - assert (L : 0 <= Z.log2 x < 62).
    { split; [apply Z.log2_nonneg|]. apply Z.log2_lt_pow2; [lia|]. rewrite <- P62_pow. lia. }
    rewrite Z.mod_small by lia. lia.
Qed.
Lemma not_choice (p : bool) : g_cc_not (choice_of_bool p) = choice_of_bool (negb p).
Proof. destruct p; reflexivity. Qed.
Lemma u64_nonzero_spec x : is_word x -> g_cc_from_u64_nonzero x = choice_of_bool (negb (x =? 0)).
Proof. intros H. change (g_cc_from_u64_nonzero x) with (g_cc_from_word_nonzero x). apply g_nonzero_spec. exact H. Qed.

Lemma lz_scan62_range ls : forall c ne, wf62 ls -> c <= lz_scan62 ls c ne <= c + 62 * Z.of_nat (length ls).
Proof.
  induction ls as [|x r IH]; intros c ne W; [cbn; lia|].
  apply wf62_cons in W. destruct W as [Hx Wr]. cbn [lz_scan62 length]. rewrite Nat2Z.inj_succ.
  destruct (lz62_clz x Hx) as [_ R].
  destruct ne; cbn [andb]; [specialize (IH (c + lz62 x) (x =? 0) Wr) | specialize (IH c false Wr)]; lia.
Qed.

Lemma lz_fold62 a : forall pre post c ne, wf62 a -> 0 <= c -> c + 62 * Z.of_nat (length a) < 2 ^ 32 ->
  exists b, fold_left (fun s j => lzs (pre ++ a ++ post) j s) (rev (seq (length pre) (length a))) (c, choice_of_bool ne)
            = (lz_scan62 (rev a) c ne, choice_of_bool b).
Proof.
  induction a as [|x a' IH] using rev_ind; intros pre post c ne W Hc Hb.
  - exists ne. reflexivity.
  - apply wf62_app in W. destruct W as [Wa Wx]. apply wf62_cons in Wx. destruct Wx as [Hx _].
    rewrite app_length in *. cbn [length] in *. rewrite Nat.add_1_r in *. rewrite Nat2Z.inj_succ in Hb.
    rewrite seq_S, rev_app_distr. cbn [rev app fold_left].
    rewrite rev_app_distr. cbn [rev app lz_scan62].
    unfold lzs at 2. cbn [fst snd].
    assert (N : nth (length pre + length a') (pre ++ (a' ++ [x]) ++ post) 0 = x).
    { rewrite <- app_assoc. rewrite app_assoc. replace (length pre + length a')%nat with (length (pre ++ a')) by apply app_length.
      apply nth_middle. }
    rewrite N. destruct (lz62_clz x Hx) as [E R]. rewrite E.
    rewrite g_cc_if_true_u32_eq, if_true_u32_bool by (unfold U32; lia).
    rewrite u64_nonzero_spec by (apply wf62_word; assumption). rewrite not_choice, negb_involutive, choice_and_bool.
    assert (Ec : add_ 32 c (if ne then lz62 x else 0) = if ne then c + lz62 x else c).
    { unfold add_. destruct ne; rewrite Z.mod_small by lia; lia. }
    rewrite Ec.
    replace (pre ++ (a' ++ [x]) ++ post) with (pre ++ a' ++ (x :: post)) by (rewrite <- !app_assoc; reflexivity).
    apply IH; [assumption | destruct ne; lia | destruct ne; lia].
Qed.

Lemma g_unsat_leading_zeros_eq n a : length a = n -> wf62 a -> 62 * Z.of_nat n < 2 ^ 32 ->
  g_unsat_leading_zeros n a = lz_scan62 (rev a) 0 true.
Proof.
  intros Ha W Hn. unfold g_unsat_leading_zeros. cbv zeta. rewrite Nat2Z.id.
  match goal with |- context [Nat.iter n ?F (Z.of_nat n, 0, 2 ^ 64 - 1)] =>
    change (Nat.iter n F (Z.of_nat n, 0, 2 ^ 64 - 1)) with (Nat.iter n F (enc3 (Z.of_nat n) (0, 2 ^ 64 - 1)));
    rewrite (iter_enc_down F enc3 (lzs a)) end.
  - subst n. destruct (lz_fold62 a [] [] 0 true W ltac:(lia) ltac:(lia)) as [b E].
    cbn [app length] in E. rewrite app_nil_r in E. change (2 ^ 64 - 1) with (choice_of_bool true). rewrite E. reflexivity.
  - intros i [c nz] Hi. unfold enc3, lzs. cbn [fst snd]. reflexivity.
  - lia.
Qed.

Lemma g_unsat_bits_eq n a : length a = n -> wf62 a -> 62 * Z.of_nat n < 2 ^ 32 -> g_unsat_bits n a = u_bits a.
Proof.
  intros Ha W Hn. unfold g_unsat_bits, u_bits, lenZ. rewrite g_unsat_leading_zeros_eq by assumption.
  pose proof (lz_scan62_range (rev a) 0 true ltac:(unfold wf62 in *; apply Forall_rev; exact W)) as R.
  rewrite rev_length, Ha in R. rewrite Ha.
  unfold sub_, mul_, trunc_. rewrite (Z.mod_small (Z.of_nat n)) by lia. rewrite (Z.mod_small (Z.of_nat n * 62)) by lia.
  rewrite Z.mod_small by lia. lia.
Qed.
