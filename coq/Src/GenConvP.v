(** Translator tie, group Conv: the byte / hex decoders `Uint::from_be_slice`, `from_le_slice`, `from_be_hex`, `from_le_hex` of
    src/uint/encoding.rs and the primitive constructors `from_u16 / from_u32 / from_u64` of src/uint/from.rs as regenerated from
    /repo's CURRENT source (Src/GenConv.v) equal the models of Model/Conv.v.

    The generated text copies 8 bytes `bytes[i * 8 + j]` (usize arithmetic, wrapping) into a buffer with an inner loop, converts it with
    core's `from_be_bytes` / `from_le_bytes` (SrcPrelude.from_be_bytes_ / from_le_bytes_) and writes limb `LIMBS - i - 1` / `i`; the model
    cuts the byte list into `chunks 8 n`.  The hex decoders run the same loops over pairs of characters through the generated
    `g_decode_hex_byte` and OR the error words into `err`; the final `assert!(err == 0)` is dropped by the translator, so the loop is
    restated verbatim (`be_hex_loop` / `le_hex_loop`; `g_uint_from_be_hex_unfold` checks by reflexivity that it IS the generated text) and
    its error component `g_be_hex_err` / `g_le_hex_err` is the word the source asserts to be zero.
    Hypotheses: the length the source asserts (`bytes.len() == 8 * LIMBS` / `16 * LIMBS`) and that it fits a usize. *)
From CB Require Import Model.SrcPrelude Model.Limbs Model.Conv Src.GenHex Src.GenHexP Src.GenConv.
From CB Require Import Proofs.ConvDigitsP Proofs.ConvHexP Proofs.ConvBytesP.
From Coq Require Import ZArith Lia List Bool.
Import ListNotations.
Open Scope Z_scope.

(* ---------------- core's byte-array conversions are the positional values of the model *)
Lemma from_le_bytes_eq bs : from_le_bytes_ bs = word_from_le_bytes bs.
Proof. unfold word_from_le_bytes. induction bs as [|b r IH]; [reflexivity|]. cbn [from_le_bytes_ fold_right evalb] in *. unfold from_le_bytes_ in IH. rewrite IH. reflexivity. Qed.
Lemma from_be_bytes_eq bs : from_be_bytes_ bs = word_from_be_bytes bs.
Proof. unfold from_be_bytes_, word_from_be_bytes. apply (from_le_bytes_eq (rev bs)). Qed.

(* ---------------- lists *)
Lemma iter_S {T} (F : T -> T) k x : Nat.iter (S k) F x = F (Nat.iter k F x).
Proof. reflexivity. Qed.
Lemma skipn_add {A} (a b : nat) : forall l : list A, skipn a (skipn b l) = skipn (b + a) l.
Proof. induction b as [|b IH]; intros l; [reflexivity|]. destruct l; [destruct a; reflexivity|]. apply IH. Qed.
Lemma nth_skipn_ {A} (d : A) (k j : nat) : forall l : list A, nth j (skipn k l) d = nth (k + j) l d.
Proof. induction k as [|k IH]; intros l; [reflexivity|]. destruct l; [destruct j; reflexivity|]. apply IH. Qed.
Lemma upd_mid_ pre x post v : upd_ (pre ++ x :: post) (length pre) v = pre ++ v :: post.
Proof.
  unfold upd_. rewrite firstn_app, firstn_all, Nat.sub_diag. cbn [firstn]. rewrite app_nil_r.
  replace (S (length pre)) with (length (pre ++ [x])) by (rewrite app_length; cbn; lia).
  replace (pre ++ x :: post) with ((pre ++ [x]) ++ post) by (rewrite <- app_assoc; reflexivity).
  rewrite skipn_app, skipn_all, Nat.sub_diag. reflexivity.
Qed.
Lemma upd_mid_len pre x post v k : length pre = k -> upd_ (pre ++ x :: post) k v = pre ++ v :: post.
Proof. intros <-. apply upd_mid_. Qed.
Definition idx8n : list nat := [0; 1; 2; 3; 4; 5; 6; 7]%nat.
Definition idx8 : list Z := [0; 1; 2; 3; 4; 5; 6; 7].
Lemma firstn8_nth {A} (d : A) (l : list A) : (8 <= length l)%nat -> firstn 8 l = map (fun j => nth j l d) idx8n.
Proof. intros H. do 8 (destruct l as [|? l]; [cbn [length] in H; lia|]). reflexivity. Qed.
Lemma firstn_add_skipn {A} (a b : nat) : forall l : list A, firstn (a + b) l = firstn a l ++ firstn b (skipn a l).
Proof. induction a as [|a IH]; intros l; [reflexivity|]. destruct l; [destruct b; reflexivity|]. cbn [Nat.add firstn skipn app]. rewrite IH. reflexivity. Qed.
Lemma chunks_snoc m : forall bs, chunks 8 (S m) bs = chunks 8 m bs ++ [firstn 8 (skipn (8 * m) bs)].
Proof.
  induction m as [|m IH]; intros bs; [reflexivity|].
  change (chunks 8 (S (S m)) bs) with (firstn 8 bs :: chunks 8 (S m) (skipn 8 bs)). rewrite IH.
  change (chunks 8 (S m) bs) with (firstn 8 bs :: chunks 8 m (skipn 8 bs)). rewrite skipn_add.
  replace (8 + 8 * m)%nat with (8 * S m)%nat by lia. reflexivity.
Qed.
Lemma chunks_length m : forall bs, length (chunks 8 m bs) = m.
Proof. induction m as [|m IH]; intros bs; [reflexivity|]. cbn [chunks length]. rewrite IH. reflexivity. Qed.

(* ---------------- the index arithmetic `i * Limb::BYTES + j` at usize *)
Lemma idx_eq i (j : nat) L : 0 <= i -> (j < 8)%nat -> 8 * i + 8 <= L < 2 ^ 64 ->
  Z.to_nat (add_ 64 (mul_ 64 i 8) (Z.of_nat j)) = (8 * Z.to_nat i + j)%nat.
Proof. intros Hi Hj HL. unfold add_, mul_. rewrite (Z.mod_small (i * 8)) by lia. rewrite Z.mod_small by lia. lia. Qed.

(* ---------------- the inner loop `while j < Limb::BYTES { buf[j] = g j; j += 1 }` *)
Lemma inner_slice (g : Z -> Z) buf : length buf = 8%nat ->
  Nat.iter (Z.to_nat (8 - 0)) (fun st : Z * list Z => let '(j, buf) := st in (add_ 64 j 1, upd_ buf (Z.to_nat j) (g j))) (0, buf)
  = (8, map g idx8).
Proof. intros L. do 8 (destruct buf as [|? buf]; [discriminate|]). destruct buf; [|discriminate]. reflexivity. Qed.

Lemma map_nth_chunk (bs : list Z) i : 0 <= i -> 8 * i + 8 <= Z.of_nat (length bs) < 2 ^ 64 ->
  map (fun j => nth (Z.to_nat (add_ 64 (mul_ 64 i 8) j)) bs 0) idx8 = firstn 8 (skipn (8 * Z.to_nat i) bs).
Proof.
  intros Hi HL. rewrite (firstn8_nth 0) by (rewrite skipn_length; lia).
  change idx8 with (map Z.of_nat idx8n). rewrite map_map. apply map_ext_in. intros j Hj.
  assert (j < 8)%nat by (unfold idx8n in Hj; cbn [In] in Hj; lia).
  rewrite nth_skipn_. f_equal. apply idx_eq with (L := Z.of_nat (length bs)); assumption.
Qed.

(* ---------------- from_be_slice / from_le_slice: the outer loop body, verbatim up to the names *)
Definition slice_step (pos : Z -> Z) (conv : list Z -> Z) (bs : list Z) (st : Z * list Z * list Z) : Z * list Z * list Z :=
  let '(i, buf, res) := st in
  let '(j, buf) := Nat.iter (Z.to_nat (8 - 0)) (fun st : Z * list Z => let '(j, buf) := st in
      (add_ 64 j 1, upd_ buf (Z.to_nat j) (nth (Z.to_nat (add_ 64 (mul_ 64 i 8) j)) bs 0))) (0, buf) in
  (add_ 64 i 1, buf, upd_ res (Z.to_nat (pos i)) (conv buf)).

Lemma g_uint_from_be_slice_unfold n bs :
  g_uint_from_be_slice n bs =
  let '(_, _, res) := Nat.iter n (slice_step (fun i => sub_ 64 (sub_ 64 (Z.of_nat n) i) 1) from_be_bytes_ bs) (0, repeat 0 8, repeat 0 n) in res.
Proof. reflexivity. Qed.
Lemma g_uint_from_le_slice_unfold n bs :
  g_uint_from_le_slice n bs =
  let '(_, _, res) := Nat.iter n (slice_step (fun i => i) from_le_bytes_ bs) (0, repeat 0 8, repeat 0 n) in res.
Proof. reflexivity. Qed.

Lemma slice_step_eq pos conv bs i buf res : 0 <= i -> 8 * i + 8 <= Z.of_nat (length bs) < 2 ^ 64 -> length buf = 8%nat ->
  slice_step pos conv bs (i, buf, res) =
  (i + 1, firstn 8 (skipn (8 * Z.to_nat i) bs), upd_ res (Z.to_nat (pos i)) (conv (firstn 8 (skipn (8 * Z.to_nat i) bs)))).
Proof.
  intros Hi HL Lb. unfold slice_step.
  rewrite (inner_slice (fun j => nth (Z.to_nat (add_ 64 (mul_ 64 i 8) j)) bs 0) buf Lb).
  rewrite map_nth_chunk by assumption. f_equal. f_equal. unfold add_. apply Z.mod_small. lia.
Qed.

Lemma chunk_len (bs : list Z) (n m : nat) : length bs = (8 * n)%nat -> (m < n)%nat -> length (firstn 8 (skipn (8 * m) bs)) = 8%nat.
Proof. intros L H. rewrite firstn_length_le; [reflexivity|]. rewrite skipn_length. lia. Qed.

(* the limb written by one iteration: `res[i] = ..` (little endian) / `res[LIMBS - i - 1] = ..` (big endian) *)
Lemma le_res_step (conv : list Z -> Z) n m (bs : list Z) : (m < n)%nat ->
  upd_ (map conv (chunks 8 m bs) ++ repeat 0 (n - m)) m (conv (firstn 8 (skipn (8 * m) bs))) =
  map conv (chunks 8 (S m) bs) ++ repeat 0 (n - S m).
Proof.
  intros Hm. rewrite chunks_snoc, map_app, <- app_assoc. cbn [map app].
  replace (n - m)%nat with (S (n - S m)) by lia. cbn [repeat].
  apply upd_mid_len. rewrite map_length. apply chunks_length.
Qed.
Lemma be_res_step (conv : list Z -> Z) n m (bs : list Z) : (m < n)%nat -> Z.of_nat n < 2 ^ 64 ->
  upd_ (repeat 0 (n - m) ++ rev (map conv (chunks 8 m bs))) (Z.to_nat (sub_ 64 (sub_ 64 (Z.of_nat n) (Z.of_nat m)) 1))
       (conv (firstn 8 (skipn (8 * m) bs))) =
  repeat 0 (n - S m) ++ rev (map conv (chunks 8 (S m) bs)).
Proof.
  intros Hm HB. rewrite chunks_snoc, map_app, rev_app_distr. cbn [map rev app].
  replace (Z.to_nat (sub_ 64 (sub_ 64 (Z.of_nat n) (Z.of_nat m)) 1)) with (n - S m)%nat
    by (unfold sub_; rewrite (Z.mod_small (Z.of_nat n - Z.of_nat m)) by lia; rewrite Z.mod_small by lia; lia).
  replace (n - m)%nat with ((n - S m) + 1)%nat by lia. rewrite repeat_app, <- app_assoc. cbn [repeat app].
  apply upd_mid_len. apply repeat_length.
Qed.

Lemma le_slice_inv n bs : length bs = (8 * n)%nat -> Z.of_nat (8 * n) < 2 ^ 64 -> forall m, (m <= n)%nat ->
  exists buf, length buf = 8%nat /\
    Nat.iter m (slice_step (fun i => i) from_le_bytes_ bs) (0, repeat 0 8, repeat 0 n) =
    (Z.of_nat m, buf, map from_le_bytes_ (chunks 8 m bs) ++ repeat 0 (n - m)).
Proof.
  intros L HB. induction m as [|m IH]; intros Hm.
  - exists (repeat 0 8). split; [reflexivity|]. cbn [Nat.iter nat_rect chunks map app]. rewrite Nat.sub_0_r. reflexivity.
  - destruct (IH ltac:(lia)) as [buf [Lb E]]. rewrite iter_S, E.
    rewrite slice_step_eq by lia. rewrite Nat2Z.id.
    eexists. split; [apply (chunk_len bs n m L); lia|].
    f_equal; [f_equal; lia|]. apply le_res_step. lia.
Qed.

Lemma be_slice_inv n bs : length bs = (8 * n)%nat -> Z.of_nat (8 * n) < 2 ^ 64 -> forall m, (m <= n)%nat ->
  exists buf, length buf = 8%nat /\
    Nat.iter m (slice_step (fun i => sub_ 64 (sub_ 64 (Z.of_nat n) i) 1) from_be_bytes_ bs) (0, repeat 0 8, repeat 0 n) =
    (Z.of_nat m, buf, repeat 0 (n - m) ++ rev (map from_be_bytes_ (chunks 8 m bs))).
Proof.
  intros L HB. induction m as [|m IH]; intros Hm.
  - exists (repeat 0 8). split; [reflexivity|]. cbn [Nat.iter nat_rect chunks map rev]. rewrite Nat.sub_0_r, app_nil_r. reflexivity.
  - destruct (IH ltac:(lia)) as [buf [Lb E]]. rewrite iter_S, E.
    rewrite slice_step_eq by lia. rewrite Nat2Z.id.
    eexists. split; [apply (chunk_len bs n m L); lia|].
    f_equal; [f_equal; lia|]. apply be_res_step; lia.
Qed.

Lemma g_uint_from_le_slice_eq n bs : length bs = (8 * n)%nat -> Z.of_nat (8 * n) < 2 ^ 64 ->
  g_uint_from_le_slice n bs = map word_from_le_bytes (chunks 8 n bs).
Proof.
  intros L HB. rewrite g_uint_from_le_slice_unfold. destruct (le_slice_inv n bs L HB n (le_n n)) as [buf [_ E]]. rewrite E.
  rewrite Nat.sub_diag, app_nil_r. apply map_ext. apply from_le_bytes_eq.
Qed.
Lemma g_uint_from_be_slice_eq n bs : length bs = (8 * n)%nat -> Z.of_nat (8 * n) < 2 ^ 64 ->
  g_uint_from_be_slice n bs = rev (map word_from_be_bytes (chunks 8 n bs)).
Proof.
  intros L HB. rewrite g_uint_from_be_slice_unfold. destruct (be_slice_inv n bs L HB n (le_n n)) as [buf [_ E]]. rewrite E.
  rewrite Nat.sub_diag. cbn [repeat app]. f_equal. apply map_ext. apply from_be_bytes_eq.
Qed.

(* ================= from_be_hex / from_le_hex ================= *)
(* the (byte, error word) pairs of consecutive character pairs *)
Fixpoint hexpairs (cs : list Z) : list (Z * Z) :=
  match cs with c0 :: c1 :: r => decode_hex_byte c0 c1 :: hexpairs r | _ => [] end.

Lemma pairs_ind (P : list Z -> Prop) : P [] -> (forall c, P [c]) -> (forall c0 c1 r, P r -> P (c0 :: c1 :: r)) -> forall l, P l.
Proof.
  intros H0 H1 H2. assert (H : forall l, P l /\ forall c, P (c :: l)).
  { induction l as [|a l [IH1 IH2]]; split; auto. }
  intros l. apply H.
Qed.

Lemma decode_hex_pairs_hexpairs : forall cs e,
  decode_hex_pairs cs e = (map fst (hexpairs cs), fold_left Z.lor (map snd (hexpairs cs)) e).
Proof.
  intros cs. induction cs as [| c | c0 c1 r IH] using pairs_ind; intros e; try reflexivity.
  cbn [decode_hex_pairs hexpairs map fold_left]. destruct (decode_hex_byte c0 c1) as [b e1]. rewrite IH. reflexivity.
Qed.

Lemma hexpairs_length m : forall cs, length cs = (2 * m)%nat -> length (hexpairs cs) = m.
Proof.
  induction m as [|m IH]; intros cs H.
  - destruct cs; [reflexivity | cbn [length] in H; lia].
  - destruct cs as [|c0 [|c1 r]]; cbn [length] in H; try lia. cbn [hexpairs length]. rewrite IH by lia. reflexivity.
Qed.

Lemma nth_hexpairs : forall k cs, (2 * k + 1 < length cs)%nat ->
  nth k (hexpairs cs) (0, 0) = decode_hex_byte (nth (2 * k) cs 0) (nth (2 * k + 1) cs 0).
Proof.
  induction k as [|k IH]; intros cs H; destruct cs as [|c0 [|c1 r]]; cbn [length] in H; try lia.
  - reflexivity.
  - cbn [hexpairs]. replace (2 * S k + 1)%nat with (S (S (2 * k + 1))) by lia. replace (2 * S k)%nat with (S (S (2 * k))) by lia.
    cbn [nth]. apply IH. lia.
Qed.

Lemma nth_wfd cs k : wfd 256 cs -> 0 <= nth k cs 0 < 256.
Proof.
  intros W. destruct (nth_in_or_default k cs 0) as [I|E]; [|rewrite E; lia].
  unfold wfd in W. rewrite Forall_forall in W. apply W. exact I.
Qed.

(* the inner loop `while j < Limb::BYTES { let (result, byte_err) = g j; err |= byte_err; buf[j] = result; j += 1 }` *)
Lemma inner_hex (g : Z -> Z * Z) err buf : length buf = 8%nat ->
  Nat.iter (Z.to_nat (8 - 0)) (fun st : Z * Z * list Z => let '(j, err, buf) := st in
      let '(r, e) := g j in (add_ 64 j 1, Z.lor err e, upd_ buf (Z.to_nat j) r)) (0, err, buf)
  = (8, fold_left Z.lor (map snd (map g idx8)) err, map fst (map g idx8)).
Proof.
  intros L. do 8 (destruct buf as [|? buf]; [discriminate|]). destruct buf; [|discriminate].
  set (F := fun st : Z * Z * list Z => let '(j, err, buf) := st in
      let '(r, e) := g j in (add_ 64 j 1, Z.lor err e, upd_ buf (Z.to_nat j) r)).
  assert (HF : forall j e b, F (j, e, b) = (add_ 64 j 1, Z.lor e (snd (g j)), upd_ b (Z.to_nat j) (fst (g j)))).
  { intros j e b. unfold F. destruct (g j). reflexivity. }
  change (Z.to_nat (8 - 0)) with 8%nat. cbn [Nat.iter nat_rect]. rewrite !HF. clearbody F. reflexivity.
Qed.

(* index arithmetic `(i * Limb::BYTES + j) * 2` and `offset + 1` at usize *)
Lemma off_eq i (j : nat) L : 0 <= i -> (j < 8)%nat -> 16 * i + 16 <= L < 2 ^ 64 ->
  Z.to_nat (mul_ 64 (add_ 64 (mul_ 64 i 8) (Z.of_nat j)) 2) = (2 * (8 * Z.to_nat i + j))%nat /\
  Z.to_nat (add_ 64 (mul_ 64 (add_ 64 (mul_ 64 i 8) (Z.of_nat j)) 2) 1) = (2 * (8 * Z.to_nat i + j) + 1)%nat.
Proof.
  intros Hi Hj HL. unfold add_, mul_. rewrite (Z.mod_small (i * 8)) by lia. rewrite (Z.mod_small (i * 8 + Z.of_nat j)) by lia.
  rewrite (Z.mod_small ((i * 8 + Z.of_nat j) * 2)) by lia. rewrite Z.mod_small by lia. lia.
Qed.

Definition hexg (cs : list Z) (i j : Z) : Z * Z :=
  g_decode_hex_byte [nth (Z.to_nat (mul_ 64 (add_ 64 (mul_ 64 i 8) j) 2)) cs 0;
                     nth (Z.to_nat (add_ 64 (mul_ 64 (add_ 64 (mul_ 64 i 8) j) 2) 1)) cs 0].

Lemma map_pairs_chunk cs i : wfd 256 cs -> 0 <= i -> 16 * i + 16 <= Z.of_nat (length cs) < 2 ^ 64 -> Nat.even (length cs) = true ->
  map (hexg cs i) idx8 = firstn 8 (skipn (8 * Z.to_nat i) (hexpairs cs)).
Proof.
  intros W Hi HL Ev. apply Nat.even_spec in Ev. destruct Ev as [h Eh].
  pose proof (hexpairs_length h cs Eh) as LP.
  rewrite (firstn8_nth (0, 0)) by (rewrite skipn_length; lia).
  change idx8 with (map Z.of_nat idx8n). rewrite map_map. apply map_ext_in. intros j Hj.
  assert (Hj8 : (j < 8)%nat) by (unfold idx8n in Hj; cbn [In] in Hj; lia).
  rewrite nth_skipn_. rewrite nth_hexpairs by lia. unfold hexg.
  destruct (off_eq i j (Z.of_nat (length cs)) Hi Hj8 HL) as [-> ->].
  apply g_decode_hex_byte_eq; apply nth_wfd; assumption.
Qed.

(* the outer loop body, verbatim up to the names *)
Definition hex_step (pos : Z -> Z) (conv : list Z -> Z) (cs : list Z) (st : Z * Z * list Z * list Z) : Z * Z * list Z * list Z :=
  let '(i, err, buf, res) := st in
  let '(j, err, buf) := Nat.iter (Z.to_nat (8 - 0)) (fun st : Z * Z * list Z => let '(j, err, buf) := st in
      let '(r, e) := g_decode_hex_byte [nth (Z.to_nat (mul_ 64 (add_ 64 (mul_ 64 i 8) j) 2)) cs 0;
                                        nth (Z.to_nat (add_ 64 (mul_ 64 (add_ 64 (mul_ 64 i 8) j) 2) 1)) cs 0] in
      (add_ 64 j 1, Z.lor err e, upd_ buf (Z.to_nat j) r)) (0, err, buf) in
  (add_ 64 i 1, err, buf, upd_ res (Z.to_nat (pos i)) (conv buf)).

Definition be_hex_loop (n : nat) (cs : list Z) : Z * Z * list Z * list Z :=
  Nat.iter n (hex_step (fun i => sub_ 64 (sub_ 64 (Z.of_nat n) i) 1) from_be_bytes_ cs) (0, 0, repeat 0 8, repeat 0 n).
Definition le_hex_loop (n : nat) (cs : list Z) : Z * Z * list Z * list Z :=
  Nat.iter n (hex_step (fun i => i) from_le_bytes_ cs) (0, 0, repeat 0 8, repeat 0 n).
(** the error word the source asserts to be zero (`assert!(err == 0, "invalid hex byte")`, dropped by the translator) *)
Definition g_be_hex_err (n : nat) (cs : list Z) : Z := let '(_, err, _, _) := be_hex_loop n cs in err.
Definition g_le_hex_err (n : nat) (cs : list Z) : Z := let '(_, err, _, _) := le_hex_loop n cs in err.

(** the restated loops ARE the generated text *)
Lemma g_uint_from_be_hex_unfold n cs : g_uint_from_be_hex n cs = let '(_, _, _, res) := be_hex_loop n cs in res.
Proof. reflexivity. Qed.
Lemma g_uint_from_le_hex_unfold n cs : g_uint_from_le_hex n cs = let '(_, _, _, res) := le_hex_loop n cs in res.
Proof. reflexivity. Qed.

Lemma hex_step_eq pos conv cs i err buf res : wfd 256 cs -> 0 <= i -> 16 * i + 16 <= Z.of_nat (length cs) < 2 ^ 64 ->
  Nat.even (length cs) = true -> length buf = 8%nat ->
  hex_step pos conv cs (i, err, buf, res) =
  let ch := firstn 8 (skipn (8 * Z.to_nat i) (hexpairs cs)) in
  (i + 1, fold_left Z.lor (map snd ch) err, map fst ch, upd_ res (Z.to_nat (pos i)) (conv (map fst ch))).
Proof.
  intros W Hi HL Ev Lb. unfold hex_step.
  pose proof (inner_hex (hexg cs i) err buf Lb) as IH. unfold hexg in IH at 1. rewrite IH. clear IH.
  rewrite map_pairs_chunk by assumption. cbv zeta. f_equal. f_equal. f_equal. unfold add_. apply Z.mod_small. lia.
Qed.

Lemma hex_inv pos conv n cs (R : nat -> list Z) : length cs = (16 * n)%nat -> Z.of_nat (16 * n) < 2 ^ 64 -> wfd 256 cs ->
  R O = repeat 0 n ->
  (forall m, (m < n)%nat ->
     upd_ (R m) (Z.to_nat (pos (Z.of_nat m))) (conv (firstn 8 (skipn (8 * m) (map fst (hexpairs cs))))) = R (S m)) ->
  forall m, (m <= n)%nat -> exists buf, length buf = 8%nat /\
    Nat.iter m (hex_step pos conv cs) (0, 0, repeat 0 8, repeat 0 n) =
    (Z.of_nat m, fold_left Z.lor (map snd (firstn (8 * m) (hexpairs cs))) 0, buf, R m).
Proof.
  intros L HB W R0 RS.
  assert (Ev : Nat.even (length cs) = true) by (apply Nat.even_spec; exists (8 * n)%nat; lia).
  pose proof (hexpairs_length (8 * n) cs ltac:(lia)) as LP.
  induction m as [|m IH]; intros Hm.
  - exists (repeat 0 8). split; [reflexivity|]. cbn [Nat.iter nat_rect]. rewrite R0. reflexivity.
  - destruct (IH ltac:(lia)) as [buf [Lb E]]. rewrite iter_S, E. clear E IH.
    rewrite hex_step_eq by (assumption || lia). cbv zeta. rewrite Nat2Z.id.
    exists (map fst (firstn 8 (skipn (8 * m) (hexpairs cs)))). split.
    + rewrite map_length. rewrite firstn_length_le; [reflexivity|]. rewrite skipn_length. lia.
    + f_equal; [f_equal; f_equal|].
      * lia.
      * replace (8 * S m)%nat with (8 * m + 8)%nat by lia. rewrite firstn_add_skipn, map_app, fold_left_app. reflexivity.
      * rewrite <- firstn_map, <- skipn_map. apply RS. lia.
Qed.

Lemma hex_err_all n cs : length cs = (16 * n)%nat ->
  fold_left Z.lor (map snd (firstn (8 * n) (hexpairs cs))) 0 = snd (decode_hex_pairs cs 0).
Proof.
  intros L. rewrite decode_hex_pairs_hexpairs. cbn [snd]. rewrite firstn_all2; [reflexivity|].
  rewrite (hexpairs_length (8 * n)) by lia. lia.
Qed.

Lemma le_hex_loop_eq n cs : length cs = (16 * n)%nat -> Z.of_nat (16 * n) < 2 ^ 64 -> wfd 256 cs ->
  exists buf, le_hex_loop n cs =
    (Z.of_nat n, snd (decode_hex_pairs cs 0), buf, map word_from_le_bytes (chunks 8 n (fst (decode_hex_pairs cs 0)))).
Proof.
  intros L HB W. unfold le_hex_loop.
  destruct (hex_inv (fun i => i) from_le_bytes_ n cs
              (fun m => map from_le_bytes_ (chunks 8 m (map fst (hexpairs cs))) ++ repeat 0 (n - m)) L HB W) with (m := n) as [buf [_ E]].
  - cbn [chunks map app]. rewrite Nat.sub_0_r. reflexivity.
  - intros m Hm. cbv beta. rewrite Nat2Z.id. apply le_res_step. exact Hm.
  - apply le_n.
  - exists buf. rewrite E. rewrite hex_err_all by assumption. rewrite Nat.sub_diag, app_nil_r.
    rewrite decode_hex_pairs_hexpairs. cbn [fst]. f_equal. apply map_ext. apply from_le_bytes_eq.
Qed.

Lemma be_hex_loop_eq n cs : length cs = (16 * n)%nat -> Z.of_nat (16 * n) < 2 ^ 64 -> wfd 256 cs ->
  exists buf, be_hex_loop n cs =
    (Z.of_nat n, snd (decode_hex_pairs cs 0), buf, rev (map word_from_be_bytes (chunks 8 n (fst (decode_hex_pairs cs 0))))).
Proof.
  intros L HB W. unfold be_hex_loop.
  destruct (hex_inv (fun i => sub_ 64 (sub_ 64 (Z.of_nat n) i) 1) from_be_bytes_ n cs
              (fun m => repeat 0 (n - m) ++ rev (map from_be_bytes_ (chunks 8 m (map fst (hexpairs cs))))) L HB W) with (m := n) as [buf [_ E]].
  - cbn [chunks map rev]. rewrite Nat.sub_0_r, app_nil_r. reflexivity.
  - intros m Hm. cbv beta. apply be_res_step; lia.
  - apply le_n.
  - exists buf. rewrite E. rewrite hex_err_all by assumption. rewrite Nat.sub_diag. cbn [repeat app].
    rewrite decode_hex_pairs_hexpairs. cbn [fst]. f_equal. f_equal. apply map_ext. apply from_be_bytes_eq.
Qed.

(** generated text = model: the result limbs and the error word of the source are those of Model/Conv.v *)
Lemma g_uint_from_be_hex_eq n cs : length cs = (16 * n)%nat -> Z.of_nat (16 * n) < 2 ^ 64 -> wfd 256 cs ->
  uint_from_be_hex n cs = if g_be_hex_err n cs =? 0 then HexOk (g_uint_from_be_hex n cs) else HexInvalid.
Proof.
  intros L HB W. rewrite g_uint_from_be_hex_unfold. unfold g_be_hex_err.
  destruct (be_hex_loop_eq n cs L HB W) as [buf ->]. unfold uint_from_be_hex. rewrite L, Nat.eqb_refl.
  destruct (decode_hex_pairs cs 0) as [bs err]. reflexivity.
Qed.
Lemma g_uint_from_le_hex_eq n cs : length cs = (16 * n)%nat -> Z.of_nat (16 * n) < 2 ^ 64 -> wfd 256 cs ->
  uint_from_le_hex n cs = if g_le_hex_err n cs =? 0 then HexOk (g_uint_from_le_hex n cs) else HexInvalid.
Proof.
  intros L HB W. rewrite g_uint_from_le_hex_unfold. unfold g_le_hex_err.
  destruct (le_hex_loop_eq n cs L HB W) as [buf ->]. unfold uint_from_le_hex. rewrite L, Nat.eqb_refl.
  destruct (decode_hex_pairs cs 0) as [bs err]. reflexivity.
Qed.

(* ================= from_u16 / from_u32 / from_u64 (src/uint/from.rs): `limbs[0].0 = n as Word` on a zeroed array; the source asserts
   LIMBS >= 1 (the model returns None otherwise) ================= *)
Lemma g_uint_from_u16_eq n v : uint_from_small (S n) v = Some (g_uint_from_u16 (S n) v).
Proof. reflexivity. Qed.
Lemma g_uint_from_u32_eq n v : uint_from_small (S n) v = Some (g_uint_from_u32 (S n) v).
Proof. reflexivity. Qed.
Lemma g_uint_from_u64_eq n v : uint_from_small (S n) v = Some (g_uint_from_u64 (S n) v).
Proof. reflexivity. Qed.

(* the asserted error word is zero exactly when every character is a hex digit *)
Lemma g_be_hex_err_iff n cs : wfd 256 cs -> length cs = (16 * n)%nat -> Z.of_nat (16 * n) < 2 ^ 64 ->
  (g_be_hex_err n cs = 0 <-> exists ds, hexvals cs = Some ds).
Proof.
  intros W L HB. pose proof (from_be_hex_spec n cs W) as S. rewrite (g_uint_from_be_hex_eq n cs L HB W) in S.
  destruct (Z.eqb_spec (g_be_hex_err n cs) 0) as [E|E].
  - destruct S as (_ & ds & Hd & _). split; [intros _; exists ds; exact Hd | intros _; exact E].
  - destruct S as (_ & Hn). split; [intros E'; contradiction | intros [ds Hd]; rewrite Hd in Hn; discriminate].
Qed.
Lemma g_le_hex_err_iff n cs : wfd 256 cs -> length cs = (16 * n)%nat -> Z.of_nat (16 * n) < 2 ^ 64 ->
  (g_le_hex_err n cs = 0 <-> exists ds, hexvals cs = Some ds).
Proof.
  intros W L HB. pose proof (from_le_hex_spec n cs W) as S. rewrite (g_uint_from_le_hex_eq n cs L HB W) in S.
  destruct (Z.eqb_spec (g_le_hex_err n cs) 0) as [E|E].
  - destruct S as (_ & ds & Hd & _). split; [intros _; exists ds; exact Hd | intros _; exact E].
  - destruct S as (_ & Hn). split; [intros E'; contradiction | intros [ds Hd]; rewrite Hd in Hn; discriminate].
Qed.

(* ================= from_u128 (src/uint/from.rs): lo / hi through `U64::from_u64` (U64 = Uint<1>), two copy loops of `lo.limbs.len()` =
   `hi.limbs.len()` = 1 iteration; the source asserts LIMBS >= 16 / Limb::BYTES = 2 ================= *)
Lemma g_uint_from_u128_unfold n v :
  g_uint_from_u128 (S (S n)) v = trunc_ 64 (Z.land v (2 ^ 64 - 1)) :: trunc_ 64 (shr_ v 64) :: repeat 0 n.
Proof. reflexivity. Qed.
Lemma g_uint_from_u128_eq n v : 0 <= v < 2 ^ 128 -> uint_from_u128 (S (S n)) v = Some (g_uint_from_u128 (S (S n)) v).
Proof.
  intros Hv. rewrite g_uint_from_u128_unfold. unfold uint_from_u128. change (Nat.ltb (S (S n)) 2) with false. cbv iota.
  change (S (S n) - 2)%nat with (n - 0)%nat. rewrite Nat.sub_0_r. unfold zeros, trunc_, shr_.
  change (2 ^ 64 - 1) with (Z.ones 64). rewrite Z.land_ones by lia. rewrite Z.mod_mod by lia.
  assert (EM : Z.land v Word.MAXW = v mod 2 ^ 64) by (change Word.MAXW with (Z.ones 64); apply Z.land_ones; lia).
  rewrite EM. change Word.B with (2 ^ 64).
  rewrite (Z.mod_small (v / 2 ^ 64)); [reflexivity|].
  split; [apply Z.div_pos; lia | apply Z.div_lt_upper_bound; lia].
Qed.

(* ================= Int::from_be_hex (src/int/encoding.rs): `Self(Uint::from_be_hex(hex))`, the same limbs ================= *)
Lemma g_int_from_be_hex_eq n cs : g_int_from_be_hex n cs = g_uint_from_be_hex n cs.
Proof. reflexivity. Qed.
