(** C10, translator tie: the word-level kernels of /repo's CURRENT src/modular/safegcd.rs (Src/GenSafeGcd.v, regenerated on
    every run) -- inv_mod2_62, the 62-bit unsaturated integer UnsatInt (is_negative, add, mul, neg, shr, eq, select, the
    constants), fg and de -- compute what Model/SafeGcd.v / Proofs/SafeGcd*P.v say, for every limb count that is a usize and
    all 62-bit limb values.  Statements only; proofs in Src/GenSafeGcdP.v. *)
From CB Require Import Model.SrcPrelude Model.Word Model.Limbs Model.AddSub Model.SafeGcd.
From CB Require Import Src.GenPrim Src.GenUint Src.GenUintP Src.GenSafeGcd Src.GenSafeGcdP Src.GenSafeGcdJumpP Src.GenSafeGcdBitsP.
From CB Require Import Proofs.WordP Proofs.SafeGcdArithP Proofs.SafeGcdUnsatP Proofs.SafeGcdJumpP Proofs.SafeGcdDivstepsP.
From Coq Require Import ZArith List Lia.
Import ListNotations.
Open Scope Z_scope.

(** inv_mod2_62: the SOURCE text returns the inverse of the (odd) low word modulo 2^62 *)
Theorem C10_src_inv_mod2_62 : forall v, is_word (hd 0 v) -> g_inv_mod2_62 v = inv_mod2_62 (hd 0 v).
Proof. exact g_inv_mod2_62_eq. Qed.
Print Assumptions C10_src_inv_mod2_62.
Theorem C10_src_inv_mod2_62_correct : forall v, is_word (hd 0 v) -> Z.odd (hd 0 v) = true ->
  0 <= g_inv_mod2_62 v < 2 ^ 62 /\ (hd 0 v * g_inv_mod2_62 v) mod 2 ^ 62 = 1.
Proof.
  intros v Hv Ho. rewrite g_inv_mod2_62_eq by assumption.
  apply inv_mod2_62_correct; [|assumption]. unfold is_word in Hv. rewrite B_P64 in Hv. exact Hv.
Qed.
Print Assumptions C10_src_inv_mod2_62_correct.

(** the constants *)
Theorem C10_src_unsat_consts : forall n, g_unsat_LIMB_BITS n = 62 /\ g_unsat_MASK n = 2 ^ 62 - 1 /\ g_unsat_ZERO n = u_zero n /\
  g_unsat_MINUS_ONE n = u_minus_one n /\ ((1 <= n)%nat -> g_unsat_ONE n = u_one n).
Proof. intros n. repeat split. apply g_unsat_ONE_eq. Qed.
Print Assumptions C10_src_unsat_consts.

(** UnsatInt: generated function = model function *)
Theorem C10_src_unsat_is_negative : forall n a, length a = n -> (1 <= n)%nat -> usz n -> wf62 a ->
  g_unsat_is_negative n a = choice_of_bool (u_is_negative a).
Proof. exact g_unsat_is_negative_eq. Qed.
Print Assumptions C10_src_unsat_is_negative.
Theorem C10_src_unsat_lowest : forall n a, g_unsat_lowest n a = hd 0 a.
Proof. exact g_unsat_lowest_eq. Qed.
Print Assumptions C10_src_unsat_lowest.
Theorem C10_src_unsat_add : forall n a b, length a = n -> length b = n -> usz n -> wf62 a -> wf62 b ->
  g_unsat_add n a b = u_add a b.
Proof. exact g_unsat_add_eq. Qed.
Print Assumptions C10_src_unsat_add.
Theorem C10_src_unsat_mul : forall n a c, length a = n -> usz n -> wf62 a -> - 2 ^ 63 < c < 2 ^ 63 ->
  g_unsat_mul n a c = u_mul a c.
Proof. exact g_unsat_mul_eq. Qed.
Print Assumptions C10_src_unsat_mul.
Theorem C10_src_unsat_neg : forall n a, length a = n -> usz n -> wf62 a -> g_unsat_neg n a = u_neg a.
Proof. exact g_unsat_neg_eq. Qed.
Print Assumptions C10_src_unsat_neg.
Theorem C10_src_unsat_shr : forall n a, length a = n -> (1 <= n)%nat -> usz n -> wf62 a -> g_unsat_shr n a = u_shr a.
Proof. exact g_unsat_shr_eq. Qed.
Print Assumptions C10_src_unsat_shr.
Theorem C10_src_unsat_eq : forall n a b, length a = n -> length b = n -> usz n -> wf62 a -> wf62 b ->
  g_unsat_eq n a b = choice_of_bool (u_eq a b).
Proof. exact g_unsat_eq_eq. Qed.
Print Assumptions C10_src_unsat_eq.
Theorem C10_src_unsat_select : forall n a b (c : bool), length a = n -> length b = n -> usz n -> wf62 a -> wf62 b ->
  g_unsat_select n a b (choice_of_bool c) = if c then b else a.
Proof. exact g_unsat_select_eq. Qed.
Print Assumptions C10_src_unsat_select.

(** ... composed with Proofs/SafeGcdUnsatP.v: what the SOURCE text computes on the two's-complement value (sval) *)
Theorem C10_src_unsat_add_value : forall n a b, length a = n -> length b = n -> usz n -> wf62 a -> wf62 b ->
  wf62 (g_unsat_add n a b) /\ length (g_unsat_add n a b) = n /\
  uval (g_unsat_add n a b) = (uval a + uval b) mod 2 ^ (62 * Z.of_nat n).
Proof.
  intros n a b Ha Hb U Wa Wb. rewrite g_unsat_add_eq by assumption.
  destruct (u_add_spec a b Wa Wb ltac:(congruence)) as (W & L & E). rewrite <- M62_pow2, <- Ha. repeat split; assumption.
Qed.
Print Assumptions C10_src_unsat_add_value.
Theorem C10_src_unsat_mul_value : forall n a c, length a = n -> usz n -> wf62 a -> - 2 ^ 63 < c < 2 ^ 63 ->
  wf62 (g_unsat_mul n a c) /\ length (g_unsat_mul n a c) = n /\
  uval (g_unsat_mul n a c) = (uval a * c) mod 2 ^ (62 * Z.of_nat n).
Proof.
  intros n a c Ha U Wa Hc. rewrite g_unsat_mul_eq by assumption.
  destruct (u_mul_spec a c Wa Hc) as (W & L & E). rewrite <- M62_pow2, <- Ha. repeat split; assumption.
Qed.
Print Assumptions C10_src_unsat_mul_value.
Theorem C10_src_unsat_neg_value : forall n a, length a = n -> usz n -> wf62 a ->
  wf62 (g_unsat_neg n a) /\ length (g_unsat_neg n a) = n /\ uval (g_unsat_neg n a) = (- uval a) mod 2 ^ (62 * Z.of_nat n).
Proof.
  intros n a Ha U Wa. rewrite g_unsat_neg_eq by assumption.
  destruct (u_neg_spec a Wa) as (W & L & E). rewrite <- M62_pow2, <- Ha. repeat split; assumption.
Qed.
Print Assumptions C10_src_unsat_neg_value.
Theorem C10_src_unsat_shr_value : forall n a, length a = n -> (1 <= n)%nat -> usz n -> wf62 a ->
  wf62 (g_unsat_shr n a) /\ length (g_unsat_shr n a) = n /\ sval (g_unsat_shr n a) = sval a / 2 ^ 62.
Proof.
  intros n a Ha Hn U Wa. rewrite g_unsat_shr_eq by assumption.
  destruct (u_shr_spec a Wa ltac:(lia)) as (W & L & E). rewrite <- Ha. repeat split; assumption.
Qed.
Print Assumptions C10_src_unsat_shr_value.
Theorem C10_src_unsat_is_negative_value : forall n a, length a = n -> (1 <= n)%nat -> usz n -> wf62 a ->
  g_unsat_is_negative n a = choice_of_bool (sval a <? 0).
Proof.
  intros n a Ha Hn U Wa. rewrite g_unsat_is_negative_eq by assumption. rewrite u_is_negative_sval; [reflexivity | assumption |].
  destruct a; [cbn in Ha; lia | discriminate].
Qed.
Print Assumptions C10_src_unsat_is_negative_value.
Theorem C10_src_unsat_eq_value : forall n a b, length a = n -> length b = n -> usz n -> wf62 a -> wf62 b ->
  g_unsat_eq n a b = choice_of_bool (sval a =? sval b).
Proof.
  intros n a b Ha Hb U Wa Wb. rewrite g_unsat_eq_eq by assumption. rewrite u_eq_sval by (first [assumption | congruence]). reflexivity.
Qed.
Print Assumptions C10_src_unsat_eq_value.

(** fg, de: the SOURCE text applies the transition matrix (a Matrix is the list of its two rows, [mat]) *)
Theorem C10_src_fg : forall n f g t, length f = n -> length g = n -> (1 <= n)%nat -> usz n -> wf62 f -> wf62 g -> tbound t ->
  g_fg n f g (mat t) = fg f g t.
Proof. exact g_fg_eq. Qed.
Print Assumptions C10_src_fg.
Theorem C10_src_de : forall n m inverse t d e, length m = n -> length d = n -> length e = n -> (1 <= n)%nat -> usz n ->
  wf62 m -> wf62 d -> wf62 e -> tbound t ->
  g_de n m inverse (mat t) d e = de m inverse t d e.
Proof. exact g_de_eq. Qed.
Print Assumptions C10_src_de.
(** fg is exact: when t (f, g) = 2^62 (F', G') the SOURCE text returns the limbs of F' and G' *)
Theorem C10_src_fg_exact : forall n f g t00 t01 t10 t11 F' G', length f = n -> length g = n -> (1 <= n)%nat -> usz n ->
  wf62 f -> wf62 g -> Z.abs t00 + Z.abs t01 <= P62 -> Z.abs t10 + Z.abs t11 <= P62 ->
  t00 * sval f + t01 * sval g = P62 * F' -> t10 * sval f + t11 * sval g = P62 * G' ->
  - M62 n <= 2 * (P62 * F') < M62 n -> - M62 n <= 2 * (P62 * G') < M62 n ->
  sval (fst (g_fg n f g (mat (t00, t01, t10, t11)))) = F' /\ sval (snd (g_fg n f g (mat (t00, t01, t10, t11)))) = G'.
Proof.
  intros n f g t00 t01 t10 t11 F' G' Hf Hg Hn U Wf Wg R0 R1 E0 E1 B0 B1.
  rewrite g_fg_eq by (first [assumption | split; assumption]). subst n.
  destruct (fg_spec f g t00 t01 t10 t11 F' G' Wf Wg ltac:(congruence) ltac:(lia) R0 R1 E0 E1 B0 B1) as (_ & _ & _ & _ & S1 & S2).
  split; assumption.
Qed.
Print Assumptions C10_src_fg_exact.

(** jump: the SOURCE loop `loop { .. if steps == 0 { break; } .. }` reaches its `break` within 63 iterations (the translation
    returns Some for every fuel >= 63) and returns the model's (delta', t) *)
Theorem C10_src_jump : forall fuel f g delta, (63 <= fuel)%nat ->
  0 <= nth 0 f 0 < 2 ^ 62 -> 0 <= nth 0 g 0 < 2 ^ 62 ->
  (Z.odd (nth 0 f 0) = true \/ (0 < delta /\ Z.odd (nth 0 g 0) = true)) -> Z.abs delta + 62 <= 2 ^ 62 ->
  g_jump fuel f g delta = Some (fst (jump (nth 0 f 0) (nth 0 g 0) delta), mat (snd (jump (nth 0 f 0) (nth 0 g 0) delta))).
Proof. exact g_jump_eq. Qed.
Print Assumptions C10_src_jump.
(** ... hence the matrix the SOURCE text of jump returns satisfies t (f, g) = 2^62 (f', g') exactly, with bounded entries,
    determinant 2^62, an even first row and an odd f' *)
Theorem C10_src_jump_matrix : forall fuel f g delta, (63 <= fuel)%nat ->
  0 <= nth 0 f 0 < 2 ^ 62 -> 0 <= nth 0 g 0 < 2 ^ 62 ->
  (Z.odd (nth 0 f 0) = true \/ (0 < delta /\ Z.odd (nth 0 g 0) = true)) -> Z.abs delta + 62 <= 2 ^ 62 ->
  exists d' t00 t01 t10 t11 f' g',
    g_jump fuel f g delta = Some (d', [[t00; t01]; [t10; t11]]) /\
    t00 * nth 0 f 0 + t01 * nth 0 g 0 = 2 ^ 62 * f' /\ t10 * nth 0 f 0 + t11 * nth 0 g 0 = 2 ^ 62 * g' /\
    Z.abs t00 + Z.abs t01 <= 2 ^ 62 /\ Z.abs t10 + Z.abs t11 <= 2 ^ 62 /\ t00 * t11 - t01 * t10 = 2 ^ 62 /\
    Z.even t00 = true /\ Z.even t01 = true /\ Z.odd f' = true /\ Z.abs d' <= Z.abs delta + 62.
Proof.
  intros fuel f g delta Hfu Hf Hg Ho Hd. rewrite (g_jump_eq fuel f g delta Hfu Hf Hg Ho Hd).
  pose proof (jump_matrix (nth 0 f 0) (nth 0 g 0) delta Hf Hg Ho Hd) as JP. unfold JPost in JP.
  destruct (jump (nth 0 f 0) (nth 0 g 0) delta) as [d' [[[t00 t01] t10] t11]].
  destruct JP as (f' & g' & J). exists d', t00, t01, t10, t11, f', g'. split; [reflexivity | exact J].
Qed.
Print Assumptions C10_src_jump_matrix.

(** leading_zeros / bits of an UnsatInt and the number of jumps `iterations` (Fig. 11.1 of the paper) *)
Theorem C10_src_unsat_bits : forall n a, length a = n -> wf62 a -> 62 * Z.of_nat n < 2 ^ 32 ->
  g_unsat_leading_zeros n a = lz_scan62 (rev a) 0 true /\ g_unsat_bits n a = u_bits a.
Proof. intros. split; [apply g_unsat_leading_zeros_eq | apply g_unsat_bits_eq]; assumption. Qed.
Print Assumptions C10_src_unsat_bits.
Theorem C10_src_iterations : forall f g, 0 <= f -> 0 <= g -> 49 * Z.max f g + 80 < 2 ^ 32 ->
  g_iterations f g = Z.of_nat (iterations f g).
Proof. exact g_iterations_eq. Qed.
Print Assumptions C10_src_iterations.

Example C10_src_runs :
  g_inv_mod2_62 [12345678901234567891; 7] = 3689348814741910323 - 3689348814741910323 + g_inv_mod2_62 [12345678901234567891] /\
  (12345678901234567891 * g_inv_mod2_62 [12345678901234567891; 7]) mod 2 ^ 62 = 1 /\
  g_unsat_add 3 [2 ^ 62 - 1; 2 ^ 62 - 1; 5] [1; 0; 0] = [0; 0; 6] /\
  g_unsat_mul 3 [3; 0; 0] (-2) = [2 ^ 62 - 6; 2 ^ 62 - 1; 2 ^ 62 - 1] /\
  g_unsat_neg 3 [1; 0; 0] = [2 ^ 62 - 1; 2 ^ 62 - 1; 2 ^ 62 - 1] /\
  g_unsat_shr 3 [7; 8; 2 ^ 61] = [8; 2 ^ 61; 2 ^ 62 - 1] /\
  g_unsat_is_negative 3 [7; 8; 2 ^ 61] = 2 ^ 64 - 1 /\ g_unsat_eq 3 [7; 8; 9] [7; 8; 9] = 2 ^ 64 - 1 /\ g_unsat_eq 3 [7; 8; 9] [7; 0; 9] = 0 /\
  g_fg 2 [6; 0] [10; 0] [[2 ^ 61; 0]; [- 2 ^ 61; 2 ^ 61]] = ([3; 0], [2; 0]) /\
  g_jump 63 [5; 0] [10; 0] 1 = Some (59, [[0; 2 ^ 61]; [-2; 1]]) /\
  g_jump 63 [1234567891234567; 0] [987654321987654321; 0] (-2) = Some (0, [[1181045296; 335562672]; [-15675181803; -548937347]]) /\
  g_jump 2 [1234567891234567; 0] [987654321987654321; 0] (-2) = None /\
  g_unsat_bits 3 [5; 2 ^ 61; 0] = 124 /\ g_unsat_leading_zeros 3 [0; 0; 0] = 186 /\ g_iterations 256 200 = 741.
Proof. vm_compute. repeat split; discriminate. Qed.
