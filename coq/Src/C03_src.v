(** C03, translator tie: the multiplication primitives of /repo's CURRENT src/primitives.rs (Src/GenPrim.v, regenerated
    on every run) are the model primitives, hence exact. Statements only; proofs in Src/GenPrimP.v. *)
From CB Require Import Model.SrcPrelude Model.Word Model.Limbs Src.GenPrim Src.GenPrimP Proofs.WordP.
From Coq Require Import ZArith.
Open Scope Z_scope.

Theorem C03_src_mac : forall a b c k, is_word a -> is_word b -> is_word c -> is_word k -> g_mac a b c k = mac a b c k.
Proof. exact g_mac_eq. Qed.
Print Assumptions C03_src_mac.

Theorem C03_src_mulhilo : forall x y, is_word x -> is_word y -> g_mulhilo x y = mulhilo x y.
Proof. exact g_mulhilo_eq. Qed.
Print Assumptions C03_src_mulhilo.

Theorem C03_src_mul_wide : forall x y, is_word x -> is_word y -> g_mul_wide x y = mul_wide x y.
Proof. exact g_mul_wide_eq. Qed.
Print Assumptions C03_src_mul_wide.

(** the SOURCE mac is exact for all words incl. any incoming carry: lo + B*hi = a + b*c + carry, hi never overflows *)
Theorem C03_src_mac_exact : forall a b c k lo hi, is_word a -> is_word b -> is_word c -> is_word k ->
  g_mac a b c k = (lo, hi) -> lo + B * hi = a + b * c + k /\ is_word lo /\ is_word hi.
Proof. exact g_mac_exact. Qed.
Print Assumptions C03_src_mac_exact.

Example C03_src_runs : g_mac (2 ^ 64 - 1) (2 ^ 64 - 1) (2 ^ 64 - 1) (2 ^ 64 - 1) = (2 ^ 64 - 1, 2 ^ 64 - 1).
Proof. vm_compute. reflexivity. Qed.
