(** C03, translator tie: the multiplication primitives of /repo's CURRENT src/primitives.rs (Src/GenPrim.v, regenerated
    on every run) are the model primitives, hence exact; `schoolbook_multiplication` of src/uint/mul.rs with `Limb::mac`
    of src/limb/mul.rs (Src/GenMul.v) is the model's schoolbook_mul, `schoolbook_squaring` (with `Limb::overflowing_add`,
    `Limb::shr`) is the model's schoolbook_sq, hence both are exact for all limb counts.
    Statements only; proofs in Src/GenPrimP.v, Src/GenMulP.v. *)
From CB Require Import Model.SrcPrelude Model.Word Model.Limbs Model.Mul Src.GenPrim Src.GenPrimP Src.GenMul Src.GenMulP Proofs.WordP.
From Coq Require Import ZArith List.
Import ListNotations.
Open Scope Z_scope.

Theorem C03_src_mac : forall a b c k, is_word a -> is_word b -> is_word c -> is_word k -> g_mac a b c k = mac a b c k.
Proof. exact g_mac_eq. Qed.
Print Assumptions C03_src_mac.

Theorem C03_src_mulhilo : forall x y, is_word x -> is_word y -> g_mulhilo x y = mulhilo x y.
Proof. exact g_mulhilo_eq. Qed.
Print Assumptions C03_src_mulhilo.

Theorem C03_src_mul_wide : forall x y, is_word x -> is_word y -> g_mul_wide x y = mul_wide x y.
Proof. exact g_mul_wide_eq. Qed.
Print Assumptions C03_src_mul_wide.

(** the SOURCE mac is exact for all words incl. any incoming carry: lo + B*hi = a + b*c + carry, hi never overflows *)
Theorem C03_src_mac_exact : forall a b c k lo hi, is_word a -> is_word b -> is_word c -> is_word k ->
  g_mac a b c k = (lo, hi) -> lo + B * hi = a + b * c + k /\ is_word lo /\ is_word hi.
Proof. exact g_mac_exact. Qed.
Print Assumptions C03_src_mac_exact.

(* ---------------- schoolbook_multiplication (two nested slice loops, writes through &mut lo / &mut hi) *)
Theorem C03_src_limb_mac : forall a b c k, is_word a -> is_word b -> is_word c -> is_word k -> g_limb_mac a b c k = mac a b c k.
Proof. exact g_limb_mac_eq. Qed.
Print Assumptions C03_src_limb_mac.

(** [g_schoolbook_multiplication lhs rhs lo hi] is the pair of the final contents of the `&mut` buffers (lo, hi).
    The `panic!("schoolbook multiplication length mismatch")` guard is not taken exactly under the two length hypotheses;
    lhs.len() + rhs.len() is a usize (so `i + j` does not wrap). For ANY incoming buffer contents the source computes the
    model's rows on the single list lo ++ hi and splits it at lhs.len(). *)
Theorem C03_src_schoolbook_rows : forall lhs rhs lo hi,
  length lo = length lhs -> length hi = length rhs -> Z.of_nat (length lhs + length rhs) < 2 ^ 64 ->
  wf lhs -> wf rhs -> wf lo -> wf hi ->
  g_schoolbook_multiplication lhs rhs lo hi = split_at (length lhs) (schoolbook_rows (lo ++ hi) 0 lhs rhs).
Proof. exact g_schoolbook_rows_eq. Qed.
Print Assumptions C03_src_schoolbook_rows.

(** on zeroed buffers (uint_mul_limbs, mul_limbs): the model function of C03_schoolbook_mul_exact / C03_kmul_exact level 0 *)
Theorem C03_src_schoolbook_mul : forall xs ys, Z.of_nat (length xs + length ys) < 2 ^ 64 -> wf xs -> wf ys ->
  g_schoolbook_multiplication xs ys (zeros (length xs)) (zeros (length ys)) = split_at (length xs) (schoolbook_mul xs ys).
Proof. exact g_schoolbook_eq. Qed.
Print Assumptions C03_src_schoolbook_mul.

(** hence the SOURCE text computes the exact double-width product, for every pair of limb counts and all limb values *)
Theorem C03_src_schoolbook_exact : forall xs ys lo hi, Z.of_nat (length xs + length ys) < 2 ^ 64 -> wf xs -> wf ys ->
  g_schoolbook_multiplication xs ys (zeros (length xs)) (zeros (length ys)) = (lo, hi) ->
  eval lo + Bn (length xs) * eval hi = eval xs * eval ys /\ wf lo /\ wf hi /\ length lo = length xs /\ length hi = length ys.
Proof. exact g_schoolbook_exact. Qed.
Print Assumptions C03_src_schoolbook_exact.

(** non-vacuity: the generated function runs on multi-limb inputs (3 x 2 limbs with every carry set; a dirty buffer; the
    length guard) *)
Example C03_src_schoolbook_runs :
  g_schoolbook_multiplication [2 ^ 64 - 1; 2 ^ 64 - 1; 2 ^ 64 - 1] [2 ^ 64 - 1; 2 ^ 64 - 1] [0; 0; 0] [0; 0] =
    ([1; 0; 2 ^ 64 - 1], [2 ^ 64 - 2; 2 ^ 64 - 1]) /\
  g_schoolbook_multiplication [3; 5] [7] [0; 0] [0] = ([21; 35], [0]) /\
  g_schoolbook_multiplication [3; 5] [7] [1; 0] [9] = ([22; 35], [0]) /\
  g_schoolbook_multiplication [3; 5] [7] [0] [0] = panic_ ([], []).
Proof. vm_compute. repeat split. Qed.

(* ---------------- schoolbook_squaring (half grid from `let mut i = 1` with inner `while j < i`, in-place doubling over
   limbs.len() and limbs.len() - 1 limbs, diagonal with mac + overflowing_add; every write goes through the lo / hi split) *)
Theorem C03_src_limb_overflowing_add : forall a b, is_word a -> is_word b -> g_limb_overflowing_add a b = overflowing_add a b.
Proof. exact g_limb_overflowing_add_eq. Qed.
Print Assumptions C03_src_limb_overflowing_add.

(** for ANY incoming buffer contents (the `panic!("schoolbook squaring length mismatch")` guard is not taken under the two
    length hypotheses; limbs.len() >= 1: `limbs.len() - 1` underflows on the empty slice; 2 * limbs.len() is a usize):
    half grid = sq_rows, doubling = shl1_go on the first 2n - 1 limbs, diagonal = sq_diag, all on the single list lo ++ hi *)
Theorem C03_src_squaring_stages : forall xs lo hi, (1 <= length xs)%nat ->
  length lo = length xs -> length hi = length xs -> Z.of_nat (2 * length xs) < 2 ^ 64 -> wf xs -> wf lo -> wf hi ->
  g_schoolbook_squaring xs lo hi =
  split_at (length xs)
    (sq_diag (fst (shl1_go (firstn (2 * length xs - 1) (sq_rows (lo ++ hi) 1 (tl xs) xs)) 0) ++
              [snd (shl1_go (firstn (2 * length xs - 1) (sq_rows (lo ++ hi) 1 (tl xs) xs)) 0)]) 0 xs 0).
Proof. exact g_squaring_rows_eq. Qed.
Print Assumptions C03_src_squaring_stages.

(** on zeroed buffers (uint_square_limbs, square_limbs): the model function of C03_schoolbook_sq_exact / C03_ksq_exact level 0 *)
Theorem C03_src_schoolbook_sq : forall xs, (1 <= length xs)%nat -> Z.of_nat (2 * length xs) < 2 ^ 64 -> wf xs ->
  g_schoolbook_squaring xs (zeros (length xs)) (zeros (length xs)) = split_at (length xs) (schoolbook_sq xs).
Proof. exact g_squaring_eq. Qed.
Print Assumptions C03_src_schoolbook_sq.

Theorem C03_src_squaring_exact : forall xs lo hi, (1 <= length xs)%nat -> Z.of_nat (2 * length xs) < 2 ^ 64 -> wf xs ->
  g_schoolbook_squaring xs (zeros (length xs)) (zeros (length xs)) = (lo, hi) ->
  eval lo + Bn (length xs) * eval hi = eval xs * eval xs /\ wf lo /\ wf hi /\ length lo = length xs /\ length hi = length xs.
Proof. exact g_squaring_exact. Qed.
Print Assumptions C03_src_squaring_exact.

Example C03_src_squaring_runs :
  g_schoolbook_squaring [2 ^ 64 - 1; 2 ^ 64 - 1; 2 ^ 64 - 1] [0; 0; 0] [0; 0; 0] =
    ([1; 0; 0], [2 ^ 64 - 2; 2 ^ 64 - 1; 2 ^ 64 - 1]) /\
  g_schoolbook_squaring [3; 5] [0; 0] [0; 0] = ([9; 30], [25; 0]) /\
  g_schoolbook_squaring [7] [0] [0] = ([49], [0]) /\
  g_schoolbook_squaring [2 ^ 64 - 1; 2 ^ 64 - 1; 3] [0; 0; 0] [0; 0; 0] =
    g_schoolbook_multiplication [2 ^ 64 - 1; 2 ^ 64 - 1; 3] [2 ^ 64 - 1; 2 ^ 64 - 1; 3] [0; 0; 0] [0; 0; 0] /\
  g_schoolbook_squaring [3; 5] [0; 0] [0] = panic_ ([], []).
Proof. vm_compute. repeat split. Qed.

Example C03_src_runs : g_mac (2 ^ 64 - 1) (2 ^ 64 - 1) (2 ^ 64 - 1) (2 ^ 64 - 1) = (2 ^ 64 - 1, 2 ^ 64 - 1).
Proof. vm_compute. reflexivity. Qed.
