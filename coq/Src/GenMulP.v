(** Translator tie, group Mul: `schoolbook_multiplication` of src/uint/mul.rs and `Limb::mac` of src/limb/mul.rs as
    regenerated from /repo's CURRENT source (Src/GenMul.v) equal the structural recursion [schoolbook_rows] / [schoolbook_mul]
    of Model/Mul.v, for all limb slices (any two lengths whose sum is a usize) and all limb values.
    The source keeps the product in two buffers lo / hi and selects with `if k >= lhs.len()`; the model keeps ONE list
    lo ++ hi. The two nested `while` loops are emitted as Nat.iter over (i, hi, lo) and (j, hi, carry, lo). *)
From CB Require Import Model.SrcPrelude Model.Word Model.Limbs Model.AddSub Model.Mul.
From CB Require Import Src.GenPrim Src.GenShift Src.GenMul Src.GenPrimP Src.GenLoopP Src.GenIterP.
From CB Require Import Proofs.WordP Proofs.LimbsP Proofs.AddSubP Proofs.MulBaseP Proofs.MulSqP.
From Coq Require Import Lia List.
Import ListNotations.
Open Scope Z_scope.
Transparent B.

(* ---------------- Limb::mac *)
Lemma g_limb_mac_eq a b c k : is_word a -> is_word b -> is_word c -> is_word k -> g_limb_mac a b c k = mac a b c k.
Proof. intros. unfold g_limb_mac. rewrite g_mac_eq by assumption. destruct (mac a b c k); reflexivity. Qed.

(* ---------------- the two loop bodies, as functions of the index (what the generated lambdas compute) *)
Definition in_step (n : nat) (rhs : list Z) (xi vi : Z) (j : nat) (s : list Z * Z * list Z) : list Z * Z * list Z :=
  let '(hi, carry, lo) := s in
  let k := add_ 64 vi (Z.of_nat j) in
  if Z.geb k (Z.of_nat n) then
    let '(t0, t1) := g_limb_mac (nth (Z.to_nat (sub_ 64 k (Z.of_nat n))) hi 0) xi (nth j rhs 0) carry in
    (upd_ hi (Z.to_nat (sub_ 64 k (Z.of_nat n))) t0, t1, lo)
  else
    let '(t0, t1) := g_limb_mac (nth (Z.to_nat k) lo 0) xi (nth j rhs 0) carry in
    (hi, t1, upd_ lo (Z.to_nat k) t0).

Definition out_step (n : nat) (lhs rhs : list Z) (i : nat) (s : list Z * list Z) : list Z * list Z :=
  let '(hi, lo) := s in
  let '(hi1, c, lo1) := fold_left (fun s j => in_step n rhs (nth i lhs 0) (Z.of_nat i) j s) (seq 0 (length rhs)) (hi, 0, lo) in
  let k := add_ 64 (Z.of_nat i) (Z.of_nat (length rhs)) in
  if Z.geb k (Z.of_nat n) then (upd_ hi1 (Z.to_nat (sub_ 64 k (Z.of_nat n))) c, lo1) else (hi1, upd_ lo1 (Z.to_nat k) c).

(** the generated function is the fold of [out_step] over the rows (the `panic!` guard is not taken when the buffer
    lengths match) *)
Lemma g_schoolbook_loops lhs rhs lo hi :
  length lo = length lhs -> length hi = length rhs -> Z.of_nat (length lhs) < 2 ^ 64 -> Z.of_nat (length rhs) < 2 ^ 64 ->
  g_schoolbook_multiplication lhs rhs lo hi =
  (snd (fold_left (fun s i => out_step (length lhs) lhs rhs i s) (seq 0 (length lhs)) (hi, lo)),
   fst (fold_left (fun s i => out_step (length lhs) lhs rhs i s) (seq 0 (length lhs)) (hi, lo))).
Proof.
  intros Hlo Hhi Hn Hm. unfold g_schoolbook_multiplication.
  rewrite Hlo, Hhi, !Z.eqb_refl. cbn [negb orb]. cbv beta iota zeta.
  match goal with |- context [Nat.iter (length lhs) ?F (0, hi, lo)] =>
    change (Nat.iter (length lhs) F (0, hi, lo)) with (Nat.iter (length lhs) F (enc3 0 (hi, lo)));
    rewrite (iter_enc F enc3 (out_step (length lhs) lhs rhs)) end.
  - unfold enc3. destruct (fold_left _ _ _) as [h l]. reflexivity.
  - intros i [h l] Hi. unfold enc3, out_step. cbn [fst snd]. rewrite Z2Nat.id by lia. cbv beta iota zeta.
    match goal with |- context [Nat.iter (length rhs) ?F (0, h, 0, l)] =>
      change (Nat.iter (length rhs) F (0, h, 0, l)) with (Nat.iter (length rhs) F (enc4 0 (h, 0, l)));
      rewrite (iter_enc F enc4 (in_step (length lhs) rhs (nth (Z.to_nat i) lhs 0) i)) end.
    + destruct (fold_left _ _ _) as [[h1 c] l1]. unfold enc4. cbn [fst snd].
      destruct (Z.geb _ _); reflexivity.
    + intros j [[h1 c] l1] Hj. unfold enc4, in_step. cbn [fst snd]. rewrite Z2Nat.id by lia. cbv beta iota zeta.
      destruct (Z.geb _ _); destruct (g_limb_mac _ _ _ _) as [t0 t1]; reflexivity.
    + exact Hm.
  - exact Hn.
Qed.

(* ---------------- the inner loop is mac_row on lo ++ hi *)
Lemma mac_row_cons out off xi y ys c :
  mac_row out off xi (y :: ys) c = mac_row (upd_ out off (fst (mac (nth off out 0) xi y c))) (S off) xi ys (snd (mac (nth off out 0) xi y c)).
Proof. cbn [mac_row]. unfold nthz, upd_. destruct (mac (nth off out 0) xi y c); reflexivity. Qed.

Lemma in_step_sim n rhs xi i j hi c lo :
  length lo = n -> Z.of_nat (i + j) < 2 ^ 64 -> (i + j < n + length hi)%nat ->
  wf (lo ++ hi) -> is_word xi -> is_word (nth j rhs 0) -> is_word c ->
  let r := in_step n rhs xi (Z.of_nat i) j (hi, c, lo) in
  let m := mac (nth (i + j) (lo ++ hi) 0) xi (nth j rhs 0) c in
  snd r ++ fst (fst r) = upd_ (lo ++ hi) (i + j) (fst m) /\ snd (fst r) = snd m /\
  length (snd r) = n /\ length (fst (fst r)) = length hi.
Proof.
  intros Hn Hk Hb Hw Hxi Hy Hc. cbv zeta. unfold in_step.
  assert (Ek : add_ 64 (Z.of_nat i) (Z.of_nat j) = Z.of_nat (i + j)) by (unfold add_; rewrite Z.mod_small by lia; lia).
  rewrite Ek. subst n.
  pose proof (split_read lo hi (i + j) Hk) as Hr.
  assert (Hx : is_word (nth (i + j) (lo ++ hi) 0)).
  { unfold wf in Hw. rewrite Forall_forall in Hw. apply Hw. apply nth_In. rewrite app_length. lia. }
  destruct (Z.geb (Z.of_nat (i + j)) (Z.of_nat (length lo))) eqn:E.
  - rewrite Hr. rewrite g_limb_mac_eq by assumption.
    pose proof (split_write lo hi (i + j) (fst (mac (nth (i + j) (lo ++ hi) 0) xi (nth j rhs 0) c)) Hk Hb) as Hwr.
    cbv zeta in Hwr. rewrite E in Hwr. cbn [fst snd] in Hwr.
    destruct (mac (nth (i + j) (lo ++ hi) 0) xi (nth j rhs 0) c) as [t0 t1]. cbn [fst snd] in *. tauto.
  - rewrite Hr. rewrite g_limb_mac_eq by assumption.
    pose proof (split_write lo hi (i + j) (fst (mac (nth (i + j) (lo ++ hi) 0) xi (nth j rhs 0) c)) Hk Hb) as Hwr.
    cbv zeta in Hwr. rewrite E in Hwr. cbn [fst snd] in Hwr.
    destruct (mac (nth (i + j) (lo ++ hi) 0) xi (nth j rhs 0) c) as [t0 t1]. cbn [fst snd] in *. tauto.
Qed.

Lemma in_fold n xi i : forall ys pre post hi c lo,
  length lo = n -> Z.of_nat (i + length pre + length ys) < 2 ^ 64 -> (i + length pre + length ys <= n + length hi)%nat ->
  wf (lo ++ hi) -> is_word xi -> wf ys -> is_word c ->
  let r := fold_left (fun s j => in_step n (pre ++ ys ++ post) xi (Z.of_nat i) j s) (seq (length pre) (length ys)) (hi, c, lo) in
  let m := mac_row (lo ++ hi) (i + length pre) xi ys c in
  snd r ++ fst (fst r) = fst m /\ snd (fst r) = snd m /\ length (snd r) = n /\ length (fst (fst r)) = length hi.
Proof.
  induction ys as [|y ys IH]; intros pre post hi c lo Hn Hk Hb Hw Hxi Hy Hc.
  - cbn. auto.
  - apply wf_cons in Hy. destruct Hy as [Hy Hys]. cbn [length] in Hk, Hb.
    cbn [length seq fold_left]. cbv zeta. rewrite mac_row_cons.
    assert (Hnth : nth (length pre) (pre ++ (y :: ys) ++ post) 0 = y) by apply nth_middle.
    pose proof (in_step_sim n (pre ++ (y :: ys) ++ post) xi i (length pre) hi c lo Hn ltac:(lia) ltac:(lia) Hw Hxi
                  ltac:(rewrite Hnth; exact Hy) Hc) as S1.
    cbv zeta in S1. rewrite Hnth in S1.
    destruct (in_step n (pre ++ (y :: ys) ++ post) xi (Z.of_nat i) (length pre) (hi, c, lo)) as [[hi1 c1] lo1].
    cbn [fst snd] in S1. destruct S1 as (S1 & S2 & S3 & S4).
    assert (Hx : is_word (nth (i + length pre) (lo ++ hi) 0)).
    { unfold wf in Hw. rewrite Forall_forall in Hw. apply Hw. apply nth_In. rewrite app_length. lia. }
    destruct (mac_exact _ _ _ _ _ _ Hx Hxi Hy Hc (surjective_pairing _)) as (_ & Hv & Hc1).
    replace (pre ++ (y :: ys) ++ post) with ((pre ++ [y]) ++ ys ++ post) by (rewrite <- app_assoc; reflexivity).
    replace (S (length pre)) with (length (pre ++ [y])) by (rewrite app_length; cbn; lia).
    replace (S (i + length pre)) with (i + length (pre ++ [y]))%nat by (rewrite app_length; cbn; lia).
    rewrite <- S1, S2 in *.
    specialize (IH (pre ++ [y]) post hi1 (snd (mac (nth (i + length pre) (lo ++ hi) 0) xi y c)) lo1 S3
      ltac:(rewrite app_length; cbn [length]; lia) ltac:(rewrite app_length; cbn [length]; lia)).
    rewrite S4 in IH. apply IH; try assumption.
    rewrite S1. apply upd_Forall; assumption.
Qed.

(* ---------------- the outer loop is schoolbook_rows on lo ++ hi *)
Lemma schoolbook_rows_cons out i xi xs ys :
  schoolbook_rows out i (xi :: xs) ys =
  schoolbook_rows (upd_ (fst (mac_row out i xi ys 0)) (i + length ys) (snd (mac_row out i xi ys 0))) (S i) xs ys.
Proof. cbn [schoolbook_rows]. unfold upd_. destruct (mac_row out i xi ys 0); reflexivity. Qed.

Lemma out_step_sim n lhs rhs i hi lo :
  length lo = n -> length hi = length rhs -> (i < n)%nat -> Z.of_nat (n + length rhs) < 2 ^ 64 ->
  wf (lo ++ hi) -> is_word (nth i lhs 0) -> wf rhs ->
  let r := out_step n lhs rhs i (hi, lo) in
  let m := mac_row (lo ++ hi) i (nth i lhs 0) rhs 0 in
  snd r ++ fst r = upd_ (fst m) (i + length rhs) (snd m) /\ length (snd r) = n /\ length (fst r) = length rhs /\
  wf (snd r ++ fst r).
Proof.
  intros Hn Hh Hi Hk Hw Hxi Hy. cbv zeta. unfold out_step.
  pose proof (in_fold n (nth i lhs 0) i rhs [] [] hi 0 lo Hn ltac:(cbn [length]; lia) ltac:(cbn [length]; lia) Hw Hxi Hy is_word_0) as F.
  cbv zeta in F. cbn [app length] in F. rewrite app_nil_r, Nat.add_0_r in F.
  destruct (fold_left _ _ _) as [[hi1 c] lo1]. cbn [fst snd] in F. destruct F as (F1 & F2 & F3 & F4).
  destruct (mac_row_correct (lo ++ hi) i (nth i lhs 0) rhs 0 _ _ Hw Hy Hxi is_word_0
              ltac:(rewrite app_length; lia) (surjective_pairing _)) as (_ & Hw1 & Hl1 & Hc & _).
  rewrite <- F1, <- F2 in *.
  assert (Ek : add_ 64 (Z.of_nat i) (Z.of_nat (length rhs)) = Z.of_nat (i + length rhs))
    by (unfold add_; rewrite Z.mod_small by lia; lia).
  rewrite Ek. subst n.
  pose proof (split_write lo1 hi1 (i + length rhs) c ltac:(lia) ltac:(lia)) as Hwr. cbv zeta in Hwr. rewrite F3 in Hwr.
  destruct (Z.geb (Z.of_nat (i + length rhs)) (Z.of_nat (length lo))); cbn [fst snd] in *;
    (destruct Hwr as (W1 & W2 & W3); rewrite W1; repeat split; try lia; apply upd_Forall; assumption).
Qed.

Lemma out_fold n rhs : forall xs pre hi lo,
  length lo = n -> length hi = length rhs -> (length pre + length xs <= n)%nat -> Z.of_nat (n + length rhs) < 2 ^ 64 ->
  wf (lo ++ hi) -> wf xs -> wf rhs ->
  let r := fold_left (fun s i => out_step n (pre ++ xs) rhs i s) (seq (length pre) (length xs)) (hi, lo) in
  snd r ++ fst r = schoolbook_rows (lo ++ hi) (length pre) xs rhs /\ length (snd r) = n /\ length (fst r) = length rhs.
Proof.
  induction xs as [|x xs IH]; intros pre hi lo Hn Hh Hb Hk Hw Hx Hy.
  - cbn. auto.
  - apply wf_cons in Hx. destruct Hx as [Hx Hxs]. cbn [length] in Hb.
    cbn [length seq fold_left]. cbv zeta. rewrite schoolbook_rows_cons.
    assert (Hnth : nth (length pre) (pre ++ x :: xs) 0 = x) by apply nth_middle.
    pose proof (out_step_sim n (pre ++ x :: xs) rhs (length pre) hi lo Hn Hh ltac:(lia) Hk Hw
                  ltac:(rewrite Hnth; exact Hx) Hy) as S1.
    cbv zeta in S1. rewrite Hnth in S1.
    destruct (out_step n (pre ++ x :: xs) rhs (length pre) (hi, lo)) as [hi1 lo1].
    cbn [fst snd] in S1. destruct S1 as (S1 & S2 & S3 & S4).
    replace (pre ++ x :: xs) with ((pre ++ [x]) ++ xs) by (rewrite <- app_assoc; reflexivity).
    replace (S (length pre)) with (length (pre ++ [x])) by (rewrite app_length; cbn; lia).
    rewrite <- S1.
    apply IH; try assumption. rewrite app_length; cbn [length]; lia.
Qed.

(** the SOURCE schoolbook_multiplication on buffers of matching length = the model's rows on lo ++ hi, split again *)
Lemma g_schoolbook_rows_eq lhs rhs lo hi :
  length lo = length lhs -> length hi = length rhs -> Z.of_nat (length lhs + length rhs) < 2 ^ 64 ->
  wf lhs -> wf rhs -> wf lo -> wf hi ->
  g_schoolbook_multiplication lhs rhs lo hi = split_at (length lhs) (schoolbook_rows (lo ++ hi) 0 lhs rhs).
Proof.
  intros Hlo Hhi Hk Wl Wr Wlo Whi.
  rewrite g_schoolbook_loops by (first [assumption | lia]).
  pose proof (out_fold (length lhs) rhs lhs [] hi lo Hlo Hhi ltac:(cbn [length]; lia) Hk
                ltac:(apply wf_app; split; assumption) Wl Wr) as F.
  cbv zeta in F. cbn [app length] in F.
  destruct (fold_left _ _ _) as [hi1 lo1]. cbn [fst snd] in *. destruct F as (F1 & F2 & F3).
  rewrite <- F1. unfold split_at. rewrite <- F2. rewrite firstn_exact, skipn_exact. reflexivity.
Qed.

(** on zeroed buffers (how every caller invokes it: uint_mul_limbs, mul_limbs): the model's schoolbook_mul, split *)
Lemma g_schoolbook_eq xs ys : Z.of_nat (length xs + length ys) < 2 ^ 64 -> wf xs -> wf ys ->
  g_schoolbook_multiplication xs ys (zeros (length xs)) (zeros (length ys)) = split_at (length xs) (schoolbook_mul xs ys).
Proof.
  intros Hk Wx Wy. rewrite g_schoolbook_rows_eq by (first [assumption | apply length_zeros | apply wf_zeros]).
  unfold schoolbook_mul, zeros. rewrite repeat_app. reflexivity.
Qed.

(* ---------------- composition with the exactness theorem of the model: a statement about the SOURCE text *)
Lemma g_schoolbook_exact xs ys lo hi : Z.of_nat (length xs + length ys) < 2 ^ 64 -> wf xs -> wf ys ->
  g_schoolbook_multiplication xs ys (zeros (length xs)) (zeros (length ys)) = (lo, hi) ->
  eval lo + Bn (length xs) * eval hi = eval xs * eval ys /\ wf lo /\ wf hi /\ length lo = length xs /\ length hi = length ys.
Proof.
  intros Hk Wx Wy E. rewrite g_schoolbook_eq in E by assumption. exact (schoolbook_split_correct xs ys lo hi Wx Wy E).
Qed.

(* ================================================================================================================
   schoolbook_squaring: half grid (two nested loops, `let mut i = 1`, inner `while j < i`), doubling in place (two loops,
   the second over limbs.len() - 1 limbs), diagonal (mac + overflowing_add through the lo / hi split)
   ================================================================================================================ *)
Lemma g_limb_overflowing_add_eq a b : is_word a -> is_word b -> g_limb_overflowing_add a b = overflowing_add a b.
Proof. intros. unfold g_limb_overflowing_add. rewrite g_overflowing_add_eq by assumption. destruct (overflowing_add a b); reflexivity. Qed.

Definition sq_out_step (n : nat) (limbs : list Z) (i : nat) (s : list Z * list Z) : list Z * list Z :=
  let '(hi, lo) := s in
  let '(hi1, c, lo1) := fold_left (fun s j => in_step n limbs (nth i limbs 0) (Z.of_nat i) j s) (seq 0 i) (hi, 0, lo) in
  let k := mul_ 64 2 (Z.of_nat i) in
  if Z.ltb k (Z.of_nat n) then (hi1, upd_ lo1 (Z.to_nat k) c) else (upd_ hi1 (Z.to_nat (sub_ 64 k (Z.of_nat n))) c, lo1).

Definition dbl_step (j : nat) (s : list Z * Z) : list Z * Z :=
  (upd_ (fst s) j (Z.lor (shl_ 64 (nth j (fst s) 0) 1) (snd s)), g_limb_shr (nth j (fst s) 0) (sub_ 32 64 1)).

Definition diag_step (n : nat) (limbs : list Z) (i : nat) (s : list Z * Z * list Z) : list Z * Z * list Z :=
  let '(lo, carry, hi) := s in
  let xi := nth i limbs 0 in
  let k := mul_ 64 (Z.of_nat i) 2 in
  let '(lo1, c1, hi1) :=
    if Z.ltb k (Z.of_nat n)
    then (let '(t0, t1) := g_limb_mac (nth (Z.to_nat k) lo 0) xi xi carry in (upd_ lo (Z.to_nat k) t0, t1, hi))
    else (let '(t0, t1) := g_limb_mac (nth (Z.to_nat (sub_ 64 k (Z.of_nat n))) hi 0) xi xi carry in
          (lo, t1, upd_ hi (Z.to_nat (sub_ 64 k (Z.of_nat n))) t0)) in
  let k1 := add_ 64 k 1 in
  if Z.ltb k1 (Z.of_nat n)
  then (let '(t0, t1) := g_limb_overflowing_add (nth (Z.to_nat k1) lo1 0) c1 in (upd_ lo1 (Z.to_nat k1) t0, t1, hi1))
  else (let '(t0, t1) := g_limb_overflowing_add (nth (Z.to_nat (sub_ 64 k1 (Z.of_nat n))) hi1 0) c1 in
        (lo1, t1, upd_ hi1 (Z.to_nat (sub_ 64 k1 (Z.of_nat n))) t0)).

(** the generated function is the composition of the four folds *)
Lemma g_squaring_loops limbs lo hi :
  length lo = length limbs -> length hi = length limbs -> (1 <= length limbs)%nat -> Z.of_nat (length limbs) < 2 ^ 64 ->
  g_schoolbook_squaring limbs lo hi =
  (let n := length limbs in
   let '(hi1, lo1) := fold_left (fun s i => sq_out_step n limbs i s) (seq 1 (n - 1)) (hi, lo) in
   let '(lo2, c2) := fold_left (fun s j => dbl_step j s) (seq 0 n) (lo1, 0) in
   let '(hi3, c3) := fold_left (fun s j => dbl_step j s) (seq 0 (n - 1)) (hi1, c2) in
   let '(lo5, c5, hi5) := fold_left (fun s i => diag_step n limbs i s) (seq 0 n) (lo2, 0, upd_ hi3 (n - 1) c3) in
   (lo5, hi5)).
Proof.
  intros Hlo Hhi H1 Hn. unfold g_schoolbook_squaring.
  rewrite Hlo, Hhi, !Z.eqb_refl. cbn [negb orb]. cbv beta iota zeta.
  replace (Z.to_nat (Z.of_nat (length limbs) - 1)) with (length limbs - 1)%nat by lia.
  assert (E1 : sub_ 64 (Z.of_nat (length limbs)) 1 = Z.of_nat (length limbs - 1)) by (unfold sub_; rewrite Z.mod_small by lia; lia).
  rewrite E1, Z.sub_0_r, !Nat2Z.id.
  (* loop 1 *)
  match goal with |- context [Nat.iter (length limbs - 1) ?F (1, hi, lo)] =>
    change (Nat.iter (length limbs - 1) F (1, hi, lo)) with (Nat.iter (length limbs - 1) F (enc3 (Z.of_nat 1) (hi, lo)));
    rewrite (iter_enc_from F enc3 (sq_out_step (length limbs) limbs)) end.
  2:{ intros i [h l] Hi. unfold enc3, sq_out_step. cbn [fst snd]. rewrite Z2Nat.id by lia. cbv beta iota zeta.
      rewrite Z.sub_0_r.
      match goal with |- context [Nat.iter (Z.to_nat i) ?F (0, h, 0, l)] =>
        change (Nat.iter (Z.to_nat i) F (0, h, 0, l)) with (Nat.iter (Z.to_nat i) F (enc4 0 (h, 0, l)));
        rewrite (iter_enc F enc4 (in_step (length limbs) limbs (nth (Z.to_nat i) limbs 0) i)) end.
      - destruct (fold_left _ _ _) as [[h1 c] l1]. unfold enc4. cbn [fst snd].
        destruct (Z.ltb _ _); reflexivity.
      - intros j [[h1 c] l1] Hj. unfold enc4, in_step. cbn [fst snd]. rewrite Z2Nat.id by lia. cbv beta iota zeta.
        destruct (Z.geb _ _); destruct (g_limb_mac _ _ _ _) as [t0 t1]; reflexivity.
      - lia. }
  2:{ lia. }
  destruct (fold_left (fun s i => sq_out_step _ _ i s) _ _) as [hi1 lo1]. unfold enc3 at 1. cbn [fst snd]. cbv beta iota.
  (* loop 2 *)
  match goal with |- context [Nat.iter (length limbs) ?F (0, lo1, 0)] =>
    change (Nat.iter (length limbs) F (0, lo1, 0)) with (Nat.iter (length limbs) F (enc3 0 (lo1, 0)));
    rewrite (iter_enc F enc3 dbl_step) end.
  2:{ intros i [l c] Hi. reflexivity. }
  2:{ exact Hn. }
  destruct (fold_left (fun s j => dbl_step j s) _ (lo1, 0)) as [lo2 c2]. unfold enc3 at 1. cbn [fst snd]. cbv beta iota.
  (* loop 3 *)
  match goal with |- context [Nat.iter (length limbs - 1) ?F (0, hi1, c2)] =>
    change (Nat.iter (length limbs - 1) F (0, hi1, c2)) with (Nat.iter (length limbs - 1) F (enc3 0 (hi1, c2)));
    rewrite (iter_enc F enc3 dbl_step) end.
  2:{ intros i [l c] Hi. reflexivity. }
  2:{ lia. }
  destruct (fold_left (fun s j => dbl_step j s) _ (hi1, c2)) as [hi3 c3]. unfold enc3 at 1. cbn [fst snd]. cbv beta iota.
  (* loop 4 *)
  match goal with |- context [Nat.iter (length limbs) ?F (0, lo2, 0, ?h)] =>
    change (Nat.iter (length limbs) F (0, lo2, 0, h)) with (Nat.iter (length limbs) F (enc4 0 (lo2, 0, h)));
    rewrite (iter_enc F enc4 (diag_step (length limbs) limbs)) end.
  2:{ intros i [[l c] h] Hi. unfold enc4, diag_step. cbn [fst snd]. rewrite Z2Nat.id by lia. cbv beta iota zeta.
      destruct (Z.ltb (mul_ 64 i 2) _); destruct (g_limb_mac _ _ _ _) as [t0 t1];
        destruct (Z.ltb (add_ 64 (mul_ 64 i 2) 1) _); destruct (g_limb_overflowing_add _ _) as [u0 u1]; reflexivity. }
  2:{ exact Hn. }
  destruct (fold_left _ _ _) as [[lo5 c5] hi5]. reflexivity.
Qed.

(* ---------------- phase 1: the half grid is sq_rows on lo ++ hi *)
Lemma sq_rows_cons out i xi rest xs :
  sq_rows out i (xi :: rest) xs =
  sq_rows (upd_ (fst (mac_row out i xi (firstn i xs) 0)) (2 * i) (snd (mac_row out i xi (firstn i xs) 0))) (S i) rest xs.
Proof. cbn [sq_rows]. unfold upd_. destruct (mac_row out i xi (firstn i xs) 0); reflexivity. Qed.

Lemma wf_nth (l : list Z) k : wf l -> (k < length l)%nat -> is_word (nth k l 0).
Proof. intros W H. unfold wf in W. rewrite Forall_forall in W. apply W. apply nth_In. exact H. Qed.

Lemma sq_out_step_sim n limbs i hi lo :
  length lo = n -> length hi = n -> length limbs = n -> (i < n)%nat -> Z.of_nat (2 * n) < 2 ^ 64 ->
  wf (lo ++ hi) -> wf limbs ->
  let r := sq_out_step n limbs i (hi, lo) in
  let m := mac_row (lo ++ hi) i (nth i limbs 0) (firstn i limbs) 0 in
  snd r ++ fst r = upd_ (fst m) (2 * i) (snd m) /\ length (snd r) = n /\ length (fst r) = n /\ wf (snd r ++ fst r).
Proof.
  intros Hn Hh Hl Hi Hk Hw Wl. cbv zeta. unfold sq_out_step.
  assert (Hxi : is_word (nth i limbs 0)) by (apply wf_nth; [assumption | lia]).
  assert (Lf : length (firstn i limbs) = i) by (apply firstn_length_le; lia).
  pose proof (in_fold n (nth i limbs 0) i (firstn i limbs) [] (skipn i limbs) hi 0 lo Hn
                ltac:(cbn [length]; lia) ltac:(cbn [length]; lia) Hw Hxi (wf_firstn _ _ Wl) is_word_0) as F.
  cbv zeta in F. cbn [app length] in F. rewrite firstn_skipn, Lf, Nat.add_0_r in F.
  destruct (fold_left _ _ _) as [[hi1 c] lo1]. cbn [fst snd] in F. destruct F as (F1 & F2 & F3 & F4).
  destruct (mac_row_correct (lo ++ hi) i (nth i limbs 0) (firstn i limbs) 0 _ _ Hw (wf_firstn _ _ Wl) Hxi is_word_0
              ltac:(rewrite app_length; lia) (surjective_pairing _)) as (_ & Hw1 & Hl1 & Hc & _).
  rewrite <- F1, <- F2 in *.
  assert (Ek : mul_ 64 2 (Z.of_nat i) = Z.of_nat (2 * i)) by (unfold mul_; rewrite Z.mod_small by lia; lia).
  rewrite Ek. subst n.
  pose proof (split_write_lt lo1 hi1 (2 * i) c ltac:(lia) ltac:(lia)) as Hwr. cbv zeta in Hwr. rewrite F3 in Hwr.
  destruct (Z.ltb (Z.of_nat (2 * i)) (Z.of_nat (length lo))); cbn [fst snd] in *;
    (destruct Hwr as (W1 & W2 & W3); rewrite W1; repeat split; try lia; apply upd_Forall; assumption).
Qed.

Lemma sq_out_fold n : forall rest pre hi lo,
  length lo = n -> length hi = n -> length (pre ++ rest) = n -> Z.of_nat (2 * n) < 2 ^ 64 ->
  wf (lo ++ hi) -> wf (pre ++ rest) ->
  let r := fold_left (fun s i => sq_out_step n (pre ++ rest) i s) (seq (length pre) (length rest)) (hi, lo) in
  snd r ++ fst r = sq_rows (lo ++ hi) (length pre) rest (pre ++ rest) /\ length (snd r) = n /\ length (fst r) = n /\
  wf (snd r ++ fst r).
Proof.
  induction rest as [|x rest IH]; intros pre hi lo Hn Hh Hl Hk Hw Wl.
  - cbn. auto.
  - cbn [length seq fold_left]. cbv zeta. rewrite sq_rows_cons.
    assert (Hnth : nth (length pre) (pre ++ x :: rest) 0 = x) by apply nth_middle.
    pose proof (sq_out_step_sim n (pre ++ x :: rest) (length pre) hi lo Hn Hh Hl
                  ltac:(rewrite app_length in Hl; cbn [length] in Hl; lia) Hk Hw Wl) as S1.
    cbv zeta in S1. rewrite Hnth in S1.
    destruct (sq_out_step n (pre ++ x :: rest) (length pre) (hi, lo)) as [hi1 lo1].
    cbn [fst snd] in S1. destruct S1 as (S1 & S2 & S3 & S4).
    replace (pre ++ x :: rest) with ((pre ++ [x]) ++ rest) in * by (rewrite <- app_assoc; reflexivity).
    replace (S (length pre)) with (length (pre ++ [x])) by (rewrite app_length; cbn; lia).
    rewrite <- S1.
    apply IH; assumption.
Qed.

(* ---------------- phases 2, 3: doubling in place is shl1_go *)
Lemma shl1_go_cons x l c : shl1_go (x :: l) c = (Z.lor (wshl x 1) c :: fst (shl1_go l (x / 2 ^ 63)), snd (shl1_go l (x / 2 ^ 63))).
Proof. cbn [shl1_go]. destruct (shl1_go l (x / 2 ^ 63)); reflexivity. Qed.
Lemma shl1_go_app a : forall b c,
  shl1_go (a ++ b) c = (fst (shl1_go a c) ++ fst (shl1_go b (snd (shl1_go a c))), snd (shl1_go b (snd (shl1_go a c)))).
Proof.
  induction a as [|x a IH]; intros b c.
  - cbn [app shl1_go fst snd]. destruct (shl1_go b c); reflexivity.
  - cbn [app]. rewrite !shl1_go_cons. cbn [fst snd]. rewrite IH. cbn [fst snd app]. reflexivity.
Qed.

Lemma dbl_fold : forall l pre post c,
  fold_left (fun s j => dbl_step j s) (seq (length pre) (length l)) (pre ++ l ++ post, c)
  = (pre ++ fst (shl1_go l c) ++ post, snd (shl1_go l c)).
Proof.
  induction l as [|x l IH]; intros pre post c; [reflexivity|].
  cbn [length seq fold_left]. unfold dbl_step at 2. cbn [fst snd app].
  rewrite nth_middle, GenLoopP.upd_mid. rewrite shl1_go_cons. cbn [fst snd].
  change (g_limb_shr x (sub_ 32 64 1)) with (x / 2 ^ 63). change (shl_ 64 x 1) with (wshl x 1).
  replace (pre ++ Z.lor (wshl x 1) c :: l ++ post) with ((pre ++ [Z.lor (wshl x 1) c]) ++ l ++ post)
    by (rewrite <- app_assoc; reflexivity).
  replace (S (length pre)) with (length (pre ++ [Z.lor (wshl x 1) c])) by (rewrite app_length; cbn; lia).
  rewrite IH. rewrite <- app_assoc. reflexivity.
Qed.

(* ---------------- phase 4: the diagonal is sq_diag on lo ++ hi *)
Lemma sq_diag_cons out i xi rest carry :
  sq_diag out i (xi :: rest) carry =
  (let m1 := mac (nth (2 * i) out 0) xi xi carry in
   let out1 := upd_ out (2 * i) (fst m1) in
   let m2 := overflowing_add (nth (2 * i + 1) out1 0) (snd m1) in
   sq_diag (upd_ out1 (2 * i + 1) (fst m2)) (S i) rest (snd m2)).
Proof.
  cbn [sq_diag]. cbv zeta. unfold nthz, upd_. destruct (mac (nth (2 * i) out 0) xi xi carry) as [v c]. cbn [fst snd].
  destruct (overflowing_add _ c) as [v2 c2]. reflexivity.
Qed.

Lemma overflowing_add_words a b : is_word a -> is_word b ->
  is_word (fst (overflowing_add a b)) /\ is_word (snd (overflowing_add a b)).
Proof.
  unfold is_word, overflowing_add. intros Ha Hb. cbn [fst snd]. change B with (2 ^ 64) in *. split.
  - apply Z.mod_pos_bound. lia.
  - split; [apply Z.div_pos; lia | apply Z.div_lt_upper_bound; lia].
Qed.

Lemma diag_step_sim n limbs i lo c hi :
  length lo = n -> length hi = n -> (i < n)%nat -> Z.of_nat (2 * n) < 2 ^ 64 ->
  wf (lo ++ hi) -> is_word (nth i limbs 0) -> is_word c ->
  let r := diag_step n limbs i (lo, c, hi) in
  let xi := nth i limbs 0 in
  let m1 := mac (nth (2 * i) (lo ++ hi) 0) xi xi c in
  let out1 := upd_ (lo ++ hi) (2 * i) (fst m1) in
  let m2 := overflowing_add (nth (2 * i + 1) out1 0) (snd m1) in
  fst (fst r) ++ snd r = upd_ out1 (2 * i + 1) (fst m2) /\ snd (fst r) = snd m2 /\
  length (fst (fst r)) = n /\ length (snd r) = n /\ wf (fst (fst r) ++ snd r) /\ is_word (snd m2).
Proof.
  intros Hn Hh Hi Hk Hw Hxi Hc. cbv zeta. unfold diag_step.
  assert (Ek : mul_ 64 (Z.of_nat i) 2 = Z.of_nat (2 * i)) by (unfold mul_; rewrite Z.mod_small by lia; lia).
  rewrite Ek.
  assert (Ek1 : add_ 64 (Z.of_nat (2 * i)) 1 = Z.of_nat (2 * i + 1)) by (unfold add_; rewrite Z.mod_small by lia; lia).
  rewrite Ek1. subst n.
  pose proof (split_rmw_lt (fun x => g_limb_mac x (nth i limbs 0) (nth i limbs 0) c) lo hi (2 * i) ltac:(lia) ltac:(lia)) as R1.
  cbv beta zeta in R1.
  match type of R1 with context [snd (fst ?R)] => destruct R as [[lo1 c1] hi1] end.
  cbn [fst snd] in R1. destruct R1 as (R1 & R2 & R3 & R4).
  assert (Hx : is_word (nth (2 * i) (lo ++ hi) 0)) by (apply wf_nth; [assumption | rewrite app_length; lia]).
  rewrite g_limb_mac_eq in R1, R2 by assumption.
  destruct (mac_exact _ _ _ _ _ _ Hx Hxi Hxi Hc (surjective_pairing _)) as (_ & Hv & Hc1).
  assert (Hw1 : wf (lo1 ++ hi1)) by (rewrite R1; apply upd_Forall; assumption).
  pose proof (split_rmw_lt (fun x => g_limb_overflowing_add x c1) lo1 hi1 (2 * i + 1) ltac:(lia) ltac:(lia)) as Q1.
  cbv beta zeta in Q1. rewrite R3 in Q1.
  match type of Q1 with context [snd (fst ?R)] => destruct R as [[lo2 c2] hi2] end.
  cbn [fst snd] in Q1. destruct Q1 as (Q1 & Q2 & Q3 & Q4).
  assert (Hy : is_word (nth (2 * i + 1) (lo1 ++ hi1) 0)) by (apply wf_nth; [assumption | rewrite app_length; lia]).
  rewrite R2 in Q1, Q2. rewrite g_limb_overflowing_add_eq in Q1, Q2 by assumption.
  destruct (overflowing_add_words _ _ Hy Hc1) as [Hv2 Hc2].
  cbn [fst snd]. rewrite <- R1. rewrite Q1, Q2.
  split; [reflexivity|]. split; [reflexivity|]. split; [lia|]. split; [lia|].
  split; [apply upd_Forall; assumption | exact Hc2].
Qed.

Lemma diag_fold n : forall xs pre lo c hi,
  length lo = n -> length hi = n -> (length pre + length xs <= n)%nat -> Z.of_nat (2 * n) < 2 ^ 64 ->
  wf (lo ++ hi) -> wf xs -> is_word c ->
  let r := fold_left (fun s i => diag_step n (pre ++ xs) i s) (seq (length pre) (length xs)) (lo, c, hi) in
  fst (fst r) ++ snd r = sq_diag (lo ++ hi) (length pre) xs c /\ length (fst (fst r)) = n /\ length (snd r) = n.
Proof.
  induction xs as [|x xs IH]; intros pre lo c hi Hn Hh Hb Hk Hw Wx Hc.
  - cbn. auto.
  - apply wf_cons in Wx. destruct Wx as [Wx Wxs]. cbn [length] in Hb.
    cbn [length seq fold_left]. cbv zeta. rewrite sq_diag_cons. cbv zeta.
    assert (Hnth : nth (length pre) (pre ++ x :: xs) 0 = x) by apply nth_middle.
    pose proof (diag_step_sim n (pre ++ x :: xs) (length pre) lo c hi Hn Hh ltac:(lia) Hk Hw
                  ltac:(rewrite Hnth; exact Wx) Hc) as S1.
    cbv zeta in S1. rewrite Hnth in S1.
    destruct (diag_step n (pre ++ x :: xs) (length pre) (lo, c, hi)) as [[lo1 c1] hi1].
    cbn [fst snd] in S1. destruct S1 as (S1 & S2 & S3 & S4 & S5 & S6).
    replace (pre ++ x :: xs) with ((pre ++ [x]) ++ xs) by (rewrite <- app_assoc; reflexivity).
    replace (S (length pre)) with (length (pre ++ [x])) by (rewrite app_length; cbn; lia).
    rewrite <- S1, <- S2.
    apply IH; try assumption. rewrite app_length; cbn [length]; lia. rewrite S2; assumption.
Qed.

(* ---------------- assembly *)
Lemma shl1_go_len l : forall c, length (fst (shl1_go l c)) = length l.
Proof. induction l as [|x l IH]; intros c; [reflexivity|]. rewrite shl1_go_cons. cbn [fst length]. rewrite IH. reflexivity. Qed.

(** the SOURCE schoolbook_squaring on buffers of matching length, for ANY incoming buffer contents: the model's three
    stages on the single list lo ++ hi, split again at limbs.len() *)
Lemma g_squaring_rows_eq xs lo hi : (1 <= length xs)%nat ->
  length lo = length xs -> length hi = length xs -> Z.of_nat (2 * length xs) < 2 ^ 64 -> wf xs -> wf lo -> wf hi ->
  g_schoolbook_squaring xs lo hi =
  split_at (length xs)
    (sq_diag (fst (shl1_go (firstn (2 * length xs - 1) (sq_rows (lo ++ hi) 1 (tl xs) xs)) 0) ++
              [snd (shl1_go (firstn (2 * length xs - 1) (sq_rows (lo ++ hi) 1 (tl xs) xs)) 0)]) 0 xs 0).
Proof.
  intros H1 Hlo Hhi Hk Wx Wlo Whi. destruct xs as [|x0 t]; [cbn in H1; lia|]. cbn [tl].
  assert (Ht : length (x0 :: t) = S (length t)) by reflexivity.
  remember (x0 :: t) as xs eqn:Exs.
  rewrite g_squaring_loops by (first [assumption | lia]). cbv zeta.
  remember (length xs) as n eqn:En.
  (* phase 1 *)
  pose proof (sq_out_fold n t [x0] hi lo Hlo Hhi
                ltac:(change ([x0] ++ t) with (x0 :: t); rewrite <- Exs; symmetry; exact En) Hk
                ltac:(apply wf_app; split; assumption)
                ltac:(change ([x0] ++ t) with (x0 :: t); rewrite <- Exs; exact Wx)) as P1.
  cbv zeta in P1. change ([x0] ++ t) with (x0 :: t) in P1. rewrite <- Exs in P1. change (length [x0]) with 1%nat in P1.
  replace (n - 1)%nat with (length t) by lia.
  destruct (fold_left (fun s i => sq_out_step n xs i s) (seq 1 (length t)) (hi, lo)) as [hi1 lo1].
  cbn [fst snd] in P1. destruct P1 as (P1 & L1 & L1' & W1).
  set (out := sq_rows (lo ++ hi) 1 t xs) in *.
  (* phase 2 *)
  pose proof (dbl_fold lo1 [] [] 0) as P2. cbn [app length] in P2. rewrite !app_nil_r, L1 in P2. rewrite P2. clear P2.
  (* phase 3 *)
  pose proof (dbl_fold (firstn (length t) hi1) [] (skipn (length t) hi1) (snd (shl1_go lo1 0))) as P3.
  cbn [app length] in P3. rewrite firstn_skipn in P3. rewrite firstn_length_le in P3 by lia. rewrite P3. clear P3.
  set (c2 := snd (shl1_go lo1 0)). set (h3 := shl1_go (firstn (length t) hi1) c2).
  assert (Ls : exists z, skipn (length t) hi1 = [z]).
  { assert (length (skipn (length t) hi1) = 1%nat) by (rewrite skipn_length; lia).
    destruct (skipn (length t) hi1) as [|z [|z' r]]; try discriminate. exists z. reflexivity. }
  destruct Ls as [z Ls]. rewrite Ls.
  assert (Lh3 : length (fst h3) = length t) by (unfold h3; rewrite shl1_go_len; apply firstn_length_le; lia).
  assert (U : upd_ (fst h3 ++ [z]) (length t) (snd h3) = fst h3 ++ [snd h3]) by (rewrite <- Lh3; apply GenLoopP.upd_mid).
  rewrite U. clear U.
  (* the doubled buffer is shl1_go of the first 2n - 1 limbs of out *)
  assert (Ef : firstn (2 * n - 1) out = lo1 ++ firstn (length t) hi1).
  { rewrite <- P1. rewrite firstn_app, L1. rewrite (firstn_all2 lo1) by lia. f_equal. f_equal. lia. }
  assert (Ed : fst (shl1_go lo1 0) ++ fst h3 ++ [snd h3] = fst (shl1_go (firstn (2 * n - 1) out) 0) ++ [snd (shl1_go (firstn (2 * n - 1) out) 0)]).
  { rewrite Ef, shl1_go_app. cbn [fst snd]. rewrite <- app_assoc. reflexivity. }
  (* phase 4 *)
  assert (Wf : wf (firstn (2 * n - 1) out)) by (apply wf_firstn; rewrite <- P1; exact W1).
  destruct (shl1_go_correct (firstn (2 * n - 1) out) 0 _ _ Wf ltac:(lia) (surjective_pairing _)) as (_ & Wd & Ld & Hc).
  assert (W4 : wf (fst (shl1_go lo1 0) ++ fst h3 ++ [snd h3])).
  { rewrite Ed. apply wf_app. split; [exact Wd|]. apply wf_cons. split; [|apply wf_nil]. apply is_word_01. exact Hc. }
  pose proof (diag_fold n xs [] (fst (shl1_go lo1 0)) 0 (fst h3 ++ [snd h3])
                ltac:(rewrite shl1_go_len; exact L1) ltac:(rewrite app_length, Lh3; cbn [length]; lia)
                ltac:(cbn [length]; lia) Hk W4 Wx is_word_0) as P4.
  cbv zeta in P4. cbn [app length] in P4. rewrite <- En in P4.
  destruct (fold_left (fun s i => diag_step n xs i s) (seq 0 n) (fst (shl1_go lo1 0), 0, fst h3 ++ [snd h3])) as [[lo5 c5] hi5].
  cbn [fst snd] in P4. destruct P4 as (P4 & L5 & L5').
  unfold split_at. rewrite <- Ed, <- P4, <- L5. rewrite firstn_exact, skipn_exact. reflexivity.
Qed.

(** on zeroed buffers (uint_square_limbs, square_limbs): the model's schoolbook_sq, split *)
Lemma g_squaring_eq xs : (1 <= length xs)%nat -> Z.of_nat (2 * length xs) < 2 ^ 64 -> wf xs ->
  g_schoolbook_squaring xs (zeros (length xs)) (zeros (length xs)) = split_at (length xs) (schoolbook_sq xs).
Proof.
  intros H1 Hk Wx.
  rewrite g_squaring_rows_eq by (first [assumption | apply length_zeros | apply wf_zeros]).
  destruct xs as [|x0 t]; [cbn in H1; lia|]. cbn [tl].
  assert (Z2 : zeros (length (x0 :: t)) ++ zeros (length (x0 :: t)) = zeros (2 * length (x0 :: t)))
    by (unfold zeros; rewrite <- repeat_app; f_equal; lia).
  rewrite !Z2. unfold schoolbook_sq. cbv zeta. destruct (shl1_go _ 0); reflexivity.
Qed.

Lemma g_squaring_exact xs lo hi : (1 <= length xs)%nat -> Z.of_nat (2 * length xs) < 2 ^ 64 -> wf xs ->
  g_schoolbook_squaring xs (zeros (length xs)) (zeros (length xs)) = (lo, hi) ->
  eval lo + Bn (length xs) * eval hi = eval xs * eval xs /\ wf lo /\ wf hi /\ length lo = length xs /\ length hi = length xs.
Proof.
  intros H1 Hk Wx E. rewrite g_squaring_eq in E by assumption.
  destruct (schoolbook_sq_correct xs Wx) as (S1 & S2 & S3).
  destruct (split_at_eval (length xs) (schoolbook_sq xs) lo hi S2 ltac:(rewrite S3; lia) E) as (A & C & D & F & G).
  repeat split; try assumption; lia.
Qed.
