(** Translator tie, group Mod: the modular add / sub / neg routines of src/uint/add_mod.rs, sub_mod.rs, neg_mod.rs (and
    bitand_limb, from_word, the Limb methods they call) as regenerated from /repo's CURRENT source (Src/GenMod.v) equal
    the models of Model/ModArith.v for every limb count that is a usize. *)
From CB Require Import Model.SrcPrelude Model.Word Model.Limbs Model.AddSub Model.Cmp Model.ModArith.
From CB Require Import Src.GenPrim Src.GenUint Src.GenMod Src.GenWidthP Src.GenPrimP Src.GenLoopP Src.GenUintP.
From CB Require Import Proofs.WordP Proofs.WordPredP Proofs.LimbsP Proofs.AddSubP Proofs.CmpP Proofs.ModArithP.
From Coq Require Import Lia List.
Import ListNotations.
Open Scope Z_scope.
Transparent B.

Lemma g_uint_bitand_limb_eq n a m : length a = n -> usz n -> g_uint_bitand_limb n a m = bitand_limb a m.
Proof.
  intros Ha Hn. unfold g_uint_bitand_limb, bitand_limb.
  rewrite (iter_idx _ (fun j (out : list Z) => upd_ out j (g_limb_bitand (nth j a 0) m)))
    by (first [exact Hn | intros i s Hi; reflexivity]).
  subst n. rewrite (loop_map1 (fun x => g_limb_bitand x m) a). reflexivity.
Qed.

Lemma firstn_repeat_S (n : nat) : firstn n (repeat 0 (S n)) = repeat 0 n.
Proof. induction n as [|n IH]; [reflexivity|]. change (firstn (S n) (repeat 0 (S (S n)))) with (0 :: firstn n (repeat 0 (S n))). rewrite IH. reflexivity. Qed.
Lemma g_uint_from_word_eq n x : (1 <= n)%nat -> g_uint_from_word n x = from_word_n n x.
Proof.
  intros Hn. unfold g_uint_from_word, from_word_n, resize, zeros. destruct n as [|n]; [lia|].
  change (Z.to_nat 0) with 0%nat. unfold upd_.
  change (repeat 0 (S n)) with (0 :: repeat 0 n) at 1 2. cbn [firstn skipn app].
  f_equal. symmetry. apply firstn_repeat_S.
Qed.

Lemma wf_bitand p m : wf p -> is_word m -> wf (bitand_limb p m).
Proof.
  intros Wp Wm. unfold bitand_limb. induction Wp; cbn; constructor; [|assumption].
  apply is_word_land; assumption.
Qed.
Lemma len_bitand p m : length (bitand_limb p m) = length p.
Proof. unfold bitand_limb. apply map_length. Qed.

(* ---------------- add_mod *)
Lemma g_uint_add_mod_eq n a b p : length a = n -> length b = n -> length p = n -> usz n -> wf a -> wf b -> wf p ->
  g_uint_add_mod n a b p = add_mod a b p.
Proof.
  intros Ha Hb Hp Hn Wa Wb Wp. unfold g_uint_add_mod, add_mod, add_mod_tail.
  rewrite g_uint_adc_eq by (try assumption; apply is_word_0').
  destruct (adc_limbs a b 0) as [w carry] eqn:E1.
  destruct (adc_limbs_correct a b 0 w carry Wa Wb ltac:(lia) is_word_0' E1) as [_ [Ww [Lw [Wc _]]]].
  rewrite g_uint_sbb_eq by (try assumption; try lia; apply is_word_0').
  destruct (sbb_limbs w p 0) as [w1 borrow] eqn:E2.
  destruct (sbb_limbs_correct w p 0 w1 borrow Ww Wp ltac:(lia) is_word_0' E2) as [Ww1 [Lw1 Hb2]].
  assert (Wbo : is_word borrow).
  { destruct Hb2 as [[_ [-> _]]|[_ [Hbo _]]]; [apply is_word_0'|]. destruct Hbo as [->| ->]; [apply is_word_0'|apply is_word_MAXW]. }
  rewrite g_limb_sbb_eq by (try assumption; apply is_word_0').
  destruct (sbb carry 0 borrow) as [x mask] eqn:E3.
  assert (Wm : is_word mask).
  { destruct (sbb_exact carry 0 borrow x mask Wc is_word_0' Wbo E3) as [_ [[-> _]|[-> _]]]; [apply is_word_0'|apply is_word_MAXW]. }
  rewrite g_uint_bitand_limb_eq by assumption.
  rewrite g_uint_wrapping_add_eq; try assumption; try lia; [reflexivity| rewrite len_bitand; lia | apply wf_bitand; assumption].
Qed.

(* ---------------- sub_mod / the special forms *)
Lemma sbb0_facts a b r bo : wf a -> wf b -> length a = length b -> sbb_limbs a b 0 = (r, bo) ->
  wf r /\ length r = length a /\ is_word bo.
Proof.
  intros Wa Wb Hl E. destruct (sbb_limbs_correct a b 0 r bo Wa Wb Hl is_word_0' E) as [Wr [Lr H]].
  split; [assumption|split; [assumption|]].
  destruct H as [[_ [-> _]]|[_ [Hbo _]]]; [apply is_word_0'|]. destruct Hbo as [->| ->]; [apply is_word_0'|apply is_word_MAXW].
Qed.

Lemma g_uint_sub_mod_eq n a b p : length a = n -> length b = n -> length p = n -> usz n -> wf a -> wf b -> wf p ->
  g_uint_sub_mod n a b p = sub_mod a b p.
Proof.
  intros Ha Hb Hp Hn Wa Wb Wp. unfold g_uint_sub_mod, sub_mod.
  rewrite g_uint_sbb_eq by (try assumption; apply is_word_0').
  destruct (sbb_limbs a b 0) as [out mask] eqn:E.
  destruct (sbb0_facts a b out mask Wa Wb ltac:(lia) E) as [Wo [Lo Wm]].
  rewrite g_uint_bitand_limb_eq by assumption.
  rewrite g_uint_wrapping_add_eq; try assumption; try lia; [reflexivity| rewrite len_bitand; lia | apply wf_bitand; assumption].
Qed.

Lemma wf_from_word n x : is_word x -> wf (from_word_n n x).
Proof. intros Wx. unfold from_word_n. apply wf_resize. constructor; [assumption|constructor]. Qed.
Lemma len_from_word n x : length (from_word_n n x) = n.
Proof. unfold from_word_n. apply length_resize. Qed.

Lemma g_uint_add_mod_special_eq n a b c : length a = n -> length b = n -> (1 <= n)%nat -> usz n -> wf a -> wf b -> is_word c ->
  g_uint_add_mod_special n a b c = add_mod_special a b c.
Proof.
  intros Ha Hb H1 Hn Wa Wb Wc. unfold g_uint_add_mod_special, add_mod_special.
  rewrite g_uint_adc_eq by assumption.
  destruct (adc_limbs a b c) as [out carry] eqn:E.
  destruct (adc_limbs_correct a b c out carry Wa Wb ltac:(lia) Wc E) as [_ [Wo [Lo [Wcy _]]]].
  rewrite g_uint_from_word_eq by assumption.
  change (Z.land (sub_ 64 carry 1) c) with (wand (wsub carry 1) c).
  rewrite g_uint_wrapping_sub_eq; try assumption; try lia; [rewrite Ha; reflexivity | rewrite len_from_word; reflexivity |].
  apply wf_from_word. apply is_word_land; [apply is_word_wsub|assumption].
Qed.

Lemma g_uint_sub_mod_special_eq n a b c : length a = n -> length b = n -> (1 <= n)%nat -> usz n -> wf a -> wf b -> is_word c ->
  g_uint_sub_mod_special n a b c = sub_mod_special a b c.
Proof.
  intros Ha Hb H1 Hn Wa Wb Wc. unfold g_uint_sub_mod_special, sub_mod_special.
  rewrite g_uint_sbb_eq by (try assumption; apply is_word_0').
  destruct (sbb_limbs a b 0) as [out borrow] eqn:E.
  destruct (sbb0_facts a b out borrow Wa Wb ltac:(lia) E) as [Wo [Lo Wbo]].
  rewrite g_uint_from_word_eq by assumption.
  change (Z.land borrow c) with (wand borrow c).
  rewrite g_uint_wrapping_sub_eq; try assumption; try lia; [rewrite Ha; reflexivity | rewrite len_from_word; reflexivity |].
  apply wf_from_word. apply is_word_land; assumption.
Qed.

Lemma g_uint_neg_mod_special_eq n a c : length a = n -> (1 <= n)%nat -> usz n -> wf a -> is_word c ->
  g_uint_neg_mod_special n a c = neg_mod_special a c.
Proof.
  intros Ha H1 Hn Wa Wc. unfold g_uint_neg_mod_special, neg_mod_special. rewrite <- Ha at 2.
  change (repeat 0 (length a)) with (zeros (length a)). rewrite Ha.
  apply g_uint_sub_mod_special_eq; try assumption; [unfold zeros; apply repeat_length|].
  apply wf_zeros.
Qed.

(* ---------------- neg_mod : the source masks with is_nonzero, the model tests for zero *)
Lemma g_uint_neg_mod_eq n a p : length a = n -> length p = n -> usz n -> wf a -> wf p ->
  g_uint_neg_mod n a p = neg_mod a p.
Proof.
  intros Ha Hp Hn Wa Wp. unfold g_uint_neg_mod, neg_mod.
  rewrite g_uint_is_nonzero_eq, g_uint_sbb_eq by (try assumption; apply is_word_0').
  rewrite (uint_is_nonzero_spec a Wa), (forallb_zero_eval a Wa).
  destruct (sbb_limbs p a 0) as [r bo] eqn:E. cbn [fst].
  destruct (sbb0_facts p a r bo Wp Wa ltac:(lia) E) as [Wr [Lr _]].
  set (z := choice_of_bool (negb (eval a =? 0))).
  rewrite (iter_idx _ (fun j (out : list Z) => upd_ out j (g_cc_if_true_word z (nth j out 0))))
    by (first [exact Hn | intros i s Hi; reflexivity]).
  replace n with (length r) by lia.
  pose proof (loop_inplace (fun x => g_cc_if_true_word z x) r []) as L. cbn [app length] in L. rewrite L.
  unfold z. destruct (eval a =? 0); reflexivity.
Qed.

(* ---------------- composition with the correctness theorems of the models *)
Lemma g_uint_add_mod_correct n a b p : length a = n -> length b = n -> length p = n -> usz n -> wf a -> wf b -> wf p ->
  eval a < eval p -> eval b < eval p ->
  eval (g_uint_add_mod n a b p) = (eval a + eval b) mod eval p /\ wf (g_uint_add_mod n a b p) /\ length (g_uint_add_mod n a b p) = n.
Proof.
  intros Ha Hb Hp Hn Wa Wb Wp La Lb. rewrite g_uint_add_mod_eq by assumption.
  pose proof (add_mod_correct a b p Wa Wb Wp ltac:(lia) ltac:(lia) La Lb) as H. rewrite Ha in H. exact H.
Qed.
Lemma g_uint_sub_mod_correct n a b p : length a = n -> length b = n -> length p = n -> usz n -> wf a -> wf b -> wf p ->
  eval a < eval p -> eval b < eval p ->
  eval (g_uint_sub_mod n a b p) = (eval a - eval b) mod eval p /\ wf (g_uint_sub_mod n a b p) /\ length (g_uint_sub_mod n a b p) = n.
Proof.
  intros Ha Hb Hp Hn Wa Wb Wp La Lb. rewrite g_uint_sub_mod_eq by assumption.
  pose proof (sub_mod_correct a b p Wa Wb Wp ltac:(lia) ltac:(lia) La Lb) as H. rewrite Ha in H. exact H.
Qed.
Lemma g_uint_neg_mod_correct n a p : length a = n -> length p = n -> usz n -> wf a -> wf p -> eval a < eval p ->
  eval (g_uint_neg_mod n a p) = (- eval a) mod eval p /\ wf (g_uint_neg_mod n a p) /\ length (g_uint_neg_mod n a p) = n.
Proof.
  intros Ha Hp Hn Wa Wp La. rewrite g_uint_neg_mod_eq by assumption.
  pose proof (neg_mod_correct a p Wa Wp ltac:(lia) La) as H. rewrite Ha in H. exact H.
Qed.
