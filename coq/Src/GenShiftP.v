(** Translator tie, group Shift: the single-bit and sub-limb shifts of src/limb/shl.rs, shr.rs, bit_or.rs and
    src/uint/shl.rs (overflowing_shl1, shl_limb), src/uint/shr.rs (shr1_with_carry, shr1) as regenerated from /repo's CURRENT
    source (Src/GenShift.v) equal the structural recursions [shl1_go] (Model/Mul.v), [shl1_val] (Model/ModArith.v),
    [shr1_limbs] (Model/Sqrt.v), [shl_limb] (Model/Div.v) for every limb count LIMBS < 2^64 and all limb values. *)
From CB Require Import Model.SrcPrelude Model.Word Model.Limbs Model.AddSub Model.Mul Model.ModArith Model.Sqrt Model.Div Model.Bits.
From CB Require Import Src.GenPrim Src.GenShift Src.GenWidthP Src.GenPrimP Src.GenLoopP Src.GenIterP.
From CB Require Import Proofs.WordP Proofs.LimbsP Proofs.MulSqP Proofs.ModArithP Proofs.SqrtLimbsP Proofs.DivP Proofs.ShiftP.
From Coq Require Import Lia List.
Import ListNotations.
Open Scope Z_scope.
Transparent B.

(* ---------------- Limb methods: the generated text is the word formula *)
Lemma g_limb_HI_BIT_eq : g_limb_HI_BIT = 63. Proof. reflexivity. Qed.
Lemma g_limb_shl1_eq x : g_limb_shl1 x = (wshl x 1, x / 2 ^ 63). Proof. reflexivity. Qed.
Lemma g_limb_shr1_eq x : g_limb_shr1 x = (wshr x 1, wshl x 63). Proof. reflexivity. Qed.
Lemma g_limb_bitor_eq x y : g_limb_bitor x y = wor x y. Proof. reflexivity. Qed.
Lemma g_limb_shl_eq x s : g_limb_shl x s = wshl x s. Proof. reflexivity. Qed.
Lemma g_limb_shr_eq x s : g_limb_shr x s = wshr x s. Proof. reflexivity. Qed.

(* ---------------- overflowing_shl1 : upward carry chain *)
Definition shl1_f (x c : Z) : Z * Z := (g_limb_bitor (fst (g_limb_shl1 x)) c, snd (g_limb_shl1 x)).

Lemma g_uint_overflowing_shl1_loop n a : length a = n -> Z.of_nat n < 2 ^ 64 -> g_uint_overflowing_shl1 n a = mapacc shl1_f a 0.
Proof.
  intros Ha Hn. unfold g_uint_overflowing_shl1.
  rewrite (iter_idx3 _ (fun j (s : list Z * Z) =>
     let '(w, c') := shl1_f (nth j a 0) (snd s) in (upd_ (fst s) j w, c'))) by
    (first [exact Hn | intros i x y Hi; reflexivity]).
  subst n. rewrite (loop_mapacc shl1_f a 0). destruct (mapacc shl1_f a 0); reflexivity.
Qed.
Lemma mapacc_shl1 a : forall c, mapacc shl1_f a c = shl1_go a c.
Proof.
  induction a as [|x a IH]; intros c; [reflexivity|]. cbn [mapacc shl1_go].
  unfold shl1_f at 1. rewrite g_limb_shl1_eq, g_limb_bitor_eq. cbn [fst snd]. rewrite IH.
  destruct (shl1_go a (x / 2 ^ 63)); reflexivity.
Qed.
Lemma g_uint_overflowing_shl1_eq n a : length a = n -> Z.of_nat n < 2 ^ 64 -> g_uint_overflowing_shl1 n a = shl1_go a 0.
Proof. intros. rewrite g_uint_overflowing_shl1_loop by assumption. apply mapacc_shl1. Qed.

(** limb level = value level: the model function of C05 / C07 (double_mod) *)
Lemma shl1_go_val a : wf a -> shl1_go a 0 = shl1_val a.
Proof.
  intros Wa. destruct (shl1_go a 0) as [r c] eqn:E.
  destruct (shl1_go_correct a 0 r c Wa ltac:(lia) E) as (He & Wr & Lr & Hc).
  pose proof (eval_bounds r Wr) as Br. rewrite Lr in Br. pose proof (Bn_pos (length a)) as HN.
  unfold shl1_val. set (N := Bn (length a)) in *.
  assert (Hq : (2 * eval a) / N = c) by (symmetry; apply (Z.div_unique _ N c (eval r)); lia).
  assert (Hm : (2 * eval a) mod N = eval r) by (symmetry; apply (Z.mod_unique _ N c (eval r)); lia).
  rewrite Hq, Hm. f_equal. rewrite <- Lr. symmetry. apply to_limbs_eval. exact Wr.
Qed.
Lemma g_uint_overflowing_shl1_val n a : length a = n -> Z.of_nat n < 2 ^ 64 -> wf a -> g_uint_overflowing_shl1 n a = shl1_val a.
Proof. intros. rewrite g_uint_overflowing_shl1_eq by assumption. apply shl1_go_val. assumption. Qed.

Lemma g_uint_overflowing_shl1_exact n a w c : length a = n -> Z.of_nat n < 2 ^ 64 -> wf a ->
  g_uint_overflowing_shl1 n a = (w, c) -> eval w + Bn n * c = 2 * eval a /\ wf w /\ length w = n /\ 0 <= c <= 1.
Proof.
  intros Ha Hn Wa E. rewrite g_uint_overflowing_shl1_eq in E by assumption.
  destruct (shl1_go_correct a 0 w c Wa ltac:(lia) E) as (He & Ww & Lw & Hc). subst n. repeat split; try assumption; lia.
Qed.

(* ---------------- shr1_with_carry : downward carry chain *)
(* the model with the carry entering at the top made explicit *)
Fixpoint shr1_c (l : list Z) (c0 : Z) : list Z :=
  match l with
  | [] => []
  | x :: r => wor (wshr x 1) (match r with [] => c0 | y :: _ => wshl y 63 end) :: shr1_c r c0
  end.
Lemma shr1_c_0 l : shr1_c l 0 = shr1_limbs l.
Proof. induction l as [|x [|y r] IH]; [reflexivity| reflexivity |]. cbn [shr1_c shr1_limbs hd] in *. rewrite IH. reflexivity. Qed.
Lemma shr1_c_snoc l : forall x c0, shr1_c (l ++ [x]) c0 = shr1_c l (wshl x 63) ++ [wor (wshr x 1) c0].
Proof.
  induction l as [|y [|z r] IH]; intros x c0; [reflexivity| reflexivity |].
  specialize (IH x c0). cbn [app shr1_c] in *. rewrite IH. reflexivity.
Qed.
Lemma shr1_c_length l c0 : length (shr1_c l c0) = length l.
Proof. induction l as [|x r IH]; [reflexivity|]. cbn [shr1_c length]. rewrite IH. reflexivity. Qed.

Definition shr1_step (a : list Z) (j : nat) (s : list Z * Z) : list Z * Z :=
  (upd_ (fst s) j (g_limb_bitor (fst (g_limb_shr1 (nth j a 0))) (snd s)), snd (g_limb_shr1 (nth j a 0))).

Lemma shr1_fold : forall l pre post rpre rmid rpost c0,
  length rpre = length pre -> length rmid = length l ->
  fold_left (fun s j => shr1_step (pre ++ l ++ post) j s) (rev (seq (length pre) (length l))) (rpre ++ rmid ++ rpost, c0)
  = (rpre ++ shr1_c l c0 ++ rpost, match l with [] => c0 | y :: _ => wshl y 63 end).
Proof.
  induction l as [|x l IH] using rev_ind; intros pre post rpre rmid rpost c0 Hp Hm.
  - destruct rmid; [reflexivity | discriminate].
  - rewrite app_length in Hm. cbn [length] in Hm.
    destruct (exists_last (l := rmid)) as (rmid' & r & ->); [destruct rmid; [cbn in Hm; lia | discriminate]|].
    rewrite app_length in Hm. cbn [length] in Hm.
    rewrite app_length. cbn [length]. rewrite Nat.add_1_r, seq_S, rev_app_distr. cbn [rev app fold_left].
    unfold shr1_step at 2. cbn [fst snd].
    assert (Hn : nth (length pre + length l) (pre ++ (l ++ [x]) ++ post) 0 = x).
    { replace (pre ++ (l ++ [x]) ++ post) with ((pre ++ l) ++ x :: post) by (rewrite <- !app_assoc; reflexivity).
      rewrite <- app_length. apply nth_middle. }
    rewrite Hn, g_limb_shr1_eq, g_limb_bitor_eq. cbn [fst snd].
    replace (rpre ++ (rmid' ++ [r]) ++ rpost) with ((rpre ++ rmid') ++ r :: rpost) by (rewrite <- !app_assoc; reflexivity).
    replace (length pre + length l)%nat with (length (rpre ++ rmid')) by (rewrite app_length; lia).
    rewrite GenLoopP.upd_mid.
    replace ((rpre ++ rmid') ++ wor (wshr x 1) c0 :: rpost) with (rpre ++ rmid' ++ (wor (wshr x 1) c0 :: rpost))
      by (rewrite <- !app_assoc; reflexivity).
    replace (pre ++ (l ++ [x]) ++ post) with (pre ++ l ++ (x :: post)) by (rewrite <- !app_assoc; reflexivity).
    rewrite (IH pre (x :: post) rpre rmid' (wor (wshr x 1) c0 :: rpost) (wshl x 63) Hp ltac:(lia)).
    rewrite shr1_c_snoc. rewrite <- !app_assoc. cbn [app]. f_equal.
    destruct l; reflexivity.
Qed.

Lemma g_uint_shr1_with_carry_loop n a : length a = n -> Z.of_nat n < 2 ^ 64 ->
  g_uint_shr1_with_carry n a = (shr1_limbs a, g_cc_from_word_lsb (shr_ (match a with [] => 0 | y :: _ => wshl y 63 end) g_limb_HI_BIT)).
Proof.
  intros Ha Hn. unfold g_uint_shr1_with_carry. cbv zeta. rewrite Nat2Z.id.
  match goal with |- context [Nat.iter n ?F (Z.of_nat n, ?r, 0)] =>
    change (Nat.iter n F (Z.of_nat n, r, 0)) with (Nat.iter n F (enc3 (Z.of_nat n) (r, 0)));
    rewrite (iter_enc_down F enc3 (shr1_step a)) end.
  - subst n. pose proof (shr1_fold a [] [] [] (repeat 0 (length a)) [] 0 eq_refl (repeat_length _ _)) as H.
    cbn [app length] in H. rewrite !app_nil_r in H. rewrite H. unfold enc3. cbn [fst snd]. rewrite shr1_c_0. reflexivity.
  - intros i [r c] Hi. unfold enc3, shr1_step. cbn [fst snd]. reflexivity.
  - exact Hn.
Qed.

Lemma g_uint_shr1_with_carry_eq n a : length a = n -> Z.of_nat n < 2 ^ 64 -> wf a ->
  g_uint_shr1_with_carry n a = (shr1_limbs a, choice_of_bool (Z.odd (eval a))).
Proof.
  intros Ha Hn Wa. rewrite g_uint_shr1_with_carry_loop by assumption. f_equal.
  rewrite g_limb_HI_BIT_eq, g_cc_from_word_lsb_eq. destruct a as [|y r]; [reflexivity|].
  apply wf_cons in Wa. destruct Wa as [Wy _]. cbn [eval].
  replace (Z.odd (y + B * eval r)) with (Z.odd y).
  2:{ replace (y + B * eval r) with (y + 2 * (2 ^ 63 * eval r)) by (change B with (2 * 2 ^ 63); ring).
      symmetry. apply Z.odd_add_mul_2. }
  unfold shr_, wshl, wrap, from_word_lsb, wneg, wrap, choice_of_bool, MAXW. unfold is_word in Wy. change B with (2 ^ 64) in *.
  assert (E : (y * 2 ^ 63) mod 2 ^ 64 / 2 ^ 63 = y mod 2).
  { change (2 ^ 64) with (2 * 2 ^ 63). rewrite Z.mul_mod_distr_r by lia. apply Z.div_mul. lia. }
  rewrite E. rewrite (Zmod_odd y). destruct (Z.odd y); reflexivity.
Qed.

Lemma g_uint_shr1_eq n a : length a = n -> Z.of_nat n < 2 ^ 64 -> g_uint_shr1 n a = shr1_limbs a.
Proof. intros. unfold g_uint_shr1. rewrite g_uint_shr1_with_carry_loop by assumption. reflexivity. Qed.

Lemma g_uint_shr1_exact n a : length a = n -> Z.of_nat n < 2 ^ 64 -> wf a ->
  eval (g_uint_shr1 n a) = eval a / 2 /\ wf (g_uint_shr1 n a) /\ length (g_uint_shr1 n a) = n.
Proof. intros Ha Hn Wa. rewrite g_uint_shr1_eq by assumption. rewrite <- Ha. apply shr1_limbs_spec. assumption. Qed.

(* ---------------- shl_limb : `(x >> 1) >> (BITS - 1 - shift)` is the zero-shift-safe form of x >> (BITS - shift) *)
Definition hi_of (s prev : Z) : Z := shr_ (shr_ prev 1) (sub_ 32 (sub_ 32 64 1) s).
Lemma hi_of_eq s prev : 0 <= s < 64 -> is_word prev -> hi_of s prev = if s =? 0 then 0 else prev / 2 ^ (64 - s).
Proof.
  intros Hs Hp. unfold hi_of, shr_, sub_. change ((64 - 1) mod 2 ^ 32) with 63. rewrite (Z.mod_small (63 - s)) by lia.
  rewrite Z.div_div by (try apply Z.pow_pos_nonneg; lia). rewrite <- Z.pow_add_r by lia.
  replace (1 + (63 - s)) with (64 - s) by lia.
  destruct (Z.eqb_spec s 0) as [->|Hne]; [|reflexivity].
  unfold is_word in Hp. change B with (2 ^ 64) in Hp. apply Z.div_small. exact Hp.
Qed.

Definition shl_limb_step (a : list Z) (s : Z) (j : nat) (out : list Z) : list Z :=
  upd_ out j (Z.lor (shl_ 64 (nth j a 0) s) (hi_of s (nth (Z.to_nat (sub_ 64 (Z.of_nat j) 1)) a 0))).

Lemma shl_limb_fold s : 0 <= s < 64 -> forall l pre p opre omid,
  length opre = S (length pre) -> length omid = length l -> Z.of_nat (S (length pre) + length l) < 2 ^ 64 ->
  is_word p -> wf l ->
  fold_left (fun o j => shl_limb_step ((pre ++ [p]) ++ l) s j o) (seq (S (length pre)) (length l)) (opre ++ omid)
  = opre ++ shl_limb_go p l s.
Proof.
  intros Hs. induction l as [|x l IH]; intros pre p opre omid Ho Hm Hk Wp Wl.
  - destruct omid; [reflexivity | discriminate].
  - destruct omid as [|o omid]; [discriminate|]. cbn [length] in Hm, Hk. cbn [length seq fold_left shl_limb_go].
    apply wf_cons in Wl. destruct Wl as [Wx Wl].
    unfold shl_limb_step at 2.
    assert (E1 : sub_ 64 (Z.of_nat (S (length pre))) 1 = Z.of_nat (length pre)) by (unfold sub_; rewrite Z.mod_small by lia; lia).
    rewrite E1, Nat2Z.id.
    assert (N1 : nth (S (length pre)) ((pre ++ [p]) ++ x :: l) 0 = x).
    { replace (S (length pre)) with (length (pre ++ [p])) by (rewrite app_length; cbn; lia). apply nth_middle. }
    assert (N0 : nth (length pre) ((pre ++ [p]) ++ x :: l) 0 = p).
    { rewrite <- app_assoc. apply nth_middle. }
    rewrite N1, N0. rewrite hi_of_eq by assumption.
    assert (U : forall v, upd_ (opre ++ o :: omid) (S (length pre)) v = opre ++ v :: omid)
      by (intros v; rewrite <- Ho; apply GenLoopP.upd_mid).
    rewrite U.
    set (w := Z.lor (shl_ 64 x s) (if s =? 0 then 0 else p / 2 ^ (64 - s))).
    replace (opre ++ w :: omid) with ((opre ++ [w]) ++ omid) by (rewrite <- app_assoc; reflexivity).
    replace ((pre ++ [p]) ++ x :: l) with (((pre ++ [p]) ++ [x]) ++ l) by (rewrite <- !app_assoc; reflexivity).
    replace (S (S (length pre))) with (S (length (pre ++ [p]))) by (rewrite app_length; cbn; lia).
    rewrite (IH (pre ++ [p]) x (opre ++ [w]) omid) by
      (first [assumption | rewrite ?app_length; cbn [length]; lia]).
    rewrite <- app_assoc. reflexivity.
Qed.

Lemma g_uint_shl_limb_eq n a s : length a = n -> (1 <= n)%nat -> Z.of_nat n < 2 ^ 64 -> wf a -> 0 <= s < 64 ->
  g_uint_shl_limb n a s = shl_limb a s.
Proof.
  intros Ha H1 Hn Wa Hs. unfold g_uint_shl_limb, shl_limb. cbv zeta.
  fold (hi_of s (nth (Z.to_nat (sub_ 64 (Z.of_nat n) 1)) a 0)).
  destruct a as [|x a]; [cbn in Ha; lia|]. apply wf_cons in Wa. destruct Wa as [Wx Wa].
  cbn [length] in Ha. subst n.
  (* the carry out: (last >> 1) >> rshift *)
  assert (EL : nth (Z.to_nat (sub_ 64 (Z.of_nat (S (length a))) 1)) (x :: a) 0 = last (x :: a) 0).
  { unfold sub_. rewrite Z.mod_small by lia. replace (Z.of_nat (S (length a)) - 1) with (Z.of_nat (length a)) by lia.
    rewrite Nat2Z.id. clear. revert x. induction a as [|y a IH]; intros x; [reflexivity|].
    change (nth (length (y :: a)) (x :: y :: a) 0) with (nth (length a) (y :: a) 0).
    change (last (x :: y :: a) 0) with (last (y :: a) 0). apply IH. }
  rewrite EL.
  assert (WL : is_word (last (x :: a) 0)).
  { assert (In (last (x :: a) 0) (x :: a)) by (rewrite <- EL; apply nth_In; unfold sub_; rewrite Z.mod_small by lia; cbn [length]; lia).
    assert (W : wf (x :: a)) by (apply wf_cons; split; assumption). unfold wf in W. rewrite Forall_forall in W. apply W. assumption. }
  rewrite hi_of_eq by assumption. f_equal.
  (* the limbs *)
  replace (Z.to_nat (Z.of_nat (S (length a)) - 1)) with (length a) by lia.
  match goal with |- context [Nat.iter (length a) ?F (1, ?o)] =>
    change (Nat.iter (length a) F (1, o)) with (Nat.iter (length a) F (enc2 (Z.of_nat 1) o));
    rewrite (iter_enc_from F enc2 (shl_limb_step (x :: a) s)) end.
  - unfold enc2. cbn [repeat nth Z.to_nat]. change (Z.to_nat 0) with 0%nat. cbn [nth].
    change (upd_ (0 :: repeat 0 (length a)) 0 (shl_ 64 x s)) with ([shl_ 64 x s] ++ repeat 0 (length a)).
    pose proof (shl_limb_fold s Hs a [] x [shl_ 64 x s] (repeat 0 (length a)) eq_refl (repeat_length _ _)
                  ltac:(cbn [length]; lia) Wx Wa) as H.
    cbn [app length] in H. cbn [app]. rewrite H. cbn [shl_limb_go app]. f_equal.
    change (0 / 2 ^ (64 - s)) with 0. replace (if s =? 0 then 0 else 0) with 0 by (destruct (s =? 0); reflexivity).
    rewrite Z.lor_0_r. reflexivity.
  - intros i o Hi. unfold enc2, shl_limb_step, hi_of. rewrite Z2Nat.id by lia. reflexivity.
  - lia.
Qed.

Lemma g_uint_shl_limb_exact n a s r c : length a = n -> (1 <= n)%nat -> Z.of_nat n < 2 ^ 64 -> wf a -> 0 <= s < 64 ->
  g_uint_shl_limb n a s = (r, c) -> eval r + Bn n * c = eval a * 2 ^ s /\ wf r /\ length r = n /\ 0 <= c < 2 ^ s.
Proof.
  intros Ha H1 Hn Wa Hs E. rewrite g_uint_shl_limb_eq in E by assumption.
  pose proof (shl_limb_correct a s Wa Hs) as H. rewrite E in H. rewrite Ha in H. exact H.
Qed.

(* ================================================================================================================
   overflowing_shl_vartime / overflowing_shr_vartime: `if shift >= Self::BITS { return none }`, limb copy with offset,
   `if rem == 0 { return some }`, in-place sub-limb shift with carry (upward for shl, downward for shr).
   ConstCtOption<T> { value, is_some } is the pair (value, is_some); Uint::BITS = LIMBS as u32 * Limb::BITS.
   ================================================================================================================ *)
Lemma g_ctopt_some_eq (v : list Z) : g_ctopt_some v = ct_some v. Proof. reflexivity. Qed.
Lemma g_ctopt_none_eq (v : list Z) : g_ctopt_none v = ct_none v. Proof. reflexivity. Qed.
Lemma g_uint_BITS_eq n : 64 * Z.of_nat n < 2 ^ 32 -> g_uint_BITS n = 64 * Z.of_nat n.
Proof. intros H. unfold g_uint_BITS, mul_, trunc_. rewrite (Z.mod_small (Z.of_nat n)) by lia. rewrite Z.mod_small by lia. lia. Qed.

Lemma nth_firstn_lt (l : list Z) m k : (k < m)%nat -> nth k (firstn m l) 0 = nth k l 0.
Proof.
  intros H. destruct (Nat.le_gt_cases (length l) k) as [Hl|Hl].
  - rewrite !nth_overflow; [reflexivity | lia | rewrite firstn_length; lia].
  - rewrite <- (firstn_skipn m l) at 2. rewrite app_nth1; [reflexivity | rewrite firstn_length; lia].
Qed.
Lemma nth_skipn_add (l : list Z) m k : nth k (skipn m l) 0 = nth (k + m) l 0.
Proof.
  destruct (Nat.le_gt_cases (length l) m) as [Hl|Hl].
  - rewrite skipn_all2 by lia. rewrite (nth_overflow l) by lia. destruct k; reflexivity.
  - rewrite <- (firstn_skipn m l) at 2. rewrite app_nth2; rewrite firstn_length_le by lia; [f_equal; lia | lia].
Qed.

(* ---------------- shl *)
Definition shlv_step1 (a : list Z) (snz : Z) (j : nat) (o : list Z) : list Z :=
  upd_ o j (nth (Z.to_nat (sub_ 64 (Z.of_nat j) snz)) a 0).
Definition shlv_f (rem x c : Z) : Z * Z := (g_limb_bitor (g_limb_shl x rem) c, g_limb_shr x (sub_ 32 64 rem)).
Definition inplace_step (f : Z -> Z -> Z * Z) (j : nat) (s : list Z * Z) : list Z * Z :=
  (upd_ (fst s) j (fst (f (nth j (fst s) 0) (snd s))), snd (f (nth j (fst s) 0) (snd s))).

Lemma shlv_fold1 a sn : (sn <= length a)%nat -> Z.of_nat (length a) < 2 ^ 64 ->
  fold_left (fun o j => shlv_step1 a (Z.of_nat sn) j o) (seq sn (length a - sn)) (repeat 0 (length a))
  = repeat 0 sn ++ firstn (length a - sn) a.
Proof.
  intros Hs Hn.
  replace (repeat 0 (length a)) with (repeat 0 sn ++ repeat 0 (length a - sn)) by (rewrite <- repeat_app; f_equal; lia).
  pose proof (fold_fill (fun j => nth (Z.to_nat (sub_ 64 (Z.of_nat j) (Z.of_nat sn))) a 0)
                (firstn (length a - sn) a) (repeat 0 sn) (repeat 0 (length a - sn))) as H.
  rewrite !repeat_length, firstn_length_le in H by lia. unfold shlv_step1. rewrite H.
  - rewrite skipn_all2 by (rewrite repeat_length; lia). rewrite app_nil_r. reflexivity.
  - lia.
  - intros k Hk. unfold sub_. rewrite Z.mod_small by lia. replace (Z.of_nat (sn + k) - Z.of_nat sn) with (Z.of_nat k) by lia.
    rewrite Nat2Z.id. symmetry. apply nth_firstn_lt. exact Hk.
Qed.
Lemma mapacc_shl_carry rem : 0 <= rem < 64 -> forall l c, fst (mapacc_ (shlv_f rem) l c) = shl_carry l rem c.
Proof.
  intros Hr. induction l as [|x l IH]; intros c; [reflexivity|]. cbn [mapacc_ shl_carry fst snd]. rewrite IH.
  unfold shlv_f at 1 2. cbn [fst snd]. rewrite g_limb_bitor_eq, g_limb_shl_eq, g_limb_shr_eq.
  replace (sub_ 32 64 rem) with (64 - rem) by (unfold sub_; rewrite Z.mod_small by lia; reflexivity). reflexivity.
Qed.

Lemma g_uint_overflowing_shl_vartime_eq n a s : length a = n -> 64 * Z.of_nat n < 2 ^ 32 -> 0 <= s < 2 ^ 32 ->
  g_uint_overflowing_shl_vartime n a s = uint_overflowing_shl_vartime a s.
Proof.
  intros Ha Hn Hs. unfold g_uint_overflowing_shl_vartime, uint_overflowing_shl_vartime. cbv zeta.
  rewrite g_uint_BITS_eq by assumption. rewrite Z.geb_leb. subst n.
  destruct (Z.leb_spec (64 * Z.of_nat (length a)) s) as [H|H]; [reflexivity|].
  unfold div_, rem_.
  assert (Hq : 0 <= s / 64 < Z.of_nat (length a)) by (split; [apply Z.div_pos; lia | apply Z.div_lt_upper_bound; lia]).
  assert (Hr : 0 <= s mod 64 < 64) by (apply Z.mod_pos_bound; lia).
  remember (s / 64) as snz eqn:Esn. remember (s mod 64) as rem eqn:Erem.
  assert (Ez : snz = Z.of_nat (Z.to_nat snz)) by (rewrite Z2Nat.id; lia).
  remember (Z.to_nat snz) as sn eqn:Esn'. rewrite Ez in *. clear Ez Esn' Esn snz. rewrite ?Nat2Z.id.
  replace (Z.to_nat (Z.of_nat (length a) - Z.of_nat sn)) with (length a - sn)%nat by lia.
  (* loop 1: limbs[i] = self.limbs[i - shift_num] *)
  match goal with |- context [Nat.iter (length a - sn) ?F (Z.of_nat sn, repeat 0 (length a))] =>
    change (Nat.iter (length a - sn) F (Z.of_nat sn, repeat 0 (length a)))
      with (Nat.iter (length a - sn) F (enc2 (Z.of_nat sn) (repeat 0 (length a))));
    rewrite (iter_enc_from F enc2 (shlv_step1 a (Z.of_nat sn))) end.
  2:{ intros i o Hi. unfold enc2, shlv_step1. rewrite Z2Nat.id by lia. reflexivity. }
  2:{ lia. }
  rewrite shlv_fold1 by lia. unfold enc2 at 1. cbv beta iota.
  destruct (Z.eqb_spec rem 0) as [Hz|Hz]; [reflexivity|].
  (* loop 2: in place, carry upward *)
  match goal with |- context [Nat.iter (length a - sn) ?F (Z.of_nat sn, ?l, 0)] =>
    change (Nat.iter (length a - sn) F (Z.of_nat sn, l, 0)) with (Nat.iter (length a - sn) F (enc3 (Z.of_nat sn) (l, 0)));
    rewrite (iter_enc_from F enc3 (inplace_step (shlv_f rem))) end.
  2:{ intros i [l c] Hi. reflexivity. }
  2:{ lia. }
  pose proof (loop_inplace_acc (shlv_f rem) (firstn (length a - sn) a) (repeat 0 sn) [] 0) as L2.
  rewrite repeat_length, firstn_length_le, !app_nil_r in L2 by lia.
  unfold inplace_step. rewrite L2. unfold enc3. cbn [fst snd]. rewrite mapacc_shl_carry by assumption. reflexivity.
Qed.

(* ---------------- shr *)
Definition shrv_step1 (a : list Z) (snz : Z) (j : nat) (o : list Z) : list Z :=
  upd_ o j (nth (Z.to_nat (add_ 64 (Z.of_nat j) snz)) a 0).
Definition shrv_f (rem x c : Z) : Z * Z := (g_limb_bitor (g_limb_shr x rem) c, g_limb_shl x (sub_ 32 64 rem)).

Lemma shrv_fold1 a sn : (sn <= length a)%nat -> Z.of_nat (length a) < 2 ^ 64 ->
  fold_left (fun o j => shrv_step1 a (Z.of_nat sn) j o) (seq 0 (length a - sn)) (repeat 0 (length a))
  = skipn sn a ++ repeat 0 sn.
Proof.
  intros Hs Hn.
  pose proof (fold_fill (fun j => nth (Z.to_nat (add_ 64 (Z.of_nat j) (Z.of_nat sn))) a 0)
                (skipn sn a) [] (repeat 0 (length a))) as H.
  rewrite repeat_length, skipn_length in H. cbn [length app] in H. unfold shrv_step1. rewrite H.
  - f_equal. replace (repeat 0 (length a)) with (repeat 0 (length a - sn) ++ repeat 0 sn) by (rewrite <- repeat_app; f_equal; lia).
    rewrite skipn_app, skipn_all2 by (rewrite repeat_length; lia). rewrite repeat_length, Nat.sub_diag. reflexivity.
  - lia.
  - intros k Hk. unfold add_. rewrite Z.mod_small by lia. replace (Z.of_nat (0 + k) + Z.of_nat sn) with (Z.of_nat (k + sn)) by lia.
    rewrite Nat2Z.id. symmetry. apply nth_skipn_add.
Qed.
Lemma downacc_shr_carry rem : 0 <= rem < 64 -> forall l c0, downacc_ (shrv_f rem) l c0 = shr_carry l rem c0.
Proof.
  intros Hr. induction l as [|x l IH]; intros c0; [reflexivity|]. cbn [downacc_ shr_carry]. rewrite IH.
  destruct (shr_carry l rem c0) as [r c]. cbn [fst snd]. unfold shrv_f. cbn [fst snd].
  rewrite g_limb_bitor_eq, g_limb_shl_eq, g_limb_shr_eq.
  replace (sub_ 32 64 rem) with (64 - rem) by (unfold sub_; rewrite Z.mod_small by lia; reflexivity). reflexivity.
Qed.

Lemma g_uint_overflowing_shr_vartime_eq n a s : length a = n -> 64 * Z.of_nat n < 2 ^ 32 -> 0 <= s < 2 ^ 32 ->
  g_uint_overflowing_shr_vartime n a s = uint_overflowing_shr_vartime a s.
Proof.
  intros Ha Hn Hs. unfold g_uint_overflowing_shr_vartime, uint_overflowing_shr_vartime. cbv zeta.
  rewrite g_uint_BITS_eq by assumption. rewrite Z.geb_leb. subst n.
  destruct (Z.leb_spec (64 * Z.of_nat (length a)) s) as [H|H]; [reflexivity|].
  unfold div_, rem_.
  assert (Hq : 0 <= s / 64 < Z.of_nat (length a)) by (split; [apply Z.div_pos; lia | apply Z.div_lt_upper_bound; lia]).
  assert (Hr : 0 <= s mod 64 < 64) by (apply Z.mod_pos_bound; lia).
  remember (s / 64) as snz eqn:Esn. remember (s mod 64) as rem eqn:Erem.
  assert (Ez : snz = Z.of_nat (Z.to_nat snz)) by (rewrite Z2Nat.id; lia).
  remember (Z.to_nat snz) as sn eqn:Esn'. rewrite Ez in *. clear Ez Esn' Esn snz. rewrite ?Nat2Z.id.
  assert (E1 : sub_ 64 (Z.of_nat (length a)) (Z.of_nat sn) = Z.of_nat (length a - sn)) by (unfold sub_; rewrite Z.mod_small by lia; lia).
  rewrite E1, Z.sub_0_r, Nat2Z.id.
  (* loop 1: limbs[i] = self.limbs[i + shift_num] *)
  match goal with |- context [Nat.iter (length a - sn) ?F (0, repeat 0 (length a))] =>
    change (Nat.iter (length a - sn) F (0, repeat 0 (length a)))
      with (Nat.iter (length a - sn) F (enc2 0 (repeat 0 (length a))));
    rewrite (iter_enc F enc2 (shrv_step1 a (Z.of_nat sn))) end.
  2:{ intros i o Hi. unfold enc2, shrv_step1. rewrite Z2Nat.id by lia. reflexivity. }
  2:{ lia. }
  rewrite shrv_fold1 by lia. unfold enc2 at 1. cbv beta iota.
  destruct (Z.eqb_spec rem 0) as [Hz|Hz]; [reflexivity|].
  (* loop 2: `while i > 0 { i -= 1; .. }` from the i the first loop left, carry downward *)
  rewrite Nat2Z.id.
  match goal with |- context [Nat.iter (length a - sn) ?F (Z.of_nat (length a - sn), ?l, 0)] =>
    change (Nat.iter (length a - sn) F (Z.of_nat (length a - sn), l, 0))
      with (Nat.iter (length a - sn) F (enc3 (Z.of_nat (length a - sn)) (l, 0)));
    rewrite (iter_enc_down F enc3 (inplace_step (shrv_f rem))) end.
  2:{ intros i [l c] Hi. reflexivity. }
  2:{ lia. }
  pose proof (loop_inplace_acc_down (shrv_f rem) (skipn sn a) [] (repeat 0 sn) 0) as L2.
  rewrite skipn_length in L2. cbn [app length] in L2.
  unfold inplace_step. rewrite L2. unfold enc3. cbn [fst snd]. rewrite downacc_shr_carry by assumption. reflexivity.
Qed.

(* ---------------- composition with Proofs/ShiftP.v: the SOURCE vartime shifts are exact *)
Lemma g_uint_overflowing_shl_vartime_exact n a s : length a = n -> 64 * Z.of_nat n < 2 ^ 32 -> 0 <= s < 2 ^ 32 -> wf a ->
  let r := g_uint_overflowing_shl_vartime n a s in
  snd r = choice_of_bool (s <? 64 * Z.of_nat n) /\ wf (fst r) /\ length (fst r) = n /\
  eval (fst r) = if s <? 64 * Z.of_nat n then (eval a * 2 ^ s) mod Bn n else 0.
Proof.
  intros Ha Hn Hs Wa. cbv zeta. rewrite g_uint_overflowing_shl_vartime_eq by assumption. subst n.
  apply (shl_vartime_correct a s Wa). lia.
Qed.
Lemma g_uint_overflowing_shr_vartime_exact n a s : length a = n -> 64 * Z.of_nat n < 2 ^ 32 -> 0 <= s < 2 ^ 32 -> wf a ->
  let r := g_uint_overflowing_shr_vartime n a s in
  snd r = choice_of_bool (s <? 64 * Z.of_nat n) /\ wf (fst r) /\ length (fst r) = n /\
  eval (fst r) = if s <? 64 * Z.of_nat n then eval a / 2 ^ s else 0.
Proof.
  intros Ha Hn Hs Wa. cbv zeta. rewrite g_uint_overflowing_shr_vartime_eq by assumption. subst n.
  apply (shr_vartime_correct a s Wa). lia.
Qed.
