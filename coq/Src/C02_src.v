(** C02, translator tie: theorems about the Gallina text that tools/rs2v.py regenerates from /repo's CURRENT
    src/uint/div_limb.rs on every run (Src/GenDiv.v). Statements only; proofs in Src/GenDivP.v. *)
From CB Require Import Model.SrcPrelude Model.Word Model.Limbs Model.Div Src.GenPrim Src.GenDiv Src.GenPrimP Src.GenDivP.
From CB Require Import Proofs.WordP Proofs.DivP Proofs.Div3by2P Proofs.RecipP.
From Coq Require Import ZArith.
Open Scope Z_scope.

(** the source text of short_div, reciprocal, div2by1, div3by2 denotes the model functions *)
Theorem C02_src_short_div : forall dvd dbits dvs vbits,
  0 <= dvd < 2 ^ 32 -> 0 <= dvs < 2 ^ 32 -> 0 <= vbits <= dbits -> dbits - vbits + 1 <= 32 ->
  g_short_div dvd dbits dvs vbits = short_div dvd dbits dvs vbits.
Proof. exact g_short_div_eq. Qed.
Print Assumptions C02_src_short_div.

Theorem C02_src_reciprocal : forall d, is_word d -> g_reciprocal d = reciprocal d.
Proof. exact g_reciprocal_eq. Qed.
Print Assumptions C02_src_reciprocal.

Theorem C02_src_div2by1 : forall u1 u0 rc, is_word u1 -> is_word u0 -> is_word (r_d rc) -> is_word (r_v rc) ->
  g_div2by1 u1 u0 (g_of_recip rc) = div2by1 u1 u0 rc.
Proof. exact g_div2by1_eq. Qed.
Print Assumptions C02_src_div2by1.

Theorem C02_src_div3by2 : forall u2 u1 u0 rc v0, is_word u2 -> is_word u1 -> is_word u0 -> is_word v0 ->
  is_word (r_d rc) -> is_word (r_v rc) ->
  g_div3by2 u2 u1 u0 (g_of_recip rc) v0 = div3by2 u2 u1 u0 rc v0.
Proof. exact g_div3by2_eq. Qed.
Print Assumptions C02_src_div3by2.

(** hence the SOURCE reciprocal is exactly floor((2^128 - 1) / d) - 2^64 for every normalised divisor *)
Theorem C02_src_reciprocal_exact : forall d, 2 ^ 63 <= d < 2 ^ 64 -> recip_ok d (g_reciprocal d).
Proof. exact g_reciprocal_exact. Qed.
Print Assumptions C02_src_reciprocal_exact.

(** and the SOURCE 2-by-1 kernel returns the exact quotient and remainder *)
Theorem C02_src_div2by1_exact : forall u1 u0 rc,
  is_word u0 -> 0 <= u1 < r_d rc -> normalized (r_d rc) -> recip_ok (r_d rc) (r_v rc) ->
  let '(q, r) := g_div2by1 u1 u0 (g_of_recip rc) in
  u1 * B + u0 = q * r_d rc + r /\ 0 <= r < r_d rc /\ 0 <= q < B.
Proof. exact g_div2by1_exact. Qed.
Print Assumptions C02_src_div2by1_exact.

(** non-vacuity: the generated text runs *)
Example C02_src_runs : g_reciprocal (2 ^ 63) = 2 ^ 64 - 1 /\ g_reciprocal (2 ^ 64 - 1) = 1 /\
  g_div2by1 5 7 (g_of_recip (recip_new (2 ^ 63 + 3))) = div2by1 5 7 (recip_new (2 ^ 63 + 3)).
Proof. vm_compute. repeat split. Qed.
