(** C02, translator tie: theorems about the Gallina text that tools/rs2v.py regenerates from /repo's CURRENT
    src/uint/div_limb.rs on every run (Src/GenDiv.v). Statements only; proofs in Src/GenDivP.v. *)
From CB Require Import Model.SrcPrelude Model.Word Model.Limbs Model.Div Src.GenPrim Src.GenDiv Src.GenPrimP Src.GenDivP.
From CB Require Import Proofs.WordP Proofs.DivP Proofs.Div3by2P Proofs.RecipP.
From CB Require Import Src.GenShift Src.GenDivLimb Src.GenDivLimbP.
From CB Require Import Model.DivL0 Src.GenUint Src.GenMul Src.GenBits Src.GenDivCt Src.GenDivCtP.
From Coq Require Import ZArith List.
Import ListNotations.
Open Scope Z_scope.

(** the source text of short_div, reciprocal, div2by1, div3by2 denotes the model functions *)
Theorem C02_src_short_div : forall dvd dbits dvs vbits,
  0 <= dvd < 2 ^ 32 -> 0 <= dvs < 2 ^ 32 -> 0 <= vbits <= dbits -> dbits - vbits + 1 <= 32 ->
  g_short_div dvd dbits dvs vbits = short_div dvd dbits dvs vbits.
Proof. exact g_short_div_eq. Qed.
Print Assumptions C02_src_short_div.

Theorem C02_src_reciprocal : forall d, is_word d -> g_reciprocal d = reciprocal d.
Proof. exact g_reciprocal_eq. Qed.
Print Assumptions C02_src_reciprocal.

Theorem C02_src_div2by1 : forall u1 u0 rc, is_word u1 -> is_word u0 -> is_word (r_d rc) -> is_word (r_v rc) ->
  g_div2by1 u1 u0 (g_of_recip rc) = div2by1 u1 u0 rc.
Proof. exact g_div2by1_eq. Qed.
Print Assumptions C02_src_div2by1.

Theorem C02_src_div3by2 : forall u2 u1 u0 rc v0, is_word u2 -> is_word u1 -> is_word u0 -> is_word v0 ->
  is_word (r_d rc) -> is_word (r_v rc) ->
  g_div3by2 u2 u1 u0 (g_of_recip rc) v0 = div3by2 u2 u1 u0 rc v0.
Proof. exact g_div3by2_eq. Qed.
Print Assumptions C02_src_div3by2.

(** hence the SOURCE reciprocal is exactly floor((2^128 - 1) / d) - 2^64 for every normalised divisor *)
Theorem C02_src_reciprocal_exact : forall d, 2 ^ 63 <= d < 2 ^ 64 -> recip_ok d (g_reciprocal d).
Proof. exact g_reciprocal_exact. Qed.
Print Assumptions C02_src_reciprocal_exact.

(** and the SOURCE 2-by-1 kernel returns the exact quotient and remainder *)
Theorem C02_src_div2by1_exact : forall u1 u0 rc,
  is_word u0 -> 0 <= u1 < r_d rc -> normalized (r_d rc) -> recip_ok (r_d rc) (r_v rc) ->
  let '(q, r) := g_div2by1 u1 u0 (g_of_recip rc) in
  u1 * B + u0 = q * r_d rc + r /\ 0 <= r < r_d rc /\ 0 <= q < B.
Proof. exact g_div2by1_exact. Qed.
Print Assumptions C02_src_div2by1_exact.

(** non-vacuity: the generated text runs *)
Example C02_src_runs : g_reciprocal (2 ^ 63) = 2 ^ 64 - 1 /\ g_reciprocal (2 ^ 64 - 1) = 1 /\
  g_div2by1 5 7 (g_of_recip (recip_new (2 ^ 63 + 3))) = div2by1 5 7 (recip_new (2 ^ 63 + 3)).
Proof. vm_compute. repeat split. Qed.


(** ---- the limb-division loops (Src/GenDivLimb.v, proofs in Src/GenDivLimbP.v): for EVERY limb count 1 <= L < 2^64 ---- *)

(** Reciprocal::new: the source text (leading_zeros, shift, reciprocal) is the model, for every word *)
Theorem C02_src_reciprocal_new : forall d, g_Reciprocal_new d = g_of_recip (recip_new d).
Proof. exact g_Reciprocal_new_eq. Qed.
Print Assumptions C02_src_reciprocal_new.

(** hence for every non-zero limb the SOURCE routine returns shift < 64, the normalised divisor d * 2^shift and its exact
    reciprocal floor((2^128 - 1) / dn) - 2^64 *)
Theorem C02_src_reciprocal_new_exact : forall d, 0 < d < B ->
  exists rc, g_Reciprocal_new d = g_of_recip rc /\ recip_for d rc.
Proof. exact g_Reciprocal_new_exact. Qed.
Print Assumptions C02_src_reciprocal_new_exact.

Theorem C02_src_div_rem_limb : forall n u rc, length u = n -> (1 <= n)%nat -> Z.of_nat n < 2 ^ 64 -> wf u -> recip_words rc ->
  g_div_rem_limb_with_reciprocal n u (g_of_recip rc) = div_rem_limb_with_reciprocal u rc.
Proof. exact g_div_rem_limb_with_reciprocal_eq. Qed.
Print Assumptions C02_src_div_rem_limb.

Theorem C02_src_rem_limb : forall n u rc, length u = n -> (1 <= n)%nat -> Z.of_nat n < 2 ^ 64 -> wf u -> recip_words rc ->
  g_rem_limb_with_reciprocal n u (g_of_recip rc) = rem_limb_with_reciprocal u rc.
Proof. exact g_rem_limb_with_reciprocal_eq. Qed.
Print Assumptions C02_src_rem_limb.

Theorem C02_src_rem_limb_wide : forall n lo hi rc, length lo = n -> length hi = n -> (1 <= n)%nat -> Z.of_nat n < 2 ^ 64 ->
  wf lo -> wf hi -> recip_words rc ->
  g_rem_limb_with_reciprocal_wide n (lo, hi) (g_of_recip rc) = rem_limb_with_reciprocal_wide lo hi rc.
Proof. exact g_rem_limb_with_reciprocal_wide_eq. Qed.
Print Assumptions C02_src_rem_limb_wide.

(** the SOURCE routines, fed with the SOURCE Reciprocal::new, return floor(u / d) and u mod d for every limb count and
    every non-zero limb d *)
Theorem C02_src_div_rem_limb_exact : forall n u d, length u = n -> (1 <= n)%nat -> Z.of_nat n < 2 ^ 64 -> wf u -> 0 < d < B ->
  let '(q, r) := g_div_rem_limb_with_reciprocal n u (g_Reciprocal_new d) in
  eval q = eval u / d /\ r = eval u mod d /\ wf q /\ length q = n.
Proof. exact g_div_rem_limb_exact. Qed.
Print Assumptions C02_src_div_rem_limb_exact.

Theorem C02_src_rem_limb_exact : forall n u d, length u = n -> (1 <= n)%nat -> Z.of_nat n < 2 ^ 64 -> wf u -> 0 < d < B ->
  g_rem_limb_with_reciprocal n u (g_Reciprocal_new d) = eval u mod d.
Proof. exact g_rem_limb_exact. Qed.
Print Assumptions C02_src_rem_limb_exact.

Theorem C02_src_rem_limb_wide_exact : forall n lo hi d, length lo = n -> length hi = n -> (1 <= n)%nat -> Z.of_nat n < 2 ^ 64 ->
  wf lo -> wf hi -> 0 < d < B ->
  g_rem_limb_with_reciprocal_wide n (lo, hi) (g_Reciprocal_new d) = (eval lo + Bn n * eval hi) mod d.
Proof. exact g_rem_limb_wide_exact. Qed.
Print Assumptions C02_src_rem_limb_wide_exact.

(** non-vacuity: the generated loops run on multi-limb inputs (3 limbs, a divisor that needs a 62-bit normalising shift) *)
Example C02_src_loops_run :
  g_div_rem_limb_with_reciprocal 3 [5; 7; 11] (g_Reciprocal_new 3) = ([1; 12297829382473034413; 3], 2) /\
  g_rem_limb_with_reciprocal 3 [2 ^ 64 - 1; 2 ^ 64 - 1; 2 ^ 63] (g_Reciprocal_new (2 ^ 64 - 1))
    = (2 ^ 64 - 1 + (2 ^ 64 - 1) * 2 ^ 64 + 2 ^ 63 * 2 ^ 128) mod (2 ^ 64 - 1) /\
  g_rem_limb_with_reciprocal_wide 2 ([5; 0], [0; 1]) (g_Reciprocal_new 7) = (5 + 2 ^ 192) mod 7 /\
  g_Reciprocal_new 3 = Build_g_Reciprocal (3 * 2 ^ 62) 62 (r_v (recip_new 3)).
Proof. vm_compute. repeat split. Qed.


(** ---- the constant-time long division Uint::div_rem (Src/GenDivCt.v, proofs in Src/GenDivCtP.v): every limb count
    n >= 1 with 64 n < 2^32 (Uint::BITS is a u32), every dividend, every divisor ---- *)

(** the source text of Uint::div_rem (both the Uint<1> short circuit and Knuth D with fixed trip counts: bits, shl, shl_limb,
    Reciprocal::new, the outer loop with div3by2 / multiply-subtract / masked add-back / masked stores, the limb_div tail,
    the copy-out loop, the two final shr) denotes the limb-level model: whenever the model returns Some (q, r), i.e. none of
    the `expect`s / `assert!`s of the source fires, the generated function returns (q, r) *)
Theorem C02_src_uint_div_rem : forall n x y q r, length x = n -> length y = n -> (1 <= n)%nat -> 64 * Z.of_nat n < 2 ^ 32 ->
  wf x -> wf y -> uint_div_rem_l0 x y = Some (q, r) -> g_uint_div_rem n x y = (q, r).
Proof. exact g_uint_div_rem_eq. Qed.
Print Assumptions C02_src_uint_div_rem.

(** hence for every non-zero divisor the SOURCE routine returns floor(x / y) and x mod y *)
Theorem C02_src_uint_div_rem_exact : forall n x y, length x = n -> length y = n -> (1 <= n)%nat -> 64 * Z.of_nat n < 2 ^ 32 ->
  wf x -> wf y -> eval y <> 0 ->
  let '(q, r) := g_uint_div_rem n x y in
  eval q = eval x / eval y /\ eval r = eval x mod eval y /\ wf q /\ wf r /\ length q = n /\ length r = n.
Proof. exact g_uint_div_rem_exact. Qed.
Print Assumptions C02_src_uint_div_rem_exact.

(** non-vacuity: the generated function runs (3 limbs: a 2-limb divisor whose Knuth step needs the add-back; a one-limb
    divisor: the limb_div tail; Uint<1>: the short circuit) *)
Example C02_src_div_rem_runs :
  g_uint_div_rem 3 [2 ^ 64 - 1; 2 ^ 64 - 1; 2 ^ 64 - 2] [2 ^ 64 - 1; 2 ^ 64 - 1; 0] = ([2 ^ 64 - 1; 0; 0], [2 ^ 64 - 2; 0; 0]) /\
  g_uint_div_rem 3 [0; 0; 2 ^ 63] [1; 2 ^ 63; 0] = ([2 ^ 64 - 1; 0; 0], [1; 2 ^ 63 - 1; 0]) /\
  g_uint_div_rem 3 [5; 7; 11] [3; 0; 0] = ([1; 12297829382473034413; 3], [2; 0; 0]) /\
  g_uint_div_rem 1 [100] [7] = ([14], [2]).
Proof. vm_compute. repeat split. Qed.
