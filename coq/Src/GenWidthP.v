(** Hacker's Delight 2-12 comparison predicates at an ARBITRARY word width w >= 1, stated on the operators of
    Model/SrcPrelude.v exactly as tools/rs2v.py emits them (used at w = 32, 64, 128 for the u32 / Word / WideWord forms of
    src/const_choice.rs and src/uint/div_limb.rs). Hand-written; no dependency on the rest of the development. *)
From CB Require Import Model.SrcPrelude.
From Coq Require Import Lia.
Open Scope Z_scope.

Section Width.
Variable w : Z.
Hypothesis Hw : 1 <= w.
Let W := 2 ^ w.
Let H := 2 ^ (w - 1).

Lemma W_2H : W = 2 * H.
Proof. unfold W, H. replace w with (1 + (w - 1)) at 1 by lia. rewrite Z.pow_add_r by lia. reflexivity. Qed.
Lemma H_pos : 0 < H. Proof. unfold H. apply Z.pow_pos_nonneg; lia. Qed.

Definition inw (x : Z) : Prop := 0 <= x < W.
Definition msbw (x : Z) : bool := H <=? x.

Lemma msb_div_w x : inw x -> shr_ x (w - 1) = b2z (msbw x).
Proof.
  unfold inw, shr_, msbw. fold H. intros Hx. pose proof W_2H. pose proof H_pos.
  destruct (Z.leb_spec H x); unfold b2z.
  - symmetry. apply (Z.div_unique x H 1 (x - H)); lia.
  - apply Z.div_small. lia.
Qed.

Lemma testbit_top x : inw x -> Z.testbit x (w - 1) = msbw x.
Proof.
  intros Hx. rewrite Z.testbit_odd, Z.shiftr_div_pow2 by lia. fold H.
  pose proof (msb_div_w x Hx) as E. unfold shr_ in E. fold H in E. rewrite E. destruct (msbw x); reflexivity.
Qed.

Lemma high_bits x n : inw x -> w <= n -> Z.testbit x n = false.
Proof.
  unfold inw, W. intros [H0 H1] Hn. destruct (Z.eq_dec x 0) as [->|Hnz]; [apply Z.bits_0|].
  apply Z.bits_above_log2; [lia|]. assert (Z.log2 x < w) by (apply Z.log2_lt_pow2; lia). lia.
Qed.
Lemma from_bits x : 0 <= x -> (forall n, w <= n -> Z.testbit x n = false) -> inw x.
Proof.
  intros H0 Hb. unfold inw, W. split; [assumption|].
  destruct (Z_lt_ge_dec x (2 ^ w)) as [|Hge]; [assumption|exfalso].
  assert (Hx : 0 < x) by (assert (0 < 2 ^ w) by (apply Z.pow_pos_nonneg; lia); lia).
  assert (w <= Z.log2 x) by (apply Z.log2_le_pow2; lia).
  pose proof (Z.bit_log2 x Hx) as Hbit. rewrite Hb in Hbit by assumption. discriminate.
Qed.

Lemma inw_lor a b : inw a -> inw b -> inw (Z.lor a b).
Proof. intros Ha Hb. apply from_bits; [apply Z.lor_nonneg; unfold inw in *; lia|].
  intros n Hn. rewrite Z.lor_spec, (high_bits a n Ha Hn), (high_bits b n Hb Hn). reflexivity. Qed.
Lemma inw_land a b : inw a -> inw b -> inw (Z.land a b).
Proof. intros Ha Hb. apply from_bits; [apply Z.land_nonneg; unfold inw in *; lia|].
  intros n Hn. rewrite Z.land_spec, (high_bits a n Ha Hn). reflexivity. Qed.
Lemma inw_lxor a b : inw a -> inw b -> inw (Z.lxor a b).
Proof. intros Ha Hb. apply from_bits; [apply Z.lxor_nonneg; unfold inw in *; lia|].
  intros n Hn. rewrite Z.lxor_spec, (high_bits a n Ha Hn), (high_bits b n Hb Hn). reflexivity. Qed.
Lemma inw_not a : inw a -> inw (not_ w a).
Proof. unfold inw, not_. fold W. lia. Qed.
Lemma inw_mod a : inw (a mod 2 ^ w).
Proof. unfold inw. fold W. apply Z.mod_pos_bound. unfold W. apply Z.pow_pos_nonneg; lia. Qed.
Lemma inw_sub a b : inw (sub_ w a b). Proof. apply inw_mod. Qed.
Lemma inw_neg a : inw (neg_ w a). Proof. apply inw_mod. Qed.

Lemma msbw_lor a b : inw a -> inw b -> msbw (Z.lor a b) = msbw a || msbw b.
Proof. intros Ha Hb. rewrite <- !testbit_top by auto using inw_lor. apply Z.lor_spec. Qed.
Lemma msbw_land a b : inw a -> inw b -> msbw (Z.land a b) = msbw a && msbw b.
Proof. intros Ha Hb. rewrite <- !testbit_top by auto using inw_land. apply Z.land_spec. Qed.
Lemma msbw_lxor a b : inw a -> inw b -> msbw (Z.lxor a b) = xorb (msbw a) (msbw b).
Proof. intros Ha Hb. rewrite <- !testbit_top by auto using inw_lxor. apply Z.lxor_spec. Qed.
Lemma msbw_not a : inw a -> msbw (not_ w a) = negb (msbw a).
Proof.
  unfold inw, not_, msbw. fold W. intros Ha. pose proof W_2H. pose proof H_pos.
  destruct (Z.leb_spec H (W - 1 - a)), (Z.leb_spec H a); simpl; try reflexivity; lia.
Qed.

Lemma neg_val x : inw x -> neg_ w x = if x =? 0 then 0 else W - x.
Proof.
  unfold inw, neg_. fold W. intros Hx. destruct (Z.eqb_spec x 0) as [->|Hnz]; [reflexivity|].
  symmetry. apply (Z.mod_unique_pos _ _ (-1)); lia.
Qed.
Lemma sub_val x y : inw x -> inw y -> sub_ w x y = if y <=? x then x - y else x - y + W.
Proof.
  unfold inw, sub_. fold W. intros Hx Hy. destruct (Z.leb_spec y x).
  - apply Z.mod_small. lia.
  - symmetry. apply (Z.mod_unique_pos _ _ (-1)); lia.
Qed.

(** (value | value.wrapping_neg()) >> (BITS - 1) *)
Lemma nonzero_bit x : inw x -> shr_ (Z.lor x (neg_ w x)) (w - 1) = b2z (negb (x =? 0)).
Proof.
  intros Hx. rewrite msb_div_w by (apply inw_lor; auto using inw_neg). f_equal.
  rewrite msbw_lor by auto using inw_neg. rewrite (neg_val x Hx).
  unfold inw in Hx. pose proof W_2H. pose proof H_pos.
  destruct (Z.eqb_spec x 0) as [->|Hnz]; [unfold msbw; simpl; destruct (Z.leb_spec H 0); [lia|reflexivity]|]. simpl.
  unfold msbw. destruct (Z.leb_spec H x), (Z.leb_spec H (W - x)); simpl; try reflexivity; lia.
Qed.

(** (((!x) & y) | (((!x) | y) & (x.wrapping_sub(y)))) >> (BITS - 1) *)
Lemma lt_bit x y : inw x -> inw y ->
  shr_ (Z.lor (Z.land (not_ w x) y) (Z.land (Z.lor (not_ w x) y) (sub_ w x y))) (w - 1) = b2z (x <? y).
Proof.
  intros Hx Hy. assert (Hnx := inw_not x Hx). assert (Hs := inw_sub x y).
  rewrite msb_div_w by (repeat first [apply inw_lor | apply inw_land | assumption]). f_equal.
  rewrite msbw_lor, !msbw_land, msbw_lor, msbw_not
    by (repeat first [apply inw_lor | apply inw_land | assumption]).
  rewrite (sub_val x y Hx Hy). unfold inw in Hx, Hy. pose proof W_2H. pose proof H_pos. unfold msbw.
  destruct (Z.leb_spec H x), (Z.leb_spec H y), (Z.ltb_spec x y), (Z.leb_spec y x);
    try lia; simpl; try reflexivity;
    match goal with |- context [?a <=? ?b] => destruct (Z.leb_spec a b) end; simpl; try reflexivity; lia.
Qed.

(** (((!x) | y) & ((x ^ y) | !(y.wrapping_sub(x)))) >> (BITS - 1) *)
Lemma le_bit x y : inw x -> inw y ->
  shr_ (Z.land (Z.lor (not_ w x) y) (Z.lor (Z.lxor x y) (not_ w (sub_ w y x)))) (w - 1) = b2z (x <=? y).
Proof.
  intros Hx Hy. assert (Hnx := inw_not x Hx). assert (Hs := inw_sub y x).
  assert (Hns := inw_not _ Hs). assert (Hxy := inw_lxor x y Hx Hy).
  rewrite msb_div_w by (repeat first [apply inw_lor | apply inw_land | assumption]). f_equal.
  rewrite msbw_land, !msbw_lor, msbw_lxor, !msbw_not
    by (repeat first [apply inw_lor | apply inw_land | assumption]).
  rewrite (sub_val y x Hy Hx). unfold inw in Hx, Hy. pose proof W_2H. pose proof H_pos. unfold msbw.
  destruct (Z.leb_spec H x), (Z.leb_spec H y), (Z.leb_spec x y);
    try lia; simpl; try reflexivity;
    match goal with |- context [?a <=? ?b] => destruct (Z.leb_spec a b) end; simpl; try reflexivity; lia.
Qed.

(** a ^ (mask & (a ^ b)) with mask all-zero / all-one *)
Lemma select_0 a b : Z.lxor a (Z.land 0 (Z.lxor a b)) = a.
Proof. rewrite Z.land_0_l. apply Z.lxor_0_r. Qed.
Lemma select_ones a b : inw a -> inw b -> Z.lxor a (Z.land (W - 1) (Z.lxor a b)) = b.
Proof.
  intros Ha Hb. assert (Hx := inw_lxor a b Ha Hb).
  replace (W - 1) with (Z.ones w) by (unfold W; rewrite Z.ones_equiv; lia).
  rewrite Z.land_comm, Z.land_ones by lia. fold W. unfold inw in Hx. rewrite Z.mod_small by lia.
  rewrite <- Z.lxor_assoc. rewrite Z.lxor_nilpotent. apply Z.lxor_0_l.
Qed.
End Width.
