(** Translator tie, group IntDiv: the signed division fronts of src/int/div.rs (`Int::div_rem_base`, `checked_div_rem`, `rem`,
    `checked_div_rem_floor`) and src/int/div_uint.rs (`div_rem_base_uint`, `div_rem_uint`, `div_uint`, `rem_uint`,
    `div_rem_floor_uint`, `div_floor_uint`, `normalized_rem`) with what they call (`NonZero<Int>::abs_sign`,
    `NonZero<Uint>::new_unwrap` of src/non_zero.rs, `Int::new_from_abs_sign`, the constants `Int::MAX` / `Int::MIN`,
    `Int::from_bits`, `Uint::as_int`) as regenerated from /repo's CURRENT source (Src/GenIntDiv.v) equal the models of
    Model/IntDiv.v / Model/IntArith.v for every limb count n >= 1 with 64 n < 2^32 and all limb values.
    The models divide the magnitudes at the VALUE level ([ux_div_rem]); the generated text calls the GENERATED constant-time long
    division `Uint::div_rem`, whose exactness theorem (Src/GenDivCtP.v) closes the gap.  A `ConstCtOption<T>` of the source is
    the pair (value, is_some); [ct2opt] reads it as the option the models return.  The `NonZero` divisor of the source is a
    hypothesis (`seval d <> 0` / `eval d <> 0`): under it the `panic!` of `new_unwrap` is not reached. *)
From CB Require Import Model.SrcPrelude Model.Word Model.Limbs Model.AddSub Model.Cmp Model.IntArith Model.IntDiv.
From CB Require Import Src.GenPrim Src.GenDiv Src.GenUint Src.GenShift Src.GenMul Src.GenInt Src.GenDivLimb Src.GenBits Src.GenDivCt
  Src.GenIntDiv.
From CB Require Import Src.GenPrimP Src.GenUintP Src.GenShiftP Src.GenIntP Src.GenBitsP Src.GenDivCtP.
From CB Require Import Proofs.WordP Proofs.LimbsP Proofs.AddSubP Proofs.CmpP Proofs.IntArithP Proofs.IntDivP.
From Coq Require Import Lia List.
Import ListNotations.
Open Scope Z_scope.
Transparent B.

Definition ct2opt {A : Type} (p : A * Z) : option A := ctopt_new (fst p) (snd p).

Lemma usz_of_bits' n : 64 * Z.of_nat n < 2 ^ 32 -> usz n.
Proof. unfold usz. lia. Qed.

(* ---------------- the constants Int::MAX = Uint::MAX.shr(1), Int::MIN = Uint::MAX ^ (Uint::MAX.shr(1)) *)
Lemma g_int_MAX_eq n : (1 <= n)%nat -> 64 * Z.of_nat n < 2 ^ 32 -> g_int_MAX n = int_max_limbs n.
Proof.
  intros H1 Hn. unfold g_int_MAX, g_uint_shr, g_ctopt_uint_expect.
  pose proof (g_uint_overflowing_shr_exact n (repeat (2 ^ 64 - 1) n) 1 (repeat_length _ _) H1 Hn ltac:(lia) (wf_maxs n)) as H.
  cbv zeta in H. destruct H as (_ & W & L & E).
  destruct (int_max_limbs_spec n ltac:(lia)) as (E2 & W2 & L2).
  apply eval_inj; try assumption; [lia|].
  rewrite E, E2. destruct (Z.ltb_spec 1 (64 * Z.of_nat n)) as [_|?]; [|lia].
  change (repeat (2 ^ 64 - 1) n) with (maxs n). rewrite eval_maxs.
  destruct (Bn_half n ltac:(lia)) as [Hb Hp]. rewrite Hb. change (2 ^ 1) with 2.
  symmetry. apply (Z.div_unique _ 2 _ 1); lia.
Qed.

Lemma xor_max_intmax k :
  map (fun p => wxor (fst p) (snd p)) (combine (repeat (2 ^ 64 - 1) (S k)) (maxs k ++ [2 ^ 63 - 1])) = zeros k ++ [2 ^ 63].
Proof.
  induction k as [|k IH]; [reflexivity|].
  change (maxs (S k)) with (MAXW :: maxs k). change (zeros (S k)) with (0 :: zeros k).
  change (repeat (2 ^ 64 - 1) (S (S k))) with ((2 ^ 64 - 1) :: repeat (2 ^ 64 - 1) (S k)).
  cbn [app combine map fst snd]. rewrite IH. reflexivity.
Qed.

Lemma g_int_MIN_eq n : (1 <= n)%nat -> 64 * Z.of_nat n < 2 ^ 32 -> g_int_MIN n = int_min_limbs n.
Proof.
  intros H1 Hn. unfold g_int_MIN.
  change (g_uint_shr n (repeat (2 ^ 64 - 1) n) 1) with (g_int_MAX n). rewrite g_int_MAX_eq by assumption.
  destruct (int_max_limbs_spec n ltac:(lia)) as (_ & _ & L2).
  rewrite g_uint_bitxor_eq by (first [apply repeat_length | exact L2 | apply usz_of_bits'; exact Hn]).
  destruct n as [|k]; [lia|]. apply xor_max_intmax.
Qed.

Lemma g_int_from_bits_eq n (a : list Z) : g_int_from_bits n a = a. Proof. reflexivity. Qed.
Lemma g_uint_as_int_eq n (a : list Z) : g_uint_as_int n a = a. Proof. reflexivity. Qed.

(* ---------------- Int::new_from_abs_sign *)
Lemma g_int_new_from_abs_sign_eq n q c : length q = n -> (1 <= n)%nat -> 64 * Z.of_nat n < 2 ^ 32 -> wf q ->
  ct2opt (g_int_new_from_abs_sign n q c) = int_new_from_abs_sign q c.
Proof.
  intros Hl H1 Hn Wq. pose proof (usz_of_bits' n Hn) as Hu.
  unfold g_int_new_from_abs_sign, int_new_from_abs_sign, g_ctopt_new, ct2opt. cbn [fst snd].
  rewrite g_int_MAX_eq, g_int_MIN_eq by assumption.
  destruct (int_max_limbs_spec n ltac:(lia)) as (_ & W2 & L2).
  destruct (int_min_limbs_spec n ltac:(lia)) as (_ & W3 & L3).
  rewrite g_int_wrapping_neg_if_eq, g_uint_lte_eq, g_uint_eq_eq by assumption.
  rewrite Hl. reflexivity.
Qed.

(* ---------------- NonZero<Uint>::new_unwrap, NonZero<Int>::abs_sign: the guard is not taken for a non-zero value *)
Lemma g_nz_uint_new_unwrap_eq n v : length v = n -> usz n -> wf v -> eval v <> 0 -> g_nz_uint_new_unwrap n v = v.
Proof.
  intros Hl Hu Wv Hv. unfold g_nz_uint_new_unwrap. rewrite g_uint_is_nonzero_eq by assumption.
  rewrite uint_is_nonzero_spec by assumption. rewrite g_cc_is_true_vartime_spec.
  destruct (Z.eqb_spec (eval v) 0); [contradiction|reflexivity].
Qed.

Lemma abs_sign_facts a : wf a ->
  wf (fst (int_abs_sign a)) /\ length (fst (int_abs_sign a)) = length a /\
  eval (fst (int_abs_sign a)) = Z.abs (seval a) /\ snd (int_abs_sign a) = choice_of_bool (seval a <? 0).
Proof.
  intros Wa. rewrite int_abs_sign_spec by assumption. cbn [fst snd].
  split; [apply wf_to_limbs|]. split; [apply length_to_limbs|]. split; [|reflexivity].
  rewrite eval_to_limbs. apply Z.mod_small. apply abs_lt_Bn. assumption.
Qed.

Lemma g_nz_int_abs_sign_eq n d : length d = n -> usz n -> wf d -> seval d <> 0 -> g_nz_int_abs_sign n d = int_abs_sign d.
Proof.
  intros Hl Hu Wd Hd. unfold g_nz_int_abs_sign. rewrite g_int_abs_sign_eq by assumption.
  destruct (abs_sign_facts d Wd) as (Wm & Lm & Em & _).
  destruct (int_abs_sign d) as [m s]. cbn [fst snd] in *.
  rewrite g_nz_uint_new_unwrap_eq by (try assumption; lia). reflexivity.
Qed.

(* ---------------- the source's Uint::div_rem is the value-level division of the models *)
Lemma ux_div_rem_facts x y : wf (fst (ux_div_rem x y)) /\ length (fst (ux_div_rem x y)) = length x /\
  wf (snd (ux_div_rem x y)) /\ length (snd (ux_div_rem x y)) = length y.
Proof. unfold ux_div_rem. cbn [fst snd]. auto using wf_to_limbs, length_to_limbs. Qed.

Lemma g_uint_div_rem_ux n x y : length x = n -> length y = n -> (1 <= n)%nat -> 64 * Z.of_nat n < 2 ^ 32 ->
  wf x -> wf y -> eval y <> 0 -> g_uint_div_rem n x y = ux_div_rem x y.
Proof.
  intros Lx Ly H1 Hn Wx Wy Hy.
  pose proof (g_uint_div_rem_exact n x y Lx Ly H1 Hn Wx Wy Hy) as H.
  destruct (g_uint_div_rem n x y) as [q r]. destruct H as (Eq & Er & Wq & Wr & Lq & Lr).
  unfold ux_div_rem. f_equal; [rewrite <- Eq, Lx, <- Lq | rewrite <- Er, Ly, <- Lr]; symmetry; apply to_limbs_eval; assumption.
Qed.

(* ---------------- src/int/div.rs *)
Section IntDivisor.
Variables (n : nat) (a d : list Z).
Hypothesis La : length a = n.
Hypothesis Ld : length d = n.
Hypothesis H1 : (1 <= n)%nat.
Hypothesis Hn : 64 * Z.of_nat n < 2 ^ 32.
Hypothesis Wa : wf a.
Hypothesis Wd : wf d.
Hypothesis Hd : seval d <> 0.

Lemma g_int_div_rem_base_eq : g_int_div_rem_base n a d = int_div_rem_base a d.
Proof.
  pose proof (usz_of_bits' n Hn) as Hu. unfold g_int_div_rem_base, int_div_rem_base.
  rewrite g_int_abs_sign_eq, g_nz_int_abs_sign_eq by assumption.
  destruct (abs_sign_facts a Wa) as (Wm & Lm & Em & _). destruct (abs_sign_facts d Wd) as (Wm' & Lm' & Em' & _).
  destruct (int_abs_sign a) as [lm ls]. destruct (int_abs_sign d) as [rm rs]. cbn [fst snd] in *.
  rewrite g_uint_div_rem_ux by (try assumption; lia). reflexivity.
Qed.

Theorem g_int_checked_div_rem_eq :
  (ct2opt (fst (g_int_checked_div_rem n a d)), snd (g_int_checked_div_rem n a d)) = int_checked_div_rem a d.
Proof.
  pose proof (usz_of_bits' n Hn) as Hu. unfold g_int_checked_div_rem, int_checked_div_rem.
  rewrite g_int_div_rem_base_eq. unfold int_div_rem_base.
  destruct (abs_sign_facts a Wa) as (Wm & Lm & Em & _). destruct (abs_sign_facts d Wd) as (Wm' & Lm' & Em' & _).
  destruct (int_abs_sign a) as [lm ls]. destruct (int_abs_sign d) as [rm rs]. cbn [fst snd] in *.
  destruct (ux_div_rem_facts lm rm) as (Wq & Lq & Wr & Lr).
  destruct (ux_div_rem lm rm) as [q r]. cbn [fst snd] in *.
  rewrite g_int_new_from_abs_sign_eq by (try assumption; lia).
  rewrite g_uint_as_int_eq. rewrite g_int_wrapping_neg_if_eq by (try assumption; lia). reflexivity.
Qed.

Lemma g_int_rem_eq : g_int_rem n a d = int_rem a d.
Proof. unfold g_int_rem, int_rem. rewrite <- g_int_checked_div_rem_eq. reflexivity. Qed.

Theorem g_int_checked_div_rem_floor_eq :
  (ct2opt (fst (g_int_checked_div_rem_floor n a d)), snd (g_int_checked_div_rem_floor n a d)) = int_checked_div_rem_floor a d.
Proof.
  pose proof (usz_of_bits' n Hn) as Hu. unfold g_int_checked_div_rem_floor, int_checked_div_rem_floor.
  rewrite g_int_abs_sign_eq, g_nz_int_abs_sign_eq by assumption.
  destruct (abs_sign_facts a Wa) as (Wm & Lm & Em & Sa). destruct (abs_sign_facts d Wd) as (Wm' & Lm' & Em' & Sd).
  destruct (int_abs_sign a) as [lm ls]. destruct (int_abs_sign d) as [rm rs]. cbn [fst snd] in *.
  rewrite g_uint_div_rem_ux by (try assumption; lia).
  destruct (ux_div_rem_facts lm rm) as (Wq & Lq & Wr & Lr).
  destruct (ux_div_rem lm rm) as [q r]. cbn [fst snd] in *.
  rewrite g_uint_is_nonzero_eq by (try assumption; lia).
  change (uint_is_nonzero r) with (ux_is_nonzero r).
  change (g_cc_xor ls rs) with (cc_xor ls rs).
  change (g_cc_and (ux_is_nonzero r) (cc_xor ls rs)) with (cc_and (ux_is_nonzero r) (cc_xor ls rs)).
  rewrite g_uint_ONE_eq by assumption.
  assert (W1 : wf (one_limbs n) /\ length (one_limbs n) = n).
  { destruct n as [|k]; [lia|]. cbn [one_limbs length]. rewrite length_zeros. split; [|reflexivity].
    apply wf_cons. split; [pose proof B_gt1; unfold is_word; lia | apply wf_zeros]. }
  destruct W1 as [W1 L1].
  rewrite g_uint_wrapping_add_eq by (try assumption; lia).
  replace (length q) with n by lia.
  destruct (wrapping_add_spec q (one_limbs n) Wq W1 ltac:(lia)) as (_ & Wq1 & Lq1).
  assert (Hm : exists m : bool, cc_and (ux_is_nonzero r) (cc_xor ls rs) = choice_of_bool m).
  { rewrite ux_is_nonzero_spec by assumption. rewrite Sa, Sd, cc_xor_bool, cc_and_bool. eexists. reflexivity. }
  destruct Hm as [m Hm]. rewrite Hm.
  rewrite (g_uint_select_eq n q) by (try assumption; lia). unfold uint_select.
  rewrite g_uint_wrapping_sub_eq by (try assumption; lia).
  destruct (wrapping_sub_spec rm r Wm' Wr ltac:(lia)) as (_ & Wiv & Liv).
  rewrite (g_uint_select_eq n r) by (try assumption; lia). unfold uint_select.
  rewrite (select_limbs_choice m q) by (try assumption; lia).
  rewrite (select_limbs_choice m r) by (try assumption; lia).
  rewrite g_uint_as_int_eq.
  rewrite g_int_new_from_abs_sign_eq by (destruct m; try assumption; lia).
  rewrite g_int_wrapping_neg_if_eq by (destruct m; try assumption; lia).
  reflexivity.
Qed.
End IntDivisor.

(* ---------------- src/int/div_uint.rs *)
Section UintDivisor.
Variables (n : nat) (a d : list Z).
Hypothesis La : length a = n.
Hypothesis Ld : length d = n.
Hypothesis H1 : (1 <= n)%nat.
Hypothesis Hn : 64 * Z.of_nat n < 2 ^ 32.
Hypothesis Wa : wf a.
Hypothesis Wd : wf d.
Hypothesis Hd : eval d <> 0.

Lemma g_int_div_rem_base_uint_eq :
  g_int_div_rem_base_uint n a d = (fst (ux_div_rem (fst (int_abs_sign a)) d), snd (ux_div_rem (fst (int_abs_sign a)) d), snd (int_abs_sign a)).
Proof.
  pose proof (usz_of_bits' n Hn) as Hu. unfold g_int_div_rem_base_uint.
  rewrite g_int_abs_sign_eq by assumption.
  destruct (abs_sign_facts a Wa) as (Wm & Lm & Em & _).
  destruct (int_abs_sign a) as [lm ls]. cbn [fst snd] in *.
  rewrite g_uint_div_rem_ux by (try assumption; lia).
  destruct (ux_div_rem lm d); reflexivity.
Qed.

Theorem g_int_div_rem_uint_eq : g_int_div_rem_uint n a d = int_div_rem_uint a d.
Proof.
  pose proof (usz_of_bits' n Hn) as Hu. unfold g_int_div_rem_uint, int_div_rem_uint.
  rewrite g_int_div_rem_base_uint_eq.
  destruct (abs_sign_facts a Wa) as (Wm & Lm & Em & _).
  destruct (int_abs_sign a) as [lm ls]. cbn [fst snd] in *.
  destruct (ux_div_rem_facts lm d) as (Wq & Lq & Wr & Lr).
  destruct (ux_div_rem lm d) as [q r]. cbn [fst snd] in *.
  rewrite !g_int_wrapping_neg_if_eq by (try assumption; lia). reflexivity.
Qed.
Lemma g_int_div_uint_eq : g_int_div_uint n a d = fst (int_div_rem_uint a d).
Proof. unfold g_int_div_uint. rewrite g_int_div_rem_uint_eq. reflexivity. Qed.
Lemma g_int_rem_uint_eq : g_int_rem_uint n a d = snd (int_div_rem_uint a d).
Proof. unfold g_int_rem_uint. rewrite g_int_div_rem_uint_eq. reflexivity. Qed.

Theorem g_int_div_rem_floor_uint_eq : g_int_div_rem_floor_uint n a d = int_div_rem_floor_uint a d.
Proof.
  pose proof (usz_of_bits' n Hn) as Hu. unfold g_int_div_rem_floor_uint, int_div_rem_floor_uint.
  rewrite g_int_div_rem_base_uint_eq.
  destruct (abs_sign_facts a Wa) as (Wm & Lm & Em & Sa).
  destruct (int_abs_sign a) as [lm ls]. cbn [fst snd] in *.
  destruct (ux_div_rem_facts lm d) as (Wq & Lq & Wr & Lr).
  destruct (ux_div_rem lm d) as [q r]. cbn [fst snd] in *.
  rewrite g_uint_is_nonzero_eq by (try assumption; lia).
  change (uint_is_nonzero r) with (ux_is_nonzero r).
  change (g_cc_and (ux_is_nonzero r) ls) with (cc_and (ux_is_nonzero r) ls).
  rewrite g_uint_ONE_eq by assumption.
  assert (W1 : wf (one_limbs n) /\ length (one_limbs n) = n).
  { destruct n as [|k]; [lia|]. cbn [one_limbs length]. rewrite length_zeros. split; [|reflexivity].
    apply wf_cons. split; [pose proof B_gt1; unfold is_word; lia | apply wf_zeros]. }
  destruct W1 as [W1 L1].
  rewrite g_uint_wrapping_add_eq by (try assumption; lia).
  replace (length q) with n by lia.
  destruct (wrapping_add_spec q (one_limbs n) Wq W1 ltac:(lia)) as (_ & Wq1 & Lq1).
  assert (Hm : exists m : bool, cc_and (ux_is_nonzero r) ls = choice_of_bool m).
  { rewrite ux_is_nonzero_spec by assumption. rewrite Sa, cc_and_bool. eexists. reflexivity. }
  destruct Hm as [m Hm]. rewrite Hm.
  rewrite (g_uint_select_eq n q) by (try assumption; lia). unfold uint_select.
  rewrite g_uint_wrapping_sub_eq by (try assumption; lia).
  destruct (wrapping_sub_spec d r Wd Wr ltac:(lia)) as (_ & Wiv & Liv).
  rewrite (g_uint_select_eq n r) by (try assumption; lia). unfold uint_select.
  rewrite (select_limbs_choice m q) by (try assumption; lia).
  rewrite g_int_wrapping_neg_if_eq by (destruct m; try assumption; lia).
  reflexivity.
Qed.
Lemma g_int_div_floor_uint_eq : g_int_div_floor_uint n a d = fst (int_div_rem_floor_uint a d).
Proof. unfold g_int_div_floor_uint. rewrite g_int_div_rem_floor_uint_eq. destruct (int_div_rem_floor_uint a d); reflexivity. Qed.
Lemma g_int_normalized_rem_eq : g_int_normalized_rem n a d = snd (int_div_rem_floor_uint a d).
Proof. unfold g_int_normalized_rem. rewrite g_int_div_rem_floor_uint_eq. destruct (int_div_rem_floor_uint a d); reflexivity. Qed.
End UintDivisor.

(* ---------------- composition with Proofs/IntDivP.v: the SOURCE text divides with its sign convention *)
Lemma ne_of_len (a : list Z) n : length a = n -> (1 <= n)%nat -> a <> [].
Proof. intros Hl H1 ->. cbn in Hl. lia. Qed.

Theorem g_int_checked_div_rem_exact n a d : length a = n -> length d = n -> (1 <= n)%nat -> 64 * Z.of_nat n < 2 ^ 32 ->
  wf a -> wf d -> seval d <> 0 ->
  (ct2opt (fst (g_int_checked_div_rem n a d)), snd (g_int_checked_div_rem n a d)) =
    (if isp_fits n (Z.quot (seval a) (seval d)) then Some (to_limbs_s n (Z.quot (seval a) (seval d))) else None,
     to_limbs_s n (Z.rem (seval a) (seval d))).
Proof.
  intros La Ld H1 Hn Wa Wd Hd. rewrite (g_int_checked_div_rem_eq n a d La Ld H1 Hn Wa Wd Hd).
  rewrite (int_checked_div_rem_spec a d Wa Wd Hd). rewrite La, Ld. reflexivity.
Qed.

Theorem g_int_rem_exact n a d : length a = n -> length d = n -> (1 <= n)%nat -> 64 * Z.of_nat n < 2 ^ 32 ->
  wf a -> wf d -> seval d <> 0 -> g_int_rem n a d = to_limbs_s n (Z.rem (seval a) (seval d)).
Proof.
  intros La Ld H1 Hn Wa Wd Hd. rewrite (g_int_rem_eq n a d La Ld H1 Hn Wa Wd Hd).
  rewrite (int_rem_spec a d Wa Wd Hd). rewrite Ld. reflexivity.
Qed.

Theorem g_int_checked_div_rem_floor_exact n a d : length a = n -> length d = n -> (1 <= n)%nat -> 64 * Z.of_nat n < 2 ^ 32 ->
  wf a -> wf d -> seval d <> 0 ->
  (ct2opt (fst (g_int_checked_div_rem_floor n a d)), snd (g_int_checked_div_rem_floor n a d)) =
    (if isp_fits n (seval a / seval d) then Some (to_limbs_s n (seval a / seval d)) else None,
     to_limbs_s n (seval a mod seval d)).
Proof.
  intros La Ld H1 Hn Wa Wd Hd. rewrite (g_int_checked_div_rem_floor_eq n a d La Ld H1 Hn Wa Wd Hd).
  rewrite (int_checked_div_rem_floor_spec a d Wa Wd (ne_of_len a n La H1) Hd). rewrite La, Ld. reflexivity.
Qed.

Theorem g_int_div_rem_uint_exact n a d : length a = n -> length d = n -> (1 <= n)%nat -> 64 * Z.of_nat n < 2 ^ 32 ->
  wf a -> wf d -> eval d <> 0 ->
  g_int_div_rem_uint n a d = (to_limbs_s n (Z.quot (seval a) (eval d)), to_limbs_s n (Z.rem (seval a) (eval d))).
Proof.
  intros La Ld H1 Hn Wa Wd Hd. rewrite (g_int_div_rem_uint_eq n a d La Ld H1 Hn Wa Wd Hd).
  rewrite (int_div_rem_uint_spec a d Wa Wd Hd). rewrite La, Ld. reflexivity.
Qed.

Theorem g_int_div_rem_floor_uint_exact n a d : length a = n -> length d = n -> (1 <= n)%nat -> 64 * Z.of_nat n < 2 ^ 32 ->
  wf a -> wf d -> eval d <> 0 ->
  g_int_div_rem_floor_uint n a d = (to_limbs_s n (seval a / eval d), to_limbs n (seval a mod eval d)).
Proof.
  intros La Ld H1 Hn Wa Wd Hd. rewrite (g_int_div_rem_floor_uint_eq n a d La Ld H1 Hn Wa Wd Hd).
  rewrite (int_div_rem_floor_uint_spec a d Wa Wd (ne_of_len a n La H1) Hd). rewrite La, Ld. reflexivity.
Qed.
