(** Translator tie, group Hex: the branch-free hex nibble decoder `decode_nibble` (i16 arithmetic) and `decode_hex_byte`
    of src/uint/encoding.rs as regenerated from /repo's CURRENT source (Src/GenHex.v) equal the models of Model/Conv.v on
    every byte value.  The generated text wraps every i16 operation to two's complement (sadd_ / ssub_ / sneg_ 16); the model
    computes in Z and Proofs/ConvHexP.v shows separately that no intermediate value leaves the i16 range.  The domain is
    finite (256 byte values), so the equality is checked on each of them by computation. *)
From CB Require Import Model.SrcPrelude Model.Limbs Model.Conv Src.GenHex.
From CB Require Import Proofs.ConvHexP.
From Coq Require Import ZArith Lia List Bool.
Import ListNotations.
Open Scope Z_scope.

Lemma g_decode_nibble_sweep : forallb (fun c => g_decode_nibble c =? decode_nibble c) byte_list = true.
Proof. vm_compute. reflexivity. Qed.

Lemma g_decode_nibble_eq c : 0 <= c < 256 -> g_decode_nibble c = decode_nibble c.
Proof.
  intros H. pose proof g_decode_nibble_sweep as S. rewrite forallb_forall in S.
  apply Z.eqb_eq. apply S. apply in_byte_list. assumption.
Qed.

(** decode_hex_byte: u16 shifts / or / casts are the model's arithmetic, the two nibbles by the lemma above *)
Lemma g_decode_hex_byte_eq c0 c1 : 0 <= c0 < 256 -> 0 <= c1 < 256 -> g_decode_hex_byte [c0; c1] = decode_hex_byte c0 c1.
Proof.
  intros H0 H1. unfold g_decode_hex_byte, decode_hex_byte.
  change (nth (Z.to_nat 0) [c0; c1] 0) with c0. change (nth (Z.to_nat 1) [c0; c1] 0) with c1.
  rewrite (g_decode_nibble_eq c0 H0), (g_decode_nibble_eq c1 H1). reflexivity.
Qed.

(* ---------------- composition with the sweep theorems of the model *)
Lemma g_decode_nibble_spec c : 0 <= c < 256 ->
  g_decode_nibble c = match hexval c with Some d => d | None => 65535 end.
Proof. intros H. rewrite g_decode_nibble_eq by assumption. apply decode_nibble_spec. assumption. Qed.

Lemma g_decode_hex_byte_spec c0 c1 r e : 0 <= c0 < 256 -> 0 <= c1 < 256 -> g_decode_hex_byte [c0; c1] = (r, e) ->
  0 <= r < 256 /\
  match hexval c0, hexval c1 with
  | Some h, Some l => r = 16 * h + l /\ e = 0
  | _, _ => 0 < e
  end.
Proof. intros H0 H1 E. rewrite g_decode_hex_byte_eq in E by assumption. apply decode_hex_byte_spec; assumption. Qed.
