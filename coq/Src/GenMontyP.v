(** Translator tie, group Monty: `montgomery_reduction_inner` / `montgomery_reduction` of src/modular/reduction.rs (and
    Limb::wrapping_mul) as regenerated from /repo's CURRENT source (Src/GenMonty.v) equal the models of Model/Monty.v
    ([mred_rows] / [montgomery_reduction_inner] / [montgomery_reduction]) for every limb count n with 2n a usize and all limb
    values.  The source keeps two buffers lower / upper of n limbs and splits the carry chain of row i at the boundary
    (`while j < nlimbs - i` writes lower[i + j], `while j < nlimbs` writes upper[i + j - nlimbs]); the model keeps ONE list
    t = lower[i..] ++ upper and drops the dead limbs.  Nested loops: Nat.iter over (i, lower, upper, new_sum, meta_carry),
    inside it two Nat.iter over (j, new_limb, carry, lower) and (j, new_limb, carry, upper). *)
From CB Require Import Model.SrcPrelude Model.Word Model.Limbs Model.AddSub Model.Mul Model.ModArith Model.Monty.
From CB Require Import Src.GenPrim Src.GenUint Src.GenMod Src.GenShift Src.GenMul Src.GenMonty.
From CB Require Import Src.GenWidthP Src.GenPrimP Src.GenLoopP Src.GenIterP Src.GenUintP Src.GenModP Src.GenMulP.
From CB Require Import Proofs.WordP Proofs.WordPredP Proofs.LimbsP Proofs.AddSubP Proofs.ModArithP Proofs.MontyRedP.
From Coq Require Import Lia List.
Import ListNotations.
Open Scope Z_scope.
Transparent B.

(* ---------------- generic: a counted loop whose body is only known for the indices it visits; five-component state *)
Definition enc5 {A B C D} (i : Z) (s : A * B * C * D) : Z * A * B * C * D :=
  (i, fst (fst (fst s)), snd (fst (fst s)), snd (fst s), snd s).

Lemma iter_enc_lt {T St} (F : T -> T) (enc : Z -> St -> T) (step : nat -> St -> St) k :
  (forall i s, 0 <= i < Z.of_nat k -> F (enc i s) = enc (add_ 64 i 1) (step (Z.to_nat i) s)) ->
  Z.of_nat k < 2 ^ 64 -> forall s0,
  Nat.iter k F (enc 0 s0) = enc (Z.of_nat k) (fold_left (fun s j => step j s) (seq 0 k) s0).
Proof.
  intros HF Hk s0.
  assert (G : forall k', (k' <= k)%nat ->
    Nat.iter k' F (enc 0 s0) = enc (Z.of_nat k') (fold_left (fun s j => step j s) (seq 0 k') s0)).
  { induction k' as [|k' IH]; intros Hle; [reflexivity|].
    change (Nat.iter (S k') F (enc 0 s0)) with (F (Nat.iter k' F (enc 0 s0))).
    rewrite IH by lia. rewrite HF by lia. rewrite Nat2Z.id.
    rewrite seq_S, fold_left_app. cbn [fold_left Nat.add]. f_equal.
    unfold add_. rewrite Z.mod_small by lia. lia. }
  apply G. lia.
Qed.

(* ---------------- Limb::wrapping_mul, Uint::sub_mod_with_carry *)
Lemma g_limb_wrapping_mul_eq a b : g_limb_wrapping_mul a b = wmul a b. Proof. reflexivity. Qed.

Lemma g_uint_sub_mod_with_carry_eq n a carry b p : length a = n -> length b = n -> length p = n -> usz n ->
  wf a -> wf b -> wf p -> is_word carry ->
  g_uint_sub_mod_with_carry n a carry b p = sub_mod_with_carry a carry b p.
Proof.
  intros Ha Hb Hp Hn Wa Wb Wp Wc. unfold g_uint_sub_mod_with_carry, sub_mod_with_carry.
  rewrite g_uint_sbb_eq by (try assumption; apply is_word_0').
  destruct (sbb_limbs a b 0) as [out bo] eqn:E.
  destruct (sbb0_facts a b out bo Wa Wb ltac:(lia) E) as [Wo [Lo Wm]].
  change (g_limb_bitand (g_limb_not (g_limb_wrapping_neg carry)) bo) with (wand (wnot (wneg carry)) bo).
  assert (Wmask : is_word (wand (wnot (wneg carry)) bo)).
  { apply is_word_land; [|assumption]. unfold wnot, wneg, wrap, MAXW, is_word.
    pose proof (Z.mod_pos_bound (- carry) B ltac:(reflexivity)). lia. }
  rewrite g_uint_bitand_limb_eq by assumption.
  rewrite g_uint_wrapping_add_eq; try assumption; try lia; [reflexivity| rewrite len_bitand; lia | apply wf_bitand; assumption].
Qed.

(* ---------------- one carry chain `(buf[idx j], carry) = buf[idx j].mac(u, m[j], carry)` over consecutive j *)
Definition row_step (m : list Z) (u : Z) (idx : Z -> Z) (j : nat) (s : Z * Z * list Z) : Z * Z * list Z :=
  let '(t0, t1) := g_limb_mac (nth (Z.to_nat (idx (Z.of_nat j))) (snd s) 0) u (nth j m 0) (snd (fst s)) in
  (t0, t1, upd_ (snd s) (Z.to_nat (idx (Z.of_nat j))) t0).

Lemma mac_comm a b c k : mac a b c k = mac a c b k.
Proof. unfold mac. rewrite (Z.mul_comm b c). reflexivity. Qed.

Lemma row_fold u (idx : Z -> Z) : is_word u -> forall ys xs bpre bpost mpre mpost nl c,
  length xs = length ys -> wf xs -> wf ys -> is_word c ->
  (forall k, (k < length ys)%nat -> Z.to_nat (idx (Z.of_nat (length mpre + k))) = (length bpre + k)%nat) ->
  let r := fold_left (fun s j => row_step (mpre ++ ys ++ mpost) u idx j s) (seq (length mpre) (length ys)) (nl, c, bpre ++ xs ++ bpost) in
  snd (fst r) = snd (mac_by_limb xs ys u c) /\ snd r = bpre ++ fst (mac_by_limb xs ys u c) ++ bpost.
Proof.
  intros Hu. induction ys as [|y ys IH]; intros xs bpre bpost mpre mpost nl c Hl Wx Wy Wc Hidx.
  - destruct xs; [|discriminate]. cbn. auto.
  - destruct xs as [|x xs]; [discriminate|]. cbn [length] in Hl.
    apply wf_cons in Wx. destruct Wx as [Hx Wx]. apply wf_cons in Wy. destruct Wy as [Hy Wy].
    cbn [length seq fold_left mac_by_limb].
    change (bpre ++ (x :: xs) ++ bpost) with (bpre ++ x :: xs ++ bpost).
    change (mpre ++ (y :: ys) ++ mpost) with (mpre ++ y :: ys ++ mpost).
    pose proof (Hidx 0%nat ltac:(cbn; lia)) as H0. rewrite !Nat.add_0_r in H0.
    assert (Hstep : row_step (mpre ++ y :: ys ++ mpost) u idx (length mpre) (nl, c, bpre ++ x :: xs ++ bpost)
                    = (fst (mac x y u c), snd (mac x y u c), bpre ++ fst (mac x y u c) :: xs ++ bpost)).
    { unfold row_step. cbn [fst snd]. rewrite H0.
      rewrite (nth_middle bpre (xs ++ bpost) x 0), (nth_middle mpre (ys ++ mpost) y 0).
      rewrite (g_limb_mac_eq x u y c Hx Hu Hy Wc), mac_comm. destruct (mac x y u c) as [v cy]. cbn [fst snd].
      rewrite GenLoopP.upd_mid. reflexivity. }
    rewrite Hstep. clear Hstep.
    destruct (mac x y u c) as [v cy] eqn:E. cbn [fst snd].
    destruct (mac_exact x y u c v cy Hx Hy Hu Wc E) as (_ & Wv & Wcy).
    replace (bpre ++ v :: xs ++ bpost) with ((bpre ++ [v]) ++ xs ++ bpost) by (rewrite <- app_assoc; reflexivity).
    replace (mpre ++ y :: ys ++ mpost) with ((mpre ++ [y]) ++ ys ++ mpost) by (rewrite <- app_assoc; reflexivity).
    replace (S (length mpre)) with (length (mpre ++ [y])) by (rewrite app_length; cbn; lia).
    specialize (IH xs (bpre ++ [v]) bpost (mpre ++ [y]) mpost v cy ltac:(lia) Wx Wy Wcy).
    cbv zeta in IH. destruct IH as [I1 I2].
    { intros k Hk. rewrite !app_length. cbn [length].
      replace (length mpre + 1 + k)%nat with (length mpre + S k)%nat by lia. rewrite Hidx by (cbn [length]; lia). lia. }
    rewrite I1, I2. destruct (mac_by_limb xs ys u cy) as [r cf]. cbn [fst snd]. rewrite <- app_assoc. auto.
Qed.

Lemma mac_by_limb_app u : forall xs1 ys1 xs2 ys2 c, length xs1 = length ys1 ->
  mac_by_limb (xs1 ++ xs2) (ys1 ++ ys2) u c =
  (fst (mac_by_limb xs1 ys1 u c) ++ fst (mac_by_limb xs2 ys2 u (snd (mac_by_limb xs1 ys1 u c))),
   snd (mac_by_limb xs2 ys2 u (snd (mac_by_limb xs1 ys1 u c)))).
Proof.
  induction xs1 as [|x xs1 IH]; intros ys1 xs2 ys2 c Hl.
  - destruct ys1; [|discriminate]. cbn. destruct (mac_by_limb xs2 ys2 u c); reflexivity.
  - destruct ys1 as [|y ys1]; [discriminate|]. cbn [app mac_by_limb]. destruct (mac x y u c) as [v cy].
    rewrite IH by (cbn in Hl; lia). destruct (mac_by_limb xs1 ys1 u cy) as [r1 c1]. cbn [fst snd].
    destruct (mac_by_limb xs2 ys2 u c1) as [r2 c2]. reflexivity.
Qed.

(* ---------------- the body of the outer loop as a function of the row index *)
Definition out_step (m : list Z) (k : Z) (i : nat) (s : list Z * list Z * Z * Z) : list Z * list Z * Z * Z :=
  let lower := fst (fst (fst s)) in let upper := snd (fst (fst s)) in let meta := snd s in
  let n := length m in
  let u := g_limb_wrapping_mul (nth i lower 0) k in
  let c0 := snd (g_limb_mac (nth i lower 0) u (nth 0 m 0) 0) in
  let r1 := fold_left (fun s j => row_step m u (fun j => add_ 64 (Z.of_nat i) j) j s) (seq 1 (n - i - 1)) (0, c0, lower) in
  let r2 := fold_left (fun s j => row_step m u (fun j => sub_ 64 (add_ 64 (Z.of_nat i) j) (Z.of_nat n)) j s) (seq (n - i) i)
              (fst (fst r1), snd (fst r1), upper) in
  let a := g_limb_adc (nth i (snd r2) 0) (snd (fst r2)) meta in
  (snd r1, upd_ (snd r2) i (fst a), fst a, snd a).

Lemma inner_body m u (idx : Z -> Z) (F : Z * Z * Z * list Z -> Z * Z * Z * list Z) :
  (forall j nl c buf, F (j, nl, c, buf) =
     let '(t0, t1) := g_limb_mac (nth (Z.to_nat (idx j)) buf 0) u (nth (Z.to_nat j) m 0) c in
     (add_ 64 j 1, t0, t1, upd_ buf (Z.to_nat (idx j)) t0)) ->
  forall j s, 0 <= j < 2 ^ 64 - 1 -> F (enc4 j s) = enc4 (add_ 64 j 1) (row_step m u idx (Z.to_nat j) s).
Proof.
  intros HF j [[nl c] buf] Hj. unfold enc4, row_step. cbn [fst snd]. rewrite HF. rewrite Z2Nat.id by lia.
  destruct (g_limb_mac _ _ _ _) as [t0 t1]. reflexivity.
Qed.

Lemma g_mred_inner_loops upper lower m k : Z.of_nat (length m) < 2 ^ 64 ->
  g_montgomery_reduction_inner upper lower m k =
  let r := fold_left (fun s i => out_step m k i s) (seq 0 (length m)) (lower, upper, 0, 0) in
  (snd r, snd (fst (fst r)), fst (fst (fst r))).
Proof.
  intros Hn. unfold g_montgomery_reduction_inner. cbv zeta. rewrite Z.sub_0_r, Nat2Z.id.
  match goal with |- context [Nat.iter (length m) ?F (0, lower, upper, 0, 0)] =>
    change (Nat.iter (length m) F (0, lower, upper, 0, 0)) with (Nat.iter (length m) F (enc5 0 (lower, upper, 0, 0)));
    rewrite (iter_enc_lt F enc5 (out_step m k) (length m)) end.
  - unfold enc5. destruct (fold_left _ _ _) as [[[lo up] ns] meta]. reflexivity.
  - intros i [[[lo up] ns] meta] Hi.
    remember (Z.to_nat i) as i' eqn:Ei. assert (Hi' : i = Z.of_nat i') by lia. subst i. clear Ei.
    unfold enc5 at 1. cbn [fst snd]. rewrite !Nat2Z.id. change (Z.to_nat 0) with 0%nat.
    unfold out_step. cbn [fst snd]. cbv zeta.
    set (u := g_limb_wrapping_mul (nth i' lo 0) k).
    destruct (g_limb_mac (nth i' lo 0) u (nth 0 m 0) 0) as [x0 c0]. cbn [snd].
    assert (E1 : Z.to_nat (sub_ 64 (Z.of_nat (length m)) (Z.of_nat i') - 1) = (length m - i' - 1)%nat).
    { unfold sub_. rewrite Z.mod_small by lia. lia. }
    rewrite E1.
    match goal with |- context [Nat.iter (length m - i' - 1) ?F1 (1, 0, c0, lo)] =>
      change (Nat.iter (length m - i' - 1) F1 (1, 0, c0, lo)) with (Nat.iter (length m - i' - 1) F1 (enc4 (Z.of_nat 1) (0, c0, lo)));
      rewrite (iter_enc_from F1 enc4 (row_step m u (fun j => add_ 64 (Z.of_nat i') j))
                 (inner_body m u (fun j => add_ 64 (Z.of_nat i') j) F1 ltac:(intros; reflexivity)) 1 (length m - i' - 1) (0, c0, lo) ltac:(lia)) end.
    replace (1 + (length m - i' - 1))%nat with (length m - i')%nat by lia.
    destruct (fold_left _ (seq 1 (length m - i' - 1)) (0, c0, lo)) as [[nl1 c1] lo1].
    unfold enc4 at 1. cbn [fst snd].
    assert (E2 : Z.to_nat (Z.of_nat (length m) - Z.of_nat (length m - i')) = i') by lia.
    rewrite E2.
    match goal with |- context [Nat.iter i' ?F2 (Z.of_nat (length m - i'), nl1, c1, up)] =>
      change (Nat.iter i' F2 (Z.of_nat (length m - i'), nl1, c1, up)) with (Nat.iter i' F2 (enc4 (Z.of_nat (length m - i')) (nl1, c1, up)));
      rewrite (iter_enc_from F2 enc4 (row_step m u (fun j => sub_ 64 (add_ 64 (Z.of_nat i') j) (Z.of_nat (length m))))
                 (inner_body m u (fun j => sub_ 64 (add_ 64 (Z.of_nat i') j) (Z.of_nat (length m))) F2 ltac:(intros; reflexivity))
                 (length m - i') i' (nl1, c1, up) ltac:(lia)) end.
    destruct (fold_left _ (seq (length m - i') i') (nl1, c1, up)) as [[nl2 c2] up2].
    unfold enc4, enc5. cbn [fst snd].
    destruct (g_limb_adc (nth i' up2 0) c2 meta) as [t0 t1]. reflexivity.
  - exact Hn.
Qed.

(* ---------------- one row against one unfolding of [mred_rows] *)
Lemma mac_by_limb_parts xs ys u c : wf xs -> wf ys -> length xs = length ys -> is_word u -> is_word c ->
  wf (fst (mac_by_limb xs ys u c)) /\ length (fst (mac_by_limb xs ys u c)) = length xs /\ is_word (snd (mac_by_limb xs ys u c)).
Proof.
  intros Wx Wy Hl Hu Hc. destruct (mac_by_limb xs ys u c) as [r co] eqn:E.
  destruct (mac_by_limb_correct xs ys u c r co Wx Wy Hl Hu Hc E) as (_ & W & L & C). auto.
Qed.

Lemma out_step_sim k cnt lpre x0 xs1 xs2 w upost m0 ys1 ys2 ns meta :
  let i := length lpre in let m := m0 :: ys1 ++ ys2 in
  length xs1 = length ys1 -> length xs2 = i -> length ys2 = i -> length upost = length ys1 ->
  2 * Z.of_nat (length m) < 2 ^ 64 ->
  wf lpre -> is_word x0 -> wf xs1 -> wf xs2 -> is_word w -> wf upost -> wf m -> is_word k -> is_word meta ->
  let r := out_step m k i (lpre ++ x0 :: xs1, xs2 ++ w :: upost, ns, meta) in
  let lo' := fst (fst (fst r)) in let up' := snd (fst (fst r)) in
  length lo' = length m /\ length up' = length m /\ wf lo' /\ wf up' /\ is_word (snd r) /\
  mred_rows (S cnt) (skipn i ((lpre ++ x0 :: xs1) ++ xs2 ++ w :: upost)) m k meta
  = mred_rows cnt (skipn (S i) (lo' ++ up')) m k (snd r).
Proof.
  intros i m L1 L2 L3 L4 Hn Wlp Wx0 Wx1 Wx2 Ww Wup Wm Wk Wmeta.
  assert (Lm : length m = S (length ys1 + i)) by (unfold m; cbn [length]; rewrite app_length; lia).
  apply wf_cons in Wm. destruct Wm as [Wm0 Wys]. apply wf_app in Wys. destruct Wys as [Wy1 Wy2].
  cbv zeta. unfold out_step. cbn [fst snd].
  assert (N0 : nth i (lpre ++ x0 :: xs1) 0 = x0) by apply nth_middle.
  rewrite N0. rewrite g_limb_wrapping_mul_eq. set (u := wmul x0 k).
  assert (Wu : is_word u) by apply is_word_wmul.
  change (nth 0 m 0) with m0. rewrite (g_limb_mac_eq x0 u m0 0 Wx0 Wu Wm0 is_word_0'), mac_comm.
  destruct (mac x0 m0 u 0) as [v0 c0] eqn:E0.
  destruct (mac_exact x0 m0 u 0 v0 c0 Wx0 Wm0 Wu is_word_0' E0) as (_ & Wv0 & Wc0). cbn [snd].
  (* first chain: lower[i + j], j = 1 .. n - i - 1 *)
  replace (length m - i - 1)%nat with (length ys1) by lia.
  pose proof (row_fold u (fun j => add_ 64 (Z.of_nat i) j) Wu ys1 xs1 (lpre ++ [x0]) [] [m0] ys2 0 c0 L1 Wx1 Wy1 Wc0) as R1.
  cbv zeta in R1. cbn [length] in R1.
  replace ((lpre ++ [x0]) ++ xs1 ++ []) with (lpre ++ x0 :: xs1) in R1 by (rewrite app_nil_r, <- app_assoc; reflexivity).
  change ([m0] ++ ys1 ++ ys2) with m in R1.
  destruct R1 as [R1c R1b].
  { intros j Hj. unfold add_. rewrite app_length. cbn [length]. rewrite Z.mod_small by lia. lia. }
  destruct (mac_by_limb_parts xs1 ys1 u c0 Wx1 Wy1 L1 Wu Wc0) as (Wr1 & Lr1 & Wc1).
  set (F1 := fold_left _ (seq 1 (length ys1)) (0, c0, lpre ++ x0 :: xs1)) in *.
  rewrite R1c, R1b. set (r1 := fst (mac_by_limb xs1 ys1 u c0)) in *. set (c1 := snd (mac_by_limb xs1 ys1 u c0)) in *.
  (* second chain: upper[i + j - n], j = n - i .. n - 1 *)
  replace (length m - i)%nat with (length (m0 :: ys1)) by (cbn [length]; lia).
  pose proof (row_fold u (fun j => sub_ 64 (add_ 64 (Z.of_nat i) j) (Z.of_nat (length m))) Wu ys2 xs2 [] (w :: upost) (m0 :: ys1) []
                (fst (fst F1)) c1 ltac:(lia) Wx2 Wy2 Wc1) as R2.
  cbv zeta in R2. rewrite app_nil_r in R2. change ((m0 :: ys1) ++ ys2) with m in R2. cbn [app] in R2.
  rewrite L3 in R2. destruct R2 as [R2c R2b].
  { intros j Hj. cbn [length]. unfold sub_, add_. rewrite (Z.mod_small (Z.of_nat i + _)) by lia. rewrite Z.mod_small by lia. lia. }
  destruct (mac_by_limb_parts xs2 ys2 u c1 Wx2 Wy2 ltac:(lia) Wu Wc1) as (Wr2 & Lr2 & Wc2).
  set (F2 := fold_left _ (seq (length (m0 :: ys1)) i) (fst (fst F1), c1, xs2 ++ w :: upost)) in *.
  rewrite R2c, R2b. set (r2 := fst (mac_by_limb xs2 ys2 u c1)) in *. set (c2 := snd (mac_by_limb xs2 ys2 u c1)) in *.
  (* the meta-carry addition at upper[i] *)
  assert (Nw : nth i (r2 ++ w :: upost) 0 = w) by (rewrite <- L2, <- Lr2; apply nth_middle).
  rewrite Nw. rewrite (g_limb_adc_eq w c2 meta Ww Wc2 Wmeta).
  destruct (adc w c2 meta) as [s meta1] eqn:Ea.
  destruct (adc_exact w c2 meta s meta1 Ww Wc2 Wmeta Ea) as (_ & Ws & Hm1). cbn [fst snd].
  assert (U : upd_ (r2 ++ w :: upost) i s = r2 ++ s :: upost) by (rewrite <- L2, <- Lr2; apply GenLoopP.upd_mid).
  rewrite U.
  assert (Wmeta1 : is_word meta1) by (unfold is_word; change B with (2 ^ 64); lia).
  refine (conj _ (conj _ (conj _ (conj _ (conj _ _))))).
  - rewrite !app_length. cbn [length]. fold r1. rewrite Lr1. lia.
  - rewrite app_length. cbn [length]. lia.
  - rewrite app_nil_r. apply wf_app. split; [|exact Wr1]. apply wf_app. split; [assumption|]. apply wf_cons. split; [assumption | apply wf_nil].
  - apply wf_app. split; [assumption|]. apply wf_cons. split; assumption.
  - exact Wmeta1.
  - (* the model row *)
    assert (S0 : skipn i ((lpre ++ x0 :: xs1) ++ xs2 ++ w :: upost) = (x0 :: xs1 ++ xs2) ++ w :: upost).
    { unfold i. rewrite <- !app_assoc. rewrite skipn_app, skipn_all, Nat.sub_diag. cbn [skipn app]. rewrite <- app_assoc. reflexivity. }
    assert (S1 : skipn (S i) (((lpre ++ [x0]) ++ r1 ++ []) ++ r2 ++ s :: upost) = (r1 ++ r2) ++ s :: upost).
    { rewrite app_nil_r. rewrite <- !app_assoc.
      replace (S i) with (length (lpre ++ [x0])) by (unfold i; rewrite app_length; cbn; lia).
      rewrite (app_assoc lpre [x0]). rewrite skipn_app, skipn_all, Nat.sub_diag. cbn [skipn app]. reflexivity. }
    rewrite S0, S1. cbn [mred_rows].
    assert (LF : length (x0 :: xs1 ++ xs2) = length m) by (cbn [length]; rewrite app_length; lia).
    rewrite <- LF. rewrite firstn_app, firstn_all, Nat.sub_diag, skipn_app, skipn_all, Nat.sub_diag.
    cbn [firstn skipn app hd tl]. rewrite app_nil_r. fold u.
    unfold m at 1. cbn [mac_by_limb]. rewrite E0.
    rewrite (mac_by_limb_app u xs1 ys1 xs2 ys2 c0 L1). fold r1 c1 r2 c2. cbn [tl]. rewrite Ea. reflexivity.
Qed.

Lemma split_nth (l : list Z) i : (i < length l)%nat -> l = firstn i l ++ nth i l 0 :: skipn (S i) l.
Proof.
  revert i. induction l as [|x l IH]; intros i Hi; [cbn in Hi; lia|]. destruct i as [|i]; [reflexivity|].
  cbn [firstn nth skipn app]. f_equal. apply IH. cbn in Hi. lia.
Qed.

Lemma rows_sim m k : wf m -> is_word k -> 2 * Z.of_nat (length m) < 2 ^ 64 ->
  forall cnt i lower upper ns meta, (i + cnt = length m)%nat ->
  length lower = length m -> length upper = length m -> wf lower -> wf upper -> is_word meta ->
  let r := fold_left (fun s i => out_step m k i s) (seq i cnt) (lower, upper, ns, meta) in
  length (fst (fst (fst r))) = length m /\ length (snd (fst (fst r))) = length m /\ wf (snd (fst (fst r))) /\ is_word (snd r) /\
  mred_rows cnt (skipn i (lower ++ upper)) m k meta = (skipn (length m) (fst (fst (fst r)) ++ snd (fst (fst r))), snd r).
Proof.
  intros Wm Wk Hn. induction cnt as [|c IH]; intros i lower upper ns meta Hi Ll Lu Wl Wu Wmeta.
  - cbn [seq fold_left mred_rows fst snd]. replace i with (length m) by lia. auto 6.
  - cbn [seq fold_left]. cbv zeta.
    (* decompose the buffers and the modulus around row i *)
    assert (Hil : (i < length lower)%nat) by lia. assert (Hiu : (i < length upper)%nat) by lia.
    pose proof (split_nth lower i Hil) as El. pose proof (split_nth upper i Hiu) as Eu.
    destruct m as [|m0 ms] eqn:Em; [cbn in Hi; lia|]. rewrite <- Em in *.
    set (lpre := firstn i lower) in *. set (x0 := nth i lower 0) in *. set (xs1 := skipn (S i) lower) in *.
    set (xs2 := firstn i upper) in *. set (w := nth i upper 0) in *. set (upost := skipn (S i) upper) in *.
    set (ys1 := firstn (length m - i - 1) ms). set (ys2 := skipn (length m - i - 1) ms).
    assert (Ems : m = m0 :: ys1 ++ ys2) by (rewrite Em; unfold ys1, ys2; rewrite firstn_skipn; reflexivity).
    assert (Lms : length ms = (length m - 1)%nat) by (rewrite Em; cbn [length]; lia).
    assert (Llp : length lpre = i) by (unfold lpre; rewrite firstn_length; lia).
    assert (Lx1 : length xs1 = (length m - i - 1)%nat) by (unfold xs1; rewrite skipn_length; lia).
    assert (Lx2 : length xs2 = i) by (unfold xs2; rewrite firstn_length; lia).
    assert (Lup : length upost = (length m - i - 1)%nat) by (unfold upost; rewrite skipn_length; lia).
    assert (Ly1 : length ys1 = (length m - i - 1)%nat) by (unfold ys1; rewrite firstn_length; lia).
    assert (Ly2 : length ys2 = i) by (unfold ys2; rewrite skipn_length; lia).
    assert (Wl' : wf (lpre ++ x0 :: xs1)) by (rewrite <- El; exact Wl).
    assert (Wu' : wf (xs2 ++ w :: upost)) by (rewrite <- Eu; exact Wu).
    apply wf_app in Wl'. destruct Wl' as [Wlp Wl']. apply wf_cons in Wl'. destruct Wl' as [Wx0 Wx1].
    apply wf_app in Wu'. destruct Wu' as [Wx2 Wu']. apply wf_cons in Wu'. destruct Wu' as [Ww Wup].
    pose proof (out_step_sim k c lpre x0 xs1 xs2 w upost m0 ys1 ys2 ns meta) as S.
    cbv zeta in S. rewrite Llp, <- Ems, <- El, <- Eu in S.
    specialize (S ltac:(lia) Lx2 Ly2 ltac:(lia) Hn Wlp Wx0 Wx1 Wx2 Ww Wup Wm Wk Wmeta).
    destruct (out_step m k i (lower, upper, ns, meta)) as [[[lo1 up1] ns1] meta1]. cbn [fst snd] in S.
    destruct S as (L1 & L2 & W1 & W2 & Wm1 & ES).
    rewrite ES. apply IH; try assumption. lia.
Qed.

(* ---------------- the two routines *)
Lemma g_montgomery_reduction_inner_eq lower upper m k :
  length lower = length m -> length upper = length m -> 2 * Z.of_nat (length m) < 2 ^ 64 ->
  wf lower -> wf upper -> wf m -> is_word k ->
  let r := g_montgomery_reduction_inner upper lower m k in
  (snd (fst r), fst (fst r)) = montgomery_reduction_inner lower upper m k.
Proof.
  intros Ll Lu Hn Wl Wu Wm Wk. cbv zeta. rewrite g_mred_inner_loops by lia. cbv zeta. cbn [fst snd].
  unfold montgomery_reduction_inner.
  pose proof (rows_sim m k Wm Wk Hn (length m) 0%nat lower upper 0 0 ltac:(lia) Ll Lu Wl Wu is_word_0') as R.
  cbv zeta in R. destruct R as (L & _ & _ & _ & R). cbn [skipn] in R. rewrite R.
  destruct (fold_left _ _ _) as [[[lo up] ns] meta]. cbn [fst snd] in *.
  rewrite skipn_app, <- L, skipn_all, Nat.sub_diag. reflexivity.
Qed.

Lemma g_montgomery_reduction_inner_parts lower upper m k :
  length lower = length m -> length upper = length m -> 2 * Z.of_nat (length m) < 2 ^ 64 ->
  wf lower -> wf upper -> wf m -> is_word k ->
  let r := g_montgomery_reduction_inner upper lower m k in
  wf (snd (fst r)) /\ length (snd (fst r)) = length m /\ is_word (fst (fst r)).
Proof.
  intros Ll Lu Hn Wl Wu Wm Wk. cbv zeta. rewrite g_mred_inner_loops by lia. cbv zeta. cbn [fst snd].
  pose proof (rows_sim m k Wm Wk Hn (length m) 0%nat lower upper 0 0 ltac:(lia) Ll Lu Wl Wu is_word_0') as R.
  cbv zeta in R. tauto.
Qed.

Lemma g_montgomery_reduction_eq n lower upper m k :
  length lower = n -> length upper = n -> length m = n -> 2 * Z.of_nat n < 2 ^ 64 -> (1 <= n)%nat ->
  wf lower -> wf upper -> wf m -> is_word k ->
  g_montgomery_reduction n (lower, upper) m k = montgomery_reduction lower upper m k.
Proof.
  intros Ll Lu Lm Hn H1 Wl Wu Wm Wk. unfold g_montgomery_reduction, montgomery_reduction.
  pose proof (g_montgomery_reduction_inner_eq lower upper m k ltac:(lia) ltac:(lia) ltac:(lia) Wl Wu Wm Wk) as E.
  pose proof (g_montgomery_reduction_inner_parts lower upper m k ltac:(lia) ltac:(lia) ltac:(lia) Wl Wu Wm Wk) as P.
  cbv zeta in E, P. destruct (g_montgomery_reduction_inner upper lower m k) as [[meta up] lo]. cbn [fst snd] in E, P.
  rewrite <- E. destruct P as (Wup & Lup & Wmeta).
  apply g_uint_sub_mod_with_carry_eq; try assumption; try lia.
  unfold usz. lia.
Qed.

(* ---------------- composition with the correctness theorem of the model *)
Lemma g_montgomery_reduction_correct n lower upper m k :
  length lower = n -> length upper = n -> length m = n -> 2 * Z.of_nat n < 2 ^ 64 -> (1 <= n)%nat ->
  wf lower -> wf upper -> wf m -> is_word k -> (hd 0 m * k + 1) mod B = 0 ->
  eval lower + Bn n * eval upper < eval m * Bn n ->
  let r := g_montgomery_reduction n (lower, upper) m k in
  wf r /\ length r = n /\ 0 <= eval r < eval m /\
  (eval r * Bn n) mod eval m = (eval lower + Bn n * eval upper) mod eval m.
Proof.
  intros Ll Lu Lm Hn H1 Wl Wu Wm Wk Hk HT. cbv zeta.
  rewrite (g_montgomery_reduction_eq n lower upper m k) by assumption.
  subst n. rewrite <- Lm in *.
  apply (mont_red_correct lower upper m k); try assumption; lia.
Qed.
