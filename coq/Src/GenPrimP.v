(** Translator tie, group Prim: every function of src/primitives.rs and every ConstChoice function of src/const_choice.rs
    that the models use, as regenerated from /repo's CURRENT source by tools/rs2v.py (Src/GenPrim.v), equals the
    hand-written model function of Model/Word.v / Model/Bits.v for all arguments of the Rust type. *)
From CB Require Import Model.SrcPrelude Model.Word Model.Bits Src.GenPrim.
From Coq Require Import Lia.
Open Scope Z_scope.

Local Lemma p64 : 2 ^ 64 = B. Proof. reflexivity. Qed.
Local Lemma p128 : 2 ^ 128 = B * B. Proof. reflexivity. Qed.
Local Lemma Bpos : 0 < B. Proof. reflexivity. Qed.
Local Lemma small a : 0 <= a < B -> a mod B = a. Proof. intros; apply Z.mod_small; lia. Qed.
Local Lemma small2 a : 0 <= a < B * B -> a mod (B * B) = a. Proof. intros; apply Z.mod_small; lia. Qed.
Local Lemma div_lt a : 0 <= a < B * B -> 0 <= a / B < B.
Proof. intros [H0 H1]. pose proof Bpos. split; [apply Z.div_pos; lia | apply Z.div_lt_upper_bound; lia]. Qed.
Local Lemma mul_words a b : is_word a -> is_word b -> 0 <= a * b <= (B - 1) * (B - 1).
Proof. unfold is_word. intros. split; [apply Z.mul_nonneg_nonneg; lia | apply Z.mul_le_mono_nonneg; lia]. Qed.

(* ---------------- src/primitives.rs *)
Lemma g_mulhilo_eq x y : is_word x -> is_word y -> g_mulhilo x y = mulhilo x y.
Proof.
  intros Hx Hy. unfold g_mulhilo, mulhilo, mul_, trunc_, shr_. rewrite p64, p128.
  pose proof (mul_words x y Hx Hy). pose proof Bpos.
  rewrite small2 by nia. rewrite (small (x * y / B)) by (apply div_lt; nia). reflexivity.
Qed.

Lemma g_mul_wide_eq x y : is_word x -> is_word y -> g_mul_wide x y = mul_wide x y.
Proof.
  intros Hx Hy. unfold g_mul_wide, mul_wide, mul_, trunc_, shr_. rewrite p64, p128.
  pose proof (mul_words x y Hx Hy). pose proof Bpos.
  rewrite small2 by nia. rewrite (small (x * y / B)) by (apply div_lt; nia). reflexivity.
Qed.

Lemma g_adc_eq a b c : is_word a -> is_word b -> is_word c -> g_adc a b c = adc a b c.
Proof.
  unfold is_word. intros Ha Hb Hc. unfold g_adc, adc, add_, trunc_, shr_. rewrite p64, p128. pose proof Bpos.
  assert (B >= 4) by (vm_compute; discriminate).
  rewrite (small2 (a + b)) by nia. rewrite (small2 (a + b + c)) by nia.
  rewrite (small ((a + b + c) / B)) by (apply div_lt; nia). reflexivity.
Qed.

Lemma g_overflowing_add_eq a b : is_word a -> is_word b -> g_overflowing_add a b = overflowing_add a b.
Proof.
  unfold is_word. intros Ha Hb. unfold g_overflowing_add, overflowing_add, oadd_. rewrite p64. pose proof Bpos.
  f_equal. destruct (B <=? a + b) eqn:E; unfold SrcPrelude.b2z.
  - apply Z.leb_le in E. apply (Z.div_unique (a + b) B 1 (a + b - B)); lia.
  - apply Z.leb_gt in E. symmetry. apply Z.div_small; lia.
Qed.

Lemma g_sbb_eq a b c : is_word a -> is_word b -> is_word c -> g_sbb a b c = sbb a b c.
Proof.
  unfold is_word. intros Ha Hb Hc. unfold g_sbb, sbb, wrap2, BB, sub_, add_, trunc_, shr_.
  change ((64 - 1) mod 2 ^ 32) with 63. rewrite p64, p128. pose proof Bpos.
  assert (B >= 4) by (vm_compute; discriminate).
  assert (Hbw : 0 <= c / 2 ^ 63 <= 1).
  { split; [apply Z.div_pos; lia|]. apply Z.lt_succ_r. apply Z.div_lt_upper_bound; [lia|]. change (2 ^ 63 * Z.succ 1) with B. lia. }
  rewrite (small2 (b + c / 2 ^ 63)) by nia.
  set (r := (a - (b + c / 2 ^ 63)) mod (B * B)).
  assert (0 <= r < B * B) by (apply Z.mod_pos_bound; nia).
  rewrite (small (r / B)) by (apply div_lt; lia). reflexivity.
Qed.

Lemma lor_hi_lo hi lo : is_word hi -> is_word lo -> Z.lor ((hi * 2 ^ 64) mod 2 ^ 128) lo = hi * B + lo.
Proof.
  unfold is_word. intros Hh Hl. rewrite p128, p64. pose proof Bpos. rewrite small2 by nia.
  rewrite <- p64. rewrite <- Z.shiftl_mul_pow2 by lia.
  rewrite <- Z.lxor_lor, <- Z.add_nocarry_lxor; try reflexivity.
  all: apply Z.bits_inj'; intros n Hn; rewrite Z.land_spec, Z.bits_0;
    destruct (Z_lt_ge_dec n 64) as [Hlt|Hge];
    [rewrite Z.shiftl_spec_low by lia; reflexivity|
     rewrite (Z.bits_above_log2 lo n), Bool.andb_false_r; [reflexivity|lia|];
     destruct (Z.eq_dec lo 0) as [->|Hnz]; [simpl; lia|];
     apply Z.log2_lt_pow2; [lia|]; apply Z.lt_le_trans with (2 ^ 64); [rewrite p64; lia|apply Z.pow_le_mono_r; lia]].
Qed.

Lemma g_addhilo_eq xh xl yh yl : is_word xh -> is_word xl -> is_word yh -> is_word yl ->
  g_addhilo xh xl yh yl = addhilo xh xl yh yl.
Proof.
  intros H1 H2 H3 H4. unfold g_addhilo, addhilo, wrap2, BB, add_, shl_, trunc_, shr_.
  rewrite !lor_hi_lo by assumption. rewrite p64, p128. pose proof Bpos.
  set (r := (xh * B + xl + (yh * B + yl)) mod (B * B)).
  assert (0 <= r < B * B) by (apply Z.mod_pos_bound; nia).
  rewrite (small (r / B)) by (apply div_lt; lia). reflexivity.
Qed.

Lemma g_mac_eq a b c carry : is_word a -> is_word b -> is_word c -> is_word carry -> g_mac a b c carry = mac a b c carry.
Proof.
  intros Ha Hb Hc Hk. unfold g_mac, mac, wadd, wrap, add_, mul_, oadd_, trunc_, shr_. rewrite p64, p128.
  pose proof (mul_words b c Hb Hc). unfold is_word in *. pose proof Bpos.
  rewrite (small2 (b * c)) by nia. rewrite (small2 (a + b * c)) by nia.
  set (ret := a + b * c). assert (0 <= ret < B * B) by (unfold ret; nia).
  rewrite (small (ret / B)) by (apply div_lt; lia).
  assert (Hlo : 0 <= ret mod B < B) by (apply Z.mod_pos_bound; lia).
  f_equal. f_equal. f_equal.
  destruct (B <=? ret mod B + carry) eqn:E; unfold SrcPrelude.b2z.
  - apply Z.leb_le in E. apply (Z.div_unique _ B 1 (ret mod B + carry - B)); lia.
  - apply Z.leb_gt in E. symmetry. apply Z.div_small; lia.
Qed.

(* ---------------- src/const_choice.rs : the generated text IS the model text (same formula, same wrapping) *)
Lemma g_cc_from_word_lsb_eq v : g_cc_from_word_lsb v = from_word_lsb v. Proof. reflexivity. Qed.
Lemma g_cc_from_word_msb_eq v : g_cc_from_word_msb v = from_word_msb v. Proof. reflexivity. Qed.
Lemma g_cc_from_word_nonzero_eq v : g_cc_from_word_nonzero v = from_word_nonzero v. Proof. reflexivity. Qed.
Lemma g_cc_from_word_eq_eq x y : g_cc_from_word_eq x y = from_word_eq x y. Proof. reflexivity. Qed.
Lemma g_cc_from_word_lt_eq x y : g_cc_from_word_lt x y = from_word_lt x y. Proof. reflexivity. Qed.
Lemma g_cc_from_word_gt_eq x y : g_cc_from_word_gt x y = from_word_gt x y. Proof. reflexivity. Qed.
Lemma g_cc_from_word_le_eq x y : g_cc_from_word_le x y = from_word_le x y. Proof. reflexivity. Qed.
Lemma g_cc_select_word_eq c a b : g_cc_select_word c a b = select_word c a b. Proof. reflexivity. Qed.
Lemma g_cc_if_true_word_eq c x : g_cc_if_true_word c x = if_true_word c x. Proof. reflexivity. Qed.
Lemma g_cc_not_eq c : g_cc_not c = wnot c. Proof. reflexivity. Qed.
Lemma g_cc_from_u32_lsb_eq v : g_cc_from_u32_lsb v = from_u32_lsb v. Proof. reflexivity. Qed.
Lemma g_cc_from_u32_nonzero_eq v : g_cc_from_u32_nonzero v = from_u32_nonzero v. Proof. reflexivity. Qed.
Lemma g_cc_from_u32_eq_eq x y : g_cc_from_u32_eq x y = from_u32_eq x y. Proof. reflexivity. Qed.
Lemma g_cc_from_u32_lt_eq x y : g_cc_from_u32_lt x y = from_u32_lt x y. Proof. reflexivity. Qed.
Lemma g_cc_as_u32_mask_eq c : g_cc_as_u32_mask c = as_u32_mask c. Proof. reflexivity. Qed.
Lemma g_cc_if_true_u32_eq c x : g_cc_if_true_u32 c x = if_true_u32 c x. Proof. reflexivity. Qed.
Lemma g_cc_or_eq a b : g_cc_or a b = wor a b. Proof. reflexivity. Qed.
Lemma g_cc_and_eq a b : g_cc_and a b = choice_and a b. Proof. reflexivity. Qed.

(* ---------------- forms that the models use only through their meaning: specification of the generated text *)
From CB Require Import Src.GenWidthP.

Lemma g_cc_from_u32_le_spec x y : 0 <= x < 2 ^ 32 -> 0 <= y < 2 ^ 32 ->
  g_cc_from_u32_le x y = choice_of_bool (x <=? y).
Proof.
  intros Hx Hy. unfold g_cc_from_u32_le. change (sub_ 32 32 1) with (32 - 1).
  rewrite (le_bit 32 ltac:(lia) x y Hx Hy). destruct (x <=? y); reflexivity.
Qed.

Lemma g_cc_from_wide_word_le_spec x y : 0 <= x < 2 ^ 128 -> 0 <= y < 2 ^ 128 ->
  g_cc_from_wide_word_le x y = choice_of_bool (x <=? y).
Proof.
  intros Hx Hy. unfold g_cc_from_wide_word_le. change (sub_ 32 128 1) with (128 - 1).
  rewrite (le_bit 128 ltac:(lia) x y Hx Hy). destruct (x <=? y); reflexivity.
Qed.

Lemma g_cc_select_wide_word_spec (c : bool) a b : 0 <= a < 2 ^ 128 -> 0 <= b < 2 ^ 128 ->
  g_cc_select_wide_word (choice_of_bool c) a b = if c then b else a.
Proof.
  intros Ha Hb. unfold g_cc_select_wide_word. destruct c.
  - change (Z.lor (shl_ 128 (choice_of_bool true) 64) (choice_of_bool true)) with (2 ^ 128 - 1).
    apply (select_ones 128 ltac:(lia) a b Ha Hb).
  - change (Z.lor (shl_ 128 (choice_of_bool false) 64) (choice_of_bool false)) with 0. apply select_0.
Qed.

Lemma g_cc_select_u32_spec (c : bool) a b : 0 <= a < 2 ^ 32 -> 0 <= b < 2 ^ 32 ->
  g_cc_select_u32 (choice_of_bool c) a b = if c then b else a.
Proof.
  intros Ha Hb. unfold g_cc_select_u32. destruct c.
  - change (g_cc_as_u32_mask (choice_of_bool true)) with (2 ^ 32 - 1). apply (select_ones 32 ltac:(lia) a b Ha Hb).
  - change (g_cc_as_u32_mask (choice_of_bool false)) with 0. apply select_0.
Qed.

Lemma g_cc_to_bool_vartime_spec (c : bool) : g_cc_to_bool_vartime (choice_of_bool c) = c.
Proof. destruct c; reflexivity. Qed.
Lemma g_cc_is_true_vartime_spec (c : bool) : g_cc_is_true_vartime (choice_of_bool c) = c.
Proof. destruct c; reflexivity. Qed.

(* ---------------- composition with the exactness lemmas of the models *)
From CB Require Import Proofs.WordP Proofs.WordPredP.
Lemma g_adc_exact a b c r co : is_word a -> is_word b -> is_word c -> g_adc a b c = (r, co) ->
  r + B * co = a + b + c /\ is_word r /\ 0 <= co <= 2.
Proof. intros Ha Hb Hc E. rewrite g_adc_eq in E by assumption. exact (adc_exact a b c r co Ha Hb Hc E). Qed.
Lemma g_sbb_exact a b bw r bo : is_word a -> is_word b -> is_word bw -> g_sbb a b bw = (r, bo) ->
  is_word r /\ ((bo = 0 /\ a - b - bin bw = r) \/ (bo = MAXW /\ a - b - bin bw = r - B)).
Proof. intros Ha Hb Hc E. rewrite g_sbb_eq in E by assumption. exact (sbb_exact a b bw r bo Ha Hb Hc E). Qed.
Lemma g_mac_exact a b c k lo hi : is_word a -> is_word b -> is_word c -> is_word k ->
  g_mac a b c k = (lo, hi) -> lo + B * hi = a + b * c + k /\ is_word lo /\ is_word hi.
Proof. intros Ha Hb Hc Hk E. rewrite g_mac_eq in E by assumption. exact (mac_exact a b c k lo hi Ha Hb Hc Hk E). Qed.
Lemma g_lt_spec x y : is_word x -> is_word y -> g_cc_from_word_lt x y = choice_of_bool (x <? y).
Proof. intros. rewrite g_cc_from_word_lt_eq. apply from_word_lt_spec; assumption. Qed.
Lemma g_gt_spec x y : is_word x -> is_word y -> g_cc_from_word_gt x y = choice_of_bool (y <? x).
Proof. intros. rewrite g_cc_from_word_gt_eq. apply from_word_gt_spec; assumption. Qed.
Lemma g_le_spec x y : is_word x -> is_word y -> g_cc_from_word_le x y = choice_of_bool (x <=? y).
Proof. intros. rewrite g_cc_from_word_le_eq. apply from_word_le_spec; assumption. Qed.
Lemma g_eq_spec x y : is_word x -> is_word y -> g_cc_from_word_eq x y = choice_of_bool (x =? y).
Proof. intros. rewrite g_cc_from_word_eq_eq. apply from_word_eq_spec; assumption. Qed.
Lemma g_nonzero_spec x : is_word x -> g_cc_from_word_nonzero x = choice_of_bool (negb (x =? 0)).
Proof. intros. rewrite g_cc_from_word_nonzero_eq. apply from_word_nonzero_spec; assumption. Qed.
Lemma g_select_spec (c : bool) a b : is_word a -> is_word b -> g_cc_select_word (choice_of_bool c) a b = if c then b else a.
Proof. intros. rewrite g_cc_select_word_eq. apply select_word_choice; assumption. Qed.
