(** C12, translator tie: the const wrapper constructors of /repo's CURRENT src/uint.rs / src/int.rs (Src/GenWrap.v,
    regenerated on every run): `Uint::to_nz`, `Uint::to_odd`, `Int::to_nz`, `Int::to_odd` return a ConstCtOption that is
    `some` exactly when the value is non-zero / odd, and the wrapped value is the argument itself.
    Statements only; proofs in Src/GenWrapP.v. *)
From CB Require Import Model.SrcPrelude Model.Word Model.Limbs Model.AddSub Model.Cmp Model.Wrappers.
From CB Require Import Src.GenPrim Src.GenUint Src.GenUintP Src.GenShift Src.GenWrap Src.GenWrapP.
From CB Require Import Proofs.WordP Proofs.LimbsP Proofs.CmpP.
From Coq Require Import ZArith List Lia.
Import ListNotations.
Open Scope Z_scope.

(** generated function = the gate of the model (Model/Wrappers.v) *)
Theorem C12_src_uint_to_nz_model : forall n a, length a = n -> usz n -> cct_outcome (g_uint_to_nz n a) = nz_to_nz_uint a.
Proof. exact g_uint_to_nz_model. Qed.
Print Assumptions C12_src_uint_to_nz_model.
Theorem C12_src_uint_to_odd_model : forall n a, cct_outcome (g_uint_to_odd n a) = wodd_to_odd a.
Proof. exact g_uint_to_odd_model. Qed.
Print Assumptions C12_src_uint_to_odd_model.
Theorem C12_src_int_to_nz_model : forall n a, length a = n -> usz n -> cct_outcome (g_int_to_nz n a) = nz_to_nz_uint a.
Proof. intros. rewrite g_int_to_nz_eq by assumption. reflexivity. Qed.
Print Assumptions C12_src_int_to_nz_model.
Theorem C12_src_int_to_odd_model : forall n a, cct_outcome (g_int_to_odd n a) = wodd_to_odd a.
Proof. intros. rewrite g_int_to_odd_eq. reflexivity. Qed.
Print Assumptions C12_src_int_to_odd_model.

(** is_some <-> the value is non-zero; the wrapped value is the argument: a NonZero obtained from the SOURCE text of to_nz
    is never zero *)
Theorem C12_src_nonzero_new_valid : forall n a, length a = n -> usz n -> wf a ->
  fst (g_uint_to_nz n a) = a /\ (cc_true (snd (g_uint_to_nz n a)) = true <-> eval a <> 0).
Proof.
  intros n a Ha U W. destruct (g_uint_to_nz_spec n a Ha U W) as [E1 E2]. split; [exact E1|].
  rewrite E2, cc_true_bool. destruct (Z.eqb_spec (eval a) 0); cbn; split; intros; try congruence; try discriminate; reflexivity.
Qed.
Print Assumptions C12_src_nonzero_new_valid.
Theorem C12_src_nonzero_flag_is_choice : forall n a, length a = n -> usz n -> wf a ->
  snd (g_uint_to_nz n a) = choice_of_bool (negb (eval a =? 0)).
Proof. intros n a Ha U W. exact (proj2 (g_uint_to_nz_spec n a Ha U W)). Qed.
Print Assumptions C12_src_nonzero_flag_is_choice.
(** is_some <-> the value is odd (hence non-zero) *)
Theorem C12_src_odd_new_valid : forall n a, wf a ->
  fst (g_uint_to_odd n a) = a /\ (cc_true (snd (g_uint_to_odd n a)) = true <-> Z.odd (eval a) = true) /\
  (cc_true (snd (g_uint_to_odd n a)) = true -> eval a <> 0).
Proof.
  intros n a W. destruct (g_uint_to_odd_spec n a W) as [E1 E2]. split; [exact E1|].
  rewrite E2, cc_true_bool. split; [reflexivity|]. intros Ho E0. rewrite E0 in Ho. discriminate.
Qed.
Print Assumptions C12_src_odd_new_valid.
Theorem C12_src_odd_flag_is_choice : forall n a, wf a -> snd (g_uint_to_odd n a) = choice_of_bool (Z.odd (eval a)).
Proof. intros n a W. exact (proj2 (g_uint_to_odd_spec n a W)). Qed.
Print Assumptions C12_src_odd_flag_is_choice.
(** the Int forms gate on the same bits (two's complement: non-zero / odd do not depend on the sign reading) *)
Theorem C12_src_int_forms : forall n a, length a = n -> usz n ->
  g_int_to_nz n a = g_uint_to_nz n a /\ g_int_to_odd n a = g_uint_to_odd n a.
Proof. intros. split; reflexivity. Qed.
Print Assumptions C12_src_int_forms.

Example C12_src_runs :
  g_uint_to_nz 3 [0; 0; 7] = ([0; 0; 7], 2 ^ 64 - 1) /\ g_uint_to_nz 3 [0; 0; 0] = ([0; 0; 0], 0) /\
  g_uint_to_odd 3 [9; 0; 7] = ([9; 0; 7], 2 ^ 64 - 1) /\ g_uint_to_odd 3 [8; 1; 7] = ([8; 1; 7], 0) /\
  g_int_to_nz 2 [0; 2 ^ 63] = ([0; 2 ^ 63], 2 ^ 64 - 1) /\ g_int_to_odd 2 [2 ^ 64 - 1; 2 ^ 64 - 1] = ([2 ^ 64 - 1; 2 ^ 64 - 1], 2 ^ 64 - 1).
Proof. vm_compute. repeat split. Qed.
