(** C12, translator tie: the const wrapper constructors of /repo's CURRENT src/uint.rs / src/int.rs (Src/GenWrap.v,
    regenerated on every run): `Uint::to_nz`, `Uint::to_odd`, `Int::to_nz`, `Int::to_odd` return a ConstCtOption that is
    `some` exactly when the value is non-zero / odd, and the wrapped value is the argument itself.
    Statements only; proofs in Src/GenWrapP.v. *)
From CB Require Import Model.SrcPrelude Model.Word Model.Limbs Model.AddSub Model.Cmp Model.Wrappers.
From CB Require Import Src.GenPrim Src.GenUint Src.GenUintP Src.GenShift Src.GenWrap Src.GenWrapP.
From CB Require Import Proofs.WordP Proofs.LimbsP Proofs.CmpP.
From Coq Require Import ZArith List Lia.
Import ListNotations.
Open Scope Z_scope.

(** generated function = the gate of the model (Model/Wrappers.v) *)
Theorem C12_src_uint_to_nz_model : forall n a, length a = n -> usz n -> cct_outcome (g_uint_to_nz n a) = nz_to_nz_uint a.
Proof. exact g_uint_to_nz_model. Qed.
Print Assumptions C12_src_uint_to_nz_model.
Theorem C12_src_uint_to_odd_model : forall n a, cct_outcome (g_uint_to_odd n a) = wodd_to_odd a.
Proof. exact g_uint_to_odd_model. Qed.
Print Assumptions C12_src_uint_to_odd_model.
Theorem C12_src_int_to_nz_model : forall n a, length a = n -> usz n -> cct_outcome (g_int_to_nz n a) = nz_to_nz_uint a.
Proof. intros. rewrite g_int_to_nz_eq by assumption. reflexivity. Qed.
Print Assumptions C12_src_int_to_nz_model.
Theorem C12_src_int_to_odd_model : forall n a, cct_outcome (g_int_to_odd n a) = wodd_to_odd a.
Proof. intros. rewrite g_int_to_odd_eq. reflexivity. Qed.
Print Assumptions C12_src_int_to_odd_model.

(** is_some <-> the value is non-zero; the wrapped value is the argument: a NonZero obtained from the SOURCE text of to_nz
    is never zero *)
Theorem C12_src_nonzero_new_valid : forall n a, length a = n -> usz n -> wf a ->
  fst (g_uint_to_nz n a) = a /\ (cc_true (snd (g_uint_to_nz n a)) = true <-> eval a <> 0).
Proof.
  intros n a Ha U W. destruct (g_uint_to_nz_spec n a Ha U W) as [E1 E2]. split; [exact E1|].
  rewrite E2, cc_true_bool. destruct (Z.eqb_spec (eval a) 0); cbn; split; intros; try congruence; try discriminate; reflexivity.
Qed.
Print Assumptions C12_src_nonzero_new_valid.
Theorem C12_src_nonzero_flag_is_choice : forall n a, length a = n -> usz n -> wf a ->
  snd (g_uint_to_nz n a) = choice_of_bool (negb (eval a =? 0)).
Proof. intros n a Ha U W. exact (proj2 (g_uint_to_nz_spec n a Ha U W)). Qed.
Print Assumptions C12_src_nonzero_flag_is_choice.
(** is_some <-> the value is odd (hence non-zero) *)
Theorem C12_src_odd_new_valid : forall n a, wf a ->
  fst (g_uint_to_odd n a) = a /\ (cc_true (snd (g_uint_to_odd n a)) = true <-> Z.odd (eval a) = true) /\
  (cc_true (snd (g_uint_to_odd n a)) = true -> eval a <> 0).
Proof.
  intros n a W. destruct (g_uint_to_odd_spec n a W) as [E1 E2]. split; [exact E1|].
  rewrite E2, cc_true_bool. split; [reflexivity|]. intros Ho E0. rewrite E0 in Ho. discriminate.
Qed.
Print Assumptions C12_src_odd_new_valid.
Theorem C12_src_odd_flag_is_choice : forall n a, wf a -> snd (g_uint_to_odd n a) = choice_of_bool (Z.odd (eval a)).
Proof. intros n a W. exact (proj2 (g_uint_to_odd_spec n a W)). Qed.
Print Assumptions C12_src_odd_flag_is_choice.
(** the Int forms gate on the same bits (two's complement: non-zero / odd do not depend on the sign reading) *)
Theorem C12_src_int_forms : forall n a, length a = n -> usz n ->
  g_int_to_nz n a = g_uint_to_nz n a /\ g_int_to_odd n a = g_uint_to_odd n a.
Proof. intros. split; reflexivity. Qed.
Print Assumptions C12_src_int_forms.

Example C12_src_runs :
  g_uint_to_nz 3 [0; 0; 7] = ([0; 0; 7], 2 ^ 64 - 1) /\ g_uint_to_nz 3 [0; 0; 0] = ([0; 0; 0], 0) /\
  g_uint_to_odd 3 [9; 0; 7] = ([9; 0; 7], 2 ^ 64 - 1) /\ g_uint_to_odd 3 [8; 1; 7] = ([8; 1; 7], 0) /\
  g_int_to_nz 2 [0; 2 ^ 63] = ([0; 2 ^ 63], 2 ^ 64 - 1) /\ g_int_to_odd 2 [2 ^ 64 - 1; 2 ^ 64 - 1] = ([2 ^ 64 - 1; 2 ^ 64 - 1], 2 ^ 64 - 1).
Proof. vm_compute. repeat split. Qed.

(* ================= Odd::<Uint<LIMBS>>::from_be_hex / from_le_hex (src/odd.rs; Src/GenWrap.v, proofs in Src/GenWrapP.v) ================= *)
From CB Require Import Model.Conv Src.GenHex Src.GenConv Src.GenConvP.
From CB Require Import Proofs.ConvDigitsP Proofs.ConvHexP.
Import ListNotations.

(** the source text of the Odd hex constructors is the model: it returns (the decoded limbs) exactly when the two assertions the
    translator drops hold -- the error word of the hex loop is zero and `uint.is_odd().is_true_vartime()` -- and panics otherwise;
    for every limb count and every string of the asserted length 16 n (which fits a usize) *)
Theorem C12_src_odd_from_be_hex_model : forall n cs, wfd 256 cs -> length cs = (16 * n)%nat -> Z.of_nat (16 * n) < 2 ^ 64 ->
  odd_from_be_hex n cs =
  if (g_be_hex_err n cs =? 0) && cc_true (g_uint_is_odd n (g_odd_uint_from_be_hex n cs))
  then Val [g_odd_uint_from_be_hex n cs] else PanicV.
Proof. intros n cs W L HB. apply g_odd_uint_from_be_hex_model; assumption. Qed.
Print Assumptions C12_src_odd_from_be_hex_model.

Theorem C12_src_odd_from_le_hex_model : forall n cs, wfd 256 cs -> length cs = (16 * n)%nat -> Z.of_nat (16 * n) < 2 ^ 64 ->
  odd_from_le_hex n cs =
  if (g_le_hex_err n cs =? 0) && cc_true (g_uint_is_odd n (g_odd_uint_from_le_hex n cs))
  then Val [g_odd_uint_from_le_hex n cs] else PanicV.
Proof. intros n cs W L HB. apply g_odd_uint_from_le_hex_model; assumption. Qed.
Print Assumptions C12_src_odd_from_le_hex_model.

(** the decoded value is the big- / little-endian value of the hex string, and the odd assertion of the source holds iff it is odd *)
Theorem C12_src_odd_from_be_hex : forall n cs ds, wfd 256 cs -> length cs = (16 * n)%nat -> Z.of_nat (16 * n) < 2 ^ 64 ->
  hexvals cs = Some ds ->
  g_be_hex_err n cs = 0 /\
  wf (g_odd_uint_from_be_hex n cs) /\ length (g_odd_uint_from_be_hex n cs) = n /\
  eval (g_odd_uint_from_be_hex n cs) = evalb 16 (rev ds) /\
  cc_true (g_uint_is_odd n (g_odd_uint_from_be_hex n cs)) = Z.odd (evalb 16 (rev ds)).
Proof.
  intros n cs ds W L HB Hd. pose proof (from_be_hex_spec n cs W) as S. rewrite (g_uint_from_be_hex_eq n cs L HB W) in S.
  rewrite g_odd_uint_from_be_hex_eq.
  destruct (Z.eqb_spec (g_be_hex_err n cs) 0) as [E|E].
  - destruct S as (_ & ds' & Hd' & H1 & H2 & H3). rewrite Hd in Hd'. injection Hd' as <-.
    repeat split; try assumption. rewrite g_is_odd_flag by assumption. rewrite H3. reflexivity.
  - destruct S as (_ & Hn). rewrite Hd in Hn. discriminate.
Qed.
Print Assumptions C12_src_odd_from_be_hex.

Theorem C12_src_odd_from_le_hex : forall n cs ds, wfd 256 cs -> length cs = (16 * n)%nat -> Z.of_nat (16 * n) < 2 ^ 64 ->
  hexvals cs = Some ds ->
  g_le_hex_err n cs = 0 /\
  wf (g_odd_uint_from_le_hex n cs) /\ length (g_odd_uint_from_le_hex n cs) = n /\
  eval (g_odd_uint_from_le_hex n cs) = evalb 256 (nib_pairs ds) /\
  cc_true (g_uint_is_odd n (g_odd_uint_from_le_hex n cs)) = Z.odd (evalb 256 (nib_pairs ds)).
Proof.
  intros n cs ds W L HB Hd. pose proof (from_le_hex_spec n cs W) as S. rewrite (g_uint_from_le_hex_eq n cs L HB W) in S.
  rewrite g_odd_uint_from_le_hex_eq.
  destruct (Z.eqb_spec (g_le_hex_err n cs) 0) as [E|E].
  - destruct S as (_ & ds' & Hd' & H1 & H2 & H3). rewrite Hd in Hd'. injection Hd' as <-.
    repeat split; try assumption. rewrite g_is_odd_flag by assumption. rewrite H3. reflexivity.
  - destruct S as (_ & Hn). rewrite Hd in Hn. discriminate.
Qed.
Print Assumptions C12_src_odd_from_le_hex.

(** a character that is not a hex digit makes the asserted error word non-zero: the constructor panics *)
Theorem C12_src_odd_from_hex_rejects : forall n cs, wfd 256 cs -> length cs = (16 * n)%nat -> Z.of_nat (16 * n) < 2 ^ 64 ->
  hexvals cs = None -> g_be_hex_err n cs <> 0 /\ g_le_hex_err n cs <> 0 /\ odd_from_be_hex n cs = PanicV /\ odd_from_le_hex n cs = PanicV.
Proof.
  intros n cs W L HB Hn.
  pose proof (proj1 (g_be_hex_err_iff n cs W L HB)) as Hb. pose proof (proj1 (g_le_hex_err_iff n cs W L HB)) as Hl.
  assert (Eb : g_be_hex_err n cs <> 0) by (intros E; apply Hb in E; destruct E as [ds E]; rewrite E in Hn; discriminate).
  assert (El : g_le_hex_err n cs <> 0) by (intros E; apply Hl in E; destruct E as [ds E]; rewrite E in Hn; discriminate).
  split; [exact Eb|]. split; [exact El|].
  rewrite g_odd_uint_from_be_hex_model, g_odd_uint_from_le_hex_model by assumption.
  destruct (Z.eqb_spec (g_be_hex_err n cs) 0); [contradiction|]. destruct (Z.eqb_spec (g_le_hex_err n cs) 0); [contradiction|]. split; reflexivity.
Qed.
Print Assumptions C12_src_odd_from_hex_rejects.

(** non-vacuity: an odd and an even 2-limb string in either byte order *)
Example C12_src_odd_hex_runs :
  g_odd_uint_from_be_hex 2 [48; 48; 48; 48; 48; 48; 48; 48; 48; 48; 48; 48; 48; 48; 102; 102; 48; 49; 50; 51; 52; 53; 54; 55; 56; 57; 97; 98; 99; 68; 69; 70] = [81985529216486895; 255] /\
  cc_true (g_uint_is_odd 2 (g_odd_uint_from_be_hex 2 [48; 48; 48; 48; 48; 48; 48; 48; 48; 48; 48; 48; 48; 48; 102; 102; 48; 49; 50; 51; 52; 53; 54; 55; 56; 57; 97; 98; 99; 68; 69; 70])) = true /\
  cc_true (g_uint_is_odd 2 (g_odd_uint_from_be_hex 2 [48; 48; 48; 48; 48; 48; 48; 48; 48; 48; 48; 48; 48; 48; 102; 102; 48; 49; 50; 51; 52; 53; 54; 55; 56; 57; 97; 98; 99; 68; 69; 69])) = false /\
  g_odd_uint_from_le_hex 2 [69; 70; 48; 48; 48; 48; 48; 48; 48; 48; 48; 48; 48; 48; 48; 48; 102; 102; 48; 48; 48; 48; 48; 48; 48; 48; 48; 48; 48; 48; 48; 48] = [239; 255] /\
  cc_true (g_uint_is_odd 2 (g_odd_uint_from_le_hex 2 [69; 70; 48; 48; 48; 48; 48; 48; 48; 48; 48; 48; 48; 48; 48; 48; 102; 102; 48; 48; 48; 48; 48; 48; 48; 48; 48; 48; 48; 48; 48; 48])) = true /\
  odd_from_be_hex 2 [48; 48; 48; 48; 48; 48; 48; 48; 48; 48; 48; 48; 48; 48; 102; 102; 48; 49; 50; 51; 52; 53; 54; 55; 56; 57; 97; 98; 99; 68; 69; 70] = Val [g_odd_uint_from_be_hex 2 [48; 48; 48; 48; 48; 48; 48; 48; 48; 48; 48; 48; 48; 48; 102; 102; 48; 49; 50; 51; 52; 53; 54; 55; 56; 57; 97; 98; 99; 68; 69; 70]] /\ odd_from_be_hex 2 [48; 48; 48; 48; 48; 48; 48; 48; 48; 48; 48; 48; 48; 48; 102; 102; 48; 49; 50; 51; 52; 53; 54; 55; 56; 57; 97; 98; 99; 68; 69; 69] = PanicV.
Proof. vm_compute. repeat split. Qed.
