(** Translator tie, group Logic: the limb-wise bitwise operators Uint::bitand / bitor / not of src/uint/bit_and.rs,
    bit_or.rs, bit_not.rs (bitxor is in the Int group, Src/GenIntP.v) (and the Limb methods they call) as regenerated from /repo's CURRENT source
    (Src/GenLogic.v) equal the models limbs_and / limbs_or / limbs_xor / limbs_not of Model/Bits.v for every limb count that
    is a usize; with the model theorems of Proofs/BitsP.v the represented integers are Z.land / Z.lor / Z.lxor / the
    complement. *)
From CB Require Import Model.SrcPrelude Model.Word Model.Limbs Model.Bits.
From CB Require Import Src.GenPrim Src.GenMod Src.GenShift Src.GenLogic Src.GenUint Src.GenWidthP Src.GenPrimP Src.GenLoopP Src.GenUintP.
From Coq Require Import Lia List ZArith.
Import ListNotations.
Open Scope Z_scope.
Transparent B.

Lemma g_uint_bitand_eq n a b : length a = n -> length b = n -> usz n -> g_uint_bitand n a b = limbs_and a b.
Proof.
  intros Ha Hb Hn. unfold g_uint_bitand, limbs_and.
  rewrite (iter_idx _ (fun j (out : list Z) => upd_ out j (g_limb_bitand (nth j a 0) (nth j b 0))))
    by (first [exact Hn | intros i s Hi; reflexivity]).
  subst n. rewrite (loop_map2 g_limb_bitand a b) by congruence. reflexivity.
Qed.

Lemma g_uint_bitor_eq n a b : length a = n -> length b = n -> usz n -> g_uint_bitor n a b = limbs_or a b.
Proof.
  intros Ha Hb Hn. unfold g_uint_bitor, limbs_or.
  rewrite (iter_idx _ (fun j (out : list Z) => upd_ out j (g_limb_bitor (nth j a 0) (nth j b 0))))
    by (first [exact Hn | intros i s Hi; reflexivity]).
  subst n. rewrite (loop_map2 g_limb_bitor a b) by congruence. reflexivity.
Qed.

Lemma g_limb_not_wnot x : g_limb_not x = wnot x.
Proof. unfold g_limb_not, not_, wnot, MAXW, B. reflexivity. Qed.

Lemma g_uint_not_eq n a : length a = n -> usz n -> g_uint_not n a = limbs_not a.
Proof.
  intros Ha Hn. unfold g_uint_not, limbs_not.
  rewrite (iter_idx _ (fun j (out : list Z) => upd_ out j (g_limb_not (nth j a 0))))
    by (first [exact Hn | intros i s Hi; reflexivity]).
  subst n. rewrite (loop_map1 g_limb_not a). apply map_ext. exact g_limb_not_wnot.
Qed.

(* -------- exactness of the generated code (model theorems of Proofs/BitQueryP.v carried across the equalities) *)
From CB Require Import Proofs.BitQueryP.
Lemma g_uint_bitand_exact n a b : wf a -> wf b -> length a = n -> length b = n -> usz n ->
  wf (g_uint_bitand n a b) /\ length (g_uint_bitand n a b) = n /\ eval (g_uint_bitand n a b) = Z.land (eval a) (eval b).
Proof. intros Wa Wb Ha Hb Hn. rewrite g_uint_bitand_eq by assumption. subst n. apply limbs_and_correct; [assumption|assumption|symmetry; assumption]. Qed.
Lemma g_uint_bitor_exact n a b : wf a -> wf b -> length a = n -> length b = n -> usz n ->
  wf (g_uint_bitor n a b) /\ length (g_uint_bitor n a b) = n /\ eval (g_uint_bitor n a b) = Z.lor (eval a) (eval b).
Proof. intros Wa Wb Ha Hb Hn. rewrite g_uint_bitor_eq by assumption. subst n. apply limbs_or_correct; [assumption|assumption|symmetry; assumption]. Qed.
Lemma g_uint_not_exact n a : wf a -> length a = n -> usz n ->
  wf (g_uint_not n a) /\ length (g_uint_not n a) = n /\ eval (g_uint_not n a) = Bn n - 1 - eval a.
Proof. intros Wa Ha Hn. rewrite g_uint_not_eq by assumption. subst n. apply limbs_not_correct; assumption. Qed.
