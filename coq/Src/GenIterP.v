(** Generic facts (second part, after GenLoopP.v) about the loops tools/rs2v.py emits: a counted loop
    `let mut i = 0; while i < N { ..; i += 1 }` over ANY tuple state (the counter is the first variable of the state, the
    other variables follow in the order of their first assignment), loops over slices (`N = x.len()`), writes into one of
    two buffers (`if k >= lo.len() { hi[k - lo.len()] = v } else { lo[k] = v }`) read as a write into lo ++ hi.
    Hand-written; depends on SrcPrelude only. *)
From CB Require Import Model.SrcPrelude.
From Coq Require Import Lia List.
Import ListNotations.
Open Scope Z_scope.

(* ---- the counter: k iterations from 0 visit the indices 0 .. k-1 in order (k < 2^64: `i` is a usize);
        [enc i s] is the loop state (i, x1, .., xn) for the tuple s of the other variables *)
Lemma iter_enc {T St} (F : T -> T) (enc : Z -> St -> T) (step : nat -> St -> St) :
  (forall i s, 0 <= i < 2 ^ 64 - 1 -> F (enc i s) = enc (add_ 64 i 1) (step (Z.to_nat i) s)) ->
  forall k s0, Z.of_nat k < 2 ^ 64 ->
  Nat.iter k F (enc 0 s0) = enc (Z.of_nat k) (fold_left (fun s j => step j s) (seq 0 k) s0).
Proof.
  intros HF k s0. induction k as [|k IH]; intros Hk; [reflexivity|].
  change (Nat.iter (S k) F (enc 0 s0)) with (F (Nat.iter k F (enc 0 s0))).
  rewrite IH by lia. rewrite HF by lia. rewrite Nat2Z.id.
  rewrite seq_S, fold_left_app. cbn [fold_left Nat.add]. f_equal.
  unfold add_. rewrite Z.mod_small by lia. lia.
Qed.

(* a loop that starts at i0 <= k (e.g. `let mut i = 1`) and is emitted as Nat.iter (k - i0) *)
Lemma iter_enc_from {T St} (F : T -> T) (enc : Z -> St -> T) (step : nat -> St -> St) :
  (forall i s, 0 <= i < 2 ^ 64 - 1 -> F (enc i s) = enc (add_ 64 i 1) (step (Z.to_nat i) s)) ->
  forall i0 d s0, Z.of_nat (i0 + d) < 2 ^ 64 ->
  Nat.iter d F (enc (Z.of_nat i0) s0) = enc (Z.of_nat (i0 + d)) (fold_left (fun s j => step j s) (seq i0 d) s0).
Proof.
  intros HF i0 d s0. induction d as [|d IH]; intros Hk; [rewrite Nat.add_0_r; reflexivity|].
  change (Nat.iter (S d) F (enc (Z.of_nat i0) s0)) with (F (Nat.iter d F (enc (Z.of_nat i0) s0))).
  rewrite IH by lia. rewrite HF by lia. rewrite Nat2Z.id.
  rewrite seq_S, fold_left_app. cbn [fold_left]. f_equal.
  unfold add_. rewrite Z.mod_small by lia. lia.
Qed.

(* the tuple shapes *)
Definition enc2 {A} (i : Z) (s : A) : Z * A := (i, s).
Definition enc3 {A B} (i : Z) (s : A * B) : Z * A * B := (i, fst s, snd s).
Definition enc4 {A B C} (i : Z) (s : A * B * C) : Z * A * B * C := (i, fst (fst s), snd (fst s), snd s).

(* ---- a simulation between two folds over the same index list *)
Lemma fold_sim {S T} (R : S -> T -> Prop) (P : nat -> Prop) (f : S -> nat -> S) (g : T -> nat -> T) :
  (forall j s t, P j -> R s t -> R (f s j) (g t j)) ->
  forall l s t, (forall j, In j l -> P j) -> R s t -> R (fold_left f l s) (fold_left g l t).
Proof.
  intros H l. induction l as [|j l IH]; intros s t Hl Hr; [exact Hr|]. cbn [fold_left].
  apply IH; [intros; apply Hl; right; assumption|]. apply H; [apply Hl; left; reflexivity | exact Hr].
Qed.

(* ---- upd_ *)
Lemma upd_length (l : list Z) k v : (k < length l)%nat -> length (upd_ l k v) = length l.
Proof.
  intros H. unfold upd_. rewrite app_length. cbn [length]. rewrite firstn_length, skipn_length. lia.
Qed.
Lemma upd_app1 (a b : list Z) k v : (k < length a)%nat -> upd_ (a ++ b) k v = upd_ a k v ++ b.
Proof.
  intros H. unfold upd_. rewrite firstn_app, skipn_app.
  replace (k - length a)%nat with 0%nat by lia. replace (S k - length a)%nat with 0%nat by lia.
  cbn [firstn skipn]. rewrite app_nil_r, <- app_assoc. reflexivity.
Qed.
Lemma upd_app2 (a b : list Z) k v : (length a <= k)%nat -> upd_ (a ++ b) k v = a ++ upd_ b (k - length a) v.
Proof.
  intros H. unfold upd_. rewrite firstn_app, skipn_app.
  rewrite (firstn_all2 a) by lia. rewrite (skipn_all2 a) by lia.
  replace (S k - length a)%nat with (S (k - length a)) by lia. rewrite <- app_assoc. reflexivity.
Qed.
Lemma upd_Forall (P : Z -> Prop) (l : list Z) k v : Forall P l -> P v -> Forall P (upd_ l k v).
Proof.
  intros Hl Hv. unfold upd_.
  assert (Hf : Forall P (firstn k l)) by (rewrite <- (firstn_skipn k l) in Hl; apply Forall_app in Hl; tauto).
  assert (Hs : Forall P (skipn (S k) l)) by (rewrite <- (firstn_skipn (S k) l) in Hl; apply Forall_app in Hl; tauto).
  apply Forall_app. split; [exact Hf|]. constructor; assumption.
Qed.

(* ---- `if k >= lo.len() { hi[k - lo.len()] = v } else { lo[k] = v }` is `(lo ++ hi)[k] = v`, and the read likewise *)
Lemma split_write (lo hi : list Z) (k : nat) v : Z.of_nat k < 2 ^ 64 -> (k < length lo + length hi)%nat ->
  let r := if Z.geb (Z.of_nat k) (Z.of_nat (length lo))
           then (upd_ hi (Z.to_nat (sub_ 64 (Z.of_nat k) (Z.of_nat (length lo)))) v, lo)
           else (hi, upd_ lo (Z.to_nat (Z.of_nat k)) v) in
  snd r ++ fst r = upd_ (lo ++ hi) k v /\ length (snd r) = length lo /\ length (fst r) = length hi.
Proof.
  intros Hk Hb. cbv zeta. rewrite Z.geb_leb. destruct (Z.leb_spec (Z.of_nat (length lo)) (Z.of_nat k)) as [H|H]; cbn [fst snd].
  - unfold sub_. rewrite Z.mod_small by lia. rewrite <- Nat2Z.inj_sub by lia. rewrite Nat2Z.id.
    rewrite upd_app2 by lia. rewrite upd_length by lia. auto.
  - rewrite Nat2Z.id. rewrite upd_app1 by lia. rewrite upd_length by lia. auto.
Qed.
Lemma split_read (lo hi : list Z) (k : nat) : Z.of_nat k < 2 ^ 64 ->
  (if Z.geb (Z.of_nat k) (Z.of_nat (length lo))
   then nth (Z.to_nat (sub_ 64 (Z.of_nat k) (Z.of_nat (length lo)))) hi 0
   else nth (Z.to_nat (Z.of_nat k)) lo 0) = nth k (lo ++ hi) 0.
Proof.
  intros Hk. rewrite Z.geb_leb. destruct (Z.leb_spec (Z.of_nat (length lo)) (Z.of_nat k)) as [H|H].
  - unfold sub_. rewrite Z.mod_small by lia. rewrite <- Nat2Z.inj_sub by lia. rewrite Nat2Z.id.
    rewrite app_nth2 by lia. reflexivity.
  - rewrite Nat2Z.id. rewrite app_nth1 by lia. reflexivity.
Qed.

(* ---- `let mut i = k; while i > 0 { i -= 1; .. }` : Nat.iter k from (k, s0) visits k-1, .., 0 *)
Lemma iter_shift {T} (F : T -> T) k x : Nat.iter (S k) F x = Nat.iter k F (F x).
Proof. induction k as [|k IH]; [reflexivity|]. change (Nat.iter (S (S k)) F x) with (F (Nat.iter (S k) F x)). rewrite IH. reflexivity. Qed.
Lemma iter_enc_down {T St} (F : T -> T) (enc : Z -> St -> T) (step : nat -> St -> St) :
  (forall i s, 0 < i < 2 ^ 64 -> F (enc i s) = enc (sub_ 64 i 1) (step (Z.to_nat (sub_ 64 i 1)) s)) ->
  forall k s0, Z.of_nat k < 2 ^ 64 ->
  Nat.iter k F (enc (Z.of_nat k) s0) = enc 0 (fold_left (fun s j => step j s) (rev (seq 0 k)) s0).
Proof.
  intros HF k. induction k as [|k IH]; intros s0 Hk; [reflexivity|].
  rewrite iter_shift. rewrite HF by lia.
  assert (E : sub_ 64 (Z.of_nat (S k)) 1 = Z.of_nat k) by (unfold sub_; rewrite Z.mod_small by lia; lia).
  rewrite E, Nat2Z.id. rewrite IH by lia.
  rewrite seq_S, rev_app_distr. reflexivity.
Qed.

(* ---- the `<` form: `if k < lo.len() { lo[k] .. } else { hi[k - lo.len()] .. }` *)
Lemma split_write_lt (lo hi : list Z) (k : nat) v : Z.of_nat k < 2 ^ 64 -> (k < length lo + length hi)%nat ->
  let r := if Z.ltb (Z.of_nat k) (Z.of_nat (length lo))
           then (upd_ lo (Z.to_nat (Z.of_nat k)) v, hi)
           else (lo, upd_ hi (Z.to_nat (sub_ 64 (Z.of_nat k) (Z.of_nat (length lo)))) v) in
  fst r ++ snd r = upd_ (lo ++ hi) k v /\ length (fst r) = length lo /\ length (snd r) = length hi.
Proof.
  intros Hk Hb. cbv zeta. destruct (Z.ltb_spec (Z.of_nat k) (Z.of_nat (length lo))) as [H|H]; cbn [fst snd].
  - rewrite Nat2Z.id. rewrite upd_app1 by lia. rewrite upd_length by lia. auto.
  - unfold sub_. rewrite Z.mod_small by lia. rewrite <- Nat2Z.inj_sub by lia. rewrite Nat2Z.id.
    rewrite upd_app2 by lia. rewrite upd_length by lia. auto.
Qed.
(* read-modify-write of one limb with a carry: (lo, carry, hi) state *)
Lemma split_rmw_lt (G : Z -> Z * Z) (lo hi : list Z) (k : nat) : Z.of_nat k < 2 ^ 64 -> (k < length lo + length hi)%nat ->
  let r := if Z.ltb (Z.of_nat k) (Z.of_nat (length lo))
           then (let '(t0, t1) := G (nth (Z.to_nat (Z.of_nat k)) lo 0) in (upd_ lo (Z.to_nat (Z.of_nat k)) t0, t1, hi))
           else (let '(t0, t1) := G (nth (Z.to_nat (sub_ 64 (Z.of_nat k) (Z.of_nat (length lo)))) hi 0) in
                 (lo, t1, upd_ hi (Z.to_nat (sub_ 64 (Z.of_nat k) (Z.of_nat (length lo)))) t0)) in
  let m := G (nth k (lo ++ hi) 0) in
  fst (fst r) ++ snd r = upd_ (lo ++ hi) k (fst m) /\ snd (fst r) = snd m /\
  length (fst (fst r)) = length lo /\ length (snd r) = length hi.
Proof.
  intros Hk Hb. cbv zeta. destruct (Z.ltb_spec (Z.of_nat k) (Z.of_nat (length lo))) as [H|H].
  - rewrite Nat2Z.id. rewrite app_nth1 by lia. destruct (G (nth k lo 0)) as [t0 t1]. cbn [fst snd].
    rewrite upd_app1 by lia. rewrite upd_length by lia. auto.
  - unfold sub_. rewrite Z.mod_small by lia. rewrite <- Nat2Z.inj_sub by lia. rewrite Nat2Z.id.
    rewrite app_nth2 by lia. destruct (G (nth (k - length lo) hi 0)) as [t0 t1]. cbn [fst snd].
    rewrite upd_app2 by lia. rewrite upd_length by lia. auto.
Qed.

(* ---- a loop that fills out[j] = g j for consecutive j *)
Lemma fold_fill (g : nat -> Z) : forall l o1 o2, (length l <= length o2)%nat ->
  (forall k, (k < length l)%nat -> g (length o1 + k)%nat = nth k l 0) ->
  fold_left (fun (o : list Z) j => upd_ o j (g j)) (seq (length o1) (length l)) (o1 ++ o2) = o1 ++ l ++ skipn (length l) o2.
Proof.
  induction l as [|x l IH]; intros o1 o2 Hl Hg; [reflexivity|].
  destruct o2 as [|y o2]; [cbn in Hl; lia|]. cbn [length seq fold_left skipn].
  pose proof (Hg 0%nat ltac:(cbn; lia)) as H0. rewrite Nat.add_0_r in H0. cbn [nth] in H0. rewrite H0.
  assert (U : upd_ (o1 ++ y :: o2) (length o1) x = (o1 ++ [x]) ++ o2).
  { unfold upd_. rewrite firstn_app, firstn_all, Nat.sub_diag. cbn [firstn]. rewrite app_nil_r.
    replace (o1 ++ y :: o2) with ((o1 ++ [y]) ++ o2) by (rewrite <- app_assoc; reflexivity).
    replace (S (length o1)) with (length (o1 ++ [y])) by (rewrite app_length; cbn; lia).
    rewrite skipn_app, skipn_all, Nat.sub_diag. cbn [skipn app]. rewrite <- app_assoc. reflexivity. }
  rewrite U. replace (S (length o1)) with (length (o1 ++ [x])) by (rewrite app_length; cbn; lia).
  rewrite IH.
  - rewrite <- app_assoc. reflexivity.
  - cbn in Hl. lia.
  - intros k Hk. rewrite app_length. cbn [length]. replace (length o1 + 1 + k)%nat with (length o1 + S k)%nat by lia.
    rewrite Hg by (cbn; lia). reflexivity.
Qed.

(* ---- in place with an accumulator, upward: s[j], acc = f(s[j], acc) *)
Fixpoint mapacc_ (f : Z -> Z -> Z * Z) (a : list Z) (c : Z) : list Z * Z :=
  match a with
  | x :: a' => (fst (f x c) :: fst (mapacc_ f a' (snd (f x c))), snd (mapacc_ f a' (snd (f x c))))
  | [] => ([], c)
  end.
Lemma loop_inplace_acc (f : Z -> Z -> Z * Z) : forall l pre post c,
  fold_left (fun (s : list Z * Z) j => (upd_ (fst s) j (fst (f (nth j (fst s) 0) (snd s))), snd (f (nth j (fst s) 0) (snd s))))
    (seq (length pre) (length l)) (pre ++ l ++ post, c)
  = (pre ++ fst (mapacc_ f l c) ++ post, snd (mapacc_ f l c)).
Proof.
  induction l as [|x l IH]; intros pre post c; [reflexivity|].
  cbn [length seq fold_left mapacc_ fst snd app]. rewrite nth_middle.
  assert (U : forall v, upd_ (pre ++ x :: l ++ post) (length pre) v = (pre ++ [v]) ++ l ++ post).
  { intros v. unfold upd_. rewrite firstn_app, firstn_all, Nat.sub_diag. cbn [firstn]. rewrite app_nil_r.
    replace (pre ++ x :: l ++ post) with ((pre ++ [x]) ++ l ++ post) by (rewrite <- app_assoc; reflexivity).
    replace (S (length pre)) with (length (pre ++ [x])) by (rewrite app_length; cbn; lia).
    rewrite skipn_app, skipn_all, Nat.sub_diag. cbn [skipn app]. rewrite <- app_assoc. reflexivity. }
  rewrite U. replace (S (length pre)) with (length (pre ++ [fst (f x c)])) by (rewrite app_length; cbn; lia).
  rewrite IH. rewrite <- app_assoc. reflexivity.
Qed.

(* ---- in place with an accumulator, downward (the carry enters at the top) *)
Fixpoint downacc_ (f : Z -> Z -> Z * Z) (a : list Z) (c0 : Z) : list Z * Z :=
  match a with
  | x :: r => (fst (f x (snd (downacc_ f r c0))) :: fst (downacc_ f r c0), snd (f x (snd (downacc_ f r c0))))
  | [] => ([], c0)
  end.
Lemma downacc_snoc f l : forall x c0,
  downacc_ f (l ++ [x]) c0 = (fst (downacc_ f l (snd (f x c0))) ++ [fst (f x c0)], snd (downacc_ f l (snd (f x c0)))).
Proof. induction l as [|y l IH]; intros x c0; [reflexivity|]. cbn [app downacc_]. rewrite IH. reflexivity. Qed.
Lemma loop_inplace_acc_down (f : Z -> Z -> Z * Z) : forall l pre post c0,
  fold_left (fun (s : list Z * Z) j => (upd_ (fst s) j (fst (f (nth j (fst s) 0) (snd s))), snd (f (nth j (fst s) 0) (snd s))))
    (rev (seq (length pre) (length l))) (pre ++ l ++ post, c0)
  = (pre ++ fst (downacc_ f l c0) ++ post, snd (downacc_ f l c0)).
Proof.
  induction l as [|x l IH] using rev_ind; intros pre post c0; [reflexivity|].
  rewrite app_length. cbn [length]. rewrite Nat.add_1_r, seq_S, rev_app_distr. cbn [rev app fold_left fst snd].
  assert (N : nth (length pre + length l) (pre ++ (l ++ [x]) ++ post) 0 = x).
  { replace (pre ++ (l ++ [x]) ++ post) with ((pre ++ l) ++ x :: post) by (rewrite <- !app_assoc; reflexivity).
    rewrite <- app_length. apply nth_middle. }
  rewrite N.
  assert (U : forall v, upd_ (pre ++ (l ++ [x]) ++ post) (length pre + length l) v = pre ++ l ++ (v :: post)).
  { intros v. replace (pre ++ (l ++ [x]) ++ post) with ((pre ++ l) ++ x :: post) by (rewrite <- !app_assoc; reflexivity).
    rewrite <- app_length. unfold upd_. rewrite firstn_app, firstn_all, Nat.sub_diag. cbn [firstn]. rewrite app_nil_r.
    replace ((pre ++ l) ++ x :: post) with (((pre ++ l) ++ [x]) ++ post) by (rewrite <- !app_assoc; reflexivity).
    replace (S (length (pre ++ l))) with (length ((pre ++ l) ++ [x])) by (rewrite !app_length; cbn; lia).
    rewrite skipn_app, skipn_all, Nat.sub_diag. cbn [skipn app]. rewrite <- app_assoc. reflexivity. }
  rewrite U. rewrite IH. rewrite downacc_snoc. cbn [fst snd]. rewrite <- !app_assoc. reflexivity.
Qed.
