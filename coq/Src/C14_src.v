(** C14, translator tie: theorems about the Gallina text that tools/rs2v.py regenerates from /repo's CURRENT
    src/int/div.rs (`Int::div_rem_base`, `checked_div_rem`, `rem`, `checked_div_rem_floor`), src/int/div_uint.rs
    (`div_rem_base_uint`, `div_rem_uint`, `div_uint`, `rem_uint`, `div_rem_floor_uint`, `div_floor_uint`, `normalized_rem`),
    src/non_zero.rs (`NonZero<Int>::abs_sign`, `NonZero<Uint>::new_unwrap`), src/int/sign.rs (`Int::new_from_abs_sign`),
    src/int.rs (`Int::MAX`, `Int::MIN`, `from_bits`) and src/uint.rs (`as_int`) on every run (Src/GenIntDiv.v).  The generated
    fronts call the GENERATED `Int::abs_sign`, `wrapping_neg_if`, `Uint::div_rem` (the constant-time long division),
    `is_nonzero`, `select`, `wrapping_add`, `wrapping_sub`, `lte`, `eq`, `shr`, `bitxor`.  Statements only; proofs in
    Src/GenIntDivP.v.  Every statement is for ALL limb counts n >= 1 with 64 n < 2^32 and all limb values; the `NonZero`
    divisor type of the source is the hypothesis `seval d <> 0` / `eval d <> 0`.  [ct2opt (v, c)] reads the source's
    `ConstCtOption { value: v, is_some: c }` as an option. *)
From CB Require Import Model.SrcPrelude Model.Word Model.Limbs Model.AddSub Model.IntArith Model.IntDiv.
From CB Require Import Src.GenPrim Src.GenUint Src.GenInt Src.GenDivCt Src.GenIntDiv Src.GenIntDivP.
From CB Require Import Proofs.WordP Proofs.LimbsP Proofs.IntArithP.
From Coq Require Import ZArith List.
Import ListNotations.
Open Scope Z_scope.

(** the constants *)
Theorem C14_src_int_MAX : forall n, (1 <= n)%nat -> 64 * Z.of_nat n < 2 ^ 32 -> g_int_MAX n = int_max_limbs n.
Proof. exact g_int_MAX_eq. Qed.
Print Assumptions C14_src_int_MAX.
Theorem C14_src_int_MIN : forall n, (1 <= n)%nat -> 64 * Z.of_nat n < 2 ^ 32 -> g_int_MIN n = int_min_limbs n.
Proof. exact g_int_MIN_eq. Qed.
Print Assumptions C14_src_int_MIN.

(** Int::new_from_abs_sign: the source text denotes the model (fit test against MAX / MIN, conditional negation) *)
Theorem C14_src_new_from_abs_sign : forall n q c, length q = n -> (1 <= n)%nat -> 64 * Z.of_nat n < 2 ^ 32 -> wf q ->
  ct2opt (g_int_new_from_abs_sign n q c) = int_new_from_abs_sign q c.
Proof. exact g_int_new_from_abs_sign_eq. Qed.
Print Assumptions C14_src_new_from_abs_sign.

(** NonZero<Int>::abs_sign (with the `new_unwrap` guard) on a non-zero value *)
Theorem C14_src_nz_abs_sign : forall n d, length d = n -> Z.of_nat n < 2 ^ 64 -> wf d -> seval d <> 0 ->
  g_nz_int_abs_sign n d = int_abs_sign d.
Proof. exact g_nz_int_abs_sign_eq. Qed.
Print Assumptions C14_src_nz_abs_sign.

(** the source fronts denote the models (whose unsigned division is the value-level Z.div / Z.modulo: the generated text reaches
    it through the generated Uint::div_rem) *)
Theorem C14_src_div_rem_base : forall n a d, length a = n -> length d = n -> (1 <= n)%nat -> 64 * Z.of_nat n < 2 ^ 32 ->
  wf a -> wf d -> seval d <> 0 -> g_int_div_rem_base n a d = int_div_rem_base a d.
Proof. exact g_int_div_rem_base_eq. Qed.
Print Assumptions C14_src_div_rem_base.

Theorem C14_src_checked_div_rem : forall n a d, length a = n -> length d = n -> (1 <= n)%nat -> 64 * Z.of_nat n < 2 ^ 32 ->
  wf a -> wf d -> seval d <> 0 ->
  (ct2opt (fst (g_int_checked_div_rem n a d)), snd (g_int_checked_div_rem n a d)) = int_checked_div_rem a d.
Proof. exact g_int_checked_div_rem_eq. Qed.
Print Assumptions C14_src_checked_div_rem.

Theorem C14_src_rem : forall n a d, length a = n -> length d = n -> (1 <= n)%nat -> 64 * Z.of_nat n < 2 ^ 32 ->
  wf a -> wf d -> seval d <> 0 -> g_int_rem n a d = int_rem a d.
Proof. exact g_int_rem_eq. Qed.
Print Assumptions C14_src_rem.

Theorem C14_src_checked_div_rem_floor : forall n a d, length a = n -> length d = n -> (1 <= n)%nat -> 64 * Z.of_nat n < 2 ^ 32 ->
  wf a -> wf d -> seval d <> 0 ->
  (ct2opt (fst (g_int_checked_div_rem_floor n a d)), snd (g_int_checked_div_rem_floor n a d)) = int_checked_div_rem_floor a d.
Proof. exact g_int_checked_div_rem_floor_eq. Qed.
Print Assumptions C14_src_checked_div_rem_floor.

Theorem C14_src_div_rem_uint : forall n a d, length a = n -> length d = n -> (1 <= n)%nat -> 64 * Z.of_nat n < 2 ^ 32 ->
  wf a -> wf d -> eval d <> 0 -> g_int_div_rem_uint n a d = int_div_rem_uint a d.
Proof. exact g_int_div_rem_uint_eq. Qed.
Print Assumptions C14_src_div_rem_uint.
Theorem C14_src_div_uint : forall n a d, length a = n -> length d = n -> (1 <= n)%nat -> 64 * Z.of_nat n < 2 ^ 32 ->
  wf a -> wf d -> eval d <> 0 -> g_int_div_uint n a d = fst (int_div_rem_uint a d).
Proof. exact g_int_div_uint_eq. Qed.
Print Assumptions C14_src_div_uint.
Theorem C14_src_rem_uint : forall n a d, length a = n -> length d = n -> (1 <= n)%nat -> 64 * Z.of_nat n < 2 ^ 32 ->
  wf a -> wf d -> eval d <> 0 -> g_int_rem_uint n a d = snd (int_div_rem_uint a d).
Proof. exact g_int_rem_uint_eq. Qed.
Print Assumptions C14_src_rem_uint.

Theorem C14_src_div_rem_floor_uint : forall n a d, length a = n -> length d = n -> (1 <= n)%nat -> 64 * Z.of_nat n < 2 ^ 32 ->
  wf a -> wf d -> eval d <> 0 -> g_int_div_rem_floor_uint n a d = int_div_rem_floor_uint a d.
Proof. exact g_int_div_rem_floor_uint_eq. Qed.
Print Assumptions C14_src_div_rem_floor_uint.
Theorem C14_src_div_floor_uint : forall n a d, length a = n -> length d = n -> (1 <= n)%nat -> 64 * Z.of_nat n < 2 ^ 32 ->
  wf a -> wf d -> eval d <> 0 -> g_int_div_floor_uint n a d = fst (int_div_rem_floor_uint a d).
Proof. exact g_int_div_floor_uint_eq. Qed.
Print Assumptions C14_src_div_floor_uint.
Theorem C14_src_normalized_rem : forall n a d, length a = n -> length d = n -> (1 <= n)%nat -> 64 * Z.of_nat n < 2 ^ 32 ->
  wf a -> wf d -> eval d <> 0 -> g_int_normalized_rem n a d = snd (int_div_rem_floor_uint a d).
Proof. exact g_int_normalized_rem_eq. Qed.
Print Assumptions C14_src_normalized_rem.

(** hence the SOURCE text divides exactly, with its sign convention, for every width: truncating (Z.quot / Z.rem, quotient none
    exactly when it does not fit, i.e. MIN / -1) ... *)
Theorem C14_src_checked_div_rem_exact : forall n a d, length a = n -> length d = n -> (1 <= n)%nat -> 64 * Z.of_nat n < 2 ^ 32 ->
  wf a -> wf d -> seval d <> 0 ->
  (ct2opt (fst (g_int_checked_div_rem n a d)), snd (g_int_checked_div_rem n a d)) =
    (if isp_fits n (Z.quot (seval a) (seval d)) then Some (to_limbs_s n (Z.quot (seval a) (seval d))) else None,
     to_limbs_s n (Z.rem (seval a) (seval d))).
Proof. exact g_int_checked_div_rem_exact. Qed.
Print Assumptions C14_src_checked_div_rem_exact.

Theorem C14_src_rem_exact : forall n a d, length a = n -> length d = n -> (1 <= n)%nat -> 64 * Z.of_nat n < 2 ^ 32 ->
  wf a -> wf d -> seval d <> 0 -> g_int_rem n a d = to_limbs_s n (Z.rem (seval a) (seval d)).
Proof. exact g_int_rem_exact. Qed.
Print Assumptions C14_src_rem_exact.

(** ... flooring (Z.div / Z.modulo, the remainder has the sign of the divisor) ... *)
Theorem C14_src_checked_div_rem_floor_exact : forall n a d, length a = n -> length d = n -> (1 <= n)%nat -> 64 * Z.of_nat n < 2 ^ 32 ->
  wf a -> wf d -> seval d <> 0 ->
  (ct2opt (fst (g_int_checked_div_rem_floor n a d)), snd (g_int_checked_div_rem_floor n a d)) =
    (if isp_fits n (seval a / seval d) then Some (to_limbs_s n (seval a / seval d)) else None,
     to_limbs_s n (seval a mod seval d)).
Proof. exact g_int_checked_div_rem_floor_exact. Qed.
Print Assumptions C14_src_checked_div_rem_floor_exact.

(** ... and by an unsigned divisor of the same width *)
Theorem C14_src_div_rem_uint_exact : forall n a d, length a = n -> length d = n -> (1 <= n)%nat -> 64 * Z.of_nat n < 2 ^ 32 ->
  wf a -> wf d -> eval d <> 0 ->
  g_int_div_rem_uint n a d = (to_limbs_s n (Z.quot (seval a) (eval d)), to_limbs_s n (Z.rem (seval a) (eval d))).
Proof. exact g_int_div_rem_uint_exact. Qed.
Print Assumptions C14_src_div_rem_uint_exact.

Theorem C14_src_div_rem_floor_uint_exact : forall n a d, length a = n -> length d = n -> (1 <= n)%nat -> 64 * Z.of_nat n < 2 ^ 32 ->
  wf a -> wf d -> eval d <> 0 ->
  g_int_div_rem_floor_uint n a d = (to_limbs_s n (seval a / eval d), to_limbs n (seval a mod eval d)).
Proof. exact g_int_div_rem_floor_uint_exact. Qed.
Print Assumptions C14_src_div_rem_floor_uint_exact.

(** non-vacuity: the generated fronts run on multi-limb inputs: -8 / 3 and 8 / -3 at two limbs (truncating and flooring),
    MIN / -1 (quotient none), a 3-limb dividend with a 2-limb-sized divisor, and the Uint-divisor forms *)
Example C14_src_runs :
  let m8 := [2 ^ 64 - 8; 2 ^ 64 - 1] in let m3 := [2 ^ 64 - 3; 2 ^ 64 - 1] in
  g_int_checked_div_rem 2 m8 [3; 0] = (([2 ^ 64 - 2; 2 ^ 64 - 1], 2 ^ 64 - 1), [2 ^ 64 - 2; 2 ^ 64 - 1]) /\
  g_int_checked_div_rem_floor 2 m8 [3; 0] = (([2 ^ 64 - 3; 2 ^ 64 - 1], 2 ^ 64 - 1), [1; 0]) /\
  g_int_checked_div_rem_floor 2 [8; 0] m3 = (([2 ^ 64 - 3; 2 ^ 64 - 1], 2 ^ 64 - 1), [2 ^ 64 - 1; 2 ^ 64 - 1]) /\
  snd (fst (g_int_checked_div_rem 2 [0; 2 ^ 63] [2 ^ 64 - 1; 2 ^ 64 - 1])) = 0 /\
  g_int_rem 3 [5; 7; 2 ^ 64 - 1] [1; 2 ^ 63; 0] = to_limbs_s 3 (Z.rem (seval [5; 7; 2 ^ 64 - 1]) (seval [1; 2 ^ 63; 0])) /\
  g_int_div_rem_uint 2 m8 [3; 0] = ([2 ^ 64 - 2; 2 ^ 64 - 1], [2 ^ 64 - 2; 2 ^ 64 - 1]) /\
  g_int_div_rem_floor_uint 2 m8 [3; 0] = ([2 ^ 64 - 3; 2 ^ 64 - 1], [1; 0]) /\
  g_int_normalized_rem 2 m8 [3; 0] = [1; 0] /\
  g_int_MAX 2 = [2 ^ 64 - 1; 2 ^ 63 - 1] /\ g_int_MIN 2 = [0; 2 ^ 63].
Proof. vm_compute. repeat split. Qed.
