(** Translator tie, group IntCmp: the signed order predicates of /repo's CURRENT src/int/cmp.rs (Src/GenIntCmp.v) -- Int::eq,
    lt, gt, cmp through Int::invert_msb / Int::SIGN_MASK (= Int::MIN, computed by the source's own shr / bitxor) -- equal the
    models of Model/Cmp.v for every limb count n >= 1 with 64 n < 2^32 and all limb values.  Hand-written. *)
From CB Require Import Model.SrcPrelude Model.Word Model.Limbs Model.AddSub Model.Cmp Model.IntArith.
From CB Require Import Src.GenPrim Src.GenDiv Src.GenUint Src.GenShift Src.GenMul Src.GenInt Src.GenDivLimb Src.GenBits Src.GenDivCt
  Src.GenIntDiv Src.GenCmp Src.GenIntCmp.
From CB Require Import Src.GenWidthP Src.GenPrimP Src.GenLoopP Src.GenUintP Src.GenIntP Src.GenIntDivP Src.GenCmpP.
From CB Require Import Proofs.WordP Proofs.WordPredP Proofs.LimbsP Proofs.CmpP Proofs.CmpIntP Proofs.CmpAllP.
From Coq Require Import Lia List.
Import ListNotations.
Open Scope Z_scope.
Transparent B.

Definition isz (n : nat) : Prop := (1 <= n)%nat /\ 64 * Z.of_nat n < 2 ^ 32.
Lemma isz_usz n : isz n -> usz n. Proof. intros [_ H]. unfold usz. lia. Qed.

Lemma g_int_SIGN_MASK_eq n : isz n -> g_int_SIGN_MASK n = sign_mask n.
Proof. intros [H1 H2]. unfold g_int_SIGN_MASK. rewrite g_int_MIN_eq by assumption. reflexivity. Qed.

Lemma g_int_invert_msb_eq n a : length a = n -> isz n -> g_int_invert_msb n a = int_invert_msb a.
Proof.
  intros Ha Hn. unfold g_int_invert_msb, int_invert_msb, xor_limbs. rewrite g_int_SIGN_MASK_eq by assumption.
  rewrite g_uint_bitxor_eq by (first [assumption | apply length_sign_mask | apply isz_usz; assumption]).
  rewrite Ha. reflexivity.
Qed.

Lemma inv_len n a : length a = n -> wf a -> isz n -> wf (int_invert_msb a) /\ length (int_invert_msb a) = n.
Proof.
  intros Ha Wa [H1 _]. assert (Hn : a <> []) by (destruct a; [cbn in Ha; lia | discriminate]).
  destruct (invert_msb_facts a Wa Hn) as (_ & W & L). split; [assumption | congruence].
Qed.

Lemma g_int_eq_eq n a b : length a = n -> length b = n -> isz n -> g_int_eq n a b = uint_eq a b.
Proof. intros. unfold g_int_eq. apply g_uint_eq_eq; try assumption. apply isz_usz; assumption. Qed.
Lemma g_int_lt_eq n a b : length a = n -> length b = n -> isz n -> wf a -> wf b -> g_int_lt n a b = int_lt a b.
Proof.
  intros Ha Hb Hn Wa Wb. unfold g_int_lt, int_lt. rewrite !g_int_invert_msb_eq by assumption.
  destruct (inv_len n a Ha Wa Hn) as [W1 L1]. destruct (inv_len n b Hb Wb Hn) as [W2 L2].
  apply g_uint_lt_eq; try assumption. apply isz_usz; assumption.
Qed.
Lemma g_int_gt_eq n a b : length a = n -> length b = n -> isz n -> wf a -> wf b -> g_int_gt n a b = int_gt a b.
Proof.
  intros Ha Hb Hn Wa Wb. unfold g_int_gt, int_gt. rewrite !g_int_invert_msb_eq by assumption.
  destruct (inv_len n a Ha Wa Hn) as [W1 L1]. destruct (inv_len n b Hb Wb Hn) as [W2 L2].
  apply g_uint_gt_eq; try assumption. apply isz_usz; assumption.
Qed.
Lemma g_int_cmp_eq n a b : length a = n -> length b = n -> isz n -> wf a -> wf b -> g_int_cmp n a b = int_cmp a b.
Proof.
  intros Ha Hb Hn Wa Wb. unfold g_int_cmp, int_cmp. rewrite !g_int_invert_msb_eq by assumption.
  destruct (inv_len n a Ha Wa Hn) as [W1 L1]. destruct (inv_len n b Hb Wb Hn) as [W2 L2].
  apply g_uint_cmp_eq; try assumption. apply isz_usz; assumption.
Qed.

Lemma g_int_order_spec n a b : length a = n -> length b = n -> isz n -> wf a -> wf b ->
  g_int_eq n a b = choice_of_bool (seval a =? seval b) /\
  g_int_lt n a b = choice_of_bool (seval a <? seval b) /\
  g_int_gt n a b = choice_of_bool (seval b <? seval a) /\
  g_int_cmp n a b = ordz (seval a) (seval b).
Proof.
  intros Ha Hb Hn Wa Wb.
  assert (Hne : a <> []) by (destruct Hn as [H1 _]; destruct a; [cbn in Ha; lia | discriminate]).
  destruct (int_order_spec a b Wa Wb ltac:(congruence) Hne) as (E1 & E2 & E3 & E4 & _).
  rewrite g_int_eq_eq, g_int_lt_eq, g_int_gt_eq, g_int_cmp_eq by assumption. auto.
Qed.
