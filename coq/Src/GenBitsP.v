(** Translator tie, group Bits: `leading_zeros` / `Uint::bits` of src/uint/bits.rs, the constant-time shift ladders
    `Uint::overflowing_shl` / `shl` (src/uint/shl.rs) and `overflowing_shr` / `shr` (src/uint/shr.rs), `ConstCtOption<Uint>::expect`,
    `Uint::to_limbs`, `Limb::leading_zeros` as regenerated from /repo's CURRENT source (Src/GenBits.v) equal the limb-level models
    [limbs_leading_zeros] / [uint_overflowing_shl] / [uint_overflowing_shr] of Model/Bits.v and [l0_bits] / [l0_uint_shl] /
    [l0_uint_shr] of Model/DivL0.v, for every limb count n with 64 n < 2^32 (`Uint::BITS` is a u32) and all limb values.
    The models return [None] where an `expect` of the source would panic; the generated text drops the assertion (it returns
    the carried value), so each equality is stated as `model = Some v -> generated = v`. *)
From CB Require Import Model.SrcPrelude Model.Word Model.Limbs Model.AddSub Model.Cmp Model.Bits Model.Div Model.DivL0.
From CB Require Import Src.GenPrim Src.GenUint Src.GenShift Src.GenBits.
From CB Require Import Src.GenWidthP Src.GenPrimP Src.GenLoopP Src.GenIterP Src.GenUintP Src.GenShiftP.
From CB Require Import Proofs.WordP Proofs.LimbsP Proofs.BitsWordP Proofs.BitQueryP Proofs.ShiftP Proofs.LadderP Proofs.DivL0P.
From Coq Require Import Lia List.
Import ListNotations.
Open Scope Z_scope.
Transparent B.

(* ---------------- leading_zeros: downward scan with a u32 counter and a ConstChoice flag *)
Lemma g_limb_leading_zeros_eq x : g_limb_leading_zeros x = wlz x.
Proof. unfold g_limb_leading_zeros, clz_, wlz, bitlen. destruct (x <=? 0); reflexivity. Qed.

Definition lz_step (ls : list Z) (j : nat) (s : Z * Z) : Z * Z :=
  (add_ 32 (fst s) (g_cc_if_true_u32 (snd s) (g_limb_leading_zeros (nth j ls 0))),
   g_cc_and (snd s) (g_cc_not (g_cc_from_word_nonzero (nth j ls 0)))).

Lemma lz_scan_range ls : wf ls -> 0 <= fst (lz_scan ls) <= 64 * Z.of_nat (length ls) /\
  exists b, snd (lz_scan ls) = choice_of_bool b.
Proof.
  intros Hw. rewrite lz_scan_correct by assumption. cbn [fst snd]. split; [|eexists; reflexivity].
  pose proof (l0_bits_of_range ls Hw). change (bits_of (eval ls)) with (bitlen (eval ls)) in H. lia.
Qed.

Lemma lz_fold : forall ls pre, wf ls -> 64 * Z.of_nat (length ls) < 2 ^ 32 ->
  fold_left (fun s j => lz_step (pre ++ ls) j s) (rev (seq (length pre) (length ls))) (0, 2 ^ 64 - 1) = lz_scan ls.
Proof.
  induction ls as [|x r IH]; intros pre Hw Hn; [reflexivity|].
  apply wf_cons in Hw. destruct Hw as [Hx Hr]. cbn [length] in Hn.
  cbn [length seq rev]. rewrite fold_left_app. cbn [fold_left].
  replace (pre ++ x :: r) with ((pre ++ [x]) ++ r) by (rewrite <- app_assoc; reflexivity).
  replace (S (length pre)) with (length (pre ++ [x])) by (rewrite app_length; cbn; lia).
  rewrite (IH (pre ++ [x]) Hr) by lia.
  destruct (lz_scan_range r Hr) as [Hc [b Hb]].
  cbn [lz_scan]. destruct (lz_scan r) as [count nz]. cbn [fst snd] in *. subst nz.
  unfold lz_step. cbn [fst snd].
  assert (N : nth (length pre) ((pre ++ [x]) ++ r) 0 = x) by (rewrite <- app_assoc; apply nth_middle).
  rewrite N, g_limb_leading_zeros_eq.
  change (g_cc_if_true_u32 (choice_of_bool b) (wlz x)) with (if_true_u32 (choice_of_bool b) (wlz x)).
  pose proof (wlz_range x Hx) as Hz.
  rewrite if_true_u32_bool by (unfold U32; lia).
  f_equal. unfold add_. apply Z.mod_small. destruct b; lia.
Qed.

Lemma g_slice_leading_zeros_eq ls : wf ls -> 64 * Z.of_nat (length ls) < 2 ^ 32 ->
  g_slice_leading_zeros ls = limbs_leading_zeros ls.
Proof.
  intros Hw Hn. unfold g_slice_leading_zeros, limbs_leading_zeros. cbv zeta. rewrite Nat2Z.id.
  match goal with |- context [Nat.iter (length ls) ?F (Z.of_nat (length ls), 0, 2 ^ 64 - 1)] =>
    change (Nat.iter (length ls) F (Z.of_nat (length ls), 0, 2 ^ 64 - 1))
      with (Nat.iter (length ls) F (enc3 (Z.of_nat (length ls)) (0, 2 ^ 64 - 1)));
    rewrite (iter_enc_down F enc3 (lz_step ls)) end.
  - pose proof (lz_fold ls [] Hw Hn) as H. cbn [app length] in H. rewrite H. unfold enc3.
    destruct (lz_scan ls); reflexivity.
  - intros i [c nz] Hi. unfold enc3, lz_step. cbn [fst snd]. reflexivity.
  - lia.
Qed.

Lemma g_uint_bits_eq n y : length y = n -> wf y -> 64 * Z.of_nat n < 2 ^ 32 -> g_uint_bits n y = l0_bits y.
Proof.
  intros Hl Hw Hn. unfold g_uint_bits, g_uint_leading_zeros, l0_bits, lenZ.
  rewrite g_uint_BITS_eq by assumption. rewrite g_slice_leading_zeros_eq by (subst n; assumption).
  destruct (lz_scan_range y Hw) as [Hc _]. fold (limbs_leading_zeros y) in Hc. subst n.
  unfold sub_. apply Z.mod_small. lia.
Qed.

(* ---------------- ConstCtOption<Uint>::expect, to_limbs *)
Lemma g_ctopt_uint_expect_eq n (o : list Z * Z) v : ct_expect o = Some v -> g_ctopt_uint_expect n o tt = v.
Proof. unfold ct_expect, g_ctopt_uint_expect. destruct (snd o =? MAXW); intros E; [inversion E; reflexivity | discriminate]. Qed.
Lemma g_uint_to_limbs_eq n (a : list Z) : g_uint_to_limbs n a = a. Proof. reflexivity. Qed.

(* ---------------- the constant-time ladder: log2(BITS) fixed-distance shifts, each selected by one bit of `shift` *)
Lemma shift_bits_range bits : 64 <= bits < 2 ^ 32 -> 0 <= shift_bits bits <= 32.
Proof.
  intros Hb. unfold shift_bits, u32_lz. pose proof (bitlen_bound (bits - 1) 32 ltac:(lia) ltac:(lia)). lia.
Qed.

Lemma ladder_iter n (gstep : nat -> list Z -> Z -> list Z * Z) (step : list Z -> Z -> ctopt) sh (F : Z * list Z -> Z * list Z) :
  (forall i r, F (i, r) = (add_ 32 i 1, g_uint_select n r (g_ctopt_uint_expect n (gstep n r (shl_ 32 1 i)) tt)
                                        (g_cc_from_u32_lsb (Z.land (shr_ sh i) 1)))) ->
  (forall r s, length r = n -> 0 <= s < 2 ^ 32 -> gstep n r s = step r s) ->
  (forall r s, length r = n -> length (fst (step r s)) = n) ->
  forall k i r r', (Z.of_nat k + i <= 32) -> 0 <= i -> length r = n -> Z.of_nat n < 2 ^ 64 ->
  ladder step k i sh r = Some r' ->
  Nat.iter k F (i, r) = (i + Z.of_nat k, r') /\ length r' = n.
Proof.
  intros HF Hg Hlen. induction k as [|k IH]; intros i r r' Hk Hi Hl Hn E.
  - cbn [ladder] in E. inversion E. subst r'. cbn [Nat.iter]. rewrite Z.add_0_r. auto.
  - cbn [ladder] in E. rewrite iter_shift, HF.
    assert (E2 : shl_ 32 1 i = 2 ^ i).
    { unfold shl_. rewrite Z.mul_1_l. apply Z.mod_small. split; [apply Z.pow_nonneg; lia | apply Z.pow_lt_mono_r; lia]. }
    rewrite E2.
    assert (H2i : 0 <= 2 ^ i < 2 ^ 32) by (split; [apply Z.pow_nonneg; lia | apply Z.pow_lt_mono_r; lia]).
    rewrite (Hg r (2 ^ i) Hl H2i).
    destruct (ct_expect (step r (2 ^ i))) as [shd|] eqn:Ex; [|discriminate].
    rewrite (g_ctopt_uint_expect_eq n _ shd Ex).
    assert (Lsh : length shd = n).
    { unfold ct_expect in Ex. destruct (snd (step r (2 ^ i)) =? MAXW); [|discriminate]. inversion Ex. apply Hlen. exact Hl. }
    rewrite (g_uint_select_eq n r shd _ Hl Lsh Hn).
    assert (Ea : add_ 32 i 1 = i + 1) by (unfold add_; apply Z.mod_small; lia).
    rewrite Ea.
    unfold uint_select. unfold shr_.
    change (g_cc_from_u32_lsb (Z.land (sh / 2 ^ i) 1)) with (from_u32_lsb (Z.land (sh / 2 ^ i) 1)).
    assert (Lsel : length (select_limbs (from_u32_lsb (Z.land (sh / 2 ^ i) 1)) r shd) = n)
      by (unfold select_limbs; rewrite map_length, combine_length; lia).
    destruct (IH (i + 1) _ r' ltac:(lia) ltac:(lia) Lsel Hn E) as [I1 I2].
    rewrite I1. split; [f_equal; lia | exact I2].
Qed.

Lemma shl_vt_len a s : length (fst (uint_overflowing_shl_vartime a s)) = length a.
Proof.
  unfold uint_overflowing_shl_vartime. cbv zeta.
  destruct (64 * Z.of_nat (length a) <=? s) eqn:E; [cbn [fst ct_none]; unfold zeros; apply repeat_length|].
  apply Z.leb_gt in E.
  assert (Hsn : (Z.to_nat (s / 64) <= length a)%nat).
  { destruct (Z_lt_ge_dec s 0) as [Hneg|Hge].
    - assert (s / 64 < 0) by (apply Z.div_lt_upper_bound; lia). lia.
    - assert (s / 64 < Z.of_nat (length a)) by (apply Z.div_lt_upper_bound; lia). lia. }
  assert (Lf : length (firstn (length a - Z.to_nat (s / 64)) a) = (length a - Z.to_nat (s / 64))%nat) by (rewrite firstn_length; lia).
  destruct (s mod 64 =? 0); cbn [fst ct_some]; rewrite app_length; unfold zeros; rewrite repeat_length.
  - rewrite Lf. lia.
  - assert (Lc : forall l r c, length (shl_carry l r c) = length l).
    { induction l as [|x l IHl]; intros r c; [reflexivity|]. cbn [shl_carry length]. rewrite IHl. reflexivity. }
    rewrite Lc, Lf. lia.
Qed.

Lemma shr_vt_len a s : length (fst (uint_overflowing_shr_vartime a s)) = length a.
Proof.
  unfold uint_overflowing_shr_vartime. cbv zeta.
  destruct (64 * Z.of_nat (length a) <=? s) eqn:E; [cbn [fst ct_none]; unfold zeros; apply repeat_length|].
  apply Z.leb_gt in E.
  assert (Hsn : (Z.to_nat (s / 64) <= length a)%nat).
  { destruct (Z_lt_ge_dec s 0) as [Hneg|Hge].
    - assert (s / 64 < 0) by (apply Z.div_lt_upper_bound; lia). lia.
    - assert (s / 64 < Z.of_nat (length a)) by (apply Z.div_lt_upper_bound; lia). lia. }
  assert (Lf : length (skipn (Z.to_nat (s / 64)) a) = (length a - Z.to_nat (s / 64))%nat) by (rewrite skipn_length; lia).
  destruct (s mod 64 =? 0); cbn [fst ct_some]; rewrite app_length; unfold zeros; rewrite repeat_length.
  - rewrite Lf. lia.
  - assert (Lc : forall l r c, length (fst (shr_carry l r c)) = length l).
    { induction l as [|x l IHl]; intros r c; [reflexivity|]. cbn [shr_carry]. specialize (IHl r c).
      destruct (shr_carry l r c). cbn [fst length] in *. lia. }
    rewrite Lc, Lf. lia.
Qed.

Lemma g_shift_bits_eq n : (1 <= n)%nat -> 64 * Z.of_nat n < 2 ^ 32 ->
  sub_ 32 32 (clz_ 32 (sub_ 32 (g_uint_BITS n) 1)) = shift_bits (64 * Z.of_nat n).
Proof.
  intros H1 Hn. rewrite g_uint_BITS_eq by assumption.
  assert (E1 : sub_ 32 (64 * Z.of_nat n) 1 = 64 * Z.of_nat n - 1) by (unfold sub_; apply Z.mod_small; lia).
  rewrite E1. unfold shift_bits, u32_lz, clz_, bitlen.
  destruct (64 * Z.of_nat n - 1 <=? 0) eqn:E; [apply Z.leb_le in E; lia|].
  pose proof (bitlen_bound (64 * Z.of_nat n - 1) 32 ltac:(lia) ltac:(lia)) as Hb. unfold bitlen in Hb. rewrite E in Hb.
  unfold sub_. apply Z.mod_small. lia.
Qed.

Lemma g_uint_overflowing_shl_eq n a s c : length a = n -> (1 <= n)%nat -> 64 * Z.of_nat n < 2 ^ 32 -> 0 <= s < 2 ^ 32 ->
  uint_overflowing_shl a s = Some c -> g_uint_overflowing_shl n a s = c.
Proof.
  intros Hl H1 Hn Hs E. unfold g_uint_overflowing_shl, uint_overflowing_shl in *. cbv zeta in *.
  unfold lenZ in E. rewrite Hl in E.
  rewrite (g_shift_bits_eq n H1 Hn). rewrite g_uint_BITS_eq by assumption. rewrite Z.sub_0_r.
  unfold rem_.
  destruct (ladder uint_overflowing_shl_vartime (Z.to_nat (shift_bits (64 * Z.of_nat n))) 0 (s mod (64 * Z.of_nat n)) a) as [r|] eqn:EL;
    [|discriminate].
  pose proof (shift_bits_range (64 * Z.of_nat n) ltac:(lia)) as Hsb.
  match goal with |- context [Nat.iter _ ?F (0, a)] =>
  destruct (ladder_iter n g_uint_overflowing_shl_vartime uint_overflowing_shl_vartime (s mod (64 * Z.of_nat n)) F
              ltac:(intros; reflexivity)
              ltac:(intros r0 s0 L0 S0; apply g_uint_overflowing_shl_vartime_eq; assumption)
              ltac:(intros r0 s0 L0; rewrite shl_vt_len; exact L0)
              (Z.to_nat (shift_bits (64 * Z.of_nat n))) 0 a r ltac:(lia) ltac:(lia) Hl ltac:(lia) EL) as [I1 I2] end.
  rewrite I1. injection E as Ec. subst c.
  assert (Hn64 : Z.of_nat n < 2 ^ 64) by lia.
  rewrite (g_uint_select_eq n r (repeat 0 n) _ I2 (repeat_length _ _) Hn64).
  rewrite ?Hl. reflexivity.
Qed.

Lemma g_uint_overflowing_shr_eq n a s c : length a = n -> (1 <= n)%nat -> 64 * Z.of_nat n < 2 ^ 32 -> 0 <= s < 2 ^ 32 ->
  uint_overflowing_shr a s = Some c -> g_uint_overflowing_shr n a s = c.
Proof.
  intros Hl H1 Hn Hs E. unfold g_uint_overflowing_shr, uint_overflowing_shr in *. cbv zeta in *.
  unfold lenZ in E. rewrite Hl in E.
  rewrite (g_shift_bits_eq n H1 Hn). rewrite g_uint_BITS_eq by assumption. rewrite Z.sub_0_r.
  unfold rem_.
  destruct (ladder uint_overflowing_shr_vartime (Z.to_nat (shift_bits (64 * Z.of_nat n))) 0 (s mod (64 * Z.of_nat n)) a) as [r|] eqn:EL;
    [|discriminate].
  pose proof (shift_bits_range (64 * Z.of_nat n) ltac:(lia)) as Hsb.
  match goal with |- context [Nat.iter _ ?F (0, a)] =>
  destruct (ladder_iter n g_uint_overflowing_shr_vartime uint_overflowing_shr_vartime (s mod (64 * Z.of_nat n)) F
              ltac:(intros; reflexivity)
              ltac:(intros r0 s0 L0 S0; apply g_uint_overflowing_shr_vartime_eq; assumption)
              ltac:(intros r0 s0 L0; rewrite shr_vt_len; exact L0)
              (Z.to_nat (shift_bits (64 * Z.of_nat n))) 0 a r ltac:(lia) ltac:(lia) Hl ltac:(lia) EL) as [I1 I2] end.
  rewrite I1. injection E as Ec. subst c.
  assert (Hn64 : Z.of_nat n < 2 ^ 64) by lia.
  rewrite (g_uint_select_eq n r (repeat 0 n) _ I2 (repeat_length _ _) Hn64).
  rewrite ?Hl. reflexivity.
Qed.

(* ---------------- Uint::shl / Uint::shr = the panicking wrappers of Model/DivL0.v *)
Lemma g_uint_shl_eq n a s v : length a = n -> (1 <= n)%nat -> 64 * Z.of_nat n < 2 ^ 32 -> 0 <= s < 2 ^ 32 ->
  l0_uint_shl a s = Some v -> g_uint_shl n a s = v.
Proof.
  intros Hl H1 Hn Hs E. unfold l0_uint_shl in E. unfold g_uint_shl.
  destruct (uint_overflowing_shl a s) as [c|] eqn:Ec; [|discriminate].
  rewrite (g_uint_overflowing_shl_eq n a s c Hl H1 Hn Hs Ec). apply g_ctopt_uint_expect_eq. exact E.
Qed.
Lemma g_uint_shr_eq n a s v : length a = n -> (1 <= n)%nat -> 64 * Z.of_nat n < 2 ^ 32 -> 0 <= s < 2 ^ 32 ->
  l0_uint_shr a s = Some v -> g_uint_shr n a s = v.
Proof.
  intros Hl H1 Hn Hs E. unfold l0_uint_shr in E. unfold g_uint_shr.
  destruct (uint_overflowing_shr a s) as [c|] eqn:Ec; [|discriminate].
  rewrite (g_uint_overflowing_shr_eq n a s c Hl H1 Hn Hs Ec). apply g_ctopt_uint_expect_eq. exact E.
Qed.

(* ---------------- composition with Proofs/LadderP.v, BitQueryP.v: the SOURCE routines are exact *)
Lemma list_ne_of_len (a : list Z) n : length a = n -> (1 <= n)%nat -> a <> [].
Proof. intros Hl H1 ->. cbn in Hl. lia. Qed.

Lemma g_uint_overflowing_shl_exact n a s : length a = n -> (1 <= n)%nat -> 64 * Z.of_nat n < 2 ^ 32 -> 0 <= s < 2 ^ 32 -> wf a ->
  let r := g_uint_overflowing_shl n a s in
  snd r = choice_of_bool (s <? 64 * Z.of_nat n) /\ wf (fst r) /\ length (fst r) = n /\
  eval (fst r) = if s <? 64 * Z.of_nat n then (eval a * 2 ^ s) mod Bn n else 0.
Proof.
  intros Hl H1 Hn Hs Wa. cbv zeta.
  destruct (uint_overflowing_shl_correct a s Wa (list_ne_of_len a n Hl H1)) as (v & E & Wv & Lv & Ev);
    [unfold bitsZ', U32; rewrite Hl; lia | unfold U32; lia |].
  rewrite (g_uint_overflowing_shl_eq n a s _ Hl H1 Hn Hs E). cbn [fst snd]. unfold bitsZ' in *. rewrite Hl in *. auto.
Qed.
Lemma g_uint_overflowing_shr_exact n a s : length a = n -> (1 <= n)%nat -> 64 * Z.of_nat n < 2 ^ 32 -> 0 <= s < 2 ^ 32 -> wf a ->
  let r := g_uint_overflowing_shr n a s in
  snd r = choice_of_bool (s <? 64 * Z.of_nat n) /\ wf (fst r) /\ length (fst r) = n /\
  eval (fst r) = if s <? 64 * Z.of_nat n then eval a / 2 ^ s else 0.
Proof.
  intros Hl H1 Hn Hs Wa. cbv zeta.
  destruct (uint_overflowing_shr_correct a s Wa (list_ne_of_len a n Hl H1)) as (v & E & Wv & Lv & Ev);
    [unfold bitsZ', U32; rewrite Hl; lia | unfold U32; lia |].
  rewrite (g_uint_overflowing_shr_eq n a s _ Hl H1 Hn Hs E). cbn [fst snd]. unfold bitsZ' in *. rewrite Hl in *. auto.
Qed.

Lemma g_uint_bits_exact n y : length y = n -> wf y -> 64 * Z.of_nat n < 2 ^ 32 ->
  g_uint_bits n y = (if eval y <=? 0 then 0 else Z.log2 (eval y) + 1).
Proof. intros Hl Hw Hn. rewrite g_uint_bits_eq by assumption. rewrite l0_bits_val by assumption. reflexivity. Qed.
