(** C13, translator tie: the signed-integer kernels of /repo's CURRENT src/int/sign.rs, add.rs, sub.rs, neg.rs with the
    Uint / Limb helpers and constants they use (Src/GenInt.v, regenerated on every run by tools/rs2v.py) are the limb-level
    models of Model/IntArith.v, hence two's-complement exact for every limb count. Statements only; proofs in Src/GenIntP.v.
    [g_int_* n a]: n = LIMBS, a = the limb list of the Int (= of the Uint it wraps). *)
From CB Require Import Model.SrcPrelude Model.Word Model.Limbs Model.AddSub Model.IntArith.
From CB Require Import Src.GenPrim Src.GenUint Src.GenInt Src.GenUintP Src.GenIntP Proofs.WordP Proofs.LimbsP Proofs.IntArithP.
From Coq Require Import ZArith List.
Import ListNotations.
Open Scope Z_scope.

(* ---------------- generated function = model function *)
Theorem C13_src_most_significant_word : forall n a, length a = n -> usz n -> g_int_most_significant_word n a = int_msw a.
Proof. exact g_int_msw_eq. Qed.
Print Assumptions C13_src_most_significant_word.
Theorem C13_src_is_negative : forall n a, length a = n -> usz n -> g_int_is_negative n a = int_is_negative a.
Proof. exact g_int_is_negative_eq. Qed.
Print Assumptions C13_src_is_negative.
Theorem C13_src_overflowing_add : forall n a b, length a = n -> length b = n -> usz n -> wf a -> wf b ->
  g_int_overflowing_add n a b = int_overflowing_add a b.
Proof. exact g_int_overflowing_add_eq. Qed.
Print Assumptions C13_src_overflowing_add.
Theorem C13_src_wrapping_add : forall n a b, length a = n -> length b = n -> usz n -> wf a -> wf b ->
  g_int_wrapping_add n a b = int_wrapping_add a b.
Proof. exact g_int_wrapping_add_eq. Qed.
Print Assumptions C13_src_wrapping_add.
Theorem C13_src_wrapping_sub : forall n a b, length a = n -> length b = n -> usz n -> wf a -> wf b ->
  g_int_wrapping_sub n a b = int_wrapping_sub a b.
Proof. exact g_int_wrapping_sub_eq. Qed.
Print Assumptions C13_src_wrapping_sub.
(** Int::ONE = Self(Uint::from_u8(1)) exists for LIMBS >= 1 only (from_u8 asserts it) *)
Theorem C13_src_ONE : forall n, (1 <= n)%nat -> g_int_ONE n = one_limbs n.
Proof. exact g_int_ONE_eq. Qed.
Print Assumptions C13_src_ONE.
Theorem C13_src_overflowing_neg : forall n a, length a = n -> (1 <= n)%nat -> usz n -> wf a ->
  g_int_overflowing_neg n a = int_overflowing_neg a.
Proof. exact g_int_overflowing_neg_eq. Qed.
Print Assumptions C13_src_overflowing_neg.
Theorem C13_src_wrapping_neg : forall n a, length a = n -> (1 <= n)%nat -> usz n -> wf a ->
  g_int_wrapping_neg n a = int_wrapping_neg a.
Proof. exact g_int_wrapping_neg_eq. Qed.
Print Assumptions C13_src_wrapping_neg.
Theorem C13_src_wrapping_neg_if : forall n a c, length a = n -> usz n -> wf a ->
  g_int_wrapping_neg_if n a c = int_wrapping_neg_if a c.
Proof. exact g_int_wrapping_neg_if_eq. Qed.
Print Assumptions C13_src_wrapping_neg_if.
Theorem C13_src_abs_sign : forall n a, length a = n -> usz n -> wf a -> g_int_abs_sign n a = int_abs_sign a.
Proof. exact g_int_abs_sign_eq. Qed.
Print Assumptions C13_src_abs_sign.
Theorem C13_src_abs : forall n a, length a = n -> usz n -> wf a -> g_int_abs n a = int_abs a.
Proof. exact g_int_abs_eq. Qed.
Print Assumptions C13_src_abs.

(* ---------------- hence the SOURCE text is two's-complement exact ([seval] = signed value, [to_limbs_s] = encoding) *)
Theorem C13_src_is_negative_spec : forall n a, length a = n -> usz n -> wf a ->
  g_int_is_negative n a = choice_of_bool (seval a <? 0).
Proof. exact g_int_is_negative_spec. Qed.
Print Assumptions C13_src_is_negative_spec.
Theorem C13_src_overflowing_add_spec : forall n a b, length a = n -> length b = n -> usz n -> wf a -> wf b ->
  g_int_overflowing_add n a b = (to_limbs_s n (seval a + seval b), choice_of_bool (negb (isp_fits n (seval a + seval b)))).
Proof. exact g_int_overflowing_add_spec. Qed.
Print Assumptions C13_src_overflowing_add_spec.
Theorem C13_src_wrapping_sub_spec : forall n a b, length a = n -> length b = n -> usz n -> wf a -> wf b ->
  g_int_wrapping_sub n a b = to_limbs_s n (seval a - seval b).
Proof. exact g_int_wrapping_sub_spec. Qed.
Print Assumptions C13_src_wrapping_sub_spec.
Theorem C13_src_overflowing_neg_spec : forall n a, length a = n -> (1 <= n)%nat -> usz n -> wf a ->
  g_int_overflowing_neg n a = (to_limbs_s n (- seval a), choice_of_bool (negb (isp_fits n (- seval a)))).
Proof. exact g_int_overflowing_neg_spec. Qed.
Print Assumptions C13_src_overflowing_neg_spec.
Theorem C13_src_wrapping_neg_if_spec : forall n a (b : bool), length a = n -> usz n -> wf a ->
  g_int_wrapping_neg_if n a (choice_of_bool b) = to_limbs_s n (if b then - seval a else seval a).
Proof. exact g_int_wrapping_neg_if_spec. Qed.
Print Assumptions C13_src_wrapping_neg_if_spec.
Theorem C13_src_abs_sign_spec : forall n a, length a = n -> usz n -> wf a ->
  g_int_abs_sign n a = (to_limbs n (Z.abs (seval a)), choice_of_bool (seval a <? 0)).
Proof. exact g_int_abs_sign_spec. Qed.
Print Assumptions C13_src_abs_sign_spec.

(** non-vacuity: the generated functions run on multi-limb inputs (MIN + MIN overflows; -MIN overflows; |-(2^64)|) *)
Example C13_src_runs :
  g_int_overflowing_add 2 [0; 2 ^ 63] [0; 2 ^ 63] = ([0; 0], 2 ^ 64 - 1) /\
  g_int_overflowing_add 2 [2 ^ 64 - 1; 2 ^ 63 - 1] [1; 0] = ([0; 2 ^ 63], 2 ^ 64 - 1) /\
  g_int_overflowing_add 2 [2 ^ 64 - 1; 2 ^ 64 - 1] [1; 0] = ([0; 0], 0) /\
  g_int_overflowing_neg 2 [0; 2 ^ 63] = ([0; 2 ^ 63], 2 ^ 64 - 1) /\
  g_int_overflowing_neg 3 [5; 0; 0] = ([2 ^ 64 - 5; 2 ^ 64 - 1; 2 ^ 64 - 1], 0) /\
  g_int_abs_sign 2 [0; 2 ^ 64 - 1] = ([0; 1], 2 ^ 64 - 1) /\
  g_int_is_negative 0 [] = 0 /\ g_int_wrapping_sub 2 [0; 0] [1; 0] = [2 ^ 64 - 1; 2 ^ 64 - 1].
Proof. vm_compute. repeat split. Qed.
