(** Translator tie, group Wrap: the const wrapper constructors Uint::to_nz / to_odd, Int::to_nz / to_odd of /repo's CURRENT
    src/uint.rs, src/int.rs (Src/GenWrap.v): a ConstCtOption (value, is_some) whose flag is exactly the gate of the model
    (Model/Wrappers.v nz_to_nz_uint / wodd_to_odd) and whose value is the argument.  Hand-written. *)
From CB Require Import Model.SrcPrelude Model.Word Model.Limbs Model.AddSub Model.Cmp Model.Wrappers.
From CB Require Import Src.GenPrim Src.GenWidthP Src.GenPrimP Src.GenLoopP Src.GenUint Src.GenUintP Src.GenShift Src.GenWrap.
From CB Require Import Proofs.WordP Proofs.WordPredP Proofs.LimbsP Proofs.CmpP.
From Coq Require Import Lia List.
Import ListNotations.
Open Scope Z_scope.
Transparent B.

(* the ConstCtOption pair observed through Option::from / is_some, as the model observes it *)
Definition cct_outcome (p : list Z * Z) : outcome := w_cctopt (snd p) (fst p).

Lemma g_uint_to_nz_eq n a : length a = n -> usz n -> g_uint_to_nz n a = (a, uint_is_nonzero a).
Proof. intros Ha U. unfold g_uint_to_nz, g_ctopt_new. rewrite g_uint_is_nonzero_eq by assumption. reflexivity. Qed.
Lemma g_uint_to_odd_eq n a : g_uint_to_odd n a = (a, uint_is_odd a).
Proof. unfold g_uint_to_odd, g_ctopt_new. rewrite g_uint_is_odd_eq. reflexivity. Qed.
Lemma g_int_to_nz_eq n a : length a = n -> usz n -> g_int_to_nz n a = (a, uint_is_nonzero a).
Proof. intros Ha U. unfold g_int_to_nz, g_ctopt_new. rewrite g_uint_is_nonzero_eq by assumption. reflexivity. Qed.
Lemma g_int_to_odd_eq n a : g_int_to_odd n a = (a, uint_is_odd a).
Proof. unfold g_int_to_odd, g_ctopt_new. rewrite g_uint_is_odd_eq. reflexivity. Qed.

Lemma g_uint_to_nz_model n a : length a = n -> usz n -> cct_outcome (g_uint_to_nz n a) = nz_to_nz_uint a.
Proof. intros. rewrite g_uint_to_nz_eq by assumption. reflexivity. Qed.
Lemma g_uint_to_odd_model n a : cct_outcome (g_uint_to_odd n a) = wodd_to_odd a.
Proof. rewrite g_uint_to_odd_eq. reflexivity. Qed.

Lemma cc_true_bool (c : bool) : cc_true (choice_of_bool c) = c.
Proof. destruct c; reflexivity. Qed.

Lemma g_uint_to_nz_spec n a : length a = n -> usz n -> wf a ->
  fst (g_uint_to_nz n a) = a /\ snd (g_uint_to_nz n a) = choice_of_bool (negb (eval a =? 0)).
Proof. intros Ha U W. rewrite g_uint_to_nz_eq by assumption. cbn [fst snd]. rewrite uint_is_nonzero_spec by assumption. auto. Qed.
Lemma g_uint_to_odd_spec n a : wf a ->
  fst (g_uint_to_odd n a) = a /\ snd (g_uint_to_odd n a) = choice_of_bool (Z.odd (eval a)).
Proof. intros W. rewrite g_uint_to_odd_eq. cbn [fst snd]. rewrite uint_is_odd_spec by assumption. auto. Qed.

(* ================= Odd::<Uint<LIMBS>>::from_be_hex / from_le_hex (src/odd.rs): `Uint::from_*_hex(hex)`, then
   `assert!(uint.is_odd().is_true_vartime(), "number must be odd")` (dropped by the translator: stated below through the generated
   `g_uint_is_odd`), then `Odd(uint)` (erased newtype) ================= *)
From CB Require Import Model.Conv Src.GenHex Src.GenHexP Src.GenConv Src.GenConvP.
From CB Require Import Proofs.ConvDigitsP Proofs.ConvHexP Proofs.ConvP.

Lemma g_odd_uint_from_be_hex_eq n cs : g_odd_uint_from_be_hex n cs = g_uint_from_be_hex n cs.
Proof. reflexivity. Qed.
Lemma g_odd_uint_from_le_hex_eq n cs : g_odd_uint_from_le_hex n cs = g_uint_from_le_hex n cs.
Proof. reflexivity. Qed.

(* the asserted flag of the source, `uint.is_odd().is_true_vartime()`, on a canonical value *)
Lemma g_is_odd_flag n r : wf r -> cc_true (g_uint_is_odd n r) = Z.odd (eval r).
Proof. intros W. rewrite g_uint_is_odd_eq, uint_is_odd_spec by assumption. apply cc_true_bool. Qed.
Lemma g_is_odd_low n r : wf r -> cc_true (g_uint_is_odd n r) = Z.odd (nthz r 0).
Proof. intros W. rewrite g_is_odd_flag by assumption. symmetry. apply odd_low_limb. Qed.

(** generated text = model: the constructor returns exactly when BOTH dropped assertions hold *)
Lemma g_odd_uint_from_be_hex_model n cs : length cs = (16 * n)%nat -> Z.of_nat (16 * n) < 2 ^ 64 -> wfd 256 cs ->
  odd_from_be_hex n cs =
  if (g_be_hex_err n cs =? 0) && cc_true (g_uint_is_odd n (g_odd_uint_from_be_hex n cs))
  then Val [g_odd_uint_from_be_hex n cs] else PanicV.
Proof.
  intros L HB W. unfold odd_from_be_hex. rewrite g_odd_uint_from_be_hex_eq.
  pose proof (from_be_hex_spec n cs W) as S. rewrite (g_uint_from_be_hex_eq n cs L HB W) in *.
  destruct (g_be_hex_err n cs =? 0); cbn [odd_new andb]; [|reflexivity].
  destruct S as (_ & ds & _ & Wr & _). rewrite g_is_odd_low by assumption. reflexivity.
Qed.
Lemma g_odd_uint_from_le_hex_model n cs : length cs = (16 * n)%nat -> Z.of_nat (16 * n) < 2 ^ 64 -> wfd 256 cs ->
  odd_from_le_hex n cs =
  if (g_le_hex_err n cs =? 0) && cc_true (g_uint_is_odd n (g_odd_uint_from_le_hex n cs))
  then Val [g_odd_uint_from_le_hex n cs] else PanicV.
Proof.
  intros L HB W. unfold odd_from_le_hex. rewrite g_odd_uint_from_le_hex_eq.
  pose proof (from_le_hex_spec n cs W) as S. rewrite (g_uint_from_le_hex_eq n cs L HB W) in *.
  destruct (g_le_hex_err n cs =? 0); cbn [odd_new andb]; [|reflexivity].
  destruct S as (_ & ds & _ & Wr & _). rewrite g_is_odd_low by assumption. reflexivity.
Qed.
