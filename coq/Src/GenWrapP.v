(** Translator tie, group Wrap: the const wrapper constructors Uint::to_nz / to_odd, Int::to_nz / to_odd of /repo's CURRENT
    src/uint.rs, src/int.rs (Src/GenWrap.v): a ConstCtOption (value, is_some) whose flag is exactly the gate of the model
    (Model/Wrappers.v nz_to_nz_uint / wodd_to_odd) and whose value is the argument.  Hand-written. *)
From CB Require Import Model.SrcPrelude Model.Word Model.Limbs Model.AddSub Model.Cmp Model.Wrappers.
From CB Require Import Src.GenPrim Src.GenWidthP Src.GenPrimP Src.GenLoopP Src.GenUint Src.GenUintP Src.GenShift Src.GenWrap.
From CB Require Import Proofs.WordP Proofs.WordPredP Proofs.LimbsP Proofs.CmpP.
From Coq Require Import Lia List.
Import ListNotations.
Open Scope Z_scope.
Transparent B.

(* the ConstCtOption pair observed through Option::from / is_some, as the model observes it *)
Definition cct_outcome (p : list Z * Z) : outcome := w_cctopt (snd p) (fst p).

Lemma g_uint_to_nz_eq n a : length a = n -> usz n -> g_uint_to_nz n a = (a, uint_is_nonzero a).
Proof. intros Ha U. unfold g_uint_to_nz, g_ctopt_new. rewrite g_uint_is_nonzero_eq by assumption. reflexivity. Qed.
Lemma g_uint_to_odd_eq n a : g_uint_to_odd n a = (a, uint_is_odd a).
Proof. unfold g_uint_to_odd, g_ctopt_new. rewrite g_uint_is_odd_eq. reflexivity. Qed.
Lemma g_int_to_nz_eq n a : length a = n -> usz n -> g_int_to_nz n a = (a, uint_is_nonzero a).
Proof. intros Ha U. unfold g_int_to_nz, g_ctopt_new. rewrite g_uint_is_nonzero_eq by assumption. reflexivity. Qed.
Lemma g_int_to_odd_eq n a : g_int_to_odd n a = (a, uint_is_odd a).
Proof. unfold g_int_to_odd, g_ctopt_new. rewrite g_uint_is_odd_eq. reflexivity. Qed.

Lemma g_uint_to_nz_model n a : length a = n -> usz n -> cct_outcome (g_uint_to_nz n a) = nz_to_nz_uint a.
Proof. intros. rewrite g_uint_to_nz_eq by assumption. reflexivity. Qed.
Lemma g_uint_to_odd_model n a : cct_outcome (g_uint_to_odd n a) = wodd_to_odd a.
Proof. rewrite g_uint_to_odd_eq. reflexivity. Qed.

Lemma cc_true_bool (c : bool) : cc_true (choice_of_bool c) = c.
Proof. destruct c; reflexivity. Qed.

Lemma g_uint_to_nz_spec n a : length a = n -> usz n -> wf a ->
  fst (g_uint_to_nz n a) = a /\ snd (g_uint_to_nz n a) = choice_of_bool (negb (eval a =? 0)).
Proof. intros Ha U W. rewrite g_uint_to_nz_eq by assumption. cbn [fst snd]. rewrite uint_is_nonzero_spec by assumption. auto. Qed.
Lemma g_uint_to_odd_spec n a : wf a ->
  fst (g_uint_to_odd n a) = a /\ snd (g_uint_to_odd n a) = choice_of_bool (Z.odd (eval a)).
Proof. intros W. rewrite g_uint_to_odd_eq. cbn [fst snd]. rewrite uint_is_odd_spec by assumption. auto. Qed.
