import sys
p=sys.argv[1]+'/src/uint/encoding.rs'
s=open(p).read()
old="let next_idx = out_idx.saturating_sub(self.digits_large);"
assert s.count(old)==1
s=s.replace(old,"let next_idx = out_idx - self.digits_large;")
open(p,'w').write(s)
