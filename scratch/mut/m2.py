import sys
p=sys.argv[1]+'/src/uint/encoding.rs'
s=open(p).read()
old="        if carry.0 != 0 && !out.push_limb(carry) {\n            return Err(DecodeError::InputSize);\n        }"
assert s.count(old)==1
s=s.replace(old,"        if carry.0 != 0 {\n            out.push_limb(carry);\n        }")
open(p,'w').write(s)
