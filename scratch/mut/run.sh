#!/bin/bash
# usage: run.sh <name>  : fresh worktree = /repo HEAD + fix + mutation, then ./check C17 --tier quick
set -u
name=$1
wt=/var/tmp/m_C17_$name
git -C /repo worktree remove --force $wt 2>/dev/null
git -C /repo worktree add --detach $wt HEAD >/dev/null 2>&1
git -C $wt apply /var/tmp/w_C17/tools/fix_C17_1.diff
python3 /var/tmp/w_C17/scratch/mut/$name.py $wt || exit 9
git -C $wt diff > /var/tmp/w_C17/scratch/mut/$name.diff
cd /var/tmp/w_C17
VERIF_REPO=$wt VERIF_CACHE=/var/tmp/w_C17/.cache_mut CARGO_BUILD_JOBS=6 timeout 3000 ./check C17 --tier quick > /var/tmp/w_C17/scratch/mut/$name.log 2>&1
echo "exit=$?" >> /var/tmp/w_C17/scratch/mut/$name.log
git -C /repo worktree remove --force $wt
