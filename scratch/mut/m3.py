import sys
p=sys.argv[1]+'/src/uint/encoding.rs'
s=open(p).read()
old="            let digits_limb = Word::MAX.ilog(radix as Word);\n            let div_limb"
assert s.count(old)==1
s=s.replace(old,"            let digits_limb = Word::MAX.ilog(radix as Word) - (radix == 36) as u32;\n            let div_limb")
open(p,'w').write(s)
