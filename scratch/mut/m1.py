import sys
p=sys.argv[1]+'/src/uint/encoding.rs'
s=open(p).read()
old="        if buf_pos < limb_digits {\n            limb_digits = buf_pos;"
assert s.count(old)==1
s=s.replace(old,"        if buf_pos + 1 < limb_digits {\n            limb_digits = buf_pos;")
open(p,'w').write(s)
