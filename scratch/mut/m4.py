import sys
p=sys.argv[1]+'/src/uint/encoding.rs'
s=open(p).read()
old="    } else if digits.starts_with(b\"_\") || digits.ends_with(b\"_\") {"
assert s.count(old)==1
s=s.replace(old,"    } else if digits.starts_with(b\"_\") {")
open(p,'w').write(s)
