B=2**64
M=B-1
def params(r):
    k=0;D=1
    while D*r<=B-1: D*=r;k+=1
    s=64-D.bit_length()
    return k,D,s
def numeral(r,x):
    if x==0: return "0"
    ds="0123456789abcdefghijklmnopqrstuvwxyz"
    o=""
    while x: o=ds[x%r]+o; x//=r
    return o
def encode_base(r,limbs,size,trace=False):
    k,D,s=params(r)
    limbs=list(limbs); lc=len(limbs); out=[None]*size; oi=size; hi=0
    bad=False
    while True:
        if lc>0:
            carry=0
            if s>0:
                for i in range(lc):
                    l=limbs[i]
                    limbs[i]=((l<<s)&M)|carry; carry=l>>(64-s)
                carry|=(hi<<s)&M
                if (hi<<s)>M: bad=True
            else: carry=hi
            Dn=D<<s
            if carry>=Dn: bad=True
            for i in reversed(range(lc)):
                n=carry*B+limbs[i]
                q=n//Dn; rem=n%Dn
                limbs[i]=q&M; carry=rem
            if ((limbs[lc-1]<<s)&M)<D:
                hi=limbs[lc-1]; lc-=1
                if hi>=D: bad=True
            else: hi=0
            dw=carry>>s
        else:
            dw=hi;hi=0
        for _ in range(min(k,oi)):
            oi-=1
            dw,d=dw//r,dw%r
            out[oi]="0123456789abcdefghijklmnopqrstuvwxyz"[d]
        if oi==0:break
    o="".join(out).lstrip("0") or "0"
    return o,bad
def tolimbs(x,n): return [(x>>(64*i))&M for i in range(n)]
if __name__=="__main__":
    import sys
    for r in [5,7,11,13]:
        k,D,s=params(r)
        hs=D>>s
        found=0
        for lc in range(1,4):
            for j in range(1,60):
                frac=(D%(2**s))
                L=(B**lc*frac+(2**s)-1)//(2**s)
                Vj=hs*B**lc+L
                V0=Vj*D**j
                n=(V0.bit_length()+63)//64
                for nn in (n,n+1):
                    if nn>32: continue
                    o,bad=encode_base(r,tolimbs(V0,nn),nn*(k+1))
                    if o!=numeral(r,V0) or bad:
                        found+=1
                        if found<4: print("r",r,"lc",lc,"j",j,"n",nn,"bad",bad,"wrong",o!=numeral(r,V0), hex(V0))
        print(r,"found",found)
