#!/bin/bash
# usage: import_seeds.sh Cxx  -- imports /tmp/mut/Cxx_w3_out/m5,m6 as seeded/Cxx_m<next>, confirms each in a scratch worktree
# (suite passes with the change, demo fails with it and passes without) with tools/confirm_seed.sh
P=$1
W=${2:-w3}
for m in m5 m6; do
  src=/tmp/mut/${P}_${W}_out/$m
  [ -f $src/patch.diff ] || { echo "$P $m: no patch"; continue; }
  n=1; while [ -d /verif/seeded/${P}_m$n ]; do n=$((n+1)); done
  name=${P}_m$n
  rm -f /var/tmp/seed_$name.log /var/tmp/seed_$name.log.all; bash /verif/tools/confirm_seed.sh $src $name > /var/tmp/confirm_$name.txt 2>&1
  line=$(tail -1 /var/tmp/confirm_$name.txt)
  echo "$line"
  # the crate's own tests must all pass: failing tests other than the demo's (tests/zz_demo.rs) disqualify the seed
  other=$(grep -E "^test .* FAILED$" /var/tmp/seed_$name.log /var/tmp/seed_$name.log.all 2>/dev/null | grep -v "zz_demo" | awk '{print $2}' | sort -u | while read t; do grep -q "fn $t\b" $src/demo.rs || echo $t; done | head -3)
  if echo "$line" | grep -q "demo mutated: test result: FAILED" && echo "$line" | grep -q "demo pristine: test result: ok" && [ -z "$other" ]; then
    mkdir -p /verif/seeded/$name; cp $src/patch.diff $src/demo.rs $src/meta.json /verif/seeded/$name/
    python3 - "$name" "$line" "${W#w}" <<'PY'
import json,sys
p='/verif/seeded/%s/meta.json'%sys.argv[1]
m=json.load(open(p)); m['confirmed_by_coordinator']=sys.argv[2]; m['wave']=int(sys.argv[3])
json.dump(m,open(p,'w'),indent=1)
PY
    echo "stored $name"
  else
    echo "NOT CONFIRMED $name"
  fi
done
