#!/bin/bash
# usage: import_seeds.sh Cxx  -- imports /tmp/mut/Cxx_w3_out/m5,m6 as seeded/Cxx_m<next>, confirms each in a scratch worktree
# (suite passes with the change, demo fails with it and passes without) with tools/confirm_seed.sh
P=$1
for m in m5 m6; do
  src=/tmp/mut/${P}_w3_out/$m
  [ -f $src/patch.diff ] || { echo "$P $m: no patch"; continue; }
  n=1; while [ -d /verif/seeded/${P}_m$n ]; do n=$((n+1)); done
  name=${P}_m$n
  bash /verif/tools/confirm_seed.sh $src $name > /var/tmp/confirm_$name.txt 2>&1
  line=$(tail -1 /var/tmp/confirm_$name.txt)
  echo "$line"
  if echo "$line" | grep -q "demo mutated: test result: FAILED" && echo "$line" | grep -q "demo pristine: test result: ok" && echo "$line" | grep -Eq "default=[0-9]+p/0f all=[0-9]+p/[0-9]+f"; then
    mkdir -p /verif/seeded/$name; cp $src/patch.diff $src/demo.rs $src/meta.json /verif/seeded/$name/
    python3 - "$name" "$line" <<'PY'
import json,sys
p='/verif/seeded/%s/meta.json'%sys.argv[1]
m=json.load(open(p)); m['confirmed_by_coordinator']=sys.argv[2]; m['wave']=3
json.dump(m,open(p,'w'),indent=1)
PY
    echo "stored $name"
  else
    echo "NOT CONFIRMED $name"
  fi
done
