#!/usr/bin/env python3
"""Runs the quick (or given) tier of every claimed check on the current tree, a few at a time; prints a summary."""
import json, os, subprocess, sys, time
from concurrent.futures import ThreadPoolExecutor
ROOT = os.path.dirname(os.path.dirname(os.path.abspath(__file__)))
tier = sys.argv[1] if len(sys.argv) > 1 else 'quick'
only = sys.argv[2:]
m = json.load(open(os.path.join(ROOT, 'MANIFEST.json')))
ids = [c['property_id'] for c in m['checks'] if not only or c['property_id'] in only]
subprocess.run([os.path.join(ROOT, 'check'), '--setup'], cwd=ROOT, stdout=subprocess.DEVNULL)
def run(pid):
    t = time.time()
    r = subprocess.run([os.path.join(ROOT, 'check'), pid, '--tier', tier], cwd=ROOT, capture_output=True, text=True)
    last = [l for l in r.stdout.strip().split('\n') if l][-1:] or ['']
    viol = [l for l in r.stdout.split('\n') if l.startswith('VIOLATION')]
    return pid, r.returncode, round(time.time() - t), (viol[0] if viol else last[0])[:160]
with ThreadPoolExecutor(max_workers=3) as ex:
    for pid, rc, dt, msg in ex.map(run, ids):
        print('%s rc=%d %4ds %s' % (pid, rc, dt, msg), flush=True)
