#!/bin/bash
# Saves the work in progress of sub-agents (/var/tmp/w_Cxx builder copies, /var/tmp/t_Cxx table-proof copies: source files
# that are new or differ from /verif) under /verif/wip/<copy name>/ so that it survives a sandbox restore; wip/ is inert
# (not part of the Coq project or the harness).
cd /verif
for d in /var/tmp/w_C* /var/tmp/t_C*; do
  [ -d "$d" ] || continue
  p=$(basename $d | sed 's/^w_//')
  mkdir -p wip/$p
  (cd $d && find coq/Model coq/Proofs coq/Props coq/Extract harness/src tools ocaml known_findings.json check -type f \
      \( -name '*.v' -o -name '*.rs' -o -name '*.py' -o -name '*.json' -o -name '*.diff' -o -name '*.md' -o -name '*.sh' -o -name '*.txt' -o -name 'driver.ml' -o -name check \) 2>/dev/null \
     | grep -v 'coq/Model/Api.v\|harness/src/ops/mod.rs\|__pycache__\|/cases_' \
     | while read f; do cmp -s "$d/$f" "/verif/$f" || echo "$f"; done ) > /tmp/wip_$p.lst
  rsync -a --max-size=2m --files-from=/tmp/wip_$p.lst $d/ wip/$p/ 2>/dev/null
done
git add -A wip >/dev/null 2>&1
git commit -qm "wip snapshot of sub-agents' copies" >/dev/null 2>&1
du -sh wip 2>/dev/null
