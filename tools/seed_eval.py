#!/usr/bin/env python3
"""Applies each seeded mutation under seeded/<name>/patch.diff to /repo, runs the quick check of its property
(and optionally others), records the verdict in seeded/<name>/result.json, and reverts /repo."""
import json, os, subprocess, sys, time
ROOT = os.path.dirname(os.path.dirname(os.path.abspath(__file__)))
names = sys.argv[1:] or sorted(os.listdir(os.path.join(ROOT, 'seeded')))
for name in names:
    d = os.path.join(ROOT, 'seeded', name)
    patch = os.path.join(d, 'patch.diff')
    if not os.path.exists(patch):
        continue
    pid = name.split('_')[0]
    extra = json.load(open(os.path.join(d, 'meta.json'))).get('also_check', []) if os.path.exists(os.path.join(d, 'meta.json')) else []
    st = subprocess.run(['git', '-C', '/repo', 'status', '--porcelain', '--untracked-files=no'], capture_output=True, text=True).stdout
    if st.strip():
        print('refusing: /repo has local changes'); sys.exit(2)
    if subprocess.run(['git', '-C', '/repo', 'apply', '--check', patch]).returncode != 0:
        print(name, 'PATCH DOES NOT APPLY'); continue
    subprocess.run(['git', '-C', '/repo', 'apply', patch], check=True)
    res = {}
    # evidence files must come from runs on the unchanged tree: keep them aside while the mutant is checked
    import shutil, tempfile
    evdir = os.path.join(ROOT, 'evidence'); keep = tempfile.mkdtemp(prefix='evkeep')
    for f in os.listdir(evdir):
        shutil.copy(os.path.join(evdir, f), keep)
    try:
        for p in [pid] + extra:
            if not os.path.exists(os.path.join(ROOT, 'tools', 'vlib', p.lower() + '.py')):
                res[p] = 'no check yet'; continue
            t = time.time()
            r = subprocess.run([os.path.join(ROOT, 'check'), p, '--tier', 'quick'], cwd=ROOT, capture_output=True, text=True)
            viol = [l for l in r.stdout.split('\n') if l.startswith('VIOLATION')]
            res[p] = {'exit': r.returncode, 'violation_line': viol[0] if viol else None, 'wall_s': round(time.time() - t)}
    finally:
        subprocess.run(['git', '-C', '/repo', 'checkout', '--', '.'], check=True)
        for f in os.listdir(keep):
            shutil.copy(os.path.join(keep, f), evdir)
        shutil.rmtree(keep, ignore_errors=True)
    json.dump(res, open(os.path.join(d, 'result.json'), 'w'), indent=1)
    print(name, {k: (v if isinstance(v, str) else ('CAUGHT' if v['exit'] == 1 else 'MISSED exit=%d' % v['exit'])) for k, v in res.items()})
