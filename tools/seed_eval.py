#!/usr/bin/env python3
"""Runs the quick check of a seeded mutation's property against the mutated source and records the verdict in
seeded/<name>/result.json.  Default mode (--scratch): the mutation is applied in a scratch git worktree of /repo's
HEAD and a private copy of /verif is pointed at it (VERIF_REPO), so /repo itself and the evidence files are never
touched (needed while other work uses /repo concurrently).  --in-place applies the patch to /repo itself
(git -C /repo apply), runs ./check in /verif and undoes it straight afterwards (git -C /repo checkout -- .)."""
import json, os, shutil, subprocess, sys, tempfile, time
ROOT = os.path.dirname(os.path.dirname(os.path.abspath(__file__)))
args = sys.argv[1:]
in_place = '--in-place' in args
names = [a for a in args if not a.startswith('--')] or sorted(os.listdir(os.path.join(ROOT, 'seeded')))
SV = '/var/tmp/seedverif/verif'
SR = '/var/tmp/seedrepo'

def sh(*cmd, **kw):
    return subprocess.run(list(cmd), capture_output=True, text=True, **kw)

if not in_place:
    os.makedirs(SV, exist_ok=True)
    sh('rsync', '-a', '--delete', '--exclude', '.cache', '--exclude', '.git', '--exclude', 'replays', '--exclude', 'seeded',
       ROOT + '/', SV + '/')
    sh('git', '-C', '/repo', 'worktree', 'remove', '--force', SR); sh('git', '-C', '/repo', 'worktree', 'prune')
    r = sh('git', '-C', '/repo', 'worktree', 'add', '--detach', SR, 'HEAD')
    if r.returncode != 0:
        print(r.stderr); sys.exit(2)
repo = '/repo' if in_place else SR
verif = ROOT if in_place else SV
try:
    for name in names:
        d = os.path.join(ROOT, 'seeded', name)
        patch = os.path.join(d, 'patch.diff')
        if not os.path.exists(patch):
            continue
        pid = name.split('_')[0]
        meta = json.load(open(os.path.join(d, 'meta.json'))) if os.path.exists(os.path.join(d, 'meta.json')) else {}
        if sh('git', '-C', repo, 'status', '--porcelain', '--untracked-files=no').stdout.strip():
            print('refusing: %s has local changes' % repo); sys.exit(2)
        if sh('git', '-C', repo, 'apply', '--check', patch).returncode != 0:
            print(name, 'PATCH DOES NOT APPLY'); continue
        sh('git', '-C', repo, 'apply', patch)
        keep = None
        if in_place:
            keep = tempfile.mkdtemp(prefix='evkeep')
            for f in os.listdir(os.path.join(ROOT, 'evidence')):
                shutil.copy(os.path.join(ROOT, 'evidence', f), keep)
        res = {}
        try:
            for p in [pid] + meta.get('also_check', []):
                if not os.path.exists(os.path.join(verif, 'tools', 'vlib', p.lower() + '.py')):
                    res[p] = 'no check yet'; continue
                t = time.time()
                env = dict(os.environ)
                if not in_place:
                    env['VERIF_REPO'] = SR
                r = subprocess.run([os.path.join(verif, 'check'), p, '--tier', 'quick'], cwd=verif, capture_output=True, text=True, env=env)
                viol = [l for l in r.stdout.split('\n') if l.startswith('VIOLATION')]
                res[p] = {'exit': r.returncode, 'violation_line': viol[0] if viol else None, 'wall_s': round(time.time() - t),
                          'mode': 'in-place' if in_place else 'scratch worktree'}
        finally:
            sh('git', '-C', repo, 'checkout', '--', '.')
            if keep:
                for f in os.listdir(keep):
                    shutil.copy(os.path.join(keep, f), os.path.join(ROOT, 'evidence'))
                shutil.rmtree(keep, ignore_errors=True)
        json.dump(res, open(os.path.join(d, 'result.json'), 'w'), indent=1)
        print(name, {k: (v if isinstance(v, str) else ('CAUGHT' if v['exit'] == 1 else 'MISSED exit=%d' % v['exit'])) for k, v in res.items()}, flush=True)
finally:
    if not in_place:
        sh('git', '-C', '/repo', 'worktree', 'remove', '--force', SR)
