#!/bin/bash
# usage: confirm_seed.sh <out_dir with patch.diff demo.rs meta.json> <name>
# Confirms a seeded mutation in a scratch worktree of /repo HEAD: applies, builds, runs the pinned suite
# (default + all features), runs the demo (must fail), reverts, runs the demo (must pass).
set -u
SRC=$1; NAME=$2
WT=/var/tmp/seedwt_$NAME
LOG=/var/tmp/seed_$NAME.log
rm -rf $WT; git -C /repo worktree prune
git -C /repo worktree add -q --detach $WT HEAD || exit 9
cd $WT
export CARGO_TARGET_DIR=/var/tmp/seed_target CARGO_NET_OFFLINE=true
res() { echo "$NAME: $1" ; echo "$NAME: $1" >> /var/tmp/seed_results.txt; }
if ! git apply --check $SRC/patch.diff 2>>$LOG; then res "PATCH-DOES-NOT-APPLY"; git -C /repo worktree remove --force $WT; exit 1; fi
git apply $SRC/patch.diff
cp $SRC/demo.rs tests/zz_demo.rs
S1=$(cargo test --offline --no-fail-fast 2>&1 | tee -a $LOG | grep -E '^test result' | awk '{p+=$4; f+=$6} END {print p"p/"f"f"}')
# suite without the demo
cargo test --offline --all-features --no-fail-fast 2>&1 > $LOG.all
FAILS=$(grep -E '^test .* FAILED|^    [a-z_:]+$' $LOG.all | grep -v zz_demo | head -5)
DEMO_M=$(cargo test --offline --all-features --test zz_demo 2>&1 | grep -E '^test result' | head -1)
git checkout -q -- src
DEMO_P=$(cargo test --offline --all-features --test zz_demo 2>&1 | grep -E '^test result' | head -1)
SUITE_ALL=$(grep -E '^test result' $LOG.all | awk '{p+=$4; f+=$6} END {print p"p/"f"f"}')
res "default=$S1 all=$SUITE_ALL | demo mutated: $DEMO_M | demo pristine: $DEMO_P"
cd /; git -C /repo worktree remove --force $WT
