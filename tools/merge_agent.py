#!/usr/bin/env python3
"""tools/merge_agent.py Cxx [/var/tmp/w_Cxx]: copies a builder sub-agent's NEW files into /verif and merges its claim.
Shared files an agent had to touch (known_findings.json, tools/vlib/known.py, util.rs ...) are listed, not copied."""
import sys, os, shutil, json, filecmp
ROOT = os.path.dirname(os.path.dirname(os.path.abspath(__file__)))
pid = sys.argv[1]
src = sys.argv[2] if len(sys.argv) > 2 else '/var/tmp/w_' + pid
SKIP_DIRS = {'.git', '.cache', 'replays', 'evidence', 'seeded', '__pycache__', 'target'}
GEN = {'coq/Model/Api.v', 'coq/_CoqProject', 'coq/Makefile', 'coq/Makefile.conf', 'coq/.Makefile.d', 'harness/src/ops/mod.rs',
       'harness/Cargo.toml', 'ct/Cargo.toml', 'coq/model.ml', 'coq/model.mli'}
OWN = {'coq/Props/%s.v' % pid, 'tools/vlib/%s.py' % pid.lower()}
new, changed = [], []
for d, dirs, files in os.walk(src):
    dirs[:] = [x for x in dirs if x not in SKIP_DIRS]
    for f in files:
        p = os.path.join(d, f); rel = os.path.relpath(p, src)
        if rel in GEN or rel.endswith(('.vo', '.vok', '.vos', '.glob', '.aux', '.cmi', '.cmx', '.cmo', '.o', '.pyc', '.lock')) or '/.' in '/' + rel and not rel.startswith('.gitignore'):
            continue
        if rel.startswith('ocaml/') and f in ('model.ml', 'model.mli', 'driver'):
            continue
        dst = os.path.join(ROOT, rel)
        if not os.path.exists(dst):
            new.append(rel)
        elif not filecmp.cmp(p, dst, shallow=False):
            changed.append(rel)
for rel in new + [c for c in changed if c in OWN]:
    dst = os.path.join(ROOT, rel)
    os.makedirs(os.path.dirname(dst), exist_ok=True)
    shutil.copy(os.path.join(src, rel), dst)
    print('copied', rel)
cj = os.path.join(src, 'tools', 'claims_%s.json' % pid)
if os.path.exists(cj):
    claims = json.load(open(os.path.join(ROOT, 'tools', 'claims.json')))
    claims[pid] = json.load(open(cj))
    json.dump(claims, open(os.path.join(ROOT, 'tools', 'claims.json'), 'w'), indent=1)
    print('claim merged')
print('SHARED FILES THAT DIFFER (merge by hand):', [c for c in changed if c not in OWN])
