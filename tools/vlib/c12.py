"""C12: NonZero<T> / Odd<T> can never hold an invalid value (T in Limb, Uint<N>, Int<N>, BoxedUint).

PRODUCERS below is the committed producer table: every item that tools/scan_producers.py finds in the CURRENT crate
source (pub fn / const / trait impl / derive / macro / pub field / &mut-self method whose return type or Self mentions
NonZero<..> / Odd<..>) is mapped to
  * the model op(s) of coq/Model/Wrappers.v (table `producers`) and the rust routes of harness/src/ops/c12.rs that
    exercise it, or
  * `delegates`: it only forwards an already valid wrapper / calls a mapped producer (with the reason), or
  * `not_producer`: the scanner's syntactic test matched but no wrapper is returned (with the reason), or
  * `known`: a recorded open finding.
extra_check() fails the check (VIOLATION ... no-failing-input-found) when the source has a producer without an entry,
when an entry names a model op / route that does not exist or that gen() does not exercise, when a raw construction site
`NonZero(..)` / `Odd(..)` / `Self(..)` appears in a function that is not listed in RAW_SITES; and it evaluates, independently
of the Coq model, the invariant predicate (value != 0 / value odd) and the stated byte order on every produced value.

gen(): per producer
  * gated constructors: 0, 1, 2, 3, MAX, MAX-1, 2^63, 2^64 (low limb zero), only the top limb / top bit set, even and odd
    random values, alphabet limbs; Int: -1, MIN, MAX, MIN+1; every route (new / to_nz / to_odd / new_unwrap / unwrap /
    expect / Option / CtOption);
  * constants / Default / From<NonZeroU*>: every kind and width; 1, 2, max, top-bit of every primitive width, u128 into
    one limb (assertion);
  * decoders in BOTH byte orders: asymmetric byte patterns (first byte 1 / last byte 1 -> odd in one order, even in the
    other; a single non-zero byte at every position class), all-zero, all-ff, random; hex in lower / upper / mixed case,
    garbage (non-hex ASCII incl. the neighbours of the accepted ranges, wrong length by +-1, +-2, empty);
  * serde: well-formed payloads of zero / even / odd / MAX, wrong length field, truncated, empty, trailing bytes;
  * selection: all pairs of boundary values with choice 0 / 1 / other non-zero encodings; swap;
  * random: all-zero streams, streams that start with 1..3 rejected blocks, n-1 zero words then a non-zero one, even /
    odd / MAX words, exhausted streams (fallible and panicking RNG), Odd<BoxedUint> bit lengths 1, 2, 31..33, 63..65, 127..129, 320;
  * wrappers from wrappers: clone / copy / deref / as_nz_ref / AsRef / MontyParams::modulus / From<Odd<Uint>> / widen;
widths: Limb; Uint/Int 1, 2, 3, 4, 8 (+16 for constructors); BoxedUint 1..=5 limbs; both build profiles."""
import os, re, sys
from .common import Case
from .gen import *
from . import common as C

KIND_LIMB, KIND_UINT, KIND_INT, KIND_BOXED = 0, 1, 2, 3
NS = [1, 2, 3, 4, 8]
NS_WIDE = [1, 2, 3, 4, 8, 16]
BOXED_NS = [1, 2, 3, 4, 5]
ARR_NS = [1, 2, 3, 4, 8]
MONTY_NS = [1, 2, 4, 8]
# keep in sync with harness/src/ops/c12.rs::MODULI
MODULI = [
    "0000000000000003",
    "ffffffffffffffff",
    "8000000000000001",
    "00000000000000010000000000000001",
    "0100000000000000ffffffffffffffff",
    "0000000000000001ffffffffffffffffffffffffffffffff",
    "ffffffff00000001000000000000000000000000ffffffffffffffffffffffff",
    "0100000000000000000000000000000000000000000000000000000000000001",
]
KNOWN_ZEROIZE = 'F27'

# ------------------------------------------------------------------------------------------------ the producer table
NZ, OD = 'src/non_zero.rs::', 'src/odd.rs::'
_NZU = NZ + 'impl<const LIMBS: usize> NonZero<Uint<LIMBS>>::'
_NZL = NZ + 'impl NonZero<Limb>::'


def _ops(*ops, **kw):
    d = {'ops': list(ops)}
    d.update(kw)
    return d


PRODUCERS = {
    # ---- src/non_zero.rs
    NZ + 'struct NonZero::Clone': _ops('w.nz.same.clone', why='derived Clone copies the wrapped value'),
    NZ + 'struct NonZero::Copy': _ops('w.nz.same.copy', why='bitwise copy of a valid wrapper'),
    NZ + 'impl<T> NonZero<T>::new': _ops('w.nz.new.limb', 'w.nz.new.uint', 'w.nz.new.uint.int', 'w.nz.new.boxed'),
    NZ + 'impl<T> NonZero<T>::ONE': _ops('w.nz.one'),
    NZ + 'impl<T> NonZero<T>::MAX': _ops('w.nz.max'),
    NZ + 'impl<T> NonZero<T>::from_be_bytes': _ops('w.nz.from_be_bytes', 'w.nz.from_be_bytes.limb'),
    NZ + 'impl<T> NonZero<T>::from_le_bytes': _ops('w.nz.from_le_bytes', 'w.nz.from_le_bytes.limb'),
    _NZL + 'new_unwrap': _ops('w.nz.new_unwrap.limb'),
    _NZL + 'from_u8': _ops('w.nz.from_prim.limb'),
    _NZL + 'from_u16': _ops('w.nz.from_prim.limb'),
    _NZL + 'from_u32': _ops('w.nz.from_prim.limb'),
    _NZL + 'from_u64': _ops('w.nz.from_prim.limb'),
    _NZU + 'new_unwrap': _ops('w.nz.new_unwrap.uint'),
    _NZU + 'from_u8': _ops('w.nz.from_prim.uint'),
    _NZU + 'from_u16': _ops('w.nz.from_prim.uint'),
    _NZU + 'from_u32': _ops('w.nz.from_prim.uint'),
    _NZU + 'from_u64': _ops('w.nz.from_prim.uint'),
    _NZU + 'from_u128': _ops('w.nz.from_prim.uint'),
    NZ + 'impl<const LIMBS: usize> NonZero<Int<LIMBS>>::abs_sign': _ops('w.nz.abs_sign'),
    NZ + 'impl<T> NonZero<T>::from_be_byte_array': _ops('w.nz.from_be_byte_array'),
    NZ + 'impl<T> NonZero<T>::from_le_byte_array': _ops('w.nz.from_le_byte_array'),
    NZ + 'impl<T> ConditionallySelectable for NonZero<T>::conditional_select': _ops(
        'w.nz.select', 'w.nz.select.assign', 'w.nz.select.ct_select', 'w.nz.select.ct_assign', 'w.nz.select.int',
        'w.nz.select.limb', 'w.nz.select.limb.assign', 'w.nz.select.limb.ct_select', 'w.nz.swap', 'w.nz.swap.ct_swap',
        'w.nz.swap.int'),
    NZ + 'impl<T> Default for NonZero<T>::default': _ops('w.nz.default'),
    NZ + 'impl<T> Random for NonZero<T>::try_random': _ops(
        'w.nz.random', 'w.nz.random.infallible', 'w.nz.random.int', 'w.nz.random.int_infallible', 'w.nz.random.limb',
        'w.nz.random.limb_infallible',
        why='the instance NonZero<ConstMontyForm> (a T outside C12) is the C19 op nonzero_monty.random'),
    NZ + 'impl From<NonZeroU8> for NonZero<Limb>::from': _ops('w.nz.from_prim.limb.from'),
    NZ + 'impl From<NonZeroU16> for NonZero<Limb>::from': _ops('w.nz.from_prim.limb.from'),
    NZ + 'impl From<NonZeroU32> for NonZero<Limb>::from': _ops('w.nz.from_prim.limb.from'),
    NZ + 'impl From<NonZeroU64> for NonZero<Limb>::from': _ops('w.nz.from_prim.limb.from'),
    NZ + 'impl<const LIMBS: usize> From<NonZeroU8> for NonZero<Uint<LIMBS>>::from': _ops('w.nz.from_prim.uint.from'),
    NZ + 'impl<const LIMBS: usize> From<NonZeroU16> for NonZero<Uint<LIMBS>>::from': _ops('w.nz.from_prim.uint.from'),
    NZ + 'impl<const LIMBS: usize> From<NonZeroU32> for NonZero<Uint<LIMBS>>::from': _ops('w.nz.from_prim.uint.from'),
    NZ + 'impl<const LIMBS: usize> From<NonZeroU64> for NonZero<Uint<LIMBS>>::from': _ops('w.nz.from_prim.uint.from'),
    NZ + 'impl<const LIMBS: usize> From<NonZeroU128> for NonZero<Uint<LIMBS>>::from': _ops('w.nz.from_prim.uint.from'),
    NZ + "impl<'de, T: Deserialize<'de> + Zero> Deserialize<'de> for NonZero<T>::deserialize": _ops(
        'w.nz.serde_de', 'w.nz.serde_de.from_reader', 'w.nz.serde_de.limb',
        why='Int and BoxedUint have no Deserialize impl'),
    NZ + 'impl<T: zeroize::Zeroize + Zero> zeroize::Zeroize for NonZero<T>::zeroize': {
        'known': KNOWN_ZEROIZE, 'harness_ops': ['w.nz.zeroize'],
        'why': 'zeroize() overwrites the wrapped value with zero in place: a NonZero holding 0 stays usable'},
    # ---- src/odd.rs
    OD + 'struct Odd::Clone': _ops('w.odd.same.clone', why='derived Clone copies the wrapped value'),
    OD + 'struct Odd::Copy': _ops('w.odd.same.copy', why='bitwise copy of a valid wrapper'),
    # unrepaired tree: #[derive(Default)] = Odd(T::default()) = Odd(0) (finding F3a); repaired: impl Default = ONE
    OD + 'struct Odd::Default': _ops('w.odd.default'),
    OD + 'impl<T> Default for Odd<T>::default': _ops('w.odd.default'),
    OD + 'impl<T> Odd<T>::new': _ops('w.odd.new', 'w.odd.new.boxed'),
    OD + 'impl<T> Odd<T>::as_nz_ref': _ops('w.odd.as_nz_ref'),
    OD + 'impl<const LIMBS: usize> Odd<Uint<LIMBS>>::from_be_hex': _ops('w.odd.from_be_hex'),
    OD + 'impl<const LIMBS: usize> Odd<Uint<LIMBS>>::from_le_hex': _ops('w.odd.from_le_hex'),
    OD + 'impl<T> AsRef<NonZero<T>> for Odd<T>::as_ref': _ops('w.odd.as_nz_ref.as_ref'),
    OD + 'impl<T> ConditionallySelectable for Odd<T>::conditional_select': _ops(
        'w.odd.select', 'w.odd.select.assign', 'w.odd.select.ct_select', 'w.odd.select.ct_assign', 'w.odd.select.int',
        'w.odd.swap', 'w.odd.swap.ct_swap'),
    OD + 'impl<const LIMBS: usize> Random for Odd<Uint<LIMBS>>::try_random': _ops('w.odd.random', 'w.odd.random.infallible'),
    OD + 'impl Odd<BoxedUint>::random': _ops('w.odd.random_boxed', 'w.odd.random_boxed.infallible_rng'),
    OD + "impl<'de, T: Deserialize<'de> + Integer + Zero> Deserialize<'de> for Odd<T>::deserialize": _ops(
        'w.odd.serde_de', 'w.odd.serde_de.from_reader', why='BoxedUint has no Deserialize impl'),
    OD + 'impl<T: zeroize::Zeroize> zeroize::Zeroize for Odd<T>::zeroize': {
        'known': KNOWN_ZEROIZE, 'harness_ops': ['w.odd.zeroize'],
        'why': 'zeroize() overwrites the wrapped value with zero in place: an Odd holding 0 stays usable'},
    # ---- to_nz / to_odd and the ConstCtOption extractors
    'src/limb.rs::impl Limb::to_nz': _ops('w.nz.to_nz.limb', 'w.nz.to_nz.limb.ctopt', 'w.nz.new_unwrap.limb.to_nz_unwrap'),
    'src/uint.rs::impl<const LIMBS: usize> Uint<LIMBS>::to_nz': _ops(
        'w.nz.to_nz.uint', 'w.nz.to_nz.uint.ctopt', 'w.nz.new_unwrap.uint.to_nz_unwrap'),
    'src/uint.rs::impl<const LIMBS: usize> Uint<LIMBS>::to_odd': _ops('w.odd.to_odd', 'w.odd.to_odd.ctopt', 'w.odd.to_odd_unwrap'),
    'src/int.rs::impl<const LIMBS: usize> Int<LIMBS>::to_nz': _ops(
        'w.nz.to_nz.uint.int', 'w.nz.to_nz.uint.int_ctopt', 'w.nz.new_unwrap.uint.int_to_nz_unwrap'),
    'src/int.rs::impl<const LIMBS: usize> Int<LIMBS>::to_odd': _ops('w.odd.to_odd.int', 'w.odd.to_odd.int_ctopt', 'w.odd.to_odd_unwrap.int'),
    'src/uint/boxed.rs::impl BoxedUint::to_odd': _ops('w.odd.new.boxed_to_odd'),
    'src/const_choice.rs::impl<const LIMBS: usize> ConstCtOption<NonZero<Uint<LIMBS>>>::expect': _ops('w.nz.new_unwrap.uint.to_nz_expect'),
    'src/const_choice.rs::impl<const LIMBS: usize> ConstCtOption<Odd<Uint<LIMBS>>>::expect': _ops('w.odd.to_odd_unwrap.expect'),
    'src/const_choice.rs::impl ConstCtOption<NonZero<Limb>>::expect': _ops('w.nz.new_unwrap.limb.to_nz_expect'),
    # ---- wrappers handed out by other types
    'src/uint/boxed.rs::impl NonZero<BoxedUint>::widen': _ops('w.nz.widen'),
    'src/uint/boxed/from.rs::impl<const LIMBS: usize> From<Odd<Uint<LIMBS>>> for Odd<BoxedUint>::from': _ops('w.odd.same.to_boxed'),
    'src/uint/boxed/from.rs::impl<const LIMBS: usize> From<&Odd<Uint<LIMBS>>> for Odd<BoxedUint>::from': _ops('w.odd.same.to_boxed_ref'),
    'src/modular/monty_form.rs::impl<const LIMBS: usize> MontyParams<LIMBS>::modulus': _ops(
        'w.odd.same.monty_params', 'w.odd.from_be_hex.from_const_params',
        why='returns the Odd given to MontyParams::new / the MODULUS of the ConstMontyParams'),
    'src/modular/boxed_monty_form.rs::impl BoxedMontyParams::modulus': _ops(
        'w.odd.same.boxed_monty_params', 'w.odd.same.boxed_monty_params_vartime', why='returns the Odd given to the constructor'),
    "src/modular/const_monty_form.rs::pub trait ConstMontyParams<const LIMBS: usize>: Copy + Debug + Default + Eq + Send + Sync + 'static::MODULUS": _ops(
        'w.odd.from_be_hex.impl_modulus',
        why='a safe implementor has to build the constant with a public producer; impl_modulus! uses Odd::from_be_hex'),
    'src/modular/const_monty_form/macros.rs::macro_rules! impl_modulus::Odd::<$uint_type>::from_be_hex': _ops(
        'w.odd.from_be_hex.impl_modulus', 'w.odd.from_be_hex.from_const_params'),
    # ---- syntactic matches that return no wrapper
    'src/uint/gcd.rs::impl<const SAT_LIMBS: usize, const UNSAT_LIMBS: usize> Gcd<Uint<SAT_LIMBS>> for Odd<Uint<SAT_LIMBS>>::gcd_vartime': {
        'not_producer': 'Self::Output = Uint<SAT_LIMBS>'},
    'src/uint/boxed/gcd.rs::impl Gcd<BoxedUint> for Odd<BoxedUint>::gcd_vartime': {'not_producer': 'Self::Output = BoxedUint'},
    'src/uint/macros.rs::impl PrecomputeInverter for Odd<$name>::precompute_inverter': {'not_producer': 'Self::Inverter = SafeGcdInverter'},
    'src/uint/macros.rs::impl PrecomputeInverterWithAdjuster<$name> for Odd<$name>::precompute_inverter_with_adjuster': {
        'not_producer': 'Self::Inverter = SafeGcdInverter'},
    'src/uint/macros.rs::macro_rules! impl_precompute_inverter_trait::(mentions wrapper types only)': {
        'not_producer': 'the macro implements PrecomputeInverter for Odd<$name>; no wrapper is constructed'},
    'src/uint/macros.rs::macro_rules! impl_uint_concat_split_mixed::(mentions wrapper types only)': {
        'not_producer': 'NonZero occurs as the parameter type of rem_mixed only'},
}

# functions that build a wrapper with the tuple constructor and do NOT return it (internal use), or that are not public
RAW_SITES = {
    'src/modular/monty_form.rs::impl<const LIMBS: usize, const WIDE_LIMBS: usize> MontyParams<LIMBS>::new':
        'NonZero(modulus.0.concat(&ZERO)): the widened odd modulus is non-zero; used for one rem, not returned',
    'src/modular/monty_form.rs::impl<const LIMBS: usize> MontyParams<LIMBS>::from_const_params':
        'Odd(P::MODULUS.0): re-wraps the value of an Odd constant (route w.odd.from_be_hex.from_const_params)',
    'src/uint/div_limb.rs::impl Reciprocal::divisor': 'pub(crate); the normalised divisor shifted back is the non-zero divisor the Reciprocal was built from (C02)',
    'src/uint/encoding.rs::impl RadixDivisionParams::ALL': 'private constant table: radix^digits_limb >= 3 (C17)',
    'src/uint/inv_mod.rs::impl<const LIMBS: usize, const UNSAT_LIMBS: usize> Uint<LIMBS>::inv_mod':
        'Odd(s) of the odd part s of the modulus; s is odd unless the modulus is 0, and that case is masked by and_choice(s_is_odd) (C10)',
    'src/uint/sqrt.rs::impl<const LIMBS: usize> Uint<LIMBS>::sqrt': 'NonZero(select(ONE, x, x_nonzero)): never zero (C20)',
    'src/uint/boxed/div.rs::impl BoxedUint::checked_div': 'NonZero(ct_select(one, rhs, is_nz)): never zero (C02)',
    'src/uint/boxed/inv_mod.rs::impl BoxedUint::inv_mod': 'Odd(s) of the odd part of the modulus (C10)',
    'src/uint/boxed/sqrt.rs::impl BoxedUint::sqrt': 'NonZero(x) guarded by the x_nonzero select of the loop (C20)',
}


# ------------------------------------------------------------------------------------------------ value classes
def uvals(rng, n, k=6):
    """boundary values of an n-limb unsigned integer (as ints)"""
    M = 1 << (64 * n)
    vs = [0, 1, 2, 3, M - 1, M - 2, 1 << 63, (1 << 63) + 1, 1 << (64 * n - 1), (1 << (64 * n - 1)) + 1, M >> 1, (M >> 1) - 1]
    if n > 1:
        vs += [1 << 64, (1 << 64) + 1, 1 << (64 * (n - 1)), MAXW, MAXW << 64, (MAXW - 1), 1 << 65, M - (1 << 64)]
    for _ in range(k):
        v = value(rng, n)
        vs += [v, v | 1, v & ~1]
    return [v % M for v in vs]


def ivals(rng, n, k=4):
    """two's complement patterns of boundary Int values"""
    M = 1 << (64 * n)
    H = M >> 1
    s = [0, 1, -1, 2, -2, 3, -3, H - 1, -H, -H + 1, H - 2, 1 << 63 if n > 1 else 5, -(1 << 63)]
    for _ in range(k):
        s.append(value(rng, n) - H)
    return [x % M for x in s]


def hexchars(rng, bs, mode=None):
    mode = mode or rng.choice('lum')
    out = []
    for b in bs:
        for d in (b >> 4, b & 15):
            ch = '0123456789abcdef'[d]
            if mode == 'u' or (mode == 'm' and rng.random() < 0.5):
                ch = ch.upper()
            out.append(ord(ch))
    return out


def byte_patterns(rng, n):
    """byte strings of 8n bytes whose two readings differ in parity / zero-ness"""
    L = 8 * n
    z = [0] * L
    pats = [z[:], [0xff] * L]
    p = z[:]; p[0] = 1; pats.append(p)              # LE: 1 (odd)   BE: 2^(8L-8) (even)
    p = z[:]; p[-1] = 1; pats.append(p)             # LE: even      BE: 1
    p = z[:]; p[0] = 2; pats.append(p)              # LE: 2         BE: even
    p = z[:]; p[-1] = 2; pats.append(p)
    p = z[:]; p[0] = 1; p[-1] = 2; pats.append(p)   # odd in LE only
    p = z[:]; p[0] = 2; p[-1] = 1; pats.append(p)   # odd in BE only
    p = z[:]; p[0] = 0x80; pats.append(p)
    p = z[:]; p[-1] = 0x80; pats.append(p)
    if L > 8:
        p = z[:]; p[7] = 1; pats.append(p)
        p = z[:]; p[8] = 1; pats.append(p)
        p = z[:]; p[L - 8] = 1; pats.append(p)
        p = z[:]; p[L - 9] = 1; pats.append(p)
    pats.append([(i * 37 + 11) % 256 for i in range(L)])
    pats.append([(i * 91 + 200) % 256 for i in range(L)])
    for _ in range(4):
        p = z[:]; p[rng.randrange(L)] = rng.randrange(1, 256); pats.append(p)
    for _ in range(4):
        pats.append(list(from_limbs(limbs(rng, n)).to_bytes(L, rng.choice(['little', 'big']))))
    return pats


BAD_HEX = [0x2f, 0x3a, 0x40, 0x47, 0x60, 0x67, 0x20, 0x2b, 0x2d, 0x5f, 0x78, 0x58, 0x00, 0x7f, 0x0a, 0x67, 0x47]


def serde_payload(n, v, lenfield=None, body_len=None, extra=0):
    body = list(v.to_bytes(8 * n, 'little'))
    if body_len is not None:
        body = (body + [0] * body_len)[:body_len]
    lf = 8 * n if lenfield is None else lenfield
    return list((lf % (1 << 64)).to_bytes(8, 'little')) + body + [0xaa] * extra


# ------------------------------------------------------------------------------------------------ generator
def gen(tier, rng):
    scale = 1 if tier == 'quick' else 6
    cs = []

    def add(rop, args, mop, dbg=True):
        cs.append(Case(rop, args, mop=mop, dbg=dbg))

    # ---------------- gated constructors
    limb_vals = [0, 1, 2, 3, MAXW, MAXW - 1, 1 << 63, (1 << 63) + 1, 1 << 8, 1 << 32, 0x100, 0xff00, 0x80] + \
                [limb(rng) for _ in range(20 * scale)]
    for x in limb_vals:
        add('w.nz.new.limb', [[x]], 'w.nz.new.limb')
        for r in ('', '.ctopt'):
            add('w.nz.to_nz.limb' + r, [[x]], 'w.nz.to_nz.limb')
        for r in ('', '.to_nz_unwrap', '.to_nz_expect'):
            add('w.nz.new_unwrap.limb' + r, [[x]], 'w.nz.new_unwrap.limb')
    for n in NS_WIDE:
        for v in uvals(rng, n, 6 * scale):
            a = to_limbs(v, n)
            add('w.nz.new.uint', [a], 'w.nz.new.uint')
            for r in ('', '.ctopt'):
                add('w.nz.to_nz.uint' + r, [a], 'w.nz.to_nz.uint')
            for r in ('', '.to_nz_unwrap', '.to_nz_expect'):
                add('w.nz.new_unwrap.uint' + r, [a], 'w.nz.new_unwrap.uint')
            add('w.odd.new', [a], 'w.odd.new')
            for r in ('', '.ctopt'):
                add('w.odd.to_odd' + r, [a], 'w.odd.to_odd')
            for r in ('', '.expect'):
                add('w.odd.to_odd_unwrap' + r, [a], 'w.odd.to_odd_unwrap')
        for v in ivals(rng, n, 4 * scale):
            a = to_limbs(v, n)
            add('w.nz.new.uint.int', [a], 'w.nz.new.uint')
            for r in ('.int', '.int_ctopt'):
                add('w.nz.to_nz.uint' + r, [a], 'w.nz.to_nz.uint')
                add('w.odd.to_odd' + r, [a], 'w.odd.to_odd')
            add('w.nz.new_unwrap.uint.int_to_nz_unwrap', [a], 'w.nz.new_unwrap.uint')
            add('w.odd.to_odd_unwrap.int', [a], 'w.odd.to_odd_unwrap')
            if v != 0:
                add('w.nz.abs_sign', [a], 'w.nz.abs_sign')
    for n in BOXED_NS:
        for v in uvals(rng, n, 5 * scale):
            a = to_limbs(v, n)
            add('w.nz.new.boxed', [a], 'w.nz.new.boxed')
            for r in ('.boxed', '.boxed_to_odd'):
                add('w.odd.new' + r, [a], 'w.odd.new')

    # ---------------- constants, Default
    for op in ('w.nz.one', 'w.nz.max', 'w.nz.default', 'w.odd.default'):
        add(op, [[KIND_LIMB], [1]], op)
        for n in [1, 2, 3, 4, 5, 6, 7, 8, 16, 32]:
            for k in (KIND_UINT, KIND_INT):
                add(op, [[k], [n]], op)

    # ---------------- From<core::num::NonZeroU*>
    for bits in (8, 16, 32, 64, 128):
        top = (1 << bits) - 1
        vals = [1, 2, 3, top, top - 1, 1 << (bits - 1), (1 << (bits - 1)) + 1, 1 << (bits // 2)] + \
               [rng.randrange(1, top + 1) for _ in range(3 * scale)]
        if bits == 128:
            vals += [1 << 64, (1 << 64) - 1, (1 << 64) + 1, MAXW << 64]
        for v in vals:
            pv = [v & MAXW, v >> 64] if bits == 128 else [v]
            if bits <= 64:
                for r in ('', '.from'):
                    add('w.nz.from_prim.limb' + r, [pv, [bits]], 'w.nz.from_prim.limb')
            for n in NS:
                for r in ('', '.from'):
                    add('w.nz.from_prim.uint' + r, [pv, [bits], [n]], 'w.nz.from_prim.uint')

    # ---------------- byte / array decoders, both byte orders
    for n in [1, 2, 3, 4, 5, 8]:
        for bs in byte_patterns(rng, n):
            for order in ('be', 'le'):
                add('w.nz.from_%s_bytes' % order, [bs, [n]], 'w.nz.from_%s_bytes' % order)
                if n in ARR_NS:
                    add('w.nz.from_%s_byte_array' % order, [bs, [n]], 'w.nz.from_%s_byte_array' % order)
                if n == 1:
                    add('w.nz.from_%s_bytes.limb' % order, [bs], 'w.nz.from_%s_bytes.limb' % order)
    # ---------------- hex decoders, both byte orders
    for n in NS:
        for bs in byte_patterns(rng, n):
            for order in ('be', 'le'):
                op = 'w.odd.from_%s_hex' % order
                add(op, [hexchars(rng, bs), [n]], op)
        for _ in range(6 * scale):
            bs = list(from_limbs(limbs(rng, n)).to_bytes(8 * n, 'big'))
            bs[rng.choice([0, -1])] |= 1
            good = hexchars(rng, bs)
            op = 'w.odd.from_%s_hex' % rng.choice(['be', 'le'])
            k = rng.random()
            if k < 0.45:
                bad = good[:]; bad[rng.choice([0, 1, len(bad) - 2, len(bad) - 1, rng.randrange(len(bad))])] = rng.choice(BAD_HEX)
            elif k < 0.8:
                bad = rng.choice([good[:-1], good[1:], good + [0x31], [0x30] + good, good[:-2], good + [0x30, 0x31], [], good[:1]])
            else:
                bad = [rng.choice(BAD_HEX + [0x31, 0x66]) for _ in range(len(good))]
            add(op, [bad, [n]], op)
    # the whole byte alphabet: every byte value 0x00..0xff substituted once into a valid odd numeral (position and
    # width rotate; both byte orders): a decoder that accepts ANY non-hex byte yields a wrapper from a garbage encoding
    for b in range(256):
        n = NS[b % len(NS)]
        bs = list(from_limbs(limbs(rng, n)).to_bytes(8 * n, 'big'))
        bs[0] |= 1; bs[-1] |= 1
        good = hexchars(rng, bs)
        for order in ('be', 'le'):
            bad = good[:]
            pos = [0, 1, len(bad) - 2, len(bad) - 1, (7 * b) % len(bad)][b % 5]
            bad[pos] = b
            op = 'w.odd.from_%s_hex' % order
            add(op, [bad, [n]], op)
    for i, m in enumerate(MODULI):
        chars = [ord(c) for c in m]
        for r in ('.impl_modulus', '.from_const_params'):
            add('w.odd.from_be_hex' + r, [chars, [len(m) // 16], [i]], 'w.odd.from_be_hex')

    # ---------------- serde
    for n in [1, 2, 3, 4, 8]:
        M = 1 << (64 * n)
        vals = [0, 1, 2, 3, M - 1, M - 2, 1 << 64 if n > 1 else 4, 1 << (64 * n - 1), (1 << (64 * n - 8)), 1 << 8, 0x0100] + \
               [value(rng, n) for _ in range(4 * scale)]
        for v in vals:
            v %= M
            pl = serde_payload(n, v)
            for op in ('w.nz.serde_de', 'w.odd.serde_de'):
                for r in ('', '.from_reader'):
                    add(op + r, [pl, [n]], op)
        v = rng.choice([1, 3, M - 1])
        bad = [serde_payload(n, v, lenfield=8 * n - 1), serde_payload(n, v, lenfield=8 * n + 1), serde_payload(n, v, lenfield=0),
               serde_payload(n, v, lenfield=8 * n - 8), serde_payload(n, v, lenfield=1 << 63), serde_payload(n, v, body_len=8 * n - 1),
               serde_payload(n, v, body_len=0), serde_payload(n, v)[:7], [], serde_payload(n, v, extra=3), serde_payload(n, 0, extra=1),
               serde_payload(n, v, lenfield=8 * n + 8, body_len=8 * n + 8)]
        for pl in bad:
            for op in ('w.nz.serde_de', 'w.odd.serde_de'):
                add(op, [pl, [n]], op)
    for x in [0, 1, 2, MAXW, 1 << 63, 1 << 56, 0x0100] + [limb(rng) for _ in range(6)]:
        add('w.nz.serde_de.limb', [list(x.to_bytes(8, 'little'))], 'w.nz.serde_de.limb')
    for pl in ([], [1], [1] * 7, [0] * 7, [1] + [0] * 8, [0] * 9):
        add('w.nz.serde_de.limb', [pl], 'w.nz.serde_de.limb')

    # ---------------- conditional selection between valid values
    choices = [0, 1, 1, 0, 2, 0xff, MAXW, 1 << 63]
    for n in NS:
        nzs = [v for v in uvals(rng, n, 3 * scale) if v != 0]
        ods = [v for v in uvals(rng, n, 3 * scale) if v & 1]
        inz = [v for v in ivals(rng, n, 2) if v != 0]
        iod = [v for v in ivals(rng, n, 2) if v & 1]
        for _ in range(24 * scale):
            c = rng.choice(choices)
            a, b = to_limbs(rng.choice(nzs), n), to_limbs(rng.choice(nzs), n)
            for r in ('', '.assign', '.ct_select', '.ct_assign'):
                add('w.nz.select' + r, [a, b, [c]], 'w.nz.select')
            for r in ('', '.ct_swap'):
                add('w.nz.swap' + r, [a, b, [c]], 'w.nz.swap')
            a, b = to_limbs(rng.choice(ods), n), to_limbs(rng.choice(ods), n)
            for r in ('', '.assign', '.ct_select', '.ct_assign'):
                add('w.odd.select' + r, [a, b, [c]], 'w.odd.select')
            for r in ('', '.ct_swap'):
                add('w.odd.swap' + r, [a, b, [c]], 'w.odd.swap')
            a, b = to_limbs(rng.choice(inz), n), to_limbs(rng.choice(inz), n)
            add('w.nz.select.int', [a, b, [c]], 'w.nz.select')
            add('w.nz.swap.int', [a, b, [c]], 'w.nz.swap')
            a, b = to_limbs(rng.choice(iod), n), to_limbs(rng.choice(iod), n)
            add('w.odd.select.int', [a, b, [c]], 'w.odd.select')
    lnz = [x for x in limb_vals if x != 0]
    for _ in range(30 * scale):
        c = rng.choice(choices)
        for r in ('', '.assign', '.ct_select'):
            add('w.nz.select.limb' + r, [[rng.choice(lnz)], [rng.choice(lnz)], [c]], 'w.nz.select.limb')

    # ---------------- random generation
    def streams(n):
        """word streams for blocks of n words"""
        z = [0] * n
        out = [[], z[:], z * 2, z * 3 + z[:-1] if n > 1 else z * 3]
        for k in (1, 2, 3):
            out.append(z * k + [rng.choice([1, 2, MAXW, 1 << 63])] + [0] * (n - 1))     # rejected blocks, then low word set
            out.append(z * k + [0] * (n - 1) + [rng.choice([1, 2, MAXW])])               # ... then only the top word set
        out.append([0] * (n - 1) + [1] if n > 1 else [1])
        out.append([2] + [0] * (n - 1))
        out.append([MAXW] * n)
        out.append([MAXW - 1] + [MAXW] * (n - 1))
        out.append(z + [1])                                                               # second block exhausted
        out.append([limb(rng) for _ in range(n - 1)])                                     # first block exhausted
        for _ in range(6 * scale):
            out.append([limb(rng) for _ in range(n * rng.randrange(1, 4) + rng.randrange(0, n + 1))])
        return out
    for n in NS:
        for ws in streams(n):
            add('w.nz.random', [ws, [n], [1]], 'w.nz.random')
            add('w.nz.random.infallible', [ws, [n], [0]], 'w.nz.random')
            add('w.nz.random.int', [ws, [n], [1]], 'w.nz.random')
            add('w.nz.random.int_infallible', [ws, [n], [0]], 'w.nz.random')
            add('w.odd.random', [ws, [n], [1]], 'w.odd.random')
            add('w.odd.random.infallible', [ws, [n], [0]], 'w.odd.random')
            if n == 1:
                add('w.nz.random.limb', [ws, [1], [1]], 'w.nz.random')
                add('w.nz.random.limb_infallible', [ws, [1], [0]], 'w.nz.random')
    # bit_length 0 is outside the value spec (the documentation says nothing about it) but the produced wrapper must
    # still be odd: the invariant predicate of extra_check (3) is evaluated on it
    for bl in [0, 1, 2, 3, 31, 32, 33, 63, 64, 65, 96, 97, 127, 128, 129, 192, 256, 320]:
        k = max(1, (bl + 63) // 64)
        for ws in ([0] * k, [MAXW] * k, [MAXW - 1] * k, [0] * (k - 1), [2] + [0] * (k - 1), [0] * (k - 1) + [1 << ((bl - 1) % 64)],
                   [limb(rng) for _ in range(k)], [limb(rng) for _ in range(k + 1)], [1 << 32] * k, [(1 << 32) - 2] * k):
            for r in ('', '.infallible_rng'):
                add('w.odd.random_boxed' + r, [ws, [bl]], 'w.odd.random_boxed')

    # ---------------- wrappers made from wrappers
    for x in lnz[:12]:
        for r in ('.clone', '.copy', '.get'):
            add('w.nz.same' + r, [[x], [KIND_LIMB]], 'w.nz.same')
    for n in NS:
        nzs = [v for v in uvals(rng, n, 2) if v != 0]
        ods = [v for v in uvals(rng, n, 2) if v & 1]
        for v in nzs:
            for r in ('.clone', '.copy', '.get'):
                add('w.nz.same' + r, [to_limbs(v, n), [KIND_UINT]], 'w.nz.same')
                add('w.nz.same' + r, [to_limbs(v, n), [KIND_INT]], 'w.nz.same')
        for v in ods:
            a = to_limbs(v, n)
            for r in ('.clone', '.copy', '.get'):
                add('w.odd.same' + r, [a, [KIND_UINT]], 'w.odd.same')
                add('w.odd.same' + r, [a, [KIND_INT]], 'w.odd.same')
            for r in ('.to_boxed', '.to_boxed_ref'):
                add('w.odd.same' + r, [a, [KIND_UINT]], 'w.odd.same')
            for r in ('', '.as_ref'):
                add('w.odd.as_nz_ref' + r, [a, [KIND_UINT]], 'w.odd.as_nz_ref')
                add('w.odd.as_nz_ref' + r, [a, [KIND_INT]], 'w.odd.as_nz_ref')
            if n in MONTY_NS and v > 1:
                add('w.odd.same.monty_params', [a, [KIND_UINT]], 'w.odd.same')
    for n in BOXED_NS:
        nzs = [v for v in uvals(rng, n, 2) if v != 0]
        ods = [v for v in uvals(rng, n, 2) if v & 1]
        for v in nzs:
            a = to_limbs(v, n)
            for r in ('.clone', '.get'):
                add('w.nz.same' + r, [a, [KIND_BOXED]], 'w.nz.same')
            for p in (64 * n, 64 * n + 1, 64 * n + 63, 64 * n + 64, 64 * n + 65, 64 * (n + 3), 64 * n - 1, 64 * n - 64, 0, 1):
                add('w.nz.widen', [a, [p]], 'w.nz.widen')
        for v in ods:
            a = to_limbs(v, n)
            for r in ('.clone', '.get'):
                add('w.odd.same' + r, [a, [KIND_BOXED]], 'w.odd.same')
            for r in ('', '.as_ref'):
                add('w.odd.as_nz_ref' + r, [a, [KIND_BOXED]], 'w.odd.as_nz_ref')
            if v > 1:
                for r in ('.boxed_monty_params', '.boxed_monty_params_vartime'):
                    add('w.odd.same' + r, [a, [KIND_BOXED]], 'w.odd.same')
    return cs


# ------------------------------------------------------------------------------------------------ extra check
def _coq_keys():
    src = open(os.path.join(C.COQ, 'Model', 'Wrappers.v')).read()
    src = C.strip_comments(src)
    return re.findall(r'\bPE\s+"([^"]+)"\s+(WNonZero|WOdd)\s+(\d+)', src)


def _harness_ops():
    src = open(os.path.join(C.HARNESS, 'src', 'ops', 'c12.rs')).read()
    m = re.search(r'pub const OPS: &\[&str\] = &\[(.*?)\];', src, re.S)
    return set(re.findall(r'"([^"]+)"', m.group(1)))


def _mop_of(rop, keys):
    """longest table key that is a prefix of the rust op name"""
    best = None
    for k in keys:
        if rop == k or rop.startswith(k + '.'):
            if best is None or len(k) > len(best):
                best = k
    return best


def _val(words):
    return sum(int(w, 16) << (64 * i) for i, w in enumerate(words.split(','))) if words != '-' else 0


def _parse_ok(out):
    if not out.startswith('ok '):
        return None
    return out[3:].split(';')


def _decoder_oracle(c):
    """expected integer of a decoder case by the STATED byte order (None: not a decoder / malformed input)"""
    m = re.match(r'w\.nz\.from_(be|le)_(bytes|byte_array)', c.rop)
    if m:
        bs = c.args[0]
        if any(not 0 <= b < 256 for b in bs):
            return None
        return int.from_bytes(bytes(bs), 'big' if m.group(1) == 'be' else 'little')
    m = re.match(r'w\.odd\.from_(be|le)_hex', c.rop)
    if m:
        try:
            s = bytes(c.args[0]).decode('ascii')
            if not re.fullmatch(r'[0-9a-fA-F]*', s) or len(s) % 2:
                return None
            raw = bytes.fromhex(s)
        except (ValueError, UnicodeDecodeError):
            return None
        return int.from_bytes(raw, 'big' if m.group(1) == 'be' else 'little')
    m = re.match(r'w\.(nz|odd)\.serde_de', c.rop)
    if m:
        bs = c.args[0]
        if len(bs) < 8 and not c.rop.endswith('.limb'):
            return None
        body = bs[:8] if c.rop.endswith('.limb') else bs[8:8 + 8 * c.args[1][0]]
        return int.from_bytes(bytes(body), 'little')
    return None


def extra_check(ctx):
    sys.path.insert(0, os.path.join(C.ROOT, 'tools'))
    import scan_producers
    viol = []
    stats = {}
    items, raw = scan_producers.scan(C.REPO)
    keys = _coq_keys()
    key_info = {k: (w, int(n)) for (k, w, n) in keys}
    hops = _harness_ops()
    exercised = {}
    for c in ctx.cases:
        exercised[c.rop] = exercised.get(c.rop, 0) + 1

    # (1) every producer of the source has an entry; every entry is backed by a model op, an adapter and cases
    unmapped, used_keys = [], set()
    for it in items:
        ent = PRODUCERS.get(it.ident)
        if ent is None:
            unmapped.append(it)
            continue
        for rop in ent.get('ops', []):
            k = _mop_of(rop, key_info)
            if k is None:
                viol.append({'kind': 'corr', 'obligation': 'table:' + it.ident,
                             'desc': 'producer %s is mapped to %s, which has no entry in the Coq producer table' % (it.ident, rop)})
                continue
            used_keys.add(k)
            if rop not in hops:
                viol.append({'kind': 'corr', 'obligation': 'table:' + it.ident,
                             'desc': 'producer %s is mapped to the route %s, which harness/src/ops/c12.rs does not implement' % (it.ident, rop)})
            elif not exercised.get(rop):
                viol.append({'kind': 'corr', 'obligation': 'table:' + it.ident,
                             'desc': 'route %s of producer %s is not exercised by the generator' % (rop, it.ident)})
    for it in unmapped:
        viol.append({'kind': 'corr', 'obligation': 'unmapped:' + it.ident,
                     'desc': 'the source has a %s that yields or modifies NonZero / Odd and is not in the producer table: %s (%s:%d) `%s` [%s]' % (
                         it.kind, it.ident, it.file, it.line, it.sig[:160], it.why)})
    for k in key_info:
        if k not in used_keys:
            viol.append({'kind': 'corr', 'obligation': 'orphan:' + k,
                         'desc': 'model op %s of the Coq producer table is not the image of any producer of the source' % k})
    # (2) raw construction sites outside the producers
    prod_ids = set(it.ident for it in items)
    n_raw_internal = 0
    for r in raw:
        if r['id'] in prod_ids:
            continue                     # a producer: its result is checked by the correspondence
        n_raw_internal += 1
        if r['id'] not in RAW_SITES:
            viol.append({'kind': 'corr', 'obligation': 'raw:' + r['id'],
                         'desc': 'function %s (%s:%d) builds a NonZero / Odd with the unchecked tuple constructor and is not in RAW_SITES' % (
                             r['id'], r['file'], r['line'])})
    # (3) the invariant predicate and the stated byte order, evaluated on every value the implementation produced
    n_pred = n_order = 0
    for c in ctx.cases:
        k = _mop_of(c.rop, key_info)
        if k is None:
            continue
        w, nout = key_info[k]
        for prof, tab in (('release', ctx.impl_rel), ('debug', ctx.impl_dbg)):
            o = tab.get(c.id)
            if not o:
                continue
            parts = _parse_ok(o[0])
            if parts is None:
                continue
            for comp in parts[:nout]:
                v = _val(comp)
                n_pred += 1
                if (w == 'WNonZero' and v == 0) or (w == 'WOdd' and v % 2 == 0):
                    viol.append({'kind': 'spec', 'obligation': 'invariant:' + c.rop, 'case': c.to_json(), 'profile': prof,
                                 'desc': '%s returned %s holding the invalid value %#x on %s' % (
                                     c.rop, 'NonZero' if w == 'WNonZero' else 'Odd', v, c.argstr()[:200])})
            exp = _decoder_oracle(c)
            if exp is not None:
                n_order += 1
                if _val(parts[0]) != exp:
                    viol.append({'kind': 'spec', 'obligation': 'byteorder:' + c.rop, 'case': c.to_json(), 'profile': prof,
                                 'desc': '%s decoded %#x, the stated byte order gives %#x, on %s' % (c.rop, _val(parts[0]), exp, c.argstr()[:200])})
    # (4) mutators of an existing wrapper (open finding: Zeroize)
    zc = []
    for kind, vals in ((KIND_LIMB, [[1], [MAXW]]), (KIND_UINT, [[1, 0], [0, 1], [MAXW] * 4]), (KIND_BOXED, [[1], [3, 0, 1]])):
        for v in vals:
            zc.append(Case('w.nz.zeroize', [v, [kind]], mop='w.nz.zeroize'))
            if kind != KIND_LIMB:
                zc.append(Case('w.odd.zeroize', [[v[0] | 1] + v[1:], [kind]], mop='w.odd.zeroize'))
    for i, c in enumerate(zc):
        c.id = 'z%d' % i
    zr = ctx.run_impl(zc)
    n_z = 0
    for c in zc:
        o = zr.get(c.id, ['missing'])[0]
        parts = _parse_ok(o)
        if parts is None:
            viol.append({'kind': 'corr', 'obligation': 'zeroize', 'desc': '%s did not run: %s' % (c.rop, o)})
            continue
        n_z += 1
        if _val(parts[0]) == 0:
            viol.append({'kind': 'spec', 'known': KNOWN_ZEROIZE, 'obligation': 'mutator:' + c.rop,
                         'desc': '%s: after zeroize() the wrapper holds 0 (%s)' % (c.rop, c.argstr())})
    stats.update({'producers_in_source': len(items), 'producers_mapped': len(items) - len(unmapped),
                  'raw_sites_internal': n_raw_internal, 'coq_table_entries': len(key_info),
                  'predicate_evaluations': n_pred, 'byte_order_oracle_checks': n_order, 'mutator_cases': n_z,
                  'obligations': len(items) + n_raw_internal + 2})
    return viol, stats


ASSUMPTIONS = [
    'the producer list is found syntactically (tools/scan_producers.py: pub fn / const / field / derive / macro / &mut self items whose type mentions NonZero / Odd, and tuple-constructor sites); unsafe code that forges a wrapper in another way (transmute) would not be seen',
    'constants (ONE, MAX, MODULUS) are compared as values; the compile-time evaluation that produces them is not modelled',
]
