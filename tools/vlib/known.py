"""Matchers for known_findings.json entries: each takes (case, impl, model, spec) and decides whether the
disagreement belongs to the *specific* recorded class (so other violations of the same property still alarm)."""
