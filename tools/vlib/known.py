"""Matchers for known_findings.json entries: each takes (case, impl, model, spec) and decides whether the
disagreement belongs to the *specific* recorded class (so other violations of the same property still alarm)."""


def f14_rem_uint_width(case, impl, model, spec):
    """F14: Int::div_rem_uint_vartime / rem_uint_vartime return the remainder as Int<RHS_LIMBS>; with a divisor
    type narrower than the dividend and a divisor >= 2^(64*RHS-1) the true remainder does not fit and is
    returned reinterpreted. Matches exactly: R < L and sign(n)*(|n| mod d) outside [-2^(64R-1), 2^(64R-1))."""
    if spec != 'err 1' or impl != model:
        return False
    n_l, d_l = case.args[0], case.args[1]
    L, R = len(n_l), len(d_l)
    if not R < L:
        return False
    n = sum(w << (64 * i) for i, w in enumerate(n_l))
    d = sum(w << (64 * i) for i, w in enumerate(d_l))
    if d == 0:
        return False
    if n >= 1 << (64 * L - 1):
        n -= 1 << (64 * L)
    r = abs(n) % d
    r = r if n >= 0 else -r
    return not (-(1 << (64 * R - 1)) <= r < (1 << (64 * R - 1)))


def f16_boxed_ct_select_precision(case, impl, model, spec):
    """F16: ConstantTimeSelect for BoxedUint (ct_select / ct_assign / ct_swap) on operands of different precision:
    release builds loop over the limbs of the first operand only (truncated operand, or for ct_swap a mixture of
    both operands, or an index panic when the second operand is shorter); debug builds hit a debug_assert.
    Matches exactly: the two boxed operands have different limb counts, the implementation behaves as the
    faithful model predicts (impl == model) and that differs from the documented result (spec)."""
    import re
    if not re.fullmatch(r'boxed\.(select(\.assign)?|swap)', case.rop):
        return False
    if len(case.args) != 3 or len(case.args[0]) == len(case.args[1]):
        return False
    return impl == model and impl != spec


def f27_zeroize_wrapper(case, impl, model, spec):
    """F27: Zeroize for NonZero<T> / Odd<T> writes zero into the wrapper in place. Matches exactly: a zeroize route of the
    C12 harness whose result is the all-zero value (the C12 check reports these cases through its extra_check with
    known='F27'; this matcher exists so that the entry is also usable for a case-level comparison)."""
    import re
    if not re.fullmatch(r'w\.(nz|odd)\.zeroize', case.rop) or not impl.startswith('ok '):
        return False
    first = impl[3:].split(';')[0]
    return all(int(w, 16) == 0 for w in first.split(','))


def f31_radix_error_precedence(case, impl, model, spec):
    """F31: from_str_radix_vartime (Uint, BoxedUint with precision, num_traits::Num) on a string that is NOT a numeral
    (it contains a character that is no digit of the radix) but whose digits read before that character already
    overflow the target: the decoder reports InputSize, the documentation promises InvalidDigit for such a string.
    Matches exactly that class: impl == model == InputSize, spec == InvalidDigit, the body (after an optional '+')
    neither starts nor ends with '_', and the whole batches of digits the decoder flushes before it meets the first
    offending character (generic radix: from the front, batches of ilog_radix(MAX) digits; radix 2/4/16: from the
    back, one limb per 64/log2(radix) digits) do not fit the limbs of the target."""
    if not (spec == 'err 1' and impl == 'err 2' and model == 'err 2'):
        return False
    s = list(case.args[0]); r = case.args[1][0] if case.args[1] else 0
    if not 2 <= r <= 36:
        return False
    if case.mop == 'uint.from_str_radix':
        cap = case.args[2][0]
    elif case.mop == 'boxed.from_str_radix_prec':
        cap = max(1, (case.args[2][0] + 63) // 64)
    else:
        return False
    body = s[1:] if s[:1] == [0x2b] else s
    if not body or body[0] == 0x5f or body[-1] == 0x5f:
        return False
    i = 0
    while i < len(body) and body[i] in (0x30, 0x5f):
        i += 1
    body = body[i:]

    def dig(c):
        if 0x30 <= c <= 0x39: d = c - 0x30
        elif 0x61 <= c <= 0x7a: d = c - 0x61 + 10
        elif 0x41 <= c <= 0x5a: d = c - 0x41 + 10
        else: return None
        return d if d < r else None
    if r in (2, 4, 16):
        per = 64 // {2: 1, 4: 2, 16: 4}[r]
        nd = 0
        for c in reversed(body):
            if c == 0x5f: continue
            if dig(c) is None: break
            nd += 1
        else:
            return False          # no offending character at all
        return nd // per > cap
    k, p = 0, 1
    while p * r <= (1 << 64) - 1:
        p *= r; k += 1
    ds = []
    for c in body:
        if c == 0x5f: continue
        d = dig(c)
        if d is None: break
        ds.append(d)
    else:
        return False
    v = 0
    for d in ds[:len(ds) // k * k]:
        v = v * r + d
    return v >= 1 << (64 * cap)


def f32_wrapping_boxed_zero_like(case, impl, model, spec):
    """F32: Zero::zero_like / Zero::set_zero on Wrapping<BoxedUint> run the trait defaults (`*self = Zero::zero()`) and
    return a ONE-limb zero whatever the precision of the operand. Matches exactly: one of the two routes, an operand of
    more than one limb, implementation = faithful model = one zero limb, specification = zero at the operand's precision."""
    import re
    if not re.fullmatch(r'glue\.zero_like_wrapping_boxed(\.set_zero)?', case.rop):
        return False
    n = len(case.args[0])
    return n > 1 and impl == model == 'ok 0' and spec == 'ok ' + ','.join(['0'] * n)


def f4_inv_mod_zero_modulus(case, impl, model, spec):
    """F4: Uint::inv_mod(x, 0) (inherent and InvMod trait) panics on `expect("inverse mod 2^k exists")` although it
    returns an option. Matches exactly: the modulus operand is zero in every limb, the implementation panics, and both
    the model of the repaired code and the specification say none (x != 1: gcd(x, 0) = x != 1)."""
    if case.mop != 'uint.inv_mod' or len(case.args) < 2:
        return False
    if any(w != 0 for w in case.args[1]):
        return False
    return impl == 'panic' and model == 'none' and spec == 'none'


def f34_params_ct_eq_lz(case, impl, model, spec):
    """F34: ConstantTimeEq for MontyParams does not compare mod_leading_zeros. Matches exactly: the route that compares two
    parameter sets of one modulus with DIFFERENT mod_leading_zeros (arguments 1 and 2), the implementation (and its
    faithful model) answer 1 where equality of all fields (the spec) answers 0."""
    if case.rop != 'glue2.params_ct_eq_lz' or len(case.args) != 3:
        return False
    if case.args[1] == case.args[2]:
        return False
    return impl == 'ok 1' and model == 'ok 1' and spec == 'ok 0'
