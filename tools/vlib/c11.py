"""C11: totality. Every operation of every other property is run in BOTH build profiles (release, and
debug-assertions + overflow-checks) under catch_unwind and a watchdog, and the outcome class (value / none / err /
panic / timeout) is compared with the model of that profile and with the documentation-derived specification
(spec = PanicV exactly where the documentation says the call panics). The malformed / out-of-domain streams of the
owning generators (zero moduli and divisors, oversized shifts, empty / oversized / garbage encodings, the numeral
"0", mismatched boxed precisions) are part of those generators and are all kept here."""
import importlib, os, random
from .common import Case

OWNERS = ['c02', 'c03', 'c04', 'c05', 'c06', 'c07', 'c08', 'c09', 'c10', 'c12', 'c13', 'c14', 'c16', 'c17', 'c18', 'c19', 'c20']
COQCHK = False

def _is_total_stream(c):
    """cases that exercise failure reporting: zero operands, extreme scalars, empty arguments"""
    for a in c.args:
        if len(a) == 0 or all(w == 0 for w in a) or (len(a) == 1 and a[0] in (0xffffffff, 0xffffffffffffffff)):
            return True
    return False

def gen(tier, rng):
    cs = []
    frac = 0.10 if tier == 'quick' else 0.5
    for m in OWNERS:
        if not os.path.exists(os.path.join(os.path.dirname(__file__), m + '.py')):
            continue
        mod = importlib.import_module('vlib.' + m)
        sub = mod.gen('quick', random.Random(rng.getrandbits(32)))
        sub = [c for c in sub if len(c.argstr()) < 20000 and not any(t.startswith('known:') for t in c.tags)]
        keep = [c for c in sub if _is_total_stream(c)]
        rest = [c for c in sub if not _is_total_stream(c)]
        rng.shuffle(keep); rng.shuffle(rest)
        k = max(300, int(len(sub) * frac))
        pick = keep[:k // 2] + rest[:k - min(len(keep), k // 2)]
        for c in pick:
            c.dbg = True
        cs += pick
    return cs
