"""C15: all routes to the same operation give bit-identical results.
gen(): a sample of the cases of every other property (so every form is also compared with the model and the spec).
extra_check(): direct comparison of the implementation's outputs between routes, independent of the model:
  (1) all rust routes that map to the same model op, on identical arguments;
  (2) fixed Uint<N> vs BoxedUint of 64*N bits (value AND precision);
  (3) constant-time vs _vartime variants;
  (4) const-evaluated vs run-time results (harness op const.pairs)."""
import importlib, os, random
from .common import Case
from . import c15r
from . import c15s

OWNERS = ['c02', 'c03', 'c04', 'c05', 'c06', 'c07', 'c08', 'c09', 'c10', 'c13', 'c14', 'c16', 'c17', 'c20']
COQCHK = False
BORROWS_CASES = True   # cases come from the other properties; a case inside an OPEN finding of its owner is left to the owner

def _mods():
    out = []
    for m in OWNERS:
        if os.path.exists(os.path.join(os.path.dirname(__file__), m + '.py')):
            out.append(importlib.import_module('vlib.' + m))
    return out

# model-op pairs that must agree on identical arguments (impl outputs compared after `norm`)
FIXED_BOXED = [
    ('uint.adc', 'boxed.adc'), ('uint.sbb', 'boxed.sbb'), ('uint.wrapping_add', 'boxed.wrapping_add'),
    ('uint.wrapping_sub', 'boxed.wrapping_sub'), ('uint.checked_add', 'boxed.checked_add'), ('uint.checked_sub', 'boxed.checked_sub'),
    ('uint.add', 'boxed.add'), ('uint.sub', 'boxed.sub'), ('uint.wrapping_neg', 'boxed.wrapping_neg'),
    ('uint.div_rem', 'boxed.div_rem'), ('uint.rem', 'boxed.rem'), ('uint.div', 'boxed.div'), ('uint.checked_div', 'boxed.checked_div'),
    ('uint.div_rem_limb', 'boxed.div_rem_limb'), ('uint.rem_limb', 'boxed.rem_limb'),
    ('uint.div_rem_vartime', 'boxed.div_rem_vartime'), ('uint.rem_vartime', 'boxed.rem_vartime'), ('uint.div_vartime', 'boxed.div_vartime'),
    ('uint.widening_mul', 'boxed.mul'), ('uint.wrapping_mul', 'boxed.wrapping_mul'), ('uint.checked_mul', 'boxed.checked_mul'),
    ('uint.mul', 'boxed.mul_panicking'), ('uint.widening_square', 'boxed.square'),
    ('uint.add_mod', 'boxed.add_mod'), ('uint.sub_mod', 'boxed.sub_mod'), ('uint.neg_mod', 'boxed.neg_mod'), ('uint.double_mod', 'boxed.double_mod'),
    ('uint.sub_mod_special', 'boxed.sub_mod_special'), ('uint.neg_mod_special', 'boxed.neg_mod_special'), ('uint.mul_mod_special', 'boxed.mul_mod_special'),
    ('uint.mul_mod', 'boxed.mul_mod'),
    ('uint.sqrt', 'boxed.sqrt'), ('uint.sqrt_vartime', 'boxed.sqrt_vartime'), ('uint.checked_sqrt', 'boxed.checked_sqrt'),
    ('uint.checked_sqrt_vartime', 'boxed.checked_sqrt_vartime'),
]
CT_VARTIME = [
    ('uint.div_rem', 'uint.div_rem_vartime'), ('uint.rem', 'uint.rem_vartime'), ('uint.div', 'uint.div_vartime'),
    ('boxed.div_rem', 'boxed.div_rem_vartime'), ('boxed.rem', 'boxed.rem_vartime'), ('boxed.div', 'boxed.div_vartime'),
    ('uint.sqrt', 'uint.sqrt_vartime'), ('boxed.sqrt', 'boxed.sqrt_vartime'),
    ('uint.checked_sqrt', 'uint.checked_sqrt_vartime'), ('boxed.checked_sqrt', 'boxed.checked_sqrt_vartime'),
    ('uint.widening_square', 'uint.widening_mul@self'), ('boxed.square', 'boxed.mul@self'),
    # Montgomery-based mul_mod vs the wide-remainder route (rem_wide_vartime) and the MulMod trait
    ('uint.mul_mod', 'uint.mul_mod_vartime'), ('uint.mul_mod', 'uint.mul_mod_trait'), ('uint.mul_mod_vartime', 'uint.mul_mod_trait'),
]

_cache = {}

def _all_cases(tier, rng):
    key = (tier,)
    if key in _cache:
        return _cache[key]
    cs = []
    frac = 0.3 if tier == 'quick' else 0.7
    for m in _mods():
        sub = m.gen('quick', random.Random(rng.getrandbits(32)))
        # inputs of an open known finding are reported by the owning property's check, not here
        sub = [c for c in sub if len(c.argstr()) < 20000 and not any(t.startswith('known:') for t in c.tags)]
        k = max(200, int(len(sub) * frac))
        # keep whole route groups together: sample by (mop, args)
        groups = {}
        for c in sub:
            groups.setdefault((c.mop, c.argstr()), []).append(c)
        keys = sorted(groups.keys())
        rng.shuffle(keys)
        n = 0
        for kx in keys:
            cs += groups[kx]; n += len(groups[kx])
            if n >= k: break
    for c in cs:
        c.dbg = False
    _cache[key] = cs
    return cs

def gen(tier, rng):
    cases = list(_all_cases(tier, rng))
    cases += c15r.gen(tier, rng)      # the glue routes (harness/src/ops/c15r.rs, coq/Model/Glue.v)
    cases += c15s.gen(tier, rng)      # the glue routes around the Montgomery forms (harness/src/ops/c15s.rs, coq/Model/Glue2.v)
    return cases

def extra_check(ctx):
    cases, impl = ctx.cases, ctx.impl_rel
    viol = []
    stats = {'route_groups': 0, 'route_pairs_compared': 0, 'fixed_vs_boxed': 0, 'ct_vs_vartime': 0, 'const_vs_runtime': 0}
    # (1) routes of one model op
    groups = {}
    for c in cases:
        groups.setdefault((c.mop, c.argstr()), []).append(c)
    by_mop = {}
    for (mop, args), cs in groups.items():
        by_mop.setdefault(mop, []).append(cs[0])
        outs = {}
        for c in cs:
            outs.setdefault(impl.get(c.id, ['missing'])[0], []).append(c.rop)
        if len(cs) > 1:
            stats['route_groups'] += 1
            stats['route_pairs_compared'] += len(cs) - 1
        if len(outs) > 1:
            viol.append({'kind': 'spec', 'obligation': 'routes:' + mop,
                         'desc': 'routes of %s disagree on %s: %s' % (mop, args[:200], {k[:80]: v for k, v in outs.items()}),
                         'case': cs[0].to_json(), 'outputs': {k: v for k, v in outs.items()}})
    # (2),(3) pairs of model ops on identical arguments
    def twin_cases(src_mop, dst_mop):
        out = []
        for c in by_mop.get(src_mop, [])[:400]:
            args = c.args
            # the constant-time boxed division documents equal precisions; its vartime twin does not
            if ('div' in src_mop or 'rem' in src_mop) and 'limb' not in src_mop and len(args) >= 2 and len(args[0]) != len(args[1]):
                continue
            dst = dst_mop
            if dst.endswith('@self'):
                dst = dst[:-5]; args = [c.args[0], c.args[0]]
            t = Case(dst, args, mop=dst); out.append((c, t))
        return out
    todo = []
    for (a, b) in FIXED_BOXED:
        todo += [('fixed_vs_boxed', a, b, c, t) for (c, t) in twin_cases(a, b)]
    for (a, b) in CT_VARTIME:
        todo += [('ct_vs_vartime', a, b, c, t) for (c, t) in twin_cases(a, b)]
    twins = [t for (_, _, _, _, t) in todo]
    for i, t in enumerate(twins):
        t.id = 'x%d' % i
    res = ctx.run_impl(twins) if twins else {}
    for (kind, a, b, c, t) in todo:
        o1 = impl.get(c.id, ['missing'])[0]
        o2 = res.get(t.id, ['missing'])[0]
        if o2 == 'unsupported':
            continue      # this width/form has no adapter on the other side
        stats[kind] += 1
        if o1 != o2:
            viol.append({'kind': 'spec', 'obligation': '%s:%s~%s' % (kind, a, b),
                         'desc': '%s: %s and %s disagree on %s: %s vs %s' % (kind, a, b, c.argstr()[:200], o1[:120], o2[:120]),
                         'case': c.to_json(), 'twin': t.to_json(), 'outputs': [o1, o2]})
    # (1b) operator forms that the route table expects to agree but that are separate model ops because they
    #      do not: BoxedUint * BoxedUint by value / value-ref / ref-value / *= is the WIDENING product, &a * &b is the
    #      checked product at the receiver's precision (known finding F18)
    f18 = [t for t in (Case('boxed.mul_panicking.op_rr', c.args, mop='boxed.mul_panicking') for c in by_mop.get('boxed.mul', [])[:60])]
    for i, t in enumerate(f18):
        t.id = 'f%d' % i
    r18 = ctx.run_impl(f18) if f18 else {}
    for c, t in zip(by_mop.get('boxed.mul', [])[:60], f18):
        o1 = impl.get(c.id, ['missing'])[0]; o2 = r18.get(t.id, ['missing'])[0]
        if o1 != o2:
            viol.append({'kind': 'spec', 'known': 'F18', 'obligation': 'routes:boxed.mul-operators',
                         'desc': 'BoxedUint `a * b` (by value) = %s but `&a * &b` = %s on %s' % (o1[:60], o2[:60], c.argstr()[:80])})
            break
    # (4) const context vs run time
    cp = Case('const.pairs', [[0]], mop='const.pairs'); cp.id = 'cp'
    r = ctx.run_impl([cp]).get('cp', ['missing'])[0]
    if not r.startswith('ok '):
        viol.append({'kind': 'spec', 'obligation': 'const', 'desc': 'const.pairs did not run: ' + r[:200]})
    else:
        parts = r[3:].split(';')
        for i in range(0, len(parts) - 1, 2):
            stats['const_vs_runtime'] += 1
            if parts[i] != parts[i + 1]:
                viol.append({'kind': 'spec', 'obligation': 'const:%d' % (i // 2),
                             'desc': 'const-evaluated and run-time results differ for item %d: %s vs %s' % (i // 2, parts[i][:100], parts[i + 1][:100])})
    stats['obligations'] = len(FIXED_BOXED) + len(CT_VARTIME) + 1
    return viol, stats
