"""C08 generator: Montgomery-form values over operation histories, on the three representations in lock-step.

What is generated (every random choice from `rng`):

* `monty.history.*` / `monty.boxed_history.*`: one op list (New x | Zero | One | Add | Sub | Neg | Double | Mul | Square | Half |
  Select | Conv | Retrieve and the in-place MulAssign | SquareAssign | AddAssign | SubAssign | HalfAssign), length <= 16 (quick) /
  <= 64 (thorough), run on MontyForm (params from new / new_vartime / Monty::new_params_vartime), on BoxedMontyForm (new / new_vartime /
  trait) and, when the modulus is one of the compile-time moduli of the harness (`const_moduli`), on ConstMontyForm and on the
  dyn / boxed forms built by from_const_params.  The adapter emits as_montgomery() and retrieve() after EVERY step, so every prefix
  is compared with the model (limb for limb) and with Z/mZ.  The 4th word of an op selects the API route (inherent, operators by
  value / reference, assigning, trait, multiplier object).
* widths: fixed 1,2,3,4,6,8,16,32; boxed 1..33.
* moduli: 1, 3, 9, 15, 2^BITS-1, 2^BITS-3, 2^BITS-c (c small odd, c = MAX, MAX-2: top limbs all ones), 2^(BITS-1)+1, ~2^BITS/3,
  ~2^BITS/4, moduli with whole zero high limbs, 2^64k - 1 factors (composite: zero divisors), adversarial-limb moduli.
* values: 0, 1, m-1, (m-1)/2, (m+1)/2, m, 2m, k*m (New of a non-zero multiple of m: the reduction reaches exactly m before the final
  subtraction), 2^BITS-1, random; zero divisors u*v = 0 mod m for composite m (3*3 mod 9, (2^h-1)(2^h+1) mod 2^2h-1).
* stored forms chosen directly: New(M * R^-1 mod m) stores the Montgomery form M; M, M' in {m-1, m-2, m - R mod m, all-ones top limbs}
  with m = 2^BITS - c give the rare second-level carry of `almost_montgomery_mul` (ts == 1 and row carry == 2^64-1, n >= 2) and the
  meta-carry of montgomery_reduction; `rare_carry_hits` counts (with a Python port of the CIOS loop) how many generated boxed
  multiplications hit it; it is reported in the evidence (extra_check) and must be > 0.
* halving (`half_hist`): stored forms 1, 3, m-2, m-1, (m+-1)/2, R mod m, random odd, by Half and HalfAssign chained, followed by h + h, at
  m = 2^BITS-1 (the only modulus where m + 1 wraps), 2^(BITS-1)+1, 2^BITS-c, 3 and a general modulus; Neg of an exact zero (Zero, a - a)
  on every representation (corpus and random histories).
* `monty.params.*`: every constructor (new, new_vartime, trait, impl_modulus!, from_const_params, boxed new / new_vartime / trait /
  from_const_params) field by field (one, r2, r3, mod_neg_inv, mod_leading_zeros incl. the clamp at 63 for moduli with >= 64
  leading zeros).
* `monty.reduction`: the public montgomery_reduction on T < m*R built from the answer: T = r*R - u*m style values, T = m*R - 1,
  T = k*m, T with upper = m - 1 and lower = MAX.., meta-carry cases (m, T with all-ones limbs).
* `monty.uint_mul_mod` / `monty.boxed_mul_mod`: Uint::mul_mod, BoxedUint::mul_mod (+ MulMod) at the limb level (C07 has them value level).
"""
import random
from .common import Case
from .gen import *

NS = [1, 2, 3, 4, 6, 8, 16, 32]
BOXED_NS = list(range(1, 34))

# ---------------------------------------------------------------- compile-time moduli (shared with harness/src/ops/c08.rs)
def _rnd_modulus(n):
    r = random.Random(7700 + n)
    ls = [r.getrandbits(64) for _ in range(n)]
    ls[0] |= 1
    ls[-1] = (MAXW - 1) if n % 2 == 0 else (ls[-1] | (1 << 62))
    if n >= 3: ls[1] = MAXW
    return from_limbs(ls)

def const_moduli(n):
    """[(kind, value)] of the impl_modulus! types of width n in the harness."""
    R = 1 << (64 * n)
    allk = [('one', 1), ('three', 3), ('max', R - 1), ('half1', R // 2 + 1), ('third', (R - 1) // 3),
            ('quarter', R // 4 - 1), ('lowlimb', (1 << 64) - 1 if n >= 2 else (1 << 32) - 1), ('rm3', R - 3),
            ('rnd', _rnd_modulus(n))]
    if n <= 4: keep = [k for k, _ in allk]
    elif n <= 8: keep = ['one', 'max', 'third', 'lowlimb', 'rnd']
    else: keep = ['max', 'half1', 'lowlimb', 'rnd']
    return [(k, v) for k, v in allk if k in keep]

def rust_moduli_table():
    """The `const_mods!` invocation pasted into harness/src/ops/c08.rs (python3 -c 'from vlib.c08 import *; print(rust_moduli_table())')."""
    names = {1: 'U64', 2: 'U128', 3: 'U192', 4: 'U256', 6: 'U384', 8: 'U512', 16: 'U1024', 32: 'U2048'}
    rows = []
    for n in NS:
        for k, v in const_moduli(n):
            rows.append('    (M%d_%s, %s, %d, "%0*x")' % (n, k, names[n], n, 16 * n, v))
    return 'const_mods! {\n' + ',\n'.join(rows) + '\n}\n'

# ---------------------------------------------------------------- Python port of the CIOS loop (only to count the rare carry)
def amm_rare(x, y, m, n):
    k = (-pow(m, -1, B)) % B
    xs, ys, ms = to_limbs(x, n), to_limbs(y, n), to_limbs(m, n)
    z = [0] * n; ts = 0; rare = 0
    for i in range(n):
        c = 0
        for j in range(n):
            t = z[j] + xs[j] * ys[i] + c; z[j] = t & MAXW; c = t >> 64
        if ts == 1 and c == MAXW: rare += 1
        s = ts + c; ts = s & MAXW; ts1 = s >> 64
        t = (z[0] * k) & MAXW
        tt = z[0] + ms[0] * t; c = tt >> 64
        for j in range(1, n):
            tt = z[j] + ms[j] * t + c; z[j - 1] = tt & MAXW; c = tt >> 64
        s = ts + c; z[n - 1] = s & MAXW; ts = (ts1 + (s >> 64)) & MAXW
    return rare

# ---------------------------------------------------------------- moduli / values
def modulus(rng, n):
    R = 1 << (64 * n)
    k = rng.random()
    if k < 0.05: m = 1
    elif k < 0.09: m = 3
    elif k < 0.12: m = rng.choice([9, 15, 21, 255, (1 << 32) - 1])
    elif k < 0.22: m = R - 1
    elif k < 0.30: m = R - rng.choice([3, 5, 189, (1 << 32) + 1, MAXW, MAXW - 2, (1 << 63) + 1])
    elif k < 0.36: m = R // 2 + 1
    elif k < 0.42: m = rng.choice([(R - 1) // 3, R // 3 | 1])
    elif k < 0.48: m = rng.choice([R // 4 - 1, R // 4 + 1])
    elif k < 0.58: m = from_limbs(limbs(rng, rng.randrange(1, n + 1))) | 1           # whole zero high limbs
    elif k < 0.64 and n >= 2:
        h = rng.randrange(1, n + 1)
        m = (1 << (64 * h)) - 1                                                      # 2^64h - 1: composite, zero high limbs
    elif k < 0.72:
        ls = limbs(rng, n); ls[-1] = MAXW; m = from_limbs(ls) | 1                    # top limb all ones
    else: m = value(rng, n) | 1
    m %= R
    if m % 2 == 0: m += 1
    return max(1, m % R)

def some_value(rng, m, n):
    """an integer in [0, 2^BITS) for New (not necessarily reduced)"""
    R = 1 << (64 * n)
    k = rng.random()
    if k < 0.08: v = 0
    elif k < 0.16: v = 1
    elif k < 0.28: v = m - 1
    elif k < 0.34: v = (m - 1) // 2
    elif k < 0.40: v = (m + 1) // 2
    elif k < 0.46: v = m
    elif k < 0.52: v = m * rng.randrange(1, max(2, min(R // m, 1 << 16)))           # non-zero multiple of m
    elif k < 0.56: v = R - 1
    elif k < 0.60: v = m + 1
    elif k < 0.66: v = R % m
    else: v = value(rng, n)
    return v % R

def stored(M, m, n):
    """the integer whose Montgomery form is M"""
    R = 1 << (64 * n)
    return (M % m) * pow(R, -1, m) % m

def near_m_form(rng, m, n):
    R = 1 << (64 * n)
    k = rng.random()
    if k < 0.4: M = m - 1
    elif k < 0.6: M = m - 2
    elif k < 0.7: M = m - (R % m)
    elif k < 0.8: M = m - rng.choice([3, 1 << 32, MAXW])
    elif k < 0.9:
        ls = to_limbs(m - 1, n);
        if n >= 2: ls[rng.randrange(0, n - 1)] = rng.choice([0, MAXW, 1])
        M = from_limbs(ls)
    else: M = m // 2
    return M % m

# ---------------------------------------------------------------- op lists
PUSH = [0, 1, 2, 3, 4, 5, 6, 7, 8, 9, 10, 16, 17]
INPL = [11, 12, 13, 14, 15]
USES_J = {3, 4, 7, 10, 11, 13, 14}

class Hist:
    def __init__(self, m, n):
        self.m, self.n, self.ops, self.inputs, self.nvals = m, n, [], [], 0
    def new(self, x, v=0):
        self.inputs.append(x); self.ops += [0, len(self.inputs) - 1, 0, v]; self.nvals += 1; return self.nvals - 1
    def op(self, code, i=0, j=0, v=0):
        self.ops += [code, i, j, v]
        if code not in INPL and code != 17: self.nvals += 1
        return self.nvals - 1
    def args(self, cfg):
        return [to_limbs(self.m, self.n), [cfg], self.ops] + [to_limbs(x, self.n) for x in self.inputs]

def random_hist(rng, m, n, length):
    h = Hist(m, n)
    # a few starting values
    for _ in range(rng.randrange(1, 4)):
        if rng.random() < 0.35: h.new(stored(near_m_form(rng, m, n), m, n), rng.randrange(8))
        else: h.new(some_value(rng, m, n), rng.randrange(8))
    while len(h.ops) // 4 < length:
        k = rng.random()
        v = rng.randrange(64)
        i = rng.randrange(h.nvals); j = rng.randrange(h.nvals)
        if rng.random() < 0.5: i = h.nvals - 1                      # keep working on the newest value: long dependency chains
        if k < 0.07: h.new(some_value(rng, m, n), v)
        elif k < 0.10: h.op(1, v=v)
        elif k < 0.14: h.op(2, v=v)
        elif k < 0.40: h.op(rng.choice([7, 7, 8, 11, 12]), i, j, v)   # multiplications
        elif k < 0.60: h.op(rng.choice([3, 4, 13, 14]), i, j, v)
        elif k < 0.68: h.op(5, i, 0, v)
        elif k < 0.75: h.op(6, i, 0, v)
        elif k < 0.84: h.op(rng.choice([9, 15]), i, 0, v)
        elif k < 0.90: h.op(10, i, j, v)
        elif k < 0.95: h.op(16, i, 0, v)
        else: h.op(17, i, 0, v)
    return h

def zero_divisor_hist(rng, m, n):
    """u * v = 0 mod m with u, v != 0 (the reduced product is exactly m before the final subtraction), New(k*m)"""
    h = Hist(m, n); R = 1 << (64 * n)
    fs = None
    for h2 in range(1, 64 * n):
        if m == (1 << (2 * h2)) - 1: fs = ((1 << h2) - 1, (1 << h2) + 1)
    if fs is None:
        for p in (3, 5, 7, 17, 257, 65537, 641):
            if m % p == 0 and m > p: fs = (p, m // p); break
    a = h.new(m % R, rng.randrange(8))
    if 2 * m < R: h.new(2 * m, rng.randrange(8))
    if fs:
        u, w = fs
        iu = h.new(u, 1); iw = h.new(w, 2)
        x = h.op(7, iu, iw, rng.randrange(64)); h.op(11, iu, iw, rng.randrange(64))
        h.op(3, x, a, rng.randrange(64))
    h.op(8, a, 0, rng.randrange(64))
    return h

def rare_carry_hist(rng, m, n, length):
    """stored forms near m multiplied with each other (boxed: ts == 1 and row carry == MAX; fixed: meta-carry)"""
    h = Hist(m, n)
    ids = [h.new(stored(near_m_form(rng, m, n), m, n), rng.randrange(8)) for _ in range(3)]
    hits = 0
    forms = None
    while len(h.ops) // 4 < length:
        i, j = rng.choice(ids), rng.choice(ids)
        code = rng.choice([7, 7, 8, 11, 12, 5, 3])
        r = h.op(code, i, j, rng.randrange(64))
        if code in (7, 8, 5, 3): ids.append(r)
    return h

def half_hist(rng, m, n):
    """halving of stored forms chosen directly: odd / even representatives next to every boundary of div_by_2
    (a + m overflows 2^BITS or not, a = 1, m - 2, m - 1, (m +- 1) / 2), by Half and HalfAssign, chained (the carry re-inserted as
    the top bit is observable only for m >= 2^(BITS-1); m = 2^BITS - 1 is the only modulus where m + 1 wraps)"""
    h = Hist(m, n); R = 1 << (64 * n)
    forms = [1, 3, m - 2, m - 1, (m - 1) // 2, (m + 1) // 2, R % m, (R - m) % m | 1, value(rng, n) % m | 1]
    rng.shuffle(forms)
    for M in forms[:5]:
        a = h.new(stored(M % m, m, n), rng.randrange(8))
        b = h.op(9, a, 0, rng.randrange(64))
        h.op(15, b, 0, rng.randrange(64)); h.op(15, a, 0, rng.randrange(64))
        h.op(3, b, b, rng.randrange(64))                              # h + h must give the operand back
    h.op(2, v=rng.randrange(64)); h.op(9, h.nvals - 1, 0, rng.randrange(64)); h.op(15, h.nvals - 1, 0, rng.randrange(64))
    return h

# reference evaluation of an op list (stored forms), used for the rare-carry statistics only
def eval_forms(h):
    m, n = h.m, h.n; R = 1 << (64 * n); Ri = pow(R, -1, m) if m > 1 else 0
    vals = []; muls = []
    ops = h.ops
    for t in range(0, len(ops), 4):
        code, i, j, v = ops[t:t + 4]
        a = vals[i] if i < len(vals) else 0; b = vals[j] if j < len(vals) else 0
        if code == 0:
            r2 = R * R % m; muls.append((h.inputs[i], r2)); r = h.inputs[i] * R % m
        elif code == 1: r = 0
        elif code == 2: r = R % m
        elif code in (3, 13): r = (a + b) % m
        elif code in (4, 14): r = (a - b) % m
        elif code == 5: r = (-a) % m
        elif code == 6: r = 2 * a % m
        elif code in (7, 11): muls.append((a, b)); r = a * b * Ri % m
        elif code in (8, 12): muls.append((a, a)); r = a * a * Ri % m
        elif code in (9, 15): r = a // 2 if a % 2 == 0 else (a + m) // 2
        elif code == 10: r = b if v & 1 else a
        else: r = a
        if code in INPL: vals[i] = r
        elif code != 17: vals.append(r)
    return muls

STATS = {'rare_carry_hits': 0, 'boxed_muls': 0}

def hist_cases(h, rng, kinds, add, dbg):
    n, m = h.n, h.m
    cm = dict((v, k) for k, v in const_moduli(n)) if n in NS else {}
    if 'dyn' in kinds and n in NS:
        add(Case('monty.history.dyn', h.args(rng.randrange(3)), mop='monty.history', dbg=dbg))
        if m in cm:
            add(Case('monty.history.const', h.args(0), mop='monty.history', dbg=dbg))
            if rng.random() < 0.5: add(Case('monty.history.const_dyn', h.args(0), mop='monty.history', dbg=dbg))
            if rng.random() < 0.5: add(Case('monty.boxed_history.const_boxed', h.args(0), mop='monty.boxed_history', dbg=dbg))
    if 'boxed' in kinds:
        add(Case('monty.boxed_history.boxed', h.args(rng.randrange(3)), mop='monty.boxed_history', dbg=dbg))
        if n <= 8:
            for (a, b) in eval_forms(h):
                STATS['boxed_muls'] += 1
                if amm_rare(a, b, m, n): STATS['rare_carry_hits'] += 1

def reduction_cases(rng, n, reps, add):
    R = 1 << (64 * n)
    for _ in range(reps):
        m = modulus(rng, n)
        k = (-pow(m, -1, B)) % B
        c = rng.random()
        if c < 0.15: T = m * R - 1
        elif c < 0.30: T = m * rng.randrange(0, R)                                   # multiple of m
        elif c < 0.40: T = (m - 1) * R + (R - 1) if m > 1 else R - 1                 # upper = m-1, lower all ones
        elif c < 0.55:
            r = rng.choice([0, 1, m - 1, m // 2]) % m                                # from the answer: T = r * R mod (m R) shifted by u*m
            T = (r * R + m * rng.randrange(0, R)) % (m * R)
        elif c < 0.65: T = rng.choice([0, 1, R - 1, R, R + 1, m, m - 1]) % (m * R)
        else: T = (value(rng, n) + R * value(rng, n)) % (m * R)
        add(Case('monty.reduction', [to_limbs(T % R, n), to_limbs(T // R, n), to_limbs(m, n), [k]], dbg=True))

def params_cases(rng, n, reps, add, boxed_only=False):
    cm = const_moduli(n) if n in NS else []
    if not boxed_only:
        for kind, m in cm:
            M = to_limbs(m, n)
            for r in ('const', 'from_const', 'boxed_from_const', 'new', 'new_vartime', 'trait'):
                add(Case('monty.params.' + r, [M], mop='monty.params', dbg=True))
    for _ in range(reps):
        m = modulus(rng, n); M = to_limbs(m, n)
        if not boxed_only:
            for r in ('new', 'new_vartime', 'trait'):
                add(Case('monty.params.' + r, [M], mop='monty.params', dbg=True))
            # conditional selection between two DIFFERENT parameter sets (moduli with different leading-zero counts):
            # every field of the result, mod_leading_zeros included, must be that of the chosen set
            for other in (3, (1 << 63) - 25 if n == 1 else (1 << 64) - 59, (1 << (64 * n)) - 1, modulus(rng, n)):
                if other >= (1 << (64 * n)) or other % 2 == 0: continue
                for flag in (0, 1):
                    for r in ('select', 'select_form'):
                        add(Case('monty.params.' + r, [M, to_limbs(other, n), [flag]], mop='monty.params', dbg=True))
        for r in ('new', 'new_vartime', 'trait'):
            add(Case('monty.boxed_params.' + r, [M], mop='monty.boxed_params', dbg=True))

def gen(tier, rng):
    scale = 1 if tier == 'quick' else 8
    maxlen = 16 if tier == 'quick' else 64
    STATS['rare_carry_hits'] = 0; STATS['boxed_muls'] = 0
    cs = []; add = cs.append
    for n in BOXED_NS:
        fixed = n in NS
        kinds = ('dyn', 'boxed') if fixed else ('boxed',)
        big = n > 8
        reps = (3 if big else 8) * scale if fixed else (2 if big else 3) * scale
        for t in range(reps):
            m = modulus(rng, n)
            L = rng.choice([4, 8, maxlen, maxlen]) if not big else rng.choice([4, 8, maxlen // 2])
            hist_cases(random_hist(rng, m, n, L), rng, kinds, add, dbg=(t % 2 == 0))
        # compile-time moduli: const / dyn / boxed in lock-step
        if fixed:
            for kind, m in const_moduli(n):
                for t in range(1 if big else 2 * scale):
                    hist_cases(random_hist(rng, m, n, rng.choice([6, maxlen]) if not big else 6), rng, kinds, add, dbg=True)
                if not big:
                    hist_cases(zero_divisor_hist(rng, m, n), rng, kinds, add, dbg=True)
        # structured: zero divisors / multiples of m
        for t in range(2 * scale if not big else 1):
            m = rng.choice([9, 15, 3, (1 << (64 * rng.randrange(1, n + 1))) - 1, modulus(rng, n)])
            hist_cases(zero_divisor_hist(rng, m % (1 << (64 * n)) | 1, n), rng, kinds, add, dbg=True)
        # structured: top limbs all ones in m and in the stored forms
        R = 1 << (64 * n)
        for t in range((3 if not big else 1) * scale):
            m = R - rng.choice([1, 1, 3, 5, 189, (1 << 32) + 1, MAXW, MAXW - 2])
            if m <= 0 or m % 2 == 0: m = R - 1
            hist_cases(rare_carry_hist(rng, m, n, 6 if big else 10), rng, kinds, add, dbg=True)
        # structured: halving at m = 2^BITS - 1 (m + 1 wraps), 2^(BITS-1) + 1, 2^BITS - c, 3 and a general modulus
        hm = [R - 1, R // 2 + 1, R - rng.choice([3, 5, 189]), 3, modulus(rng, n)]
        for m in (hm if not big else [R - 1, rng.choice(hm[1:])]):
            for t in range(scale if not big else 1):
                hist_cases(half_hist(rng, m, n), rng, kinds, add, dbg=True)
        params_cases(rng, n, (4 if not big else 1) * scale, add, boxed_only=not fixed)
        if fixed:
            reduction_cases(rng, n, (30 if not big else 6) * scale, add)
            for t in range((6 if not big else 2) * scale):
                m = modulus(rng, n) if rng.random() < 0.8 else (value(rng, n) & ~1) or 2
                a, b = some_value(rng, m | 1, n), some_value(rng, m | 1, n)
                add(Case('monty.uint_mul_mod', [to_limbs(a, n), to_limbs(b, n), to_limbs(m, n)], dbg=True))
        for t in range((3 if not big else 1) * scale):
            m = modulus(rng, n) if rng.random() < 0.85 else (value(rng, n) & ~1)
            a, b = some_value(rng, m | 1, n), some_value(rng, m | 1, n)
            for r in ('', '.trait'):
                add(Case('monty.boxed_mul_mod' + r, [to_limbs(a, n), to_limbs(b, n), to_limbs(m, n)], mop='monty.boxed_mul_mod', dbg=True))
    return cs

def corpus():
    """fixed regression inputs: F6 (m = 1: one), the seeded-mutation witnesses, the rare carry at two limbs"""
    cs = []
    for n in (1, 2, 4):
        M = to_limbs(1, n)
        for r in ('new', 'new_vartime', 'trait', 'const', 'from_const', 'boxed_from_const'):
            cs.append(Case('monty.params.' + r, [M], mop='monty.params', dbg=True))
        for r in ('new', 'new_vartime', 'trait'):
            cs.append(Case('monty.boxed_params.' + r, [M], mop='monty.boxed_params', dbg=True))
        h = Hist(1, n); h.op(2); h.op(6, 0); h.op(8, 0); h.new(5); h.op(3, 0, 3); h.op(17, 0)
        for rop, mop in (('monty.history.dyn', 'monty.history'), ('monty.history.const', 'monty.history'),
                         ('monty.boxed_history.boxed', 'monty.boxed_history')):
            cs.append(Case(rop, h.args(0), mop=mop, dbg=True))
    # (m-1)^2 = 1 at m = 2^128 - 1, boxed; New(6) mod 3; 3 * 6 mod 9
    h = Hist((1 << 128) - 1, 2); a = h.new((1 << 128) - 2); h.op(7, a, a); h.op(8, a); h.op(11, a, a, 2)
    cs.append(Case('monty.boxed_history.boxed', h.args(0), mop='monty.boxed_history', dbg=True))
    h = Hist(3, 1); h.new(6); h.new(3)
    cs.append(Case('monty.history.dyn', h.args(0), mop='monty.history', dbg=True))
    h = Hist(9, 2); a = h.new(3); b = h.new(6); h.op(7, a, b)
    cs.append(Case('monty.history.dyn', h.args(1), mop='monty.history', dbg=True))
    # halving of odd representatives at m = 2^BITS - 1 (1/2 = 2^(BITS-1)); -0 on the boxed form
    for n in (1, 4):
        m = (1 << (64 * n)) - 1
        h = Hist(m, n); h.op(2); h.op(9, 0); a = h.new(3); h.op(9, a); h.op(15, a); b = h.new(m - 2); h.op(15, b)
        cs.append(Case('monty.history.dyn', h.args(0), mop='monty.history', dbg=True))
        cs.append(Case('monty.boxed_history.boxed', h.args(0), mop='monty.boxed_history', dbg=True))
    h = Hist(15, 2); h.op(1); h.op(5, 0); a = h.new(7); h.op(4, a, a); h.op(5, 3); h.op(9, 4); h.op(6, 4)
    cs.append(Case('monty.boxed_history.boxed', h.args(0), mop='monty.boxed_history', dbg=True))
    cs.append(Case('monty.history.dyn', h.args(0), mop='monty.history', dbg=True))
    return cs

def extra_check(ctx):
    """the generator must have produced the rare carry of almost_montgomery_mul (counted with the Python port)"""
    viol = []
    if STATS['rare_carry_hits'] == 0:
        viol.append({'kind': 'corr', 'obligation': 'generator reaches ts == 1 && carry == MAX in almost_montgomery_mul',
                     'desc': 'no generated boxed multiplication hits the rare second-level carry'})
    return viol, {'obligations': 1, 'rare_carry_hits': STATS['rare_carry_hits'], 'boxed_muls_counted': STATS['boxed_muls']}

TRUSTED = [
    'Coq 8.16.1 kernel incl. its bytecode VM (vm_compute); native_compute not used',
    'no axioms: Print Assumptions of every theorem = Closed under the global context',
    'extraction: ExtrOcamlBasic + ExtrOcamlNativeString + ExtrOcamlZBigInt directives only (cross-checked against vm_compute on a sample each run)',
    'correspondence harness (Rust adapters incl. the parser of the derived Debug output of MontyParams / BoxedMontyParams, OCaml driver, Python generators/diff): sampled equality impl = model',
    'hand-written Gallina model of the Rust algorithms (64-bit target); Uint::rem / rem_wide_vartime, inv_mod2k_vartime, leading_zeros, shr1 / set_bit are value level here (limb level in C02 / C10 / C05)',
]
ASSUMPTIONS = [
    'BoxedMontyForm has no constant-time select in the API: the Select step of a boxed history clones the chosen operand',
]
