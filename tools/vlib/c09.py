"""C09 generator: modular exponentiation, multi-exponentiation and linear combination on MontyForm<N>,
ConstMontyForm<M, N> (the compile-time moduli listed in harness/src/ops/c09.rs, parsed from there) and BoxedMontyForm.

Arguments are plain integers; the adapters convert with `new`, call the route and return (as_montgomery(), retrieve()),
so a non-canonical representative is seen even when its residue is right.

What is covered (built from the structure of the algorithms, not from uniform values):
* widths: fixed 1, 2, 4, 8, 16 limbs; boxed 1..=17 limbs; exponent widths 1, 2, 4, 8, 16 (fixed, all 25 base/exponent
  width pairs for MontyForm) and 1..=18 limbs (boxed), i.e. exponents wider and narrower than the base;
* moduli: 1, 3, 2^BITS-1, 2^(BITS-1)+1, (2^BITS-1)/3, 2^BITS/4 +- 1, 2^(BITS-lz) - c and 2^(BITS-lz-1) + 1 for every
  lz in 0..=63 and lz >= 64 (zero high limbs), random odd;
* bases: 0, 1, 2, m-1, m-2, (m+1)/2, random; for lincomb the operands are chosen by their MONTGOMERY representative
  (m-1, m-2, m-3, ... : a = r * R^-1 mod m) so that the accumulator is driven to its bound;
* exponents: 0, 1, 2^j, 2^j - 1, all-ones, alternating nibbles, single non-zero window, random limb alphabet;
  never reduced below 2^k (bits above exponent_bits are set on purpose);
* exponent_bits k: EVERY k in 0..=BITS(e) for one- and two-limb exponents (pow on all three representations and
  two-base multi-exponentiation), otherwise 0, 1, 2, 3, 4, 5 and 4j, 4j+-1, 64j, 64j+-1, BITS(e)-1, BITS(e);
  k > BITS(e) is outside the documented domain and never generated;
* multi-exponentiation: 0 (const only), 1, 2, 3 bases as arrays, 1..=5 as slices, equal bases, base 0 / 1 mixed in;
* lincomb: term counts 1..=40 against window sizes 2^lz in {1, 2, 4, ..., 2^63}: n = 2^lz - 1, 2^lz, 2^lz + 1,
  2^(lz+1) - 1, 2^(lz+1), multiples of the window and multiples + 1, with moduli at the top of their range;
* the same (m, x, e, k) is sent to the runtime, the compile-time and the boxed implementation whenever m is in the menu.
Wide operands with a long ladder are rare on purpose (the in-Coq vm_compute cross-check of ./check samples cases
uniformly and a 1024-bit ladder costs minutes there): the window / limb selection logic does not depend on the base
width, so long ladders run mostly on 1- and 2-limb bases and wide bases mostly on short ladders; a few full-size
cases per width are kept."""
import os, re
from .common import Case, ROOT
from .gen import *

FIXED_NS = [1, 2, 4, 8, 16]
TRUSTED = [
    'Coq 8.16.1 kernel incl. its bytecode VM (vm_compute); native_compute not used',
    'no axioms: Print Assumptions of every theorem = Closed under the global context',
    'extraction: ExtrOcamlBasic + ExtrOcamlNativeString + ExtrOcamlZBigInt directives only (cross-checked against vm_compute on a sample each run)',
    'correspondence harness (Rust adapters, OCaml driver, Python generators/diff): sampled equality impl = model',
    'hand-written Gallina model of src/modular/pow.rs, boxed_monty_form/pow.rs, lincomb.rs (64-bit target)',
    'value-level parts of the model (limb-level model owned by C08): Montgomery multiplication/squaring x*y*R^-1 mod m, almost-Montgomery multiplication (x*y + q*m)/R with the overflow subtraction, the parameters one / mod_neg_inv / mod_leading_zeros, conversion to Montgomery form and retrieve',
]

# ---------------------------------------------------------------- compile-time moduli (single source: the Rust file)
def const_menu():
    src = open(os.path.join(ROOT, 'harness', 'src', 'ops', 'c09.rs')).read()
    menu = {}
    for m in re.finditer(r'^\s*\((C\w+), U\d+, (\d+), "([0-9a-f]+)", \[([\d, ]+)\]\),', src, re.M):
        n = int(m.group(2))
        menu.setdefault(n, []).append((int(m.group(3), 16), [int(x) for x in m.group(4).split(',')]))
    return menu

# ---------------------------------------------------------------- value classes
def lz_of(m, n):
    return min(63, 64 * n - m.bit_length())

def modulus(rng, n, lz=None):
    """Odd modulus of n limbs; lz = wanted number of leading zero bits (None: any class)."""
    Bt = 64 * n
    R = 1 << Bt
    if lz is not None:
        lz = min(lz, Bt - 2)
        top = 1 << (Bt - lz)
        k = rng.random()
        if k < 0.45: m = top - rng.choice([1, 1, 3, 5, 19, 25, 59, 189])          # top of the range
        elif k < 0.60: m = (top >> 1) + 1                                          # bottom of the range
        elif k < 0.75: m = ((top - 1) // 3) | (top >> 1) | 1
        else: m = (rng.getrandbits(Bt - lz) | (top >> 1) | 1)
        if m < 1: m = 1
        return m | 1
    k = rng.random()
    if k < 0.05: return 1
    if k < 0.10: return 3
    if k < 0.20: return R - 1
    if k < 0.28: return (R >> 1) + 1
    if k < 0.36: return (R - 1) // 3
    if k < 0.44: return (R >> 2) + rng.choice([-1, 1])
    if k < 0.64: return modulus(rng, n, rng.choice([0, 1, 2, 3, 4, 5, 6, 7, 8, 15, 31, 32, 33, 62, 63, 64, 65, 100, 127, 128]))
    if k < 0.72: return from_limbs(limbs(rng, rng.randrange(1, n + 1))) | 1       # zero high limbs
    if k < 0.80: return (R >> 1) - 1
    return value(rng, n) | 1

def base(rng, m, n):
    k = rng.random()
    if k < 0.10: return 0
    if k < 0.20: return 1 % m
    if k < 0.35: return m - 1
    if k < 0.40: return 2 % m
    if k < 0.45: return (m - 2) % m
    if k < 0.50: return ((m + 1) // 2) % m
    return value(rng, n) % m

def exponent(rng, r):
    """r-limb exponent."""
    Bt = 64 * r
    k = rng.random()
    if k < 0.06: return 0
    if k < 0.12: return 1
    if k < 0.22: return (1 << Bt) - 1
    if k < 0.32: return 1 << rng.randrange(Bt)
    if k < 0.40: return (1 << rng.randrange(1, Bt + 1)) - 1
    if k < 0.46: return from_limbs([rng.choice([0x0f0f0f0f0f0f0f0f, 0xf0f0f0f0f0f0f0f0, 0x1111111111111111, 0x8888888888888888, 0xfedcba9876543210])] * r)
    if k < 0.52: return rng.randrange(1, 16) << (4 * rng.randrange(Bt // 4))      # a single non-zero window
    if k < 0.58: return ((1 << Bt) - 1) ^ (1 << rng.randrange(Bt))
    return value(rng, r)

def kbound(rng, r):
    """exponent_bits on the window / limb boundaries of an r-limb exponent."""
    Bt = 64 * r
    k = rng.random()
    if k < 0.10: return rng.choice([0, 1, 2, 3, 4, 5])
    if k < 0.30: return min(Bt, max(0, 4 * rng.randrange(0, Bt // 4 + 1) + rng.choice([-1, 0, 1])))
    if k < 0.60: return min(Bt, max(0, 64 * rng.randrange(0, r + 1) + rng.choice([-1, 0, 0, 1])))
    if k < 0.75: return Bt
    if k < 0.80: return Bt - 1
    return rng.randrange(0, Bt + 1)

def pow_cost(n, k):
    """rough vm_compute cost (seconds) of one ladder: (1.25 k + 14) multiplications of n limbs."""
    return (1.25 * k + 14) * 0.0007 * n * n

# ---------------------------------------------------------------- case builders
MONTY_POW = ['monty_bounded', 'monty_bounded_trait']
MONTY_POW_FULL = ['monty_full', 'monty_full_trait']
CONST_POW = ['const_bounded', 'const_bounded_trait']
CONST_POW_FULL = ['const_full', 'const_full_trait']
BOXED_POW = ['bounded', 'bounded_trait', 'generic']

def pow_cases(add, rng, kind, n, m, x, e, r, k, i=0, all_routes=False):
    """One (m, x, e, k) on the routes of one representation. kind: monty / const / boxed."""
    M, X, E = to_limbs(m, n), to_limbs(x, n), to_limbs(e, r)
    full = (k == 64 * r)
    dbg = (i % 2 == 0)
    if kind == 'boxed':
        routes = BOXED_POW + (['full'] if full else [])
        if not all_routes: routes = [routes[i % len(routes)]] + (['full'] if full and i % 2 else [])
        for rt in dict.fromkeys(routes):
            add(Case('pow.boxed.' + rt, [M, X, E, k], mop='pow.boxed', dbg=dbg))
        return
    routes = (MONTY_POW if kind == 'monty' else CONST_POW) + ((MONTY_POW_FULL if kind == 'monty' else CONST_POW_FULL) if full else [])
    if kind == 'monty' and r == n: routes = routes + ['monty_generic']
    if not all_routes:
        routes = [routes[i % len(routes)]] + ([routes[-1]] if full else [])
    for rt in dict.fromkeys(routes):
        add(Case('pow.fixed.' + rt, [M, X, E, k], mop='pow.fixed', dbg=dbg))

def mexp_cases(add, rng, kind, n, m, bes, r, k, i=0):
    """bes = [(x, e)]; arrays for <= 3 bases (0 only for const), slices for any count."""
    args = [to_limbs(m, n), k]
    for (x, e) in bes:
        args += [to_limbs(x, n), to_limbs(e, r)]
    full = (k == 64 * r)
    dbg = (i % 2 == 0)
    forms = []
    if len(bes) <= 3 and (len(bes) >= 1 or kind == 'const'): forms.append('array')
    if len(bes) >= 1 or kind == 'const': forms.append('slice')
    for f in forms:
        add(Case('multiexp.%s.%s_bounded' % (f, kind), args, mop='multiexp.' + f, dbg=dbg))
        if full:
            add(Case('multiexp.%s.%s_full' % (f, kind), args, mop='multiexp.' + f, dbg=dbg))

def lincomb_cases(add, rng, kind, n, m, terms, i=0):
    args = [to_limbs(m, n)]
    for (a, b) in terms:
        args += [to_limbs(a, n), to_limbs(b, n)]
    if kind == 'monty':
        for rt in ('monty', 'monty_trait', 'monty_selected1', 'monty_selected0'):
            add(Case('lincomb.fixed.' + rt, args, mop='lincomb.fixed', dbg=True))
    elif kind == 'const':
        add(Case('lincomb.fixed.const', args, mop='lincomb.fixed', dbg=True))
    else:
        for rt in ('inherent', 'trait'):
            add(Case('lincomb.boxed.' + rt, args, mop='lincomb.boxed', dbg=True))

def monty_operand(rng, m, n, rinv):
    """An operand chosen by its Montgomery representative r (the value the accumulation works on)."""
    k = rng.random()
    if k < 0.45: r = (m - rng.choice([1, 1, 1, 2, 2, 3, 4])) % m
    elif k < 0.55: r = (m - 1 - rng.getrandbits(8)) % m
    elif k < 0.62: r = 0
    elif k < 0.68: r = 1 % m
    elif k < 0.76: r = from_limbs([MAXW] * n) % m
    else: r = value(rng, n) % m
    return (r * rinv) % m

def lincomb_terms(rng, m, n, count, big, huge=False):
    R = 1 << (64 * n)
    rinv = pow(R, -1, m) if m > 1 else 0
    ts = []
    for _ in range(count):
        if huge:
            # every Montgomery representative within 4 of m: the accumulator reaches its maximum count * (m-1)^2
            ts.append((((m - rng.choice([1, 1, 2, 3])) * rinv) % m, ((m - rng.choice([1, 1, 2, 4])) * rinv) % m))
        elif big or rng.random() < 0.6:
            ts.append((monty_operand(rng, m, n, rinv), monty_operand(rng, m, n, rinv)))
        else:
            ts.append((base(rng, m, n), base(rng, m, n)))
    return ts

def term_counts(lz):
    w = 1 << min(lz, 6)
    cs = {1, 2, 3, w - 1, w, w + 1, 2 * w - 1, 2 * w, 2 * w + 1, 3 * w, 3 * w + 1, 40, 39}
    return sorted(c for c in cs if 1 <= c <= 40)

# ---------------------------------------------------------------- generator
def gen(tier, rng):
    scale = 1 if tier == 'quick' else 8
    cs = []; add = cs.append
    menu = const_menu()
    budget = [25.0 * scale]        # total estimated vm_compute seconds spent on heavy ladders

    def afford(n, k, limit=2.0):
        c = pow_cost(n, k)
        if c <= limit: return True
        if budget[0] >= c:
            budget[0] -= c
            return True
        return False

    # ---- 1. every k for one- and two-limb exponents: pow on the three representations, two-base multi-exp
    for (n, r) in ((1, 1), (2, 1), (1, 2), (2, 2)):
        for rep in range(scale):
            cm, _ = rng.choice([c for c in menu[n] if r in c[1]])
            for kind, m in (('monty', modulus(rng, n)), ('const', cm), ('boxed', modulus(rng, n))):
                x = base(rng, m, n) if rep else (value(rng, n) % m)
                e = (1 << (64 * r)) - 1 if rep == 0 else exponent(rng, r)
                for k in range(0, 64 * r + 1):
                    pow_cases(add, rng, kind, n, m, x, e, r, k, i=k)
            # multi-exponentiation, 2 and 3 bases, every k (top window masked for EVERY base)
            if r == n or n == 1:
                cmods = [c for c in menu[n] if c[1][0] == r]
                for kind, m in (('monty', modulus(rng, n)),) + ((('const', rng.choice(cmods)[0]),) if cmods else ()):
                    nb = 2 + (rep % 2)
                    bes = [((value(rng, n) % m) if m > 1 else 0, ((1 << (64 * r)) - 1) if rep == 0 else exponent(rng, r)) for _ in range(nb)]
                    for k in range(0, 64 * r + 1):
                        mexp_cases(add, rng, kind, n, m, bes, r, k, i=k)

    # ---- 1b. nilpotent bases: base^e = 0 (mod m) with base <> 0 needs a modulus that is not square-free and a base
    #      divisible by its radical; the ladder then ends EXACTLY at m (the unreduced zero) before the final
    #      conditional subtractions of the boxed form, and at a multiple of m inside the fixed form
    for n in (1, 2, 3, 4):
        R = 1 << (64 * n)
        nil = [(9, 3), (9, 6), (25, 5), (27, 3), (45, 15), (225, 15), (693, 231), (3 ** 40, 3 ** 20 * 2), (3 ** 40, 3 ** 39)]
        for q in ((1 << 61) - 1, (1 << 31) - 1, (1 << (32 * n)) - 1, 3 ** (20 * n)):
            if q * q < R:
                nil += [(q * q, q), (q * q, 7 * q % (q * q)), (q * q, (q * q - q))]
        for (m, x) in nil:
            if m >= R or m % 2 == 0: continue
            for (e, k) in ((2, 2), (2, 64), (3, 2), (6, 3), (5, 64), (0xffff, 16)):
                for kind in ('boxed', 'monty'):
                    if kind == 'monty' and n not in FIXED_NS: continue
                    pow_cases(add, rng, kind, n, m, x % m, e, 1, k, i=k)
    # ---- 2. pow: all width pairs, boundary k, the three representations on the same input where possible
    for n in FIXED_NS:
        for r in FIXED_NS:
            reps = (14 if n <= 4 else 8) * scale
            for i in range(reps):
                m = modulus(rng, n)
                x = base(rng, m, n); e = exponent(rng, r); k = kbound(rng, r)
                if not afford(n, k): k = rng.choice([0, 1, 3, 4, 5, 8, 63, 64, 65][: 6 if r == 1 else 9])
                pow_cases(add, rng, 'monty', n, m, x, e, r, k, i=i, all_routes=(i % 4 == 0))
                if i % 2 == 0:
                    pow_cases(add, rng, 'boxed', n, m, x, e, r, k, i=i)
        # the compile-time moduli: runtime, compile-time and boxed on identical inputs
        for (cm, rs) in menu[n]:
            for r in rs:
                for i in range(3 * scale):
                    x = base(rng, cm, n); e = exponent(rng, r); k = kbound(rng, r) if i else 64 * r
                    if not afford(n, k, limit=1.0): k = rng.choice([0, 1, 3, 4, 5, 8, 63, 64, 65][: 6 if r == 1 else 9])
                    pow_cases(add, rng, 'const', n, cm, x, e, r, k, i=i, all_routes=(i == 0))
                    pow_cases(add, rng, 'monty', n, cm, x, e, r, k, i=i + 1)
                    pow_cases(add, rng, 'boxed', n, cm, x, e, r, k, i=i + 2)
    # boxed: every limb count 1..=17, exponent precision independent of the modulus precision
    for n in range(1, 18):
        for i in range(10 * scale):
            r = rng.choice([1, 1, 2, 3, n, n, max(1, n - 1), n + 1, 17, 18]) if i else n
            m = modulus(rng, n)
            x = base(rng, m, n); e = exponent(rng, r); k = kbound(rng, r) if i else 64 * r
            if not afford(n, k): k = rng.choice([0, 1, 3, 4, 5, 8, 63, 64, 65][: 6 if r == 1 else 9])
            pow_cases(add, rng, 'boxed', n, m, x, e, r, k, i=i, all_routes=(i % 3 == 0))
    # m = 1 and k = 0 on every representation (k = 0 must give the canonical one = R mod m)
    for n in (1, 2):
        for kind in ('monty', 'const', 'boxed'):
            for k in (0, 1, 64):
                pow_cases(add, rng, kind, n, 1, 0, exponent(rng, 1), 1, k, all_routes=True)
    for n in FIXED_NS:
        m = modulus(rng, n)
        for kind in ('monty', 'boxed'):
            pow_cases(add, rng, kind, n, m, base(rng, m, n), exponent(rng, n), n, 0, all_routes=True)

    # ---- 3. multi-exponentiation
    for n in FIXED_NS:
        for r in FIXED_NS:
            for i in range((6 if n <= 4 else 3) * scale):
                m = modulus(rng, n)
                nb = rng.choice([1, 2, 2, 3, 3, 4, 5])
                k = kbound(rng, r)
                if not afford(n, k * nb): k = rng.choice([0, 1, 2, 3, 5, 6, 7, 9])
                bes = [(base(rng, m, n), exponent(rng, r)) for _ in range(nb)]
                if rng.random() < 0.2: bes[-1] = (bes[0][0], bes[-1][1])                # equal bases
                mexp_cases(add, rng, 'monty', n, m, bes, r, k, i=i)
        for (cm, rs) in menu[n]:
            r = rs[0]
            for i in range(2 * scale):
                nb = rng.choice([0, 1, 2, 3, 3, 4]) if i else 2
                k = kbound(rng, r)
                if not afford(n, k * max(1, nb), limit=1.0): k = rng.choice([0, 1, 2, 3, 5, 6, 7, 9])
                bes = [(base(rng, cm, n), exponent(rng, r)) for _ in range(nb)]
                mexp_cases(add, rng, 'const', n, cm, bes, r, k, i=i)
                if nb: mexp_cases(add, rng, 'monty', n, cm, bes, r, k, i=i)

    # ---- 4. lincomb: term count against the window 2^lz
    LZS = [0, 1, 2, 3, 4, 5, 6, 7, 20, 62, 63, 64, 100]
    for n in FIXED_NS:
        for lz in LZS:
            if lz >= 64 * n - 1: continue
            for count in term_counts(lz):
                for i in range(scale):
                    m = modulus(rng, n, lz)
                    big = (i % 2 == 0)
                    ts = lincomb_terms(rng, m, n, count, big)
                    lincomb_cases(add, rng, 'monty', n, m, ts, i)
                    if n <= 8 or count <= 9:
                        lincomb_cases(add, rng, 'boxed', n, m, ts, i)
        for (cm, _) in menu[n]:
            lz = lz_of(cm, n)
            for count in term_counts(lz)[: (None if n <= 4 else 7)]:
                ts = lincomb_terms(rng, cm, n, count, True)
                lincomb_cases(add, rng, 'const', n, cm, ts)
                lincomb_cases(add, rng, 'monty', n, cm, ts)
                lincomb_cases(add, rng, 'boxed', n, cm, ts)
    # window overrun probes: 2^lz < count < 2^(lz+1) terms, modulus just below 2^(BITS-lz), all representatives ~ m:
    # one accumulation over that many terms would exceed 2*m*R (the bound that keeps hi_carry <= 1 and one
    # conditional subtraction sufficient); the drivers must split the list
    for lz in (1, 2, 3, 4, 5):
        w = 1 << lz
        for count in sorted(set([w + 1, w + 2, w + w // 2, 2 * w - 2, 2 * w - 1]) & set(range(w + 1, min(2 * w, 41)))):
            for n in FIXED_NS + [3, 5, 9, 17]:
                for i in range(scale):
                    m = (1 << (64 * n - lz)) - rng.choice([1, 1, 3, 5, 19, 25, 59, 189])
                    ts = lincomb_terms(rng, m, n, count, True, huge=True)
                    if n in FIXED_NS: lincomb_cases(add, rng, 'monty', n, m, ts, i)
                    lincomb_cases(add, rng, 'boxed', n, m, ts, i)
    for n in FIXED_NS:
        for (cm, _) in menu[n]:
            lz = lz_of(cm, n)
            w = 1 << lz
            if not (1 <= lz <= 5) or cm < (1 << (64 * n - lz)) - 1000: continue
            for count in sorted(set([w + 1, w + w // 2, 2 * w - 1]) & set(range(w + 1, min(2 * w, 41)))):
                for i in range(2 * scale):
                    lincomb_cases(add, rng, 'const', n, cm, lincomb_terms(rng, cm, n, count, True, huge=True))
    for n in range(1, 18):
        for i in range(6 * scale):
            lz = rng.choice([0, 1, 1, 2, 2, 3, 4, 5, 63, 70])
            if lz >= 64 * n - 1: lz = 1
            m = modulus(rng, n, lz)
            count = rng.choice(term_counts(lz))
            lincomb_cases(add, rng, 'boxed', n, m, lincomb_terms(rng, m, n, count, i % 2 == 0), i)
    # documented panic: empty product list (runtime and boxed forms)
    for n in (1, 4):
        m = modulus(rng, n)
        lincomb_cases(add, rng, 'monty', n, m, [])
        lincomb_cases(add, rng, 'boxed', n, m, [])
    return cs
