"""C01 — secret-independent execution.

Two parts:
 * gen(tier, rng): a handful of ordinary cases for the generic pipeline (limb.adc / limb.sbb from C04), so that
   `./check C01` has something to run through harness + extracted model;
 * extra_check(tier, seed[, replay]) -> (violations, stats): the trace comparison.
     (i)   rebuilds the instrumented binary ct/ (crate `cbct`) against /repo's current tree;
     (ii)  for every wrapper listed by `cbct --list`, draws public parameters and PAIRS of secret assignments
           (0, 1, MAX, 2^k, bit lengths at limb multiples, equal operands, modulus-1, uniform) and lets the binary
           record the sancov event sequence (edges, gep indices, div operands, load/store addresses) of both;
     (iii) a constant-time wrapper whose two traces differ is a violation (replay = the pair), unless the first
           differing event lies inside the safegcd divsteps/jump code AND the wrapper belongs to the inversion / gcd
           family: those are counted as `known:F10`;
     (iv)  `_vartime` controls: traces must differ for some pair that differs in the operand the documentation
           names (otherwise the instrument is blind) and must not differ when only the other operands change.
     (v)   machine-code layer (tools/vlib/c01mc.py): the same wrappers built WITHOUT instrumentation are executed under
           valgrind/callgrind on the same pairs; per recording window the executed-instruction profile, the
           taken/executed counts of every jump and the call counts must be identical for both assignments.  This sees
           what the backend does after LLVM IR (cmov -> branch conversion and the like), which (ii) cannot.
"""
import os, re, subprocess, time, random, json
from concurrent.futures import ThreadPoolExecutor
from . import common as C
from . import c01mc as MC
from .common import Case
from .gen import limb, word, MAXW, B

CT = os.path.join(C.ROOT, 'ct')
REPO_DIR = os.path.basename(os.path.normpath(C.REPO))
TARGET_CT = os.path.join(C.CACHE, 'target_ct')
COQCHK = True

TRUSTED = [
    'Coq 8.16.1 kernel incl. its bytecode VM (vm_compute used for the refutation witnesses and examples)',
    'no axioms: Print Assumptions of every theorem = Closed under the global context',
    'hand-written leakage twins (coq/Model/Leak.v): which source constructs emit events is a modelling decision',
    'LLVM SanitizerCoverage (sancov-module pass appended to the -O3 pipeline of rustc 1.95): the recorded trace is the '
    'optimized LLVM IR\'s edge / gep / div / load / store sequence, not the machine code after instruction selection',
    'the recorder crate ct/rt (callbacks, bump arena, address normalisation), the wrappers ct/src, tools/vlib/c01.py',
]
ASSUMPTIONS = [
    'binary part is SAMPLED: secret-independence is shown only for the generated pairs of secrets and public parameters',
    'the noninterference theorems are about the source-level leakage twins; twin <-> binary is the sampled implication '
    '"same public parameters => same recorded trace"',
    'what the backend does after LLVM IR (cmov <-> branch conversion, instruction timing, caches, speculation) is not observed',
    'division tracing sees the divisor of 32/64-bit udiv/sdiv/urem/srem with a non-constant divisor only',
]

# ------------------------------------------------------------------ generic pipeline part
def gen(tier, rng):
    cases = []
    for _ in range(40 if tier == 'quick' else 400):
        x, y, c = word(rng), word(rng), rng.choice([0, 1, MAXW, word(rng)])
        cases.append(Case('limb.adc', [x, y, c]))
        cases.append(Case('limb.sbb', [x, y, c]))
    return cases

# ------------------------------------------------------------------ build
def ct_env():
    env = dict(os.environ)
    env.update({'CARGO_NET_OFFLINE': 'true', 'CARGO_TARGET_DIR': TARGET_CT,
                'RUSTC_WRAPPER': os.path.join(CT, 'rustc-wrap.sh')})
    env.pop('RUSTFLAGS', None)
    return env

def build_ct():
    t = time.time()
    lock = os.path.join(CT, 'Cargo.lock')
    if not os.path.exists(lock):
        import shutil
        shutil.copy(os.path.join(C.REPO, 'Cargo.lock'), lock)
    # Cargo.toml is generated from Cargo.toml.in so that the same crate can be pointed at a scratch worktree (VERIF_REPO)
    tmpl = open(os.path.join(CT, 'Cargo.toml.in')).read().replace('@REPO@', C.REPO)
    ctoml = os.path.join(CT, 'Cargo.toml')
    if not os.path.exists(ctoml) or open(ctoml).read() != tmpl:
        open(ctoml, 'w').write(tmpl)
    rc, out = C.sh(['cargo', 'build', '--offline', '--release'], cwd=CT, timeout=3000, env=ct_env())
    return rc, out, os.path.join(TARGET_CT, 'release', 'cbct'), time.time() - t

def list_ops(exe):
    p = subprocess.run([exe, '--list'], stdout=subprocess.PIPE, text=True, timeout=60)
    ops = []
    for l in p.stdout.split('\n'):
        if not l.strip():
            continue
        f = l.split('\t')
        descs = []
        for d in (f[2].split(' ') if len(f) > 2 and f[2] else []):
            role, kind, n = d.split(':')
            descs.append((role, kind, int(n)))
        ops.append((f[0], f[1], descs))
    return ops

# ------------------------------------------------------------------ value drawing
def to_limbs(v, n):
    return [(v >> (64 * i)) & MAXW for i in range(n)]

def special_value(rng, n, cls):
    """n-limb value of a named class."""
    bits = 64 * n
    M = 1 << bits
    if cls == 'zero': return 0
    if cls == 'one': return 1
    if cls == 'max': return M - 1
    if cls == 'pow2': return 1 << rng.randrange(bits)
    if cls == 'limbbits':           # bit length an exact multiple of the limb size
        j = rng.randrange(1, n + 1)
        return rng.choice([(1 << (64 * j)) - 1, (1 << (64 * j - 1)), (1 << (64 * j - 1)) | rng.getrandbits(64 * j - 1)])
    if cls == 'limbbits1':          # bit length one more than a limb multiple
        j = rng.randrange(0, n)
        return (1 << (64 * j)) | (rng.getrandbits(64 * j) if j and rng.random() < 0.5 else 0)
    if cls == 'alphabet':
        v = 0
        for i in range(n):
            v |= limb(rng) << (64 * i)
        return v
    if cls == 'small': return rng.randrange(2, 1 << 16)
    if cls == 'lowzero':            # many trailing zero bits
        return (rng.getrandbits(bits) << rng.randrange(1, bits)) & (M - 1)
    return rng.getrandbits(bits)    # uniform

VALUE_CLASSES = ['zero', 'one', 'max', 'pow2', 'limbbits', 'limbbits1', 'alphabet', 'small', 'lowzero', 'uniform', 'uniform']

def draw_value(rng, n, cls=None):
    return special_value(rng, n, cls or rng.choice(VALUE_CLASSES))

def draw_arg(rng, kind, n, sofar, cls=None):
    """One argument (list of words) of the given descriptor kind; `sofar` = already drawn args by index (ints)."""
    bits = 64 * n
    M = 1 << bits
    m = re.fullmatch(r'(ltc|lt|ub)(\d+)', kind)
    if kind in ('u', 'i'):
        return draw_value(rng, n, cls)
    if kind in ('nz', 'nzi'):
        v = draw_value(rng, n, cls)
        return v if v else 1
    if kind == 'odd':
        return draw_value(rng, n, cls) | 1
    if kind == 'odd3':     # odd modulus >= 3 (Montgomery forms)
        v = draw_value(rng, n, cls) | 1
        return v if v >= 3 else 3
    if kind == 'w':
        return {'zero': 0, 'one': 1, 'max': MAXW, 'pow2': 1 << rng.randrange(64)}.get(cls, limb(rng))
    if kind == 'nzw':
        v = {'zero': 1, 'one': 1, 'max': MAXW, 'pow2': 1 << rng.randrange(64), 'limbbits': 1 << 63}.get(cls, limb(rng))
        return v if v else 1
    if kind == 'cw':       # c of the special modulus 2^BITS - c
        v = rng.choice([1, 2, 3, 189, 1 << 32, (1 << 32) + 977, limb(rng) >> 1])
        return v if v else 1
    if kind == 'c':
        return rng.randrange(2) if cls not in ('zero', 'one') else (0 if cls == 'zero' else 1)
    if kind == 'shw':
        return rng.choice([0, 1, 31, 32, 63, rng.randrange(64)])
    if kind == 'sh':       # shift amount inside the width
        c = {'zero': 0, 'one': 1, 'max': bits - 1}.get(cls)
        if c is not None: return c
        return rng.choice([0, 1, 63 % bits, 64 % bits, bits - 1, (64 * rng.randrange(n)) % bits, rng.randrange(bits)])
    if kind == 'shx':      # any u32 shift / bit index, in and out of range
        c = {'zero': 0, 'one': 1, 'max': 0xffffffff}.get(cls)
        if c is not None: return c
        return rng.choice([0, 1, 63, 64, bits - 1, bits, bits + 1, 2 * bits, 0xffffffff, 0x80000000, 64 * rng.randrange(n + 1),
                           rng.randrange(bits), rng.randrange(bits), rng.getrandbits(32)])
    if kind in ('k', 'bits'):  # 0..=BITS
        c = {'zero': 0, 'one': 1, 'max': bits}.get(cls)
        if c is not None: return c
        return min(bits, rng.choice([0, 1, 63, 64, 65, bits - 1, bits, 64 * rng.randrange(n + 1), rng.randrange(bits + 1)]))
    if m:
        rel, k = m.group(1), int(m.group(2))
        ref = sofar[k]
        if rel == 'lt':
            bound = ref
        elif rel == 'ltc':
            bound = M - ref
        else:
            bound = 1 << min(ref, bits)
        if bound <= 1:
            return 0
        if cls == 'max': return bound - 1          # modulus - 1
        if cls == 'zero': return 0
        if cls == 'one': return 1 % bound
        if cls == 'half': return bound // 2
        v = draw_value(rng, n, cls)
        return v % bound
    raise C.CheckerError('c01: unknown argument kind %r' % kind)

def order_of(descs):
    """Indices so that referenced arguments (ltK, ubK) are drawn first."""
    idx = list(range(len(descs)))
    def dep(i):
        m = re.fullmatch(r'(ltc|lt|ub)(\d+)', descs[i][1])
        return int(m.group(2)) if m else None
    done, out = set(), []
    while len(out) < len(idx):
        for i in idx:
            if i in done: continue
            d = dep(i)
            if d is None or d in done:
                out.append(i); done.add(i)
    return out

SECRET_CLASSES = ['zero', 'max', 'one', 'lowzero', 'pow2', 'limbbits', 'equal', 'limbbits1', 'alphabet', 'small', 'uniform', 'half', 'max']

def draw_assignment(rng, descs, fixed, roles, uniform=False, cyc=None):
    """Draw values for the arguments whose role is in `roles`; others come from `fixed` (dict index -> int)."""
    vals = dict(fixed)
    order = order_of(descs)
    prev_same_kind = {}
    for i in order:
        role, kind, n = descs[i]
        if i in vals:
            prev_same_kind[(kind, n)] = vals[i]
            continue
        if uniform:
            cls = 'uniform'
        elif cyc is not None:
            cls = SECRET_CLASSES[(cyc + 5 * i) % len(SECRET_CLASSES)]    # every class is visited within len(..) assignments
        else:
            cls = rng.choice(SECRET_CLASSES)
        if cls == 'equal':
            if (kind, n) in prev_same_kind and kind in ('u', 'i', 'w', 'nz', 'odd') or (kind.startswith('lt') and (kind, n) in prev_same_kind):
                vals[i] = prev_same_kind[(kind, n)]
                continue
            cls = 'uniform'
        vals[i] = draw_arg(rng, kind, n, vals, cls)
        prev_same_kind[(kind, n)] = vals[i]
    return vals

def fmt_args(descs, vals):
    parts = []
    for i, (role, kind, n) in enumerate(descs):
        v = vals[i]
        if kind in ('w', 'nzw', 'cw', 'c', 'shw', 'sh', 'shx', 'k', 'bits'):
            parts.append('%x' % v)
        else:
            parts.append(','.join('%x' % x for x in to_limbs(v, n)))
    return ';'.join(parts)

# ------------------------------------------------------------------ pairs
def make_pairs(ops, tier, rng, only=None):
    """Returns list of dicts: id, op, cls, kind ('ct' | 'vt-fix' | 'vt-vary'), a1, a2 (argument strings)."""
    quick = tier == 'quick'
    out = []
    for name, cls, descs in ops:
        if only and not re.search(only, name):
            continue
        nmax = max([d[2] for d in descs] + [1])
        if cls == 'vt' and nmax == 1 and not name.startswith('selftest'):
            continue        # single-limb controls have nothing to vary with
        pub_idx = [i for i, d in enumerate(descs) if d[0] == 'p']
        sec_idx = [i for i, d in enumerate(descs) if d[0] == 's']
        var_idx = [i for i, d in enumerate(descs) if d[0] == 'v']
        heavy = bool(re.search(r'pow|inv|gcd|sqrt|monty_params|div|rem|mul_mod$', name)) and nmax >= 16
        if quick:
            npub, nsec = (2, 7)
        else:
            npub, nsec = (6, 25) if not heavy else (4, 13)
        if not pub_idx:
            nsec = nsec * npub; npub = 1
        for pi in range(npub):
            pub = draw_assignment(rng, descs, {}, None)         # draws everything; keep only the public part
            pubvals = {i: pub[i] for i in pub_idx}
            if cls == 'ct':
                assigns = [draw_assignment(rng, descs, pubvals, None, uniform=True)]
                for k in range(nsec - 1):
                    assigns.append(draw_assignment(rng, descs, pubvals, None, cyc=pi * (nsec - 1) + k))
                for j in range(1, len(assigns)):
                    a, b = (assigns[0], assigns[j]) if j % 3 else (assigns[j - 1], assigns[j])
                    out.append({'op': name, 'cls': cls, 'kind': 'ct', 'a1': fmt_args(descs, a), 'a2': fmt_args(descs, b)})
            else:
                # vary: the documented operand changes (everything else may change too)
                assigns = [draw_assignment(rng, descs, pubvals, None, uniform=True)]
                for k in range(nsec - 1):
                    assigns.append(draw_assignment(rng, descs, pubvals, None, cyc=pi * (nsec - 1) + k))
                for j in range(1, len(assigns)):
                    out.append({'op': name, 'cls': cls, 'kind': 'vt-vary', 'a1': fmt_args(descs, assigns[0]), 'a2': fmt_args(descs, assigns[j])})
                # fix: the documented operand and the public parameters stay, only the other operands change
                if sec_idx:
                    for j in range(1, len(assigns)):
                        base = assigns[j]
                        fixed = {i: base[i] for i in pub_idx + var_idx}
                        try:
                            other = draw_assignment(rng, descs, fixed, None)
                        except Exception:
                            continue
                        out.append({'op': name, 'cls': cls, 'kind': 'vt-fix', 'a1': fmt_args(descs, base), 'a2': fmt_args(descs, other)})
    for i, c in enumerate(out):
        c['id'] = 'p%d' % i
    return out

# ------------------------------------------------------------------ running
def run_pairs(exe, pairs, timeout=3000):
    if not pairs:
        return {}
    nshard = min(C.NCPU, max(1, len(pairs) // 40))
    # interleave so that heavy wrappers are spread over the shards
    shards = [pairs[i::nshard] for i in range(nshard)]
    def work(shard):
        res = {}
        pending = shard
        while pending:
            inp = ''.join('%s\t%s\t%s\t%s\n' % (c['id'], c['op'], c['a1'], c['a2']) for c in pending)
            p = subprocess.run([exe], input=inp, stdout=subprocess.PIPE, stderr=subprocess.PIPE, text=True, timeout=timeout)
            for l in p.stdout.split('\n'):
                if not l: continue
                f = l.split('\t')
                if len(f) > 9 and REPO_DIR != 'repo':      # a scratch worktree: name the crate directory `repo` again
                    f[9] = f[9].replace('(' + REPO_DIR + '/src/', '(repo/src/')
                    f[10:11] = [x.replace('(' + REPO_DIR + '/src/', '(repo/src/') for x in f[10:11]]
                res[f[0]] = f[1:]
            if p.returncode == 0:
                break
            rest = [c for c in pending if c['id'] not in res]
            if not rest:
                break
            res[rest[0]['id']] = ['crash', 'rc=%d %s' % (p.returncode, p.stderr[-300:])]
            pending = rest[1:]
        return res
    out = {}
    with ThreadPoolExecutor(max_workers=nshard) as ex:
        for r in ex.map(work, shards):
            out.update(r)
    return out

# Known findings. Built in: F10 = wrappers whose data dependence is the safegcd divsteps/jump loop. A difference is
# attributed to a finding only if the wrapper name matches AND the first differing event of BOTH runs lies in the
# named source construct (top frames of the symbolised call stacks). Further open C01 findings can be declared in
# known_findings.json: {"property": "C01", "status": "open", "id": "F..", "op_regex": "...", "c01_stack_regex": "..."}.
BUILTIN_KNOWN = [{
    'id': 'F10',
    'op_regex': r'.*\.(inv_odd_mod(_secret_modulus)?|inv_mod|gcd|inverter_invert|inv|invert|invert_trait)',
    'c01_stack_regex': r'^[^<]*\(repo/src/modular/safegcd(/boxed)?\.rs|(^| <- )(jump|divsteps[^ ]*) \(repo/src/modular/safegcd(/boxed)?\.rs',
}]

def known_entries():
    out = list(BUILTIN_KNOWN)
    p = os.path.join(C.ROOT, 'known_findings.json')
    if os.path.exists(p):
        try:
            for f in json.load(open(p)).get('findings', []):
                if f.get('property') == 'C01' and f.get('status') == 'open' and (f.get('c01_stack_regex') or f.get('c01_mc_site_regex')):
                    out = [e for e in out if e['id'] != f.get('id')] + [f]
        except Exception:
            pass
    return out

def known_match(pair, res, entries):
    st1 = res[8] if len(res) > 8 else ''
    st2 = res[9] if len(res) > 9 else ''
    for e in entries:
        if not re.fullmatch(e.get('op_regex', '.*'), pair['op']):
            continue
        if not e.get('c01_stack_regex'):
            continue
        rx = re.compile(e['c01_stack_regex'])
        if st1 and st2 and rx.search(st1) and rx.search(st2):
            return e['id']
    return None

MC_BUILTIN = {
    # F10: everything below the inversion / gcd entry points is data dependent (safegcd jump / divsteps trip counts, the
    # Option conversions of the boxed inverters); a pair whose only differences are trip counts has no decision site.
    'F10': r'safegcd|::inv_mod \(|Inverter>::invert \(|::gcd \(|inv_odd_mod|invert',
}

def mc_known_match(pair, info, entries):
    """A machine-code difference belongs to an open finding iff the wrapper matches its op_regex and EVERY decision site
    (conditional jump executed equally often but taken differently) matches its c01_mc_site_regex; a pair without any
    decision site (only trip counts differ) needs one matching site among the other differing records."""
    for e in entries:
        rxs = e.get('c01_mc_site_regex') or MC_BUILTIN.get(e.get('id'))
        if not rxs or not re.fullmatch(e.get('op_regex', '.*'), pair['op']):
            continue
        rx = re.compile(rxs)
        dec, oth = info.get('decision_sites', []), info.get('other_sites', [])
        if dec:
            if all(rx.search(x) for x in dec):
                return e['id']
        elif any(rx.search(x) for x in oth):
            return e['id']
    return None

def site(stack):
    """'function (file:line)' of the innermost frame -> 'file:function' (line numbers dropped)."""
    top = stack.split(' <- ')[0] if stack else '?'
    m = re.match(r'(.*?) \((.*?):\d+(?::\d+)?\)$', top)
    if not m:
        return re.sub(r'<[^>]*>', '', top)
    return '%s:%s' % (m.group(2), re.sub(r'<[^>]*>', '', m.group(1)))

def describe(pair, res):
    d = {'op': pair['op'], 'class': pair['cls'], 'pair_kind': pair['kind'], 'args1': pair['a1'], 'args2': pair['a2']}
    if res and res[0] == 'diff':
        d.update({'events1': int(res[1]), 'hash1': res[2], 'events2': int(res[3]), 'hash2': res[4],
                  'first_differing_event': int(res[5]), 'event1': res[6], 'event2': res[7],
                  'stack1': res[8] if len(res) > 8 else '', 'stack2': res[9] if len(res) > 9 else ''})
    else:
        d['result'] = res
    return d

# wrapper routine (name after the dot) -> noninterference theorem of its leakage twin in coq/Props/C01.v
TWIN_THEOREMS = {
    'conditional_select': 'C01_uint_select_ni', 'ct_select': 'C01_boxed_ct_select_ni', 'ct_assign': 'C01_boxed_ct_select_ni',
    'ct_swap': 'C01_boxed_ct_swap_ni', 'conditional_swap': 'C01_uint_select_ni',
    'ct_eq': 'C01_eq_ni', 'eq': 'C01_eq_ni', 'ct_lt': 'C01_lt_ni', 'ct_gt': 'C01_gt_ni', 'cmp': 'C01_cmp_ni',
    'adc': 'C01_adc_ni', 'wrapping_add': 'C01_adc_ni', 'checked_add': 'C01_adc_ni', 'saturating_add': 'C01_adc_ni',
    'sbb': 'C01_sbb_ni', 'wrapping_sub': 'C01_sbb_ni', 'checked_sub': 'C01_sbb_ni', 'saturating_sub': 'C01_sbb_ni',
    'shl': 'C01_shl_ni', 'shl_op': 'C01_shl_ni', 'shr': 'C01_shr_ni', 'shr_op': 'C01_shr_ni',
    'overflowing_shl': 'C01_overflowing_shl_ni', 'overflowing_shr': 'C01_overflowing_shr_ni',
    'wrapping_shl': 'C01_wrapping_shl_ni', 'wrapping_shr': 'C01_overflowing_shr_ni',
    'shl_vartime': 'C01_shl_vartime_ni', 'overflowing_shl_vartime': 'C01_shl_vartime_ni',
    'bit': 'C01_bit_ni', 'bits': 'C01_bits_ni', 'leading_zeros': 'C01_leading_zeros_ni', 'trailing_zeros': 'C01_trailing_zeros_ni',
    'bit_vartime': 'C01_bit_vartime_ni', 'bits_vartime': 'C01_bits_vartime_varies', 'cmp_vartime': 'C01_cmp_vartime_varies',
    'div_rem': 'C01_div_rem_ni', 'rem': 'C01_div_rem_ni', 'wrapping_div': 'C01_div_rem_ni', 'div_op': 'C01_div_rem_ni',
    'rem_op': 'C01_div_rem_ni', 'checked_div': 'C01_div_rem_ni', 'checked_rem': 'C01_div_rem_ni',
    'rem_limb': 'C01_rem_limb_ni', 'div_rem_limb': 'C01_rem_limb_ni',
    'neg_mod': 'C01_neg_mod_ni', 'neg': 'C01_neg_mod_ni', 'add_mod': 'C01_add_mod_ni', 'add': 'C01_add_mod_ni',
    'sub_mod': 'C01_sub_mod_ni', 'sub': 'C01_sub_mod_ni',
    'inv_mod2k': 'C01_inv_mod2k_ni', 'inv_mod2k_vartime': 'C01_inv_mod2k_vartime_ni',
    'sqrt': 'C01_sqrt_ni', 'checked_sqrt': 'C01_sqrt_ni',
    'mul': 'C01_montgomery_reduction_ni', 'square': 'C01_montgomery_reduction_ni', 'retrieve': 'C01_montgomery_reduction_ni',
    'pow': 'C01_pow_ni', 'pow_bounded_exp': 'C01_pow_ni',
    'inv_odd_mod': 'C01_leak_jump_refuted', 'inv_mod': 'C01_leak_jump_refuted', 'gcd': 'C01_leak_jump_refuted',
    'inverter_invert': 'C01_leak_jump_refuted', 'inv': 'C01_leak_jump_refuted', 'invert': 'C01_leak_jump_refuted',
    'invert_trait': 'C01_leak_jump_refuted', 'inv_odd_mod_secret_modulus': 'C01_leak_jump_refuted',
}

def extra_check(ctx, seed=None, replay=None, only=None):
    """Hook called by ./check as `mod.extra_check(ctx)` (ctx.tier, ctx.seed[, ctx.replay]); also callable as
    extra_check(tier, seed[, replay_json]). Returns (violations, stats):
      violations: dicts {kind: 'spec', obligation: 'trace:<wrapper>', desc, known?: 'F10', c01_pair: replayable pair, ...};
                  entries carrying `known` are matched by ./check against the OPEN findings of known_findings.json;
      stats:      {'obligations': wrappers compared, c01_*: details} merged into the evidence."""
    if isinstance(ctx, str):
        tier = ctx
    else:
        tier, seed = ctx.tier, ctx.seed
        replay = replay or getattr(ctx, 'replay', None)
    t0 = time.time()
    rc, out, exe, dt = build_ct()
    if rc != 0:
        return ([{'kind': 'corr', 'op': 'build', 'obligation': 'ct/ trace binary builds against /repo',
                  'desc': 'the trace binary ct/ does not build against %s: %s' % (C.REPO, out[-1500:]), 'output': out[-4000:]}],
                {'ct_build_failed': True, 'obligations': 1})
    ops = list_ops(exe)
    if not ops:
        raise C.CheckerError('c01: trace binary lists no wrappers')
    opmap = {o[0]: o for o in ops}
    rng = random.Random(seed * 7919 + 101)
    if replay and 'violation' in replay and 'c01_pair' in replay['violation']:
        replay = replay['violation']
    if replay and 'c01_pair' in replay:
        r = replay['c01_pair']
        pairs = [{'id': 'p0', 'op': r['op'], 'cls': r.get('class', 'ct'), 'kind': r.get('pair_kind', 'ct'), 'a1': r['args1'], 'a2': r['args2']}]
    else:
        pairs = make_pairs(ops, tier, rng, only=only)
    res = run_pairs(exe, pairs)
    violations, known = [], {}
    kentries = known_entries()
    per_op = {}
    blind, n_same, n_diff = [], 0, 0
    vary_seen = {}
    for p in pairs:
        r = res.get(p['id'])
        st = per_op.setdefault(p['op'], {'pairs': 0, 'diff': 0})
        st['pairs'] += 1
        if r is None or r[0] in ('unsupported', 'crash', 'panic'):
            raise C.CheckerError('c01: pair not runnable: %s %s | %s -> %s' % (p['op'], p['a1'][:200], p['a2'][:200], r))
        differs = r[0] == 'diff'
        if differs:
            n_diff += 1; st['diff'] += 1
        else:
            n_same += 1
        if p['kind'] == 'ct':
            if differs:
                kid = known_match(p, r, kentries)
                if kid:
                    d = describe(p, r); d['known'] = kid
                    known.setdefault(p['op'], d)
                else:
                    violations.append(describe(p, r))
        elif p['kind'] == 'vt-fix':
            if differs:
                d = describe(p, r)
                d['note'] = 'documented variable-time only in another operand: trace varies although that operand is fixed'
                violations.append(d)
        else:
            v = vary_seen.setdefault(p['op'], [0, 0])
            v[0] += 1
            v[1] += 1 if differs else 0
    for opn, (n, nd) in sorted(vary_seen.items()):
        if nd == 0:
            blind.append(opn)
    st_blind = [b for b in blind if b.startswith('selftest')]
    if st_blind:
        raise C.CheckerError('c01: instrument self-test failed, no data dependence recorded for %s' % st_blind)
    if vary_seen and len(blind) * 2 > len(vary_seen):
        raise C.CheckerError('c01: the instrument sees no data dependence in %d of %d variable-time controls: %s' % (
            len(blind), len(vary_seen), blind[:10]))
    # ---- (v) machine-code layer: uninstrumented -O3 build under callgrind, same pairs
    mc_violations, mc_known, mc_stats = [], {}, {}
    if os.environ.get('VERIF_C01_MC', '1') != '0':
        t1 = time.time()
        rcm, outm, exem, dtm = MC.build_mc()
        if rcm != 0:
            return ([{'kind': 'corr', 'op': 'build', 'obligation': 'ct/ machine-code binary builds against /repo',
                      'desc': 'the uninstrumented wrapper binary does not build against %s: %s' % (C.REPO, outm[-1500:])}],
                    {'ct_build_failed': True, 'obligations': 1})
        mres = MC.run_mc(exem, pairs)
        mc_same = mc_diff = 0
        mc_vary = {}
        mc_per_op = {}
        for p in pairs:
            r = mres.get(p['id'])
            if r is None or r[0] == 'error':
                raise C.CheckerError('c01: machine-code pair not runnable: %s %s | %s -> %s' % (p['op'], p['a1'][:200], p['a2'][:200], r))
            differs = r[0] == 'diff'
            mc_same += 0 if differs else 1
            mc_diff += 1 if differs else 0
            st = mc_per_op.setdefault(p['op'], [0, 0]); st[0] += 1; st[1] += 1 if differs else 0
            if p['op'].startswith('selftest') and p['kind'] != 'vt-vary':
                continue        # controls of the trace recorder (division operands, indices): not visible in a control-flow profile
            if p['kind'] == 'vt-vary':
                v = mc_vary.setdefault(p['op'], [0, 0]); v[0] += 1; v[1] += 1 if differs else 0
                continue
            if not differs:
                continue
            d = {'op': p['op'], 'class': p['cls'], 'pair_kind': p['kind'], 'args1': p['a1'], 'args2': p['a2'],
                 'layer': 'machine code (uninstrumented opt-level 3 build under callgrind)', 'mc': r[1]}
            kid = mc_known_match(p, r[1], kentries)
            if kid:
                d['known'] = kid
                mc_known.setdefault(p['op'], d)
            else:
                mc_violations.append(d)
        mc_blind = sorted(o for o, (n, nd) in mc_vary.items() if nd == 0)
        # the profile has control flow only: the branch and loop self-tests must be seen, the index / store / division ones cannot be
        if [b for b in mc_blind if b in ('selftest1.branch', 'selftest1.loop')]:
            raise C.CheckerError('c01: machine-code instrument self-test failed (no data dependence seen for %s)' % mc_blind)
        mc_stats = {'c01_mc_pairs': len(pairs), 'c01_mc_pairs_same': mc_same, 'c01_mc_pairs_diff': mc_diff,
                    'c01_mc_wrappers': len(mc_per_op), 'c01_mc_controls_seen_varying': len([1 for v in mc_vary.values() if v[1]]),
                    'c01_mc_controls_blind': mc_blind,
                    'c01_mc_known': {op: 'known:' + mc_known[op]['known'] for op in sorted(mc_known)},
                    'c01_mc_build_s': round(dtm, 1), 'c01_mc_wall_s': round(time.time() - t1, 1)}
    mc_byop = {}
    for v in mc_violations:
        k = v['op']
        if k not in mc_byop or len(v['args1']) + len(v['args2']) < len(mc_byop[k]['args1']) + len(mc_byop[k]['args2']):
            mc_byop[k] = v
    def finish_mc(v):
        v['kind'] = 'spec'
        v['obligation'] = 'machine-code:' + v['op']
        v['c01_pair'] = {'op': v['op'], 'class': v['class'], 'pair_kind': v['pair_kind'], 'args1': v['args1'], 'args2': v['args2']}
        m = v['mc']
        v['desc'] = ('%s (%s): the machine code of the optimized build executes differently for two secret assignments: %s | %s -> '
                     '%d vs %d instructions; %s at %s %s; secret-dependent decisions at %s' % (
                         v['op'], 'constant-time operation' if v['pair_kind'] == 'ct' else 'operands its documentation does not name',
                         v['args1'][:160], v['args2'][:160], m['instructions1'], m['instructions2'], m['what'], m['address'], m['site'],
                         '; '.join(m.get('decision_sites', [])[:4]) or '(trip counts only)'))
        return v
    # one violation per (op) is enough for the report; keep the shortest pair as the replay
    byop = {}
    for v in violations:
        k = v['op']
        if k not in byop or len(v['args1']) + len(v['args2']) < len(byop[k]['args1']) + len(byop[k]['args2']):
            byop[k] = v
    def finish(v, n_diff):
        v['kind'] = 'spec'                      # a concrete failing input (the pair) exists
        v['obligation'] = 'trace:' + v['op']
        v['c01_pair'] = {'op': v['op'], 'class': v['class'], 'pair_kind': v['pair_kind'], 'args1': v['args1'], 'args2': v['args2']}
        v['n_differing_pairs_of_this_op'] = n_diff
        what = ('constant-time operation' if v['pair_kind'] == 'ct' else
                'variable-time operation, operands its documentation does not name')
        v['desc'] = ('%s (%s): execution trace of the -O3 build depends on the secret operands: %s | %s -> event #%s %s vs %s at %s' % (
            v['op'], what, v['args1'][:160], v['args2'][:160], v.get('first_differing_event'), v.get('event1'), v.get('event2'),
            ' || '.join(sorted(set([v.get('stack1', '').split(' <- ')[0], v.get('stack2', '').split(' <- ')[0]])))))
        return v
    vio = []
    for k in sorted(byop, key=lambda k: (len(byop[k]['args1']) + len(byop[k]['args2']), k)):
        vio.append(finish(byop[k], per_op[k]['diff']))
    # known-finding candidates: returned too, tagged `known`; ./check suppresses them only while the finding is OPEN
    known_vio = [finish(known[k], per_op[k]['diff']) for k in sorted(known, key=lambda k: (len(known[k]['args1']) + len(known[k]['args2']), k))]
    classes = {}
    for k, v in byop.items():
        key = ' | '.join(sorted(set([site(v.get('stack1', '')), site(v.get('stack2', ''))])))
        classes.setdefault(key, []).append(k)
    classes = {k: sorted(v) for k, v in sorted(classes.items())}
    known_lines = []
    byid = {}
    for opn in sorted(known):
        byid.setdefault(known[opn]['known'], []).append(opn)
    for kid, opl in sorted(byid.items()):
        ex = known[opl[0]]
        known_lines.append('%s: trace of %d constant-time wrappers depends on secret operands inside the known construct '
                           '(%s) [e.g. %s: first differing event #%d %s vs %s at %s]' % (
                               kid, len(opl), ', '.join(opl[:40]) + (' ...' if len(opl) > 40 else ''), ex['op'],
                               ex['first_differing_event'], ex['event1'], ex['event2'], ex['stack1'].split(' <- ')[0]))
    if vio:
        vio[0]['all_violating_wrappers_by_source_site'] = classes
    ct_ops = [o for o in ops if o[1] == 'ct' and o[0] in per_op]
    vt_ops = [o for o in ops if o[1] == 'vt' and o[0] in per_op]
    stats = {
        'c01_wrappers': len(per_op), 'c01_ct_wrappers': len(ct_ops), 'c01_vartime_controls': len(vt_ops),
        'c01_pairs': len(pairs), 'c01_pairs_same': n_same, 'c01_pairs_diff': n_diff,
        'c01_min_pairs_per_wrapper': min([s['pairs'] for s in per_op.values()] or [0]),
        'c01_known': {op: 'known:' + known[op]['known'] for op in sorted(known)},
        'c01_known_examples': {op: {k: known[op][k] for k in ('args1', 'args2', 'first_differing_event', 'event1', 'event2', 'stack1')}
                               for op in sorted(known)[:4]},
        'c01_controls_seen_varying': sorted(k for k, v in vary_seen.items() if v[1] > 0).__len__(),
        'c01_controls_blind': blind,
        'c01_wrappers_with_twin_theorem': len([o for o in per_op if o.split('.', 1)[1] in TWIN_THEOREMS]),
        'c01_twin_says_constant_but_binary_varies': sorted(o for o in byop
            if TWIN_THEOREMS.get(o.split('.', 1)[1], '').endswith('_ni')),
        'c01_violating_wrappers': sorted(byop.keys()),
        'c01_violation_sites': classes,
        'c01_build_s': round(dt, 1), 'c01_wall_s': round(time.time() - t0, 1),
        # generic fields understood by the hook in `check`
        'obligations': len(per_op),
        'known_finding_lines': known_lines,
    }
    mc_vio = [finish_mc(mc_byop[k]) for k in sorted(mc_byop, key=lambda k: (len(mc_byop[k]['args1']) + len(mc_byop[k]['args2']), k))]
    mc_sites = {}
    for k, v in mc_byop.items():
        key = ' | '.join(re.sub(r':\d+\)$', ')', x) for x in (v['mc'].get('decision_sites') or [v['mc'].get('site', '?')])[:3])
        mc_sites.setdefault(key, []).append(k)
    if mc_vio:
        mc_vio[0]['all_violating_wrappers_by_machine_code_site'] = {k: sorted(v) for k, v in sorted(mc_sites.items())}
    mc_known_vio = [finish_mc(mc_known[k]) for k in sorted(mc_known, key=lambda k: (len(mc_known[k]['args1']) + len(mc_known[k]['args2']), k))]
    stats.update(mc_stats)
    stats['c01_mc_violating_wrappers'] = sorted(mc_byop.keys())
    # one entry per finding id and layer is enough for the KNOWN-FINDING lines
    return vio + mc_vio + known_vio + mc_known_vio, stats

if __name__ == '__main__':
    # stand-alone use:  python3 -m vlib.c01 [quick|thorough] [wrapper-regex]   |   python3 -m vlib.c01 --replay FILE
    import sys
    if len(sys.argv) > 2 and sys.argv[1] == '--replay':
        v, s = extra_check('quick', 1, replay=json.load(open(sys.argv[2])))
    else:
        tier = sys.argv[1] if len(sys.argv) > 1 else 'quick'
        only = sys.argv[2] if len(sys.argv) > 2 else None
        v, s = extra_check(tier, int(os.environ.get('VERIF_SEED', '1')), only=only)
    for x in v:
        print('KNOWN' if x.get('known') else 'VIOLATION', json.dumps({k: x[k] for k in x if k != 'c01_pair'}, indent=1))
    print(json.dumps(s, indent=1))
