"""C15 (continued) generator: the glue routes of harness/src/ops/c15r.rs -- operator impls by value / by reference /
assigning on Checked<T> and Wrapping<T>, the conversions / serde / formatting / AsRef fronts of the wrapper types,
trait fronts and constants (model ops `glue.*` of coq/Model/Glue.v).
Inputs: the limb alphabet of gen.py plus operands built from the answer (a + b = 2^BITS +- 1, a - b = 0 +- 1,
a * b around 2^BITS, so that Checked goes none and Wrapping wraps); widths Limb, Uint<1,2,3,4>, BoxedUint 1..5 limbs.
Every case runs in both build profiles (dbg=True)."""
from .common import Case
from .gen import *

UINT_NS = [1, 2, 3, 4]
BOXED_NS = [1, 2, 3, 4, 5]
FMT_KINDS = [0, 1, 2, 3, 4, 5, 6]       # Display, x, X, b, #x, #X, #b (Debug is derived on the wrappers, not forwarded)

def addsub_pair(rng, n, m=None):
    """a + b around 2^BITS, a - b around 0, a + b = 2^BITS - 1, or independent alphabet values"""
    m = n if m is None else m
    M = 1 << (64 * n); Mm = 1 << (64 * m)
    k = rng.random()
    a = value(rng, n)
    if k < 0.25:
        b = near(rng, (M - a) % Mm, m)
    elif k < 0.45:
        b = near(rng, a % Mm, m)
    elif k < 0.55:
        b = near(rng, (M - 1 - a) % Mm, m)
    else:
        b = value(rng, m)
    return to_limbs(a, n), to_limbs(b, m)

def mul_pair(rng, n, m=None):
    """a * b around 2^BITS(a) (just fits / just overflows), one factor 0 / 1 / 2 / MAX, or alphabet values"""
    m = n if m is None else m
    M = 1 << (64 * n); Mm = 1 << (64 * m)
    k = rng.random()
    if k < 0.35:
        b = max(1, value(rng, m) >> rng.randrange(0, 64 * m))
        a = near(rng, (M - 1) // b + rng.choice([0, 0, 1]), n)
    elif k < 0.5:
        a = value(rng, n); b = rng.choice([0, 1, 2, 3, Mm - 1, 1 << (64 * m - 1)])
    elif k < 0.6:
        b = value(rng, m); a = rng.choice([0, 1, 2, M - 1, 1 << (64 * n - 1)])
    elif k < 0.7:
        # square root boundary
        import math
        r = math.isqrt(M - 1)
        a = near(rng, r, n); b = near(rng, r % Mm, m)
    else:
        a, b = value(rng, n), value(rng, m)
    return to_limbs(a, n), to_limbs(b % Mm, m)

def nonzero(rng, n):
    while True:
        v = limbs(rng, n)
        if any(v): return v
        if rng.random() < 0.5: return [0] * (n - 1) + [rng.choice([1, 1 << 63, MAXW])]

def odd(rng, n):
    v = limbs(rng, n)
    v[0] |= 1
    return v

def le_bytes(v, nbytes):
    return [(v >> (8 * i)) & 0xff for i in range(nbytes)]

def uint_payload(v_limbs):
    """bincode framing of a Uint: u64 length (little endian), then the little-endian bytes"""
    n = len(v_limbs)
    return le_bytes(8 * n, 8) + le_bytes(from_limbs(v_limbs), 8 * n)

def bad_payloads(rng, n):
    """malformed variants of a Uint payload: wrong length field, truncated, empty"""
    good = uint_payload(limbs(rng, n))
    out = [good]
    out.append(le_bytes(8 * n + rng.choice([1, 8, -8, -1]), 8) + good[8:])          # wrong length field
    out.append(good[:rng.randrange(0, len(good))])                                      # truncated
    out.append(good[:8])                                                                # length only
    out.append([])                                                                      # nothing
    out.append(good + [rng.randrange(256)])                                             # trailing byte (left open by the spec)
    return out

def gen(tier, rng):
    scale = 1 if tier == 'quick' else 10
    cases = []
    def add(rop, args, mop):
        cases.append(Case(rop, args, mop=mop, dbg=True, tags=('c15r',)))

    # ------------------------------------------------------------ Limb
    for _ in range(40 * scale):
        x, y = word(rng), word(rng)
        k = rng.random()
        if k < 0.2: y = (B - x) % B
        elif k < 0.3: y = near(rng, (B - x) % B, 1)
        elif k < 0.4: y = near(rng, x, 1)
        elif k < 0.55 and x: y = near(rng, (B - 1) // x + rng.choice([0, 1]), 1)
        for r in ('rv', 'rr'):
            add('limb.mul.' + r, [x, y], 'limb.mul')
        for r in ('wrapper_vr', 'wrapper_rv', 'wrapper_assign_val', 'wrapper_assign_ref'):
            add('limb.wrapping_mul.' + r, [x, y], 'limb.wrapping_mul')
        add('limb.wrapping_add.wrapper_assign_ref', [x, y], 'limb.wrapping_add')
        add('limb.wrapping_sub.wrapper_assign_val', [x, y], 'limb.wrapping_sub')
        for o in ('checked_add', 'checked_sub', 'checked_mul'):
            for r in ('wrapper_assign_val', 'wrapper_assign_ref', 'wrapper_into_ctopt', 'wrapper_into_option', 'wrapper_from_ctopt'):
                add('limb.%s.%s' % (o, r), [x, y], 'limb.' + o)
    for _ in range(12 * scale):
        x = rng.choice([0, 1, 2, MAXW, word(rng)])
        add('limb.is_one.wrapping_num', [x], 'limb.is_one')
        add('limb.to_le_bytes.serde_wrapping', [x], 'limb.to_le_bytes')
        add('limb.from_le_bytes.serde_wrapping', [le_bytes(x, 8)], 'limb.from_le_bytes')
        add('glue.zero_like.limb', [[x]], 'glue.zero_like')
        add('glue.zero_like.set_zero_limb', [[x]], 'glue.zero_like')
        nz = x or rng.choice([1, MAXW, 1 << 63])
        add('limb.to_le_bytes.serde_nz', [nz], 'limb.to_le_bytes')
        add('w.nz.same.as_ref_trait', [[nz], 0], 'w.nz.same')
        for kind in FMT_KINDS:
            add('limb.fmt.wrapping', [x, kind], 'limb.fmt')
            add('limb.fmt.nz', [nz, kind], 'limb.fmt')
        for some in (0, 1):
            add('glue.checked_ser_limb', [x, some], 'glue.checked_ser_limb')
        add('glue.checked_de_limb', [[1] + le_bytes(x, 8)], 'glue.checked_de_limb')
        add('glue.checked_de_limb', [[0]], 'glue.checked_de_limb')
        add('glue.checked_de_limb', [[rng.choice([2, 3, 0x80, 0xff])] + le_bytes(x, 8)], 'glue.checked_de_limb')
        add('glue.checked_de_limb', [([1] + le_bytes(x, 8))[:rng.randrange(0, 9)]], 'glue.checked_de_limb')
        add('glue.checked_de_limb', [[rng.choice([0, 1])] + le_bytes(x, 8) + [7]], 'glue.checked_de_limb')
    for r in ('limb_num', 'wrapping_num_limb', 'checked_default_limb'):
        add('glue.zero.' + r, [1], 'glue.zero')
    for r in ('limb_num', 'wrapping_num_limb'):
        add('glue.one.' + r, [1], 'glue.one')

    # ------------------------------------------------------------ Uint<N> / Int<N>
    for n in UINT_NS:
        for _ in range(25 * scale):
            a, b = addsub_pair(rng, n)
            for o in ('checked_add', 'checked_sub'):
                for r in ('wrapper_assign_val', 'wrapper_assign_ref', 'wrapper_into_ctopt', 'wrapper_into_option', 'wrapper_from_ctopt'):
                    add('uint.%s.%s' % (o, r), [a, b], 'uint.' + o)
            a, b = mul_pair(rng, n)
            for r in ('wrapper_assign_val', 'wrapper_assign_ref', 'wrapper_into_ctopt', 'wrapper_into_option', 'wrapper_from_ctopt'):
                add('uint.checked_mul.' + r, [a, b], 'uint.checked_mul')
            for r in ('wrapper_vr', 'wrapper_rv', 'wrapper_assign_ref'):
                add('uint.wrapping_mul.' + r, [a, b], 'uint.wrapping_mul')
            # (a op1 b) op2 c through the assigning operators: none must stay none
            a, b = addsub_pair(rng, n); c = limbs(rng, n)
            if rng.random() < 0.6: c = to_limbs(rng.randrange(4), n)
            add('uint.checked_expr.assign', [a, b, c, rng.randrange(2), rng.randrange(2), rng.randrange(4), 0], 'uint.checked_expr')
        for _ in range(8 * scale):
            v = limbs(rng, n)
            if rng.random() < 0.25: v = to_limbs(rng.choice([0, 1, 2]), n)
            add('uint.is_one.wrapping_num', [v], 'uint.is_one')
            for r in ('int_as_limbs_mut', 'int_as_ref_words', 'int_as_mut_words', 'int_as_ref_limbs', 'int_as_mut_limbs'):
                add('uint.words_id.' + r, [v], 'uint.words_id')
            add('uint.serde_ser.wrapping', [v], 'uint.serde_ser')
            add('glue.nlimbs.uint', [v], 'glue.nlimbs')
            add('glue.bytes_precision.uint', [v], 'glue.bytes_precision')
            add('glue.one_like.uint', [v], 'glue.one_like')
            add('glue.from_limb_like.uint', [word(rng), v], 'glue.from_limb_like')
            for r in ('uint', 'int', 'wrapping_uint', 'set_zero_uint', 'set_zero_int', 'set_zero_wrapping_uint'):
                add('glue.zero_like.' + r, [v], 'glue.zero_like')
            nz, od = nonzero(rng, n), odd(rng, n)
            add('uint.serde_ser.nz', [nz], 'uint.serde_ser')
            add('uint.serde_ser.odd', [od], 'uint.serde_ser')
            for kind in (1, 2):
                add('w.nz.same.as_ref_trait', [nz, kind], 'w.nz.same')
                add('w.odd.same.as_ref_trait', [od, kind], 'w.odd.same')
                add('w.odd.same.as_ref_limbs', [od, kind], 'w.odd.same')
            for kind in FMT_KINDS:
                add('uint.fmt.wrapping', [v, kind], 'uint.fmt')
                add('int.fmt.wrapping', [v, kind], 'int.fmt')
                add('uint.fmt.nz', [nz, kind], 'uint.fmt')
                add('int.fmt.nz', [nz, kind], 'int.fmt')
                add('uint.fmt.odd', [od, kind], 'uint.fmt')
                add('int.fmt.odd', [od, kind], 'int.fmt')
            for some in (0, 1):
                add('glue.checked_ser', [v, some], 'glue.checked_ser')
            for p in bad_payloads(rng, n):
                add('uint.serde_de.wrapping', [p, n], 'uint.serde_de')
                add('glue.checked_de', [[1] + p, n], 'glue.checked_de')
            add('glue.checked_de', [[0], n], 'glue.checked_de')
            add('glue.checked_de', [[0] + uint_payload(v), n], 'glue.checked_de')
            add('glue.checked_de', [[rng.choice([2, 3, 0x7f, 0xff])] + uint_payload(v), n], 'glue.checked_de')
            add('glue.checked_de', [[], n], 'glue.checked_de')
            # a payload of another width
            m = rng.choice([k for k in UINT_NS if k != n])
            add('glue.checked_de', [[1] + uint_payload(limbs(rng, m)), n], 'glue.checked_de')
            # the blanket Pow / MultiExponentiate fronts: exponent, tags of the recording bases
            add('glue.pow_front', [v, word(rng)], 'glue.pow_front')
            add('glue.multi_exp_front', [v, limbs(rng, n), word(rng), word(rng)], 'glue.multi_exp_front')
        # double-width shifts through ConstCtOption::expect: every branch (0, < BITS, = BITS, > BITS, >= 2 BITS: panic)
        bits = 64 * n
        for s in [0, 1, 63, 64, bits - 1, bits, bits + 1, 2 * bits - 1, 2 * bits, 2 * bits + 1, (1 << 32) - 1] + \
                 [rng.randrange(0, 2 * bits) for _ in range(6 * scale)]:
            lo, hi = limbs(rng, n), limbs(rng, n)
            add('glue.shl_wide_expect', [lo, hi, s], 'glue.shl_wide_expect')
            add('glue.shr_wide_expect', [lo, hi, s], 'glue.shr_wide_expect')
        for r in ('uint_num', 'int_num', 'wrapping_num_uint', 'checked_default_uint'):
            add('glue.zero.' + r, [n], 'glue.zero')
        for r in ('uint_num', 'uint_integer', 'wrapping_num_uint'):
            add('glue.one.' + r, [n], 'glue.one')

    # ------------------------------------------------------------ BoxedUint
    for _ in range(40 * scale):
        n = rng.choice(BOXED_NS)
        m = n if rng.random() < 0.5 else rng.choice(BOXED_NS)
        a, b = mul_pair(rng, n, m)
        for r in ('wrapper_vr', 'wrapper_rv', 'wrapper_assign_ref'):
            add('boxed.wrapping_mul.' + r, [a, b], 'boxed.wrapping_mul')
    for n in BOXED_NS:
        for _ in range(6 * scale):
            v = limbs(rng, n)
            if rng.random() < 0.25: v = to_limbs(rng.choice([0, 1, 2]), n)
            add('boxed.is_one.wrapping_num', [v], 'boxed.is_one')
            add('glue.nlimbs.boxed', [v], 'glue.nlimbs')
            add('glue.bytes_precision.boxed', [v], 'glue.bytes_precision')
            add('glue.one_like.boxed', [v], 'glue.one_like')
            add('glue.from_limb_like.boxed', [word(rng), v], 'glue.from_limb_like')
            add('glue.zero_like.boxed', [v], 'glue.zero_like')
            add('glue.zero_like.set_zero_boxed', [v], 'glue.zero_like')
            add('glue.zero_like_wrapping_boxed', [v], 'glue.zero_like_wrapping_boxed')
            add('glue.zero_like_wrapping_boxed.set_zero', [v], 'glue.zero_like_wrapping_boxed')
            nz, od = nonzero(rng, n), odd(rng, n)
            add('w.nz.same.as_ref_trait', [nz, 3], 'w.nz.same')
            add('w.odd.same.as_ref_trait', [od, 3], 'w.odd.same')
            add('w.odd.same.as_ref_limbs', [od, 3], 'w.odd.same')
            for kind in FMT_KINDS:
                add('boxed.fmt.wrapping', [v, kind], 'boxed.fmt')
                add('boxed.fmt.nz', [nz, kind], 'boxed.fmt')
                add('boxed.fmt.odd', [od, kind], 'boxed.fmt')
    for p in [1, 2, 63, 64, 65, 127, 128, 129, 191, 192, 193, 255, 256, 257, 319, 320] + [rng.randrange(1, 321) for _ in range(10 * scale)]:
        add('glue.max_boxed', [p], 'glue.max_boxed')
    add('glue.max_boxed', [0], 'glue.max_boxed')       # a request of 0 bits: the one-limb maximum (finding F33, fixed)
    for r in ('boxed_num', 'boxed_zero_trait', 'boxed_default', 'wrapping_num_boxed', 'checked_default_boxed'):
        add('glue.zero.' + r, [1], 'glue.zero')
    for r in ('boxed_num', 'boxed_integer', 'wrapping_num_boxed'):
        add('glue.one.' + r, [1], 'glue.one')

    # ------------------------------------------------------------ Reciprocal, ConstChoice, texts, Octal
    add('glue.recip_default', [0], 'glue.recip_default')
    add('glue.recip_default.trait', [0], 'glue.recip_default')
    for _ in range(30 * scale):
        d1 = rng.choice([0, 1, 2, 3, MAXW, MAXW - 1, 1 << 63, (1 << 63) + 1, (1 << 63) - 1, word(rng) or 1])
        d2 = rng.choice([0, 1, MAXW, 1 << 63, word(rng) or 1, word(rng) or 1])
        for c in (0, 1):
            add('glue.recip_select', [d1, d2, c], 'glue.recip_select')
    for x in (0, 1):
        for y in (0, 1):
            add('glue.cc_eq', [x, y], 'glue.cc_eq')
            add('glue.cc_eq.ne', [x, y], 'glue.cc_eq')
    for code in range(4):
        add('glue.decode_error_text', [code], 'glue.decode_error_text')
    U32S = [0, 1, 9, 10, 11, 63, 64, 99, 100, 255, 256, 1000, 65535, 65536, 99999, 100000, (1 << 31) - 1, 1 << 31, (1 << 32) - 1]
    for _ in range(20 * scale):
        x, y = rng.choice(U32S + [rng.randrange(1 << 32)]), rng.choice(U32S + [rng.randrange(1 << 32)])
        for variant in (1, 2):
            add('glue.random_bits_error_text', [variant, x, y, []], 'glue.random_bits_error_text')
    for text in (b'', b'rng failed', b'x'):
        add('glue.random_bits_error_text', [0, 0, 0, list(text)], 'glue.random_bits_error_text')
    OCT = [0, 1, 7, 8, 9, 63, 64, 511, 512, (1 << 63) - 1, 1 << 63, MAXW, MAXW - 1, 0o1234567]
    for _ in range(14 * scale):
        x = rng.choice(OCT + [word(rng)])
        for alt in (0, 1):
            add('glue.fmt_octal.wrapping', [x, alt], 'glue.fmt_octal')
            add('glue.fmt_octal.nz', [x or 1, alt], 'glue.fmt_octal')
    return cases
