"""C04 generator: add/sub/neg forms."""
from .common import Case
from .gen import *

UINT_NS = [1, 2, 3, 4, 5, 6, 7, 8, 9, 10, 11, 12, 16, 32]
CARRIES = [0, 1, 2, MAXW, 1 << 63, (1 << 63) - 1]

# rust op -> model op (routes)
LIMB2 = {
    'limb.wrapping_add': ['', '.trait', '.wrapper', '.wrapper_assign'],
    'limb.wrapping_sub': ['', '.trait', '.wrapper', '.wrapper_assign'],
    'limb.saturating_add': [''], 'limb.saturating_sub': [''],
    'limb.checked_add': ['', '.wrapper'], 'limb.checked_sub': ['', '.wrapper'],
    'limb.add': [''], 'limb.sub': ['', '.ref'],
}
UINT2 = {
    'uint.wrapping_add': ['', '.trait', '.wrapper', '.wrapper_ref', '.wrapper_assign', '.wrapper_assign_ref'],
    'uint.wrapping_sub': ['', '.trait', '.wrapper', '.wrapper_ref', '.wrapper_assign', '.wrapper_assign_ref'],
    'uint.saturating_add': [''], 'uint.saturating_sub': [''],
    'uint.checked_add': ['', '.wrapper', '.wrapper_assign'], 'uint.checked_sub': ['', '.wrapper', '.wrapper_assign'],
    'uint.add': ['', '.ref', '.assign', '.assign_ref'], 'uint.sub': ['', '.ref', '.assign', '.assign_ref'],
}
BOXED2 = {
    'boxed.wrapping_add': ['', '.trait', '.wrapper'], 'boxed.wrapping_sub': ['', '.trait', '.wrapper'],
    'boxed.checked_add': [''], 'boxed.checked_sub': [''],
    'boxed.add': ['', '.vr', '.rv', '.rr'], 'boxed.sub': ['', '.vr', '.rv', '.rr'],
}

def pair(rng, n, m=None):
    """Operand pair with arithmetic relations: a+b around 2^BITS, a-b around 0, equal, etc."""
    m = n if m is None else m
    M = 1 << (64 * n)
    k = rng.random()
    a = value(rng, n)
    if k < 0.15:
        b = (M - a) % (1 << (64 * m)) if m >= n else (M - a) & ((1 << (64 * m)) - 1)
        b = near(rng, b, m)
    elif k < 0.25:
        b = near(rng, a & ((1 << (64 * m)) - 1), m)
    elif k < 0.30:
        b = near(rng, (M - 1 - a) & ((1 << (64 * m)) - 1), m)
    else:
        b = value(rng, m)
    return to_limbs(a, n), to_limbs(b, m)

def gen(tier, rng):
    scale = 1 if tier == 'quick' else 12
    cases = []
    add = cases.append
    # Limb primitives, all carry-ins
    for _ in range(300 * scale):
        x, y, z, c = word(rng), word(rng), word(rng), rng.choice(CARRIES + [word(rng)])
        add(Case('limb.adc', [x, y, c], tags=('cin%x' % c,)))
        add(Case('limb.sbb', [x, y, c], tags=('bin%x' % c,)))
        add(Case('limb.mac', [x, y, z, c]))
        add(Case('limb.overflowing_add', [x, y]))
    for _ in range(60 * scale):
        for mop, forms in LIMB2.items():
            x, y = word(rng), word(rng)
            if rng.random() < 0.3: y = (B - x) % B if rng.random() < 0.5 else x
            for f in forms:
                add(Case(mop + f, [x, y], mop=mop, dbg=True))
        x = word(rng)
        add(Case('limb.wrapping_neg', [x])); add(Case('limb.wrapping_neg.trait', [x], mop='limb.wrapping_neg'))
    # Uint<N>
    for n in UINT_NS:
        reps = (40 if n <= 12 else 15) * scale
        for _ in range(reps):
            a, b = pair(rng, n)
            c = rng.choice(CARRIES + [word(rng)])
            add(Case('uint.adc', [a, b, c], tags=('n%d' % n,)))
            add(Case('uint.sbb', [a, b, c], tags=('n%d' % n,)))
            a, b = pair(rng, n)
            for mop, forms in UINT2.items():
                for f in forms:
                    add(Case(mop + f, [a, b], mop=mop, dbg=True))
            a = limbs(rng, n)
            add(Case('uint.carrying_neg', [a]))
            for f in ['', '.trait', '.wrapper', '.wrapper_ref']:
                add(Case('uint.wrapping_neg' + f, [a], mop='uint.wrapping_neg'))
            add(Case('uint.wrapping_neg_if', [a, rng.randrange(2)]))
            for shape in (0, 1):
                a, b = pair(rng, n); c = limbs(rng, n)
                if rng.random() < 0.5: c = to_limbs(rng.randrange(4), n)       # small third operand: the outer op itself stays in range
                if shape == 1 and rng.random() < 0.5: a, b, c = c, a, b      # overflow inside the right operand
                add(Case('uint.checked_expr', [a, b, c, rng.randrange(2), rng.randrange(2), rng.randrange(16), shape]))
    # BoxedUint, equal and different precisions
    for _ in range(250 * scale):
        n = rng.choice([1, 2, 3, 4, 5, 7, 8, 16, 17, 31, 32, 33, 40]) if rng.random() < 0.7 else rng.randrange(1, 41)
        m = n if rng.random() < 0.5 else rng.randrange(1, 41)
        a, b = pair(rng, n, m)
        c = rng.choice(CARRIES + [word(rng)])
        add(Case('boxed.adc', [a, b, c])); add(Case('boxed.sbb', [a, b, c]))
        for mop, forms in BOXED2.items():
            for f in forms:
                add(Case(mop + f, [a, b], mop=mop, dbg=True))
        add(Case('boxed.wrapping_neg', [a])); add(Case('boxed.wrapping_neg.trait', [a], mop='boxed.wrapping_neg'))
        # assign forms: receiver a, rhs of any width
        add(Case('boxed.adc_assign', [a, b, c], dbg=True)); add(Case('boxed.sbb_assign', [a, b, c], dbg=True))
        for f in ['', '.ref']:
            add(Case('boxed.wrapping_add_assign' + f, [a, b], mop='boxed.wrapping_add_assign', dbg=True))
            add(Case('boxed.wrapping_sub_assign' + f, [a, b], mop='boxed.wrapping_sub_assign', dbg=True))
        # ... the panicking operators: any rhs width
        for f in ['', '.ref']:
            add(Case('boxed.add_assign' + f, [a, b], mop='boxed.add_assign', dbg=True))
            add(Case('boxed.sub_assign' + f, [a, b], mop='boxed.sub_assign', dbg=True))
    # BoxedUint with Uint<N> and primitive right-hand sides
    for _ in range(120 * scale):
        n = rng.randrange(1, 12)
        m = rng.choice([1, 2, 3, 4, 6, 8])
        a, b = pair(rng, n, m)
        for f in ['uint', 'uint_ref', 'uint_op', 'uint_op_ref']:
            add(Case('boxed.add_assign.' + f, [a, b], mop='boxed.add_assign', dbg=True))
            add(Case('boxed.sub_assign.' + f, [a, b], mop='boxed.sub_assign', dbg=True))
        kind = rng.choice([8, 16, 32, 64, 128])
        a, b = pair(rng, n, 2)
        if kind <= 64:
            b = [b[0] & ((1 << kind) - 1)]
        if rng.random() < 0.3 and kind == 128:
            b = [b[0], rng.choice([1, MAXW, 1 << 63])]
        for f in ['val', 'ref', 'asg']:
            add(Case('boxed.add_assign.prim_' + f, [a, b, kind], mop='boxed.add_assign', dbg=True))
            add(Case('boxed.sub_assign.prim_' + f, [a, b, kind], mop='boxed.sub_assign', dbg=True))
    return cases
