"""Shared machinery of ./check: builds, runners, comparison, evidence."""
import hashlib, json, os, re, subprocess, sys, time, random, shutil
from concurrent.futures import ThreadPoolExecutor

ROOT = os.path.dirname(os.path.dirname(os.path.dirname(os.path.abspath(__file__))))
COQ = os.path.join(ROOT, 'coq')
OCAML = os.path.join(ROOT, 'ocaml')
HARNESS = os.path.join(ROOT, 'harness')
CACHE = os.environ.get('VERIF_CACHE') or os.path.join(ROOT, '.cache')
TARGET = os.path.join(CACHE, 'target')
WORK = os.path.join(CACHE, 'work')
# the registered checks always verify /repo; VERIF_REPO lets tools/seed_eval.py point the same machinery at a scratch
# worktree carrying a seeded mutation (with its own VERIF_CACHE) without touching /repo
REPO = os.environ.get('VERIF_REPO') or '/repo'
GUARD = 'crypto_bigint_verif'
NCPU = os.cpu_count() or 4
B = 1 << 64
MAXW = B - 1

ENV = dict(os.environ)
ENV.update({'CARGO_NET_OFFLINE': 'true', 'RUSTFLAGS': '--cfg ' + GUARD + ' -Awarnings',
            'CARGO_TARGET_DIR': TARGET})

class CheckerError(Exception):
    pass

def log(*a):
    print(*a, file=sys.stderr, flush=True)

def sh(cmd, cwd=None, timeout=3600, env=None, inp=None):
    p = subprocess.run(cmd, cwd=cwd, env=env or ENV, input=inp, stdout=subprocess.PIPE,
                       stderr=subprocess.STDOUT, timeout=timeout, text=True)
    return p.returncode, p.stdout

# ---------------------------------------------------------------- Coq
def coq_files():
    out = []
    for d, _, fs in os.walk(COQ):
        for f in fs:
            if f.endswith('.v') and not f.startswith('.') and not f.startswith('cases_'):
                rel = os.path.relpath(os.path.join(d, f), COQ)
                if rel.startswith('Src' + os.sep):
                    continue          # translator-tie files: built per property by src_tie(), not part of the main project
                out.append(rel)
    return sorted(out)

def src_files():
    d = os.path.join(COQ, 'Src')
    return sorted('Src/' + f for f in os.listdir(d) if f.endswith('.v') and not f.startswith('.')) if os.path.isdir(d) else []

# translator tie: which hand-written proof files sit on which generated file (compiled in this order)
SRC_ORDER = ['GenPrim', 'GenWidthP', 'GenPrimP', 'GenDiv', 'GenDivP', 'GenLoopP', 'GenIterP', 'GenUint', 'GenUintP', 'GenMod', 'GenModP',
             'GenShift', 'GenShiftP', 'GenMul', 'GenMulP', 'GenInt', 'GenIntP', 'GenDivLimb', 'GenDivLimbP', 'GenBits', 'GenBitsP', 'GenDivCt', 'GenDivCtP', 'GenMonty', 'GenMontyP', 'GenHex', 'GenHexP', 'GenConv', 'GenConvP',
             'GenSqrt', 'GenSqrtP', 'GenIntDiv', 'GenIntDivP', 'GenMulMod', 'GenMulModP', 'GenAmm', 'GenAmmP',
             'GenSafeGcd', 'GenSafeGcdP', 'GenSafeGcdJumpP', 'GenSafeGcdBitsP', 'GenWrap', 'GenWrapP', 'GenCmp', 'GenCmpP', 'GenIntCmp', 'GenIntCmpP', 'GenLogic', 'GenLogicP']
# source-derived leakage model of C01 (tools/rs2v_leak.py): Leak<G>.v is generated next to Gen<G>.v, Leak<G>P.v is hand-written
_LEAK_GROUPS = ['Prim', 'Div', 'Uint', 'Mod', 'Shift', 'Mul', 'Int', 'DivLimb', 'Monty', 'Hex', 'Bits', 'DivCt', 'Sqrt', 'Amm', 'MulMod', 'IntDiv', 'Cmp', 'IntCmp', 'Conv', 'Wrap', 'SafeGcd', 'Logic']
_LEAK = ['LeakIterP'] + [x for g in _LEAK_GROUPS for x in ('Leak' + g, 'Leak' + g + 'P')]
SRC_ORDER += _LEAK
_PRIM = ['GenPrim', 'GenWidthP', 'GenPrimP']
_UINT = _PRIM + ['GenLoopP', 'GenUint', 'GenUintP']
SRC_NEEDS = {'C02': _PRIM + ['GenDiv', 'GenDivP', 'GenLoopP', 'GenIterP', 'GenUint', 'GenUintP', 'GenShift', 'GenShiftP', 'GenMul', 'GenMulP',
                     'GenDivLimb', 'GenDivLimbP', 'GenBits', 'GenBitsP', 'GenDivCt', 'GenDivCtP'], 'C03': _PRIM + ['GenLoopP', 'GenIterP', 'GenShift', 'GenMul', 'GenMulP'], 'C04': _UINT, 'C06': _UINT,
             'C05': _PRIM + ['GenLoopP', 'GenIterP', 'GenUint', 'GenUintP', 'GenShift', 'GenShiftP', 'GenBits', 'GenBitsP', 'GenMod', 'GenLogic', 'GenLogicP'], 'C07': _UINT + ['GenMod', 'GenModP'],
             'C13': _UINT + ['GenInt', 'GenIntP'],
             'C08': _UINT + ['GenIterP', 'GenMod', 'GenModP', 'GenShift', 'GenMul', 'GenMulP', 'GenMonty', 'GenMontyP'],
             'C16': ['GenHex', 'GenHexP', 'GenConv', 'GenConvP']}
SRC_NEEDS['C01'] = ['Gen' + g for g in _LEAK_GROUPS] + _LEAK
_DIVCT = SRC_NEEDS['C02']
SRC_NEEDS['C20'] = _DIVCT + ['GenInt', 'GenIntP', 'GenSqrt', 'GenSqrtP']
SRC_NEEDS['C07'] = _PRIM + ['GenDiv', 'GenDivP', 'GenLoopP', 'GenIterP', 'GenUint', 'GenUintP', 'GenMod', 'GenModP', 'GenShift', 'GenShiftP', 'GenMul', 'GenMulP',
                     'GenInt', 'GenIntP', 'GenDivLimb', 'GenDivLimbP', 'GenMulMod', 'GenMulModP']
SRC_NEEDS['C08'] = SRC_NEEDS['C08'] + ['GenAmm', 'GenAmmP']
SRC_NEEDS['C14'] = _DIVCT + ['GenInt', 'GenIntP', 'GenIntDiv', 'GenIntDivP']
SRC_NEEDS['C10'] = _PRIM + ['GenLoopP', 'GenIterP', 'GenUint', 'GenUintP', 'GenSafeGcd', 'GenSafeGcdP', 'GenSafeGcdJumpP', 'GenSafeGcdBitsP']
SRC_NEEDS['C12'] = _UINT + ['GenShift', 'GenHex', 'GenHexP', 'GenConv', 'GenConvP', 'GenWrap', 'GenWrapP']
SRC_NEEDS['C06'] = _DIVCT + ['GenInt', 'GenIntP', 'GenIntDiv', 'GenIntDivP', 'GenCmp', 'GenCmpP', 'GenIntCmp', 'GenIntCmpP']

def src_tie(pid):
    """Translator tie (tools/rs2v.py): regenerate coq/Src/Gen*.v from REPO's current source, re-check the hand-written
    equality proofs Src/Gen*P.v against it and the property's statement file Src/<pid>_src.v.
    Returns (theorems, closed, problems, report) like check_props; ([], [], [], None) when the property has no source tie."""
    f = os.path.join(COQ, 'Src', pid + '_src.v')
    if not os.path.exists(f):
        return [], [], [], None
    import fcntl
    os.makedirs(CACHE, exist_ok=True)
    with open(os.path.join(CACHE, 'src_tie.lock'), 'w') as lk:
        fcntl.flock(lk, fcntl.LOCK_EX)       # checks of several properties may run at the same time
        return _src_tie_locked(pid, f)

def _src_tie_locked(pid, f):
    rc, out = sh([sys.executable, os.path.join(ROOT, 'tools', 'rs2v.py'), REPO, os.path.join(COQ, 'Src')])
    report = {}
    try:
        report = json.load(open(os.path.join(COQ, 'Src', 'rs2v_report.json')))
    except Exception:
        pass
    leak = os.path.join(ROOT, 'tools', 'rs2v_leak.py')
    if os.path.exists(leak) and pid == 'C01':
        # the instrumented twins l_<name> of the same kernels (leakage model of C01), from the same source text
        rc2, out2 = sh([sys.executable, leak, REPO, os.path.join(COQ, 'Src')])
        rc = rc or rc2; out += out2
        try:
            report.update(json.load(open(os.path.join(COQ, 'Src', 'rs2v_leak_report.json'))))
        except Exception:
            pass
    failed = ['%s (%s)' % (k, v) for r in report.values() for k, v in r if not v.startswith('ok')]
    problems = []
    if rc != 0:
        problems.append('translator tools/rs2v.py failed:\n' + out[-1500:])
    src = strip_comments(open(f).read())
    theorems = re.findall(r'^\s*Theorem\s+(\w+)', src, re.M)
    for m in SRC_NEEDS.get(pid, SRC_ORDER):
        rc, out = sh(['coqc', '-Q', '.', 'CB', '-w', '-all', 'Src/%s.v' % m], cwd=COQ, timeout=1800)
        if rc != 0:
            why = 'the source text of a modelled kernel changed' if not failed else 'rs2v could not translate: ' + '; '.join(failed[:6])
            if m.startswith('Leak') and not failed:
                why = ('source-derived leakage model: for the current source text an instrumented kernel is no longer consistent with the tied '
                       'text or no longer noninterferent -- a branch condition / index / division operand / trip count depends on a secret '
                       'operand, or the kernel changed')
            problems.append('translator tie: Src/%s.v no longer checks against the text generated from %s (%s):\n%s' % (m, REPO, why, out[-2500:]))
            return theorems, [], problems, report
    t, c, p = check_props_file(f)
    return t, c, problems + p, report

def write_generated():
    """Api.v concatenates the op tables of every Model/*.v; ops/mod.rs chains every ops/c*.rs adapter module."""
    areas = []
    for f in sorted(os.listdir(os.path.join(COQ, 'Model'))):
        if f.endswith('.v') and f != 'Api.v':
            src = open(os.path.join(COQ, 'Model', f)).read()
            for m in re.finditer(r'Definition ops_(\w+)_model\b', src):
                if re.search(r'Definition ops_%s_spec\b' % m.group(1), src):
                    areas.append((f[:-2], m.group(1)))
    body = '(** GENERATED by tools/vlib/common.py: the op tables the driver and the vm_compute cross-check call. *)\n'
    body += 'From CB Require Export Model.Limbs %s.\n' % ' '.join(sorted(set('Model.' + a for a, _ in areas)))
    body += 'Open Scope string_scope. Open Scope Z_scope.\n\n'
    body += 'Definition model_table : list (string * opfn) := %s.\n' % (' ++ '.join('ops_%s_model' % n for _, n in areas) or '[]')
    body += 'Definition spec_table : list (string * opfn) := %s.\n\n' % (' ++ '.join('ops_%s_spec' % n for _, n in areas) or '[]')
    body += ('Definition run_model (dbg : bool) (op : string) (args : list (list Z)) : outcome :=\n'
             '  match lookup op model_table with Some f => f dbg args | None => Unsupported end.\n'
             'Definition run_spec (dbg : bool) (op : string) (args : list (list Z)) : outcome :=\n'
             '  match lookup op spec_table with Some f => f dbg args | None => Unsupported end.\n')
    p = os.path.join(COQ, 'Model', 'Api.v')
    if not os.path.exists(p) or open(p).read() != body:
        open(p, 'w').write(body)
    tmpl = open(os.path.join(HARNESS, 'Cargo.toml.in')).read().replace('@REPO@', REPO)
    p = os.path.join(HARNESS, 'Cargo.toml')
    if not os.path.exists(p) or open(p).read() != tmpl:
        open(p, 'w').write(tmpl)
    mods = sorted(f[:-3] for f in os.listdir(os.path.join(HARNESS, 'src', 'ops')) if re.fullmatch(r'c\d\d\w*\.rs', f))
    rs = '// GENERATED by tools/vlib/common.py\nuse crate::util::*;\n' + ''.join('pub mod %s;\n' % m for m in mods)
    rs += '\npub fn dispatch(op: &str, a: &Args) -> Option<Out> {\n'
    for m in mods:
        rs += '    if %s::OPS.contains(&op) {\n        return %s::run(op, a);\n    }\n' % (m, m)
    rs += '    None\n}\n'
    p = os.path.join(HARNESS, 'src', 'ops', 'mod.rs')
    if not os.path.exists(p) or open(p).read() != rs:
        open(p, 'w').write(rs)

def write_coqproject():
    write_generated()
    body = '-Q . CB\n-arg -w -arg -notation-overridden,-deprecated-syntactic-definition,-deprecated,-unknown-option\n' + \
           '\n'.join(coq_files()) + '\n'
    p = os.path.join(COQ, '_CoqProject')
    if not os.path.exists(p) or open(p).read() != body:
        open(p, 'w').write(body)
        return True
    return False

HYGIENE_RE = re.compile(r'\b(Admitted|admit|Axiom|Axioms|Parameter|Parameters|Conjecture|Hypothesis|Variable|'
                        r'Unset\s+Guard|bypass_check|Admit\s+Obligations|type-in-type|impredicative-set|'
                        r'Unset\s+Positivity|Unset\s+Universe)\b')

def strip_comments(s):
    out = []; depth = 0; i = 0
    while i < len(s):
        if s.startswith('(*', i):
            depth += 1; i += 2
        elif s.startswith('*)', i) and depth > 0:
            depth -= 1; i += 2
        else:
            if depth == 0:
                out.append(s[i])
            elif s[i] == '\n':
                out.append('\n')
            i += 1
    return ''.join(out)

def hygiene():
    """Forbidden vernacular anywhere in the development (outside comments). Section-local
    Variable/Hypothesis are allowed only inside a Section."""
    bad = []
    for f in coq_files() + src_files():
        src = strip_comments(open(os.path.join(COQ, f)).read())
        depth = 0
        for n, line in enumerate(src.split('\n'), 1):
            if re.match(r'\s*Section\b', line): depth += 1
            if re.match(r'\s*End\b', line) and depth > 0: depth -= 1
            for m in HYGIENE_RE.finditer(line):
                wd = m.group(1)
                if wd in ('Hypothesis', 'Variable') and depth > 0:
                    continue
                bad.append('%s:%d: %s' % (f, n, line.strip()))
    return bad

def build_coq():
    t = time.time()
    changed = write_coqproject()
    mk = os.path.join(COQ, 'Makefile')
    if changed or not os.path.exists(mk):
        rc, out = sh(['coq_makefile', '-f', '_CoqProject', '-o', 'Makefile'], cwd=COQ)
        if rc != 0:
            raise CheckerError('coq_makefile failed:\n' + out)
    rc, out = sh(['make', '-j%d' % NCPU], cwd=COQ, timeout=3000)
    return rc, out, time.time() - t

def build_driver():
    src = [os.path.join(COQ, 'model.ml'), os.path.join(COQ, 'model.mli'), os.path.join(OCAML, 'driver.ml')]
    for s in src:
        if not os.path.exists(s):
            raise CheckerError('missing ' + s)
    h = hashlib.sha256(b''.join(open(s, 'rb').read() for s in src)).hexdigest()
    bdir = os.path.join(CACHE, 'ocaml')
    os.makedirs(bdir, exist_ok=True)
    stamp = os.path.join(bdir, 'stamp')
    exe = os.path.join(bdir, 'driver')
    if os.path.exists(exe) and os.path.exists(stamp) and open(stamp).read() == h:
        return exe
    for s in src:
        shutil.copy(s, bdir)
    rc, out = sh(['ocamlfind', 'ocamlopt', '-w', '-a', '-package', 'zarith', '-linkpkg',
                  'model.mli', 'model.ml', 'driver.ml', '-o', 'driver'], cwd=bdir, timeout=900)
    if rc != 0:
        raise CheckerError('ocaml driver build failed:\n' + out)
    open(stamp, 'w').write(h)
    return exe

def build_harness(profile='release'):
    t = time.time()
    lock = os.path.join(HARNESS, 'Cargo.lock')
    if not os.path.exists(lock):
        shutil.copy(os.path.join(REPO, 'Cargo.lock'), lock)
    write_generated()
    cmd = ['cargo', 'build', '--offline', '--profile', profile]
    rc, out = sh(cmd, cwd=HARNESS, timeout=3000)
    exe = os.path.join(TARGET, profile, 'cbv')
    return rc, out, exe, time.time() - t

# ---------------------------------------------------------------- cases
class Case:
    __slots__ = ('rop', 'mop', 'args', 'tags', 'dbg', 'id')
    def __init__(self, rop, args, mop=None, tags=(), dbg=False):
        self.rop = rop
        self.mop = mop or rop.split('@')[0]
        self.args = [list(a) if isinstance(a, (list, tuple)) else [a] for a in args]
        self.tags = tuple(tags)
        self.dbg = dbg          # also run in the debug-assertion profile
        self.id = None
    def argstr(self):
        return ';'.join((','.join('%x' % w for w in a) if a else '-') for a in self.args)
    def line(self):
        return '%s\t%s\t%s\t%s' % (self.id, self.rop, self.mop, self.argstr())
    def key(self):
        return (self.rop, self.argstr())
    def to_json(self):
        return {'rust_op': self.rop, 'model_op': self.mop, 'args_hex': self.argstr(), 'tags': list(self.tags)}

def case_from_json(j):
    args = []
    s = j['args_hex']
    if s:
        for a in s.split(';'):
            args.append([] if a in ('-', '') else [int(w, 16) for w in a.split(',')])
    c = Case(j['rust_op'], args, mop=j['model_op'], tags=j.get('tags', ()), dbg=True)
    return c

def run_lines(exe_args, lines, timeout=1800):
    """Run an executable over case lines, sharded; returns {id: [fields...]}. Handles the
    harness watchdog (exit 3 after printing `id\\ttimeout`) by restarting after the culprit."""
    res = {}
    if not lines:
        return res
    nshard = min(NCPU, max(1, len(lines) // 50))
    shards = [lines[i::nshard] for i in range(nshard)]
    def work(shard):
        out = {}
        pending = shard
        while pending:
            p = subprocess.run(exe_args, input='\n'.join(pending) + '\n', stdout=subprocess.PIPE,
                               stderr=subprocess.PIPE, text=True, timeout=timeout, env=ENV)
            got = 0
            for l in p.stdout.split('\n'):
                if not l: continue
                f = l.split('\t')
                out[f[0]] = f[1:]
                got += 1
            if p.returncode == 0:
                break
            # crashed or watchdog: skip everything reported so far (+ the culprit)
            done_ids = set(out.keys())
            rest = [l for l in pending if l.split('\t', 1)[0] not in done_ids]
            if p.returncode != 3 and rest:
                # hard crash (abort / stack overflow): blame the first unreported case
                cid = rest[0].split('\t', 1)[0]
                out[cid] = ['crash rc=%d' % p.returncode]
                rest = rest[1:]
            if len(rest) == len(pending):
                break
            pending = rest
        return out
    with ThreadPoolExecutor(max_workers=nshard) as ex:
        for o in ex.map(work, shards):
            res.update(o)
    return res

# ---------------------------------------------------------------- vm_compute cross-check
def coq_args(args):
    return '[' + '; '.join('[' + '; '.join(str(w) for w in a) + ']' for a in args) + ']'

def vm_crosscheck(cases, dbg=False):
    """Evaluate run_model/run_spec inside Coq (vm_compute) on the given cases; returns {id: (model, spec)}."""
    if not cases:
        return {}
    os.makedirs(WORK, exist_ok=True)
    nshard = min(NCPU, max(1, len(cases) // 8))
    shards = [cases[i::nshard] for i in range(nshard)]
    def fmt(o):
        return o
    def work(ix_shard):
        ix, shard = ix_shard
        name = 'cases_%d_%d' % (os.getpid(), ix)
        path = os.path.join(WORK, name + '.v')
        with open(path, 'w') as f:
            f.write('From CB Require Import Model.Api.\nOpen Scope string_scope. Open Scope Z_scope.\n')
            for c in shard:
                f.write('Eval vm_compute in (%s, run_model %s "%s" %s, run_spec %s "%s" %s).\n' % (
                    '"%s"' % c.id, 'true' if dbg else 'false', c.mop, coq_args(c.args),
                    'true' if dbg else 'false', c.mop, coq_args(c.args)))
        rc, out = sh(['coqc', '-noglob', '-Q', COQ, 'CB', '-w', '-all', path], cwd=WORK, timeout=1800)
        for ext in ('.v', '.vo', '.vok', '.vos', '.glob'):
            try: os.remove(os.path.join(WORK, name + ext))
            except OSError: pass
        try: os.remove(os.path.join(WORK, '.' + name + '.aux'))
        except OSError: pass
        if rc != 0:
            raise CheckerError('vm_compute cross-check failed to compile:\n' + out[-2000:])
        return out
    outs = []
    with ThreadPoolExecutor(max_workers=nshard) as ex:
        outs = list(ex.map(work, list(enumerate(shards))))
    res = {}
    for out in outs:
        txt = re.sub(r'\s+', ' ', out)
        for m in re.finditer(r'= \("([^"]+)", (.*?), (.*?)\) : string \* outcome \* outcome', txt):
            res[m.group(1)] = (coq_outcome(m.group(2)), coq_outcome(m.group(3)))
    return res

def coq_outcome(s):
    s = s.strip()
    if s.startswith('('):
        s = s[1:-1].strip() if s.endswith(')') else s
    if s == 'NoneV': return 'none'
    if s == 'PanicV': return 'panic'
    if s == 'Unsupported': return 'unsupported'
    if s.startswith('ErrV'):
        return 'err ' + s[4:].strip().strip('()')
    if s.startswith('Val'):
        body = s[3:].strip()
        # body like [[1; 2]; [0]]
        body = body[1:-1].strip()
        parts = re.findall(r'\[([^\[\]]*)\]', body)
        vs = []
        for p in parts:
            p = p.strip()
            if not p:
                vs.append('-')
            else:
                vs.append(','.join('%x' % int(x.strip().strip('()')) for x in p.split(';')))
        return 'ok ' + ';'.join(vs)
    return 'unparsed:' + s

# ---------------------------------------------------------------- proofs
def check_props(pid):
    """Re-compile Props/<pid>*.v (Props/<pid>.v and its continuation files such as Props/<pid>b.v) and collect
    Print Assumptions verdicts. Returns (theorems, closed, problems)."""
    import glob
    files = sorted(glob.glob(os.path.join(COQ, 'Props', pid + '*.v')))
    if not os.path.exists(os.path.join(COQ, 'Props', pid + '.v')):
        return [], [], ['no Props/%s.v' % pid]
    theorems, closed, problems = [], [], []
    for f in files:
        t, c, p = check_props_file(f)
        theorems += t; closed += c; problems += p
    return theorems, closed, problems

def check_props_file(f):
    rel = os.path.relpath(f, COQ)
    src = strip_comments(open(f).read())
    theorems = re.findall(r'^\s*Theorem\s+(\w+)', src, re.M)
    rc, out = sh(['coqc', '-Q', '.', 'CB', '-w', '-all', rel], cwd=COQ, timeout=1800)
    problems = []
    if rc != 0:
        problems.append('%s does not compile:\n%s' % (rel, out[-3000:]))
        return theorems, [], problems
    # Print Assumptions output, in order
    verdicts = re.findall(r'(Closed under the global context|Axioms:.*?)(?=\s*(?:Closed under the global|Axioms:|\Z))', out, re.S)
    closed = []
    asked = re.findall(r'Print\s+Assumptions\s+(\w+)', src)
    allow = allowed_axioms()
    for name, v in zip(asked, verdicts):
        if v.startswith('Closed'):
            closed.append(name)
        else:
            axs = re.findall(r'^\s*([\w\.]+)\s*:', v, re.M)
            extra = [a for a in axs if a not in allow]
            if extra:
                problems.append('theorem %s depends on non-allow-listed axioms: %s' % (name, extra))
            else:
                closed.append(name)
    for t in theorems:
        if t not in asked:
            problems.append('theorem %s has no Print Assumptions' % t)
    if len(verdicts) != len(asked):
        problems.append('%s: Print Assumptions output could not be matched (%d vs %d)' % (rel, len(verdicts), len(asked)))
    return theorems, closed, problems

def allowed_axioms():
    p = os.path.join(ROOT, 'tools', 'allowed_axioms.txt')
    if not os.path.exists(p):
        return set()
    return set(l.strip() for l in open(p) if l.strip() and not l.startswith('#'))

def gen_is_trivial(c):
    return all(all(w == 0 for w in a) for a in c.args)
