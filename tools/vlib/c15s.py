"""C15 (continued, 2) generator: the glue routes around the Montgomery forms of harness/src/ops/c15s.rs --
BoxedMontyForm::{bits_precision, is_zero, is_nonzero, params}, Monty::params (MontyForm, BoxedMontyForm), ConstantTimeEq for
MontyForm / MontyParams, ConstMontyForm::as_montgomery_mut, num_traits Zero::is_zero and serde of ConstMontyForm, Zeroize
for MontyForm / MontyParams / BoxedMontyForm, Debug of the three inverter types (model ops: single-step `monty.history` /
`monty.boxed_history`, `boxed.is_zero`, `boxed.is_nonzero`, `uint.is_zero`, `uint.ct_eq`, `uint.serde_ser`, and the keys
`glue2.*` of coq/Model/Glue2.v).
Inputs: odd moduli 1, 3, 2^BITS-1, the random compile-time modulus and run-time moduli of tools/vlib/c08.py; 1..4 limbs
fixed, 1..5 limbs boxed; values / representatives 0, 1, m-1, (m+-1)/2, R mod m and random; for the fail-closed decoder of
ConstMontyForm the representatives m-1, m, m+1, MAX, 0 (and malformed payloads of each).
Every case runs in both build profiles (dbg=True)."""
from .common import Case
from .gen import *
from . import c08

UINT_NS = [1, 2, 3, 4]
BOXED_NS = [1, 2, 3, 4, 5]
CONST_KINDS = ('one', 'three', 'max', 'rnd')        # the impl_modulus! types of ops/c08.rs that ops/c15s.rs dispatches on

def const_moduli(n):
    return [v for k, v in c08.const_moduli(n) if k in CONST_KINDS]

def dyn_moduli(rng, n, reps):
    R = 1 << (64 * n)
    return [1, 3, R - 1] + [c08.modulus(rng, n) for _ in range(reps)]

def residues(rng, m, n, reps):
    """reduced values: 0, 1, m-1, (m-1)/2, (m+1)/2, R mod m, random"""
    R = 1 << (64 * n)
    vs = [0, 1 % m, m - 1, (m - 1) // 2, ((m + 1) // 2) % m, R % m]
    vs += [value(rng, n) % m for _ in range(reps)]
    out = []
    for v in vs:
        if v not in out: out.append(v)
    return out

def integers(rng, m, n, reps):
    """integers for New (not necessarily reduced): 0, 1, m-1, m, m+1, MAX, random"""
    R = 1 << (64 * n)
    vs = [0, 1, m - 1, m % R, (m + 1) % R, R - 1] + [c08.some_value(rng, m, n) for _ in range(reps)]
    out = []
    for v in vs:
        if v not in out: out.append(v)
    return out

def le_bytes(v, nbytes):
    return [(v >> (8 * i)) & 0xff for i in range(nbytes)]

def uint_payload(v, n):
    """bincode framing of a Uint<n>: u64 length (little endian), then the little-endian bytes"""
    return le_bytes(8 * n, 8) + le_bytes(v, 8 * n)

def gen(tier, rng):
    scale = 1 if tier == 'quick' else 8
    cases = []
    def add(rop, args, mop):
        cases.append(Case(rop, args, mop=mop, dbg=True, tags=('c15s',)))
    NEW = [0, 0, 0, 0]                                # the op list of a single-step history: New(input 0)

    # ------------------------------------------------------------ fixed width, run-time moduli
    for n in UINT_NS:
        R = 1 << (64 * n)
        mods = dyn_moduli(rng, n, 3 * scale)
        for m in mods:
            M = to_limbs(m, n)
            for x in integers(rng, m, n, 2 * scale):
                cfg = rng.randrange(3)
                for r in ('params_inherent', 'params_trait'):
                    add('monty.history.' + r, [M, [cfg], NEW, to_limbs(x, n)], 'monty.history')
                add('glue2.zeroize_monty_form.new', [M, to_limbs(x, n), [cfg]], 'glue2.zeroize_monty_form')
            reps = residues(rng, m, n, 2 * scale)
            for r1 in reps:
                cfg = rng.randrange(3)
                add('glue2.zeroize_monty_form', [M, to_limbs(r1, n), [cfg]], 'glue2.zeroize_monty_form')
                # one parameter set, two representatives: equal, one bit apart, top limb apart, unrelated
                others = [r1, r1 ^ 1, r1 ^ (1 << (64 * n - 1)), r1 ^ (1 << rng.randrange(64 * n)), rng.choice(reps)]
                for r2 in others:
                    add('uint.ct_eq.monty_form', [to_limbs(r1, n), to_limbs(r2 % R, n), M, [cfg]], 'uint.ct_eq')
            for cfg in range(3):
                add('glue2.zeroize_monty_params', [M, [cfg]], 'glue2.zeroize_monty_params')
            add('glue2.debug_nonempty.monty', [M, [rng.randrange(3)]], 'glue2.debug_nonempty')
        # two parameter sets: the same modulus by two constructors, moduli one bit / one limb apart, unrelated moduli
        pairs = []
        for m in mods:
            pairs.append((m, m))
            pairs.append((m, (m ^ 2) % R | 1))
            pairs.append((m, (m ^ (1 << (64 * n - 1))) | 1))
            pairs.append((m, (m ^ (1 << rng.randrange(1, 64 * n))) | 1))
            pairs.append((m, rng.choice(mods)))
        for (m1, m2) in pairs:
            M1, M2 = to_limbs(m1, n), to_limbs(m2, n)
            c1, c2 = rng.randrange(3), rng.randrange(3)
            add('glue2.params_ct_eq', [M1, M2, [c1], [c2]], 'glue2.params_ct_eq')
            # forms: the four combinations of equal / different representatives and parameters
            a = rng.choice(residues(rng, min(m1, m2), n, 1))
            for (r1, r2) in ((a, a), (a, a ^ 1), (a, a ^ (1 << (64 * n - 1))), (a, value(rng, n) % min(m1, m2))):
                add('glue2.monty_ct_eq', [M1, to_limbs(r1, n), M2, to_limbs(r2 % R, n), [c1], [c2]], 'glue2.monty_ct_eq')

    # ------------------------------------------------------------ compile-time moduli (ConstMontyForm)
    for n in UINT_NS:
        R = 1 << (64 * n)
        for m in const_moduli(n):
            M = to_limbs(m, n)
            for x in integers(rng, m, n, 3 * scale):
                for r in ('const_as_mut', 'const_serde'):
                    add('monty.history.' + r, [M, [0], NEW, to_limbs(x, n)], 'monty.history')
            for r in residues(rng, m, n, 3 * scale):
                add('uint.is_zero.const_monty_num', [to_limbs(r, n), M], 'uint.is_zero')
                add('uint.serde_ser.const_monty', [to_limbs(r, n), M], 'uint.serde_ser')
            # the fail-closed decoder: representatives around the modulus
            vals = [m - 1, m, m + 1, R - 1, 0, 1, m // 2, m + (R - m) // 2, m ^ (1 << (64 * n - 1)), m | (1 << (64 * n - 1))]
            vals += [value(rng, n) for _ in range(3 * scale)]
            if n >= 2:
                # equal high limbs, low limb below / above; equal low limbs, high limb below / above
                lo, hi = m & MAXW, m >> 64
                vals += [(hi << 64) | ((lo - 1) & MAXW), (hi << 64) | ((lo + 1) & MAXW), (max(hi - 1, 0) << 64) | MAXW,
                         (((hi + 1) << 64) | 0) % R, (max(hi - 1, 0) << 64) | lo, (((hi + 1) << 64) | lo) % R]
            seen = []
            for v in vals:
                v %= R
                if v in seen: continue
                seen.append(v)
                good = uint_payload(v, n)
                add('glue2.cmf_serde_de', [good, [n], M], 'glue2.cmf_serde_de')
                k = rng.random()
                if k < 0.5:
                    bad = rng.choice([
                        le_bytes(8 * n + rng.choice([1, 8, -8, -1]), 8) + good[8:],        # wrong length field
                        good[:rng.randrange(0, len(good))],                                 # truncated
                        good[:8], [],                                                       # length only, nothing
                        good + [rng.randrange(256)],                                        # trailing byte (left open by the spec)
                        uint_payload(v % (1 << (64 * (n % 4 + 1))), n % 4 + 1),             # a payload of another width
                    ])
                    add('glue2.cmf_serde_de', [bad, [n], M], 'glue2.cmf_serde_de')
            # from_const_params against the run-time constructors: the same modulus, a neighbour, another modulus
            for m2 in (m, (m ^ 2) % R | 1, (m ^ (1 << (64 * n - 1))) | 1, c08.modulus(rng, n)):
                add('glue2.params_ct_eq.const_dyn', [M, to_limbs(m2, n), [rng.randrange(2)], [rng.randrange(2)]], 'glue2.params_ct_eq')
            add('glue2.debug_nonempty.const', [M, [0]], 'glue2.debug_nonempty')

    # ------------------------------------------------------------ parameter sets that differ in mod_leading_zeros only
    # (hand-written ConstMontyParams for the modulus 3; 62 is the value the constructors compute)
    for l1 in (62, 61, 0, 1, 63):
        for l2 in (62, 61, 0, 1, 63):
            add('glue2.params_ct_eq_lz', [[3], [l1], [l2]], 'glue2.params_ct_eq_lz')
            add('glue2.params_eq_lz', [[3], [l1], [l2]], 'glue2.params_eq_lz')

    # ------------------------------------------------------------ BoxedMontyForm
    for n in BOXED_NS:
        R = 1 << (64 * n)
        for m in dyn_moduli(rng, n, 3 * scale):
            M = to_limbs(m, n)
            for x in integers(rng, m, n, 2 * scale):
                cfg = rng.randrange(3)
                for r in ('params_inherent', 'params_trait'):
                    add('monty.boxed_history.' + r, [M, [cfg], NEW, to_limbs(x, n)], 'monty.boxed_history')
                add('glue2.zeroize_boxed_form.new', [M, to_limbs(x, n), [cfg]], 'glue2.zeroize_boxed_form')
            for r in residues(rng, m, n, 2 * scale):
                cfg = rng.randrange(3)
                add('boxed.is_zero.monty_form', [to_limbs(r, n), M, [cfg]], 'boxed.is_zero')
                add('boxed.is_nonzero.monty_form', [to_limbs(r, n), M, [cfg]], 'boxed.is_nonzero')
                add('glue2.zeroize_boxed_form', [M, to_limbs(r, n), [cfg]], 'glue2.zeroize_boxed_form')
                add('glue2.form_bits_precision', [M, to_limbs(r, n), [cfg]], 'glue2.form_bits_precision')
            # zero tests on single-bit representatives (every limb position)
            for i in range(n):
                r = (1 << (64 * i + rng.randrange(64)))
                if r < m:
                    add('boxed.is_zero.monty_form', [to_limbs(r, n), M, [0]], 'boxed.is_zero')
                    add('boxed.is_nonzero.monty_form', [to_limbs(r, n), M, [1]], 'boxed.is_nonzero')
            add('glue2.debug_nonempty.boxed', [M, [rng.randrange(3)]], 'glue2.debug_nonempty')
    return cases
