"""C05 generator: shifts, bit queries, bitwise operators (Limb, Uint<N>, Int<N>, BoxedUint)."""
from .common import Case
from .gen import *

UINT_NS = [1, 2, 3, 4, 5, 6, 8, 16]          # the widths the property's quantifier names
EXTRA_NS = [7, 12]                           # further non-power-of-two widths the harness instantiates
BOXED_NS = list(range(1, 21))
U32MAX = (1 << 32) - 1

TRUSTED = [
    'Coq 8.16.1 kernel incl. its bytecode VM (vm_compute); native_compute not used',
    'no axioms: Print Assumptions of every theorem = Closed under the global context',
    'extraction: ExtrOcamlBasic + ExtrOcamlNativeString + ExtrOcamlZBigInt directives only (cross-checked against vm_compute on a sample each run)',
    'correspondence harness (Rust adapters, OCaml driver, Python generators/diff): sampled equality impl = model',
    'hand-written Gallina model of the Rust algorithms (64-bit target); the machine intrinsics u64::leading_zeros/trailing_zeros/trailing_ones and subtle::ct_lt/ct_eq on u32/usize are modelled by their mathematical meaning',
]

PANIC_ROUTES = ['', '.op_u32', '.op_i32', '.op_usize', '.op_ref_u32', '.op_ref_i32', '.op_ref_usize',
                '.assign_u32', '.assign_i32', '.assign_usize']
WRAP_ROUTES = ['', '.trait', '.trait_vartime', '.wrapper', '.wrapper_ref']
BITWISE_ROUTES = ['', '.wrapping', '.checked', '.op_vv', '.op_vr', '.op_rv', '.op_rr', '.assign_v', '.assign_r',
                  '.wrapper_vv', '.wrapper_vr', '.wrapper_rv', '.wrapper_rr', '.wrapper_assign_v', '.wrapper_assign_r']


# ---------------------------------------------------------------- values
def ones(lo, hi):
    """bits lo..hi-1 set"""
    return ((1 << hi) - 1) ^ ((1 << lo) - 1) if hi > lo else 0

def shift_value(rng, n):
    """Operand for a shift: every wrong limb move / lost carry must become visible."""
    bits = 64 * n
    k = rng.random()
    if k < 0.22: v = (1 << bits) - 1
    elif k < 0.50: v = rng.getrandbits(bits) | (1 << (bits - 1)) | 1      # dense, distinct limbs, both end bits set
    elif k < 0.62: v = 1 << rng.randrange(bits)
    elif k < 0.68: v = rng.choice([1, 1 << (bits - 1), (1 << (bits - 1)) | 1, (1 << (bits - 1)) - 1])
    elif k < 0.78:
        a = 64 * rng.randrange(0, n + 1); b = 64 * rng.randrange(0, n + 1)   # run of ones between limb boundaries
        v = ones(min(a, b), max(a, b)) or ((1 << bits) - 1)
    elif k < 0.86:
        a = rng.randrange(bits); b = rng.randrange(bits)
        v = ones(min(a, b), max(a, b) + 1)
    else: v = value(rng, n)
    return to_limbs(v, n)

def signed_value(rng, n):
    """Operand for the arithmetic shift: both signs, MIN, -1, MAX, small negatives."""
    bits = 64 * n
    k = rng.random()
    top = 1 << (bits - 1)
    if k < 0.12: v = (1 << bits) - 1                      # -1
    elif k < 0.22: v = top                                # MIN
    elif k < 0.30: v = top - 1                            # MAX
    elif k < 0.40: v = ((1 << bits) - rng.choice([2, 3, 1 << 63, 1 << 64, (1 << 64) + 1])) % (1 << bits) | top
    elif k < 0.70: v = rng.getrandbits(bits) | top | 1    # dense negative
    elif k < 0.85: v = (rng.getrandbits(bits) & (top - 1)) | 1 | (top >> 1)   # dense non-negative
    else: v = from_limbs(shift_value(rng, n))
    return to_limbs(v, n)

def boundary_shifts(rng, n, extra=6):
    """Shift amounts at every branch boundary of the algorithms for an n-limb value."""
    bits = 64 * n
    s = {0, 1, 2, 31, 32, 33, 62, 63, 64, 65, 66, 127, 128, 129, bits - 65, bits - 64, bits - 63, bits - 2, bits - 1,
         bits, bits + 1, bits + 63, bits + 64, bits + 65, 2 * bits - 1, 2 * bits, 2 * bits + 1, 1 << 31, U32MAX,
         U32MAX - 1, (1 << 31) + bits, 1 << 16}
    i = 0
    while (1 << i) <= 4 * bits:                # every ladder step and its neighbours, and all-lower-steps
        s.update({1 << i, (1 << i) - 1, (1 << i) + 1})
        i += 1
    for k in {n // 2, n - 1, rng.randrange(0, n + 1)}:
        s.update({64 * k - 1, 64 * k, 64 * k + 1, 64 * k + 63})
    for _ in range(extra):
        s.add(rng.randrange(0, bits))
        s.add(bits + rng.randrange(0, bits + 2))
    s.add(rng.randrange(2 * bits, U32MAX))
    s.add(bits * rng.randrange(2, 1000))                       # multiples of BITS (shift % BITS == 0)
    s.add((U32MAX // bits) * bits)
    return sorted(x for x in s if 0 <= x <= U32MAX)

def dbg_shift(s, n):
    """which shift cases are also run in the debug-assertion build"""
    bits = 64 * n
    return s % 7 == 0 or bits - 1 <= s <= bits + 1 or s >= 2 * bits - 1 or (s & (s - 1)) == 0

def all_shifts(n):
    bits = 64 * n
    return list(range(0, 2 * bits + 2)) + [U32MAX]


# ---------------------------------------------------------------- shifts
def gen_fixed_shifts(cases, tier, rng, ty, ns, valfn):
    """ty = 'uint' | 'int'"""
    add = cases.append
    for n in ns:
        exhaustive = tier == 'thorough' or n <= 3
        shifts = all_shifts(n) if exhaustive else boundary_shifts(rng, n)
        for d in ('shl', 'shr'):
            mty = 'int' if (ty == 'int' and d == 'shr') else 'uint'      # Int::shl* forward to Uint
            core = ['overflowing_%s' % d, 'overflowing_%s_vartime' % d, 'wrapping_%s' % d, 'wrapping_%s_vartime' % d,
                    d, '%s_vartime' % d]
            for s in shifts:
                reps = 2 if (n <= 2 and tier == 'thorough') else 1
                for _ in range(reps):
                    x = valfn(rng, n)
                    for m in core:
                        add(Case('%s.%s' % (ty, m), [x, s], mop='%s.%s' % (mty, m), dbg=dbg_shift(s, n)))
            # all the other routes on a boundary sample
            bs = boundary_shifts(rng, n, extra=2)
            k = 10 if tier == 'quick' else 40
            for r in PANIC_ROUTES[1:]:
                for s in rng.sample(bs, min(k, len(bs))) + [64 * n - 1, 64 * n, 0]:
                    if 'i32' in r and s >= (1 << 31):
                        continue
                    add(Case('%s.%s%s' % (ty, d, r), [valfn(rng, n), s], mop='%s.%s' % (mty, d), dbg=True))
            # usize shifts beyond u32
            for r in ('.op_usize', '.op_ref_usize', '.assign_usize'):
                for s in (1 << 32, (1 << 32) + 1, (1 << 64) - 1, (1 << 32) + 64 * n - 1):
                    add(Case('%s.%s%s' % (ty, d, r), [valfn(rng, n), s], mop='%s.%s' % (mty, d), dbg=True))
            for r in WRAP_ROUTES[1:]:
                for s in rng.sample(bs, min(k, len(bs))) + [64 * n - 1, 64 * n, 0]:
                    add(Case('%s.wrapping_%s%s' % (ty, d, r), [valfn(rng, n), s], mop='%s.wrapping_%s' % (mty, d), dbg=True))
            for s in rng.sample(bs, min(k, len(bs))) + [64 * n - 1, 64 * n, 0]:
                add(Case('%s.overflowing_%s.trait_vartime' % (ty, d), [valfn(rng, n), s],
                         mop='%s.overflowing_%s' % (mty, d), dbg=True))

def gen_wide(cases, tier, rng):
    add = cases.append
    for n in UINT_NS + EXTRA_NS:
        bits = 64 * n
        exhaustive = tier == 'thorough' or n <= 2
        shifts = all_shifts(n) if exhaustive else boundary_shifts(rng, n, extra=10)
        for d in ('shl', 'shr'):
            for s in shifts:
                lo = shift_value(rng, n); hi = shift_value(rng, n)
                k = rng.random()
                if k < 0.2: hi = [0] * n
                elif k < 0.4: lo = [0] * n
                add(Case('uint.%s_vartime_wide' % d, [lo, hi, s], dbg=dbg_shift(s, n)))


def gen_boxed_shifts(cases, tier, rng):
    add = cases.append
    for n in BOXED_NS:
        exhaustive = (tier == 'thorough' and n <= 5) or n <= 2
        shifts = all_shifts(n) if exhaustive else boundary_shifts(rng, n, extra=(2 if tier == 'quick' else 60))
        for d in ('shl', 'shr'):
            core = [('boxed.overflowing_%s' % d, None), ('boxed.overflowing_%s.assign' % d, 'boxed.overflowing_%s' % d),
                    ('boxed.%s' % d, None), ('boxed.wrapping_%s' % d, None), ('boxed.%s_vartime' % d, None),
                    ('boxed.wrapping_%s_vartime' % d, None),
                    ('boxed.overflowing_%s_opt.trait_vartime' % d, 'boxed.overflowing_%s_opt' % d)]
            for s in shifts:
                x = shift_value(rng, n)
                for rop, mop in core:
                    add(Case(rop, [x, s], mop=mop or rop, dbg=dbg_shift(s, n)))
            bs = boundary_shifts(rng, n, extra=2)
            k = 3 if tier == 'quick' else 20
            for r in PANIC_ROUTES[1:] + ['.assign_inherent']:
                for s in rng.sample(bs, min(k, len(bs))) + [64 * n - 1, 64 * n]:
                    if 'i32' in r and s >= (1 << 31):
                        continue
                    add(Case('boxed.%s%s' % (d, r), [shift_value(rng, n), s], mop='boxed.%s' % d, dbg=True))
            for r in ('.op_usize', '.op_ref_usize', '.assign_usize'):
                for s in (1 << 32, (1 << 64) - 1):
                    add(Case('boxed.%s%s' % (d, r), [shift_value(rng, n), s], mop='boxed.%s' % d, dbg=True))
            for r in WRAP_ROUTES[1:]:
                for s in rng.sample(bs, min(k, len(bs))) + [64 * n - 1, 64 * n]:
                    add(Case('boxed.wrapping_%s%s' % (d, r), [shift_value(rng, n), s], mop='boxed.wrapping_%s' % d, dbg=True))


def gen_limb(cases, tier, rng):
    add = cases.append
    reps = 2 if tier == 'quick' else 12
    for d in ('shl', 'shr'):
        for s in list(range(0, 64)):
            for _ in range(reps):
                x = rng.choice([MAXW, rng.getrandbits(64) | (1 << 63) | 1, word(rng), 1 << rng.randrange(64)])
                for r in PANIC_ROUTES:
                    add(Case('limb.%s%s' % (d, r), [x, s], mop='limb.%s' % d, dbg=True))
        # shift >= 64: panics in both profiles (also through every operator form)
        for s in (64, 65, 66, 127, 128, 129, 191, 192, 1 << 16, 1 << 31, (1 << 31) - 1, U32MAX - 64, U32MAX - 63, U32MAX):
            for r in PANIC_ROUTES:
                if 'i32' in r and s >= (1 << 31):
                    continue
                add(Case('limb.%s%s' % (d, r), [rng.choice([MAXW, word(rng), 1, 1 << 63]), s], mop='limb.%s' % d, dbg=True))
        for r in ('.op_usize', '.op_ref_usize', '.assign_usize'):
            for s in (1 << 32, (1 << 64) - 1, (1 << 32) + 5):
                add(Case('limb.%s%s' % (d, r), [word(rng), s], mop='limb.%s' % d, dbg=True))
        for s in list(range(0, 131)) + [191, 192, 255, 256, 1 << 31, U32MAX, U32MAX - 63, U32MAX - 64]:
            for r in ('', '.wrapper', '.wrapper_ref'):
                x = rng.choice([MAXW, rng.getrandbits(64) | (1 << 63) | 1, word(rng)])
                add(Case('limb.wrapping_%s%s' % (d, r), [x, s], mop='limb.wrapping_%s' % d, dbg=True))
    # queries: every single bit, every run of ones from bit 0 / to bit 63
    vals = [0, MAXW] + [1 << p for p in range(64)] + [(1 << p) - 1 for p in range(1, 64)] + \
           [MAXW ^ ((1 << p) - 1) for p in range(1, 64)]
    for p in range(64):
        vals.append((rng.getrandbits(64) >> (63 - p)) | (1 << p) if p < 63 else rng.getrandbits(64) | (1 << 63))   # top bit p
        vals.append(((rng.getrandbits(64) << p) | (1 << p)) & MAXW)        # lowest set bit p
        vals.append((((rng.getrandbits(64) << (p + 1)) | ((1 << p) - 1)) & MAXW))   # exactly p trailing ones
    for v in vals:
        for q in ('bits', 'leading_zeros', 'trailing_zeros', 'trailing_ones'):
            add(Case('limb.' + q, [v], dbg=True))
    for _ in range(40 if tier == 'quick' else 400):
        x, y = word(rng), word(rng)
        for o, routes in (('and', ['', '.op', '.assign_v', '.assign_r']), ('or', ['', '.op', '.assign_v', '.assign_r']),
                          ('xor', ['', '.op', '.assign_v'])):
            for r in routes:
                add(Case('limb.%s%s' % (o, r), [x, y], mop='limb.' + o))
        add(Case('limb.not', [x])); add(Case('limb.not.op', [x], mop='limb.not'))


# ---------------------------------------------------------------- bit queries
QUERIES = ['bits', 'bits_vartime', 'leading_zeros', 'leading_zeros_vartime', 'trailing_zeros', 'trailing_zeros_vartime',
           'trailing_ones', 'trailing_ones_vartime']

def query_values(rng, n, p):
    """Values whose answer to some query is decided at bit position p."""
    bits = 64 * n
    M = (1 << bits) - 1
    r = rng.getrandbits(bits)
    return [
        1 << p,                                         # single bit
        (1 << p) - 1,                                   # ones below p  (trailing ones = p, bits = p)
        M ^ ((1 << p) - 1),                             # ones from p up (trailing zeros = p)
        (r & ((1 << p) - 1)) | (1 << p),                # random with top bit p
        ((r << (p + 1)) | (1 << p)) & M,                # random with lowest set bit p
        ((r << (p + 1)) | ((1 << p) - 1)) & M,          # random with exactly p trailing ones
        M ^ (1 << p),                                   # single zero bit
    ]

def positions(rng, n, tier, full_upto):
    bits = 64 * n
    if tier == 'thorough' or n <= full_upto:
        return list(range(bits))
    s = {0, 1, 62, 63, bits - 1, bits - 2, bits - 64, bits - 65}
    for k in range(1, n):
        s.update({64 * k - 1, 64 * k, 64 * k + 1})
    for _ in range(6):
        s.add(rng.randrange(bits))
    return sorted(x for x in s if 0 <= x < bits)

def gen_queries(cases, tier, rng):
    add = cases.append
    for ty, ns in (('uint', UINT_NS + EXTRA_NS), ('boxed', BOXED_NS)):
        for n in ns:
            bits = 64 * n
            qs = [q for q in QUERIES]
            vals = [[0] * n, [MAXW] * n]
            if tier == 'quick' and ty == 'boxed' and n in (6, 10, 11, 12, 14, 15, 18, 19):
                continue            # quick tier: a subset of the boxed widths (all of them in the thorough tier)
            for p in positions(rng, n, tier, 1):
                vs = query_values(rng, n, p)
                if tier == 'quick':
                    vs = rng.sample(vs, 3 if n == 1 else 2)
                elif n > 2:
                    vs = rng.sample(vs, 3)
                vals += [to_limbs(v, n) for v in vs]
            for _ in range(4):
                vals.append(limbs(rng, n))
            for x in vals:
                for q in qs:
                    routes = ['', '.trait']
                    if ty == 'boxed' and q == 'leading_zeros_vartime':
                        routes = ['.trait']
                    for r in routes:
                        if r == '.trait' and len(routes) > 1 and rng.random() < (0.6 if tier == 'quick' or n > 2 else 0.0):
                            continue
                        add(Case('%s.%s%s' % (ty, q, r), [x], mop='bits.' + q, dbg=(rng.random() < 0.3)))
            # bit test / bit set: every index 0..=BITS+1 (and far out of range)
            full = tier == 'thorough' or n <= (3 if ty == 'uint' else 2)
            if full:
                idxs = list(range(0, bits + 2))
            else:
                idxs = sorted(set(positions(rng, n, tier, 0) + [bits, bits + 1, bits + 63, bits + 64]))
            idxs += [2 * bits, 1 << 31, U32MAX, U32MAX - 63, (1 << 25) * 64 + 5, (1 << 32) - 64]
            for i in idxs:
                x = shift_value(rng, n)
                if i < bits and rng.random() < 0.5:
                    # the addressed bit differs from all its neighbours
                    v = from_limbs(x)
                    v = (v | ones(max(0, i - 70), min(bits, i + 70))) ^ (1 << i) if rng.random() < 0.5 else \
                        (v & ~ones(max(0, i - 70), min(bits, i + 70))) | (1 << i)
                    x = to_limbs(v, n)
                for q in ('bit', 'bit_vartime'):
                    for r in ('', '.trait'):
                        add(Case('%s.%s%s' % (ty, q, r), [x, i], mop='bits.' + q, dbg=(i % 5 == 0 or i >= bits)))
                for b in (0, 1):
                    y = shift_value(rng, n) if rng.random() < 0.5 else ([MAXW] * n if b == 0 else [0] * n)
                    add(Case('%s.set_bit.trait' % ty, [y, i, b], mop='bits.set_bit', dbg=(i % 5 == 0 or i >= bits)))
                    if i < bits or i in (bits, bits + 1, bits + 63, bits + 64, U32MAX):
                        add(Case('%s.set_bit_vartime.trait' % ty, [y, i, b], mop='bits.set_bit_vartime',
                                 dbg=(i % 5 == 0 or i >= bits)))


# ---------------------------------------------------------------- bitwise operators
def bit_pair(rng, n, m):
    a = limbs(rng, n); b = limbs(rng, m)
    k = rng.random()
    if k < 0.15: b = [(~w) & MAXW for w in resize(a, m)]
    elif k < 0.25: b = resize(a, m)
    elif k < 0.45:
        a = [rng.getrandbits(64) for _ in range(n)]; b = [rng.getrandbits(64) for _ in range(m)]
    return a, b

def resize(a, m):
    return (list(a) + [0] * m)[:m]

def gen_bitwise(cases, tier, rng):
    add = cases.append
    reps = 3 if tier == 'quick' else 30
    for ty in ('uint', 'int'):
        for n in UINT_NS + EXTRA_NS:
            for _ in range(reps):
                a, b = bit_pair(rng, n, n)
                for o in ('and', 'or', 'xor'):
                    for r in BITWISE_ROUTES:
                        add(Case('%s.%s%s' % (ty, o, r), [a, b], mop='uint.' + o, dbg=(r == '')))
                for r in ('', '.op', '.wrapper'):
                    add(Case('%s.not%s' % (ty, r), [a], mop='uint.not'))
                add(Case('%s.and_limb' % ty, [a, word(rng)], mop='uint.and_limb'))
                add(Case('%s.and_limb' % ty, [[rng.getrandbits(64) for _ in range(n)], rng.getrandbits(64)], mop='uint.and_limb'))
    for n in BOXED_NS:
        for _ in range(reps):
            m = n if rng.random() < 0.5 else rng.randrange(1, 21)      # mixed precisions: zero-extended
            a, b = bit_pair(rng, n, m)
            for o in ('and', 'or', 'xor'):
                for r in BITWISE_ROUTES:
                    mop = 'boxed.' + o
                    if o == 'or' and 'assign' in r:
                        mop = 'boxed.or_assign'       # |= widens to the larger precision exactly like |
                    add(Case('boxed.%s%s' % (o, r), [a, b], mop=mop, dbg=(r == '')))
            for r in ('', '.op', '.wrapper'):
                add(Case('boxed.not%s' % r, [a], mop='uint.not'))
            add(Case('boxed.and_limb', [a, word(rng)], mop='uint.and_limb'))


def gen(tier, rng):
    cases = []
    gen_limb(cases, tier, rng)
    gen_fixed_shifts(cases, tier, rng, 'uint', UINT_NS + (EXTRA_NS if tier == 'thorough' else [7]), shift_value)
    gen_fixed_shifts(cases, tier, rng, 'int', UINT_NS + (EXTRA_NS if tier == 'thorough' else [7]), signed_value)
    gen_wide(cases, tier, rng)
    gen_boxed_shifts(cases, tier, rng)
    gen_queries(cases, tier, rng)
    gen_bitwise(cases, tier, rng)
    return cases
