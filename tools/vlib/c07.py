"""C07 generator: modular add/sub/neg/double/mul incl. special moduli p = 2^BITS - c, and modular halving
(div_by_2 kernels reached through MontyForm / BoxedMontyForm::from_montgomery(..).div_by_2(): odd moduli incl. 1, 3,
2^BITS - 1 (a + m overflows the width: the carry must come back as the top bit), 2^(BITS-1) +- 1, zero high limbs;
representatives 0, 1, m - 1, m - 2, (m +- 1) / 2, odd and even random)."""
from .common import Case
from .gen import *

NS = [1, 2, 3, 4, 6, 8, 12, 16]
MULMOD_NS = [1, 2, 3, 4, 6, 8, 16]

def modulus(rng, n, odd=False):
    M = 1 << (64 * n)
    k = rng.random()
    if k < 0.06: p = 1
    elif k < 0.10: p = 2
    elif k < 0.15: p = 3
    elif k < 0.25: p = M - 1
    elif k < 0.32: p = (M >> 1) + rng.choice([-1, 1])
    elif k < 0.40: p = M - rng.choice([1, 2, 3, 189, 1 << 32, MAXW - 1, MAXW])
    elif k < 0.50: p = from_limbs(limbs(rng, rng.randrange(1, n + 1)))      # zero high limbs
    elif k < 0.58: p = M // 3
    else: p = value(rng, n)
    p = max(1, p % M)
    if odd: p |= 1
    return p

def residue(rng, p, n):
    k = rng.random()
    if k < 0.12: return 0
    if k < 0.22: return 1 % p
    if k < 0.37: return p - 1
    if k < 0.45: return p // 2
    if k < 0.52: return (p + 1) // 2 % p
    return value(rng, n) % p

def pair_res(rng, p, n):
    a = residue(rng, p, n)
    k = rng.random()
    if k < 0.15: b = a
    elif k < 0.35: b = (p - a + rng.choice([-1, 0, 0, 1])) % p
    elif k < 0.45: b = ((1 << (64 * n)) - a) % p
    else: b = residue(rng, p, n)
    return a, b

def special_c(rng):
    return rng.choice([1, 2, 3, 189, 1 << 32, (1 << 32) - 1, 1 << 63, MAXW - 1, MAXW, MAXW, word(rng) or 1])

def gen(tier, rng):
    scale = 1 if tier == 'quick' else 10
    cs = []; add = cs.append
    for kind, ns in (('uint', NS), ('boxed', [1, 2, 3, 4, 5, 7, 8, 11, 16, 20])):
        for n in ns:
            reps = (40 if n <= 8 else 20) * scale
            for i in range(reps):
                p = modulus(rng, n)
                a, b = pair_res(rng, p, n)
                A, Bb, P = to_limbs(a, n), to_limbs(b, n), to_limbs(p, n)
                dbg = (i % 3 == 0)
                forms = ['', '.trait'] + (['.assign'] if kind == 'boxed' else [])
                for f in forms: add(Case(kind + '.add_mod' + f, [A, Bb, P], mop=kind + '.add_mod', dbg=dbg))
                for f in ['', '.trait']:
                    add(Case(kind + '.sub_mod' + f, [A, Bb, P], mop=kind + '.sub_mod', dbg=dbg))
                    add(Case(kind + '.neg_mod' + f, [A, P], mop=kind + '.neg_mod', dbg=dbg))
                add(Case(kind + '.double_mod', [A, P], dbg=dbg))
                # special modulus
                c = special_c(rng)
                ps = (1 << (64 * n)) - c
                if ps > 0:
                    a, b = pair_res(rng, ps, n)
                    if rng.random() < 0.3:
                        # operands made of extreme limbs, reduced into range
                        a = from_limbs([rng.choice([0, 1, MAXW, MAXW - 1]) for _ in range(n)]) % ps
                        b = from_limbs([rng.choice([0, 1, MAXW, MAXW - 1]) for _ in range(n)]) % ps
                    A, Bb = to_limbs(a, n), to_limbs(b, n)
                    if kind == 'uint': add(Case('uint.add_mod_special', [A, Bb, c], dbg=dbg))
                    add(Case(kind + '.sub_mod_special', [A, Bb, c], dbg=dbg))
                    add(Case(kind + '.neg_mod_special', [A, c], dbg=dbg))
                    add(Case(kind + '.mul_mod_special', [A, Bb, c], dbg=True))
                    # structured products: x * x^-1-like, (p-1)*(p-k), 2*(p+1)/2
                    k2 = rng.randrange(1, 4)
                    for (u1, u2) in (((ps - 1) % ps, (ps - k2) % ps), (2 % ps, ((ps + 1) // 2) % ps)):
                        add(Case(kind + '.mul_mod_special', [to_limbs(u1, n), to_limbs(u2, n), c], dbg=True))
                # multiplication mod p
                p = modulus(rng, n)
                a, b = pair_res(rng, p, n)
                A, Bb, P = to_limbs(a, n), to_limbs(b, n), to_limbs(p, n)
                if kind == 'uint':
                    add(Case('uint.mul_mod_vartime', [A, Bb, P]))
                    add(Case('uint.mul_mod_trait', [A, Bb, P]))
                    if n in MULMOD_NS and i % 2 == 0:
                        po = modulus(rng, n, odd=True); a, b = pair_res(rng, po, n)
                        add(Case('uint.mul_mod', [to_limbs(a, n), to_limbs(b, n), to_limbs(po, n)]))
                else:
                    po = modulus(rng, n, odd=True); a, b = pair_res(rng, po, n)
                    for f in ['', '.trait']:
                        add(Case('boxed.mul_mod' + f, [to_limbs(a, n), to_limbs(b, n), to_limbs(po, n)], mop='boxed.mul_mod'))
            if kind == 'uint':
                add(Case('uint.mul_mod_trait', [limbs(rng, n), limbs(rng, n), [0] * n]))
            # products at the 2^BITS boundary: bit lengths that sum to BITS - 1, BITS, BITS + 1, BITS + 2 with all-ones /
            # single-bit operands (a product of an m-bit and an n-bit number has m + n - 1 OR m + n bits)
            Bt = 64 * n
            for s_bits in (Bt - 1, Bt, Bt + 1, Bt + 2):
                for i1 in sorted(set([1, 2, Bt // 2, Bt // 2 + 1, s_bits // 2, s_bits - 1, s_bits - 2, rng.randrange(1, Bt)])):
                    i2 = s_bits - i1
                    if not (1 <= i1 <= Bt - 1 and 1 <= i2 <= Bt - 1): continue
                    for (a, b) in (((1 << i1) - 1, (1 << i2) - 1), (1 << (i1 - 1), 1 << (i2 - 1)), ((1 << i1) - 1, 1 << (i2 - 1))):
                        for p in ((1 << Bt) - 1, (1 << Bt) - rng.choice([59, 159, 189, 3]), (1 << (Bt - 1)) + 1):
                            if a >= p or b >= p: continue
                            A, Bb, P = to_limbs(a, n), to_limbs(b, n), to_limbs(p, n)
                            if kind == 'uint':
                                add(Case('uint.mul_mod_vartime', [A, Bb, P]))
                                add(Case('uint.mul_mod_trait', [A, Bb, P]))
                                if n in MULMOD_NS and p % 2 == 1:
                                    add(Case('uint.mul_mod', [A, Bb, P]))
                            elif p % 2 == 1:
                                add(Case('boxed.mul_mod', [A, Bb, P], mop='boxed.mul_mod'))
            # modular halving
            for i in range((24 if n <= 8 else 12) * scale):
                M = 1 << (64 * n)
                m = [1, 3, M - 1, M - 1, M - 3, (M >> 1) + 1, (M >> 1) - 1, M // 3 | 1][i] if i < 8 else modulus(rng, n, odd=True)
                k = rng.random()
                if k < 0.1: a = 0
                elif k < 0.2: a = 1 % m
                elif k < 0.35: a = m - 1
                elif k < 0.45: a = (m - 2) % m
                elif k < 0.55: a = ((m + rng.choice([-1, 1])) // 2) % m
                else: a = value(rng, n) % m
                if i % 2 == 0 and a % 2 == 0 and a + 1 < m: a += 1      # odd representatives take the (a + m) path
                forms = [''] + (['.assign', '.params_ct'] if kind == 'boxed' else [])
                for f in forms:
                    add(Case(kind + '.div_by_2' + f, [to_limbs(a, n), to_limbs(m, n)], mop=kind + '.div_by_2', dbg=(i % 2 == 0)))
    return cs
