"""Generators shared by all properties. Every random choice derives from one random.Random(seed)."""
import random
B = 1 << 64
MAXW = B - 1

def limb(rng):
    """One limb from the adversarial alphabet."""
    k = rng.random()
    if k < 0.18: return 0
    if k < 0.36: return MAXW
    if k < 0.44: return 1
    if k < 0.50: return MAXW - 1
    if k < 0.55: return 1 << 63
    if k < 0.58: return (1 << 63) - 1
    if k < 0.61: return (1 << 63) + 1
    if k < 0.64: return 2
    if k < 0.67: return rng.choice([1 << 32, (1 << 32) - 1, (1 << 32) + 1, 0x5555555555555555, 0xAAAAAAAAAAAAAAAA])
    if k < 0.73: return 1 << rng.randrange(64)
    if k < 0.78: return (1 << rng.randrange(1, 65)) - 1            # low mask
    if k < 0.82: return MAXW ^ ((1 << rng.randrange(0, 64)) - 1)   # high mask
    return rng.getrandbits(64)

def limbs(rng, n):
    k = rng.random()
    if k < 0.06: return [0] * n
    if k < 0.12: return [MAXW] * n
    if k < 0.16: return [1] + [0] * (n - 1) if n else []
    if k < 0.20: return [rng.getrandbits(64) for _ in range(n)]
    if k < 0.26:
        # run of ones ending at a limb boundary / alternating
        return [(MAXW if (i % 2 == 0) == (rng.random() < 0.5) else 0) for i in range(n)]
    if k < 0.32:
        # zero high limbs
        z = rng.randrange(0, n + 1)
        return [limb(rng) for _ in range(n - z)] + [0] * z
    if k < 0.36:
        # single bit
        v = 1 << rng.randrange(64 * n) if n else 0
        return to_limbs(v, n)
    return [limb(rng) for _ in range(n)]

def to_limbs(v, n):
    return [(v >> (64 * i)) & MAXW for i in range(n)]

def from_limbs(ls):
    v = 0
    for i, w in enumerate(ls):
        v |= w << (64 * i)
    return v

def value(rng, n):
    return from_limbs(limbs(rng, n))

def near(rng, v, n):
    """v plus a small delta, clamped into [0, 2^(64n))"""
    m = 1 << (64 * n)
    return max(0, min(m - 1, v + rng.choice([-2, -1, 0, 0, 1, 2])))

def pick_n(rng, ns):
    return rng.choice(ns)

def word(rng):
    return limb(rng)

def is_trivial(args):
    return all(all(w == 0 for w in a) for a in args)
