"""C14 generator: signed division Int<N> by Int / Uint — truncating, flooring, normalized remainder,
ct and _vartime (mixed widths), operators and wrappers.
Inputs are built from the answer n = q*d + r: all four sign combinations, r in {0, 1, |d|-1},
|n| < |d|, d = +-1, +-2, MIN, MAX, n = MIN / MAX, MIN / -1, quotients at +-2^(BITS-1)."""
import os
from .common import Case
from .gen import *

NS = [1, 2, 3, 4, 8]
W4 = ['', '_vr', '_rv', '_rr']
OPW = ['.op' + s for s in W4] + ['.assign', '.assign_ref'] + ['.wrapping' + s for s in W4] + \
      ['.wrapping_assign', '.wrapping_assign_ref']

# NonZero<Int> divisor, same width
INT_NZ = {
    'sdiv.checked_div_rem': ['', '.vartime'],
    'sdiv.checked_div': ['.op' + s for s in W4],
    'sdiv.rem': ['', '.vartime'] + OPW,
    'sdiv.div_expect': ['.div_vartime', '.assign', '.assign_ref'] + ['.wrapping' + s for s in W4] +
                       ['.wrapping_assign', '.wrapping_assign_ref'],
    'sdiv.checked_div_rem_floor': ['', '.vartime'],
}
# plain Int divisor (zero allowed), same width
INT_ANY = {
    'sdiv.checked_div': ['', '.trait', '.vartime'] + ['.wrapper' + s for s in W4],
    'sdiv.checked_div_floor': ['', '.vartime'],
}
UINT_NZ = {
    'sdiv.div_rem_uint': ['', '.vartime'],
    'sdiv.div_uint': ['', '.vartime'] + OPW,
    'sdiv.rem_uint': ['', '.vartime'] + OPW,
    'sdiv.div_rem_floor_uint': ['', '.vartime'],
    'sdiv.div_floor_uint': ['', '.vartime'],
    'sdiv.normalized_rem': ['', '.vartime'],
}
MIXED_INT = ['sdiv.checked_div_rem', 'sdiv.checked_div', 'sdiv.rem', 'sdiv.checked_div_rem_floor', 'sdiv.checked_div_floor']
MIXED_UINT = ['sdiv.div_rem_uint', 'sdiv.div_uint', 'sdiv.rem_uint', 'sdiv.div_rem_floor_uint', 'sdiv.div_floor_uint',
              'sdiv.normalized_rem']



def M(n): return 1 << (64 * n)
def smin(n): return -(M(n) >> 1)
def smax(n): return (M(n) >> 1) - 1
def enc(x, n): return to_limbs(x % M(n), n)
def clamp(x, n): return max(smin(n), min(smax(n), x))
def uclamp(x, n): return max(0, min(M(n) - 1, x))


def sval(rng, n):
    k = rng.random()
    if k < 0.35:
        h = 1 << (32 * n)
        return clamp(rng.choice([smin(n), smin(n) + 1, -1, 0, 1, 2, -2, 3, -3, smax(n), smax(n) - 1, h, -h, h - 1, -(h + 1),
                                 smin(n) >> 1, smax(n) >> 1, 1 << 63, -(1 << 63), (1 << 64) - 1, -(1 << 64)]), n)
    if k < 0.55:
        j = rng.randrange(0, 64 * n)
        return clamp(rng.choice([-1, 1]) * ((1 << j) + rng.choice([-1, 0, 0, 1])), n)
    if k < 0.70:
        j = rng.randrange(1, 64 * n)
        return clamp(rng.choice([-1, 1]) * rng.getrandbits(j), n)
    v = value(rng, n)
    return v - M(n) if v >= M(n) >> 1 else v


def divisor(rng, r, unsigned):
    k = rng.random()
    if unsigned:
        if k < 0.35:
            return uclamp(rng.choice([1, 2, 3, 5, 7, M(r) - 1, M(r) - 2, M(r) >> 1, (M(r) >> 1) - 1, (M(r) >> 1) + 1,
                                      1 << 63, (1 << 64) - 1, 1 << (32 * r), (1 << (32 * r)) + 1]), r) or 1
        if k < 0.6:
            j = rng.randrange(0, 64 * r)
            return uclamp((1 << j) + rng.choice([-1, 0, 0, 1]), r) or 1
        if k < 0.8:
            return rng.getrandbits(rng.randrange(1, 64 * r + 1)) or 1
        return value(rng, r) or 1
    d = 0
    while d == 0:
        if k < 0.35:
            d = clamp(rng.choice([1, -1, 2, -2, 3, -3, 5, -7, smin(r), smin(r) + 1, smax(r), smax(r) - 1, smin(r) >> 1,
                                  smax(r) >> 1, 1 << (32 * r), -(1 << (32 * r))]), r)
        else:
            d = sval(rng, r)
        k = rng.random()
    return d


def dividend(rng, l, d):
    """n of l limbs built from q*d + r."""
    ad = abs(d)
    k = rng.random()
    if k < 0.22:
        return clamp(rng.choice([smin(l), smin(l) + 1, smax(l), smax(l) - 1, -1, 0, 1, smin(l) >> 1]), l)
    if k < 0.34:
        # |n| < |d| or |n| = |d| (+-1)
        x = rng.choice([ad - 1, ad, ad + 1, ad >> 1, rng.randrange(0, ad) if ad > 0 else 0])
        return clamp(rng.choice([-1, 1]) * x, l)
    if k < 0.9:
        qmax = smax(l) // ad
        kk = rng.random()
        if kk < 0.3: q = qmax - rng.choice([0, 0, 1, 2])
        elif kk < 0.5: q = rng.choice([0, 1, 2, 3])
        elif kk < 0.7 and qmax > 0: q = 1 << rng.randrange(0, max(1, qmax.bit_length()))
        else: q = rng.randrange(0, qmax + 1)
        q = max(0, min(qmax, q))
        r0 = rng.choice([0, 0, 1, ad - 1, ad - 2 if ad > 1 else 0, rng.randrange(0, ad),
                         1 << (64 * ((ad.bit_length() - 1) // 64))])   # only the top limb of r non-zero
        r0 = max(0, min(ad - 1, r0))
        return clamp(rng.choice([-1, 1]) * (q * ad + r0), l)
    return sval(rng, l)


def defect_uint_rem_width(n, d, l, r):
    # DEFECT (open, finding F14): div_rem_uint_vartime / rem_uint_vartime return the remainder as Int<RHS_LIMBS>; with
    # RHS_LIMBS < LIMBS and a divisor >= 2^(64*RHS_LIMBS-1) the true remainder |r| can exceed Int<RHS>::MAX and
    # is returned reinterpreted (e.g. Int<2> 2^64-2 rem Uint<1> 2^64-1 -> -2 instead of 2^64-2).
    rem = abs(n) % d
    return r < l and not (smin(r) <= (rem if n >= 0 else -rem) <= smax(r))


def gen(tier, rng):
    scale = 1 if tier == 'quick' else 10
    cases = []
    add = cases.append

    def emit_int(n, d, l, r, mixed):
        N, D = enc(n, l), enc(d, r)
        tag = ('l%d' % l, 'r%d' % r)
        if mixed:
            for mop in MIXED_INT:
                add(Case(mop + '.vartime', [N, D], mop=mop, tags=tag))
            return
        for mop, forms in INT_NZ.items():
            for f in forms:
                add(Case(mop + f, [N, D], mop=mop, dbg=(f not in ('', '.vartime')), tags=tag))
        for mop, forms in INT_ANY.items():
            for f in forms:
                add(Case(mop + f, [N, D], mop=mop, dbg=('wrapper' in f), tags=tag))

    def emit_uint(n, d, l, r, mixed):
        N, D = enc(n, l), to_limbs(d, r)
        tag = ('l%d' % l, 'r%d' % r, 'u')
        if mixed:
            for mop in MIXED_UINT:
                if mop in ('sdiv.div_rem_uint', 'sdiv.rem_uint') and defect_uint_rem_width(n, d, l, r):
                    # open finding F14: generated and compared, tagged so that the check can report it as KNOWN-FINDING
                    add(Case(mop + '.vartime', [N, D], mop=mop, tags=tag + ('known:F14',)))
                    continue
                add(Case(mop + '.vartime', [N, D], mop=mop, tags=tag))
            return
        for mop, forms in UINT_NZ.items():
            for f in forms:
                add(Case(mop + f, [N, D], mop=mop, dbg=(f not in ('', '.vartime')), tags=tag))

    for l in NS:
        # ---- systematic grid: the classic table for every width (4 sign combinations, exact/inexact, MIN, +-1)
        grid_n = [8, -8, 7, -7, 9, -9, 0, 1, -1, 2, -2, smin(l), smin(l) + 1, smax(l), smax(l) - 1]
        grid_d = [3, -3, 1, -1, 2, -2, 8, -8, smin(l), smax(l), smin(l) + 1]
        for n in grid_n:
            for d in grid_d:
                for mop in ['sdiv.checked_div_rem', 'sdiv.checked_div_rem_floor']:
                    add(Case(mop, [enc(n, l), enc(d, l)]))
                    add(Case(mop + '.vartime', [enc(n, l), enc(d, l)], mop=mop))
                add(Case('sdiv.checked_div', [enc(n, l), enc(d, l)]))
                add(Case('sdiv.checked_div_floor', [enc(n, l), enc(d, l)]))
                add(Case('sdiv.div_expect.assign', [enc(n, l), enc(d, l)], mop='sdiv.div_expect', dbg=True))
            for d in [3, 1, 2, 8, M(l) - 1, M(l) >> 1, (M(l) >> 1) + 1, (M(l) >> 1) - 1]:
                for mop in ['sdiv.div_rem_uint', 'sdiv.div_rem_floor_uint']:
                    add(Case(mop, [enc(n, l), to_limbs(d, l)]))
                    add(Case(mop + '.vartime', [enc(n, l), to_limbs(d, l)], mop=mop))
            # every route at the quotient boundary: n in {MIN, MIN+1, MAX} divided by +-1 (MIN / -1 must be none / panic)
            if n in (smin(l), smin(l) + 1, smax(l)):
                for d in (-1, 1):
                    emit_int(n, d, l, l, False)
                emit_uint(n, 1, l, l, False)
            # zero divisor: every form that accepts one
            for mop, forms in INT_ANY.items():
                for f in forms:
                    add(Case(mop + f, [enc(n, l), enc(0, l)], mop=mop, dbg=('wrapper' in f)))
        reps = (34 if l <= 4 else 16) * scale
        for _ in range(reps):
            d = divisor(rng, l, False)
            n = dividend(rng, l, d)
            emit_int(n, d, l, l, False)
            d = divisor(rng, l, True)
            n = dividend(rng, l, d)
            emit_uint(n, d, l, l, False)
        # ---- mixed widths (vartime forms only)
        for r in NS:
            if r == l:
                continue
            for n in [smin(l), smax(l), -1, 0, 1]:
                for d in [smin(r), smax(r), -1, 1, 3, -3]:
                    emit_int(n, d, l, r, True)
                for d in [M(r) - 1, M(r) >> 1, 1, 3]:
                    emit_uint(n, d, l, r, True)
                add(Case('sdiv.checked_div.vartime', [enc(n, l), enc(0, r)], mop='sdiv.checked_div'))
                add(Case('sdiv.checked_div_floor.vartime', [enc(n, l), enc(0, r)], mop='sdiv.checked_div_floor'))
            for _ in range((8 if max(l, r) <= 4 else 5) * scale):
                d = divisor(rng, r, False)
                n = dividend(rng, l, d)
                emit_int(n, d, l, r, True)
                d = divisor(rng, r, True)
                n = dividend(rng, l, d)
                emit_uint(n, d, l, r, True)
    return cases
