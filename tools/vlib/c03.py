"""C03 generator: multiplication / squaring."""
from .common import Case
from .gen import *

EQ_NS = [1, 2, 3, 4, 5, 6, 7, 8, 9, 10, 11, 12, 16, 32, 64, 128]
MIXED = [(1, 2), (2, 1), (2, 4), (4, 2), (3, 5), (4, 8), (8, 4), (16, 8), (8, 16), (16, 32), (32, 16), (64, 32), (32, 64), (1, 16), (16, 1), (128, 64), (64, 128)]
WIDEN = [(1, 1), (2, 2), (3, 3), (4, 4), (8, 8), (16, 16), (32, 32), (64, 64), (1, 2), (2, 1), (1, 3), (3, 1), (2, 3), (4, 1), (7, 9), (9, 7), (15, 1)]
WSQ = [1, 2, 3, 4, 8, 16, 32, 64]

def halves(rng, n):
    """operand whose Karatsuba halves are in a chosen relation (x0 < x1, x0 > x1, equal, zero half, limb-aligned powers)"""
    if n < 2:
        return limbs(rng, n)
    h = n // 2
    k = rng.random()
    if k < 0.15:
        a = limbs(rng, h); return a + a + [limb(rng)] * (n - 2 * h)
    if k < 0.30:
        a = limbs(rng, h); return a + [0] * (n - h)
    if k < 0.40:
        a = limbs(rng, n - h); return [0] * h + a
    if k < 0.55:
        v = 0
        for _ in range(rng.randrange(1, 4)):
            v |= 1 << (64 * rng.randrange(n) + rng.choice([0, 0, 0, 63, rng.randrange(64)]))
        return to_limbs(v, n)
    if k < 0.70:
        lo = value(rng, h); hi = near(rng, lo, h) if h else 0
        return to_limbs(lo, h) + to_limbs(hi, h) + [limb(rng)] * (n - 2 * h)
    if k < 0.80:
        return [MAXW] * n
    return limbs(rng, n)

def fit_pair(rng, n, m):
    """pair whose product is near 2^(64n) (checked / saturating / panicking boundary)"""
    M = 1 << (64 * n)
    b = from_limbs(limbs(rng, m)) or 1
    if rng.random() < 0.3: b = rng.choice([1, 2, 3, 1 << 63, MAXW]) % (1 << (64 * m)) or 1
    a = (M + rng.choice([-1, 0, b - 1, b, -b])) // b
    a = max(0, min(M - 1, a + rng.choice([-1, 0, 0, 1])))
    return to_limbs(a, n), to_limbs(b, m)

def gen(tier, rng):
    scale = 1 if tier == 'quick' else 10
    cs = []; add = cs.append
    for _ in range(200 * scale):
        x, y = word(rng), word(rng)
        if rng.random() < 0.3:
            y = rng.choice([1, 2, 1 << 32, (1 << 32) - 1, (1 << 32) + 1]); x = (B // y) + rng.choice([-1, 0, 1])
            x = max(0, min(MAXW, x))
        for f in ['', '.trait', '.wrapper']: add(Case('limb.wrapping_mul' + f, [x, y], mop='limb.wrapping_mul'))
        add(Case('limb.saturating_mul', [x, y]))
        for f in ['', '.wrapper']: add(Case('limb.checked_mul' + f, [x, y], mop='limb.checked_mul'))
        for f in ['', '.ref']: add(Case('limb.mul' + f, [x, y], mop='limb.mul', dbg=True))
    for n in EQ_NS:
        reps = {1: 40, 2: 40, 3: 30, 4: 30, 16: 40, 32: 30, 64: 16, 128: 8}.get(n, 20) * scale
        for i in range(reps):
            if i % 3 == 0: x, y = fit_pair(rng, n, n)
            else: x, y = halves(rng, n), halves(rng, n)
            add(Case('uint.split_mul', [x, y], dbg=(i % 4 == 0)))
            for f in ['', '.trait', '.wrapper', '.wrapper_ref', '.wrapper_assign']:
                add(Case('uint.wrapping_mul' + f, [x, y], mop='uint.wrapping_mul'))
            add(Case('uint.saturating_mul', [x, y]))
            for f in ['', '.wrapper']: add(Case('uint.checked_mul' + f, [x, y], mop='uint.checked_mul'))
            for f in ['', '.vr', '.rv', '.rr', '.assign', '.assign_ref']: add(Case('uint.mul' + f, [x, y], mop='uint.mul'))
            s = halves(rng, n)
            if i % 3 == 0:
                import math
                t = math.isqrt((1 << (64 * n)) - 1) + rng.choice([-1, 0, 1, 2]); s = to_limbs(max(0, t), n)
            add(Case('uint.square_wide', [s], dbg=(i % 4 == 0)))
            add(Case('uint.wrapping_square', [s])); add(Case('uint.checked_square', [s])); add(Case('uint.saturating_square', [s]))
            # squaring equals multiplying the value by itself
            add(Case('uint.split_mul', [s, s]))
    for (n, m) in MIXED:
        reps = max(3, (12 if max(n, m) <= 16 else 4) * scale)
        for i in range(reps):
            x, y = (fit_pair(rng, n, m) if i % 3 == 0 else (halves(rng, n), halves(rng, m)))
            add(Case('uint.split_mul', [x, y])); add(Case('uint.wrapping_mul', [x, y])); add(Case('uint.saturating_mul', [x, y]))
            add(Case('uint.checked_mul', [x, y]))
            for f in ['', '.vr', '.rv', '.rr']: add(Case('uint.mul' + f, [x, y], mop='uint.mul'))
    for (n, m) in WIDEN:
        for _ in range(max(2, (8 if max(n, m) <= 16 else 3) * scale)):
            x, y = halves(rng, n), halves(rng, m)
            for f in ['', '.trait', '.trait_ref']: add(Case('uint.widening_mul' + f, [x, y], mop='uint.widening_mul'))
    for n in WSQ:
        for _ in range(max(2, (8 if n <= 16 else 3) * scale)):
            s = halves(rng, n)
            add(Case('uint.widening_square', [s])); add(Case('uint.widening_square.square', [s], mop='uint.widening_square'))
    # boxed: every length pair class incl. Karatsuba thresholds and trailing-limb paths
    special = [1, 2, 3, 24, 25, 31, 32, 33, 34, 35, 36, 47, 48, 49, 50, 51, 63, 64, 65, 66, 96, 97, 98, 99, 100, 128, 129, 130, 140]
    for i in range(140 * scale):
        la = rng.choice(special) if rng.random() < 0.75 else rng.randrange(1, 141)
        lb = rng.choice(special) if rng.random() < 0.75 else rng.randrange(1, 141)
        if rng.random() < 0.3: lb = max(1, min(140, la + rng.choice([-3, -2, -1, 0, 1, 2, 3])))
        x, y = halves(rng, la), halves(rng, lb)
        if rng.random() < 0.4:
            x = [rng.choice([0, MAXW, MAXW, 1]) for _ in range(la)]; y = [rng.choice([0, MAXW, MAXW, 1]) for _ in range(lb)]
        add(Case('boxed.mul', [x, y], dbg=(i % 5 == 0)))
        if i % 4 == 0:
            for f in ['.op_vv', '.op_vr', '.op_rv', '.trait', '.trait_ref', '.assign', '.assign_ref']:
                add(Case('boxed.mul' + f, [x, y], mop='boxed.mul'))
        for f in ['', '.trait', '.wrapper', '.wrapper_assign']: add(Case('boxed.wrapping_mul' + f, [x, y], mop='boxed.wrapping_mul'))
        add(Case('boxed.checked_mul', [x, y])); add(Case('boxed.mul_panicking.op_rr', [x, y], mop='boxed.mul_panicking'))
        if rng.random() < 0.4:
            xs, ys = fit_pair(rng, min(la, 40), min(lb, 40))
            add(Case('boxed.checked_mul', [xs, ys])); add(Case('boxed.mul_panicking.op_rr', [xs, ys], mop='boxed.mul_panicking'))
        ls = rng.choice([1, 2, 3, 47, 48, 49, 63, 64, 65, 66, 96, 97, 98, 100, 127, 128, 130, 140]) if rng.random() < 0.7 else rng.randrange(1, 141)
        s = halves(rng, ls)
        add(Case('boxed.square', [s], dbg=(i % 5 == 0)))
        add(Case('boxed.mul', [s, s]))
    return cs
