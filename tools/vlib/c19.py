"""C19 generator: random sampling driven by replayed RNG streams.

Every case carries the words the RNG will output (argument 0). Streams are built from the answer:
candidates equal to / one below / one above the modulus, top words equal to / one above the modulus'
top limb (early rejection), garbage above the mask, all zeros, all ones (never accepted), alternating
reject/accept runs, streams cut at every position (RNG error), plus pseudo-random streams."""
from .common import Case
from .gen import *

UINT_NS = [1, 2, 3, 4, 5, 6, 7, 8, 12, 16, 32]
U32MAX = (1 << 32) - 1

# compile-time moduli of harness/src/ops/c19.rs (ConstMontyForm)
MONTY = [
    (1, 0x3), (1, MAXW), (1, (1 << 63) + 1), (1, (1 << 32) + 1), (1, (1 << 63) - 1),
    (2, (1 << 64) + 1), (2, (MAXW << 64) + 1), (2, MAXW), (2, (1 << 64) + MAXW),
    (3, (1 << 128) + (MAXW << 64) + MAXW), (3, (8 << 64) + 1),
    (4, 0xffffffff00000001000000000000000000000000ffffffffffffffffffffffff),
    (4, (0x10001 << 192) + 1), (4, (1 << 255) + 1),
]

def prand(rng, k):
    return [rng.getrandbits(64) for _ in range(k)]

def junk(rng):
    return [rng.choice([0, MAXW, rng.getrandbits(64)]) for _ in range(rng.randrange(0, 3))]

# ------------------------------------------------------------------ moduli
def top_limbs(rng):
    j = rng.randrange(1, 64)
    return [1, 2, 3, MAXW, MAXW - 1, 1 << 63, (1 << 63) - 1, (1 << 63) + 1, 1 << j, (1 << j) - 1, (1 << j) + 1,
            rng.getrandbits(64) | 1, rng.getrandbits(rng.randrange(1, 65)) | 1]

def moduli(rng, n):
    """Moduli of n limbs: nl significant limbs (nl <= n), top limb from the boundary alphabet, low limbs 0 / MAX / mixed."""
    out = []
    for nl in sorted(set([1, 2, n - 1, n]) & set(range(1, n + 1))):
        for top in top_limbs(rng):
            k = rng.random()
            if k < 0.3: lows = [0] * (nl - 1)
            elif k < 0.6: lows = [MAXW] * (nl - 1)
            elif k < 0.8: lows = [rng.choice([0, MAXW, 1, MAXW - 1]) for _ in range(nl - 1)]
            else: lows = limbs(rng, nl - 1)
            out.append(lows + [top] + [0] * (n - nl))
    return out

class ModInfo:
    def __init__(self, ml):
        self.ml = ml
        self.m = from_limbs(ml)
        self.k = self.m.bit_length()
        self.nl = (self.k + 63) // 64
        self.tb = self.k - 64 * (self.nl - 1)
        self.himod = self.m >> (64 * (self.nl - 1))
        self.mask = (1 << self.tb) - 1

def cand(mi, v, rng, garbage=True):
    """Stream words of the candidate with value v (< 2^k): top word first, then the low limbs. A candidate whose
    top word exceeds the modulus' top limb is rejected after that single word."""
    hi = v >> (64 * (mi.nl - 1))
    raw = hi
    if garbage and mi.tb < 64:
        g = rng.choice([0, (1 << (64 - mi.tb)) - 1, 1, rng.getrandbits(64 - mi.tb)])
        raw = hi | (g << mi.tb)
    if hi > mi.himod:
        return [raw]
    return [raw] + to_limbs(v, mi.nl - 1)

def clip(mi, v):
    return max(0, min((1 << mi.k) - 1, v))

def rejected(mi, rng):
    """values >= m representable in k bits (empty when m = 2^k - 1 ... no: m itself is always representable)"""
    sh = 64 * (mi.nl - 1)
    vs = [mi.m, clip(mi, mi.m + 1), (1 << mi.k) - 1, clip(mi, (mi.himod << sh) | ((1 << sh) - 1)),
          clip(mi, (mi.himod + 1) << sh), clip(mi, ((mi.himod + 1) << sh) | ((1 << sh) - 1)),
          clip(mi, mi.m + (1 << sh)), clip(mi, mi.m + (1 << max(0, sh - 64))), (mi.mask << sh)]
    vs = [v for v in vs if v >= mi.m]
    if mi.m < (1 << mi.k) - 1:
        vs.append(rng.randrange(mi.m, 1 << mi.k))
    return vs

def accepted(mi, rng):
    sh = 64 * (mi.nl - 1)
    vs = [0, mi.m - 1, max(0, mi.m - 2), mi.himod << sh, max(0, (mi.himod << sh) - 1), max(0, mi.m - (1 << sh)),
          ((mi.himod - 1) << sh) | ((1 << sh) - 1) if mi.himod > 0 else 0, 1 % mi.m, rng.randrange(mi.m)]
    return [v for v in vs if 0 <= v < mi.m]

def mod_streams(mi, rng, count):
    """(stream, terminates) pairs"""
    out = []
    acc = accepted(mi, rng); rej = rejected(mi, rng)
    # single candidates, each boundary value
    for v in acc:
        out.append((cand(mi, v, rng) + junk(rng), True))
    for v in rej:
        out.append((cand(mi, v, rng) + cand(mi, rng.choice(acc), rng) + junk(rng), True))
    # run of rejections, then accept / then nothing
    for _ in range(count):
        s = []
        for _ in range(rng.randrange(1, 6)):
            s += cand(mi, rng.choice(rej), rng)
        if rng.random() < 0.8:
            out.append((s + cand(mi, rng.choice(acc), rng) + junk(rng), True))
        else:
            out.append((s, False))
    # alternating reject / would-be-accept words: a rejected candidate swallows the following words as its low limbs
    s = []
    for i in range(2 * mi.nl + 3):
        s += cand(mi, rng.choice(rej if i % 2 == 0 else acc), rng, garbage=False)[:rng.randrange(1, mi.nl + 1)]
    out.append((s + [0] * mi.nl, True))
    # all zeros, all ones, words equal to / one above the top limb, pseudo-random
    out.append(([0] * (mi.nl + rng.randrange(0, 2)), True))
    out.append(([MAXW] * rng.randrange(1, 3 * mi.nl + 2), False))
    out.append(([mi.himod] * (3 * mi.nl) + [0] * mi.nl, True))
    out.append(([(mi.himod + 1) & MAXW] * (3 * mi.nl) + [0] * mi.nl, True))
    out.append(([mi.himod, (mi.himod + 1) & MAXW] * mi.nl + [0] * mi.nl, True))
    out.append((prand(rng, 4 * mi.nl + 4) + [0] * mi.nl, True))
    # cut a terminating stream at every position
    base = cand(mi, rng.choice(rej), rng) + cand(mi, rng.choice(acc), rng)
    for cut in range(len(base)):
        out.append((base[:cut], False))
    return out

MOD_ROUTES_UINT = [('', 1), ('.infallible', 0), ('.try_infallible', 0), ('.dyn', 0)]
MOD_ROUTES_BOXED = [('', 1), ('.infallible', 0), ('.try_infallible', 0), ('.dyn', 0)]

def gen_random_mod(add, tier, rng, scale):
    for n in UINT_NS:
        mods = moduli(rng, n)
        for _ in range(0 if tier == 'quick' else 3):
            mods += moduli(rng, n)
        if n > 8:
            mods = rng.sample(mods, 8 * scale if 8 * scale < len(mods) else len(mods))
        for ml in mods:
            mi = ModInfo(ml)
            streams = mod_streams(mi, rng, 2 * scale if n <= 4 else scale)
            for (s, term) in streams:
                routes = [('uint.random_mod', '', 1), ('boxed.random_mod', '', 1)]
                if term or rng.random() < 0.15:
                    # the infallible forms panic when the stream runs out
                    r1 = rng.choice(MOD_ROUTES_UINT[1:]); r2 = rng.choice(MOD_ROUTES_BOXED[1:])
                    routes += [('uint.random_mod', r1[0], 0), ('boxed.random_mod', r2[0], 0)]
                for (mop, rt, fl) in routes:
                    add(Case(mop + rt, [s, ml, fl], mop=mop, dbg=True, tags=('n%d' % n,)))
    # boxed moduli of other precisions
    for _ in range(30 * scale):
        n = rng.choice([9, 10, 11, 13, 17, 20])
        ml = rng.choice(moduli(rng, n))
        mi = ModInfo(ml)
        for (s, term) in rng.sample(mod_streams(mi, rng, 1), 6):
            add(Case('boxed.random_mod', [s, ml, 1], dbg=True))
            if term:
                add(Case('boxed.random_mod.infallible', [s, ml, 0], mop='boxed.random_mod', dbg=True))
    # ConstMontyForm: Random = random_mod below the compile-time modulus; NonZero<ConstMontyForm> rejects zero
    for (n, m) in MONTY:
        ml = to_limbs(m, n)
        mi = ModInfo(ml)
        for (s, term) in mod_streams(mi, rng, scale):
            add(Case('uint.random_mod.const_monty', [s, ml, 1], mop='uint.random_mod', dbg=True))
            if term:
                add(Case('uint.random_mod.const_monty_infallible', [s, ml, 0], mop='uint.random_mod', dbg=True))
            # zero candidates in front: rejected by NonZero
            z = []
            for _ in range(rng.randrange(0, 3)):
                z += cand(mi, 0, rng)
            add(Case('nonzero_monty.random', [z + s, ml, 1], dbg=True))
            if term:
                tail = cand(mi, 1 % m if m > 1 else 0, rng)
                add(Case('nonzero_monty.random.infallible', [z + s + tail + tail, ml, 0], mop='nonzero_monty.random', dbg=True))

# ------------------------------------------------------------------ Limb::random_mod
def gen_limb_mod(add, tier, rng, scale):
    ms = set([1, 2, 3, 4, 5, 255, 256, 257, 65535, 65536, 65537, (1 << 24) - 1, 1 << 24, (1 << 24) + 1,
              (1 << 32) - 1, 1 << 32, (1 << 32) + 1, (1 << 40) - 1, 1 << 40, (1 << 40) + 1, 1 << 63, (1 << 63) - 1,
              (1 << 63) + 1, MAXW, MAXW - 1])
    for j in range(0, 64):
        ms.update([1 << j, (1 << j) + 1, max(1, (1 << j) - 1)])
    for _ in range(20 * scale):
        ms.add(rng.getrandbits(rng.randrange(1, 65)) | 1)
    for m in sorted(ms):
        k = m.bit_length()
        def raw(v):
            g = rng.choice([0, (1 << (64 - k)) - 1, rng.getrandbits(64 - k)]) if k < 64 else 0
            return v | (g << k)
        top = (1 << k) - 1
        acc = sorted(set(v for v in [0, m - 1, max(0, m - 2), m // 2, 1 % m] if v < m))
        rej = sorted(set(v for v in [m, min(top, m + 1), top, min(top, m | 0xff), min(top, m + 256)] if v >= m))
        streams = []
        for v in acc:
            streams.append(([raw(v)] + junk(rng), True))
        for v in rej:
            streams.append(([raw(v), raw(rng.choice(acc))] + junk(rng), True))
        streams.append(([raw(rng.choice(rej)) for _ in range(rng.randrange(1, 6))] + [raw(rng.choice(acc))], True))
        streams.append(([raw(rng.choice(rej)) for _ in range(rng.randrange(1, 4))], False))
        streams.append(([MAXW] * 3, False))
        streams.append(([], False))
        streams.append(([0], True))
        streams.append((prand(rng, 6) + [0], True))
        # byte-wise boundary: differ from m only in one byte
        for b in range((k + 7) // 8):
            v = (m ^ (0xff << (8 * b))) & top
            streams.append(([raw(v), 0], True))
        for (s, term) in streams:
            add(Case('limb.random_mod', [s, m, 1], dbg=True))
            if term:
                rt = rng.choice(['.infallible', '.dyn'])
                add(Case('limb.random_mod' + rt, [s, m, 0], mop='limb.random_mod', dbg=True))

# ------------------------------------------------------------------ Random / NonZero / Odd
def word_stream(rng, k):
    c = rng.random()
    if c < 0.15: return [0] * k
    if c < 0.30: return [MAXW] * k
    if c < 0.55: return prand(rng, k)
    return [limb(rng) for _ in range(k)]

def gen_random(add, tier, rng, scale):
    for _ in range(20 * scale):
        for (rt, fl) in [('', 1), ('.infallible', 0), ('.dyn', 0), ('.wrapping', 1), ('.wrapping_infallible', 0)]:
            s = word_stream(rng, rng.choice([0, 1, 1, 2, 3]))
            if fl == 0 and not s:
                s = [limb(rng)] if rng.random() < 0.8 else s
            add(Case('limb.random' + rt, [s, fl], mop='limb.random', dbg=True))
    UR = [('', 1), ('.infallible', 0), ('.try_infallible', 0), ('.dyn', 0), ('.unwrap_err', 0), ('.int', 1),
          ('.int_infallible', 0), ('.wrapping', 1), ('.wrapping_infallible', 0)]
    for n in UINT_NS:
        for _ in range(6 * scale):
            for (rt, fl) in UR:
                k = rng.choice([n, n, n, n + 1, n + 2, n - 1, 0, rng.randrange(0, n + 1)])
                if fl == 0 and rng.random() < 0.9: k = max(k, n)
                s = word_stream(rng, k)
                add(Case('uint.random' + rt, [s, n, fl], mop='uint.random', dbg=True))
        # NonZero: zero blocks first; blocks that are zero except for one limb
        NR = [('', 1), ('.infallible', 0), ('.int', 1), ('.int_infallible', 0), ('.wrapping', 1)]
        if n == 1:
            NR += [('.limb', 1), ('.limb_infallible', 0)]
        for _ in range(6 * scale):
            for (rt, fl) in NR:
                zb = rng.choice([0, 0, 1, 2, 3])
                s = [0] * (n * zb)
                c = rng.random()
                if c < 0.5:
                    blk = [0] * n; blk[rng.choice([0, n - 1, rng.randrange(n)])] = rng.choice([1, MAXW, 1 << 63, limb(rng) or 1])
                    s += blk
                elif c < 0.8:
                    s += [limb(rng) or 1 for _ in range(n)]
                elif c < 0.9 and fl == 1:
                    s += [0] * rng.randrange(0, n)            # runs out inside a block
                elif fl == 1:
                    pass                                          # only zero blocks: runs out
                else:
                    s += [1] * n
                s += junk(rng)
                add(Case('nonzero_uint.random' + rt, [s, n, fl], mop='nonzero_uint.random', dbg=True))
        for _ in range(6 * scale):
            for (rt, fl) in [('', 1), ('.infallible', 0)]:
                k = n if (fl == 0 or rng.random() < 0.8) else rng.randrange(0, n)
                s = word_stream(rng, k)
                if s and rng.random() < 0.5: s[0] = rng.choice([0, 1, 2, MAXW, MAXW - 1, 1 << 63, s[0] & ~1, s[0] | 1])
                add(Case('odd_uint.random' + rt, [s + junk(rng), n, fl], mop='odd_uint.random', dbg=True))

# ------------------------------------------------------------------ RandomBits
def bits_stream(rng, k, kind):
    if kind == 0: return [MAXW] * k
    if kind == 1: return prand(rng, k)
    if kind == 2: return [0] * k
    if kind == 3:  # distinct halves: shows which half / which word a limb came from
        return [(((0xA0 + i) << 56) | ((0x50 + i) << 24) | 0x00ffffff00ffffff) & MAXW for i in range(k)]
    return [limb(rng) for _ in range(k)]

def gen_random_bits(add, tier, rng, scale):
    UB = [('', 0), ('.try', 0), ('.panicking', 1), ('.prec', 1), ('.infallible_rng', 1), ('.int', 0), ('.int_try', 0),
          ('.int_panicking', 1), ('.int_prec', 1), ('.errfields', 2), ('.int_errfields', 2)]
    BB = [('', 0), ('.try', 0), ('.panicking', 1), ('.prec', 1), ('.infallible_rng', 1), ('.errfields', 2)]
    for n in UINT_NS:
        bits = 64 * n
        if n <= (4 if tier == 'quick' else 8):
            bls = list(range(0, bits + 1))
        else:
            bls = sorted(set([0, 1, 2, 31, 32, 33, 63, 64, 65, 95, 96, 97, 127, 128, 129, bits - 65, bits - 64, bits - 63,
                              bits - 33, bits - 32, bits - 31, bits - 1, bits] + [rng.randrange(0, bits + 1) for _ in range(12 * scale)]))
        for bl in bls:
            nz = (bl + 63) // 64
            for kind in ([0, 1, 3] if n <= 4 else [0, 1]):
                s = bits_stream(rng, nz, kind) + junk(rng)
                # fixed: try form with the right precision; boxed with the same precision (fixed == boxed) and with bl itself
                add(Case('uint.random_bits', [s, n, bl, bits, 0], dbg=True, tags=('n%d' % n,)))
                add(Case('boxed.random_bits', [s, bl, bits, 0], dbg=True))
                rt, mode = rng.choice(UB)
                add(Case('uint.random_bits' + rt, [s, n, bl, bits, mode], mop='uint.random_bits', dbg=True))
                rt, mode = rng.choice(BB)
                prec = bl if rt in ('.try', '.panicking') else rng.choice([bl, bits, bits - 1 if bits - 1 >= bl else bits, bl + 1, 64 * nz])
                add(Case('boxed.random_bits' + rt, [s, bl, prec, mode], mop='boxed.random_bits', dbg=True))
            if nz > 0:
                # the stream ends one word early
                s = bits_stream(rng, nz - 1, rng.choice([0, 1, 4]))
                rt, mode = rng.choice(UB)
                add(Case('uint.random_bits' + rt, [s, n, bl, bits, mode], mop='uint.random_bits', dbg=True))
                rt, mode = rng.choice(BB)
                add(Case('boxed.random_bits' + rt, [s, bl, bl, mode], mop='boxed.random_bits', dbg=True))
        # error conditions: length above BITS, precision different from BITS (with lengths on both sides)
        for _ in range(12 * scale):
            bl = rng.choice([bits + 1, bits + 2, bits + 31, bits + 32, bits + 33, bits + 63, bits + 64, bits + 65, 2 * bits, U32MAX, U32MAX - 1,
                             rng.randrange(bits + 1, 4 * bits + 2)])
            s = bits_stream(rng, rng.choice([0, n, n + 1, (bl + 63) // 64 if bl < 10000 else n + 2]), rng.choice([0, 1, 2]))
            for (rt, mode) in UB:
                add(Case('uint.random_bits' + rt, [s, n, bl, bits, mode], mop='uint.random_bits', dbg=True))
        for _ in range(16 * scale):
            prec = rng.choice([0, 1, bits - 64, bits - 1, bits + 1, bits + 64, bits // 2, 2 * bits, U32MAX, 64, 63, 65])
            if prec == bits: continue
            bl = rng.choice([0, 1, prec, min(U32MAX, prec + 1), max(0, prec - 1), bits, bits + 1, bits - 1, rng.randrange(0, bits + 1)])
            s = bits_stream(rng, rng.choice([0, n, n + 1]), rng.choice([0, 1, 2]))
            for (rt, mode) in [x for x in UB if x[0] in ('', '.prec', '.infallible_rng', '.int', '.int_prec', '.errfields', '.int_errfields')]:
                add(Case('uint.random_bits' + rt, [s, n, bl, prec, mode], mop='uint.random_bits', dbg=True))
    # boxed: precisions that are not whole limbs, lengths around the precision and around multiples of 32
    for _ in range(150 * scale):
        prec = rng.choice([0, 1, 31, 32, 33, 63, 64, 65, 96, 127, 128, 129, 160, 191, 192, 193, 255, 256, 257, 320, 1000, 2048,
                           rng.randrange(0, 700)])
        bl = rng.choice([0, 1, prec, prec + 1, prec + 63, prec + 64, prec + 65, max(0, prec - 1), max(0, prec - 31), max(0, prec - 32),
                         max(0, prec - 33), max(0, prec - 63), max(0, prec - 64), max(0, prec - 65),
                         32 * rng.randrange(0, prec // 32 + 1), rng.randrange(0, prec + 1), U32MAX])
        nz = (bl + 63) // 64 if bl <= prec else 1
        s = bits_stream(rng, rng.choice([nz, nz, nz, nz + 1, max(0, nz - 1)]), rng.choice([0, 1, 2, 3, 4]))
        for (rt, mode) in BB:
            if rt in ('.try', '.panicking'):
                if bl > 5000: continue
                add(Case('boxed.random_bits' + rt, [s, bl, bl, mode], mop='boxed.random_bits', dbg=True))
            else:
                add(Case('boxed.random_bits' + rt, [s, bl, prec, mode], mop='boxed.random_bits', dbg=True))
    # Odd<BoxedUint>::random(rng, bit_length)
    for bl in list(range(0, 200)) + [255, 256, 257, 511, 512, 513, 1024]:
        nz = (bl + 63) // 64
        for kind in (0, 1, 2, 4):
            s = bits_stream(rng, nz, kind)
            if s and rng.random() < 0.4: s[0] &= ~1
            add(Case('odd_boxed.random', [s + junk(rng), bl], dbg=True))
        add(Case('odd_boxed.random.infallible_rng', [bits_stream(rng, nz, 1), bl], mop='odd_boxed.random', dbg=True))
        if nz > 0:
            add(Case('odd_boxed.random', [bits_stream(rng, nz - 1, 1), bl], dbg=True))

def gen(tier, rng):
    scale = 1 if tier == 'quick' else 10
    cases = []
    add = cases.append
    gen_random_mod(add, tier, rng, scale)
    gen_limb_mod(add, tier, rng, scale)
    gen_random(add, tier, rng, scale)
    gen_random_bits(add, tier, rng, scale)
    return cases

ASSUMPTIONS = [
    'the RNG is modelled as a finite list of 64-bit words consumed by a block-less rand_core 0.9 generator '
    '(next_u32 = low half of one word, fill_bytes = fill_bytes_via_next); other RNG designs may split bytes differently',
    'uniformity is a counting theorem about one acceptance round (equal number of raw preimages per value), not a statistic',
]
