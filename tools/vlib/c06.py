"""C06 generator: comparison / equality / hash / conditional selection forms.
Pairs are built from the answer: equal, differing in exactly one limb (lowest / middle / highest) with every
other limb equal or adversarial, differing only in the sign bit, neighbours across a limb boundary, 0 / MIN / MAX,
zero-padded equal boxed values of different precision."""
from .common import Case
from .gen import *

NS = [1, 2, 3, 4, 5, 6, 8, 12, 16, 32]
H = 1 << 63

# ---------------------------------------------------------------- operand builders
def wpair(rng):
    """A pair of words around every branch of the Hacker's Delight predicates."""
    k = rng.random()
    x = word(rng)
    if k < 0.14: return x, x
    if k < 0.26: return x, (x + rng.choice([1, -1, 2, -2])) % B
    if k < 0.34: return x, x ^ H                                   # differ only in the top bit
    if k < 0.40: return x, x ^ (1 << rng.randrange(64))            # differ in one bit
    if k < 0.46: return x, (x + H + rng.choice([-1, 0, 1])) % B    # distance 2^63 -+ 1
    if k < 0.52: return rng.choice([0, 1, H - 1, H, H + 1, MAXW - 1, MAXW]), rng.choice([0, 1, H - 1, H, H + 1, MAXW - 1, MAXW])
    if k < 0.58:
        lo = rng.getrandbits(63); return lo, lo | H                 # same low bits, msb 0 / 1
    if k < 0.64: return x, (B - x) % B
    if k < 0.70: return x, MAXW - x
    return x, word(rng)

def one_limb_diff(rng, a, i):
    """b = a with limb i replaced so that the two differ exactly there (several distances)."""
    b = list(a)
    x = a[i]
    k = rng.random()
    if k < 0.3: y = (x + rng.choice([1, -1])) % B
    elif k < 0.45: y = x ^ H
    elif k < 0.6: y = x ^ (1 << rng.randrange(64))
    elif k < 0.7: y = MAXW - x
    elif k < 0.8: y = (x + H) % B
    else:
        y = word(rng)
    if y == x: y = (x + 1) % B
    b[i] = y
    return b

def upair(rng, n):
    """Pair of n-limb values with a known relation."""
    k = rng.random()
    a = limbs(rng, n)
    if k < 0.14: b = list(a)
    elif k < 0.22: b = one_limb_diff(rng, a, 0)
    elif k < 0.32: b = one_limb_diff(rng, a, n - 1)
    elif k < 0.40: b = one_limb_diff(rng, a, rng.randrange(n))
    elif k < 0.46: b = list(a); b[n - 1] ^= H                      # only the sign bit
    elif k < 0.56:
        # neighbours: a +- 1 / +- 2 with the carry running through whole limbs
        v = from_limbs(a)
        if rng.random() < 0.6:
            j = rng.randrange(n)
            v = (v >> (64 * j)) << (64 * j)                         # low limbs zero: v - 1 borrows through them
            if v == 0 and rng.random() < 0.5: v = 1 << (64 * j)
            a = to_limbs(v, n)
        b = to_limbs((v + rng.choice([1, -1, -1, 2, -2])) % (1 << (64 * n)), n)
    elif k < 0.64:
        # crossing: the low part orders one way, one higher limb the other way
        b = limbs(rng, n)
        if n >= 2:
            j = rng.randrange(1, n)
            b[j:] = a[j:]
            b = one_limb_diff(rng, b, j)
            lo_a, lo_b = a[0], b[0]
            if (b[j] > a[j]) == (lo_b > lo_a): a[0], b[0] = lo_b, lo_a
            if a[0] == b[0]: a[0] = (a[0] + 1) % B
    elif k < 0.72:
        # extremes of the unsigned and signed range
        ext = [[0] * n, [MAXW] * n, [0] * (n - 1) + [H], [MAXW] * (n - 1) + [H - 1], [1] + [0] * (n - 1),
               [MAXW] * (n - 1) + [MAXW - 1], [MAXW - 1] + [MAXW] * (n - 1), [1] + [0] * (n - 2) + [H] if n > 1 else [H + 1],
               [MAXW] + [0] * (n - 1), [0] * (n - 1) + [1]]
        a = list(rng.choice(ext)); b = list(rng.choice(ext)) if rng.random() < 0.7 else limbs(rng, n)
    elif k < 0.80:
        # equal high limbs (random), low limbs all different: the borrow must travel through the equal part
        j = rng.randrange(n)
        b = [word(rng) for _ in range(j)] + a[j:]
        if j: a = [word(rng) for _ in range(j)] + a[j:]
    elif k < 0.86:
        # xor of the differences cancels / OR accumulates: two limbs differ by the same mask
        b = list(a); m = word(rng) or 1
        for j in rng.sample(range(n), min(n, 2)): b[j] ^= m
    else:
        b = limbs(rng, n)
    if rng.random() < 0.5: a, b = b, a
    return a, b

def bpair(rng):
    """BoxedUint pair, equal or different precision (1..12 limbs, sometimes longer)."""
    n = rng.choice([1, 2, 3, 4, 5, 8]) if rng.random() < 0.8 else rng.randrange(1, 20)
    if rng.random() < 0.4:
        return upair(rng, n)
    m = rng.choice([1, 2, 3, 4, 5, 8, 9]) if rng.random() < 0.8 else rng.randrange(1, 20)
    lo, hi = min(n, m), max(n, m)
    k = rng.random()
    a, b = upair(rng, lo)
    ext = hi - lo
    if k < 0.45:
        b = b + [0] * ext                                           # zero-padded: same relation as the short pair
    elif k < 0.6:
        b = b + [0] * (ext - 1) + [rng.choice([1, H, MAXW, word(rng) or 1])] if ext else b
    elif k < 0.75:
        j = rng.randrange(ext) if ext else 0
        b = b + [0] * ext
        if ext: b[lo + j] = rng.choice([1, H, MAXW])
    else:
        b = b + [word(rng) for _ in range(ext)]
    if rng.random() < 0.5: a, b = b, a
    return a, b

def single(rng, n):
    k = rng.random()
    if k < 0.1: return [0] * n
    if k < 0.2: return [1] + [0] * (n - 1)
    if k < 0.28: return [0] * (n - 1) + [1] if n > 1 else [2]
    if k < 0.34: return [1] + [0] * (n - 2) + [1] if n > 1 else [3]
    if k < 0.40: return [1, 1] + [0] * (n - 2) if n > 1 else [H]
    if k < 0.46: return [0] * (n - 1) + [H]
    if k < 0.52: return [MAXW] * (n - 1) + [H - 1]
    if k < 0.56: return [MAXW] * n
    if k < 0.62:
        j = rng.randrange(n); v = [0] * n; v[j] = rng.choice([1, H, 1 << 32, 1 << 8, 1 << 1, 0x100, word(rng)]); return v
    if k < 0.66: return [2] + [0] * (n - 1)
    if k < 0.70: return [H] + [0] * (n - 1)
    if k < 0.74: return [rng.choice([0x100, 0x101, 0xFF, 0xFE, 0x1FE, 0x1FF])] + [0] * (n - 1)
    return limbs(rng, n)

def isingle(rng, n):
    """Signed boundary values: MIN, MIN+1, -2, -1, 0, 1, 2, MAX-1, MAX and their unsigned neighbours."""
    M = 1 << (64 * n - 1)
    if rng.random() < 0.55:
        v = rng.choice([M, M + 1, M - 1, M - 2, 2 * M - 1, 2 * M - 2, 0, 1, 2, M | 1, M >> 1, (M >> 1) - 1,
                        M + (1 << 64 * (n - 1)), M - (1 << 64 * (n - 1)) if n > 1 else M - 3])
        return to_limbs(v % (2 * M), n)
    return single(rng, n)

# ---------------------------------------------------------------- route tables (rust op -> model op)
REL = ['lt', 'le', 'gt', 'ge']
LIMB_BIN = {
    'limb.ct_eq': ['', '.op', '.op_ne'], 'limb.ct_ne': [''], 'limb.eq_vartime': [''],
    'limb.ct_lt': [''], 'limb.ct_gt': [''], 'limb.cmp': ['', '.partial'], 'limb.cmp_vartime': [''],
    'limb.lt': [''], 'limb.le': [''], 'limb.gt': [''], 'limb.ge': [''], 'limb.hash': [''],
}
UINT_BIN = {
    'uint.ct_eq': ['', '.ne_not', '.op', '.op_ne', '.wrapping', '.wrapping_op', '.nz', '.nz_op', '.odd_mixed', '.checked', '.odd'],
    'uint.ct_lt': [''], 'uint.ct_gt': [''],
    'uint.cmp': ['', '.partial', '.wrapping', '.nz', '.odd_mixed'], 'uint.cmp_vartime': [''],
    'uint.lt': [''], 'uint.le': [''], 'uint.gt': [''], 'uint.ge': [''], 'uint.hash': [''],
}
INT_BIN = {
    'int.ct_eq': ['', '.ne_not', '.op', '.op_ne'], 'int.ct_lt': [''], 'int.ct_gt': [''],
    'int.cmp': ['', '.partial'], 'int.cmp_vartime': [''],
    'int.lt': [''], 'int.le': [''], 'int.gt': [''], 'int.ge': [''], 'int.hash': [''],
}
BOXED_BIN = {
    'boxed.ct_eq': ['', '.ne_not', '.op', '.op_ne', '.odd_mixed', '.nz_op'], 'boxed.ct_lt': [''], 'boxed.ct_gt': [''],
    'boxed.cmp': ['', '.partial', '.odd_mixed', '.nz'],
    'boxed.lt': [''], 'boxed.le': [''], 'boxed.gt': [''], 'boxed.ge': [''],
}
SEL = {
    'limb.select': ['', '.ct', '.assign', '.ct_assign'], 'limb.swap': ['', '.ct'],
    'uint.select': ['', '.ct', '.assign', '.ct_assign', '.wrapping', '.nz', '.odd', '.checked'], 'uint.swap': ['', '.ct'],
    'int.select': ['', '.ct', '.assign', '.ct_assign'], 'int.swap': ['', '.ct'],
    'boxed.select': ['', '.assign'], 'boxed.swap': [''],
}
UINT_UN = {
    'uint.is_zero': ['', '.num', '.wrapping', '.wrapping_num'], 'uint.is_one': [''], 'uint.is_odd': [''], 'uint.is_even': [''],
    'uint.to_nz': [''], 'uint.to_odd': [''], 'uint.nz_new': [''], 'uint.odd_new': [''],
}
INT_UN = {
    'int.is_zero': ['', '.num'], 'int.is_one': [''], 'int.is_negative': [''], 'int.is_positive': [''],
    'int.is_min': [''], 'int.is_max': [''], 'int.to_nz': [''], 'int.to_odd': [''], 'int.abs_sign': ['', '.abs'],
}
BOXED_UN = {
    'boxed.is_zero': ['', '.trait', '.num'], 'boxed.is_nonzero': [''], 'boxed.is_one': ['', '.num'],
    'boxed.is_odd': [''], 'boxed.is_even': [''], 'boxed.to_odd': ['', '.new'], 'boxed.nz_new': [''],
}
LIMB_UN = {
    'limb.is_zero': ['', '.num'], 'limb.is_one': [''], 'limb.is_odd': [''], 'limb.to_nz': ['', '.new'],
    'limb.nz_new_unwrap': [''],
}

def emit(cases, table, args, prefix=None, dbg=True, tags=()):
    for mop, forms in table.items():
        if prefix and not mop.startswith(prefix):
            continue
        for f in forms:
            cases.append(Case(mop + f, args, mop=mop, dbg=dbg, tags=tags))

def gen(tier, rng):
    scale = 1 if tier == 'quick' else 10
    cases = []
    add = cases.append
    # ---- Limb
    for _ in range(220 * scale):
        x, y = wpair(rng)
        emit(cases, LIMB_BIN, [x, y])
        for c in (0, 1):
            emit(cases, SEL, [x, y, c], prefix='limb.')
    WORDS1 = [0, 1, 2, 3, 0xFF, 0x100, 0x101, 0xFE, H, H - 1, H + 1, MAXW, MAXW - 1, 1 << 32, 1 << 8]
    for x in WORDS1 + [word(rng) for _ in range(40 * scale)]:
        emit(cases, LIMB_UN, [x])
        for c in (0, 1):
            add(Case('limb.conditional_negate', [x, c], mop='limb.conditional_negate', dbg=True))
    # ---- Uint<N>, Int<N>
    for n in NS:
        reps = (22 if n <= 8 else 12) * scale
        for _ in range(reps):
            a, b = upair(rng, n)
            emit(cases, UINT_BIN, [a, b], dbg=(n <= 4))
            a, b = upair(rng, n)
            emit(cases, INT_BIN, [a, b], dbg=(n <= 4))
        for _ in range(max(4, reps // 3)):
            a, b = upair(rng, n)
            for c in (0, 1):
                emit(cases, SEL, [a, b, c], prefix='uint.', dbg=False)
                emit(cases, SEL, [a, b, c], prefix='int.', dbg=False)
            # ConstCtOption<Uint>: x, def, is_some
            for c in (0, 1):
                for f in ['', '.ct', '.as_int']:
                    add(Case('uint.ctopt' + f, [a, b, c], mop='uint.ctopt'))
                for f in ['', '.unwrap']:
                    add(Case('uint.ctopt_expect' + f, [a, c], mop='uint.ctopt_expect'))
        for _ in range(reps):
            a = single(rng, n)
            emit(cases, UINT_UN, [a], dbg=False)
            a = isingle(rng, n)
            emit(cases, INT_UN, [a], dbg=False)
            a = single(rng, n)
            for c in (0, 1):
                add(Case('uint.neg_if', [a, c], mop='uint.neg_if'))
                add(Case('uint.conditional_negate', [a, c], mop='uint.conditional_negate'))
                add(Case('int.neg_if', [a, c], mop='int.neg_if'))
        # new_from_abs_sign around the two limits 2^(BITS-1) - 1 | 2^(BITS-1) | 2^(BITS-1) + 1
        M = 1 << (64 * n - 1)
        absl = [0, 1, M - 1, M, M + 1, 2 * M - 1, M >> 1, M | 1, M + (1 << 64 * (n - 1)) if n > 1 else M + 2]
        for _ in range(6 * scale):
            absl.append(value(rng, n))
        for v in absl:
            d = limbs(rng, n)
            for neg in (0, 1):
                for f in ['', '.ct']:
                    add(Case('int.new_from_abs_sign' + f, [to_limbs(v % (2 * M), n), neg, d], mop='int.new_from_abs_sign'))
                for f in ['', '.unwrap']:
                    add(Case('int.new_from_abs_sign_expect' + f, [to_limbs(v % (2 * M), n), neg], mop='int.new_from_abs_sign_expect'))
    # ---- BoxedUint
    for _ in range(420 * scale):
        a, b = bpair(rng)
        same = len(a) == len(b)
        emit(cases, BOXED_BIN, [a, b])
        add(Case('boxed.hash', [a, b], mop='boxed.hash', dbg=True))
        add(Case('boxed.cmp_vartime', [a, b], mop='boxed.cmp_vartime', dbg=True))
        # DEFECT (open finding F16): BoxedUint ct_select / ct_assign / ct_swap on operands of different precision:
        # release builds return a truncated operand or, for ct_swap, a mixture of both operands
        # ([1],[2,3] -> [2],[1,3]), or panic on an index; debug builds hit a debug_assert. The class is emitted
        # with the tag known:F16 (matcher f16_boxed_ct_select_precision); every other disagreement still alarms.
        for c in (0, 1):
            emit(cases, SEL, [a, b, c], prefix='boxed.', tags=() if same else ('known:F16',))
            if same:
                add(Case('boxed.select.default_assign', [a, b, c], mop='boxed.select', dbg=True))
                add(Case('boxed.swap.default', [a, b, c], mop='boxed.swap', dbg=True))
    for _ in range(160 * scale):
        n = rng.choice([1, 2, 3, 4, 5, 8]) if rng.random() < 0.8 else rng.randrange(1, 24)
        a = single(rng, n)
        emit(cases, BOXED_UN, [a])
        for c in (0, 1):
            add(Case('boxed.conditional_negate', [a, c], mop='boxed.conditional_negate', dbg=True))
    return cases
