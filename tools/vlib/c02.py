"""C02 generator: unsigned division / remainder, all forms."""
from .common import Case
from .gen import *

NS = [1, 2, 3, 4, 6, 8, 16, 32, 64]
MIXED = [(1, 1), (1, 2), (2, 1), (2, 2), (2, 3), (3, 2), (3, 3), (4, 1), (4, 2), (4, 3), (4, 4), (4, 6),
         (6, 3), (6, 4), (6, 6), (8, 2), (8, 4), (8, 8), (8, 16), (16, 3), (16, 8), (16, 16), (32, 4), (32, 16), (32, 32),
         (64, 8), (64, 32), (64, 64)]
REM_MIXED = [(3, 1), (3, 2), (4, 1), (4, 3), (6, 2), (6, 4), (8, 3), (8, 5), (16, 7), (16, 9)]
OPF = ['op_vv', 'op_vr', 'op_rv', 'op_rr', 'assign', 'assign_ref']
WF = ['w_vv', 'w_vr', 'w_rv', 'w_rr', 'w_assign', 'w_assign_ref']

def divisor(rng, m, maxbits=None):
    """non-zero divisor of at most m limbs (value), with interesting shapes"""
    M = 1 << (64 * m)
    k = rng.random()
    if k < 0.08: d = 1
    elif k < 0.14: d = 1 << rng.randrange(64 * m)            # 2^k
    elif k < 0.20: d = M - 1
    elif k < 0.28: d = rng.choice([3, MAXW, 1 << 63, (1 << 63) + 1, (1 << 63) + 2, MAXW - 1, (1 << 32) + 1])  # single limb inside wide
    elif k < 0.45:
        # bit length a multiple of 64, top limb from {2^63.., MAX}, second limb 0 / MAX
        j = rng.randrange(1, m + 1)
        ls = [limb(rng) for _ in range(j)]
        ls[-1] = rng.choice([MAXW, 1 << 63, (1 << 63) + 1, MAXW - 1, (1 << 63) | rng.getrandbits(63)])
        if j >= 2 and rng.random() < 0.7: ls[-2] = rng.choice([0, MAXW, 1, MAXW - 1])
        if j >= 3 and rng.random() < 0.5: ls[0] = rng.choice([MAXW, 1, 0])
        d = from_limbs(ls)
    else:
        j = rng.randrange(1, m + 1)
        d = from_limbs(limbs(rng, j))
        if rng.random() < 0.5 and d:
            d >>= rng.randrange(0, 64)
    d %= M
    return d if d else 1

def dividend(rng, n, d):
    """n-limb dividend built from the answer: q*d + r with boundary remainders / all-ones quotient digits"""
    M = 1 << (64 * n)
    k = rng.random()
    if k < 0.10:
        return value(rng, n)
    if k < 0.16:
        return rng.choice([0, 1, d - 1, d, d + 1, M - 1]) % M
    dl = max(1, (d.bit_length() + 63) // 64)
    ql = max(0, n - dl + (1 if rng.random() < 0.3 else 0))
    kk = rng.random()
    if kk < 0.35 and ql > 0:
        q = (1 << (64 * rng.randrange(1, ql + 1))) - 1           # all-ones digits: r = d-1 at every step (add-back, capped estimate)
    else:
        q = from_limbs(limbs(rng, ql)) if ql else 0
    rr = rng.random()
    if rr < 0.25: r = d - 1
    elif rr < 0.40: r = 0
    elif rr < 0.48: r = 1 % d
    elif rr < 0.60: r = max(0, d - 1 - rng.getrandbits(rng.choice([1, 8, 64, 70])))
    elif rr < 0.70: r = max(0, d - 1 - (value(rng, 2) % d))
    else: r = value(rng, dl) % d
    nval = q * d + r
    while nval >= M:
        q >>= 1 + (q.bit_length() // 3)
        nval = q * d + r
        if q == 0 and nval >= M:
            nval %= M
    if rng.random() < 0.06: nval = max(0, nval - 1)
    if rng.random() < 0.06: nval = min(M - 1, nval + 1)
    return nval

def gen(tier, rng):
    scale = 1 if tier == 'quick' else 10
    cs = []
    add = cs.append
    # --- reciprocals: recip_ok is checked on structured divisors (<= 2 runs of ones, 2^63 + 2^k +- 1, extremes, uniform)
    ds = {1, 2, 3, MAXW, MAXW - 1, 1 << 63, (1 << 63) + 1, (1 << 63) - 1}
    for i in range(64):
        for j in range(i + 1):
            if rng.random() < (0.15 if tier == 'quick' else 1.0):
                ds.add(((1 << (i + 1)) - 1) ^ ((1 << j) - 1))            # one run of ones, bits j..i
        ds.add((1 << 63) + (1 << i)); ds.add((1 << 63) + (1 << i) - 1); ds.add(((1 << 63) + (1 << i) + 1) & MAXW)
        ds.add(MAXW ^ (1 << i)); ds.add((1 << i) | 1)
    for _ in range(400 * scale):
        ds.add(word(rng) or 1); ds.add(rng.getrandbits(64) | (1 << 63)); ds.add(rng.getrandbits(rng.randrange(1, 65)) or 1)
    for d in sorted(x & MAXW for x in ds):
        if d: add(Case('recip.new', [d], dbg=(d % 7 == 0)))
    # --- division by one limb
    for n in NS:
        reps = max(6, (60 if n <= 8 else 20) * scale)
        for _ in range(reps):
            d = divisor(rng, 1)
            x = to_limbs(dividend(rng, n, d), n)
            for f in ['', '.recip', '.trait', '.trait_recip']:
                add(Case('uint.div_rem_limb' + f, [x, d], mop='uint.div_rem_limb'))
                add(Case('uint.rem_limb' + f, [x, d], mop='uint.rem_limb'))
            for f in OPF + WF:
                add(Case('uint.rem_limb.' + f, [x, d], mop='uint.rem_limb'))
                add(Case('uint.div_limb.' + f, [x, d], mop='uint.div_limb'))
    # --- same-width ct and vartime
    for n in NS:
        reps = {1: 60, 2: 80, 3: 80, 4: 60, 6: 40, 8: 40, 16: 16, 32: 8, 64: 4}[n] * scale
        for _ in range(reps):
            d = divisor(rng, n)
            xv = dividend(rng, n, d)
            x, y = to_limbs(xv, n), to_limbs(d, n)
            add(Case('uint.div_rem', [x, y], dbg=True))
            add(Case('uint.rem', [x, y])); add(Case('uint.div', [x, y]))
            add(Case('uint.rem_vartime', [x, y], dbg=True))
            add(Case('uint.div_vartime.trait', [x, y], mop='uint.div_vartime'))
            add(Case('uint.checked_div', [x, y])); add(Case('uint.checked_rem', [x, y]))
            add(Case('uint.wrapping_rem_vartime', [x, y]))
            if rng.random() < 0.35:
                for f in OPF + WF:
                    add(Case('uint.rem.' + f, [x, y], mop='uint.rem')); add(Case('uint.div.' + f, [x, y], mop='uint.div'))
                for f in ['v', 'r']:
                    add(Case('uint.div_plain.' + f, [x, y], mop='uint.div_plain')); add(Case('uint.rem_plain.' + f, [x, y], mop='uint.rem_plain'))
                add(Case('uint.checked_div.trait', [x, y], mop='uint.checked_div'))
                add(Case('uint.checked_div.wrapper', [x, y], mop='uint.checked_div'))
            # double-width dividend
            d2 = divisor(rng, n)
            wide = to_limbs(dividend(rng, 2 * n, d2), 2 * n)
            add(Case('uint.rem_wide_vartime', [wide[:n], wide[n:], to_limbs(d2, n)], dbg=True))
            k = rng.choice([0, 1, 63, 64, 65, 64 * n - 1, 64 * n, 64 * n + 1, rng.randrange(0, 64 * n + 70), 0xffffffff])
            add(Case('uint.rem2k_vartime', [x, k]))
        # zero divisor: checked forms none, plain operators panic
        z = [0] * n; x = limbs(rng, n)
        add(Case('uint.checked_div', [x, z], dbg=True)); add(Case('uint.checked_rem', [x, z], dbg=True))
        add(Case('uint.checked_div.trait', [x, z], mop='uint.checked_div'))
        add(Case('uint.checked_div.wrapper', [x, z], mop='uint.checked_div'))
        add(Case('uint.div_plain.v', [x, z], mop='uint.div_plain')); add(Case('uint.rem_plain.r', [x, z], mop='uint.rem_plain'))
        add(Case('uint.wrapping_rem_vartime', [x, z]))
    # --- mixed widths (vartime)
    for (n, m) in MIXED:
        reps = max(3, (24 if n <= 8 else 6) * scale)
        for _ in range(reps):
            d = divisor(rng, m)
            x, y = to_limbs(dividend(rng, n, d), n), to_limbs(d, m)
            add(Case('uint.div_rem_vartime', [x, y], dbg=True))
            add(Case('uint.wrapping_div_vartime', [x, y], mop='uint.div_vartime'))
    for (n, m) in REM_MIXED:
        for _ in range(6 * scale):
            d = divisor(rng, m)
            add(Case('uint.rem_mixed', [to_limbs(dividend(rng, n, d), n), to_limbs(d, m)], mop='uint.rem_vartime'))
    # --- boxed
    for _ in range(160 * scale):
        n = rng.choice([1, 2, 3, 4, 5, 8, 16, 17, 31, 32, 33, 64, 70]) if rng.random() < 0.6 else rng.randrange(1, 71)
        d = divisor(rng, 1)
        x = to_limbs(dividend(rng, n, d), n)
        for f in ['', '.recip', '.trait']:
            add(Case('boxed.div_rem_limb' + f, [x, d], mop='boxed.div_rem_limb'))
            add(Case('boxed.rem_limb' + f, [x, d], mop='boxed.rem_limb'))
        # equal precision, ct
        n = rng.choice([1, 2, 3, 4, 5, 7, 8, 16, 17, 33]) if rng.random() < 0.8 else rng.randrange(1, 41)
        d = divisor(rng, n)
        x, y = to_limbs(dividend(rng, n, d), n), to_limbs(d, n)
        add(Case('boxed.div_rem', [x, y], dbg=True)); add(Case('boxed.rem', [x, y])); add(Case('boxed.div', [x, y]))
        add(Case('boxed.checked_div', [x, y])); add(Case('boxed.checked_div.trait', [x, y], mop='boxed.checked_div'))
        if rng.random() < 0.3:
            for f in OPF:
                add(Case('boxed.rem.' + f, [x, y], mop='boxed.rem')); add(Case('boxed.div.' + f, [x, y], mop='boxed.div'))
            for f in WF:
                add(Case('boxed.div.' + f, [x, y], mop='boxed.div'))
            add(Case('boxed.checked_div', [x, [0] * n], dbg=True))
        # different precisions, vartime
        n = rng.randrange(1, 71); m = rng.randrange(1, 71)
        if rng.random() < 0.5: n = rng.choice([1, 2, 3, 8, 32, 33, 64, 65, 70]); m = rng.choice([1, 2, 3, 8, 32, 33, 64, 65, 70])
        d = divisor(rng, m)
        x, y = to_limbs(dividend(rng, n, d), n), to_limbs(d, m)
        add(Case('boxed.div_rem_vartime', [x, y], dbg=True))
        add(Case('boxed.rem_vartime', [x, y], dbg=True))
        add(Case('boxed.wrapping_div_vartime', [x, y], mop='boxed.div_vartime'))
        add(Case('boxed.div_vartime.trait', [x, y], mop='boxed.div_vartime'))
        add(Case('boxed.rem_mixed', [x, y], mop='boxed.rem_vartime'))
        if n != m and rng.random() < 0.1:
            add(Case('boxed.div_rem', [x, y]))      # documented panic: precisions must match
    # --- every constant-time div_rem case is also compared against the limb-level model (Model/DivL0.v, Props/C02b.v)
    for c in list(cs):
        if c.rop in ('uint.div_rem', 'boxed.div_rem'):
            add(Case(c.rop + '_l0', c.args, mop=c.rop + '_l0', dbg=c.dbg))
    return cs
