"""C10 generator: modular inversion and gcd (Bernstein-Yang safegcd, inverse mod 2^k, CRT recombination).

What is covered (every random choice comes from the rng handed in by ./check):
* widths: Uint 1,2,3,4,6,8,16,32 limbs (the widths the crate instantiates SafeGcdInverter for, up to U2048), BoxedUint
  1..=33 limbs; every route of the API: inherent ct / vartime, InvMod / Gcd / Inverter / Invert traits, precomputed
  inverters (adjuster 1, arbitrary adjuster < m, R^2 inside MontyForm / ConstMontyForm / BoxedMontyForm), Int wrappers.
* odd moduli: 1, 3, 2^BITS-1, 2^(BITS-1)+-1, known primes 2^k-c and Mersenne primes of every size that fits, p*q, p^2,
  products of small primes, zero high limbs, random odd.  General moduli s*2^k: EVERY k in 0..BITS for 1 and 2 limbs, limb /
  62-bit-limb boundary k and k = BITS-1, BITS-2 for the wider ones, s in {1, 3, prime, composite, random}; modulus 0
  (totality probe: must be none, not a panic).
* a: 0, 1, m-1, m, m+1, 2m-1, 2^BITS-1, (m+-1)/2, multiples of a prime factor of m (reduced and not reduced), values sharing
  only the factor 2 with an even m, r*2^t with t in {1..5, 60..66, 122..130, 186..} (long runs of zero steps inside `jump`,
  across its 62-step boundary), powers of two, values BUILT FROM THE ANSWER (a = x^-1 mod m for an adversarial x from the limb
  alphabet, so the expected inverse has extreme limbs and exercises the final normalisation from (-2m, m) and the sign),
  negative Int operands incl. -1, -m, MIN.
* mod 2^k: every k in 0..=BITS for 1 and 2 limbs (and the boundary k for wider ones), odd and even a, a = 0, k = 0.
* gcd: (0,0), (0,v), (v,0), (v,v), (1,v), powers of two, (g*x*2^i, g*y*2^j) with coprime x, y for g in {1, prime, 2^t, random},
  consecutive Fibonacci numbers, neighbours, MAX; signed operands with all sign combinations incl. MIN.
* convergence (the named hypothesis `converged` of the Coq theorems): extra_check() evaluates, for EVERY generated case of an op
  that runs safegcd, the model op `conv:<op>` = "g reached 0 within iterations(f_bits, g_bits) jumps on the (f, g) this op feeds to
  the loop" and fails the check if it is ever not 1.  In addition the ops `*.safegcd_converged` / `*.gcd_converged` compare, on the
  Rust side, the constant-time result with the run-until-g=0 vartime result, and the debug profile trips the crate's own
  debug_assert!(g == 0).
Cases wider than 2 limbs carry an unused padding operand so that the vm_compute re-evaluation inside Coq (about 2 s per
64-bit inversion in the VM, minutes at 2048 bits) samples narrow cases only; the extracted model runs all of them.
"""
from math import gcd
from .common import Case
from .gen import *

UINT_NS = [1, 2, 3, 4, 6, 8, 16, 32]
PAD = [0] * 2000

# known primes 2^k - c (checked by Miller-Rabin at import)
_PRIME_SPECS = [(2, 1), (3, 1), (5, 1), (7, 1), (13, 1), (17, 1), (19, 1), (31, 1), (32, 5), (61, 1), (64, 59), (89, 1), (107, 1), (127, 1),
                (128, 159), (192, 237), (255, 19), (256, 189), (384, 317), (512, 569), (521, 1), (607, 1), (1024, 105),
                (1279, 1), (2048, 1557)]
SMALL_PRIMES = [3, 5, 7, 11, 13, 17, 19, 23, 29, 31, 37, 41, 43, 47, 53, 59, 61, 67, 71, 251, 257, 65537]

def _is_probable_prime(n):
    if n < 2: return False
    for p in (2, 3, 5, 7, 11, 13, 17, 19, 23, 29, 31, 37):
        if n % p == 0: return n == p
    d, s = n - 1, 0
    while d % 2 == 0: d //= 2; s += 1
    for a in (2, 3, 5, 7, 11, 13):
        x = pow(a, d, n)
        if x in (1, n - 1): continue
        for _ in range(s - 1):
            x = x * x % n
            if x == n - 1: break
        else:
            return False
    return True

PRIMES = sorted(set(p for p in ((1 << k) - c for k, c in _PRIME_SPECS) if _is_probable_prime(p)) | set(SMALL_PRIMES))

def primes_below(bound):
    return [p for p in PRIMES if p < bound]

def odd_modulus(rng, n):
    """(m, list of known prime factors)"""
    M = 1 << (64 * n)
    ps = primes_below(M)
    k = rng.random()
    if k < 0.04: return 1, []
    if k < 0.08: return 3, [3]
    if k < 0.14: return M - 1, [3, 5, 17, 257, 65537]
    if k < 0.17: return (M >> 1) + 1, []
    if k < 0.20: return (M >> 1) - 1, []
    if k < 0.34: return ps[-1], [ps[-1]]
    if k < 0.44:
        p = rng.choice(ps[-4:]); return p, [p]
    if k < 0.58:
        p = rng.choice(ps); qs = [q for q in ps if p * q < M]
        if qs:
            q = rng.choice(qs[-6:]); return p * q, [p, q]
        return p, [p]
    if k < 0.66:
        m, fs = 1, []
        while True:
            p = rng.choice(SMALL_PRIMES)
            if m * p >= M: break
            m *= p; fs.append(p)
            if rng.random() < 0.15: break
        return m, fs
    if k < 0.74:
        z = rng.randrange(1, n + 1)
        return from_limbs(limbs(rng, z)) | 1, []
    return value(rng, n) | 1, []

TZS = [1, 2, 3, 4, 5, 6, 30, 59, 60, 61, 62, 63, 64, 65, 66, 122, 123, 124, 125, 126, 127, 128, 130, 185, 186, 187, 188, 248, 310]

def operand(rng, m, fs, n, below=False):
    """an `a` for modulus m (known prime factors fs)"""
    M = 1 << (64 * n)
    k = rng.random()
    if k < 0.05: a = 0
    elif k < 0.10: a = 1
    elif k < 0.17: a = m - 1
    elif k < 0.21: a = m
    elif k < 0.25: a = m + 1
    elif k < 0.28: a = 2 * m - 1
    elif k < 0.32: a = M - 1
    elif k < 0.35: a = (m + rng.choice([-1, 1])) // 2
    elif k < 0.47 and fs:
        a = rng.choice(fs) * (value(rng, n) or 1)
        if rng.random() < 0.5 and m > 0: a %= m
    elif k < 0.62:
        t = rng.choice([t for t in TZS if t < 64 * n] or [1])
        r = rng.choice([1, 3, value(rng, n) | 1, rng.getrandbits(64) | 1])
        a = (r << t)
    elif k < 0.67: a = 1 << rng.randrange(64 * n)
    elif k < 0.87 and m > 1:
        # from the answer: the inverse has an adversarial limb pattern
        x = value(rng, n) % m
        a = pow(x, -1, m) if gcd(x, m) == 1 else x
        if rng.random() < 0.25 and a + m < M: a += m
    else: a = value(rng, n)
    a %= M
    if a < 0: a += M
    if below and m > 0: a %= m
    return a

def unit_like(rng, n):
    """odd g whose 62-bit limbs look like +1 / -1 except in one place: g = 1 + c*2^(62 j).  A common factor of this shape
    makes the final f equal to +-g, which differs from +-1 in a single 62-bit limb (the is_one / is_minus_one / eq scans)."""
    bits = 64 * n
    js = [j for j in range(1, n + 2) if 62 * j + 2 <= bits - 3]
    if not js: return None
    j = rng.choice(js)
    room = bits - 3 - 62 * j
    c = rng.choice([1, 3, rng.getrandbits(min(room, 62)) | 1, 1 << rng.randrange(min(room, 62))])
    return 1 + (c << (62 * j))

def structured_pair(rng, n):
    """(a, m odd) built from the structure of the algorithm; None if the width is too small"""
    M = 1 << (64 * n)
    c = rng.random()
    if c < 0.5:
        # tiny modulus, full-width a: the iteration count must follow max(bits f, bits g), not bits of the modulus
        m = rng.choice([1, 3, 5, 7, 15, 255, 1021, 65537, (1 << 31) - 1, rng.getrandbits(rng.randrange(2, 40)) | 1])
        a = rng.choice([M - 1, M - 2, (M >> 1) + (1 << (32 * n)) + rng.randrange(8), rng.getrandbits(64 * n) | (M >> 1), (M >> 1) | 1])
        return a % M, m
    g = unit_like(rng, n)
    if g is None: return None
    lim = M // g
    if lim < 4: return None
    y = rng.randrange(1, lim) | 1
    x = rng.randrange(1, lim)
    if y * g >= M: y = 1
    d = gcd(x, y)
    x //= d
    if rng.random() < 0.3: x = (x + y) % max(1, lim) or 1   # a >= m sometimes
    return (g * x) % M, g * y

def even_part_ks(n):
    bits = 64 * n
    if n <= 2: return list(range(bits))
    ks = {0, 1, 2, 3, 31, 32, 61, 62, 63, 64, 65, 66, 123, 124, 125, 127, 128, 129, bits - 65, bits - 64, bits - 63, bits - 2, bits - 1}
    ks |= {64 * j + d for j in range(1, n) for d in (-1, 0, 1)} if n <= 8 else set()
    return sorted(k for k in ks if 0 <= k < bits)

def mod2k_ks(n):
    bits = 64 * n
    if n <= 2: return list(range(bits + 1))
    ks = {0, 1, 2, 5, 61, 62, 63, 64, 65, 127, 128, 129, bits - 64, bits - 63, bits - 1, bits}
    return sorted(k for k in ks if 0 <= k <= bits)

def sgn(v, n):
    """two's complement encoding of the signed value v in n limbs"""
    return v % (1 << (64 * n))

def fib_pair(n):
    a, b = 1, 1
    M = 1 << (64 * n)
    while a + b < M: a, b = b, a + b
    return b, a

IS_SOME_FORM = {'uint.inv_odd_mod': 'uint.inv_odd_is_some', 'uint.inv_odd_mod_vartime': 'uint.inv_odd_is_some', 'uint.inv_mod': 'uint.inv_is_some',
                'boxed.inv_odd_mod': 'boxed.inv_odd_is_some', 'boxed.inv_odd_mod_vartime': 'boxed.inv_odd_is_some',
                'boxed.inv_mod': 'boxed.inv_is_some', 'int.inv_odd_mod': 'int.inv_odd_is_some', 'int.inv_mod': 'int.inv_is_some',
                'uint.inv_adj': 'uint.inv_odd_is_some', 'uint.inv_adj_vartime': 'uint.inv_odd_is_some'}

class Emit:
    def __init__(self, rng):
        self.cs = []; self.rng = rng
    def add(self, rop, n, args, mop=None, dbg=False):
        if len(args) >= 2 and args[1] == 1 and (mop or rop) in IS_SOME_FORM:
            # modulus 1: every a is invertible, the value is left open by the property -> observe is_some only
            rop = mop = IS_SOME_FORM[mop or rop]
        args = [to_limbs(x, n) if isinstance(x, int) else x for x in args]
        if n > 2: args = args + [PAD]
        self.cs.append(Case(rop, args, mop=mop or rop, dbg=dbg))

UINT_INV_ROUTES = [('uint.inv_odd_mod', 'uint.inv_odd_mod'), ('uint.inv_odd_mod.inverter', 'uint.inv_odd_mod'),
                   ('uint.inv_odd_mod.new_inv', 'uint.inv_odd_mod'), ('uint.inv_odd_mod_vartime.inverter', 'uint.inv_odd_mod_vartime'),
                   ('uint.inv_odd_mod_vartime.new_inv', 'uint.inv_odd_mod_vartime'), ('uint.inv_mod', 'uint.inv_mod'),
                   ('uint.inv_mod.trait', 'uint.inv_mod')]
BOXED_INV_ROUTES = [('boxed.inv_odd_mod', 'boxed.inv_odd_mod'), ('boxed.inv_odd_mod.inverter', 'boxed.inv_odd_mod'),
                    ('boxed.inv_odd_mod_vartime.inverter', 'boxed.inv_odd_mod_vartime'), ('boxed.inv_mod', 'boxed.inv_mod'),
                    ('boxed.inv_mod.trait', 'boxed.inv_mod')]
MONTY_ROUTES = [('monty.inv', 'monty.inv'), ('monty.inv.invert', 'monty.inv'), ('monty.inv.inverter', 'monty.inv'),
                ('monty.inv_vartime', 'monty.inv_vartime'), ('monty.inv_vartime.invert', 'monty.inv_vartime'),
                ('monty.inv_vartime.inverter', 'monty.inv_vartime')]
BMONTY_ROUTES = [('boxedmonty.inv', 'boxedmonty.inv'), ('boxedmonty.inv.trait', 'boxedmonty.inv'), ('boxedmonty.inv.inverter', 'boxedmonty.inv'),
                 ('boxedmonty.inv_vartime', 'boxedmonty.inv_vartime'), ('boxedmonty.inv_vartime.trait', 'boxedmonty.inv_vartime'),
                 ('boxedmonty.inv_vartime.inverter', 'boxedmonty.inv_vartime')]
CONST_MODULI = [(1, 0xffffffffffffffc5), (1, 3), (1, 0xffffffff), (2, (1 << 128) - 0x9f), (2, (1 << 64) + 0xf),
                (4, 0xffffffff00000000ffffffffffffffffbce6faada7179e84f3b9cac2fc632551),
                (4, 0x73eda753299d7d483339d80809a1d80553bda402fffe5bfeffffffff00000001), (4, (1 << 64) + 0xa5), (16, (1 << 1024) - 0x69)]
CONST_ROUTES = ['constmonty.inv', 'constmonty.inv.invert', 'constmonty.inv.inverter', 'constmonty.inv.inverter_trait',
                'constmonty.inv_vartime', 'constmonty.inv_vartime.invert', 'constmonty.inv_vartime.inverter',
                'constmonty.inv_vartime.inverter_trait']

def small_factors(m):
    fs = [p for p in SMALL_PRIMES if m % p == 0]
    return fs

def cost(n):
    """extracted-model seconds for one safegcd run at n saturated limbs (2.9*64n jumps on n+3 limbs)"""
    return 0.0033 * n * n + 0.009 * n

def evals(n, budget_s, lo=2):
    return max(lo, int(budget_s / (1.35 * cost(n))))

def gen_inversions(E, kind, n, count):
    """one model evaluation per generated (a, m): the route is drawn at random, so all routes are covered across pairs"""
    rng = E.rng
    routes = UINT_INV_ROUTES if kind == 'uint' else BOXED_INV_ROUTES
    mroutes = MONTY_ROUTES if kind == 'uint' else BMONTY_ROUTES
    M = 1 << (64 * n)
    half = M >> 1
    for i in range(count):
        m, fs = odd_modulus(rng, n)
        a = operand(rng, m, fs, n)
        if rng.random() < 0.22:
            sp = structured_pair(rng, n)
            if sp: a, m = sp; fs = small_factors(m)
        dbg = (i % 3 == 0)
        c = rng.random()
        if c < 0.45:
            rop, mop = routes[0] if rng.random() < 0.3 else rng.choice(routes)
            E.add(rop, n, [a, m], mop=mop, dbg=dbg)
        elif c < 0.57:
            E.add(kind + '.safegcd_converged', n, [m, a], dbg=dbg)
        elif c < 0.72:
            if m < 3: m, fs = odd_modulus(rng, n)[0] | 2, []
            rop, mop = rng.choice(mroutes)
            E.add(rop, n, [a % m, m], mop=mop, dbg=dbg)
        elif kind == 'uint' and c < 0.82:
            adj = operand(rng, m, fs, n, below=True) if m > 1 else 0
            E.add(rng.choice(['uint.inv_adj', 'uint.inv_adj_vartime']), n, [a, m, adj], dbg=dbg)
        elif kind == 'uint':
            # signed operand: a, -a, -1, -m, MIN
            sa = rng.choice([a % half, -(a % half), -(a % half), -1, -(m % half), -half, -((m - 1) % half), -half + 1, half - 1])
            E.add(rng.choice(['int.inv_odd_mod', 'int.inv_mod']), n, [sgn(sa, n), m], dbg=dbg)
        else:
            rop, mop = rng.choice(routes)
            E.add(rop, n, [a, m], mop=mop, dbg=dbg)

def even_modulus(rng, n, k):
    M = 1 << (64 * n)
    bits = 64 * n
    lim = 1 << (bits - k)
    c = rng.random()
    ps = primes_below(lim)
    if c < 0.2 or lim <= 2: s, fs = 1, []
    elif c < 0.3: s, fs = 3, [3]
    elif c < 0.5 and ps: s = ps[-1]; fs = [s]
    elif c < 0.65 and len(ps) > 1:
        p = rng.choice(ps); qs = [q for q in ps if p * q < lim]
        q = rng.choice(qs) if qs else 1
        s = p * q; fs = [p] + ([q] if q > 1 else [])
    elif c < 0.75: s, fs = lim - 1, small_factors(lim - 1)
    else:
        s = (rng.getrandbits(bits - k) | 1) % lim; fs = small_factors(s)
    if s % 2 == 0: s += 1
    if s >= lim: s = 1
    return s, fs

def gen_even_moduli(E, kind, n, count, zero_probe=True):
    rng = E.rng
    M = 1 << (64 * n)
    half = M >> 1
    ks = even_part_ks(n)
    if count < len(ks):
        ks = sorted(rng.sample(ks, count))
    per_k = max(1, count // len(ks))
    for k in ks:
        for j in range(per_k):
            s, fs = even_modulus(rng, n, k)
            m = (s << k) % M
            if m == 0: continue
            c = rng.random()
            if c < 0.25 and k > 0:
                # shares only the factor 2 with m
                x = (value(rng, n) | 1) % M
                while gcd(x, s) != 1: x += 2
                a = (x << rng.choice([1, 1, 2, min(k, 63)])) % M
            elif c < 0.55: a = operand(rng, m, fs + ([2] if k else []), n)
            elif c < 0.75:
                x = value(rng, n) % m
                a = pow(x, -1, m) if gcd(x, m) == 1 else x
            elif c < 0.85: a = (value(rng, n) | 1) % M
            else: a = operand(rng, s, fs, n)
            if rng.random() < 0.12 and k + 70 < 64 * n:
                # odd part and a share a factor congruent to 1 modulo 2^62
                g = 1 + (rng.choice([1, 3, 5]) << 62)
                lim = (1 << (64 * n - k)) // g
                if lim >= 2:
                    s = g * (rng.randrange(1, lim) | 1); m = (s << k) % M
                    a = (g * rng.randrange(1, 1 << 62)) % M
            dbg = (j + k) % 3 == 0
            c = rng.random()
            if c < 0.12:
                E.add(kind + '.safegcd_converged', n, [s, a], dbg=dbg)
            elif c < 0.24 and kind == 'uint':
                E.add('int.inv_mod', n, [sgn(rng.choice([1, -1]) * (a % half), n), m], dbg=dbg)
            else:
                E.add(rng.choice([kind + '.inv_mod', kind + '.inv_mod.trait']), n, [a, m], mop=kind + '.inv_mod', dbg=dbg)
    # modulus 0: must be none (a != 1), never a panic
    if zero_probe: E.add(rng.choice([kind + '.inv_mod', kind + '.inv_mod.trait']), n, [rng.choice([0, 2, 3, M - 1, value(rng, n) | 2]) % M, 0],
          mop=kind + '.inv_mod', dbg=True)

def gen_mod2k(E, kind, n, scale):
    rng = E.rng
    M = 1 << (64 * n)
    for k in mod2k_ks(n):
        cands = [1, 3, M - 1, value(rng, n) | 1, (1 << 63) | 1, rng.getrandbits(64 * n) | 1, 0, 2, value(rng, n) & ~1, 1 << (64 * n - 1)]
        for a in rng.sample(cands, 3 if (n <= 2 and scale == 1) else 6):
            # from the answer: inverse of an adversarial x modulo 2^k
            if a % 2 == 1 and k > 0 and rng.random() < 0.4:
                x = value(rng, n) | 1
                a = (pow(x, -1, 1 << k) + (rng.getrandbits(64 * n) << k)) % M
            op = rng.choice(['inv_mod2k', 'inv_mod2k_vartime'])
            E.add('%s.%s' % (kind, op), n, [a % M, [k]], dbg=(k % 4 == 0))
    for i in range(4 * scale):
        m = value(rng, n) | 1
        for rop in ([kind + '.inv_mod2k_full64', kind + '.inv_mod2k_full64.new']):
            E.add(rop, n, [m], mop=kind + '.inv_mod2k_full64', dbg=(i % 2 == 0))

def gcd_pairs(rng, n, count):
    M = 1 << (64 * n)
    out = [(0, 0), (0, 1), (1, 0), (1, 1), (M - 1, M - 1), (M - 1, 0), (0, M - 1), (M - 1, M - 2), (M >> 1, M >> 1), (M >> 1, 0),
           (M >> 1, M - 1), fib_pair(n), (2, 4), (M >> 1, 2)]
    v = value(rng, n)
    out += [(0, v), (v, 0), (v, v), (1, v), (v, 1), (v, (v + 1) % M)]
    ps = primes_below(M)
    for _ in range(count):
        c = rng.random()
        if c < 0.08:
            # tiny odd against full-width odd (both orders): the fixed iteration count must cover the wide operand
            t = rng.choice([1, 3, 5, 15, 1021, 65537, rng.getrandbits(rng.randrange(2, 40)) | 1])
            w = rng.choice([M - 1, (M >> 1) | 1, rng.getrandbits(64 * n) | (M >> 1) | 1])
            out.append((t, w) if rng.random() < 0.6 else (w, t))
        elif c < 0.15:
            g = unit_like(rng, n)
            if g is None or M // g < 4: g = 3
            lim = M // g
            x = rng.randrange(1, lim); y = rng.randrange(1, lim)
            out.append((g * x, g * y))
        elif c < 0.2:
            out.append((1 << rng.randrange(64 * n), 1 << rng.randrange(64 * n)))
        elif c < 0.25:
            out.append((1 << rng.randrange(64 * n), value(rng, n)))
        elif c < 0.75:
            g = rng.choice([1, rng.choice(ps), 1 << rng.choice([t for t in TZS if t < 64 * n] or [1]), value(rng, max(1, n // 2)) or 1,
                            rng.choice(SMALL_PRIMES) ** rng.randrange(1, 4)])
            lim = max(2, M // g)
            x = rng.randrange(1, lim); y = rng.randrange(1, lim)
            i = rng.choice([0, 0, 1, 5, 62, 63, 64, 65]); j = rng.choice([0, 0, 1, 2, 61, 62, 64, 130])
            x, y = (g * x << i), (g * y << j)
            if x >= M or y >= M: x, y = x % M, y % M
            if rng.random() < 0.5: x, y = y, x
            out.append((x, y))
        elif c < 0.85:
            x = value(rng, n) | 1
            out.append((x, value(rng, n)))
        else:
            out.append((value(rng, n), value(rng, n)))
    return out

def gen_gcd(E, kind, n, count):
    rng = E.rng
    M = 1 << (64 * n)
    half = M >> 1
    pairs = gcd_pairs(rng, n, count)
    if len(pairs) > count:
        pairs = rng.sample(pairs[:20], min(20, (count + 1) // 2)) + pairs[20:][:count // 2]
    for i, (x, y) in enumerate(pairs):
        dbg = (i % 3 == 0)
        c = rng.random()
        if kind == 'uint':
            if c < 0.2: E.add(rng.choice(['uint.gcd', 'uint.gcd.trait']), n, [x, y], mop='uint.gcd', dbg=dbg)
            elif c < 0.35: E.add('uint.gcd_vartime', n, [x, y], dbg=dbg)
            elif c < 0.45: E.add('uint.gcd_converged', n, [x, y], dbg=dbg)
            elif c < 0.55:
                E.add('odd.gcd_vartime', n, [x | 1, y], dbg=dbg)
            else:
                # signed: |values| <= 2^(BITS-1), all sign combinations, MIN
                sx = rng.choice([1, -1]) * (x % half) if rng.random() < 0.8 else -half
                sy = rng.choice([1, -1]) * (y % half) if rng.random() < 0.8 else -half
                if c < 0.7: E.add(rng.choice(['int.gcd', 'int.gcd_vartime']), n, [sgn(sx, n), sgn(sy, n)], dbg=dbg)
                elif c < 0.85: E.add(rng.choice(['int.gcd_uint', 'int.gcd_uint_vartime']), n, [sgn(sx, n), y], dbg=dbg)
                else: E.add(rng.choice(['uint.gcd_int', 'uint.gcd_int_vartime']), n, [x, sgn(sy, n)], dbg=dbg)
        else:
            if c < 0.4: E.add('boxed.gcd', n, [x, y], dbg=dbg)
            elif c < 0.6: E.add('boxed.gcd_vartime', n, [x, y], dbg=dbg)
            elif c < 0.75: E.add('boxed.gcd_converged', n, [x, y], dbg=dbg)
            else: E.add(rng.choice(['boxed_odd.gcd', 'boxed_odd.gcd_vartime']), n, [x | 1, y], dbg=dbg)

def gen_constmonty(E, scale):
    rng = E.rng
    for idx, (n, m) in enumerate(CONST_MODULI):
        fs = small_factors(m)
        for i in range(evals(n, 2.0 * scale, lo=3)):
            a = operand(rng, m, fs, n, below=True)
            rop = rng.choice(CONST_ROUTES)
            mop = 'monty.inv_vartime' if '_vartime' in rop else 'monty.inv'
            E.add(rop, n, [a, m, [idx]], mop=mop, dbg=(i % 2 == 0))

# core-seconds of extracted-model time per width in the quick tier (thorough: x10)
UINT_BUDGET = {1: 14, 2: 18, 3: 12, 4: 14, 6: 14, 8: 15, 16: 18, 32: 34}
def boxed_budget(n):
    if n <= 4: return 6
    if n <= 8: return 5
    if n in (16, 17): return 8
    if n >= 32: return 14
    return 4

def gen(tier, rng):
    scale = 1 if tier == 'quick' else 10
    E = Emit(rng)
    for n in UINT_NS:
        b = UINT_BUDGET[n] * scale
        gen_inversions(E, 'uint', n, evals(n, 0.42 * b))
        gen_even_moduli(E, 'uint', n, max(evals(n, 0.25 * b), len(even_part_ks(n)) if n <= 2 else 0))
        gen_gcd(E, 'uint', n, evals(n, 0.33 * b))
        gen_mod2k(E, 'uint', n, scale)
    for n in range(1, 34):
        b = boxed_budget(n) * scale
        if n > 8 and scale == 1:
            # quick tier, wide boxed values (1.5 .. 4 s of model time each): two evaluations per width, categories rotate
            gen_inversions(E, 'boxed', n, 1)
            if n % 2 == 0: gen_gcd(E, 'boxed', n, 1)
            else: gen_even_moduli(E, 'boxed', n, 1, zero_probe=(n in (17, 33)))
        else:
            gen_inversions(E, 'boxed', n, evals(n, 0.42 * b, lo=1))
            gen_even_moduli(E, 'boxed', n, evals(n, 0.25 * b, lo=1))
            gen_gcd(E, 'boxed', n, evals(n, 0.33 * b, lo=1))
        if n <= 4 or n in (8, 17, 33) or scale > 1:
            gen_mod2k(E, 'boxed', n, scale)
    # ---- headroom class: full-width operands that use the top two bits of the precision (the 62-bit unsaturated form
    #      needs ceil((BITS + 64) / 62) limbs; the widths with BITS = 0 mod 62, i.e. 31 and 62 limbs, have no slack)
    for n in ([1, 2, 4, 8, 17, 30, 31, 32] if scale == 1 else list(range(1, 34)) + [62]):
        M = 1 << (64 * n)
        m = M - 1
        for (a, mm) in ((m - 1, m), ((M >> 1) + 1, m), (m - 2, m), (M - 3, M - 1 - 2 * (n % 2))):
            if mm % 2 == 0 or a >= mm: continue
            rop, mop = BOXED_INV_ROUTES[(n + a) % len(BOXED_INV_ROUTES)]
            E.add(rop, n, [a, mm], mop=mop, dbg=(n <= 8))
        E.add('boxed.gcd', n, [(M >> 1) + 1, m], dbg=(n <= 8))
        if n in UINT_NS:
            E.add('uint.inv_odd_mod', n, [m - 1, m], dbg=(n <= 8))
            E.add('uint.gcd', n, [(M >> 1) + 1, m], dbg=(n <= 8))
    gen_constmonty(E, scale)
    return E.cs

# ---------------------------------------------------------------- convergence hypothesis, checked on every case
NO_SAFEGCD = {'uint.inv_mod2k', 'uint.inv_mod2k_vartime', 'uint.inv_mod2k_full64', 'boxed.inv_mod2k', 'boxed.inv_mod2k_vartime',
              'boxed.inv_mod2k_full64'}

def extra_check(ctx):
    """The Coq theorems about safegcd take `converged` (g = 0 after iterations(f_bits, g_bits) jumps) as a named
    hypothesis.  For EVERY generated case of an op that runs safegcd the model op `conv:<op>` re-runs the fixed-count
    loop on the (f, g) that op feeds to it and reports the flag; anything but 1 is a violation (the hypothesis of the
    table theorem is false on a concrete input)."""
    cs, seen = [], set()
    for c in ctx.cases:
        if c.mop in NO_SAFEGCD:
            continue
        k = (c.mop, c.argstr())
        if k in seen:
            continue
        seen.add(k)
        cc = Case('conv:' + c.mop, c.args, mop='conv:' + c.mop)
        cc.id = 'v%d' % len(cs)
        cs.append(cc)
    res = ctx.run_model(cs)
    viol, checked, outside = [], 0, 0
    for cc in cs:
        r = res.get(cc.id)
        if not r or len(r) < 2 or r[0] in ('unsupported', 'missing') or r[0].endswith('-exn'):
            raise RuntimeError('convergence op %s not runnable: %s' % (cc.rop, r))
        if r[1] == 'unsupported':
            outside += 1
            continue
        checked += 1
        if r[0] != 'ok 1':
            viol.append({'obligation': 'converged', 'kind': 'spec',
                         'desc': 'hypothesis `converged` is FALSE: %s %s -> model reports %s (g != 0 after iterations(f_bits, g_bits) jumps)'
                                 % (cc.rop, cc.argstr()[:300], r[0]), 'case': cc.to_json()})
    return viol, {'obligations': 1, 'convergence_flags_checked': checked, 'convergence_flags_outside_domain': outside}

ASSUMPTIONS = [
    'convergence of the Bernstein-Yang divsteps within iterations(f_bits, g_bits) jumps (Bernstein-Yang 2019, Thm 11.2) is the named '
    'hypothesis `converged` of the safegcd theorems; it is evaluated by the model (ops conv:<op>) on every generated safegcd case',
]
