"""C18 generator: DER INTEGER and RLP codecs of Uint<N> on values and on arbitrary octet strings.

Octet strings are argument lists of byte values.  What is covered (every item at every listed width):

* widths: DER = all 20 ArrayEncoding widths of src/uint/array.rs (1,2,3,4,6,7,8,9,12,13,14,16,24,28,32,48,56,64,96,128
  limbs = U64..U8192), full corpus at 1,2,3,4,6,8,16,32,64,128; RLP encode = 1..9,12,16,32,64,128,256 limbs;
  RLP decode = 1..4 limbs (the `Repr: Default` bound of the Decodable impl only holds up to [u8; 32]).
* values (encoders, and the canonical encodings fed to the decoders): 0, 1, 0x7f, 0x80, 0xff, 0x100, 2^BITS - 1,
  for every magnitude length m (all m up to 8 limbs, else the boundaries below) the top octet 0x01 / 0x7f / 0x80 / 0xff
  over a tail of 00.. / ff.. / random; magnitude lengths at the framing boundaries: DER content 127 | 128 octets
  (short | long form), 255 | 256 (0x81 | 0x82), RLP payload 55 | 56 (short | long string), 255 | 256 (one | two length
  octets); the limb alphabet of gen.limbs.
* decoders, built from the answer: the canonical encoding of values whose magnitude has cap-1, cap, cap+1, cap+2
  octets (cap = 8N) with the top bit clear and set (the oversize ones must be errors: F8), and of every value above;
  then one defect per input: a superfluous leading 0x00, a leading 0xff / missing 0x00 pad (negative), an unneeded pad,
  empty content, every tag octet 0..255, long form for a short length (0x81 k<128, 0x82 00 k, 0x82 k<256, 0x83 / 0x84
  with leading zero octets), indefinite 0x80, 0x85..0xff, length fields above Length::MAX and around it, a truncated
  length field, content shorter than announced (every prefix of small encodings), trailing garbage (one octet, a second
  TLV), empty input;  RLP: every single octet 0..255 (0x00 = non-canonical zero, 0x80 = zero, string / list prefixes
  without data), 0x81 b for every b, leading-zero payloads, long form in front of a payload of 1..cap+1 octets (F28a),
  long form with leading-zero / zero / huge / 8-octet length, trailing garbage after a canonical item (F28b), every
  prefix, list prefixes 0xc0..0xff, oversize by one and two octets;
* arbitrary octet strings of every length 0..8N+4 (DER: 8N+8) over the alphabet {00, ff, 80, 7f, 01, 02, 81, 82, random},
  and such strings behind a correct tag / a correct header;
* `TryFrom<UintRef>`: raw magnitudes of every length 0..8N+4 with 0..4 leading zero octets; `TryFrom<AnyRef>` from a
  tag octet and content; `DecodeValue::decode_value` with a header length equal to, below and above the available
  input and at Length::MAX.

The model follows the tree under test: when src/uint/encoding/der.rs (rlp.rs) does not contain the repair of
tools/fix_C18_1.diff (fix_C18_2.diff) the DER (RLP) decoder cases are evaluated with the `*_orig` model entries (the
code as found), so that on the unfixed tree impl == model everywhere and the disagreements with the spec are exactly
the F8 / F28 inputs (a concrete failing input in the replay); VERIF_C18_ORIG=1 forces the `*_orig` entries."""
import os
from .common import Case
from .gen import *

TRUSTED = [
    'Coq 8.16.1 kernel incl. its bytecode VM (vm_compute); native_compute not used',
    'no axioms: Print Assumptions of every theorem = Closed under the global context',
    'extraction: ExtrOcamlBasic + ExtrOcamlNativeString + ExtrOcamlZBigInt directives only (cross-checked against vm_compute on a sample each run)',
    'correspondence harness (Rust adapters, OCaml driver, Python generators/diff): sampled equality impl = model',
    'hand-written Gallina model of the glue in src/uint/encoding/{der,rlp}.rs AND of the code paths of the vendored crates der 0.8.0-rc.1 (SliceReader, Tag, Length, Header, UintRef, AnyRef, Encode) and rlp 0.6.1 (BasicEncoder, BasicDecoder, PayloadInfo, decode_usize): their observable byte contract incl. the error kind is compared on every case',
]
ASSUMPTIONS = [
    'der / rlp crates at the vendored versions (der 0.8.0-rc.1, rlp 0.6.1); inputs shorter than der\'s Length::MAX (256 MiB)',
    'the error KIND of a rejected input is not part of the property: the spec table takes it from the model, the model is compared with the crates',
]

DER_NS_FULL = [1, 2, 3, 4, 6, 8, 16, 32, 64, 128]
DER_NS_ALL = [1, 2, 3, 4, 6, 7, 8, 9, 12, 13, 14, 16, 24, 28, 32, 48, 56, 64, 96, 128]
RLP_ENC_NS = [1, 2, 3, 4, 5, 6, 7, 8, 9, 12, 16, 32, 64, 128, 256]
RLP_DEC_NS = [1, 2, 3, 4]
LEN_MAX = 0xfffffff
ORIG = os.environ.get('VERIF_C18_ORIG') == '1'

ENC_ROUTES = ['der.encode.to_der', 'der.encode.to_slice', 'der.encode.to_vec', 'der.encode.writer']
DEC_ROUTES = ['der.from_der', 'der.from_der.from_ber', 'der.from_der.reader', 'der.from_der.reader_decode']
ANY_ROUTES = ['der.from_any.try_from', 'der.from_any.try_into', 'der.from_any.decode_as']
UREF_ROUTES = ['der.from_uintref.try_from', 'der.from_uintref.try_into']
RLP_ENC_ROUTES = ['rlp.encode', 'rlp.encode.stream', 'rlp.encode.rlp_bytes', 'rlp.encode.list_item', 'rlp.encode.list_first_of_two', 'rlp.encode.list_pair']
RLP_DEC_ROUTES = ['rlp.decode', 'rlp.decode.as_val', 'rlp.decode.trait']


def _tree_has(path, needle):
    try:
        return needle in open(os.path.join(os.environ.get('VERIF_REPO') or '/repo', path)).read()
    except OSError:
        return True


DER_REPAIRED = _tree_has('src/uint/encoding/der.rs', 'checked_sub')       # tools/fix_C18_1.diff
RLP_REPAIRED = _tree_has('src/uint/encoding/rlp.rs', 'payload_info')      # tools/fix_C18_2.diff


def mop_dec(name):
    orig = ORIG or (name.startswith('der.') and not DER_REPAIRED) or (name.startswith('rlp.') and not RLP_REPAIRED)
    return name + '_orig' if orig else name


# ---------------------------------------------------------------- reference encoders (independent of the model)
def mag(x):
    return list(x.to_bytes((x.bit_length() + 7) // 8, 'big')) if x else []


def der_len(k):
    if k < 128:
        return [k]
    b = mag(k)
    return [0x80 + len(b)] + b


def der_content(x):
    m = mag(x)
    if not m:
        return [0]
    return ([0] if m[0] >= 0x80 else []) + m


def der_tlv(content, tag=2):
    return [tag] + der_len(len(content)) + list(content)


def der_enc(x):
    return der_tlv(der_content(x))


def rlp_str(p):
    p = list(p)
    if len(p) == 1 and p[0] < 0x80:
        return p
    if len(p) <= 55:
        return [0x80 + len(p)] + p
    b = mag(len(p))
    return [0xb7 + len(b)] + b + p


def rlp_enc(x):
    return rlp_str(mag(x))


# ---------------------------------------------------------------- values
def tails(rng, k):
    """k octets: zeros, ones, random"""
    return [[0] * k, [0xff] * k, [rng.randrange(256) for _ in range(k)]]


def mag_lengths(cap, marks):
    """magnitude lengths 1..cap: all of them for small capacities, the boundaries otherwise"""
    if cap <= 64:
        return list(range(1, cap + 1))
    s = set([1, 2, 3, 7, 8, 9, cap - 9, cap - 8, cap - 7, cap - 2, cap - 1, cap])
    for m in marks:
        for d in (-2, -1, 0, 1, 2):
            if 1 <= m + d <= cap:
                s.add(m + d)
    return sorted(s)


def magnitudes(rng, lengths, tops=(0x01, 0x7f, 0x80, 0xff), ntails=3):
    out = []
    for m in lengths:
        for t in tops:
            for tl in tails(rng, m - 1)[:ntails]:
                out.append(int.from_bytes(bytes([t] + tl), 'big'))
    return out


def values_for(rng, n, marks, count_rand, full=True):
    cap = 8 * n
    vs = [0, 1, 0x7f, 0x80, 0xff, 0x100, (1 << (64 * n)) - 1, (1 << (64 * n - 1)) - 1, 1 << (64 * n - 1)]
    if full:
        vs += magnitudes(rng, mag_lengths(cap, marks), ntails=3 if cap <= 32 else 2 if cap <= 64 else 1,
                         tops=(0x01, 0x7f, 0x80, 0xff) if cap <= 64 else (0x7f, 0x80))
    else:
        vs += magnitudes(rng, [1, 2, cap - 1, cap] + [m for m in marks if m <= cap], ntails=1)
    vs += [value(rng, n) for _ in range(count_rand)]
    seen, out = set(), []
    for v in vs:
        if 0 <= v < (1 << (64 * n)) and v not in seen:
            seen.add(v)
            out.append(v)
    return out


def alpha(rng):
    return rng.choice([0, 0xff, 0x80, 0x7f, 1, 2, 0x81, 0x82, rng.randrange(256), rng.randrange(256)])


def rand_octets(rng, k):
    r = rng.random()
    if r < 0.1: return [0] * k
    if r < 0.2: return [0xff] * k
    if r < 0.3: return [rng.randrange(256) for _ in range(k)]
    return [alpha(rng) for _ in range(k)]


# ---------------------------------------------------------------- DER decoder inputs
def der_bad_lengths(k):
    """length fields that announce k but are not the minimal definite form, plus malformed / oversize ones"""
    out = []
    if k < 128:
        out.append([0x81, k])
    if k < 256:
        out.append([0x82, 0, k])
    if k < 65536:
        out.append([0x83, 0, k >> 8, k & 255])
        out.append([0x84, 0, 0, k >> 8, k & 255])
    if 128 <= k < 256:
        out.append([0x82, 0, k])
    if 256 <= k < 65536:
        out.append([0x83, 0, k >> 8, k & 255])
    out.append([0x85, 0, 0, 0, k >> 8 & 255, k & 255])
    return out


MALFORMED_LENGTHS = [
    [0x80], [0x81], [0x82], [0x82, 1], [0x83, 1, 0], [0x84, 1, 0, 0], [0x81, 0x7f], [0x81, 0x00], [0x81, 0x80], [0x81, 0xff],
    [0x82, 0x00, 0xff], [0x82, 0x01, 0x00], [0x82, 0xff, 0xff], [0x83, 0x00, 0xff, 0xff], [0x83, 0x01, 0x00, 0x00],
    [0x83, 0xff, 0xff, 0xff], [0x84, 0x00, 0xff, 0xff, 0xff], [0x84, 0x01, 0x00, 0x00, 0x00], [0x84, 0x0f, 0xff, 0xff, 0xff],
    [0x84, 0x0f, 0xff, 0xff, 0xf9], [0x84, 0x0f, 0xff, 0xff, 0xfa], [0x84, 0x10, 0x00, 0x00, 0x00], [0x84, 0xff, 0xff, 0xff, 0xff],
    [0x85, 1, 0, 0, 0, 0], [0x88, 0, 0, 0, 0, 0, 0, 0, 1], [0xfe], [0xff], [0xff, 0xff],
]


def der_decoder_inputs(rng, n, vals, scale, full):
    """octet strings for from_der / AnyRef: returns list of byte lists"""
    cap = 8 * n
    out = []
    add = out.append
    # canonical encodings, in range and out of range
    for v in vals:
        add(der_enc(v))
    over = []
    for m in (cap - 1, cap, cap + 1, cap + 2, cap + 3):
        if m < 1:
            continue
        for t in (0x01, 0x7f, 0x80, 0xff):
            for tl in tails(rng, m - 1)[:3 if full else 1]:
                over.append(int.from_bytes(bytes([t] + tl), 'big'))
    over += [1 << (64 * n), (1 << (64 * n)) + 1, (1 << (64 * n + 8)) - 1, 1 << (64 * n + 7), 1 << (64 * n + 63)]
    for v in over:
        add(der_enc(v))
    # one defect per input, from a handful of base values at the interesting lengths
    base = [0, 1, 0x7f, 0x80, 0xff, 0x0100, 0x7fff, 0x8000, (1 << (64 * n)) - 1, (1 << (64 * n - 1)) - 1,
            (1 << (64 * n - 8)) - 1, 1 << (64 * n - 9)]
    base += rng.sample(vals, min(len(vals), 6 * scale))
    if not full:
        base = [0, 0x80, (1 << (64 * n)) - 1, (1 << (64 * n - 1)) - 1] + rng.sample(vals, 1)
    for v in base:
        c = der_content(v)
        m = mag(v)
        add(der_tlv([0] + c))                        # superfluous leading zero
        add(der_tlv([0, 0] + c))
        add(der_tlv([0xff] + c))                     # negative
        if m:
            add(der_tlv(m))                          # the bare magnitude: negative when the top bit is set
            add(der_tlv([0] + m))                    # padded although not needed when the top bit is clear
        for lf in der_bad_lengths(len(c)):
            add([2] + lf + c)
        e = der_enc(v)
        add(e + [0]); add(e + [0xff]); add(e + [rng.randrange(256)]); add(e + e)     # trailing data
        add(e[:-1])                                   # content one short
        add([2] + der_len(len(c) + 1) + c)            # announced one more than present
        if len(c) > 1:
            add([2] + der_len(len(c) - 1) + c)        # announced one less (canonical or not, then trailing)
        for t in (0, 1, 3, 4, 0x22, 0x30, 0x42, 0x82, 0xa2, 0xc2, 0x1f, 0x3f, 0xff, 0x0b, 0x20):
            add([t] + e[1:])
        if len(e) <= 24:
            for k in range(len(e)):
                add(e[:k])
        else:
            for k in (0, 1, 2, 3, 4, 5, len(e) // 2, len(e) - 2):
                add(e[:k])
    add([2, 0]); add([2]); add([]); add([2, 0, 0]); add([2, 1]); add([2, 1, 0]); add([2, 1, 0x80]); add([2, 2, 0, 0])
    add([2, 2, 0, 0x7f]); add([2, 2, 0, 0x80]); add([2, 2, 0xff, 0xff]); add([2, 1, 0xff]); add([2, 2, 0x80, 0])
    for lf in MALFORMED_LENGTHS:
        add([2] + lf)
        if full:
            add([2] + lf + [1])
            add([2] + lf + [0] * 3)
        add([2] + lf + rand_octets(rng, rng.randrange(0, cap + 3)))
    # arbitrary strings of every length 0 .. cap + 8
    lens = list(range(0, cap + 9)) if cap <= 64 else sorted(set(
        list(range(0, 12)) + list(range(cap - 4, cap + 9)) + [126, 127, 128, 129, 130, 131, 132, 255, 256, 257, 258, 259, 260, 261]
        + [rng.randrange(cap + 9) for _ in range(12 * scale)]))
    if not full:
        lens = sorted(set([0, 1, 2, 3, cap - 1, cap, cap + 1, cap + 2, cap + 3, cap + 4, cap + 8] + [rng.randrange(cap + 9) for _ in range(4 * scale)]))
    for L in lens:
        if L > cap + 8:
            continue
        for _ in range(2 * scale if full else 1):
            add(rand_octets(rng, L))
        if L >= 1:
            add([2] + rand_octets(rng, L - 1))                         # right tag
        if L >= 2:
            c = rand_octets(rng, L)
            add(der_tlv(c))                                            # right header, arbitrary content
            c2 = [rng.choice([0, 0, 0x7f, 0x80, 0xff, 1])] + rand_octets(rng, L - 1)
            add(der_tlv(c2))
    return out


def der_cases(tier, rng, cases):
    scale = 1 if tier == 'quick' else 24
    add = cases.append
    for n in DER_NS_ALL:
        full = n in DER_NS_FULL
        # content 127|128 and 255|256 octets <-> magnitude lengths around them
        vals = values_for(rng, n, marks=[126, 127, 128, 255, 256], count_rand=(10 if full else 3) * scale, full=full)
        # ---- encoders
        for i, v in enumerate(vals):
            ls = to_limbs(v, n)
            add(Case(ENC_ROUTES[0], [ls], mop='der.encode', dbg=True))
            if i % 3 == 0 or v < 512:
                for r in ENC_ROUTES[1:]:
                    add(Case(r, [ls], mop='der.encode', dbg=(i % 6 == 0)))
                add(Case('der.encoded_len', [ls], mop='der.encoded_len', dbg=True))
                add(Case('der.value_len', [ls], mop='der.value_len', dbg=True))
                add(Case('der.encode_value', [ls], mop='der.encode_value', dbg=True))
        # ---- decoders on octet strings
        inputs = der_decoder_inputs(rng, n, vals, scale, full)
        for i, bs in enumerate(inputs):
            add(Case('der.from_der', [bs, [n]], mop=mop_dec('der.from_der'), dbg=True))
            if i % 2 == 0 or not full:
                add(Case(ANY_ROUTES[i % 3], [bs, [n]], mop=mop_dec('der.from_any'), dbg=(i % 4 == 0)))
            if i % 5 == 0:
                add(Case(DEC_ROUTES[1 + (i // 5) % 3], [bs, [n]], mop=mop_dec('der.from_der'), dbg=False))
        # every tag octet in front of a valid body, and as AnyRef parts
        if n in (1, 4):
            for t in range(256):
                add(Case('der.from_der', [[t, 1, 5], [n]], mop=mop_dec('der.from_der')))
                add(Case(ANY_ROUTES[t % 3], [[t, 1, 5], [n]], mop=mop_dec('der.from_any')))
                add(Case('der.from_any_parts', [[t], [5], [n]], mop=mop_dec('der.from_any_parts')))
                add(Case('der.from_any_parts', [[t], [], [n]], mop=mop_dec('der.from_any_parts')))
        # ---- TryFrom<AnyRef> from parts: tag + content
        cap = 8 * n
        contents = [[], [0], [0, 0], [1], [0x7f], [0x80], [0, 0x80], [0, 0x7f], [0xff], [0, 0xff], [0xff, 0xff]]
        for m in (cap - 1, cap, cap + 1, cap + 2):
            for t in (0x01, 0x7f, 0x80, 0xff):
                body = [t] + rand_octets(rng, m - 1)
                contents += [body, [0] + body, [0, 0] + body]
        contents += [der_content(v) for v in rng.sample(vals, min(len(vals), 8 * scale))]
        for c in contents:
            add(Case('der.from_any_parts', [[2], c, [n]], mop=mop_dec('der.from_any_parts'), dbg=True))
            add(Case('der.from_any_parts', [[rng.choice([2, 2, 3, 4, 0x30, 0x82, 0x02 | 0x20])], c, [n]],
                     mop=mop_dec('der.from_any_parts')))
            # decode_value: header length = / < / > the available input
            for hl in sorted(set([len(c), max(0, len(c) - 1), len(c) + 1, 0, 1])):
                add(Case('der.decode_value', [[hl], c, [n]], mop=mop_dec('der.decode_value'), dbg=(hl == len(c))))
                if hl == len(c) or hl == 0:
                    add(Case('der.decode_value', [[hl], c + [rng.randrange(256)], [n]], mop=mop_dec('der.decode_value')))
        for hl in (LEN_MAX, LEN_MAX - 1, LEN_MAX + 1, 1 << 31, (1 << 32) - 1, 128, 65536):
            add(Case('der.decode_value', [[hl], [1, 2, 3], [n]], mop=mop_dec('der.decode_value')))
        # ---- TryFrom<UintRef>: raw magnitudes with leading zeros, every length around the capacity
        ulens = list(range(0, cap + 5)) if cap <= 64 else sorted(set(list(range(0, 6)) + list(range(cap - 3, cap + 5))))
        k = 0
        for L in ulens:
            for z in (0, 1, 2, 4):
                if z > L:
                    continue
                for t in (0x01, 0x80, 0xff):
                    body = [0] * z + ([t] + rand_octets(rng, L - z - 1) if L > z else [])
                    add(Case(UREF_ROUTES[k % 2], [body, [n]], mop=mop_dec('der.from_uintref'), dbg=(k % 3 == 0)))
                    k += 1
                    if L == z:
                        break
        add(Case(UREF_ROUTES[0], [[0] * (cap + 9) + [7], [n]], mop=mop_dec('der.from_uintref')))
        add(Case(UREF_ROUTES[1], [[0] * 3 + [0xff] * cap, [n]], mop=mop_dec('der.from_uintref')))
        add(Case(UREF_ROUTES[1], [[0] * 3 + [1] + [0] * cap, [n]], mop=mop_dec('der.from_uintref')))


# ---------------------------------------------------------------- RLP
def rlp_decoder_inputs(rng, n, scale):
    cap = 8 * n
    out = []
    add = out.append
    vals = values_for(rng, n, marks=[], count_rand=12 * scale)
    for v in vals:
        add(rlp_enc(v))
    over = []
    for m in (cap + 1, cap + 2, cap + 3, 55, 56, 57, 60):
        if m <= cap:
            continue
        for t in (0x01, 0x7f, 0x80, 0xff):
            over.append(int.from_bytes(bytes([t] + rand_octets(rng, m - 1)), 'big'))
    for v in over:
        add(rlp_enc(v))
    for b in range(256):
        add([b])                                     # every single octet
        add([0x81, b])                               # one-octet string: canonical only for b >= 0x80
        if n in (1, 4) or b % 8 in (0, 7):
            add([b, 0])
            add([b, 1, 2, 3])
    base = [0, 1, 0x7f, 0x80, 0xff, 0x100, (1 << (64 * n)) - 1, (1 << (64 * n - 8)) - 1, 1 << (64 * n - 8)]
    base += rng.sample(vals, min(len(vals), 10 * scale))
    for v in base:
        m = mag(v)
        e = rlp_enc(v)
        add(e + [0]); add(e + [0x80]); add(e + [rng.randrange(256)]); add(e + e)          # trailing data (F28b)
        for k in range(len(e)):
            add(e[:k])                                                                    # truncated
        for z in (1, 2):
            p = [0] * z + m                                                               # leading zeros in the payload
            add([0x80 + len(p)] + p if len(p) <= 55 else rlp_str(p))
        if m:
            lb = mag(len(m))
            add([0xb8] + lb + m)                                                          # long form, short payload (F28a)
            add([0xb8] + lb + m + [0])
            add([0xb9, 0] + lb + m)                                                       # leading zero in the length
            add([0xb9] + [len(m) >> 8, len(m) & 255] + m)
            add([0xba, 0, 0] + lb + m)
            add([0xb8, len(m) + 1] + m)                                                   # announced more than present
            if len(m) > 1:
                add([0xb8, len(m) - 1] + m)                                               # announced less
            add([0x80 + len(m) + 1] + m)
            if len(m) > 1:
                add([0x80 + len(m) - 1] + m)
            add([0xc0 + len(m)] + m)                                                      # the same payload as a list
            add([0xf8, len(m)] + m)
    for k in range(1, cap + 3):
        p = [rng.choice([1, 0x7f, 0x80, 0xff])] + rand_octets(rng, k - 1)
        add([0xb8, k] + p)                                                                # long form for every short length
        add([0x80 + k] + p if k <= 55 else rlp_str(p))
    add([]); add([0xb8]); add([0xb8, 0]); add([0xb8, 0, 1]); add([0xb9, 0, 0]); add([0xb8, 56] + [1] * 56); add([0xb8, 56] + [1] * 55)
    add([0xb8, 55] + [1] * 55); add([0xb8, 33] + [1] * 33); add([0xb7] + [1] * 55); add([0xb7] + [1] * 54)
    add([0xbf] + [0xff] * 8); add([0xbf] + [0xff] * 8 + [1]); add([0xbf, 0x7f] + [0xff] * 7); add([0xbf] + [1] * 7); add([0xbf, 0] + [1] * 7)
    add([0xbb, 1, 0, 0, 0, 1]); add([0xbb, 0xff, 0xff, 0xff, 0xff, 1]); add([0xbc, 1, 0, 0, 0, 0]); add([0xbf, 0, 0, 0, 0, 0, 0, 0, 1, 5])
    add([0xbf, 1, 0, 0, 0, 0, 0, 0, 0, 5]); add([0xbe, 0xff, 0xff, 0xff, 0xff, 0xff, 0xff, 0xff, 5]); add([0xbf, 0xff, 0xff, 0xff, 0xff, 0xff, 0xff, 0xff, 0xf7, 5])
    add([0xbf, 0xff, 0xff, 0xff, 0xff, 0xff, 0xff, 0xff, 0xf6, 5]); add([0xf8]); add([0xf8, 0]); add([0xf8, 1, 5]); add([0xf8, 56] + [1] * 56)
    add([0xc1, 5]); add([0xc1]); add([0xc0, 0]); add([0xff] + [1] * 8 + [5]); add([0xf9, 0, 1, 5])
    for L in range(0, cap + 6):
        for _ in range(3 * scale):
            add(rand_octets(rng, L))
        if L >= 1:
            add([0x80 + min(L - 1, 55)] + rand_octets(rng, L - 1))
    return out


def rlp_cases(tier, rng, cases):
    scale = 1 if tier == 'quick' else 24
    add = cases.append
    for n in RLP_ENC_NS:
        vals = values_for(rng, n, marks=[54, 55, 56, 57, 255, 256, 257], count_rand=10 * scale, full=(n in (1, 2, 3, 4, 8, 16, 64, 256)))
        for i, v in enumerate(vals):
            ls = to_limbs(v, n)
            add(Case(RLP_ENC_ROUTES[0], [ls], mop='rlp.encode', dbg=True))
            if i % 3 == 0 or v < 512:
                for r in RLP_ENC_ROUTES[1:]:
                    add(Case(r, [ls], mop='rlp.encode', dbg=(i % 6 == 0)))
    for n in RLP_DEC_NS:
        for i, bs in enumerate(rlp_decoder_inputs(rng, n, scale)):
            add(Case(RLP_DEC_ROUTES[0], [bs, [n]], mop=mop_dec('rlp.decode'), dbg=True))
            if i % 3 == 0:
                add(Case(RLP_DEC_ROUTES[1 + (i // 3) % 2], [bs, [n]], mop=mop_dec('rlp.decode')))
            if i % 2 == 0 or len(bs) <= 2:
                add(Case('rlp.decode_item', [bs, [n]], mop=mop_dec('rlp.decode_item'), dbg=(i % 4 == 0)))


def corpus():
    """regression inputs of the defects this check found (F8: DER oversize panic; F28a/b: RLP long form in front of
    a short payload / trailing octets accepted)"""
    cs = []
    cs.append(Case('der.from_der', [[2, 9, 1, 0, 0, 0, 0, 0, 0, 0, 0], [1]], mop=mop_dec('der.from_der'), dbg=True))
    cs.append(Case('der.from_der', [[2, 10, 0, 0xff, 0, 0, 0, 0, 0, 0, 0, 1], [1]], mop=mop_dec('der.from_der'), dbg=True))
    cs.append(Case('der.from_any.try_from', [[2, 9, 1, 0, 0, 0, 0, 0, 0, 0, 0], [1]], mop=mop_dec('der.from_any'), dbg=True))
    cs.append(Case('der.from_uintref.try_from', [[1, 0, 0, 0, 0, 0, 0, 0, 0], [1]], mop=mop_dec('der.from_uintref'), dbg=True))
    cs.append(Case('rlp.decode', [[0xb8, 1, 5], [1]], mop=mop_dec('rlp.decode'), dbg=True))
    cs.append(Case('rlp.decode', [[5, 0], [1]], mop=mop_dec('rlp.decode'), dbg=True))
    cs.append(Case('rlp.decode', [[0xb8, 2, 1, 5, 6], [4]], mop=mop_dec('rlp.decode'), dbg=True))
    return cs


def gen(tier, rng):
    cases = []
    der_cases(tier, rng, cases)
    rlp_cases(tier, rng, cases)
    return cases


# ---------------------------------------------------------------- known-finding matcher proposals (not registered:
# both defects have a small repair, tools/fix_C18_1.diff and tools/fix_C18_2.diff)
def f8_der_oversize_panic(case, impl, model, spec):
    """F8: decoding a DER INTEGER (from_der / TryFrom<AnyRef> / TryFrom<UintRef> / decode_value) whose magnitude has
    more significant octets than the target Uint panics in copy_from_slice.  Exactly: the implementation panics and
    the specification demands an error."""
    return case.rop.startswith('der.') and impl == 'panic' and spec.startswith('err')


def f28_rlp_noncanonical_accepted(case, impl, model, spec):
    """F28: rlp::decode::<Uint<N>> accepts (a) a long-form length prefix (0xb8..0xbf) in front of a payload of at most
    55 octets and (b) any octets after the item.  Exactly: the input is an RLP string item with either defect, the
    implementation returns a value and the specification demands an error."""
    if not case.rop.startswith('rlp.decode') or case.rop.startswith('rlp.decode_item'):
        return False
    if not (impl.startswith('ok') and spec.startswith('err')):
        return False
    bs = case.args[0]
    if not bs:
        return False
    l = bs[0]
    if l <= 0x7f:
        return len(bs) > 1
    if l <= 0xb7:
        return len(bs) > 1 + l - 0x80
    if l <= 0xbf:
        ll = l - 0xb7
        ln = int.from_bytes(bytes(bs[1:1 + ll]), 'big')
        return ln <= 55 or len(bs) > 1 + ll + ln
    return False
