"""C16 generator: byte / hex / word / primitive conversions, concat / split / resize / widen / shorten,
formatting and serde payloads. Byte strings and hex strings are argument lists of byte values."""
from .common import Case
from .gen import *

NS = [1, 2, 3, 4, 5, 6, 7, 8, 16, 32]          # Uint<N> / Int<N> widths of the quantifier
ARR_NS = [1, 2, 3, 4, 6, 7, 8, 16, 32]         # widths with a hybrid-array ArrayEncoding impl
TRIPLES = [(l, o - l, o) for o in range(2, 9) for l in range(1, o)] + [
    (8, 8, 16), (16, 16, 32), (1, 15, 16), (15, 1, 16), (4, 12, 16), (12, 4, 16), (7, 9, 16), (9, 7, 16),
    (5, 11, 16), (11, 5, 16)]
HEXL, HEXU = b'0123456789abcdef', b'0123456789ABCDEF'
VALID_HEX = set(b'0123456789abcdefABCDEF')
# the neighbours of the three accepted ranges, and other likely confusions
EDGE_BAD = [0x2f, 0x3a, 0x40, 0x47, 0x60, 0x67, 0x20, 0x2b, 0x2d, 0x5f, 0x78, 0x58, 0x00, 0x7f, 0x0a, 0x30 + 16, 0x41 + 32 + 6]
UTF8_MULTI = [bytes([0xc2, 0x80]), bytes([0xc3, 0xa9]), bytes([0xdf, 0xbf]), bytes([0xe0, 0xa0, 0x80]),
              bytes([0xe2, 0x82, 0xac]), bytes([0xef, 0xbf, 0xbf]), bytes([0xf0, 0x90, 0x80, 0x80]),
              bytes([0xf4, 0x8f, 0xbf, 0xbf]), bytes([0xc2, 0xb0]), bytes([0xc3, 0xbf])]
E_INPUT, E_PREC = 2, 3


def utf8_ok(bs):
    try:
        bytes(bs).decode('utf-8')
        return True
    except UnicodeDecodeError:
        return False


def pattern_limbs(n, k=37, c=11):
    """every byte of the value distinct (positions are recognisable after any permutation)"""
    bs = bytes(((i * k + c) % 256) for i in range(8 * n))
    return to_limbs(int.from_bytes(bs, 'little'), n)


def single_byte(n, pos, v=0xa5):
    return to_limbs(v << (8 * pos), n)


def values(rng, n, count):
    out = [pattern_limbs(n), pattern_limbs(n, 91, 200), [MAXW] * n, [0] * n,
           single_byte(n, 0), single_byte(n, 8 * n - 1), to_limbs(1 << (64 * n - 1), n)]
    if n > 1:
        out += [single_byte(n, 7), single_byte(n, 8), [0] * (n - 1) + [1], [1] + [0] * (n - 1)]
    out += [single_byte(n, rng.randrange(8 * n), rng.randrange(1, 256)) for _ in range(2)]
    while len(out) < count:
        out.append(limbs(rng, n))
    return out[:max(count, 9)]


def be(ls):
    return list(from_limbs(ls).to_bytes(8 * len(ls), 'big')) if ls else []


def le(ls):
    return list(from_limbs(ls).to_bytes(8 * len(ls), 'little')) if ls else []


def hexstr(rng, bs, mode=None):
    """hex characters of the byte string bs (two per byte, high nibble first); mode: l / u / mixed"""
    mode = mode or rng.choice('lum')
    out = []
    for b in bs:
        for d in (b >> 4, b & 15):
            tab = HEXL if mode == 'l' else HEXU if mode == 'u' else rng.choice([HEXL, HEXU])
            out.append(tab[d])
    return out


def rand_bytes(rng, k):
    r = rng.random()
    if r < 0.15: return [0xff] * k
    if r < 0.25: return [0] * k
    if r < 0.35: return [0] * (k - 1) + [rng.randrange(1, 256)] if k else []
    if r < 0.45: return [rng.randrange(1, 256)] + [0] * (k - 1) if k else []
    if r < 0.55: return [(i * 37 + 11) % 256 for i in range(k)]
    return [rng.choice([0, 0xff, 0x80, 0x7f, 1, rng.randrange(256)]) for _ in range(k)]


def bad_hex_variants(rng, good, count):
    """strings of the same byte length as `good` with at least one character that is no hex digit"""
    out = []
    n = len(good)
    if n == 0:
        return out
    for _ in range(count):
        s = list(good)
        r = rng.random()
        if r < 0.55:
            pos = rng.choice([0, 1, n - 1, n - 2, rng.randrange(n), rng.randrange(n)]) % n
            s[pos] = rng.choice(EDGE_BAD) if rng.random() < 0.7 else rng.choice([c for c in range(128) if c not in VALID_HEX])
        elif r < 0.8:
            m = rng.choice(UTF8_MULTI)
            if len(m) <= n:
                pos = rng.choice([0, n - len(m), rng.randrange(n - len(m) + 1)])
                s[pos:pos + len(m)] = list(m)
            else:
                s[0] = 0x67
        else:
            for _ in range(rng.randrange(2, 5)):
                s[rng.randrange(n)] = rng.choice(EDGE_BAD)
        if utf8_ok(s) and any(c not in VALID_HEX for c in s):
            out.append(s)
    return out


def gen(tier, rng):
    scale = 1 if tier == 'quick' else 10
    cases = []
    add = cases.append

    # ------------------------------------------------------------------ Limb
    lvals = [0, 1, MAXW, 1 << 63, 0x0102030405060708, 0xf1e2d3c4b5a69788, 0xff, 0xff << 56, 0x0123456789abcdef, 0xfedcba9876543210]
    lvals += [0xa5 << (8 * i) for i in range(8)] + [word(rng) for _ in range(20 * scale)]
    for x in lvals:
        add(Case('limb.to_be_bytes', [x], mop='limb.to_be_bytes', dbg=True))
        add(Case('limb.to_le_bytes', [x], mop='limb.to_le_bytes', dbg=True))
        add(Case('limb.to_le_bytes.serde', [x], mop='limb.to_le_bytes'))
        b = list(x.to_bytes(8, 'big'))
        add(Case('limb.from_be_bytes', [b], mop='limb.from_be_bytes', dbg=True))
        add(Case('limb.from_le_bytes', [b], mop='limb.from_le_bytes', dbg=True))
        add(Case('limb.from_le_bytes.serde', [b], mop='limb.from_le_bytes'))
        for kind in range(8):
            add(Case('limb.fmt', [x, kind], mop='limb.fmt'))
        add(Case('limb.from_prim.into_word', [x, 64], mop='limb.from_prim'))
        add(Case('limb.from_prim.into_wide', [x, 64], mop='limb.from_prim'))
        for kind in (8, 16, 32, 64):
            v = x & ((1 << kind) - 1)
            add(Case('limb.from_prim', [v, kind], mop='limb.from_prim', dbg=True))
            add(Case('limb.from_prim.from', [v, kind], mop='limb.from_prim', dbg=True))

    # ------------------------------------------------------------------ Uint<N> bytes
    for n in NS:
        reps = (14 if n <= 8 else 8) * scale
        for a in values(rng, n, reps):
            for e in ('be', 'le'):
                for r in ('inherent', 'trait'):
                    add(Case('uint.to_%s_bytes.%s' % (e, r), [a], mop='uint.to_%s_bytes' % e, dbg=True))
                add(Case('uint.to_%s_bytes.boxed' % e, [a], mop='uint.to_%s_bytes' % e, dbg=True))
                if n in ARR_NS:
                    add(Case('uint.to_%s_bytes.array' % e, [a], mop='uint.to_%s_bytes' % e, dbg=True))
            add(Case('uint.serde_ser', [a], mop='uint.serde_ser', dbg=True))
            # decoding of exactly sized input, every route
            for e, bs in (('be', be(a)), ('le', le(a)), ('be', le(a)), ('le', be(a))):
                add(Case('uint.from_%s_slice' % e, [bs, n], mop='uint.from_%s_slice' % e, dbg=True))
                add(Case('uint.from_%s_slice.trait' % e, [bs, n], mop='uint.from_%s_slice' % e, dbg=True))
                if n in ARR_NS:
                    add(Case('uint.from_%s_slice.array' % e, [bs, n], mop='uint.from_%s_slice' % e, dbg=True))
                    add(Case('uint.from_%s_slice.array_dec' % e, [bs, n], mop='uint.from_%s_slice' % e))
            frame = list((8 * n).to_bytes(8, 'little')) + le(a)
            add(Case('uint.serde_de', [frame, n], mop='uint.serde_de', dbg=True))
            for bad in (frame[:-1], frame[:8], frame[8:], list((8 * n + 1).to_bytes(8, 'little')) + le(a) + [0],
                        list((8 * n - 1).to_bytes(8, 'little')) + le(a), list((8 * n + 256).to_bytes(8, 'little')) + le(a),
                        list((8 * n + (1 << 32)).to_bytes(8, 'little')) + le(a), frame + [0x5a], [0xff] * 8 + le(a)):
                add(Case('uint.serde_de', [bad, n], mop='uint.serde_de'))
            # NonZero decoders
            add(Case('nonzero.from_be_bytes', [be(a), n], mop='nonzero.from_be_bytes'))
            add(Case('nonzero.from_le_bytes', [be(a), n], mop='nonzero.from_le_bytes'))
            if n in ARR_NS:
                add(Case('nonzero.from_be_bytes.array', [be(a), n], mop='nonzero.from_be_bytes'))
                add(Case('nonzero.from_le_byte_array', [be(a), n], mop='nonzero.from_le_byte_array'))
                add(Case('nonzero.from_le_byte_array', [le(a), n], mop='nonzero.from_le_byte_array'))
        # size strictness: every length around 8n, for all decoders
        for ln in sorted(set([0, 1, 7, 8, 8 * n - 8, 8 * n - 1, 8 * n, 8 * n + 1, 8 * n + 7, 8 * n + 8, 8 * n + 9, 16 * n])):
            for _ in range(2 * scale if ln != 8 * n else 1):
                bs = rand_bytes(rng, ln)
                for e in ('be', 'le'):
                    add(Case('uint.from_%s_slice' % e, [bs, n], mop='uint.from_%s_slice' % e, dbg=True))

    # ------------------------------------------------------------------ hex decoding (fixed width)
    for n in NS:
        reps = (10 if n <= 8 else 5) * scale
        for a in values(rng, n, reps):
            for mode in 'lum':
                s = hexstr(rng, be(a), mode)
                add(Case('uint.from_be_hex', [s, n], mop='uint.from_be_hex', dbg=True))
                add(Case('uint.from_le_hex', [s, n], mop='uint.from_le_hex', dbg=True))
                add(Case('uint.from_be_hex.int', [s, n], mop='uint.from_be_hex'))
                add(Case('odd.from_be_hex', [s, n], mop='odd.from_be_hex'))
                add(Case('odd.from_le_hex', [s, n], mop='odd.from_le_hex'))
                # ... and with the parity bit of the least significant byte (first / last byte) forced
                for k in (0, 1):
                    b2 = be(a)
                    b2[0] = (b2[0] & 0xfe) | k
                    b2[-1] = (b2[-1] & 0xfe) | (1 - k)
                    s2 = hexstr(rng, b2, mode)
                    add(Case('odd.from_le_hex', [s2, n], mop='odd.from_le_hex'))
                    add(Case('odd.from_be_hex', [s2, n], mop='odd.from_be_hex'))
            good = hexstr(rng, be(a))
            for s in bad_hex_variants(rng, good, 6):
                add(Case('uint.from_be_hex', [s, n], mop='uint.from_be_hex', dbg=True))
                add(Case('uint.from_le_hex', [s, n], mop='uint.from_le_hex', dbg=True))
                add(Case('uint.from_be_hex.int', [s, n], mop='uint.from_be_hex'))
                add(Case('odd.from_be_hex', [s, n], mop='odd.from_be_hex'))
                add(Case('odd.from_le_hex', [s, n], mop='odd.from_le_hex'))
        # wrong sizes (valid characters, and an invalid one)
        for ln in sorted(set([0, 1, 2, 15, 16, 16 * n - 16, 16 * n - 2, 16 * n - 1, 16 * n + 1, 16 * n + 2, 16 * n + 16, 32 * n])):
            if ln == 16 * n:
                continue
            s = [rng.choice(HEXL + HEXU) for _ in range(ln)]
            add(Case('uint.from_be_hex', [s, n], mop='uint.from_be_hex', dbg=True))
            add(Case('uint.from_le_hex', [s, n], mop='uint.from_le_hex', dbg=True))
            add(Case('odd.from_be_hex', [s, n], mop='odd.from_be_hex'))
            add(Case('odd.from_le_hex', [s, n], mop='odd.from_le_hex'))
    # every ASCII character in the high and in the low nibble position of every byte of a U64 / first,
    # middle, last byte of a U128
    for c in range(128):
        for pos in range(16):
            if pos >= 2 and c in VALID_HEX and rng.random() < 0.8:
                continue
            s = hexstr(rng, [0x12, 0x34, 0x56, 0x78, 0x9a, 0xbc, 0xde, 0xf1])
            s[pos] = c
            add(Case('uint.from_be_hex', [s, 1], mop='uint.from_be_hex'))
            add(Case('uint.from_le_hex', [s, 1], mop='uint.from_le_hex'))
        for pos in (0, 1, 14, 17, 30, 31):
            s = hexstr(rng, list(range(0x10, 0x20)))
            s[pos] = c
            add(Case('uint.from_be_hex', [s, 2], mop='uint.from_be_hex'))
            add(Case('boxed.from_be_hex', [s, 128], mop='boxed.from_be_hex'))
    for m in UTF8_MULTI:
        for pos in range(0, 16 - len(m) + 1):
            s = hexstr(rng, [0xab] * 8)
            s[pos:pos + len(m)] = list(m)
            add(Case('uint.from_be_hex', [s, 1], mop='uint.from_be_hex'))
            add(Case('uint.from_le_hex', [s, 1], mop='uint.from_le_hex'))
            add(Case('boxed.from_be_hex', [s, 64], mop='boxed.from_be_hex'))

    # ------------------------------------------------------------------ formatting
    for n in NS:
        for a in values(rng, n, 6 * scale):
            for kind in range(8):
                add(Case('uint.fmt', [a, kind], mop='uint.fmt'))
                add(Case('int.fmt', [a, kind], mop='int.fmt'))
    for n in list(range(0, 10)) + [16, 17, 32]:
        for a in (values(rng, n, 4 * scale) if n else [[]]):
            for kind in range(8):
                add(Case('boxed.fmt', [a, kind], mop='boxed.fmt'))

    # ------------------------------------------------------------------ words / limbs
    WROUTES = ['from_words', 'as_words', 'as_words_mut', 'to_limbs', 'as_limbs', 'as_limbs_mut', 'from_word_arr',
               'from_limb_arr', 'as_ref_words', 'as_ref_limbs', 'as_mut_words', 'as_mut_limbs', 'int_words',
               'int_as_words', 'int_limbs', 'int_as_uint', 'boxed_from_uint', 'boxed_from_uint_ref', 'boxed_from_odd']
    BROUTES = ['boxed_from_words', 'boxed_as_words', 'boxed_as_limbs', 'boxed_to_limbs', 'boxed_into_limbs',
               'boxed_from_slice', 'boxed_from_box', 'boxed_as_mut']
    for n in NS:
        for a in values(rng, n, 3 * scale)[:3 * scale] + [limbs(rng, n)]:
            for r in WROUTES:
                add(Case('uint.words_id.' + r, [a], mop='uint.words_id'))
    for n in list(range(1, 10)) + [16, 33]:
        for a in [limbs(rng, n) for _ in range(2 * scale)] + [pattern_limbs(n)]:
            for r in BROUTES:
                add(Case('uint.words_id.' + r, [a], mop='uint.words_id'))
            for r in ('', '.words', '.boxed_slice'):
                add(Case('boxed.from_vec' + r, [a], mop='boxed.from_vec'))
    for r in ('', '.words', '.boxed_slice'):
        add(Case('boxed.from_vec' + r, [[]], mop='boxed.from_vec'))
    for r in ('boxed_from_words', 'boxed_from_slice', 'boxed_as_words', 'boxed_as_limbs', 'boxed_to_limbs', 'boxed_into_limbs', 'boxed_as_mut'):
        # every constructor pads an empty limb sequence to one zero limb (zero-limb values are no longer constructible)
        add(Case('uint.words_id.' + r, [[]], mop='boxed.from_vec'))

    # ------------------------------------------------------------------ primitives
    def prim_values(kind):
        m = 1 << kind
        vs = [0, 1, 2, m - 1, m - 2, m >> 1, (m >> 1) - 1, (m >> 1) + 1, 0x80, 0x7f, 0xff, 0x100]
        if kind > 64:
            vs += [1 << 64, (1 << 64) - 1, (1 << 64) + 1, (1 << 63), MAXW << 64, (1 << 127) + 1, (1 << 127) | MAXW]
        vs += [rng.getrandbits(kind) for _ in range(3 * scale)]
        return sorted(set(v % m for v in vs))

    def parg(kind, v):
        return [v & MAXW, v >> 64] if kind > 64 else [v]
    for n in NS:
        for kind in (8, 16, 32, 64, 65, 128, 129):
            bits = {65: 64, 129: 128}.get(kind, kind)
            for v in prim_values(bits):
                add(Case('uint.from_prim', [parg(bits, v), kind, n], mop='uint.from_prim', dbg=True))
                if kind in (8, 16, 32, 64, 128):
                    add(Case('uint.from_prim.from', [parg(bits, v), kind, n], mop='uint.from_prim', dbg=True))
                if kind in (8, 16, 32, 64, 128):
                    add(Case('int.from_prim', [parg(bits, v), kind, n], mop='int.from_prim', dbg=True))
                    add(Case('int.from_prim.from', [parg(bits, v), kind, n], mop='int.from_prim', dbg=True))
        add(Case('uint.from_prim.from', [[word(rng)], 1, n], mop='uint.from_prim', dbg=True))
    for kind in (1, 8, 16, 32, 64, 128):
        bits = 64 if kind == 1 else kind
        for v in prim_values(bits):
            add(Case('boxed.from_prim', [parg(bits, v), kind], mop='boxed.from_prim', dbg=True))
    for n in (1, 2):
        for a in values(rng, n, 12 * scale):
            add(Case('uint.to_prim', [a, 64 * n], mop='uint.to_prim', dbg=True))
            add(Case('uint.to_prim.int', [a, 64 * n], mop='uint.to_prim', dbg=True))

    # ------------------------------------------------------------------ concat / split
    def cs_values(n):
        return [pattern_limbs(n), [i + 1 for i in range(n)], [MAXW] * n, limbs(rng, n), limbs(rng, n)] + \
               [limbs(rng, n) for _ in range(2 * (scale - 1))]
    for (l, h, o) in TRIPLES:
        for a in cs_values(o):
            lo, hi = a[:l], a[l:]
            for r in ('mixed', 'trait', 'from_tuple', 'from_tuple_ref'):
                add(Case('uint.concat.' + r, [lo, hi], mop='uint.concat', dbg=True))
            for r in ('mixed', 'trait', 'into_tuple'):
                add(Case('uint.split.' + r, [a, l], mop='uint.split', dbg=True))
            if l == h:
                for r in ('concat', 'trait_even'):
                    add(Case('uint.concat.' + r, [lo, hi], mop='uint.concat', dbg=True))
                for r in ('split', 'trait_even'):
                    add(Case('uint.split.' + r, [a, l], mop='uint.split', dbg=True))
    for l in (5, 6, 7):
        for a in cs_values(2 * l):
            add(Case('uint.concat.concat', [a[:l], a[l:]], mop='uint.concat'))
            add(Case('uint.split.split', [a, l], mop='uint.split'))

    # ------------------------------------------------------------------ resize
    def sign_values(n):
        tops = [0, 1, MAXW, 1 << 63, (1 << 63) - 1, (1 << 63) + 1, MAXW - 1, 1 << 62]
        out = []
        for t in tops:
            low = limbs(rng, n - 1) if n > 1 else []
            out.append(low + [t])
        out.append([i + 1 for i in range(n)])
        out.append([MAXW] * n)
        out.append([0] * (n - 1) + [1 << 63])
        out.append([MAXW] * (n - 1) + [(1 << 63) - 1])
        return out
    for n in NS:
        for t in NS:
            vs = sign_values(n)
            if tier == 'quick' and max(n, t) > 8:
                vs = vs[:6] + vs[8:]
            for a in vs:
                add(Case('uint.resize', [a, t], mop='uint.resize', dbg=True))
                add(Case('uint.resize.from_ref', [a, t], mop='uint.resize'))
                add(Case('int.resize', [a, t], mop='int.resize', dbg=True))
                add(Case('int.resize.from_ref', [a, t], mop='int.resize'))

    # ------------------------------------------------------------------ BoxedUint widen / shorten
    for n in list(range(1, 10)):
        for a in [pattern_limbs(n), [MAXW] * n, limbs(rng, n), [0] * (n - 1) + [1 << 63]] + [limbs(rng, n) for _ in range(scale - 1)]:
            bp = 64 * n
            for p in sorted(set([0, 1, 63, 64, 65, bp - 65, bp - 64, bp - 63, bp - 1, bp, bp + 1, bp + 63, bp + 64, bp + 65,
                                 bp + 128, 520, rng.randrange(0, 700)])):
                if p < 0:
                    continue
                add(Case('boxed.widen', [a, p], mop='boxed.widen', dbg=True))
                add(Case('boxed.shorten', [a, p], mop='boxed.shorten', dbg=True))
                if any(a):
                    add(Case('boxed.widen.nonzero', [a, p], mop='boxed.widen'))

    # ------------------------------------------------------------------ BoxedUint from_{be,le}_slice
    special_p = [0, 1, 2, 7, 8, 9, 15, 16, 17, 63, 64, 65, 71, 72, 73, 120, 121, 127, 128, 129, 191, 192, 193, 255, 256, 257,
                 448, 505, 511, 512, 513, 519, 520]
    ps = list(range(0, 521)) if tier != 'quick' else sorted(set(special_p + [rng.randrange(0, 521) for _ in range(40)]))

    def slice_cases(p):
        cb = (p + 7) // 8
        out = []
        for ln in sorted(set([0, 1, cb - 8, cb - 1, cb, cb + 1, cb + 7, cb + 8, cb + 9, p // 8, p // 8 + 9, rng.randrange(0, cb + 10)])):
            if ln < 0:
                continue
            out.append(rand_bytes(rng, ln))
            out.append([0] * ln)
            if ln:
                out.append([0] * (ln - 1) + [1])
                out.append([0xff] * ln)
        # values at the precision boundary, as big-endian byte strings of cb (and cb + 1, cb - 1) bytes
        for v in (2 ** p - 1, 2 ** p, 2 ** p + 1, 2 ** p >> 1, (2 ** p >> 1) - 1, 2 ** (p + 1) - 1, 2 ** (8 * cb) - 1,
                  2 ** p | rng.getrandbits(p) if p else 1, rng.getrandbits(p) if p else 0):
            if v < 0:
                continue
            need = (v.bit_length() + 7) // 8
            for ln in (cb - 1, cb, cb + 1, need):
                if ln >= need and ln >= 0:
                    out.append(list(v.to_bytes(ln, 'big')))
        return out
    for p in ps:
        for bs in slice_cases(p):
            add(Case('boxed.from_be_slice', [bs, p], mop='boxed.from_be_slice', dbg=True))
            add(Case('boxed.from_le_slice', [bs[::-1], p], mop='boxed.from_le_slice', dbg=True))

    # ------------------------------------------------------------------ BoxedUint from_be_hex
    for p in sorted(set([0, 1, 63, 64, 65, 100, 127, 128, 129, 191, 192, 256, 320, 448, 512, 513, 520] + [64 * k for k in range(0, 9)])):
        nl_doc = (p + 63) // 64          # bits_precision rounded up to whole limbs
        nl_dn = p // 64                  # ... a decoder that rounded down would expect this many
        lens = set([0, 1, 2, 15, 16, 17, 16 * nl_doc - 1, 16 * nl_doc + 1, 16 * nl_doc + 16])
        lens |= set(16 * nl for nl in (nl_doc, nl_dn, max(nl_doc - 1, 0), nl_doc + 1))
        for ln in sorted(x for x in lens if x >= 0):
            for _ in range(2 * scale if ln % 16 == 0 else 1):
                strs = [hexstr(rng, rand_bytes(rng, ln // 2)) + [rng.choice(HEXL)] * (ln % 2)]
                strs += bad_hex_variants(rng, strs[0], 2)
                for s in strs:
                    add(Case('boxed.from_be_hex', [s, p], mop='boxed.from_be_hex', dbg=True))
    return cases
